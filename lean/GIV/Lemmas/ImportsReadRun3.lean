/-
  C18 — good-path lemmas, part 3: import specs, groups, declarations, the whole scan.
-/
import GIV.Lemmas.ImportsReadRun2

namespace GIV.C18
open GIV GIV.ReadImports GIV.Gen.Imports

@[simp] theorem renderSp_nil : renderSp [] = [] := rfl

/-- not NUL and not an identifier byte: what must follow a keyword or identifier. -/
def nid (x : UInt8) : Prop := x ≠ 0 ∧ isIdent x = false

theorem isSpace_nid (c : UInt8) (h : isSpace c = true) : nid c := by
  rw [isSpace_iff] at h
  rcases h with h | h | h | h | h | h <;> subst h <;> exact ⟨by decide, by decide⟩

/-- white space followed by something whose first byte is `nid` starts with a `nid` byte. -/
theorem sp_head_nid (sp : Sp) (hw : sp.WF = true) (X : Bytes)
    (hX : sp = [] → ∀ x r, X = x :: r → nid x) (hne : sp ≠ [] ∨ X ≠ []) :
    ∃ x r, renderSp sp ++ X = x :: r ∧ nid x := by
  cases sp with
  | nil =>
    cases X with
    | nil => simp at hne
    | cons x r => exact ⟨x, r, by simp [renderSp], hX rfl x r rfl⟩
  | cons it sp' =>
    simp only [Sp.WF, List.all_cons, Bool.and_eq_true] at hw
    rw [renderSp_cons]
    cases it with
    | blank s => exact ⟨s, _, rfl, isSpace_nid s (blankWF_isSpace s hw.1)⟩
    | line body => exact ⟨47, _, rfl, by decide, by decide⟩
    | block body => exact ⟨47, _, rfl, by decide, by decide⟩

theorem PathLit.render_head (p : PathLit) : ∃ q r, p.render = q :: r ∧ (q = 96 ∨ q = 34) := by
  cases p with
  | raw body => exact ⟨96, _, rfl, Or.inl rfl⟩
  | interp items => exact ⟨34, _, rfl, Or.inr rfl⟩

theorem quote_facts (q : UInt8) (h : q = 96 ∨ q = 34) :
    solid q ∧ nid q ∧ q ≠ 46 ∧ q ≠ 41 ∧ q ≠ 40 ∧ q ≠ 105 := by
  rcases h with rfl | rfl <;>
    exact ⟨⟨by decide, by decide, by decide⟩, ⟨by decide, by decide⟩, by decide, by decide, by decide, by decide⟩

theorem solid_46 : solid 46 := ⟨by decide, by decide, by decide⟩
theorem solid_41 : solid 41 := ⟨by decide, by decide, by decide⟩
theorem solid_40 : solid 40 := ⟨by decide, by decide, by decide⟩
theorem solid_105 : solid 105 := ⟨by decide, by decide, by decide⟩

/-- `readImport` over white space and one import spec. -/
theorem readImport_run (st : St) (sp0 : Sp) (s : Spec) (tl b : Bytes) (i : List Bytes)
    (hr : Rep st (renderSp sp0 ++ s.render ++ tl) b i) (hw0 : sp0.WF = true) (hs : s.WF = true) :
    readImport st = G tl (s.render.reverse ++ (renderSp sp0).reverse ++ b) 0 (i ++ [s.path.render]) := by
  obtain ⟨name, sp, path⟩ := s
  simp only [Spec.WF, Bool.and_eq_true] at hs
  obtain ⟨⟨hsp, hpath⟩, hname⟩ := hs
  obtain ⟨q, pr, hq, hq2⟩ := PathLit.render_head path
  have hqf := quote_facts q hq2
  unfold readImport
  cases name with
  | none =>
    simp only [List.isEmpty_iff] at hname
    subst hname
    simp only [Spec.render, renderSp_nil, List.append_nil, List.nil_append] at hr ⊢
    rw [hq] at hr
    rw [peekByte_skip st sp0 (.byte q (pr ++ tl)) b i (by simpa [Ending.bytes] using hr) hw0 hqf.1]
    simp only [peekResult, hqf.2.2.1, if_false, hqf.2.1.2, Bool.false_eq_true]
    have hr2 : Rep (G (pr ++ tl) (q :: ((renderSp sp0).reverse ++ b)) q i)
        (renderSp [] ++ path.render ++ tl) ((renderSp sp0).reverse ++ b) i := by
      simpa [hq] using Rep.peeked q (pr ++ tl) ((renderSp sp0).reverse ++ b) i hqf.1.2.2
    rw [readString_run _ [] path tl _ i hr2 rfl hpath]
    simp
  | dot =>
    simp only [Spec.render] at hr ⊢
    rw [peekByte_skip st sp0 (.byte 46 (renderSp sp ++ path.render ++ tl)) b i
      (by simpa [Ending.bytes] using hr) hw0 solid_46]
    simp only [peekResult, if_true, G_setPeek]
    rw [readString_run _ sp path tl _ i (Rep.plain _ _ _) hsp hpath]
    simp
  | ident id =>
    simp only [Spec.render] at hr ⊢
    have hid := hname
    rw [identWF_iff] at hid
    obtain ⟨a, as, rfl⟩ : ∃ a as, id = a :: as := by
      cases id with
      | nil => exact absurd rfl hid.1
      | cons a as => exact ⟨a, as, rfl⟩
    have hid2 := hid.2
    simp only [List.all_cons, Bool.and_eq_true] at hid2
    have hsolid := isIdent_solid a hid2.1
    have ha46 : a ≠ 46 := by intro h; subst h; exact absurd hid2.1 (by decide)
    -- the byte after the identifier
    obtain ⟨x, r, hxr, hx⟩ := sp_head_nid sp hsp (path.render ++ tl)
      (by intro _ x r h; rw [hq] at h; simp at h; rw [← h.1]; exact hqf.2.1) (Or.inr (by simp [hq]))
    rw [peekByte_skip st sp0 (.byte a (as ++ renderSp sp ++ path.render ++ tl)) b i
      (by simpa [Ending.bytes] using hr) hw0 hsolid]
    simp only [peekResult, ha46, if_false, hid2.1, if_true]
    have hr2 : Rep (G (as ++ renderSp sp ++ path.render ++ tl) (a :: ((renderSp sp0).reverse ++ b)) a i)
        (renderSp [] ++ (a :: as) ++ x :: r) ((renderSp sp0).reverse ++ b) i := by
      have := Rep.peeked a (as ++ renderSp sp ++ path.render ++ tl) ((renderSp sp0).reverse ++ b) i hsolid.2.2
      simpa [← hxr] using this
    rw [readIdent_run _ [] (a :: as) x r _ i hr2 rfl hname hx.1 hx.2]
    have hr3 : Rep (G r (x :: (a :: as).reverse ++ (renderSp []).reverse ++ ((renderSp sp0).reverse ++ b)) x i)
        (renderSp sp ++ path.render ++ tl) ((a :: as).reverse ++ (renderSp []).reverse ++ ((renderSp sp0).reverse ++ b)) i := by
      have := Rep.peeked x r ((a :: as).reverse ++ (renderSp []).reverse ++ ((renderSp sp0).reverse ++ b)) i hx.1
      rw [← hxr] at this
      simpa using this
    rw [readString_run _ sp path tl _ i hr3 hsp hpath]
    simp

/-- the first byte of a spec: solid, and none of `)`, `(`. -/
theorem Spec.render_head (s : Spec) (hs : s.WF = true) (X : Bytes) :
    ∃ d r, s.render ++ X = d :: r ∧ solid d ∧ d ≠ 41 ∧ d ≠ 40 ∧ (startsWithIdent s = false → nid d) := by
  obtain ⟨name, sp, path⟩ := s
  simp only [Spec.WF, Bool.and_eq_true] at hs
  obtain ⟨⟨hsp, hpath⟩, hname⟩ := hs
  obtain ⟨q, pr, hq, hq2⟩ := PathLit.render_head path
  have hqf := quote_facts q hq2
  cases name with
  | none =>
    simp only [List.isEmpty_iff] at hname
    subst hname
    exact ⟨q, pr ++ X, by simp [Spec.render, hq], hqf.1, hqf.2.2.2.1, hqf.2.2.2.2.1, fun _ => hqf.2.1⟩
  | dot =>
    exact ⟨46, _, rfl, solid_46, by decide, by decide, fun _ => ⟨by decide, by decide⟩⟩
  | ident id =>
    rw [identWF_iff] at hname
    obtain ⟨a, as, rfl⟩ : ∃ a as, id = a :: as := by
      cases id with
      | nil => exact absurd rfl hname.1
      | cons a as => exact ⟨a, as, rfl⟩
    have ha := hname.2
    simp only [List.all_cons, Bool.and_eq_true] at ha
    refine ⟨a, _, rfl, isIdent_solid a ha.1, ?_, ?_, ?_⟩
    · intro h; subst h; exact absurd ha.1 (by decide)
    · intro h; subst h; exact absurd ha.1 (by decide)
    · intro h; simp [startsWithIdent] at h

theorem renderSpecs_cons (x : Sp × Spec) (xs : List (Sp × Spec)) :
    renderSpecs (x :: xs) = renderSp x.1 ++ x.2.render ++ renderSpecs xs := by
  simp [renderSpecs]

/-- the loop over the specs of a grouped import, up to and including the peeked `)`. -/
theorem groupLoop_run (close : Sp) (tl : Bytes) (hc : close.WF = true) :
    ∀ (specs : List (Sp × Spec)) (n : Nat) (st : St) (b : Bytes) (i : List Bytes),
      Rep st (renderSpecs specs ++ renderSp close ++ 41 :: tl) b i →
      specs.all (fun x => x.1.WF && x.2.WF) = true → specs.length + 1 ≤ n →
      groupLoop n st =
        G tl (41 :: (renderSp close).reverse ++ (renderSpecs specs).reverse ++ b) 41
          (i ++ specs.map (fun x => x.2.path.render)) := by
  intro specs
  induction specs with
  | nil =>
    intro n st b i hr _ hn
    obtain ⟨m, rfl⟩ : ∃ m, n = m + 1 := ⟨n - 1, by omega⟩
    rw [groupLoop, peekByte_skip st close (.byte 41 tl) b i (by simpa [renderSpecs, Ending.bytes] using hr) hc solid_41]
    simp [peekResult, renderSpecs]
  | cons x xs ih =>
    intro n st b i hr hw hn
    obtain ⟨m, rfl⟩ : ∃ m, n = m + 1 := ⟨n - 1, by simp at hn; omega⟩
    obtain ⟨sp, s⟩ := x
    simp only [List.all_cons, Bool.and_eq_true] at hw
    obtain ⟨⟨hsp, hs⟩, hrest⟩ := hw
    obtain ⟨R, hR⟩ : ∃ R, R = renderSpecs xs ++ renderSp close ++ 41 :: tl := ⟨_, rfl⟩
    obtain ⟨d, r, hdr, hd, hd41, _, _⟩ := Spec.render_head s hs R
    have hr1 : Rep st (renderSp sp ++ (Ending.byte d r).bytes) b i := by
      simpa [renderSpecs_cons, Ending.bytes, ← hdr, hR] using hr
    rw [groupLoop, peekByte_skip st sp (.byte d r) b i hr1 hsp hd]
    simp only [peekResult, ne_eq, hd41, not_false_eq_true, decide_true, G_err, Option.isNone_none,
      Bool.and_self, if_true]
    have hr2 : Rep (G r (d :: ((renderSp sp).reverse ++ b)) d i) (renderSp [] ++ s.render ++ R)
        ((renderSp sp).reverse ++ b) i := by
      have := Rep.peeked d r ((renderSp sp).reverse ++ b) i hd.2.2
      rw [← hdr] at this
      simpa using this
    rw [readImport_run _ [] s R _ i hr2 rfl hs]
    subst hR
    rw [ih m _ _ _ (Rep.plain _ _ _) hrest (by simp at hn; omega)]
    simp [renderSpecs_cons]

/-! ### import declarations -/

theorem kwImport_eq : kwImport = kwImportBytes := by decide
theorem kwPackage_eq : kwPackage = kwPackageBytes := by decide

/-- one iteration of ReadImports' loop, after `i` has been peeked. -/
def declBody (st : St) : St :=
  let st1 := readKeyword kwImport st
  let q := peekByte true st1
  if q.1 = 40 then
    let g := groupLoop (q.2.rest.length + 2) (nextByte false q.2).2
    (nextByte false g).2
  else readImport q.2

theorem declLoop_succ (n : Nat) (st : St) :
    declLoop (n + 1) st =
      if (peekByte true st).1 = 105 then declLoop n (declBody (peekByte true st).2) else (peekByte true st).2 := rfl

theorem renderSpecs_length (specs : List (Sp × Spec)) : specs.length ≤ (renderSpecs specs).length := by
  induction specs with
  | nil => simp
  | cons x xs ih =>
    rw [renderSpecs_cons]
    obtain ⟨q, pr, hq, _⟩ := PathLit.render_head x.2.path
    have : 1 ≤ x.2.render.length := by
      simp [Spec.render, hq]; omega
    simp; omega

theorem declBody_run (st : St) (d : Decl) (tl b : Bytes) (i : List Bytes)
    (hr : Rep st (d.render ++ tl) b i) (hd : d.WF = true) :
    declBody st = G tl (d.render.reverse ++ b) 0 (i ++ d.imports) := by
  have hkw : noNul kwImportBytes = true := by decide
  have hk0 : ∃ k ks, kwImportBytes = k :: ks ∧ solid k := ⟨105, _, rfl, solid_105⟩
  unfold declBody
  rw [kwImport_eq]
  cases d with
  | single sp s =>
    simp only [Decl.WF, Bool.and_eq_true, Bool.or_eq_true, Bool.not_eq_true'] at hd
    obtain ⟨⟨hsp, hs⟩, hsep⟩ := hd
    obtain ⟨d0, r0, hd0, hsol, _, h40, hnid⟩ := Spec.render_head s hs tl
    -- the byte after `import`
    obtain ⟨x, r, hxr, hx⟩ := sp_head_nid sp hsp (s.render ++ tl)
      (by
        intro hnil x r h
        rw [hd0] at h
        simp only [List.cons.injEq] at h
        rw [← h.1]
        rcases hsep with h1 | h1
        · subst hnil; simp at h1
        · exact hnid h1)
      (Or.inr (by simp [hd0]))
    have hr1 : Rep st (renderSp [] ++ kwImportBytes ++ x :: r) b i := by
      rw [← hxr]; simpa [Decl.render] using hr
    rw [readKeyword_run kwImportBytes st [] x r b i hr1 rfl hkw hk0 hx.1 hx.2]
    have hr2 : Rep (G r (x :: kwImportBytes.reverse ++ (renderSp []).reverse ++ b) x i)
        (renderSp sp ++ (Ending.byte d0 r0).bytes) (kwImportBytes.reverse ++ (renderSp []).reverse ++ b) i := by
      have := Rep.peeked x r (kwImportBytes.reverse ++ (renderSp []).reverse ++ b) i hx.1
      rw [← hxr, hd0] at this
      simpa [Ending.bytes] using this
    simp only
    rw [peekByte_skip _ sp (.byte d0 r0) _ i hr2 hsp hsol]
    simp only [peekResult, h40, if_false]
    have hr3 : Rep (G r0 (d0 :: ((renderSp sp).reverse ++ (kwImportBytes.reverse ++ (renderSp []).reverse ++ b))) d0 i)
        (renderSp [] ++ s.render ++ tl) ((renderSp sp).reverse ++ (kwImportBytes.reverse ++ (renderSp []).reverse ++ b)) i := by
      have := Rep.peeked d0 r0 ((renderSp sp).reverse ++ (kwImportBytes.reverse ++ (renderSp []).reverse ++ b)) i hsol.2.2
      rw [← hd0] at this
      simpa using this
    rw [readImport_run _ [] s tl _ i hr3 rfl hs]
    simp [Decl.render, Decl.imports]
  | group sp specs close =>
    simp only [Decl.WF, Bool.and_eq_true] at hd
    obtain ⟨⟨hsp, hclose⟩, hspecs⟩ := hd
    obtain ⟨R2, hR2⟩ : ∃ R2, R2 = renderSpecs specs ++ renderSp close ++ 41 :: tl := ⟨_, rfl⟩
    obtain ⟨x, r, hxr, hx⟩ := sp_head_nid sp hsp (40 :: R2)
      (by intro _ x r h; simp only [List.cons.injEq] at h; rw [← h.1]; exact ⟨by decide, by decide⟩)
      (Or.inr (by simp))
    have hr1 : Rep st (renderSp [] ++ kwImportBytes ++ x :: r) b i := by
      rw [← hxr, hR2]; simpa [Decl.render] using hr
    rw [readKeyword_run kwImportBytes st [] x r b i hr1 rfl hkw hk0 hx.1 hx.2]
    have hr2 : Rep (G r (x :: kwImportBytes.reverse ++ (renderSp []).reverse ++ b) x i)
        (renderSp sp ++ (Ending.byte 40 R2).bytes) (kwImportBytes.reverse ++ (renderSp []).reverse ++ b) i := by
      have := Rep.peeked x r (kwImportBytes.reverse ++ (renderSp []).reverse ++ b) i hx.1
      rw [← hxr] at this
      simpa [Ending.bytes] using this
    simp only
    rw [peekByte_skip _ sp (.byte 40 R2) _ i hr2 hsp solid_40]
    simp only [peekResult, if_true, G_rest]
    rw [nextByte_false _ 40 R2 _ i (Rep.peeked 40 R2 _ i (by decide)) (by decide)]
    simp only
    have hlen : specs.length + 1 ≤ R2.length + 2 := by
      have := renderSpecs_length specs
      rw [hR2]; simp; omega
    subst hR2
    rw [groupLoop_run close tl hclose specs _ _ _ i (Rep.plain _ _ _) hspecs hlen]
    simp only [List.cons_append]
    rw [nextByte_false _ 41 tl _ _ (Rep.peeked 41 tl _ _ (by decide)) (by decide)]
    simp [Decl.render, Decl.imports]

theorem Decl.render_head (d : Decl) : ∃ r, d.render = 105 :: r := by
  cases d <;> exact ⟨_, rfl⟩

theorem renderDecls_cons (x : Sp × Decl) (xs : List (Sp × Decl)) :
    renderDecls (x :: xs) = renderSp x.1 ++ x.2.render ++ renderDecls xs := by
  simp [renderDecls]

/-- ReadImports' loop over the import declarations, then the white space after them, up to the
end of input or the first byte of the next declaration (left peeked). -/
theorem declLoop_run (tsp : Sp) (e : Ending) (ht : tsp.WF = true) (he : e.OK)
    (hi : ∀ d tl, e = .byte d tl → d ≠ 105) :
    ∀ (decls : List (Sp × Decl)) (n : Nat) (st : St) (b : Bytes) (i : List Bytes),
      Rep st (renderDecls decls ++ renderSp tsp ++ e.bytes) b i →
      decls.all (fun x => x.1.WF && x.2.WF) = true → decls.length + 1 ≤ n →
      declLoop n st =
        (peekResult e ((renderSp tsp).reverse ++ (renderDecls decls).reverse ++ b)
          (i ++ decls.flatMap (fun x => x.2.imports))).2 := by
  intro decls
  induction decls with
  | nil =>
    intro n st b i hr _ hn
    obtain ⟨m, rfl⟩ : ∃ m, n = m + 1 := ⟨n - 1, by omega⟩
    rw [declLoop_succ, peekByte_skip st tsp e b i (by simpa [renderDecls] using hr) ht he]
    cases e with
    | eof => simp [peekResult, renderDecls]
    | comment body => simp [peekResult, renderDecls]
    | byte d tl =>
      have := hi d tl rfl
      simp [peekResult, renderDecls, this]
  | cons x xs ih =>
    intro n st b i hr hw hn
    obtain ⟨m, rfl⟩ : ∃ m, n = m + 1 := ⟨n - 1, by simp at hn; omega⟩
    obtain ⟨sp, d⟩ := x
    simp only [List.all_cons, Bool.and_eq_true] at hw
    obtain ⟨⟨hsp, hd⟩, hrest⟩ := hw
    obtain ⟨dr, hdr⟩ := Decl.render_head d
    obtain ⟨R, hR⟩ : ∃ R, R = renderDecls xs ++ renderSp tsp ++ e.bytes := ⟨_, rfl⟩
    have hr1 : Rep st (renderSp sp ++ (Ending.byte 105 (dr ++ R)).bytes) b i := by
      simpa [renderDecls_cons, Ending.bytes, hdr, hR] using hr
    rw [declLoop_succ, peekByte_skip st sp (.byte 105 (dr ++ R)) b i hr1 hsp solid_105]
    simp only [peekResult, if_true]
    have hr2 : Rep (G (dr ++ R) (105 :: ((renderSp sp).reverse ++ b)) 105 i) (d.render ++ R)
        ((renderSp sp).reverse ++ b) i := by
      have := Rep.peeked 105 (dr ++ R) ((renderSp sp).reverse ++ b) i (by decide)
      simpa [hdr] using this
    rw [declBody_run _ d R _ i hr2 hd]
    subst hR
    rw [ih m _ _ _ (Rep.plain _ _ _) hrest (by simp at hn; omega)]
    congr 2 <;> simp [renderDecls_cons]

end GIV.C18
