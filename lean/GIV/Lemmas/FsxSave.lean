/-
  GIV.Lemmas.FsxSave — txtar-c's walk (`saveDir`) followed by txtar-x (`extract`).
-/
import GIV.Lemmas.FsxFS
import GIV.Lemmas.TxtarQuote

namespace GIV.Fsx
open GIV GIV.Txtar

/-! ### names made of ordinary elements survive Clean and pass Write's test -/

theorem joinSep_head_normal {n : Bytes} {rest : List Bytes} (hn : Normal n) :
    (joinSep (n :: rest)).head? = n.head? ∧ n.head? ≠ some SEP ∧ n.head? ≠ none := by
  have hne : n ≠ [] := hn.1
  cases n with
  | nil => exact absurd rfl hne
  | cons b bs =>
    have hb : b ≠ SEP := by
      intro e; apply hn.2.2.2; rw [e]; simp
    refine ⟨?_, by simpa using hb, by simp⟩
    cases rest with
    | nil => rfl
    | cons d ds => rw [joinSep_cons_cons]; rfl

theorem cleanPath_joinSep_normal {ns : List Bytes} (hne : ns ≠ []) (hns : ∀ c ∈ ns, Normal c) :
    cleanPath (joinSep ns) = joinSep ns := by
  cases ns with
  | nil => exact absurd rfl hne
  | cons n rest =>
    obtain ⟨h1, h2, h3⟩ := joinSep_head_normal (rest := rest) (hns n (by simp))
    have hp : joinSep (n :: rest) ≠ [] := by
      intro e; rw [e] at h1; exact h3 h1.symm
    have hr : (joinSep (n :: rest)).head? ≠ some SEP := by rw [h1]; exact h2
    rw [cleanPath_rel hp hr, splitSep_joinSep hne (normal_nosep_of_mem hns), cleanComps_normal false [] hns]
    simp

theorem splitSep_dotdotSlash (t : Bytes) : splitSep (dotdotSlash ++ t) = dotdotB :: splitSep t := by
  have : dotdotSlash ++ t = dotdotB ++ SEP :: t := rfl
  rw [this]
  simp only [splitSep]
  rw [splitAux_append_sep dotdot_nosep]

theorem normal_accepted [FRej] {ns : List Bytes} (hne : ns ≠ []) (hns : ∀ c ∈ ns, Normal c) :
    Gen.Fsx.writeRejects (cleanPath (joinSep ns)) = false := by
  rw [cleanPath_joinSep_normal hne hns]
  have hsp := splitSep_joinSep hne (normal_nosep_of_mem hns)
  cases ns with
  | nil => exact absurd rfl hne
  | cons n rest =>
    obtain ⟨h1, h2, _⟩ := joinSep_head_normal (rest := rest) (hns n (by simp))
    have hn := hns n (by simp)
    apply FRej.accepts
    · rw [h1]; exact h2
    · intro e
      rw [e] at hsp
      have : splitSep dotB = [dotB] := by decide
      rw [this] at hsp
      injection hsp with h _
      exact hn.2.1 h.symm
    · intro e
      rw [e] at hsp
      have : splitSep dotdotB = [dotdotB] := by decide
      rw [this] at hsp
      injection hsp with h _
      exact hn.2.2.1 h.symm
    · rintro ⟨t, ht⟩
      rw [← ht, splitSep_dotdotSlash] at hsp
      injection hsp with h _
      exact hn.2.2.1 h.symm

/-! ### Write succeeds on prefix-free ordinary names into a clear target -/

def NotRelated (a b : List Bytes) : Prop := ¬ a <+: b ∧ ¬ b <+: a

theorem NotRelated.symm {a b : List Bytes} (h : NotRelated a b) : NotRelated b a := ⟨h.2, h.1⟩

/-- nothing is in the way of an extraction into `dir`: no ancestor of `dir` (nor `dir`) is a regular
file, and nothing exists beneath `dir`. (`dir` itself may or may not exist.) -/
def Clear (dir : Path) (fs : FS) : Prop :=
  (∀ q : Path, q <+: dir → ∀ d, fs.get q ≠ some (.file d)) ∧
  (∀ q : Path, dir <+: q → q ≠ dir → fs.get q = none)

structure Inv (dir : Path) (done : List (List Bytes)) (fs : FS) : Prop where
  up : ∀ q : Path, q <+: dir → ∀ d, fs.get q ≠ some (.file d)
  below : ∀ (q : Path) (n : Node), dir <+: q → q ≠ dir → fs.get q = some n →
    ∃ r ∈ done, q <+: dir ++ r ∧ ∀ d, n = .file d → q = dir ++ r

theorem inv_of_clear {dir : Path} {fs : FS} (h : Clear dir fs) : Inv dir [] fs :=
  ⟨h.1, fun q n h1 h2 h3 => by rw [h.2 q h1 h2] at h3; cases h3⟩

theorem append_prefix_append {dir a b : List Bytes} (h : dir ++ a <+: dir ++ b) : a <+: b :=
  (List.prefix_append_right_inj dir).mp h

def fileOf (i : List Bytes × Bytes) : File := ⟨joinSep i.1, i.2⟩

theorem writeFiles_succeeds [FRej] [FOpen] (dir : Path) (items : List (List Bytes × Bytes))
    (done : List (List Bytes)) (fs : FS) (hinv : Inv dir done fs)
    (hnorm : ∀ i ∈ items, i.1 ≠ [] ∧ ∀ c ∈ i.1, Normal c)
    (hpw : items.Pairwise (fun a b => NotRelated a.1 b.1))
    (hcross : ∀ r ∈ done, ∀ i ∈ items, NotRelated r i.1) :
    (writeFiles dir fs (items.map fileOf)).1 = none := by
  induction items generalizing done fs with
  | nil => rfl
  | cons i rest ih =>
    obtain ⟨hne, hns⟩ := hnorm i (by simp)
    have hrej : Gen.Fsx.writeRejects (cleanPath (fileOf i).name) = false := normal_accepted hne hns
    have hs : splitSep (cleanPath (fileOf i).name) = i.1 := by
      show splitSep (cleanPath (joinSep i.1)) = i.1
      rw [cleanPath_joinSep_normal hne hns, splitSep_joinSep hne (normal_nosep_of_mem hns)]
    obtain ⟨hstep, _, hsucc⟩ := writeOne_accepted (dir := dir) (fs := fs) (f := fileOf i) hrej hs hns hne
    have hok : (writeOne dir fs (fileOf i)).1 = none := by
      apply hsucc
      · intro q hq d hget
        rcases prefix_append_cases hq with h | ⟨h1, h2⟩
        · exact hinv.up q h d hget
        · obtain ⟨r, hr, _, hfile⟩ := hinv.below q _ h1 h2 hget
          have hqe := hfile d rfl
          rw [hqe] at hq
          have h3 : r <+: i.1.dropLast := append_prefix_append hq
          have h4 : r <+: i.1 := h3.trans (List.dropLast_prefix _)
          exact (hcross r hr i (by simp)).1 h4
      · cases hget : fs.get (dir ++ i.1) with
        | none => rfl
        | some n =>
          exfalso
          have hne' : dir ++ i.1 ≠ dir := by
            intro e
            have := congrArg List.length e
            have hl := len_pos hne
            rw [List.length_append] at this
            omega
          obtain ⟨r, hr, hpre, _⟩ := hinv.below _ n (List.prefix_append _ _) hne' hget
          exact (hcross r hr i (by simp)).2 (append_prefix_append hpre)
    simp only [List.map_cons]
    unfold writeFiles
    rcases hres : writeOne dir fs (fileOf i) with ⟨e, fs1⟩
    rw [hres] at hok hstep
    simp only at hok
    subst hok
    simp only []
    apply ih (i.1 :: done) fs1
    · constructor
      · intro q hq d hget
        cases hold : fs.get q with
        | some m =>
          have := hstep.1 q m hold
          rw [this] at hget
          cases hget
          exact hinv.up q hq d hold
        | none =>
          rcases hstep.2 q _ hold hget with ⟨hd, _⟩ | ⟨hqe, _⟩
          · cases hd
          · rw [hqe] at hq
            have := hq.length_le
            have hl := len_pos hne
            rw [List.length_append] at this
            omega
      · intro q n h1 h2 hget
        cases hold : fs.get q with
        | some m =>
          have := hstep.1 q m hold
          rw [this] at hget
          have e : m = n := Option.some.inj hget
          subst e
          obtain ⟨r, hr, h3, h4⟩ := hinv.below q m h1 h2 hold
          exact ⟨r, List.mem_cons_of_mem _ hr, h3, h4⟩
        | none =>
          rcases hstep.2 q n hold hget with ⟨hd, hpre⟩ | ⟨hqe, _⟩
          · refine ⟨i.1, by simp, ?_, ?_⟩
            · exact hpre.trans ((List.prefix_append_right_inj dir).mpr (List.dropLast_prefix _))
            · intro d hd'; rw [hd] at hd'; cases hd'
          · exact ⟨i.1, by simp, by rw [hqe]; exact List.prefix_refl _, fun _ _ => hqe⟩
    · intro j hj; exact hnorm j (List.mem_cons_of_mem _ hj)
    · exact (List.pairwise_cons.mp hpw).2
    · intro r hr j hj
      simp only [List.mem_cons] at hr
      rcases hr with rfl | hr
      · exact (List.pairwise_cons.mp hpw).1 j hj
      · exact hcross r hr j (List.mem_cons_of_mem _ hj)

/-! ### regenerated facts of txtar-c -/

class FSave : Prop where
  dot : ∀ (name : Bytes) (all : Bool), Gen.Fsx.dotSkip name all = (([DOT] : Bytes).isPrefixOf name && !all)
  dotDir : Gen.Fsx.dotSkipsDir = true
  nonReg : Gen.Fsx.skipsNonRegular = true
  utf8 : Gen.Fsx.skipsInvalidUTF8 = true
  nl : Gen.Fsx.addsFinalNewline = true
  quote : Gen.Fsx.quoteBranch = true
  pre : Gen.Fsx.unquotePrefix = [117, 110, 113, 117, 111, 116, 101, 32]

/-- What txtar-c stores for a regular file with content `d`: `(stored bytes, went through Quote)`,
or `none` when the file is not archived: invalid UTF-8 is dropped; the final newline is added; content
with a marker line is dropped without `-quote` and stored as `Quote(content)` with it. -/
def stored (o : SaveOpts) (d : Bytes) : Option (Bytes × Bool) :=
  if utf8Valid d = false then none
  else if ¬ HasMarkerLine (fixNL d) then some (fixNL d, false)
  else if o.quote = true then
    (match quote (fixNL d) with
     | .ok q => some (q, true)
     | .error _ => none)
  else none

def itemsOf (rel : List Bytes) : Option (Bytes × Bool) → List Item
  | some (x, q) => [⟨rel, x, q⟩]
  | none => []

theorem fixNL_eq_model (d : Bytes) :
    (if (true && !d.isEmpty && decide (d.getLast? ≠ some NL)) = true then d ++ [NL] else d) = fixNL d := by
  unfold fixNL
  by_cases h1 : d.isEmpty = true
  · simp [h1]
  · by_cases h2 : d.getLast? = some NL
    · simp [h2]
    · simp [h1, h2]

theorem saveFile_eq [FSave] [FLen] [FNQ] (o : SaveOpts) (rel : List Bytes) (d : Bytes) :
    saveFile o rel d = some (itemsOf rel (stored o d)) := by
  unfold saveFile stored
  rw [FSave.utf8, FSave.nl, FSave.quote]
  by_cases hu : utf8Valid d = true
  · simp only [hu, Bool.not_true, Bool.and_false, Bool.false_eq_true, if_false, Bool.true_eq_false]
    rw [fixNL_eq_model, needsQuote_eq]
    by_cases hm : HasMarkerLine (fixNL d)
    · simp only [hm, decide_true, not_true_eq_false, if_false]
      cases hq : o.quote with
      | false => simp [itemsOf]
      | true =>
        simp only [Bool.not_true, Bool.false_eq_true, if_false, if_true]
        cases quote (fixNL d) with
        | ok q => simp [itemsOf]
        | error e => simp [itemsOf]
    · simp [hm, itemsOf]
  · have hu' : utf8Valid d = false := by simpa using hu
    simp [hu', itemsOf]

theorem stored_bodyOK [FLen] [FCR] [FLit] {o : SaveOpts} {d x : Bytes} {q : Bool}
    (h : stored o d = some (x, q)) : BodyOK x := by
  unfold stored at h
  split at h
  · cases h
  · split at h
    · next hm =>
      injection h with h; injection h with h1 _; subst h1
      exact bodyOK_fixNL_of (fun hh => hm ((hasMarkerLine_fixNL d).mpr hh))
    · split at h
      · split at h
        · next q' hq => injection h with h; injection h with h1 _; subst h1; exact quote_bodyOK hq
        · cases h
      · cases h

/-- a stored file is the content with its final newline, or `Unquote` gives that back. -/
theorem stored_restores {o : SaveOpts} {d x : Bytes} {q : Bool} (h : stored o d = some (x, q)) :
    (q = false ∧ x = fixNL d) ∨ (q = true ∧ unquote x = .ok (fixNL d)) := by
  unfold stored at h
  split at h
  · cases h
  · split at h
    · injection h with h; injection h with h1 h2; exact Or.inl ⟨h2.symm, h1.symm⟩
    · split at h
      · split at h
        · next q' hq =>
          injection h with h; injection h with h1 h2; subst h1
          exact Or.inr ⟨h2.symm, unquote_quote hq⟩
        · cases h
      · cases h

theorem utf8Valid_append_nl (d : Bytes) (h : utf8Valid d = true) : utf8Valid (d ++ [NL]) = true := by
  fun_induction utf8Valid d
  all_goals (try simp only [List.cons_append, List.nil_append])
  case case1 => decide
  case case5 b h3 d1 h2 d0 tail h1 h0 ih =>
    rw [utf8Valid.eq_def]; simp only []; rw [if_neg h3, if_neg h2, if_neg h1, if_pos h0]
    simp only [Bool.and_eq_true] at h ⊢
    exact ⟨h.1, ih h.2⟩
  case case8 b h6 d2 h5 d1 h4 h3 h2 d0 tail h1 h0 ih =>
    rw [utf8Valid.eq_def]; simp only []; rw [if_neg h6, if_neg h5, if_neg h4, if_neg h3, if_neg h2, if_neg h1, if_pos h0]
    simp only [Bool.and_eq_true] at h ⊢
    exact ⟨h.1, ih h.2⟩
  all_goals (try (unfold utf8Valid; simp_all; done))
  all_goals (try (unfold utf8Valid at h ⊢; simp_all; done))

theorem utf8Valid_fixNL {d : Bytes} (h : utf8Valid d = true) : utf8Valid (fixNL d) = true := by
  unfold fixNL
  split
  · exact h
  · exact utf8Valid_append_nl d h

/-- after txtar-c's filters `Quote` cannot fail: valid UTF-8 with the final newline in place. -/
theorem quote_fixNL_ok {d : Bytes} (h : utf8Valid d = true) : ∃ q, quote (fixNL d) = .ok q := by
  cases hq : quote (fixNL d) with
  | ok q => exact ⟨q, rfl⟩
  | error e =>
    exfalso
    rcases (quote_error_iff (fixNL d)).mp ⟨e, hq⟩ with ⟨h1, h2⟩ | h1
    · rcases fixNL_ends d with h3 | h3
      · exact h1 h3
      · exact h2 h3
    · rw [utf8Valid_fixNL h] at h1; cases h1

/-- exactly which files txtar-c drops: invalid UTF-8, and — without `-quote` — content with a marker line. -/
theorem stored_none_iff (o : SaveOpts) (d : Bytes) :
    stored o d = none ↔ (utf8Valid d = false ∨ (HasMarkerLine (fixNL d) ∧ o.quote = false)) := by
  unfold stored
  by_cases hu : utf8Valid d = true
  · by_cases hm : HasMarkerLine (fixNL d)
    · cases hq : o.quote with
      | false => simp [hu, hm]
      | true =>
        obtain ⟨q, hq'⟩ := quote_fixNL_ok hu
        simp [hu, hm, hq']
    · simp [hu, hm]
  · have hu' : utf8Valid d = false := by simpa using hu
    simp [hu']

/-- with `-quote`, valid UTF-8 content that has a marker line is stored quoted. -/
theorem stored_quoted {o : SaveOpts} {d : Bytes} (hu : utf8Valid d = true) (hm : HasMarkerLine (fixNL d))
    (hq : o.quote = true) : ∃ x, stored o d = some (x, true) ∧ quote (fixNL d) = .ok x := by
  obtain ⟨q, hq'⟩ := quote_fixNL_ok hu
  exact ⟨q, by simp [stored, hu, hm, hq, hq'], hq'⟩

/-- valid UTF-8 content without marker line is stored as is, with the final newline. -/
theorem stored_plain {o : SaveOpts} {d : Bytes} (hu : utf8Valid d = true) (hm : ¬ HasMarkerLine (fixNL d)) :
    stored o d = some (fixNL d, false) := by
  simp [stored, hu, hm]

/-! ### trees -/

def Forest.names : Forest → List Bytes
  | .nil => []
  | .cons n _ rest => n :: rest.names

mutual
/-- the entry reached from a tree by a relative path. -/
def Tree.find : Tree → List Bytes → Option Tree
  | .file d, [] => some (.file d)
  | .file _, _ :: _ => none
  | .other, [] => some .other
  | .other, _ :: _ => none
  | .dir es, [] => some (.dir es)
  | .dir es, c :: cs => es.find c cs
def Forest.find : Forest → Bytes → List Bytes → Option Tree
  | .nil, _, _ => none
  | .cons name t rest, c, cs => if name = c then t.find cs else rest.find c cs
end

/-- the Walk callback skips this entry (and, for a directory, everything below it) because of the dot rule -/
def skipped (o : SaveOpts) (name : Bytes) (t : Tree) : Bool :=
  Gen.Fsx.dotSkip name o.all && (Gen.Fsx.dotSkipsDir || !t.isDir)

mutual
/-- **TreeOK** (decidable): every entry name is an ordinary path element (not empty, not "." or "..",
no '/'), names within a directory are distinct, and the relative path of every regular file that txtar-c
archives (not below a skipped dot entry, `stored o d ≠ none`) is a name txtar can carry
(`NameOK`: non-empty, equal to its TrimSpace, no newline). -/
def Tree.okb (o : SaveOpts) (rel : List Bytes) : Tree → Bool
  | .file d => (stored o d).isNone || decide (NameOK (joinSep rel))
  | .dir es => es.okb o rel
  | .other => true
def Forest.okb (o : SaveOpts) (rel : List Bytes) : Forest → Bool
  | .nil => true
  | .cons name t rest =>
    decide (Normal name) && !(rest.names.contains name) &&
      (skipped o name t || t.okb o (rel ++ [name])) && rest.okb o rel
end

structure ItemsOK (items : List Item) : Prop where
  good : ∀ i ∈ items, i.rel ≠ [] ∧ (∀ c ∈ i.rel, Normal c) ∧ NameOK (joinSep i.rel) ∧ BodyOK i.data
  pw : items.Pairwise (fun a b => NotRelated a.rel b.rel)

theorem itemsOK_nil : ItemsOK [] := ⟨by simp, List.Pairwise.nil⟩

theorem diverge {rel a b : List Bytes} {x y : Bytes} (ha : rel ++ [x] <+: a) (hb : rel ++ [y] <+: b)
    (hxy : x ≠ y) : NotRelated a b := by
  have key : ∀ {a b : List Bytes} {x y : Bytes}, rel ++ [x] <+: a → rel ++ [y] <+: b → a <+: b → x = y := by
    intro a b x y ha hb hab
    have h1 : rel ++ [x] <+: b := ha.trans hab
    have h2 : rel ++ [x] <+: rel ++ [y] := List.prefix_of_prefix_length_le h1 hb (by simp)
    have h3 : [x] <+: [y] := append_prefix_append h2
    obtain ⟨t, ht⟩ := h3
    injection ht with h _
  exact ⟨fun h => hxy (key ha hb h), fun h => hxy (key hb ha h).symm⟩

theorem forest_okb_cons {o : SaveOpts} {rel : List Bytes} {name : Bytes} {t : Tree} {rest : Forest}
    (h : (Forest.cons name t rest).okb o rel = true) :
    Normal name ∧ name ∉ rest.names ∧ (skipped o name t = false → t.okb o (rel ++ [name]) = true) ∧
      rest.okb o rel = true := by
  simp only [Forest.okb, Bool.and_eq_true, decide_eq_true_eq, Bool.not_eq_true', List.contains_eq_mem,
    decide_eq_false_iff_not, Bool.or_eq_true] at h
  refine ⟨h.1.1.1, h.1.1.2, ?_, h.2⟩
  intro hs
  rcases h.1.2 with h' | h'
  · rw [hs] at h'; cases h'
  · exact h'

mutual
theorem saveTree_ok [FSave] [FLen] [FCR] [FLit] [FNQ] (o : SaveOpts) :
    (t : Tree) → (rel : List Bytes) → (∀ c ∈ rel, Normal c) → rel ≠ [] → t.okb o rel = true →
      ∃ items, saveTree o rel t = some items ∧ ItemsOK items ∧ ∀ i ∈ items, rel <+: i.rel
  | .file d, rel, hrel, hne, hok => by
    refine ⟨_, by rw [saveTree, saveFile_eq], ?_, ?_⟩
    · cases hst : stored o d with
      | none => exact itemsOK_nil
      | some xq =>
        obtain ⟨x, q⟩ := xq
        have hname : NameOK (joinSep rel) := by simpa [Tree.okb, hst] using hok
        refine ⟨?_, List.pairwise_singleton _ _⟩
        intro i hi
        simp only [itemsOf, List.mem_singleton] at hi
        subst hi
        exact ⟨hne, hrel, hname, stored_bodyOK hst⟩
    · intro i hi
      cases hst : stored o d with
      | none => rw [hst] at hi; cases hi
      | some xq =>
        obtain ⟨x, q⟩ := xq
        rw [hst] at hi
        simp only [itemsOf, List.mem_singleton] at hi
        subst hi
        exact List.prefix_refl _
  | .dir es, rel, hrel, hne, hok => by
    have hok' : es.okb o rel = true := by simpa [Tree.okb] using hok
    obtain ⟨items, h1, h2, h3⟩ := saveForest_ok o es rel hrel hok'
    refine ⟨items, by rw [saveTree]; exact h1, h2, ?_⟩
    intro i hi
    obtain ⟨n, _, hn⟩ := h3 i hi
    exact (List.prefix_append _ _).trans hn
  | .other, rel, _, _, _ => by
    refine ⟨[], by simp [saveTree, FSave.nonReg], itemsOK_nil, by simp⟩
theorem saveForest_ok [FSave] [FLen] [FCR] [FLit] [FNQ] (o : SaveOpts) :
    (f : Forest) → (rel : List Bytes) → (∀ c ∈ rel, Normal c) → f.okb o rel = true →
      ∃ items, saveForest o rel f = some items ∧ ItemsOK items ∧
        ∀ i ∈ items, ∃ n ∈ f.names, rel ++ [n] <+: i.rel
  | .nil, rel, _, _ => ⟨[], by simp [saveForest], itemsOK_nil, by simp⟩
  | .cons name t rest, rel, hrel, hok => by
    obtain ⟨hname, hnotin, hokt, hokr⟩ := forest_okb_cons hok
    obtain ⟨i2, hs2, hok2, hu2⟩ := saveForest_ok o rest rel hrel hokr
    by_cases hskip : (Gen.Fsx.dotSkip name o.all && (Gen.Fsx.dotSkipsDir || !t.isDir)) = true
    · refine ⟨i2, by rw [saveForest, if_pos hskip]; exact hs2, hok2, ?_⟩
      intro i hi
      obtain ⟨n, hn, hp⟩ := hu2 i hi
      exact ⟨n, by simp [Forest.names, hn], hp⟩
    · have hrel' : ∀ c ∈ rel ++ [name], Normal c := by
        intro c hc
        simp only [List.mem_append, List.mem_singleton] at hc
        rcases hc with hc | rfl
        · exact hrel c hc
        · exact hname
      have hokt' : t.okb o (rel ++ [name]) = true := hokt (by simpa [skipped] using hskip)
      obtain ⟨i1, hs1, hok1, hu1⟩ := saveTree_ok o t (rel ++ [name]) hrel' (by simp) hokt'
      refine ⟨i1 ++ i2, by rw [saveForest, if_neg hskip, hs1, hs2], ⟨?_, ?_⟩, ?_⟩
      · intro i hi
        rcases List.mem_append.mp hi with hi | hi
        · exact hok1.good i hi
        · exact hok2.good i hi
      · rw [List.pairwise_append]
        refine ⟨hok1.pw, hok2.pw, ?_⟩
        intro a ha b hb
        obtain ⟨n, hn, hp⟩ := hu2 b hb
        exact diverge (hu1 a ha) hp (fun e => hnotin (e ▸ hn))
      · intro i hi
        rcases List.mem_append.mp hi with hi | hi
        · exact ⟨name, by simp [Forest.names], hu1 i hi⟩
        · obtain ⟨n, hn, hp⟩ := hu2 i hi
          exact ⟨n, by simp [Forest.names, hn], hp⟩
end

/-! ### every archivable file of the tree is an item, and every item is such a file -/

def NoDot (o : SaveOpts) (p : List Bytes) : Prop := ∀ c ∈ p, Gen.Fsx.dotSkip c o.all = false

theorem not_skip_of_nodot {o : SaveOpts} {name : Bytes} {t : Tree} (h : Gen.Fsx.dotSkip name o.all = false) :
    ¬ (Gen.Fsx.dotSkip name o.all && (Gen.Fsx.dotSkipsDir || !t.isDir)) = true := by
  rw [h]; simp

mutual
theorem saveTree_complete [FSave] [FLen] [FNQ] (o : SaveOpts) :
    (t : Tree) → (rel p : List Bytes) → (items : List Item) → saveTree o rel t = some items →
      (d : Bytes) → t.find p = some (.file d) → NoDot o p →
      (x : Bytes) → (q : Bool) → stored o d = some (x, q) → (⟨rel ++ p, x, q⟩ : Item) ∈ items
  | .file d0, rel, p, items, hs, d, hf, _, x, q, hst => by
    cases p with
    | cons c cs => simp [Tree.find] at hf
    | nil =>
      simp only [Tree.find, Option.some.injEq, Tree.file.injEq] at hf
      subst hf
      rw [saveTree, saveFile_eq, hst] at hs
      injection hs with hs
      subst hs
      simp [itemsOf]
  | .other, rel, p, items, hs, d, hf, _, x, q, hst => by
    cases p <;> simp [Tree.find] at hf
  | .dir es, rel, p, items, hs, d, hf, hnd, x, q, hst => by
    cases p with
    | nil => simp [Tree.find] at hf
    | cons c cs =>
      rw [Tree.find] at hf
      rw [saveTree] at hs
      exact saveForest_complete o es rel c cs items hs d hf (hnd c (by simp))
        (fun c' hc' => hnd c' (List.mem_cons_of_mem _ hc')) x q hst
theorem saveForest_complete [FSave] [FLen] [FNQ] (o : SaveOpts) :
    (f : Forest) → (rel : List Bytes) → (c : Bytes) → (cs : List Bytes) → (items : List Item) →
      saveForest o rel f = some items → (d : Bytes) → f.find c cs = some (.file d) →
      Gen.Fsx.dotSkip c o.all = false → NoDot o cs →
      (x : Bytes) → (q : Bool) → stored o d = some (x, q) → (⟨rel ++ c :: cs, x, q⟩ : Item) ∈ items
  | .nil, rel, c, cs, items, hs, d, hf, _, _, x, q, hst => by simp [Forest.find] at hf
  | .cons name t rest, rel, c, cs, items, hs, d, hf, hc, hcs, x, q, hst => by
    rw [Forest.find] at hf
    rw [saveForest] at hs
    by_cases hn : name = c
    · subst hn
      rw [if_pos rfl] at hf
      rw [if_neg (not_skip_of_nodot hc)] at hs
      cases h1 : saveTree o (rel ++ [name]) t with
      | none => rw [h1] at hs; cases hs
      | some i1 =>
        rw [h1] at hs
        cases h2 : saveForest o rel rest with
        | none => rw [h2] at hs; cases hs
        | some i2 =>
          rw [h2] at hs
          injection hs with hs
          subst hs
          have := saveTree_complete o t (rel ++ [name]) cs i1 h1 d hf hcs x q hst
          rw [List.append_assoc] at this
          exact List.mem_append_left _ this
    · rw [if_neg hn] at hf
      split at hs
      · exact saveForest_complete o rest rel c cs items hs d hf hc hcs x q hst
      · cases h1 : saveTree o (rel ++ [name]) t with
        | none => rw [h1] at hs; cases hs
        | some i1 =>
          rw [h1] at hs
          cases h2 : saveForest o rel rest with
          | none => rw [h2] at hs; cases hs
          | some i2 =>
            rw [h2] at hs
            injection hs with hs
            subst hs
            exact List.mem_append_right _ (saveForest_complete o rest rel c cs i2 h2 d hf hc hcs x q hst)
end

theorem forest_find_names : (f : Forest) → (c : Bytes) → (cs : List Bytes) → (t : Tree) →
    f.find c cs = some t → c ∈ f.names
  | .nil, c, cs, t, h => by simp [Forest.find] at h
  | .cons name t0 rest, c, cs, t, h => by
    rw [Forest.find] at h
    by_cases hn : name = c
    · simp [Forest.names, hn]
    · rw [if_neg hn] at h
      simp [Forest.names, forest_find_names rest c cs t h]

theorem nodot_nil (o : SaveOpts) : NoDot o [] := by intro c hc; cases hc

theorem nodot_cons {o : SaveOpts} {c : Bytes} {cs : List Bytes} (h1 : Gen.Fsx.dotSkip c o.all = false)
    (h2 : NoDot o cs) : NoDot o (c :: cs) := by
  intro c' hc'
  simp only [List.mem_cons] at hc'
  rcases hc' with rfl | hc'
  · exact h1
  · exact h2 c' hc'

mutual
theorem saveTree_sound [FSave] [FLen] [FNQ] (o : SaveOpts) :
    (t : Tree) → (rel : List Bytes) → (items : List Item) → t.okb o rel = true → saveTree o rel t = some items →
      (i : Item) → i ∈ items →
      ∃ p d, i.rel = rel ++ p ∧ t.find p = some (.file d) ∧ NoDot o p ∧ stored o d = some (i.data, i.quoted)
  | .file d0, rel, items, _, hs, i, hi => by
    rw [saveTree, saveFile_eq] at hs
    injection hs with hs
    subst hs
    cases hst : stored o d0 with
    | none => rw [hst] at hi; cases hi
    | some xq =>
      obtain ⟨x, q⟩ := xq
      rw [hst] at hi
      simp only [itemsOf, List.mem_singleton] at hi
      subst hi
      exact ⟨[], d0, by simp, by simp [Tree.find], nodot_nil o, hst⟩
  | .other, rel, items, _, hs, i, hi => by
    rw [saveTree, FSave.nonReg] at hs
    simp only [if_true, Option.some.injEq] at hs
    subst hs
    cases hi
  | .dir es, rel, items, hok, hs, i, hi => by
    rw [saveTree] at hs
    have hok' : es.okb o rel = true := by simpa [Tree.okb] using hok
    obtain ⟨c, cs, d, h1, h2, h3, h4, h5⟩ := saveForest_sound o es rel items hok' hs i hi
    exact ⟨c :: cs, d, h1, by rw [Tree.find]; exact h2, nodot_cons h3 h4, h5⟩
theorem saveForest_sound [FSave] [FLen] [FNQ] (o : SaveOpts) :
    (f : Forest) → (rel : List Bytes) → (items : List Item) → f.okb o rel = true →
      saveForest o rel f = some items → (i : Item) → i ∈ items →
      ∃ c cs d, i.rel = rel ++ c :: cs ∧ f.find c cs = some (.file d) ∧
        Gen.Fsx.dotSkip c o.all = false ∧ NoDot o cs ∧ stored o d = some (i.data, i.quoted)
  | .nil, rel, items, _, hs, i, hi => by
    simp only [saveForest, Option.some.injEq] at hs
    subst hs
    cases hi
  | .cons name t rest, rel, items, hok, hs, i, hi => by
    obtain ⟨_, hnotin, hokt, hokr⟩ := forest_okb_cons hok
    have fromRest : ∀ i2, saveForest o rel rest = some i2 → i ∈ i2 →
        ∃ c cs d, i.rel = rel ++ c :: cs ∧ (Forest.cons name t rest).find c cs = some (.file d) ∧
          Gen.Fsx.dotSkip c o.all = false ∧ NoDot o cs ∧ stored o d = some (i.data, i.quoted) := by
      intro i2 h2 hi2
      obtain ⟨c, cs, d, a1, a2, a3, a4, a5⟩ := saveForest_sound o rest rel i2 hokr h2 i hi2
      refine ⟨c, cs, d, a1, ?_, a3, a4, a5⟩
      have hc : c ∈ rest.names := forest_find_names rest c cs _ a2
      have hne : name ≠ c := fun e => hnotin (e ▸ hc)
      rw [Forest.find, if_neg hne]; exact a2
    rw [saveForest] at hs
    split at hs
    · exact fromRest items hs hi
    · next hskip =>
      cases h1 : saveTree o (rel ++ [name]) t with
      | none => rw [h1] at hs; cases hs
      | some i1 =>
        rw [h1] at hs
        cases h2 : saveForest o rel rest with
        | none => rw [h2] at hs; cases hs
        | some i2 =>
          rw [h2] at hs
          injection hs with hs
          subst hs
          rcases List.mem_append.mp hi with hi | hi
          · have hokt' : t.okb o (rel ++ [name]) = true := hokt (by simpa [skipped] using hskip)
            obtain ⟨p, d, a1, a2, a3, a4⟩ := saveTree_sound o t (rel ++ [name]) i1 hokt' h1 i hi
            refine ⟨name, p, d, by rw [a1, List.append_assoc]; rfl, by rw [Forest.find, if_pos rfl]; exact a2, ?_, a3, a4⟩
            rw [FSave.dotDir] at hskip
            simpa using hskip
          · exact fromRest i2 h2 hi
end

/-! ### the archive is well formed, and the round trip -/

theorem unquoteLine_not_marker [FSave] [FLen] [FLit] (body : Bytes) (nl : Bool) :
    ¬ MarkerLine ⟨Gen.Fsx.unquotePrefix ++ body, nl⟩ := by
  rw [not_markerLine_iff]
  unfold markerName
  rw [FSave.pre, marker_eq]
  cases nl <;> simp [Line.bytes]

theorem comment_bodyOK [FSave] [FLen] [FCR] [FLit] (items : List Item) (h : ∀ i ∈ items, NL ∉ joinSep i.rel)
    (acc : Bytes) (hacc : BodyOK acc) : BodyOK (acc ++ items.flatMap unquoteLine) := by
  induction items generalizing acc with
  | nil => simpa using hacc
  | cons i rest ih =>
    have hpre : NL ∉ Gen.Fsx.unquotePrefix := by rw [FSave.pre]; decide
    have hb : NL ∉ Gen.Fsx.unquotePrefix ++ joinSep i.rel := by
      simp only [List.mem_append, not_or]
      exact ⟨hpre, h i (by simp)⟩
    have := bodyOK_snoc (nl := true) hacc hb (unquoteLine_not_marker _ _)
    have := ih (fun j hj => h j (List.mem_cons_of_mem _ hj)) _ this
    simpa [unquoteLine, List.flatMap_cons, List.append_assoc] using this

theorem archiveOf_wf [FSave] [FLen] [FCR] [FLit] {items : List Item} (hok : ItemsOK items) :
    WF (archiveOf items) := by
  refine ⟨?_, ?_⟩
  · have := comment_bodyOK (items.filter (·.quoted))
      (fun i hi => (hok.good i (List.mem_filter.mp hi).1).2.2.1.2.2) [] bodyOK_nil
    simpa [archiveOf] using this
  · intro f hf
    simp only [archiveOf, List.mem_map] at hf
    obtain ⟨i, hi, rfl⟩ := hf
    exact ⟨(hok.good i hi).2.2.1, (hok.good i hi).2.2.2⟩

theorem infix_flatMap_of_mem {α : Type} {f : α → Bytes} {l : List α} {x : α} (h : x ∈ l) :
    f x <:+: l.flatMap f := by
  obtain ⟨a, b, rfl⟩ := List.append_of_mem h
  rw [List.flatMap_append, List.flatMap_cons]
  exact ⟨a.flatMap f, b.flatMap f, by simp [List.append_assoc]⟩

theorem target_of_normal {dir : Path} {ns : List Bytes} (hne : ns ≠ []) (hns : ∀ c ∈ ns, Normal c) :
    joinPath dir (cleanPath (joinSep ns)) = dir ++ ns := by
  rw [cleanPath_joinSep_normal hne hns]
  exact joinPath_normal dir (splitSep_joinSep hne (normal_nosep_of_mem hns)) hns

/-- **Round trip.**  For a tree satisfying TreeOK and a target with nothing in the way:
txtar-c's archive is well formed, parses back to itself, txtar-x extracts it without error, every
archivable file of the tree is then at the same relative path beneath `dir` holding its stored form
(with a `unquote <path>` comment line when it was quoted), and every regular file that appeared is one of these. -/
theorem roundtrip [FRej] [FOpen] [FSave] [FLen] [FCR] [FLit] [FNQ] (o : SaveOpts) (t : Forest) (dir : Path) (fs : FS)
    (hok : t.okb o [] = true) (hclear : Clear dir fs) :
    ∃ (a : Archive) (fs' : FS),
      saveDir o t = some a ∧ WF a ∧ parse (format a) = some a ∧
      extract (format a) dir fs = some (none, fs') ∧
      (∀ c cs d x q, t.find c cs = some (.file d) → NoDot o (c :: cs) → stored o d = some (x, q) →
        fs'.get (dir ++ c :: cs) = some (.file x) ∧
        (q = true → Gen.Fsx.unquotePrefix ++ joinSep (c :: cs) ++ [NL] <:+: a.comment)) ∧
      (∀ p x, fs.get p = none → fs'.get p = some (.file x) →
        ∃ c cs d q, p = dir ++ c :: cs ∧ t.find c cs = some (.file d) ∧ NoDot o (c :: cs) ∧
          stored o d = some (x, q)) := by
  obtain ⟨items, hs, hitems, _⟩ := saveForest_ok o t [] (by simp) hok
  have hsave : saveDir o t = some (archiveOf items) := by simp [saveDir, hs]
  have hwf : WF (archiveOf items) := archiveOf_wf hitems
  have hparse := parse_format_of_wf hwf
  have hfiles : (archiveOf items).files = (items.map (fun i => (i.rel, i.data))).map fileOf := by
    simp [archiveOf, List.map_map, fileOf, itemFile, Function.comp_def]
  have hsucc : (writeFiles dir fs (archiveOf items).files).1 = none := by
    rw [hfiles]
    apply writeFiles_succeeds dir _ [] fs (inv_of_clear hclear)
    · intro i hi
      obtain ⟨j, hj, rfl⟩ := List.mem_map.mp hi
      exact ⟨(hitems.good j hj).1, (hitems.good j hj).2.1⟩
    · rw [List.pairwise_map]; exact hitems.pw
    · intro r hr; cases hr
  refine ⟨archiveOf items, (writeFiles dir fs (archiveOf items).files).2, hsave, hwf, hparse, ?_, ?_, ?_⟩
  · simp only [extract, hparse, Option.map_some, writeArchive]
    rw [← hsucc]
  · intro c cs d x q hfind hnd hst
    have hmem : (⟨[] ++ c :: cs, x, q⟩ : Item) ∈ items :=
      saveForest_complete o t [] c cs items hs d hfind (hnd c (by simp))
        (fun c' hc' => hnd c' (List.mem_cons_of_mem _ hc')) x q hst
    rw [List.nil_append] at hmem
    obtain ⟨hne, hns, _, _⟩ := hitems.good _ hmem
    constructor
    · have hf : itemFile ⟨c :: cs, x, q⟩ ∈ (archiveOf items).files := by
        simp only [archiveOf]; exact List.mem_map_of_mem hmem
      have := writeFiles_contents dir fs _ hsucc _ hf
      simp only [itemFile] at this
      rw [target_of_normal hne hns] at this
      exact this
    · intro hq
      subst hq
      have : (⟨c :: cs, x, true⟩ : Item) ∈ items.filter (·.quoted) := by
        rw [List.mem_filter]; exact ⟨hmem, rfl⟩
      have := infix_flatMap_of_mem (f := unquoteLine) this
      simpa [archiveOf, unquoteLine] using this
  · intro p x hnone hget
    rcases (writeFiles_new dir fs (archiveOf items).files).2 p _ hnone hget with h | ⟨f, hf, hp, hx⟩
    · cases h
    · simp only [archiveOf, List.mem_map] at hf
      obtain ⟨i, hi, rfl⟩ := hf
      obtain ⟨c, cs, d, a1, a2, a3, a4, a5⟩ := saveForest_sound o t [] items hok hs i hi
      rw [List.nil_append] at a1
      obtain ⟨hne, hns, _, _⟩ := hitems.good i hi
      simp only [itemFile] at hp hx
      rw [target_of_normal hne hns, a1] at hp
      injection hx with hx
      refine ⟨c, cs, d, i.quoted, hp, a2, nodot_cons a3 a4, ?_⟩
      rw [hx]; exact a5

end GIV.Fsx
