/-
  GIV.Lemmas.FsxCleanBytes — Go's byte loop for filepath.Clean (`cleanBytes`) computes the same function as
  the component-stack formulation (`cleanPath`) that the theorems of C15 are stated about.
-/
import GIV.Lemmas.FsxPath

namespace GIV.Fsx
open GIV

/-! ### unfolding the loop -/

theorem loop_nil (r : Bool) (f : Nat) (ro : Bytes) (dd : Nat) : cleanLoop r f [] ro dd = ro := by
  cases f <;> rfl

theorem loop_sep (r : Bool) (f : Nat) (t ro : Bytes) (dd : Nat) :
    cleanLoop r (f + 1) (SEP :: t) ro dd = cleanLoop r f t ro dd := by
  simp [cleanLoop]

theorem loop_dot (r : Bool) (f : Nat) (t ro : Bytes) (dd : Nat) (h : t = [] ∨ t.head? = some SEP) :
    cleanLoop r (f + 1) (DOT :: t) ro dd = cleanLoop r f t ro dd := by
  have h0 : DOT ≠ SEP := by decide
  simp [cleanLoop, h0, h]

theorem loop_dotdot (r : Bool) (f : Nat) (t ro : Bytes) (dd : Nat) (h : t = [] ∨ t.head? = some SEP) :
    cleanLoop r (f + 1) (DOT :: DOT :: t) ro dd =
      if dd < ro.length then cleanLoop r f t (backtrack dd ro) dd
      else if r = false then
        cleanLoop r f t (DOT :: DOT :: (if 0 < ro.length then SEP :: ro else ro))
          (DOT :: DOT :: (if 0 < ro.length then SEP :: ro else ro)).length
      else cleanLoop r f t ro dd := by
  have h0 : DOT ≠ SEP := by decide
  simp only [cleanLoop, h0, if_false, List.head?_cons, List.tail_cons, true_and, h, if_true]
  rw [if_neg]
  rintro (h' | h')
  · cases h'
  · exact h0 (Option.some.inj h')

theorem copyElem_elem {c : Bytes} (hc : SEP ∉ c) {rest : Bytes} (hr : rest = [] ∨ rest.head? = some SEP)
    (ro : Bytes) : copyElem (c ++ rest) ro = (rest, c.reverse ++ ro) := by
  induction c generalizing ro with
  | nil =>
    rcases hr with rfl | hr
    · rfl
    · cases rest with
      | nil => rfl
      | cons b t =>
        simp only [List.head?_cons, Option.some.injEq] at hr
        subst hr
        simp [copyElem]
  | cons b c ih =>
    simp only [List.mem_cons, not_or] at hc
    have hb : b ≠ SEP := fun e => hc.1 e.symm
    simp only [List.cons_append, copyElem, hb, if_false]
    rw [ih hc.2]
    simp

theorem after_head {rest : Bytes} {c : Bytes} (_hr : rest = [] ∨ rest.head? = some SEP) (hc : SEP ∉ c) :
    (c ++ rest = [] ∨ (c ++ rest).head? = some SEP) → c = [] := by
  intro h
  cases c with
  | nil => rfl
  | cons b c' =>
    exfalso
    simp only [List.mem_cons, not_or] at hc
    rcases h with h | h
    · simp at h
    · simp only [List.cons_append, List.head?_cons, Option.some.injEq] at h
      exact hc.1 h.symm

theorem loop_elem (r : Bool) (f : Nat) {c : Bytes} (hc : Normal c) {rest : Bytes}
    (hr : rest = [] ∨ rest.head? = some SEP) (ro : Bytes) (dd : Nat) :
    cleanLoop r (f + 1) (c ++ rest) ro dd =
      cleanLoop r f rest
        (c.reverse ++ (if (r = true ∧ ro.length ≠ 1) ∨ (r = false ∧ ro.length ≠ 0) then SEP :: ro else ro)) dd := by
  obtain ⟨hne, hdot, hdd, hsep⟩ := hc
  cases c with
  | nil => exact absurd rfl hne
  | cons b c' =>
    have hsep' : SEP ∉ c' := fun h => hsep (List.mem_cons_of_mem _ h)
    have hb : b ≠ SEP := fun e => hsep (by rw [e]; simp)
    have h2 : ¬ (b = DOT ∧ (c' ++ rest = [] ∨ (c' ++ rest).head? = some SEP)) := by
      rintro ⟨e, h⟩
      have := after_head hr hsep' h
      apply hdot; rw [e, this]; rfl
    have h3 : ¬ (b = DOT ∧ (c' ++ rest).head? = some DOT ∧
        ((c' ++ rest).tail = [] ∨ (c' ++ rest).tail.head? = some SEP)) := by
      rintro ⟨e, hh, ht⟩
      cases c' with
      | nil =>
        simp only [List.nil_append] at hh
        rcases hr with hr | hr
        · rw [hr] at hh; cases hh
        · rw [hr] at hh
          injection hh with hh
          exact absurd hh (by decide)
      | cons x c'' =>
        simp only [List.cons_append, List.head?_cons, Option.some.injEq, List.tail_cons] at hh ht
        have hsep'' : SEP ∉ c'' := fun h => hsep' (List.mem_cons_of_mem _ h)
        have := after_head hr hsep'' ht
        apply hdd; rw [e, hh, this]; rfl
    have := copyElem_elem (c := b :: c') hsep hr
      (if (r = true ∧ ro.length ≠ 1) ∨ (r = false ∧ ro.length ≠ 0) then SEP :: ro else ro)
    simp only [List.cons_append] at this ⊢
    simp only [cleanLoop, hb, if_false, h2, h3]
    rw [this]

/-! ### backtracking -/

theorem backtrack_to_sep (dd : Nat) {l : Bytes} (hl : SEP ∉ l) (ro : Bytes) (h : dd ≤ ro.length) :
    backtrack dd (l ++ SEP :: ro) = ro := by
  induction l with
  | nil => simp [backtrack]
  | cons x l ih =>
    simp only [List.mem_cons, not_or] at hl
    have hx : x ≠ SEP := fun e => hl.1 e.symm
    have hlen : dd < (l ++ SEP :: ro).length := by simp; omega
    simp only [List.cons_append, backtrack, hlen, hx, ne_eq, not_false_eq_true, and_self, if_true]
    exact ih hl.2

theorem backtrack_to_base (dd : Nat) {l : Bytes} (hl : SEP ∉ l) (hne : l ≠ []) (base : Bytes)
    (h : base.length = dd) : backtrack dd (l ++ base) = base := by
  induction l with
  | nil => exact absurd rfl hne
  | cons x l ih =>
    simp only [List.mem_cons, not_or] at hl
    have hx : x ≠ SEP := fun e => hl.1 e.symm
    cases l with
    | nil =>
      simp [backtrack, h]
    | cons y l' =>
      have hlen : dd < (y :: l' ++ base).length := by simp; omega
      simp only [List.cons_append] at hlen ⊢
      simp only [backtrack, hlen, hx, ne_eq, not_false_eq_true, and_self, if_true]
      exact ih hl.2 (by simp)

/-! ### the buffer that corresponds to a stack -/

/-- the remaining input after an element: nothing, or '/' and the remaining elements. -/
def afterElem : List Bytes → Bytes
  | [] => []
  | c :: cs => SEP :: joinSep (c :: cs)

theorem joinSep_cons_after (c : Bytes) (cs : List Bytes) : joinSep (c :: cs) = c ++ afterElem cs := by
  cases cs with
  | nil => simp [joinSep, afterElem]
  | cons d ds => rfl

theorem afterElem_head (cs : List Bytes) : afterElem cs = [] ∨ (afterElem cs).head? = some SEP := by
  cases cs with
  | nil => exact Or.inl rfl
  | cons c cs => exact Or.inr rfl

/-- reversed bytes of `joinSep st.reverse` (`st`: last written element first). -/
def encRel : List Bytes → Bytes
  | [] => []
  | [c] => c.reverse
  | c :: d :: st => c.reverse ++ SEP :: encRel (d :: st)

theorem encRel_cons_cons (c d : Bytes) (st : List Bytes) :
    encRel (c :: d :: st) = c.reverse ++ SEP :: encRel (d :: st) := rfl

theorem encRel_cons_of_ne {st : List Bytes} (c : Bytes) (h : st ≠ []) :
    encRel (c :: st) = c.reverse ++ SEP :: encRel st := by
  cases st with
  | nil => exact absurd rfl h
  | cons d st => rfl

theorem encRel_reverse (st : List Bytes) : (encRel st).reverse = joinSep st.reverse := by
  induction st with
  | nil => rfl
  | cons c st ih =>
    cases st with
    | nil => simp [encRel, joinSep]
    | cons d st' =>
      rw [encRel_cons_cons, List.reverse_append, List.reverse_cons, ih, List.reverse_reverse,
        List.reverse_cons (a := c), joinSep_append (by simp) (by simp)]
      simp [joinSep]

theorem bytes_len_pos {l : Bytes} (h : l ≠ []) : 0 < l.length := by
  cases l with
  | nil => exact absurd rfl h
  | cons a l => simp

theorem encRel_length_pos {st : List Bytes} (hne : st ≠ []) (h : ∀ x ∈ st, x ≠ []) : 0 < (encRel st).length := by
  cases st with
  | nil => exact absurd rfl hne
  | cons c st =>
    have hc : 0 < c.length := bytes_len_pos (h c (by simp))
    cases st with
    | nil => simpa [encRel] using hc
    | cons d st' => rw [encRel_cons_cons]; simp; omega

theorem encRel_cons_length (x : Bytes) (st : List Bytes) : (encRel st).length ≤ (encRel (x :: st)).length := by
  cases st with
  | nil => simp [encRel]
  | cons d st' => rw [encRel_cons_cons]; simp; omega

theorem encRel_append_length (a b : List Bytes) : (encRel b).length ≤ (encRel (a ++ b)).length := by
  induction a with
  | nil => exact Nat.le_refl _
  | cons x a ih => exact Nat.le_trans ih (encRel_cons_length x (a ++ b))

theorem afterElem_cons_length (c : Bytes) (cs : List Bytes) :
    (afterElem (c :: cs)).length = 1 + c.length + (afterElem cs).length := by
  show (SEP :: joinSep (c :: cs)).length = _
  rw [joinSep_cons_after, List.length_cons, List.length_append]
  omega

theorem normal_reverse_nosep {c : Bytes} (h : Normal c) : SEP ∉ c.reverse ∧ c.reverse ≠ [] := by
  refine ⟨fun hh => h.2.2.2 (List.mem_reverse.mp hh), ?_⟩
  intro e
  apply h.1
  simpa using e

/-! ### rooted paths -/

theorem loop_root (cs : List Bytes) (hcs : ∀ c ∈ cs, SEP ∉ c) :
    ∀ (st : List Bytes) (f : Nat), (∀ x ∈ st, Normal x) → (afterElem cs).length < f →
      cleanLoop true f (afterElem cs) (encRel st ++ [SEP]) 1 = encRel (cleanComps true st cs) ++ [SEP] := by
  induction cs with
  | nil => intro st f _ _; simp [afterElem, loop_nil, cleanComps]
  | cons c cs ih =>
    intro st f hst hf
    have hcs' : ∀ x ∈ cs, SEP ∉ x := fun x hx => hcs x (List.mem_cons_of_mem _ hx)
    rw [afterElem_cons_length] at hf
    obtain ⟨f', rfl⟩ : ∃ f', f = f' + 1 := ⟨f - 1, by omega⟩
    have hform : afterElem (c :: cs) = SEP :: (c ++ afterElem cs) := by
      show SEP :: joinSep (c :: cs) = _
      rw [joinSep_cons_after]
    rw [hform, loop_sep, cleanComps_cons]
    by_cases h1 : c = [] ∨ c = dotB
    · rw [cleanStep_skip _ _ h1]
      rcases h1 with rfl | rfl
      · simp only [List.nil_append]
        exact ih hcs' st f' hst (by simp at hf; omega)
      · obtain ⟨f'', rfl⟩ : ∃ f'', f' = f'' + 1 := ⟨f' - 1, by simp [dotB] at hf; omega⟩
        have : dotB ++ afterElem cs = DOT :: afterElem cs := rfl
        rw [this, loop_dot _ _ _ _ _ (afterElem_head cs)]
        exact ih hcs' st f'' hst (by simp [dotB] at hf; omega)
    · by_cases h2 : c = dotdotB
      · subst h2
        obtain ⟨f'', rfl⟩ : ∃ f'', f' = f'' + 1 := ⟨f' - 1, by simp [dotdotB] at hf; omega⟩
        have hfl : (afterElem cs).length < f'' := by simp [dotdotB] at hf; omega
        have : dotdotB ++ afterElem cs = DOT :: DOT :: afterElem cs := rfl
        rw [this, loop_dotdot _ _ _ _ _ (afterElem_head cs)]
        cases st with
        | nil =>
          have hs : cleanStep true [] dotdotB = [] := by decide
          rw [hs]
          simp only [encRel, List.nil_append, List.length_singleton, Nat.lt_irrefl, if_false,
            Bool.true_eq_false]
          exact ih hcs' [] f'' (by simp) hfl
        | cons n st' =>
          have hn := hst n (by simp)
          have hs : cleanStep true (n :: st') dotdotB = st' := by
            have h1 : ¬ (dotdotB = [] ∨ dotdotB = dotB) := by decide
            simp [cleanStep, h1]
          obtain ⟨hrs, hrn⟩ := normal_reverse_nosep hn
          have hlen : 1 < (encRel (n :: st') ++ [SEP]).length := by
            have := encRel_length_pos (st := n :: st') (by simp) (fun x hx => (hst x hx).1)
            simp; omega
          rw [hs, if_pos hlen]
          have hbt : backtrack 1 (encRel (n :: st') ++ [SEP]) = encRel st' ++ [SEP] := by
            cases st' with
            | nil =>
              simp only [encRel, List.nil_append]
              exact backtrack_to_base 1 hrs hrn [SEP] rfl
            | cons d st'' =>
              rw [encRel_cons_cons, List.append_assoc, List.cons_append]
              exact backtrack_to_sep 1 hrs _ (by simp)
          rw [hbt]
          exact ih hcs' st' f'' (fun x hx => hst x (List.mem_cons_of_mem _ hx)) hfl
      · have hn : Normal c := ⟨fun e => h1 (Or.inl e), fun e => h1 (Or.inr e), h2, hcs c (by simp)⟩
        have hcl : 0 < c.length := bytes_len_pos hn.1
        obtain ⟨f'', rfl⟩ : ∃ f'', f' = f'' + 1 := ⟨f' - 1, by omega⟩
        rw [loop_elem _ _ hn (afterElem_head cs), cleanStep_normal _ _ hn]
        have henc : c.reverse ++ (if (true = true ∧ (encRel st ++ [SEP]).length ≠ 1) ∨
            (true = false ∧ (encRel st ++ [SEP]).length ≠ 0) then SEP :: (encRel st ++ [SEP]) else encRel st ++ [SEP])
            = encRel (c :: st) ++ [SEP] := by
          cases st with
          | nil => simp [encRel]
          | cons d st' =>
            have := encRel_length_pos (st := d :: st') (by simp) (fun x hx => (hst x hx).1)
            have hne : (encRel (d :: st') ++ [SEP]).length ≠ 1 := by
              rw [List.length_append, List.length_singleton]; omega
            rw [if_pos (Or.inl ⟨rfl, hne⟩), encRel_cons_cons]
            simp
        rw [henc]
        apply ih hcs' (c :: st) f''
        · intro x hx
          simp only [List.mem_cons] at hx
          rcases hx with rfl | hx
          · exact hn
          · exact hst x hx
        · omega

/-! ### relative paths -/

theorem encRel_replicate_succ (k : Nat) :
    encRel (List.replicate (k + 1) dotdotB) =
      DOT :: DOT :: (if 0 < (encRel (List.replicate k dotdotB)).length then SEP :: encRel (List.replicate k dotdotB)
        else encRel (List.replicate k dotdotB)) := by
  cases k with
  | zero => rfl
  | succ k =>
    have hpos : 0 < (encRel (List.replicate (k + 1) dotdotB)).length :=
      encRel_length_pos (by simp [List.replicate_succ]) (by
        intro x hx
        rw [List.eq_of_mem_replicate hx]
        decide)
    rw [if_pos hpos, List.replicate_succ (n := k + 1), encRel_cons_of_ne _ (by simp [List.replicate_succ])]
    rfl

theorem loop_rel (cs : List Bytes) (hcs : ∀ c ∈ cs, SEP ∉ c) :
    ∀ (ns : List Bytes) (k f : Nat), (∀ x ∈ ns, Normal x) → (afterElem cs).length < f →
      cleanLoop false f (afterElem cs) (encRel (ns ++ List.replicate k dotdotB))
          (encRel (List.replicate k dotdotB)).length =
        encRel (cleanComps false (ns ++ List.replicate k dotdotB) cs) := by
  induction cs with
  | nil => intro ns k f _ _; simp [afterElem, loop_nil, cleanComps]
  | cons c cs ih =>
    intro ns k f hns hf
    have hcs' : ∀ x ∈ cs, SEP ∉ x := fun x hx => hcs x (List.mem_cons_of_mem _ hx)
    rw [afterElem_cons_length] at hf
    obtain ⟨f', rfl⟩ : ∃ f', f = f' + 1 := ⟨f - 1, by omega⟩
    have hform : afterElem (c :: cs) = SEP :: (c ++ afterElem cs) := by
      show SEP :: joinSep (c :: cs) = _
      rw [joinSep_cons_after]
    rw [hform, loop_sep, cleanComps_cons]
    have hstne : ∀ x ∈ ns ++ List.replicate k dotdotB, x ≠ [] := by
      intro x hx
      rcases List.mem_append.mp hx with hx | hx
      · exact (hns x hx).1
      · rw [List.eq_of_mem_replicate hx]; decide
    by_cases h1 : c = [] ∨ c = dotB
    · rw [cleanStep_skip _ _ h1]
      rcases h1 with rfl | rfl
      · simp only [List.nil_append]
        exact ih hcs' ns k f' hns (by simp at hf; omega)
      · obtain ⟨f'', rfl⟩ : ∃ f'', f' = f'' + 1 := ⟨f' - 1, by simp [dotB] at hf; omega⟩
        have : dotB ++ afterElem cs = DOT :: afterElem cs := rfl
        rw [this, loop_dot _ _ _ _ _ (afterElem_head cs)]
        exact ih hcs' ns k f'' hns (by simp [dotB] at hf; omega)
    · by_cases h2 : c = dotdotB
      · subst h2
        obtain ⟨f'', rfl⟩ : ∃ f'', f' = f'' + 1 := ⟨f' - 1, by simp [dotdotB] at hf; omega⟩
        have hfl : (afterElem cs).length < f'' := by simp [dotdotB] at hf; omega
        have : dotdotB ++ afterElem cs = DOT :: DOT :: afterElem cs := rfl
        rw [this, loop_dotdot _ _ _ _ _ (afterElem_head cs)]
        cases ns with
        | nil =>
          have hs : cleanStep false ([] ++ List.replicate k dotdotB) dotdotB =
              [] ++ List.replicate (k + 1) dotdotB := by
            cases k with
            | zero => exact cleanStep_dd_nil
            | succ k =>
              simp only [List.nil_append, List.replicate_succ]
              exact cleanStep_dd_dd _
          rw [hs]
          simp only [List.nil_append, Nat.lt_irrefl, if_false, if_true]
          rw [← encRel_replicate_succ]
          exact ih hcs' [] (k + 1) f'' (by simp) hfl
        | cons n ns' =>
          have hn := hns n (by simp)
          obtain ⟨hrs, hrn⟩ := normal_reverse_nosep hn
          rw [List.cons_append, cleanStep_dd_pop _ hn.2.2.1]
          have hge := encRel_append_length ns' (List.replicate k dotdotB)
          have hlt : (encRel (List.replicate k dotdotB)).length <
              (encRel (n :: (ns' ++ List.replicate k dotdotB))).length := by
            cases hrest : ns' ++ List.replicate k dotdotB with
            | nil =>
              rw [hrest] at hge
              have hpos := bytes_len_pos hn.1
              have h0 : (encRel (List.replicate k dotdotB)).length = 0 := Nat.le_zero.mp hge
              rw [h0]
              show 0 < (n.reverse).length
              rw [List.length_reverse]; exact hpos
            | cons d rest =>
              rw [hrest] at hge
              rw [encRel_cons_cons, List.length_append, List.length_cons]
              omega
          rw [if_pos hlt]
          have hbt : backtrack (encRel (List.replicate k dotdotB)).length
              (encRel (n :: (ns' ++ List.replicate k dotdotB))) = encRel (ns' ++ List.replicate k dotdotB) := by
            cases hrest : ns' ++ List.replicate k dotdotB with
            | nil =>
              rw [hrest] at hge
              have h0 : (encRel (List.replicate k dotdotB)).length = 0 := Nat.le_zero.mp hge
              rw [h0]
              show backtrack 0 n.reverse = []
              have := backtrack_to_base 0 hrs hrn [] rfl
              simpa using this
            | cons d rest =>
              rw [hrest] at hge
              rw [encRel_cons_cons]
              exact backtrack_to_sep _ hrs _ hge
          rw [hbt]
          exact ih hcs' ns' k f'' (fun x hx => hns x (List.mem_cons_of_mem _ hx)) hfl
      · have hn : Normal c := ⟨fun e => h1 (Or.inl e), fun e => h1 (Or.inr e), h2, hcs c (by simp)⟩
        have hcl : 0 < c.length := bytes_len_pos hn.1
        obtain ⟨f'', rfl⟩ : ∃ f'', f' = f'' + 1 := ⟨f' - 1, by omega⟩
        rw [loop_elem _ _ hn (afterElem_head cs), cleanStep_normal _ _ hn]
        have henc : c.reverse ++ (if (false = true ∧ (encRel (ns ++ List.replicate k dotdotB)).length ≠ 1) ∨
            (false = false ∧ (encRel (ns ++ List.replicate k dotdotB)).length ≠ 0)
            then SEP :: encRel (ns ++ List.replicate k dotdotB) else encRel (ns ++ List.replicate k dotdotB))
            = encRel (c :: (ns ++ List.replicate k dotdotB)) := by
          cases hrest : ns ++ List.replicate k dotdotB with
          | nil => simp [encRel]
          | cons d st' =>
            have := encRel_length_pos (st := d :: st') (by simp) (by rw [← hrest]; exact hstne)
            have hne : (encRel (d :: st')).length ≠ 0 := by omega
            rw [if_pos (Or.inr ⟨rfl, hne⟩), encRel_cons_cons]
        rw [henc, ← List.cons_append]
        apply ih hcs' (c :: ns) k f''
        · intro x hx
          simp only [List.mem_cons] at hx
          rcases hx with rfl | hx
          · exact hn
          · exact hns x hx
        · omega

/-! ### the two formulations of Clean agree -/

theorem afterElem_splitSep (p : Bytes) : afterElem (splitSep p) = SEP :: p := by
  have : splitSep p = (splitAux p).1 :: (splitAux p).2 := rfl
  rw [this]
  show SEP :: joinSep ((splitAux p).1 :: (splitAux p).2) = SEP :: p
  rw [← this, joinSep_splitSep]

theorem encRel_eq_nil {st : List Bytes} (h : ∀ x ∈ st, x ≠ []) : encRel st = [] ↔ st = [] := by
  constructor
  · intro e
    cases st with
    | nil => rfl
    | cons c st' =>
      have := encRel_length_pos (st := c :: st') (by simp) h
      rw [e] at this
      cases this
  · rintro rfl; rfl

theorem cleanBytes_rooted (p' : Bytes) :
    cleanBytes (SEP :: p') =
      if cleanLoop true ((SEP :: p').length + 1) p' [SEP] 1 = [] then [DOT]
      else (cleanLoop true ((SEP :: p').length + 1) p' [SEP] 1).reverse := by
  simp [cleanBytes]

theorem cleanBytes_rel {p : Bytes} (hne : p ≠ []) (hr : p.head? ≠ some SEP) :
    cleanBytes p =
      if cleanLoop false (p.length + 1) p [] 0 = [] then [DOT]
      else (cleanLoop false (p.length + 1) p [] 0).reverse := by
  simp [cleanBytes, hne, hr]

/-- **Go's byte loop and the component-stack formulation compute the same `Clean`.** -/
theorem cleanBytes_eq (p : Bytes) : cleanBytes p = cleanPath p := by
  by_cases hne : p = []
  · subst hne; rfl
  · by_cases hr : p.head? = some SEP
    · rw [cleanPath_rooted hr]
      cases p with
      | nil => exact absurd rfl hne
      | cons b p' =>
        simp only [List.head?_cons, Option.some.injEq] at hr
        subst hr
        have hsplit : splitSep (SEP :: p') = [] :: splitSep p' := by
          simp only [splitSep, splitAux_cons_sep]
        have hloop := loop_root (splitSep p') (fun c hc => splitSep_nosep (s := p') hc) [] ((SEP :: p').length + 1 + 1)
          (by simp) (by rw [afterElem_splitSep]; simp)
        rw [afterElem_splitSep, loop_sep] at hloop
        simp only [encRel, List.nil_append] at hloop
        rw [cleanBytes_rooted, hloop, hsplit, cleanComps_cons, cleanStep_skip _ _ (Or.inl rfl)]
        rw [if_neg (by simp)]
        rw [List.reverse_append, encRel_reverse]
        rfl
    · rw [cleanPath_rel hne hr, cleanBytes_rel hne hr]
      have hloop := loop_rel (splitSep p) (fun c hc => splitSep_nosep (s := p) hc) [] 0 (p.length + 1 + 1)
        (by simp) (by rw [afterElem_splitSep]; simp)
      rw [afterElem_splitSep, loop_sep] at hloop
      simp only [List.replicate_zero, List.append_nil, encRel, List.length_nil] at hloop
      rw [hloop]
      have hst : ∀ x ∈ cleanComps false [] (splitSep p), x ≠ [] := by
        obtain ⟨ns, k, h, hns⟩ := relSt_comps relSt_nil (fun c hc => splitSep_nosep (s := p) hc)
        rw [h]
        intro x hx
        rcases List.mem_append.mp hx with hx | hx
        · exact (hns x hx).1
        · rw [List.eq_of_mem_replicate hx]; decide
      by_cases he : cleanComps false [] (splitSep p) = []
      · rw [he]; rfl
      · rw [if_neg (fun e => he ((encRel_eq_nil hst).mp e)), if_neg (by simpa using he), encRel_reverse]

end GIV.Fsx
