/-
  Lemmas about file names: `strings.Index` / `LastIndex`, the `_` ↔ `/` replacement, the
  decode (readModList) / encode (readArchive) round trip, and membership in `readModList`.
-/
import GIV.Lemmas.ProxyEscape
namespace GIV.Proxy
open GIV

/-! ### Index / LastIndex -/

theorem indexOf_spec (sep : Bytes) : ∀ (s : Bytes) (i : Nat), indexOf sep s = some i →
    ∃ pre post, s = pre ++ sep ++ post ∧ pre.length = i := by
  intro s
  induction s with
  | nil =>
    intro i h
    unfold indexOf at h
    by_cases he : sep.isEmpty = true
    · simp only [he, if_true, Option.some.injEq] at h
      exact ⟨[], [], by simp [List.isEmpty_iff.mp he], h⟩
    · simp [he] at h
  | cons c rest ih =>
    intro i h
    unfold indexOf at h
    by_cases hp : sep.isPrefixOf (c :: rest) = true
    · simp only [hp, if_true, Option.some.injEq] at h
      obtain ⟨t, ht⟩ := List.isPrefixOf_iff_prefix.mp hp
      exact ⟨[], t, by simp [ht], h⟩
    · simp only [hp, Bool.false_eq_true, if_false, Option.map_eq_some_iff] at h
      obtain ⟨j, hj, rfl⟩ := h
      obtain ⟨pre, post, hs, hl⟩ := ih j hj
      exact ⟨c :: pre, post, by simp [hs], by simp [hl]⟩

theorem lastIndexOf_spec (sep : Bytes) : ∀ (s : Bytes) (i : Nat), lastIndexOf sep s = some i →
    ∃ pre post, s = pre ++ sep ++ post ∧ pre.length = i := by
  intro s
  induction s with
  | nil =>
    intro i h
    unfold lastIndexOf at h
    by_cases he : sep.isEmpty = true
    · simp only [he, if_true, Option.some.injEq] at h
      exact ⟨[], [], by simp [List.isEmpty_iff.mp he], h⟩
    · simp [he] at h
  | cons c rest ih =>
    intro i h
    unfold lastIndexOf at h
    cases hr : lastIndexOf sep rest with
    | some j =>
      simp only [hr, Option.some.injEq] at h
      obtain ⟨pre, post, hs, hl⟩ := ih j hr
      exact ⟨c :: pre, post, by simp [hs], by simp [hl, ← h]⟩
    | none =>
      simp only [hr] at h
      by_cases hp : sep.isPrefixOf (c :: rest) = true
      · simp only [hp, if_true, Option.some.injEq] at h
        obtain ⟨t, ht⟩ := List.isPrefixOf_iff_prefix.mp hp
        exact ⟨[], t, by simp [ht], h⟩
      · simp [hp] at h

/-- no occurrence of a one-or-more-byte separator whose first byte does not occur -/
theorem lastIndexOf_none (a : UInt8) (sep' : Bytes) : ∀ s : Bytes, a ∉ s → lastIndexOf (a :: sep') s = none := by
  intro s
  induction s with
  | nil => intro _; simp [lastIndexOf]
  | cons c rest ih =>
    intro h
    have hc : c ≠ a := fun h' => h (by simp [h'])
    have hr : a ∉ rest := fun h' => h (List.mem_cons_of_mem _ h')
    unfold lastIndexOf
    rw [ih hr]
    have : (a :: sep').isPrefixOf (c :: rest) = false := by
      simp [List.isPrefixOf, Ne.symm hc]
    simp [this]

/-- `LastIndex(pre ++ sep ++ post, sep) = len(pre)` when `sep`'s first byte does not occur in `post`
and not in `sep`'s tail -/
theorem lastIndexOf_append (a : UInt8) (sep' post : Bytes) (h1 : a ∉ sep') (h2 : a ∉ post) :
    ∀ pre : Bytes, lastIndexOf (a :: sep') (pre ++ (a :: sep') ++ post) = some pre.length := by
  intro pre
  induction pre with
  | nil =>
    simp only [List.nil_append, List.cons_append, List.length_nil]
    unfold lastIndexOf
    have hn : a ∉ sep' ++ post := by simp [h1, h2]
    rw [lastIndexOf_none a sep' _ hn]
    have : (a :: sep').isPrefixOf (a :: (sep' ++ post)) = true :=
      List.isPrefixOf_iff_prefix.mpr ⟨post, by simp⟩
    simp [this]
  | cons c pre ih =>
    simp only [List.cons_append, List.length_cons]
    unfold lastIndexOf
    have := ih
    simp only [List.cons_append, List.append_assoc] at this ⊢
    rw [this]

/-- `Index(pre ++ sep ++ post, sep) = len(pre)` when `sep = a :: b :: _` with `b` occurring neither in
`pre` nor being `a` — enough for `/@v/` after an escaped module path. -/
theorem indexOf_append (a b : UInt8) (sep' post : Bytes) (hab : a ≠ b) :
    ∀ pre : Bytes, b ∉ pre → indexOf (a :: b :: sep') (pre ++ (a :: b :: sep') ++ post) = some pre.length := by
  intro pre
  induction pre with
  | nil =>
    intro _
    simp only [List.nil_append, List.length_nil]
    unfold indexOf
    have : (a :: b :: sep').isPrefixOf ((a :: b :: sep') ++ post) = true :=
      List.isPrefixOf_iff_prefix.mpr ⟨post, rfl⟩
    simp only [List.cons_append] at this
    simp [this]
  | cons c pre ih =>
    intro h
    have hc : c ≠ b := fun h' => h (by simp [h'])
    have hr : b ∉ pre := fun h' => h (List.mem_cons_of_mem _ h')
    simp only [List.cons_append, List.length_cons]
    unfold indexOf
    have hnp : (a :: b :: sep').isPrefixOf (c :: (pre ++ a :: b :: (sep' ++ post))) = false := by
      cases pre with
      | nil => simp [List.isPrefixOf, Ne.symm hab]
      | cons d pre' =>
        have hd : d ≠ b := fun h' => hr (by simp [h'])
        simp [List.isPrefixOf, Ne.symm hd]
    have := ih hr
    simp only [List.cons_append, List.append_assoc] at this ⊢
    simp [hnp, this]

theorem take_append_length (pre post : Bytes) : (pre ++ post).take pre.length = pre := by simp
theorem drop_append_length (pre post : Bytes) (k : Nat) : (pre ++ post).drop (pre.length + k) = post.drop k := by
  simp [List.drop_append]

/-! ### ReplaceAll on single bytes -/

theorem replaceByte_eq (a b : UInt8) (s : Bytes) : replaceByte [a] [b] s = s.map fun c => if c = a then b else c := rfl

theorem replaceByte_replaceByte (a b : UInt8) (s : Bytes) (h : b ∉ s) :
    replaceByte [b] [a] (replaceByte [a] [b] s) = s := by
  rw [replaceByte_eq, replaceByte_eq, List.map_map]
  conv => rhs; rw [← List.map_id s]
  apply List.map_congr_left
  intro c hc
  have hcb : c ≠ b := fun h' => h (h' ▸ hc)
  simp only [Function.comp, id]
  by_cases hca : c = a
  · simp [hca]
  · simp [hca, hcb]

theorem not_mem_replaceByte (a b : UInt8) (hab : a ≠ b) (s : Bytes) : a ∉ replaceByte [a] [b] s := by
  rw [replaceByte_eq]
  intro h
  obtain ⟨c, _, hc⟩ := List.mem_map.mp h
  by_cases hca : c = a
  · simp [hca] at hc; exact hab hc.symm
  · simp [hca] at hc

/-! ### Path / version codecs -/

theorem unescapePath_eq_some {e p : Bytes} : unescapePath e = some p ↔ unescapeString e = some p ∧ checkPath p = true := by
  unfold unescapePath
  cases h : unescapeString e with
  | none => simp
  | some q =>
    by_cases hc : checkPath q = true
    · simp only [hc, if_true, Option.some.injEq]
      constructor
      · intro h'; subst h'; exact ⟨rfl, hc⟩
      · intro h'; exact h'.1
    · simp only [hc, Bool.false_eq_true, if_false, Option.some.injEq]
      constructor
      · intro h'; cases h'
      · rintro ⟨rfl, h2⟩; exact absurd h2 hc

theorem unescapeVersion_eq_some {e v : Bytes} :
    unescapeVersion e = some v ↔ unescapeString e = some v ∧ checkElem .filePath v = true := by
  unfold unescapeVersion
  cases h : unescapeString e with
  | none => simp
  | some q =>
    by_cases hc : checkElem .filePath q = true
    · simp only [hc, if_true, Option.some.injEq]
      constructor
      · intro h'; subst h'; exact ⟨rfl, hc⟩
      · intro h'; exact h'.1
    · simp only [hc, Bool.false_eq_true, if_false, Option.some.injEq]
      constructor
      · intro h'; cases h'
      · rintro ⟨rfl, h2⟩; exact absurd h2 hc

theorem escapePath_eq_some {p e : Bytes} : escapePath p = some e ↔ checkPath p = true ∧ escapeString p = some e := by
  unfold escapePath
  by_cases hc : checkPath p = true <;> simp [hc]

theorem escapeVersion_eq_some {v e : Bytes} :
    escapeVersion v = some e ↔ checkElem .filePath v = true ∧ escapeString v = some e := by
  unfold escapeVersion
  by_cases hc : checkElem .filePath v = true
  · by_cases h33 : v.contains 33 = true
    · simp only [hc, h33, Bool.not_true, Bool.and_false, Bool.false_eq_true, if_false, true_and]
      constructor
      · intro h; cases h
      · intro h
        obtain ⟨hp, _⟩ := escapeString_eq_some.mp h
        have := List.contains_iff_mem.mp h33
        exact absurd rfl (hp 33 this).1
    · have h33' : v.contains 33 = false := by simpa using h33
      simp only [hc, h33', Bool.not_false, Bool.and_self, if_true, true_and]
  · simp [hc]

theorem unescapePath_escapePath {p e : Bytes} (h : escapePath p = some e) : unescapePath e = some p := by
  obtain ⟨hc, hs⟩ := escapePath_eq_some.mp h
  exact unescapePath_eq_some.mpr ⟨unescapeString_escapeString hs, hc⟩

theorem escapePath_unescapePath {p e : Bytes} (h : unescapePath e = some p) : escapePath p = some e := by
  obtain ⟨hs, hc⟩ := unescapePath_eq_some.mp h
  exact escapePath_eq_some.mpr ⟨hc, escapeString_unescapeString hs⟩

theorem unescapeVersion_escapeVersion {v e : Bytes} (h : escapeVersion v = some e) : unescapeVersion e = some v := by
  obtain ⟨hc, hs⟩ := escapeVersion_eq_some.mp h
  exact unescapeVersion_eq_some.mpr ⟨unescapeString_escapeString hs, hc⟩

theorem escapeVersion_unescapeVersion {v e : Bytes} (h : unescapeVersion e = some v) : escapeVersion v = some e := by
  obtain ⟨hs, hc⟩ := unescapeVersion_eq_some.mp h
  exact escapeVersion_eq_some.mpr ⟨hc, escapeString_unescapeString hs⟩

/-! ### decodeBase / archiveBase -/

theorem splitName_spec {base pre ev : Bytes} (h : splitName base = some (pre, ev)) :
    ∃ rest, base = pre ++ 95 :: 118 :: rest ∧ ev = 118 :: rest := by
  unfold splitName at h
  have hl : Gen.Proxy.splitUsesLastIndex = true := rfl
  have hs : Gen.Proxy.splitSep = [95, 118] := rfl
  have ho : Gen.Proxy.versOffset = 1 := rfl
  simp only [hl, if_true, hs, ho] at h
  cases hi : lastIndexOf [95, 118] base with
  | none => simp [hi] at h
  | some i =>
    simp only [hi, Option.some.injEq, Prod.mk.injEq] at h
    obtain ⟨p, post, hb, hlen⟩ := lastIndexOf_spec _ _ _ hi
    refine ⟨post, ?_, ?_⟩
    · rw [← h.1, hb, ← hlen]; simp
    · rw [← h.2, hb, ← hlen]
      simp

theorem splitName_append (pre ev : Bytes) (h1 : 95 ∉ ev) (h2 : ev.head? = some 118) :
    splitName (pre ++ 95 :: ev) = some (pre, ev) := by
  cases ev with
  | nil => simp at h2
  | cons c rest =>
    simp only [List.head?_cons, Option.some.injEq] at h2
    subst h2
    have hr : (95 : UInt8) ∉ rest := fun h' => h1 (List.mem_cons_of_mem _ h')
    have := lastIndexOf_append 95 [118] rest (by decide) hr pre
    unfold splitName
    have hl : Gen.Proxy.splitUsesLastIndex = true := rfl
    have hs : Gen.Proxy.splitSep = [95, 118] := rfl
    have ho : Gen.Proxy.versOffset = 1 := rfl
    simp only [hl, if_true, hs, ho]
    simp only [List.cons_append, List.nil_append, List.append_assoc] at this
    rw [this]
    have hd := drop_append_length pre (95 :: 118 :: rest) 1
    simp only [List.drop_succ_cons, List.drop_zero] at hd
    simp [hd]

/-- **name round trip**: the (path, version) `readModList` decodes from a base name is mapped by
`readArchive` back to the same base name (entry names contain no '/'). -/
theorem archiveBase_of_decodeBase {base : Bytes} {m : ModVer} (h : decodeBase base = some (some m))
    (hslash : 47 ∉ base) : archiveBase m.path m.version = some base := by
  unfold decodeBase at h
  cases hs : splitName base with
  | none => simp [hs] at h
  | some pe =>
    obtain ⟨pre, ev⟩ := pe
    simp only [hs, Option.some.injEq] at h
    have hf : Gen.Proxy.modListReplFrom = [95] := rfl
    have ht : Gen.Proxy.modListReplTo = [47] := rfl
    rw [hf, ht] at h
    cases hp : unescapePath (replaceByte [95] [47] pre) with
    | none => simp [hp] at h
    | some p =>
      cases hv : unescapeVersion ev with
      | none => simp [hp, hv] at h
      | some v =>
        simp only [hp, hv, Option.some.injEq] at h
        subst h
        obtain ⟨rest, hb, hev⟩ := splitName_spec hs
        have hpre : (47 : UInt8) ∉ pre := fun h' => hslash (by rw [hb]; simp [h'])
        unfold archiveBase
        rw [escapePath_unescapePath hp, escapeVersion_unescapeVersion hv]
        have h1 : Gen.Proxy.archReplFrom = [47] := rfl
        have h2 : Gen.Proxy.archReplTo = [95] := rfl
        have h3 : Gen.Proxy.archJoin = [95] := rfl
        simp only [h1, h2, h3]
        rw [replaceByte_replaceByte 95 47 pre hpre, hb, hev]
        simp

theorem decodeBase_version_head {base : Bytes} {m : ModVer} (h : decodeBase base = some (some m)) :
    m.version.head? = some 118 := by
  unfold decodeBase at h
  cases hs : splitName base with
  | none => simp [hs] at h
  | some pe =>
    obtain ⟨pre, ev⟩ := pe
    simp only [hs, Option.some.injEq] at h
    cases hp : unescapePath (replaceByte Gen.Proxy.modListReplFrom Gen.Proxy.modListReplTo pre) with
    | none => simp [hp] at h
    | some p =>
      cases hv : unescapeVersion ev with
      | none => simp [hp, hv] at h
      | some v =>
        simp only [hp, hv, Option.some.injEq] at h
        subst h
        obtain ⟨rest, _, hev⟩ := splitName_spec hs
        have he := escapeVersion_unescapeVersion hv
        obtain ⟨_, hes⟩ := escapeVersion_eq_some.mp he
        exact (head_escapeString hes 118 (by decide)).mp (by rw [hev]; rfl)

/-- **canonical names decode to themselves**: for a path without `_` and a version without `_` that
starts with `v`, the base name `readArchive` derives decodes (in `readModList`) to the same pair. -/
theorem decodeBase_of_archiveBase {p v base : Bytes} (h : archiveBase p v = some base)
    (hp : 95 ∉ p) (hv : 95 ∉ v) (hhead : v.head? = some 118) : decodeBase base = some (some ⟨p, v⟩) := by
  unfold archiveBase at h
  cases hep : escapePath p with
  | none => simp [hep] at h
  | some enc =>
    cases hev : escapeVersion v with
    | none => simp [hep, hev] at h
    | some encV =>
      have h1 : Gen.Proxy.archReplFrom = [47] := rfl
      have h2 : Gen.Proxy.archReplTo = [95] := rfl
      have h3 : Gen.Proxy.archJoin = [95] := rfl
      simp only [hep, hev, h1, h2, h3, Option.some.injEq] at h
      obtain ⟨_, hes⟩ := escapePath_eq_some.mp hep
      obtain ⟨_, hvs⟩ := escapeVersion_eq_some.mp hev
      have henc : (95 : UInt8) ∉ enc := fun h' => hp ((mem_escapeString hes 95 (by decide) (by decide) (by decide)).mp h')
      have hencV : (95 : UInt8) ∉ encV := fun h' => hv ((mem_escapeString hvs 95 (by decide) (by decide) (by decide)).mp h')
      have hheadV : encV.head? = some 118 := (head_escapeString hvs 118 (by decide)).mpr hhead
      have hsplit := splitName_append (replaceByte [47] [95] enc) encV hencV hheadV
      unfold decodeBase
      have hb : base = replaceByte [47] [95] enc ++ 95 :: encV := by rw [← h]; simp
      rw [hb, hsplit]
      have hf : Gen.Proxy.modListReplFrom = [95] := rfl
      have ht : Gen.Proxy.modListReplTo = [47] := rfl
      simp only [hf, ht]
      rw [replaceByte_replaceByte 47 95 enc henc, unescapePath_escapePath hep, unescapeVersion_escapeVersion hev]

/-! ### sorting -/

theorem mem_insertBy {α} (le : α → α → Bool) (a x : α) : ∀ l : List α, x ∈ insertBy le a l ↔ x = a ∨ x ∈ l := by
  intro l
  induction l with
  | nil => simp [insertBy]
  | cons b bs ih =>
    unfold insertBy
    by_cases h : le a b = true
    · simp [h]
    · simp only [h, Bool.false_eq_true, if_false, List.mem_cons, ih]
      constructor
      · rintro (h | h | h)
        · exact Or.inr (Or.inl h)
        · exact Or.inl h
        · exact Or.inr (Or.inr h)
      · rintro (h | h | h)
        · exact Or.inr (Or.inl h)
        · exact Or.inl h
        · exact Or.inr (Or.inr h)

theorem mem_sortBy {α} (le : α → α → Bool) (x : α) : ∀ l : List α, x ∈ sortBy le l ↔ x ∈ l := by
  intro l
  induction l with
  | nil => simp [sortBy]
  | cons a as ih => simp [sortBy, mem_insertBy, ih]

theorem perm_insertBy {α} (le : α → α → Bool) (a : α) : ∀ l : List α, (insertBy le a l).Perm (a :: l) := by
  intro l
  induction l with
  | nil => simp [insertBy]
  | cons b bs ih =>
    unfold insertBy
    by_cases h : le a b = true
    · simp [h]
    · simp only [h, Bool.false_eq_true, if_false]
      exact (List.Perm.cons b ih).trans (List.Perm.swap a b bs)

theorem perm_sortBy {α} (le : α → α → Bool) : ∀ l : List α, (sortBy le l).Perm l := by
  intro l
  induction l with
  | nil => simp [sortBy]
  | cons a as ih => exact (perm_insertBy le a _).trans (List.Perm.cons a ih)

/-! ### readModList -/

theorem entryBase_prefix {n base : Bytes} {d : Bool} (h : entryBase n d = some base) : ∃ suf, n = base ++ suf := by
  unfold entryBase at h
  cases hf : Gen.Proxy.modListSuffixes.find? (fun suf => hasSuffix suf n) with
  | some suf =>
    simp only [hf, Option.some.injEq] at h
    exact ⟨n.drop (n.length - suf.length), by rw [← h]; simp⟩
  | none =>
    simp only [hf] at h
    by_cases hd : d = true
    · simp only [hd, if_true, Option.some.injEq] at h
      exact ⟨[], by simp [h]⟩
    · simp [hd] at h

theorem mem_readModListAux : ∀ (es : List (Bytes × Bool)) (ml : List ModVer), readModListAux es = some ml →
    ∀ m, (m ∈ ml ↔ ∃ e ∈ es, ∃ base, entryBase e.1 e.2 = some base ∧ decodeBase base = some (some m)) := by
  intro es
  induction es with
  | nil =>
    intro ml h m
    simp only [readModListAux, Option.some.injEq] at h
    subst h
    simp
  | cons e es ih =>
    intro ml h m
    obtain ⟨n, d⟩ := e
    unfold readModListAux at h
    cases hb : entryBase n d with
    | none =>
      simp only [hb] at h
      rw [ih ml h m]
      constructor
      · rintro ⟨e, he, r⟩; exact ⟨e, List.mem_cons_of_mem _ he, r⟩
      · rintro ⟨e, he, base, h1, h2⟩
        rcases List.mem_cons.mp he with rfl | he
        · simp [hb] at h1
        · exact ⟨e, he, base, h1, h2⟩
    | some base =>
      simp only [hb] at h
      cases hd : decodeBase base with
      | none =>
        simp only [hd] at h
        rw [ih ml h m]
        constructor
        · rintro ⟨e, he, r⟩; exact ⟨e, List.mem_cons_of_mem _ he, r⟩
        · rintro ⟨e, he, base', h1, h2⟩
          rcases List.mem_cons.mp he with rfl | he
          · simp only [hb, Option.some.injEq] at h1; subst h1; simp [hd] at h2
          · exact ⟨e, he, base', h1, h2⟩
      | some r =>
        cases r with
        | none => simp [hd] at h
        | some m0 =>
          simp only [hd, Option.map_eq_some_iff] at h
          obtain ⟨ml', hml', rfl⟩ := h
          rw [List.mem_cons, ih ml' hml' m]
          constructor
          · rintro (rfl | ⟨e, he, r⟩)
            · exact ⟨(n, d), List.mem_cons_self .., base, hb, hd⟩
            · exact ⟨e, List.mem_cons_of_mem _ he, r⟩
          · rintro ⟨e, he, base', h1, h2⟩
            rcases List.mem_cons.mp he with rfl | he
            · simp only [hb, Option.some.injEq] at h1
              subst h1
              rw [hd] at h2
              simp only [Option.some.injEq] at h2
              exact Or.inl h2.symm
            · exact Or.inr ⟨e, he, base', h1, h2⟩

/-- the entries of the served directory have no '/' in their names (`os.ReadDir`) -/
def NoSlash (st : Store) : Prop := ∀ e ∈ st, 47 ∉ e.1

/-- **what `readModList` records**: exactly the pairs decoded from the directory entries that are
archives (`.txt`, `.txtar`) or directories. -/
theorem mem_readModList {st : Store} {ml : List ModVer} (h : readModList st = some ml) (m : ModVer) :
    m ∈ ml ↔ ∃ e ∈ st, ∃ base, entryBase e.1 e.2.isDir = some base ∧ decodeBase base = some (some m) := by
  unfold readModList at h
  rw [mem_readModListAux _ _ h m]
  unfold readDir
  constructor
  · rintro ⟨e, he, r⟩
    rw [mem_sortBy, List.mem_map] at he
    obtain ⟨e0, he0, rfl⟩ := he
    exact ⟨e0, he0, r⟩
  · rintro ⟨e, he, r⟩
    refine ⟨(e.1, e.2.isDir), ?_, r⟩
    rw [mem_sortBy, List.mem_map]
    exact ⟨e, he, rfl⟩

/-- every recorded module version round-trips to the base name of one of the directory entries -/
theorem archiveBase_of_mem {st : Store} {ml : List ModVer} (h : readModList st = some ml) (hns : NoSlash st)
    {m : ModVer} (hm : m ∈ ml) :
    ∃ base, archiveBase m.path m.version = some base ∧ decodeBase base = some (some m) ∧
      ∃ e ∈ st, entryBase e.1 e.2.isDir = some base := by
  obtain ⟨e, he, base, hb, hd⟩ := (mem_readModList h m).mp hm
  obtain ⟨suf, hsuf⟩ := entryBase_prefix hb
  have hslash : (47 : UInt8) ∉ base := fun h' => hns e he (by rw [hsuf]; simp [h'])
  exact ⟨base, archiveBase_of_decodeBase hd hslash, hd, e, he, hb⟩

/-- two recorded module versions with the same archive name are the same (so an archive — the key of
`zipCache` — determines path and version) -/
theorem modVer_of_base_unique {st : Store} {ml : List ModVer} (h : readModList st = some ml) (hns : NoSlash st)
    {m1 m2 : ModVer} (h1 : m1 ∈ ml) (h2 : m2 ∈ ml) {name : Bytes}
    (hb1 : archiveBase m1.path m1.version = some name) (hb2 : archiveBase m2.path m2.version = some name) : m1 = m2 := by
  obtain ⟨b1, ha1, hd1, _⟩ := archiveBase_of_mem h hns h1
  obtain ⟨b2, ha2, hd2, _⟩ := archiveBase_of_mem h hns h2
  rw [hb1] at ha1
  rw [hb2] at ha2
  have e1 : name = b1 := Option.some.inj ha1
  have e2 : name = b2 := Option.some.inj ha2
  rw [← e1] at hd1
  rw [← e2] at hd2
  rw [hd1] at hd2
  simpa using hd2

theorem version_head_of_mem {st : Store} {ml : List ModVer} (h : readModList st = some ml)
    {m : ModVer} (hm : m ∈ ml) : m.version.head? = some 118 := by
  obtain ⟨_, _, _, _, hd⟩ := (mem_readModList h m).mp hm
  exact decodeBase_version_head hd

theorem not_allHex_of_head {v : Bytes} (h : v.head? = some 118) : allHex v = false := by
  cases v with
  | nil => simp at h
  | cons c rest =>
    simp only [List.head?_cons, Option.some.injEq] at h
    subst h
    have hr : Gen.Proxy.hexRanges = [(48, 57), (97, 102)] := rfl
    simp [allHex, hr]

end GIV.Proxy
