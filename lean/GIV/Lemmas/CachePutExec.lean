/-
  GIV.Lemmas.CachePutExec — what the individual system calls of the model do (independent of the
  order facts of `put` / `copyFile` / `putIndexEntry`): shared by the C12 and the C11 lemma files.
-/
import GIV.Lemmas.CachePutFS

set_option linter.unusedSimpArgs false
set_option linter.unusedSectionVars false
set_option linter.unusedVariables false

namespace GIV.CachePut
open GIV

variable {Id Hsh : Type} [DecidableEq Id] [DecidableEq Hsh]
variable {P : Params Id Hsh} {offered : Bytes → Prop} {now : Int} {id : Id} {s : Src} {used used' : Bool}
  {fs fs' : FS Id Hsh} {proc n : Nat} {fault : Fault} {r : Res} {nx : Next Hsh}

theorem first_lt (h : s.size ≠ 0) : s.first < s.size := by
  simp [Src.first, Gen.CachePut.firstLen]; omega

theorem take_take_length {α : Type} (l : List α) (k : Nat) : l.take (l.take k).length = l.take k := by
  rw [List.length_take]
  rcases Nat.le_total k l.length with h | h
  · rw [Nat.min_eq_left h]
  · rw [Nat.min_eq_right h, List.take_of_length_le h, List.take_of_length_le (Nat.le_refl _)]

theorem chunk_pos (n : Nat) : 0 < chunk n := by unfold chunk; split <;> omega

theorem exec_stat_same {p : Name Id Hsh} (hs : exec fs proc (.stat p) fault = some (fs', r)) : SameFiles fs fs' := by
  cases fault <;> simp only [exec, execOk] at hs
  all_goals first
    | (simp at hs; done)
    | (simp at hs; obtain ⟨rfl, _⟩ := hs; exact SameFiles.refl _)
    | (split at hs
       · simp at hs; obtain ⟨rfl, _⟩ := hs; exact SameFiles.refl _
       · split at hs
         · simp at hs
         · simp at hs; obtain ⟨rfl, _⟩ := hs; exact SameFiles.refl _)

theorem exec_chtimes_same {p : Name Id Hsh} (hs : exec fs proc (.chtimes p) fault = some (fs', r)) : SameFiles fs fs' := by
  cases fault <;> simp only [exec, execOk] at hs
  all_goals first
    | (simp at hs; done)
    | (simp at hs; obtain ⟨rfl, _⟩ := hs; exact SameFiles.refl _)
    | (split at hs <;> (simp at hs; obtain ⟨rfl, _⟩ := hs; exact SameFiles.refl _))

theorem exec_close_same {fd : Nat} (hs : exec fs proc (.close fd) fault = some (fs', r)) : SameFiles fs fs' := by
  cases fault <;> simp only [exec, execOk] at hs
  all_goals first
    | (simp at hs; done)
    | (simp at hs; obtain ⟨rfl, _⟩ := hs; exact SameFiles.refl _)
    | (split at hs <;> (simp at hs; obtain ⟨rfl, _⟩ := hs; exact ⟨rfl, rfl, rfl⟩))

theorem tstep_eq {op : Op Id} {pc : PC Hsh} (hs : tstep P now fs proc op pc fault n = some (fs', r, nx)) :
    exec fs proc (sysOf P now n op pc) fault = some (fs', r) ∧ nx = next P fs'.content n op pc r := by
  simp only [tstep] at hs
  split at hs
  · simp at hs
  · next fs1 r1 he =>
    simp at hs
    obtain ⟨rfl, rfl, rfl⟩ := hs
    exact ⟨he, rfl⟩

theorem write_spec {fd : Nat} {bs : Bytes} (hs : execOk fs proc (.write fd bs) = some (fs', r)) :
    ∃ o nd, fs.fds fd = some o ∧ fs.inodes o.ino = some nd ∧
      fs' = (fs.setInode o.ino { nd with data := writeAt nd.data o.off bs }).setFd fd (some { o with off := o.off + bs.length }) ∧
      r = .okN bs.length := by
  simp only [execOk] at hs
  cases hfd : fs.fds fd with
  | none => simp [hfd] at hs
  | some o =>
    cases hino : fs.inodes o.ino with
    | none => simp [hfd, hino] at hs
    | some nd =>
      simp [hfd, hino] at hs
      obtain ⟨rfl, rfl⟩ := hs
      exact ⟨o, nd, rfl, hino, rfl, rfl⟩

theorem ftruncate_spec {fd k : Nat} (hs : execOk fs proc (.ftruncate fd k) = some (fs', r)) :
    ∃ o nd, fs.fds fd = some o ∧ fs.inodes o.ino = some nd ∧
      fs' = fs.setInode o.ino { nd with data := truncTo nd.data k } ∧ r = .ok := by
  simp only [execOk] at hs
  cases hfd : fs.fds fd with
  | none => simp [hfd] at hs
  | some o =>
    cases hino : fs.inodes o.ino with
    | none => simp [hfd, hino] at hs
    | some nd =>
      simp [hfd, hino] at hs
      obtain ⟨rfl, rfl⟩ := hs
      exact ⟨o, nd, rfl, hino, rfl, rfl⟩

theorem exec_open_ro_same {p : Name Id Hsh} {m : Mode} (hs : exec fs proc (.open p m false false) fault = some (fs', r)) :
    SameFiles fs fs' := by
  cases fault <;> simp only [exec, execOk] at hs
  all_goals first
    | (simp at hs; done)
    | (simp at hs; obtain ⟨rfl, _⟩ := hs; exact SameFiles.refl _)
    | (split at hs
       · split at hs
         · simp at hs
         · simp [FS.newFd] at hs; obtain ⟨rfl, _⟩ := hs; exact ⟨rfl, rfl, rfl⟩
       · simp at hs; obtain ⟨rfl, _⟩ := hs; exact SameFiles.refl _)

theorem exec_read_same {fd k : Nat} (hs : exec fs proc (.read fd k) fault = some (fs', r)) : SameFiles fs fs' := by
  cases fault <;> simp only [exec, execOk] at hs
  all_goals first
    | (simp at hs; done)
    | (simp at hs; obtain ⟨rfl, _⟩ := hs; exact SameFiles.refl _)
    | (split at hs
       · simp at hs
       · split at hs
         · simp at hs
         · split at hs
           · simp at hs; obtain ⟨rfl, _⟩ := hs; exact SameFiles.refl _
           · simp at hs; obtain ⟨rfl, _⟩ := hs; exact ⟨rfl, rfl, rfl⟩)

theorem stat_spec {p : Name Id Hsh} (hs : execOk fs proc (.stat p) = some (fs', r)) :
    fs' = fs ∧ ((fs.names p = none ∧ r = .enoent) ∨ ∃ i nd, fs.names p = some i ∧ fs.inodes i = some nd ∧ r = .okSize nd.data.length) := by
  simp only [execOk] at hs
  cases hnm : fs.names p with
  | none => simp [hnm] at hs; obtain ⟨rfl, rfl⟩ := hs; exact ⟨rfl, Or.inl ⟨rfl, rfl⟩⟩
  | some i =>
    cases hnd : fs.inodes i with
    | none => simp [hnm, hnd] at hs
    | some nd => simp [hnm, hnd] at hs; obtain ⟨rfl, rfl⟩ := hs; exact ⟨rfl, Or.inr ⟨i, nd, rfl, hnd, rfl⟩⟩

theorem exec_okSize {p : Name Id Hsh} {L : Nat} (hs : exec fs proc (.stat p) fault = some (fs', .okSize L)) :
    fs' = fs ∧ ∃ i nd, fs.names p = some i ∧ fs.inodes i = some nd ∧ L = nd.data.length := by
  cases fault <;> simp only [exec] at hs
  case none =>
    obtain ⟨rfl, h⟩ := stat_spec hs
    rcases h with ⟨_, h⟩ | ⟨i, nd, h1, h2, h3⟩
    · cases h
    · cases h3; exact ⟨rfl, i, nd, h1, h2, rfl⟩
  case crashAfter =>
    obtain ⟨rfl, h⟩ := stat_spec hs
    rcases h with ⟨_, h⟩ | ⟨i, nd, h1, h2, h3⟩
    · cases h
    · cases h3; exact ⟨rfl, i, nd, h1, h2, rfl⟩
  all_goals simp at hs

theorem exec_okFd_ro {p : Name Id Hsh} {m : Mode} {fd : Nat} (hs : exec fs proc (.open p m false false) fault = some (fs', .okFd fd)) :
    ∃ i nd, fs.names p = some i ∧ fs.inodes i = some nd ∧ fs'.fds fd = some ⟨i, 0, proc⟩ := by
  have key : execOk fs proc (.open p m false false) = some (fs', .okFd fd) →
      ∃ i nd, fs.names p = some i ∧ fs.inodes i = some nd ∧ fs'.fds fd = some ⟨i, 0, proc⟩ := by
    intro h
    simp only [execOk] at h
    cases hnm : fs.names p with
    | none => simp [hnm] at h
    | some i =>
      cases hnd : fs.inodes i with
      | none => simp [hnm, hnd] at h
      | some nd =>
        simp [hnm, hnd, FS.newFd] at h
        obtain ⟨rfl, rfl⟩ := h
        exact ⟨i, nd, rfl, hnd, by simp⟩
  cases fault <;> simp only [exec] at hs
  case none => exact key hs
  case crashAfter => exact key hs
  all_goals simp at hs

/-- a read at the descriptor's offset: either end of file (nothing left), or the next bytes. -/
theorem read_spec {fd k : Nat} (hs : exec fs proc (.read fd k) fault = some (fs', r)) (hr : r ≠ .fail) :
    ∃ o nd, fs.fds fd = some o ∧ fs.inodes o.ino = some nd ∧
      ((r = .eof ∧ fs' = fs ∧ (nd.data.drop o.off).take k = []) ∨
       (∃ bs, r = .okData bs ∧ bs ≠ [] ∧ bs = (nd.data.drop o.off).take k ∧
          fs' = fs.setFd fd (some { o with off := o.off + bs.length }))) := by
  have key : execOk fs proc (.read fd k) = some (fs', r) → ∃ o nd, fs.fds fd = some o ∧ fs.inodes o.ino = some nd ∧
      ((r = .eof ∧ fs' = fs ∧ (nd.data.drop o.off).take k = []) ∨
       (∃ bs, r = .okData bs ∧ bs ≠ [] ∧ bs = (nd.data.drop o.off).take k ∧
          fs' = fs.setFd fd (some { o with off := o.off + bs.length }))) := by
    intro h
    simp only [execOk] at h
    cases hfd : fs.fds fd with
    | none => simp [hfd] at h
    | some o =>
      cases hino : fs.inodes o.ino with
      | none => simp [hfd, hino] at h
      | some nd =>
        simp only [hfd, hino] at h
        by_cases hb : (nd.data.drop o.off).take k = []
        · simp [hb] at h; obtain ⟨rfl, rfl⟩ := h
          exact ⟨o, nd, rfl, hino, Or.inl ⟨rfl, rfl, hb⟩⟩
        · simp [hb] at h; obtain ⟨rfl, rfl⟩ := h
          exact ⟨o, nd, rfl, hino, Or.inr ⟨_, rfl, hb, rfl, by simp⟩⟩
  cases fault <;> simp only [exec] at hs
  case none => exact key hs
  case crashAfter => exact key hs
  case fail => simp at hs; exact absurd hs.2.symm hr
  all_goals simp at hs

theorem take_nil_of_pos {α : Type} {l : List α} {k : Nat} (hk : 0 < k) (h : l.take k = []) : l = [] := by
  cases l with
  | nil => rfl
  | cons a t => cases k with
    | zero => omega
    | succ m => simp at h

/-! ## which files a system call can change -/

/-- the names whose content a system call may change are among `q1`, `q2`. -/
def Touches (fs : FS Id Hsh) (q1 q2 : Name Id Hsh) : Sys Id Hsh → Prop
  | .open q _ _ _ => q = q1 ∨ q = q2
  | .unlink q => q = q1 ∨ q = q2
  | .write fd _ => ∀ o, fs.fds fd = some o → fs.names q1 = some o.ino ∨ fs.names q2 = some o.ino
  | .ftruncate fd _ => ∀ o, fs.fds fd = some o → fs.names q1 = some o.ino ∨ fs.names q2 = some o.ino
  | _ => True

theorem content_same (h : SameFiles fs fs') (p : Name Id Hsh) : fs'.content p = fs.content p := by
  simp [FS.content, FS.file?, h.1, h.2.1]

theorem content_setInode {q p : Name Id Hsh} {i : Nat} (hst : Struct fs) (hq : fs.names q = some i) (hp : p ≠ q)
    (nd' : Inode Id Hsh) : (fs.setInode i nd').content p = fs.content p := by
  simp only [FS.content, FS.file?, FS.setInode]
  cases hn : fs.names p with
  | none => rfl
  | some j =>
    have : j ≠ i := by
      intro e; subst e
      obtain ⟨a, h1, h2⟩ := hst.named _ _ hn
      obtain ⟨b, h3, h4⟩ := hst.named _ _ hq
      rw [h1] at h3; cases h3
      exact hp (h2.symm.trans h4)
    simp [this]

theorem execOk_frame (hst : Struct fs) {sys : Sys Id Hsh} {q1 q2 : Name Id Hsh} (he : execOk fs proc sys = some (fs', r))
    (ht : Touches fs q1 q2 sys) {p : Name Id Hsh} (h1 : p ≠ q1) (h2 : p ≠ q2) : fs'.content p = fs.content p := by
  cases sys <;> simp only [Touches] at ht
  case stat q => exact content_same (exec_stat_same (fault := .none) (by simpa [exec] using he)) p
  case read fd k => exact content_same (exec_read_same (fault := .none) (by simpa [exec] using he)) p
  case close fd => exact content_same (exec_close_same (fault := .none) (by simpa [exec] using he)) p
  case chtimes q => exact content_same (exec_chtimes_same (fault := .none) (by simpa [exec] using he)) p
  case «open» q m create trunc =>
    have hpq : p ≠ q := by rcases ht with rfl | rfl <;> assumption
    simp only [execOk] at he
    cases hnm : fs.names q with
    | some i =>
      cases hnd : fs.inodes i with
      | none => simp [hnm, hnd] at he
      | some nd =>
        simp [hnm, hnd, FS.newFd] at he
        obtain ⟨rfl, _⟩ := he
        cases trunc with
        | false => simp [FS.content, FS.file?]
        | true =>
          have := content_setInode hst hnm hpq { nd with data := [] }
          simpa [FS.content, FS.file?] using this
    | none =>
      cases create with
      | false => simp [hnm] at he; obtain ⟨rfl, _⟩ := he; rfl
      | true =>
        simp [hnm, FS.newFd] at he
        obtain ⟨rfl, _⟩ := he
        simp only [FS.content, FS.file?, hpq, if_false]
        cases hn : fs.names p with
        | none => rfl
        | some j =>
          have : j ≠ fs.nextIno := by
            intro e; subst e
            obtain ⟨a, g1, _⟩ := hst.named _ _ hn
            have := hst.bound _ _ g1; omega
          simp [this]
  case write fd bs =>
    obtain ⟨o, nd, g1, g2, rfl, _⟩ := write_spec he
    rcases ht o g1 with h | h
    · simpa [FS.content, FS.file?, FS.setFd] using content_setInode hst h h1 { nd with data := writeAt nd.data o.off bs }
    · simpa [FS.content, FS.file?, FS.setFd] using content_setInode hst h h2 { nd with data := writeAt nd.data o.off bs }
  case ftruncate fd k =>
    obtain ⟨o, nd, g1, g2, rfl, _⟩ := ftruncate_spec he
    rcases ht o g1 with h | h
    · exact content_setInode hst h h1 _
    · exact content_setInode hst h h2 _
  case unlink q =>
    have hpq : p ≠ q := by rcases ht with rfl | rfl <;> assumption
    simp only [execOk] at he
    split at he <;> (simp at he; obtain ⟨rfl, _⟩ := he)
    · rfl
    · simp [FS.content, FS.file?, hpq]

theorem exec_frame (hst : Struct fs) {sys : Sys Id Hsh} {q1 q2 : Name Id Hsh} (he : exec fs proc sys fault = some (fs', r))
    (ht : Touches fs q1 q2 sys) {p : Name Id Hsh} (h1 : p ≠ q1) (h2 : p ≠ q2) : fs'.content p = fs.content p := by
  cases fault <;> simp only [exec] at he
  case none => exact execOk_frame hst he ht h1 h2
  case crashAfter => exact execOk_frame hst he ht h1 h2
  case fail => simp at he; obtain ⟨rfl, _⟩ := he; rfl
  case crashBefore => simp at he
  case short k =>
    cases sys <;> simp at he
    case write fd bs =>
      split at he
      · next w1 r1 hw =>
        simp at he; obtain ⟨rfl, _⟩ := he
        exact execOk_frame hst hw (by simpa [Touches] using ht) h1 h2
      · simp at he

end GIV.CachePut
