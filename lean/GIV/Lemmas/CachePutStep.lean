/-
  GIV.Lemmas.CachePutStep — the local invariant of a running `Put` and its preservation by every
  program step under every single fault placement (C12).
-/
import GIV.Lemmas.CachePutFS

set_option linter.unusedSimpArgs false
set_option linter.unusedSectionVars false
set_option linter.unusedVariables false

namespace GIV.CachePut
open GIV

variable {Id Hsh : Type} [DecidableEq Id] [DecidableEq Hsh]

/-- how a fault spends the budget of one Put: at most one of `fail` / `short k` (a crash ends the run). -/
inductive FaultStep : Fault → Bool → Bool → Prop
  | none (u : Bool) : FaultStep .none u u
  | fail : FaultStep .fail false true
  | short (k : Nat) : FaultStep (.short k) false true

section
variable (P : Params Id Hsh) (offered : Bytes → Prop) (now : Int) (id : Id) (s : Src) (used : Bool) (fs : FS Id Hsh)

/-- the copying phase: `fd` is open on the data file, the first `off` bytes are those of the second
pass, `rest` is still to be written; the file has never been longer than `size`, and as long as no
fault happened it is shorter than `size`. -/
def WriteSt (fd : Nat) (rest : Bytes) : Prop :=
  ∃ o nd, fs.fds fd = some o ∧ fs.names (.data (putOut P s)) = some o.ino ∧ fs.inodes o.ino = some nd ∧
    FSInvExc P offered fs (some (.data (putOut P s))) ∧
    nd.data.take o.off ++ rest = s.data2.take s.first ∧ o.off ≤ nd.data.length ∧
    nd.data.length ≤ s.size ∧ (used = false → nd.data.length ≤ s.first)

/-- an error path before `f.Truncate(0)`: the data file may hold anything (it is exempted), unless no fault
has been injected yet, in which case it is still acceptable. -/
def TruncSt (fd : Nat) : Prop :=
  ∃ o nd, fs.fds fd = some o ∧ fs.names (.data (putOut P s)) = some o.ino ∧ fs.inodes o.ino = some nd ∧
    FSInvExc P offered fs (some (.data (putOut P s))) ∧ (used = false → FileOK P offered (.data (putOut P s)) nd.data)

/-- the invariant of a running `Put(id, s)` at program point `pc`, `used` = a fault has been injected. -/
def LocalPut : PC Hsh → Prop
  | .pStat => FSInv P offered fs
  | .pCkOpen _ => FSInv P offered fs
  | .pCkRead fd acc _ => FSInv P offered fs ∧ (used = false → ∃ o nd, fs.fds fd = some o ∧
      fs.names (.data (putOut P s)) = some o.ino ∧ fs.inodes o.ino = some nd ∧ acc = nd.data.take o.off)
  | .pCkClose _ acc _ => FSInv P offered fs ∧ (used = false → ∃ i nd,
      fs.names (.data (putOut P s)) = some i ∧ fs.inodes i = some nd ∧ acc = nd.data)
  | .pReuseStat => FSInv P offered fs
  | .pReuseChtimes => FSInv P offered fs
  | .pOpen trunc => FSInv P offered fs ∧ (used = false → trunc = false → ∀ i nd,
      fs.names (.data (putOut P s)) = some i → fs.inodes i = some nd → nd.data.length < s.size)
  | .pWrite fd rest => s.size ≠ 0 ∧ rest ≠ [] ∧ WriteSt P offered s used fs fd rest
  | .pCommit fd checked => s.size ≠ 0 ∧ checked = true ∧ s.first < s.data2.length ∧
      P.H (s.data2.take (s.first + 1)) = putOut P s ∧ WriteSt P offered s used fs fd []
  | .pTrunc0 fd => s.size ≠ 0 ∧ TruncSt P offered s used fs fd
  | .pClose _ => FSInv P offered fs
  | .pRemoveData _ => FSInv P offered fs
  | .pChtimes _ => FSInv P offered fs
  | .pDeferClose _ _ => FSInv P offered fs
  | .iOpen => FSInv P offered fs
  | .iWrite fd => FSInv P offered fs ∧ ∃ o, fs.fds fd = some o ∧ o.off = 0 ∧ fs.names (.index id) = some o.ino
  | .iTrunc fd => FSInv P offered fs ∧ ∃ o nd, fs.fds fd = some o ∧ fs.names (.index id) = some o.ino ∧
      fs.inodes o.ino = some nd ∧ nd.data = P.enc id (putOut P s) s.size now
  | .iClose _ err => if err then used = true ∧ FSInvExc P offered fs (some (.index id)) else FSInv P offered fs
  | .iRemove => FSInvExc P offered fs (some (.index id)) ∧ (used = false → FSInv P offered fs)
  | .iChtimes => FSInv P offered fs
  | _ => False

end

end GIV.CachePut

namespace GIV.CachePut
variable {Id Hsh : Type} [DecidableEq Id] [DecidableEq Hsh]
variable {P : Params Id Hsh} {offered : Bytes → Prop} {now : Int} {id : Id} {s : Src} {used used' : Bool}
  {fs fs' : FS Id Hsh} {proc n : Nat} {fault : Fault} {r : Res} {nx : Next Hsh}

/-- conclusion of a step lemma. -/
def PutPost (P : Params Id Hsh) (offered : Bytes → Prop) (now : Int) (id : Id) (s : Src) (used' : Bool)
    (fs' : FS Id Hsh) : Next Hsh → Prop
  | .goto pc' => LocalPut P offered now id s used' fs' pc'
  | .done _ => FSInv P offered fs'

/-- what is acceptable for the data file of `s`: shorter than the content, or the content. -/
theorem fileOK_data_short (hy : Hyps P offered) (hoff : offered s.data1) (d : Bytes) (h : d.length < s.size) :
    FileOK P offered (.data (putOut P s)) d := by
  intro c hc hh
  have : s.data1 = c := hy.noColl c s.data1 hc (by simpa [putOut] using hh.symm)
  left; rw [← this]; exact h

theorem fileOK_data_full (hy : Hyps P offered) (hoff : offered s.data1) :
    FileOK P offered (.data (putOut P s)) s.data1 := by
  intro c hc hh
  have : s.data1 = c := hy.noColl c s.data1 hc (by simpa [putOut] using hh.symm)
  right; exact this

theorem fileOK_data_le (hoff : offered s.data1) {d : Bytes} (h : FileOK P offered (.data (putOut P s)) d) :
    d.length ≤ s.size := by
  rcases h s.data1 hoff rfl with h | h
  · exact Nat.le_of_lt h
  · rw [h]; exact Nat.le_refl _

theorem first_lt (h : s.size ≠ 0) : s.first < s.size := by
  simp [Src.first, Gen.CachePut.firstLen]; omega

theorem WriteSt.toTrunc (hy : Hyps P offered) (hoff : offered s.data1) (hsz : s.size ≠ 0) {fd : Nat} {rest : Bytes}
    (h : WriteSt P offered s used fs fd rest) : TruncSt P offered s used fs fd := by
  obtain ⟨o, nd, h1, h2, h3, h4, _, _, _, h8⟩ := h
  exact ⟨o, nd, h1, h2, h3, h4, fun hu => fileOK_data_short hy hoff _ (Nat.lt_of_le_of_lt (h8 hu) (first_lt hsz))⟩

theorem TruncSt.mono {fd : Nat} (h : TruncSt P offered s used fs fd) : TruncSt P offered s true fs fd := by
  obtain ⟨o, nd, h1, h2, h3, h4, _⟩ := h
  exact ⟨o, nd, h1, h2, h3, h4, fun hu => by simp at hu⟩

theorem post_errPath (hsz : s.size ≠ 0) {fd : Nat} (h : TruncSt P offered s used' fs' fd) :
    PutPost P offered now id s used' fs' (errPath fd true) := by
  simp [errPath, PutPost, LocalPut, hsz, h]

theorem post_afterCopyN (hy : Hyps P offered) (hoff : offered s.data1) (hsz : s.size ≠ 0) {fd : Nat}
    (h : WriteSt P offered s used' fs' fd []) : PutPost P offered now id s used' fs' (afterCopyN P s fd) := by
  have ht := h.toTrunc hy hoff hsz
  unfold afterCopyN
  simp only [Gen.CachePut.truncOnCopyErr, Gen.CachePut.truncOnLastReadErr, Gen.CachePut.truncOnMismatch,
    Gen.CachePut.checkBeforeLastByte, Gen.CachePut.underfoot, if_true]
  split
  · exact post_errPath hsz ht
  · split
    · exact post_errPath hsz ht
    · next h1 h2 =>
      by_cases hc : P.H (List.take (s.first + 1) s.data2) = putOut P s
      · simp only [hc, decide_true, Bool.not_true, Bool.false_eq_true, if_false, PutPost, LocalPut]
        exact ⟨hsz, trivial, by omega, trivial, h⟩
      · simp only [hc, decide_false, Bool.not_false, if_true]
        exact post_errPath hsz ht

theorem post_writeOrNext (hy : Hyps P offered) (hoff : offered s.data1) (hsz : s.size ≠ 0) {fd : Nat} {rest : Bytes}
    (h : WriteSt P offered s used' fs' fd rest) : PutPost P offered now id s used' fs' (writeOrNext P s fd rest) := by
  unfold writeOrNext
  split
  · next hr => subst hr; exact post_afterCopyN hy hoff hsz h
  · next hr => simp only [PutPost, LocalPut]; exact ⟨hsz, hr, h⟩

theorem step_pStat (hL : LocalPut P offered now id s used fs .pStat)
    (hs : tstep P now fs proc (.put id s) .pStat fault n = some (fs', r, nx))
    (hf : FaultStep fault used used') : PutPost P offered now id s used' fs' nx := by
  simp only [LocalPut] at hL
  cases hf with
  | none u =>
    simp only [tstep, sysOf, exec, execOk] at hs
    cases hnm : fs.names (.data (putOut P s)) with
    | none =>
      simp [hnm] at hs
      obtain ⟨rfl, rfl, rfl⟩ := hs
      simp [next, PutPost, LocalPut, hL, hnm]
    | some i =>
      obtain ⟨nd, hnd, _⟩ := hL.1.named _ _ hnm
      simp [hnm, hnd] at hs
      obtain ⟨rfl, rfl, rfl⟩ := hs
      simp only [next, Gen.CachePut.reuseCheck, Gen.CachePut.dataOpenTrunc, Bool.true_and, decide_eq_true_eq]
      split
      · exact hL
      · refine ⟨hL, fun _ ht i' nd' hi' hnd' => ?_⟩
        rw [hnm] at hi'; cases hi'
        rw [hnd] at hnd'; cases hnd'
        simp at ht
        omega
  | fail =>
    simp [tstep, sysOf, exec] at hs
    obtain ⟨rfl, rfl, rfl⟩ := hs
    simp [next, PutPost, LocalPut, hL]
  | short k => simp [tstep, sysOf, exec] at hs

theorem newFd_inv {ex : Option (Name Id Hsh)} (i : Nat) (h : FSInvExc P offered fs ex) :
    FSInvExc P offered (fs.newFd i proc).1 ex :=
  SameFiles.inv (fs := fs) ⟨rfl, rfl, rfl⟩ h

theorem step_pCkOpen {L : Nat} (hL : LocalPut P offered now id s used fs (.pCkOpen L))
    (hs : tstep P now fs proc (.put id s) (.pCkOpen L) fault n = some (fs', r, nx))
    (hf : FaultStep fault used used') : PutPost P offered now id s used' fs' nx := by
  simp only [LocalPut] at hL
  cases hf with
  | none u =>
    simp only [tstep, sysOf, exec, execOk] at hs
    cases hnm : fs.names (.data (putOut P s)) with
    | none =>
      simp [hnm] at hs
      obtain ⟨rfl, rfl, rfl⟩ := hs
      simp [next, PutPost, LocalPut, hL, hnm]
    | some i =>
      obtain ⟨nd, hnd, _⟩ := hL.1.named _ _ hnm
      simp [hnm, hnd, FS.newFd] at hs
      obtain ⟨rfl, rfl, rfl⟩ := hs
      simp only [next, PutPost, LocalPut]
      refine ⟨SameFiles.inv (fs := fs) ⟨rfl, rfl, rfl⟩ hL, fun _ => ⟨⟨i, 0, proc⟩, nd, by simp, hnm, hnd, by simp⟩⟩
  | fail =>
    simp [tstep, sysOf, exec] at hs
    obtain ⟨rfl, rfl, rfl⟩ := hs
    simp [next, PutPost, LocalPut, hL]
  | short k => simp [tstep, sysOf, exec] at hs

theorem chunk_pos (n : Nat) : 0 < chunk n := by unfold chunk; split <;> omega

theorem step_pCkRead {fd L : Nat} {acc : Bytes} (hL : LocalPut P offered now id s used fs (.pCkRead fd acc L))
    (hs : tstep P now fs proc (.put id s) (.pCkRead fd acc L) fault n = some (fs', r, nx))
    (hf : FaultStep fault used used') : PutPost P offered now id s used' fs' nx := by
  simp only [LocalPut] at hL
  obtain ⟨hinv, hloc⟩ := hL
  cases hf with
  | none u =>
    simp only [tstep, sysOf, exec, execOk] at hs
    cases hfd : fs.fds fd with
    | none => simp [hfd] at hs
    | some o =>
      cases hino : fs.inodes o.ino with
      | none => simp [hfd, hino] at hs
      | some nd =>
        simp only [hfd, hino] at hs
        by_cases hb : (nd.data.drop o.off).take (chunk n) = []
        · simp [hb] at hs
          obtain ⟨rfl, rfl, rfl⟩ := hs
          simp only [next, PutPost, LocalPut]
          refine ⟨hinv, fun hu => ?_⟩
          obtain ⟨o', nd', h1, h2, h3, h4⟩ := hloc hu
          rw [hfd] at h1; cases h1
          rw [hino] at h3; cases h3
          refine ⟨_, _, h2, hino, ?_⟩
          have hc := chunk_pos n
          have : nd.data.drop o.off = [] := by
            cases hd : nd.data.drop o.off with
            | nil => rfl
            | cons a t =>
              rw [hd] at hb
              cases hcn : chunk n with
              | zero => omega
              | succ m => simp [hcn] at hb
          rw [h4]
          exact List.take_of_length_le (List.drop_eq_nil_iff.mp this)
        · simp [hb] at hs
          obtain ⟨rfl, rfl, rfl⟩ := hs
          simp only [next, PutPost, LocalPut]
          refine ⟨inv_setFd _ _ hinv, fun hu => ?_⟩
          obtain ⟨o', nd', h1, h2, h3, h4⟩ := hloc hu
          rw [hfd] at h1; cases h1
          rw [hino] at h3; cases h3
          refine ⟨_, nd, by simp [FS.setFd], h2, hino, ?_⟩
          simp only
          rw [h4, List.take_add]
          congr 1
          rw [List.take_take]
          congr 1
          simp
          omega
  | fail =>
    simp [tstep, sysOf, exec] at hs
    obtain ⟨rfl, rfl, rfl⟩ := hs
    simp [next, PutPost, LocalPut, hinv]
  | short k => simp [tstep, sysOf, exec] at hs

end GIV.CachePut
