/-
  GIV.Lemmas.CachePutStep — the local invariant of a running `Put` and its preservation by every
  program step under every single fault placement (C12).
-/
import GIV.Lemmas.CachePutExec

set_option linter.unusedSimpArgs false
set_option linter.unusedSectionVars false
set_option linter.unusedVariables false

namespace GIV.CachePut
open GIV

variable {Id Hsh : Type} [DecidableEq Id] [DecidableEq Hsh]

/-- how a fault spends the budget of one Put: at most one of `fail` / `short k` (a crash ends the run). -/
inductive FaultStep : Fault → Bool → Bool → Prop
  | none (u : Bool) : FaultStep .none u u
  | fail : FaultStep .fail false true
  | short (k : Nat) : FaultStep (.short k) false true

section
variable (P : Params Id Hsh) (offered : Bytes → Prop) (now : Int) (id : Id) (s : Src) (used : Bool) (fs : FS Id Hsh)

/-- the copying phase: `fd` is open on the data file, the first `off` bytes are those of the second
pass, `rest` is still to be written; the file has never been longer than `size`, and as long as no
fault happened it is shorter than `size`. -/
def WriteSt (fd : Nat) (rest : Bytes) : Prop :=
  ∃ o nd, fs.fds fd = some o ∧ fs.names (.data (putOut P s)) = some o.ino ∧ fs.inodes o.ino = some nd ∧
    FSInvExc P offered fs (some (.data (putOut P s))) ∧
    nd.data.take o.off ++ rest = s.data2.take s.first ∧ o.off ≤ nd.data.length ∧
    nd.data.length ≤ s.size ∧ (used = false → nd.data.length ≤ s.first)

/-- an error path before `f.Truncate(0)`: the data file may hold anything (it is exempted), unless no fault
has been injected yet, in which case it is still acceptable. -/
def TruncSt (fd : Nat) : Prop :=
  ∃ o nd, fs.fds fd = some o ∧ fs.names (.data (putOut P s)) = some o.ino ∧ fs.inodes o.ino = some nd ∧
    FSInvExc P offered fs (some (.data (putOut P s))) ∧ (used = false → FileOK P offered (.data (putOut P s)) nd.data)

/-- the invariant of a running `Put(id, s)` at program point `pc`, `used` = a fault has been injected. -/
def LocalPut : PC Hsh → Prop
  | .pStat => FSInv P offered fs
  | .pCkOpen _ => FSInv P offered fs
  | .pCkRead fd acc _ => FSInv P offered fs ∧ (used = false → ∃ o nd, fs.fds fd = some o ∧
      fs.names (.data (putOut P s)) = some o.ino ∧ fs.inodes o.ino = some nd ∧ acc = nd.data.take o.off)
  | .pCkClose _ acc _ => FSInv P offered fs ∧ (used = false → ∃ i nd,
      fs.names (.data (putOut P s)) = some i ∧ fs.inodes i = some nd ∧ acc = nd.data)
  | .pReuseStat => FSInv P offered fs
  | .pReuseChtimes => FSInv P offered fs
  | .pOpen trunc => FSInv P offered fs ∧ (used = false → trunc = false → ∀ i nd,
      fs.names (.data (putOut P s)) = some i → fs.inodes i = some nd → nd.data.length < s.size)
  | .pWrite fd rest => s.size ≠ 0 ∧ rest ≠ [] ∧ WriteSt P offered s used fs fd rest
  | .pCommit fd checked => s.size ≠ 0 ∧ checked = true ∧ s.first < s.data2.length ∧
      P.H (s.data2.take (s.first + 1)) = putOut P s ∧ WriteSt P offered s used fs fd []
  | .pTrunc0 fd => s.size ≠ 0 ∧ TruncSt P offered s used fs fd
  | .pClose _ => FSInv P offered fs
  | .pRemoveData _ => FSInv P offered fs
  | .pChtimes _ => FSInv P offered fs
  | .pDeferClose _ _ => FSInv P offered fs
  | .iOpen => FSInv P offered fs
  | .iWrite fd => FSInv P offered fs ∧ ∃ o, fs.fds fd = some o ∧ o.off = 0 ∧ fs.names (.index id) = some o.ino
  | .iTrunc fd => FSInv P offered fs ∧ ∃ o nd, fs.fds fd = some o ∧ fs.names (.index id) = some o.ino ∧
      fs.inodes o.ino = some nd ∧ nd.data = P.enc id (putOut P s) s.size now
  | .iClose _ err => if err then used = true ∧ FSInvExc P offered fs (some (.index id)) else FSInv P offered fs
  | .iRemove => FSInvExc P offered fs (some (.index id)) ∧ (used = false → FSInv P offered fs)
  | .iChtimes => FSInv P offered fs
  | _ => False

end

end GIV.CachePut

namespace GIV.CachePut
variable {Id Hsh : Type} [DecidableEq Id] [DecidableEq Hsh]
variable {P : Params Id Hsh} {offered : Bytes → Prop} {now : Int} {id : Id} {s : Src} {used used' : Bool}
  {fs fs' : FS Id Hsh} {proc n : Nat} {fault : Fault} {r : Res} {nx : Next Hsh}

/-- conclusion of a step lemma. -/
def PutPost (P : Params Id Hsh) (offered : Bytes → Prop) (now : Int) (id : Id) (s : Src) (used' : Bool)
    (fs' : FS Id Hsh) : Next Hsh → Prop
  | .goto pc' => LocalPut P offered now id s used' fs' pc'
  | .done _ => FSInv P offered fs'

/-- what is acceptable for the data file of `s`: shorter than the content, or the content. -/
theorem fileOK_data_short (hy : Hyps P offered) (hoff : offered s.data1) (d : Bytes) (h : d.length < s.size) :
    FileOK P offered (.data (putOut P s)) d := by
  intro c hc hh
  have : s.data1 = c := hy.noColl c s.data1 hc (by simpa [putOut] using hh.symm)
  left; rw [← this]; exact h

theorem fileOK_data_full (hy : Hyps P offered) (hoff : offered s.data1) :
    FileOK P offered (.data (putOut P s)) s.data1 := by
  intro c hc hh
  have : s.data1 = c := hy.noColl c s.data1 hc (by simpa [putOut] using hh.symm)
  right; exact this

theorem fileOK_data_le (hoff : offered s.data1) {d : Bytes} (h : FileOK P offered (.data (putOut P s)) d) :
    d.length ≤ s.size := by
  rcases h s.data1 hoff rfl with h | h
  · exact Nat.le_of_lt h
  · rw [h]; exact Nat.le_refl _

theorem WriteSt.toTrunc (hy : Hyps P offered) (hoff : offered s.data1) (hsz : s.size ≠ 0) {fd : Nat} {rest : Bytes}
    (h : WriteSt P offered s used fs fd rest) : TruncSt P offered s used fs fd := by
  obtain ⟨o, nd, h1, h2, h3, h4, _, _, _, h8⟩ := h
  exact ⟨o, nd, h1, h2, h3, h4, fun hu => fileOK_data_short hy hoff _ (Nat.lt_of_le_of_lt (h8 hu) (first_lt hsz))⟩

theorem TruncSt.mono {fd : Nat} (h : TruncSt P offered s used fs fd) : TruncSt P offered s true fs fd := by
  obtain ⟨o, nd, h1, h2, h3, h4, _⟩ := h
  exact ⟨o, nd, h1, h2, h3, h4, fun hu => by simp at hu⟩

theorem post_errPath (hsz : s.size ≠ 0) {fd : Nat} (h : TruncSt P offered s used' fs' fd) :
    PutPost P offered now id s used' fs' (errPath fd true) := by
  simp [errPath, PutPost, LocalPut, hsz, h]

theorem post_afterCopyN (hy : Hyps P offered) (hoff : offered s.data1) (hsz : s.size ≠ 0) {fd : Nat}
    (h : WriteSt P offered s used' fs' fd []) : PutPost P offered now id s used' fs' (afterCopyN P s fd) := by
  have ht := h.toTrunc hy hoff hsz
  unfold afterCopyN
  simp only [Gen.CachePut.truncOnCopyErr, Gen.CachePut.truncOnLastReadErr, Gen.CachePut.truncOnMismatch,
    Gen.CachePut.checkBeforeLastByte, Gen.CachePut.underfoot, if_true]
  split
  · exact post_errPath hsz ht
  · split
    · exact post_errPath hsz ht
    · next h1 h2 =>
      by_cases hc : P.H (List.take (s.first + 1) s.data2) = putOut P s
      · simp only [hc, decide_true, Bool.not_true, Bool.false_eq_true, if_false, PutPost, LocalPut]
        exact ⟨hsz, trivial, by omega, trivial, h⟩
      · simp only [hc, decide_false, Bool.not_false, if_true]
        exact post_errPath hsz ht

theorem post_writeOrNext (hy : Hyps P offered) (hoff : offered s.data1) (hsz : s.size ≠ 0) {fd : Nat} {rest : Bytes}
    (h : WriteSt P offered s used' fs' fd rest) : PutPost P offered now id s used' fs' (writeOrNext P s fd rest) := by
  unfold writeOrNext
  split
  · next hr => subst hr; exact post_afterCopyN hy hoff hsz h
  · next hr => simp only [PutPost, LocalPut]; exact ⟨hsz, hr, h⟩

theorem step_pStat (hL : LocalPut P offered now id s used fs .pStat)
    (hs : tstep P now fs proc (.put id s) .pStat fault n = some (fs', r, nx))
    (hf : FaultStep fault used used') : PutPost P offered now id s used' fs' nx := by
  simp only [LocalPut] at hL
  cases hf with
  | none u =>
    simp only [tstep, sysOf, exec, execOk] at hs
    cases hnm : fs.names (.data (putOut P s)) with
    | none =>
      simp [hnm] at hs
      obtain ⟨rfl, rfl, rfl⟩ := hs
      simp [next, PutPost, LocalPut, hL, hnm]
    | some i =>
      obtain ⟨nd, hnd, _⟩ := hL.1.named _ _ hnm
      simp [hnm, hnd] at hs
      obtain ⟨rfl, rfl, rfl⟩ := hs
      simp only [next, Gen.CachePut.reuseCheck, Gen.CachePut.dataOpenTrunc, Bool.true_and, decide_eq_true_eq]
      split
      · exact hL
      · refine ⟨hL, fun _ ht i' nd' hi' hnd' => ?_⟩
        rw [hnm] at hi'; cases hi'
        rw [hnd] at hnd'; cases hnd'
        simp at ht
        omega
  | fail =>
    simp [tstep, sysOf, exec] at hs
    obtain ⟨rfl, rfl, rfl⟩ := hs
    simp [next, PutPost, LocalPut, hL]
  | short k => simp [tstep, sysOf, exec] at hs

theorem newFd_inv {ex : Option (Name Id Hsh)} (i : Nat) (h : FSInvExc P offered fs ex) :
    FSInvExc P offered (fs.newFd i proc).1 ex :=
  SameFiles.inv (fs := fs) ⟨rfl, rfl, rfl⟩ h

theorem step_pCkOpen {L : Nat} (hL : LocalPut P offered now id s used fs (.pCkOpen L))
    (hs : tstep P now fs proc (.put id s) (.pCkOpen L) fault n = some (fs', r, nx))
    (hf : FaultStep fault used used') : PutPost P offered now id s used' fs' nx := by
  simp only [LocalPut] at hL
  cases hf with
  | none u =>
    simp only [tstep, sysOf, exec, execOk] at hs
    cases hnm : fs.names (.data (putOut P s)) with
    | none =>
      simp [hnm] at hs
      obtain ⟨rfl, rfl, rfl⟩ := hs
      simp [next, PutPost, LocalPut, hL, hnm]
    | some i =>
      obtain ⟨nd, hnd, _⟩ := hL.1.named _ _ hnm
      simp [hnm, hnd, FS.newFd] at hs
      obtain ⟨rfl, rfl, rfl⟩ := hs
      simp only [next, PutPost, LocalPut]
      refine ⟨SameFiles.inv (fs := fs) ⟨rfl, rfl, rfl⟩ hL, fun _ => ⟨⟨i, 0, proc⟩, nd, by simp, hnm, hnd, by simp⟩⟩
  | fail =>
    simp [tstep, sysOf, exec] at hs
    obtain ⟨rfl, rfl, rfl⟩ := hs
    simp [next, PutPost, LocalPut, hL]
  | short k => simp [tstep, sysOf, exec] at hs

theorem step_pCkRead {fd L : Nat} {acc : Bytes} (hL : LocalPut P offered now id s used fs (.pCkRead fd acc L))
    (hs : tstep P now fs proc (.put id s) (.pCkRead fd acc L) fault n = some (fs', r, nx))
    (hf : FaultStep fault used used') : PutPost P offered now id s used' fs' nx := by
  simp only [LocalPut] at hL
  obtain ⟨hinv, hloc⟩ := hL
  cases hf with
  | none u =>
    simp only [tstep, sysOf, exec, execOk] at hs
    cases hfd : fs.fds fd with
    | none => simp [hfd] at hs
    | some o =>
      cases hino : fs.inodes o.ino with
      | none => simp [hfd, hino] at hs
      | some nd =>
        simp only [hfd, hino] at hs
        by_cases hb : (nd.data.drop o.off).take (chunk n) = []
        · simp [hb] at hs
          obtain ⟨rfl, rfl, rfl⟩ := hs
          simp only [next, PutPost, LocalPut]
          refine ⟨hinv, fun hu => ?_⟩
          obtain ⟨o', nd', h1, h2, h3, h4⟩ := hloc hu
          rw [hfd] at h1; cases h1
          rw [hino] at h3; cases h3
          refine ⟨_, _, h2, hino, ?_⟩
          have hc := chunk_pos n
          have : nd.data.drop o.off = [] := by
            cases hd : nd.data.drop o.off with
            | nil => rfl
            | cons a t =>
              rw [hd] at hb
              cases hcn : chunk n with
              | zero => omega
              | succ m => simp [hcn] at hb
          rw [h4]
          exact List.take_of_length_le (List.drop_eq_nil_iff.mp this)
        · simp [hb] at hs
          obtain ⟨rfl, rfl, rfl⟩ := hs
          simp only [next, PutPost, LocalPut]
          refine ⟨inv_setFd _ _ hinv, fun hu => ?_⟩
          obtain ⟨o', nd', h1, h2, h3, h4⟩ := hloc hu
          rw [hfd] at h1; cases h1
          rw [hino] at h3; cases h3
          refine ⟨{ o with off := o.off + ((nd.data.drop o.off).take (chunk n)).length }, nd,
            by simp [FS.setFd], h2, hino, ?_⟩
          simp only
          rw [h4, List.take_add]
          congr 1
          exact (take_take_length _ _).symm
  | fail =>
    simp [tstep, sysOf, exec] at hs
    obtain ⟨rfl, rfl, rfl⟩ := hs
    simp [next, PutPost, LocalPut, hinv]
  | short k => simp [tstep, sysOf, exec] at hs

theorem step_pCkClose (hoff : offered s.data1) {fd L : Nat} {acc : Bytes}
    (hL : LocalPut P offered now id s used fs (.pCkClose fd acc L))
    (hs : tstep P now fs proc (.put id s) (.pCkClose fd acc L) fault n = some (fs', r, nx))
    (hf : FaultStep fault used used') : PutPost P offered now id s used' fs' nx := by
  simp only [LocalPut] at hL
  obtain ⟨hinv, hloc⟩ := hL
  -- whatever the close does, names and inodes stay
  have key : ∀ (fs1 : FS Id Hsh), SameFiles fs fs1 → (used' = false → used = false) →
      PutPost P offered now id s used' fs1 (next P fs1.content n (.put id s) (.pCkClose fd acc L) r) := by
    intro fs1 hsame hu
    have hinv1 : FSInv P offered fs1 := hsame.inv hinv
    simp only [next, Gen.CachePut.reuseHit, Gen.CachePut.copyReuseRefreshes, if_true]
    by_cases hh : putOut P s = P.H acc
    · simp [hh, PutPost, LocalPut, hinv1]
    · simp only [hh, decide_false, Bool.false_eq_true, if_false, PutPost, LocalPut]
      refine ⟨hinv1, fun hu' _ i nd hi hnd => ?_⟩
      obtain ⟨i', nd', h1, h2, h3⟩ := hloc (hu hu')
      rw [hsame.1] at hi; rw [hsame.2.1] at hnd
      rw [h1] at hi; cases hi
      rw [h2] at hnd; cases hnd
      have hok := hinv.2 _ _ _ (by simp) h1 h2
      rcases hok s.data1 hoff rfl with hlt | heq
      · exact hlt
      · exact absurd (by rw [h3, heq]; rfl) hh
  cases hf with
  | none u =>
    simp only [tstep, sysOf, exec, execOk] at hs
    cases hfd : fs.fds fd with
    | none =>
      simp [hfd] at hs
      obtain ⟨rfl, rfl, rfl⟩ := hs
      exact key _ (SameFiles.refl _) (fun h => h)
    | some o =>
      simp [hfd] at hs
      obtain ⟨rfl, rfl, rfl⟩ := hs
      exact key _ ⟨rfl, rfl, rfl⟩ (fun h => h)
  | fail =>
    simp [tstep, sysOf, exec] at hs
    obtain ⟨rfl, rfl, rfl⟩ := hs
    exact key _ (SameFiles.refl _) (by simp)
  | short k => simp [tstep, sysOf, exec] at hs

/-- a step whose system call leaves names and inodes alone and whose continuation only needs the invariant. -/
theorem post_of_sameFiles {pcs : Next Hsh} (hinv : FSInv P offered fs) (hsame : SameFiles fs fs')
    (hpost : ∀ pc', pcs = .goto pc' → (FSInv P offered fs' → LocalPut P offered now id s used' fs' pc')) :
    PutPost P offered now id s used' fs' pcs := by
  cases pcs with
  | goto pc' => exact hpost pc' rfl (hsame.inv hinv)
  | done _ => exact hsame.inv hinv

theorem step_pReuseStat (hL : LocalPut P offered now id s used fs .pReuseStat)
    (hs : tstep P now fs proc (.put id s) .pReuseStat fault n = some (fs', r, nx)) :
    PutPost P offered now id s used' fs' nx := by
  obtain ⟨he, rfl⟩ := tstep_eq hs
  have hinv' : FSInv P offered fs' := (exec_stat_same he).inv hL
  simp only [next, copyOk, Gen.CachePut.indexAfterCopy, if_true]
  split <;> simp [PutPost, LocalPut, hinv']

theorem step_pReuseChtimes (hL : LocalPut P offered now id s used fs .pReuseChtimes)
    (hs : tstep P now fs proc (.put id s) .pReuseChtimes fault n = some (fs', r, nx)) :
    PutPost P offered now id s used' fs' nx := by
  obtain ⟨he, rfl⟩ := tstep_eq hs
  have hinv' : FSInv P offered fs' := (exec_chtimes_same he).inv hL
  simp [next, copyOk, Gen.CachePut.indexAfterCopy, PutPost, LocalPut, hinv']

theorem step_pClose {fd : Nat} (hL : LocalPut P offered now id s used fs (.pClose fd))
    (hs : tstep P now fs proc (.put id s) (.pClose fd) fault n = some (fs', r, nx)) :
    PutPost P offered now id s used' fs' nx := by
  obtain ⟨he, rfl⟩ := tstep_eq hs
  have hinv' : FSInv P offered fs' := (exec_close_same he).inv hL
  simp only [next, Gen.CachePut.removeOnCloseErr, if_true]
  split <;> simp [PutPost, LocalPut, hinv']

theorem step_pChtimes {fd : Nat} (hL : LocalPut P offered now id s used fs (.pChtimes fd))
    (hs : tstep P now fs proc (.put id s) (.pChtimes fd) fault n = some (fs', r, nx)) :
    PutPost P offered now id s used' fs' nx := by
  obtain ⟨he, rfl⟩ := tstep_eq hs
  have hinv' : FSInv P offered fs' := (exec_chtimes_same he).inv hL
  simp [next, PutPost, LocalPut, hinv']

theorem step_pDeferClose {fd : Nat} {ok : Bool} (hL : LocalPut P offered now id s used fs (.pDeferClose fd ok))
    (hs : tstep P now fs proc (.put id s) (.pDeferClose fd ok) fault n = some (fs', r, nx)) :
    PutPost P offered now id s used' fs' nx := by
  obtain ⟨he, rfl⟩ := tstep_eq hs
  have hinv' : FSInv P offered fs' := (exec_close_same he).inv hL
  simp only [next, copyOk, copyErr, Gen.CachePut.indexAfterCopy, Gen.CachePut.copyErrSkipsIndex, if_true]
  cases ok <;> simp [PutPost, LocalPut, hinv']

theorem step_iChtimes (hL : LocalPut P offered now id s used fs .iChtimes)
    (hs : tstep P now fs proc (.put id s) .iChtimes fault n = some (fs', r, nx)) :
    PutPost P offered now id s used' fs' nx := by
  obtain ⟨he, rfl⟩ := tstep_eq hs
  have hinv' : FSInv P offered fs' := (exec_chtimes_same he).inv hL
  simp [next, indexOk, Gen.CachePut.indexAfterCopy, PutPost, LocalPut, hinv']

theorem exec_unlink_inv {q : Name Id Hsh} (hi : FSInvExc P offered fs (some q))
    (hfull : fault = .fail → FSInv P offered fs)
    (hs : exec fs proc (.unlink q) fault = some (fs', r)) (hf : fault = .none ∨ fault = .fail) : FSInv P offered fs' := by
  rcases hf with rfl | rfl
  · simp only [exec, execOk] at hs
    split at hs
    · next hn =>
      simp at hs; obtain ⟨rfl, _⟩ := hs
      exact hi.full (fun i nd h1 _ => by rw [hn] at h1; cases h1)
    · simp at hs; obtain ⟨rfl, _⟩ := hs
      exact inv_unlink hi
  · simp [exec] at hs; obtain ⟨rfl, _⟩ := hs; exact hfull rfl

theorem faultStep_cases (hf : FaultStep fault used used') (q : Name Id Hsh) (hs : exec fs proc (.unlink q) fault = some (fs', r)) :
    fault = .none ∨ fault = .fail := by
  cases hf with
  | none u => left; rfl
  | fail => right; rfl
  | short k => simp [exec] at hs

theorem step_pRemoveData {fd : Nat} (hL : LocalPut P offered now id s used fs (.pRemoveData fd))
    (hs : tstep P now fs proc (.put id s) (.pRemoveData fd) fault n = some (fs', r, nx))
    (hf : FaultStep fault used used') : PutPost P offered now id s used' fs' nx := by
  obtain ⟨he, rfl⟩ := tstep_eq hs
  simp only [sysOf] at he
  have hinv' : FSInv P offered fs' := exec_unlink_inv (hL.exc _) (fun _ => hL) he (faultStep_cases hf _ he)
  simp [next, PutPost, LocalPut, hinv']

theorem step_iRemove (hL : LocalPut P offered now id s used fs .iRemove)
    (hs : tstep P now fs proc (.put id s) .iRemove fault n = some (fs', r, nx))
    (hf : FaultStep fault used used') : PutPost P offered now id s used' fs' nx := by
  obtain ⟨he, rfl⟩ := tstep_eq hs
  simp only [sysOf, Op.id] at he
  have hinv' : FSInv P offered fs' := by
    refine exec_unlink_inv hL.1 (fun hfl => ?_) he (faultStep_cases hf _ he)
    subst hfl
    cases hf
    exact hL.2 rfl
  simp [next, PutPost, hinv']

/-- `open(q, O_CREATE [|O_TRUNC])`: a descriptor at offset 0 on the file linked at `q`, which is empty
(created or truncated) or the file that was there. -/
theorem open_create_spec {q : Name Id Hsh} {m : Mode} {trunc : Bool} (hinv : FSInv P offered fs)
    (hs : execOk fs proc (.open q m true trunc) = some (fs', r)) :
    FSInv P offered fs' ∧ ∃ i nd', r = .okFd fs.nextFd ∧ fs'.fds fs.nextFd = some ⟨i, 0, proc⟩ ∧
      fs'.names q = some i ∧ fs'.inodes i = some nd' ∧
      (nd'.data = [] ∨ (trunc = false ∧ fs.names q = some i ∧ fs.inodes i = some nd')) := by
  simp only [execOk] at hs
  cases hnm : fs.names q with
  | none =>
    simp [hnm, FS.newFd] at hs
    obtain ⟨rfl, rfl⟩ := hs
    have h1 := inv_create q hinv hnm
    refine ⟨SameFiles.inv ?_ h1, fs.nextIno, ⟨q, []⟩, rfl, by simp, by simp, by simp, Or.inl rfl⟩
    exact ⟨rfl, rfl, rfl⟩
  | some i =>
    obtain ⟨nd, hnd, _⟩ := hinv.1.named _ _ hnm
    cases trunc with
    | false =>
      simp [hnm, hnd, FS.newFd] at hs
      obtain ⟨rfl, rfl⟩ := hs
      refine ⟨SameFiles.inv ?_ hinv, i, nd, rfl, by simp, by simpa using hnm, by simpa using hnd, Or.inr ⟨rfl, rfl, hnd⟩⟩
      exact ⟨rfl, rfl, rfl⟩
    | true =>
      simp [hnm, hnd, FS.newFd] at hs
      obtain ⟨rfl, rfl⟩ := hs
      have h1 := inv_setData [] (hinv.exc _) hnm hnd (fileOK_nil P offered q)
      refine ⟨SameFiles.inv ?_ h1, i, { nd with data := [] }, rfl, by simp [FS.setInode], ?_, ?_, Or.inl rfl⟩
      · exact ⟨rfl, rfl, rfl⟩
      · simpa [FS.setInode] using hnm
      · simp [FS.setInode]

theorem step_pOpen (hy : Hyps P offered) (hoff : offered s.data1) {trunc : Bool}
    (hL : LocalPut P offered now id s used fs (.pOpen trunc))
    (hs : tstep P now fs proc (.put id s) (.pOpen trunc) fault n = some (fs', r, nx))
    (hf : FaultStep fault used used') : PutPost P offered now id s used' fs' nx := by
  simp only [LocalPut] at hL
  obtain ⟨hinv, hloc⟩ := hL
  obtain ⟨he, rfl⟩ := tstep_eq hs
  simp only [sysOf] at he
  cases hf with
  | none u =>
    simp only [exec] at he
    obtain ⟨hinv', i, nd', rfl, hfd, hnm, hnd, hdata⟩ := open_create_spec hinv he
    have hle : nd'.data.length ≤ s.size := fileOK_data_le hoff (hinv'.2 _ _ _ (by simp) hnm hnd)
    simp only [next, Gen.CachePut.emptyReturn, Gen.CachePut.truncOnSeekErr, decide_eq_true_eq]
    by_cases hsz : s.size = 0
    · simp [hsz, PutPost, LocalPut, hinv']
    · simp only [hsz, if_false]
      have hshort : used = false → nd'.data.length ≤ s.first := by
        intro hu
        rcases hdata with h0 | ⟨rfl, h1, h2⟩
        · simp [h0]
        · have := hloc hu rfl i nd' h1 h2
          simp [Src.first, Gen.CachePut.firstLen]; omega
      have hws : WriteSt P offered s used fs' fs.nextFd s.copyBytes :=
        ⟨⟨i, 0, proc⟩, nd', hfd, hnm, hnd, hinv'.exc _, by simp [Src.copyBytes, Gen.CachePut.copyNBeforeCheck], by simp, hle, hshort⟩
      by_cases hsk : s.seek2 = true
      · simp only [hsk, Bool.not_true, Bool.false_eq_true, if_false]
        exact post_writeOrNext hy hoff hsz hws
      · simp only [hsk, Bool.not_false, if_true]
        exact post_errPath hsz (hws.toTrunc hy hoff hsz)
  | fail =>
    simp [exec] at he
    obtain ⟨rfl, rfl⟩ := he
    simp [next, copyErr, Gen.CachePut.copyErrSkipsIndex, PutPost, hinv]
  | short k => simp [exec] at he

/-- after any write through `fd` the error path is in order (the data file is exempted). -/
theorem truncSt_after_write {fd : Nat} {rest bs : Bytes} (h : WriteSt P offered s used fs fd rest)
    (hs : execOk fs proc (.write fd bs) = some (fs', r)) : TruncSt P offered s true fs' fd := by
  obtain ⟨o, nd, h1, h2, h3, h4, _⟩ := h
  obtain ⟨o', nd', g1, g2, rfl, _⟩ := write_spec hs
  rw [h1] at g1; cases g1
  rw [h3] at g2; cases g2
  refine ⟨{ o with off := o.off + bs.length }, { nd with data := writeAt nd.data o.off bs }, by simp [FS.setFd], ?_, ?_,
    inv_setFd _ _ (inv_setData_exc _ h4 h2 h3), fun hu => by simp at hu⟩
  · simpa [FS.setFd, FS.setInode] using h2
  · simp [FS.setFd, FS.setInode]

theorem step_pWrite (hy : Hyps P offered) (hoff : offered s.data1) {fd : Nat} {rest : Bytes}
    (hL : LocalPut P offered now id s used fs (.pWrite fd rest))
    (hs : tstep P now fs proc (.put id s) (.pWrite fd rest) fault n = some (fs', r, nx))
    (hf : FaultStep fault used used') : PutPost P offered now id s used' fs' nx := by
  simp only [LocalPut] at hL
  obtain ⟨hsz, hne, hws⟩ := hL
  obtain ⟨he, rfl⟩ := tstep_eq hs
  simp only [sysOf] at he
  cases hf with
  | none u =>
    simp only [exec] at he
    obtain ⟨o, nd, h1, h2, h3, h4, h5, h6, h7, h8⟩ := hws
    obtain ⟨o', nd', g1, g2, rfl, rfl⟩ := write_spec he
    rw [h1] at g1; cases g1
    rw [h3] at g2; cases g2
    simp only [next]
    apply post_writeOrNext hy hoff hsz
    have hlen := congrArg List.length h5
    simp at hlen
    have htk : (rest.take (chunk n)).length ≤ rest.length := by simp; omega
    have hmin : min o.off nd.data.length = o.off := Nat.min_eq_left h6
    refine ⟨{ o with off := o.off + (rest.take (chunk n)).length },
      { nd with data := writeAt nd.data o.off (rest.take (chunk n)) }, by simp [FS.setFd], ?_, ?_,
      inv_setFd _ _ (inv_setData_exc _ h4 h2 h3), ?_, ?_, ?_, ?_⟩
    · simpa [FS.setFd, FS.setInode] using h2
    · simp [FS.setFd, FS.setInode]
    · show List.take (o.off + (rest.take (chunk n)).length) (writeAt nd.data o.off (rest.take (chunk n))) ++ rest.drop (chunk n) = _
      rw [writeAt_take _ _ _ h6, List.append_assoc, List.take_append_drop, h5]
    · show o.off + (rest.take (chunk n)).length ≤ (writeAt nd.data o.off (rest.take (chunk n))).length
      rw [writeAt_length _ _ _ h6]; omega
    · show (writeAt nd.data o.off (rest.take (chunk n))).length ≤ s.size
      rw [writeAt_length _ _ _ h6]
      have := first_lt hsz
      omega
    · intro hu
      show (writeAt nd.data o.off (rest.take (chunk n))).length ≤ s.first
      rw [writeAt_length _ _ _ h6]
      have := h8 hu
      omega
  | fail =>
    simp [exec] at he
    obtain ⟨rfl, rfl⟩ := he
    simp only [next, Gen.CachePut.truncOnCopyErr]
    exact post_errPath hsz (hws.toTrunc hy hoff hsz).mono
  | short k =>
    simp only [exec] at he
    split at he
    · simp at he
      obtain ⟨rfl, rfl⟩ := he
      simp only [next, Gen.CachePut.truncOnCopyErr]
      next hw => exact post_errPath hsz (truncSt_after_write hws hw)
    · simp at he

theorem step_pCommit (hy : Hyps P offered) (hoff : offered s.data1) {fd : Nat} {checked : Bool}
    (hL : LocalPut P offered now id s used fs (.pCommit fd checked))
    (hs : tstep P now fs proc (.put id s) (.pCommit fd checked) fault n = some (fs', r, nx))
    (hf : FaultStep fault used used') : PutPost P offered now id s used' fs' nx := by
  simp only [LocalPut] at hL
  obtain ⟨hsz, rfl, hlt, hhash, hws⟩ := hL
  obtain ⟨he, rfl⟩ := tstep_eq hs
  simp only [sysOf] at he
  cases hf with
  | none u =>
    simp only [exec] at he
    obtain ⟨o, nd, h1, h2, h3, h4, h5, h6, h7, h8⟩ := hws
    obtain ⟨o', nd', g1, g2, rfl, rfl⟩ := write_spec he
    rw [h1] at g1; cases g1
    rw [h3] at g2; cases g2
    simp only [next, if_true, PutPost, LocalPut]
    refine inv_setFd _ _ (inv_setData _ h4 h2 h3 ?_)
    -- the file now holds exactly the verified bytes
    have hlen := congrArg List.length h5
    simp at hlen
    have hoffv : o.off = s.first := by
      rw [Nat.min_eq_left h6, Nat.min_eq_left (Nat.le_of_lt hlt)] at hlen; exact hlen
    have hsize : s.size = s.first + 1 := by simp [Src.first, Gen.CachePut.firstLen]; omega
    have hpre : nd.data.take s.first = s.data2.take s.first := by simpa [hoffv] using h5
    have hfull : writeAt nd.data o.off (lastByte s) = s.data2.take (s.first + 1) := by
      rw [hoffv]; exact writeAt_commit _ _ _ hpre (hoffv ▸ h6) (hsize ▸ h7) hlt
    rw [hfull]
    have : s.data2.take (s.first + 1) = s.data1 := hy.noColl _ _ hoff (by simpa [putOut] using hhash)
    rw [this]
    exact fileOK_data_full hy hoff
  | fail =>
    simp [exec] at he
    obtain ⟨rfl, rfl⟩ := he
    simp only [next, Gen.CachePut.truncOnCommitErr]
    exact post_errPath hsz (hws.toTrunc hy hoff hsz).mono
  | short k =>
    simp only [exec] at he
    split at he
    · simp at he
      obtain ⟨rfl, rfl⟩ := he
      simp only [next, Gen.CachePut.truncOnCommitErr]
      next hw => exact post_errPath hsz (truncSt_after_write hws hw)
    · simp at he

theorem step_pTrunc0 {fd : Nat} (hL : LocalPut P offered now id s used fs (.pTrunc0 fd))
    (hs : tstep P now fs proc (.put id s) (.pTrunc0 fd) fault n = some (fs', r, nx))
    (hf : FaultStep fault used used') : PutPost P offered now id s used' fs' nx := by
  simp only [LocalPut] at hL
  obtain ⟨hsz, o, nd, h1, h2, h3, h4, h5⟩ := hL
  obtain ⟨he, rfl⟩ := tstep_eq hs
  simp only [sysOf] at he
  cases hf with
  | none u =>
    simp only [exec] at he
    obtain ⟨o', nd', g1, g2, rfl, rfl⟩ := ftruncate_spec he
    rw [h1] at g1; cases g1
    rw [h3] at g2; cases g2
    simp only [next, PutPost, LocalPut, truncTo_zero]
    exact inv_setData _ h4 h2 h3 (fileOK_nil _ _ _)
  | fail =>
    simp [exec] at he
    obtain ⟨rfl, rfl⟩ := he
    simp only [next, PutPost, LocalPut]
    refine h4.full (fun i nd' hi hnd => ?_)
    rw [h2] at hi; cases hi
    rw [h3] at hnd; cases hnd
    exact h5 rfl
  | short k => simp [exec] at he

theorem step_iOpen (hL : LocalPut P offered now id s used fs .iOpen)
    (hs : tstep P now fs proc (.put id s) .iOpen fault n = some (fs', r, nx))
    (hf : FaultStep fault used used') : PutPost P offered now id s used' fs' nx := by
  simp only [LocalPut] at hL
  obtain ⟨he, rfl⟩ := tstep_eq hs
  simp only [sysOf, Op.id, Gen.CachePut.indexOpenCreate, Gen.CachePut.indexOpenTrunc] at he
  cases hf with
  | none u =>
    simp only [exec] at he
    obtain ⟨hinv', i, nd', rfl, hfd, hnm, hnd, _⟩ := open_create_spec hL he
    simp only [next, PutPost, LocalPut]
    exact ⟨hinv', ⟨i, 0, proc⟩, hfd, rfl, hnm⟩
  | fail =>
    simp [exec] at he
    obtain ⟨rfl, rfl⟩ := he
    simp [next, PutPost, hL]
  | short k => simp [exec] at he

theorem fileOK_entry (hoff : offered s.data1) :
    FileOK P offered (.index id) (P.enc id (putOut P s) s.size now) :=
  Or.inr ⟨s.data1, now, hoff, rfl⟩

theorem step_iWrite (hy : Hyps P offered) (hoff : offered s.data1) {fd : Nat}
    (hL : LocalPut P offered now id s used fs (.iWrite fd))
    (hs : tstep P now fs proc (.put id s) (.iWrite fd) fault n = some (fs', r, nx))
    (hf : FaultStep fault used used') : PutPost P offered now id s used' fs' nx := by
  simp only [LocalPut] at hL
  obtain ⟨hinv, o, h1, h2, h3⟩ := hL
  obtain ⟨nd, h4, _⟩ := hinv.1.named _ _ h3
  obtain ⟨he, rfl⟩ := tstep_eq hs
  simp only [sysOf] at he
  cases hf with
  | none u =>
    simp only [exec] at he
    obtain ⟨o', nd', g1, g2, rfl, rfl⟩ := write_spec he
    rw [h1] at g1; cases g1
    rw [h4] at g2; cases g2
    have hcover : writeAt nd.data o.off (P.enc id (putOut P s) s.size now) = P.enc id (putOut P s) s.size now := by
      rw [h2]
      apply writeAt_zero_cover
      rcases hinv.2 _ _ _ (by simp) h3 h4 with h | ⟨c, t, _, h⟩
      · simp [h]
      · have e1 := hy.encLen id c t ‹offered c›
        have e2 := hy.encLen id s.data1 now hoff
        rw [h, e1]; simp only [putOut, Src.size]; rw [e2]; exact Nat.le_refl _
    simp only [next, Gen.CachePut.indexTruncAfterWrite, if_true, PutPost, LocalPut, hcover]
    refine ⟨inv_setFd _ _ (inv_setData _ (hinv.exc _) h3 h4 (fileOK_entry hoff)),
      { o with off := o.off + (P.enc id (putOut P s) s.size now).length },
      { nd with data := P.enc id (putOut P s) s.size now }, by simp [FS.setFd], ?_, ?_, rfl⟩
    · simpa [FS.setFd, FS.setInode] using h3
    · simp [FS.setFd, FS.setInode]
  | fail =>
    simp [exec] at he
    obtain ⟨rfl, rfl⟩ := he
    simp [next, PutPost, LocalPut, hinv.exc]
  | short k =>
    simp only [exec] at he
    split at he
    · next hw =>
      simp at he
      obtain ⟨rfl, rfl⟩ := he
      obtain ⟨o', nd', g1, g2, rfl, _⟩ := write_spec hw
      rw [h1] at g1; cases g1
      rw [h4] at g2; cases g2
      simp only [next, PutPost, LocalPut, if_true]
      exact ⟨trivial, inv_setFd _ _ (inv_setData_exc _ (hinv.exc _) h3 h4)⟩
    · simp at he

theorem step_iTrunc {fd : Nat} (hL : LocalPut P offered now id s used fs (.iTrunc fd))
    (hs : tstep P now fs proc (.put id s) (.iTrunc fd) fault n = some (fs', r, nx))
    (hf : FaultStep fault used used') : PutPost P offered now id s used' fs' nx := by
  simp only [LocalPut] at hL
  obtain ⟨hinv, o, nd, h1, h2, h3, h4⟩ := hL
  obtain ⟨he, rfl⟩ := tstep_eq hs
  simp only [sysOf] at he
  cases hf with
  | none u =>
    simp only [exec] at he
    obtain ⟨o', nd', g1, g2, rfl, rfl⟩ := ftruncate_spec he
    rw [h1] at g1; cases g1
    rw [h3] at g2; cases g2
    simp only [next, PutPost, LocalPut, Bool.false_eq_true, if_false]
    refine inv_setData _ (hinv.exc _) h2 h3 ?_
    rw [← h4, truncTo_self]
    exact hinv.2 _ _ _ (by simp) h2 h3
  | fail =>
    simp [exec] at he
    obtain ⟨rfl, rfl⟩ := he
    simp [next, PutPost, LocalPut, hinv.exc]
  | short k => simp [exec] at he

theorem step_iClose {fd : Nat} {err : Bool} (hL : LocalPut P offered now id s used fs (.iClose fd err))
    (hs : tstep P now fs proc (.put id s) (.iClose fd err) fault n = some (fs', r, nx))
    (hf : FaultStep fault used used') : PutPost P offered now id s used' fs' nx := by
  simp only [LocalPut] at hL
  obtain ⟨he, rfl⟩ := tstep_eq hs
  simp only [sysOf] at he
  have hsame := exec_close_same he
  simp only [next, Gen.CachePut.indexRemoveOnErr, if_true]
  cases err with
  | true =>
    simp only [if_true] at hL
    obtain ⟨hu, hexc⟩ := hL
    subst hu
    cases hf
    simp only [Bool.true_or, if_true, PutPost, LocalPut]
    exact ⟨hsame.inv hexc, fun h => by simp at h⟩
  | false =>
    simp only [Bool.false_eq_true, if_false] at hL
    have hinv' : FSInv P offered fs' := hsame.inv hL
    split
    · simp only [PutPost, LocalPut]; exact ⟨hinv'.exc _, fun _ => hinv'⟩
    · simp only [PutPost, LocalPut]; exact hinv'

/-- **Every program step of `Put`, under every placement of a single `fail` / short-write fault,
preserves the invariant** (one lemma per program point above). -/
theorem put_step_preserves (hy : Hyps P offered) (hoff : offered s.data1) {pc : PC Hsh}
    (hL : LocalPut P offered now id s used fs pc)
    (hs : tstep P now fs proc (.put id s) pc fault n = some (fs', r, nx))
    (hf : FaultStep fault used used') : PutPost P offered now id s used' fs' nx := by
  cases pc with
  | pStat => exact step_pStat hL hs hf
  | pCkOpen L => exact step_pCkOpen hL hs hf
  | pCkRead fd acc L => exact step_pCkRead hL hs hf
  | pCkClose fd acc L => exact step_pCkClose hoff hL hs hf
  | pReuseStat => exact step_pReuseStat hL hs
  | pReuseChtimes => exact step_pReuseChtimes hL hs
  | pOpen trunc => exact step_pOpen hy hoff hL hs hf
  | pWrite fd rest => exact step_pWrite hy hoff hL hs hf
  | pCommit fd checked => exact step_pCommit hy hoff hL hs hf
  | pTrunc0 fd => exact step_pTrunc0 hL hs hf
  | pClose fd => exact step_pClose hL hs
  | pRemoveData fd => exact step_pRemoveData hL hs hf
  | pChtimes fd => exact step_pChtimes hL hs
  | pDeferClose fd ok => exact step_pDeferClose hL hs
  | iOpen => exact step_iOpen hL hs hf
  | iWrite fd => exact step_iWrite hy hoff hL hs hf
  | iTrunc fd => exact step_iTrunc hL hs hf
  | iClose fd err => exact step_iClose hL hs hf
  | iRemove => exact step_iRemove hL hs hf
  | iChtimes => exact step_iChtimes hL hs
  | _ => simp [LocalPut] at hL

/-- as long as no fault has been injected, the directory satisfies the full invariant at every
program point: the process may stop there. -/
theorem local_unused_inv (hy : Hyps P offered) (hoff : offered s.data1) {pc : PC Hsh}
    (hL : LocalPut P offered now id s false fs pc) : FSInv P offered fs := by
  cases pc <;> simp only [LocalPut] at hL
  case pStat => exact hL
  case pCkOpen => exact hL
  case pCkRead => exact hL.1
  case pCkClose => exact hL.1
  case pReuseStat => exact hL
  case pReuseChtimes => exact hL
  case pOpen => exact hL.1
  case pWrite fd rest =>
    obtain ⟨hsz, _, hws⟩ := hL
    obtain ⟨o, nd, h1, h2, h3, h4, h5⟩ := hws.toTrunc hy hoff hsz
    refine h4.full (fun i nd' hi hnd => ?_)
    rw [h2] at hi; cases hi
    rw [h3] at hnd; cases hnd
    exact h5 rfl
  case pCommit fd checked =>
    obtain ⟨hsz, _, _, _, hws⟩ := hL
    obtain ⟨o, nd, h1, h2, h3, h4, h5⟩ := hws.toTrunc hy hoff hsz
    refine h4.full (fun i nd' hi hnd => ?_)
    rw [h2] at hi; cases hi
    rw [h3] at hnd; cases hnd
    exact h5 rfl
  case pTrunc0 fd =>
    obtain ⟨hsz, o, nd, h1, h2, h3, h4, h5⟩ := hL
    refine h4.full (fun i nd' hi hnd => ?_)
    rw [h2] at hi; cases hi
    rw [h3] at hnd; cases hnd
    exact h5 rfl
  case pClose => exact hL
  case pRemoveData => exact hL
  case pChtimes => exact hL
  case pDeferClose => exact hL
  case iOpen => exact hL
  case iWrite => exact hL.1
  case iTrunc => exact hL.1
  case iClose fd err =>
    cases err
    · simpa using hL
    · simp at hL
  case iRemove => exact hL.2 trivial
  case iChtimes => exact hL

/-- a `Put` starts in a state satisfying its local invariant. -/
theorem put_start (hinv : FSInv P offered fs) :
    PutPost P offered now id s false fs (startOp (Hsh := Hsh) (.put id s)) := by
  simp only [startOp, Gen.CachePut.indexAfterCopy, if_true]
  split <;> simp [PutPost, LocalPut, hinv]

end GIV.CachePut
