/-
  C18 — the byte machine's import list is written by `saveFrom` alone: readByte, peekByte,
  nextByte, readKeyword and readIdent leave `St.imports` unchanged.  (Used by the regenerated-model
  tie, where the list is a parameter of its own: GIV/Lemmas/ImportsReadGoMain.lean.)
-/
import GIV.Model.ReadImports

namespace GIV.ReadGo
open GIV GIV.ReadImports GIV.Gen.Imports

theorem imports_syntaxError (st : St) : (syntaxError st).imports = st.imports := by
  unfold syntaxError; split <;> rfl

theorem imports_readByte (st : St) : (readByte st).2.imports = st.imports := by
  unfold readByte
  cases st.rest with
  | nil => rfl
  | cons c rest' =>
    dsimp only
    split
    · split <;> rfl
    · rfl

theorem imports_lineLoop : ∀ (n : Nat) (c : UInt8) (st : St), (lineLoop n c st).2.imports = st.imports := by
  intro n
  induction n with
  | zero => intro c st; unfold lineLoop; dsimp only; split <;> rfl
  | succ n ih =>
    intro c st; unfold lineLoop
    split
    · dsimp only; rw [ih, imports_readByte]
    · rfl

theorem imports_blockLoop : ∀ (n : Nat) (c c1 : UInt8) (st : St), (blockLoop n c c1 st).imports = st.imports := by
  intro n
  induction n with
  | zero => intro c c1 st; unfold blockLoop; split <;> rfl
  | succ n ih =>
    intro c c1 st; unfold blockLoop
    split
    · dsimp only; rw [ih, imports_readByte]; split
      · exact imports_syntaxError st
      · rfl
    · rfl

theorem imports_skipLoop (s : Bool) : ∀ (n : Nat) (c : UInt8) (st : St), (skipLoop s n c st).2.imports = st.imports := by
  intro n
  induction n with
  | zero => intro c st; unfold skipLoop; dsimp only; split <;> rfl
  | succ n ih =>
    intro c st; unfold skipLoop
    split
    · split
      · dsimp only; rw [ih, imports_readByte]
      · split
        · dsimp only; rw [ih, imports_readByte]
          split
          · rw [imports_lineLoop, imports_readByte]
          · split
            · rw [imports_blockLoop, imports_readByte]
            · rw [imports_syntaxError, imports_readByte]
        · rfl
    · rfl

theorem imports_peekByte (s : Bool) (st : St) : (peekByte s st).2.imports = st.imports := by
  unfold peekByte
  split
  · rfl
  · dsimp only
    rw [imports_skipLoop]
    split
    · exact imports_readByte st
    · rfl

theorem imports_nextByte (s : Bool) (st : St) : (nextByte s st).2.imports = st.imports :=
  imports_peekByte s st

theorem imports_kwLoop : ∀ (kw : Bytes) (st : St), (kwLoop kw st).1.imports = st.imports := by
  intro kw
  induction kw with
  | nil => intro st; rfl
  | cons k ks ih =>
    intro st; unfold kwLoop; dsimp only
    split
    · rw [imports_syntaxError, imports_nextByte]
    · rw [ih, imports_nextByte]

theorem imports_readKeyword (kw : Bytes) (st : St) : (readKeyword kw st).imports = st.imports := by
  unfold readKeyword; dsimp only
  split
  · split
    · rw [imports_syntaxError, imports_peekByte, imports_kwLoop, imports_peekByte]
    · rw [imports_peekByte, imports_kwLoop, imports_peekByte]
  · rw [imports_kwLoop, imports_peekByte]

theorem imports_identLoop : ∀ (n : Nat) (st : St), (identLoop n st).imports = st.imports := by
  intro n
  induction n with
  | zero => intro st; unfold identLoop; dsimp only; split <;> exact imports_peekByte false st
  | succ n ih =>
    intro st; unfold identLoop; dsimp only
    split
    · rw [ih]; exact imports_peekByte false st
    · exact imports_peekByte false st

theorem imports_readIdent (st : St) : (readIdent st).imports = st.imports := by
  unfold readIdent; dsimp only
  split
  · rw [imports_syntaxError, imports_peekByte]
  · rw [imports_identLoop, imports_peekByte]

end GIV.ReadGo
