/-
  GIV.Lemmas.CacheRefine — fault-free operation sequences on an undamaged cache behave like the
  abstract map  id ↦ data  (last Put wins).  Core Lean only.
-/
import GIV.Lemmas.CacheStored

namespace GIV.Cache
open GIV

/-- the operations of the property's histories. -/
inductive Op
  | put (id : Hash) (data : Bytes)
  | get (id : Hash)
  | getBytes (id : Hash)
  | getFile (id : Hash)
  | outputFile (out : Hash)

/-- what a caller observes (entry times and the reason of a not-found error are not part of it). -/
inductive Res
  | put (out : Hash) (size : Int)
  | putFailed
  | entry (r : Option (Hash × Int))
  | bytes (r : Option (Bytes × Hash × Int))
  /-- file name, the bytes that file holds when GetFile returns, output id, size -/
  | file (r : Option (Bytes × Option Bytes × Hash × Int))
  | name (n : Bytes)

/-- one operation of the model at time `now`. -/
def stepC (H : Bytes → Hash) (fs : FS) (now : Int) : Op → Res × FS
  | .put id data =>
    match put H fs now id data with
    | (.ok (o, s), fs') => (.put o s, fs')
    | (.error _, fs') => (.putFailed, fs')
  | .get id =>
    match get fs now id with
    | (.ok e, fs') => (.entry (some (e.out, e.size)), fs')
    | (.error _, fs') => (.entry none, fs')
  | .getBytes id =>
    match getBytes H fs now id with
    | (.ok (d, e), fs') => (.bytes (some (d, e.out, e.size)), fs')
    | (.error _, fs') => (.bytes none, fs')
  | .getFile id =>
    match getFile fs now id with
    | (.ok (f, e), fs') => (.file (some (f, dataOf fs' f, e.out, e.size)), fs')
    | (.error _, fs') => (.file none, fs')
  | .outputFile out => (.name (outputFile fs now out).1, (outputFile fs now out).2)

def runC (H : Bytes → Hash) : FS → List (Int × Op) → List Res
  | _, [] => []
  | fs, (now, op) :: rest => (stepC H fs now op).1 :: runC H (stepC H fs now op).2 rest

/-- the specification: a finite map from action ids to the bytes stored last. -/
abbrev AMap := Hash → Option Bytes

def stepA (H : Bytes → Hash) (m : AMap) : Op → Res × AMap
  | .put id data => (.put (H data) data.length, fun i => if i = id then some data else m i)
  | .get id => (.entry ((m id).map fun d => (H d, (d.length : Int))), m)
  | .getBytes id => (.bytes ((m id).map fun d => (d, H d, (d.length : Int))), m)
  | .getFile id => (.file ((m id).map fun d => (fileName (H d) keyD, some d, H d, (d.length : Int))), m)
  | .outputFile out => (.name (fileName out keyD), m)

def runA (H : Bytes → Hash) : AMap → List Op → List Res
  | _, [] => []
  | m, op :: rest => (stepA H m op).1 :: runA H (stepA H m op).2 rest

/-- side conditions on one timed operation: the clock is a valid int64 nanosecond count, stored contents
belong to the collision-free set `C` and are shorter than 2^63. -/
def OpOK (C : Bytes → Prop) : Int × Op → Prop
  | (now, .put _ data) => 0 ≤ now ∧ now < 2 ^ 63 ∧ C data ∧ (data.length : Int) < 2 ^ 63
  | (now, _) => 0 ≤ now ∧ now < 2 ^ 63

/-- the refinement invariant ("undamaged cache representing `m`"). -/
structure Inv (H : Bytes → Hash) (C : Bytes → Prop) (fs : FS) (m : AMap) : Prop where
  stored : ∀ id d, m id = some d → Stored H fs id d
  absent : ∀ id, m id = none → dataOf fs (fileName id keyA) = none
  dataC : ∀ o d, dataOf fs (fileName o keyD) = some d → C d
  mapC : ∀ id d, m id = some d → C d

theorem Inv.empty (H : Bytes → Hash) (C : Bytes → Prop) : Inv H C FS.empty (fun _ => none) :=
  ⟨(by intro _ _ h; cases h), (fun _ _ => rfl), (by intro _ _ h; simp [dataOf] at h), (by intro _ _ h; cases h)⟩

theorem Inv.of_sameData {H : Bytes → Hash} {C : Bytes → Prop} {fs fs' : FS} {m : AMap}
    (h : Inv H C fs m) (hs : SameData fs fs') : Inv H C fs' m :=
  ⟨fun id d hm => (h.stored id d hm).of_sameData hs,
   fun id hm => by rw [hs]; exact h.absent id hm,
   fun o d hd => h.dataC o d (by rw [← hs]; exact hd),
   h.mapC⟩

theorem getBytes_of_get_error {H : Bytes → Hash} {fs fs1 : FS} {now : Int} {id : Hash} {r : Reason}
    (h : get fs now id = (.error r, fs1)) : getBytes H fs now id = (.error r, fs1) := by
  simp [getBytes, h]

theorem getFile_of_get_error {fs fs1 : FS} {now : Int} {id : Hash} {r : Reason}
    (h : get fs now id = (.error r, fs1)) : getFile fs now id = (.error r, fs1) := by
  simp [getFile, h]

/-- one step of the simulation. -/
theorem step_refines (H : Bytes → Hash) (C : Bytes → Prop)
    (hinj : ∀ a b, C a → C b → H a = H b → a = b)
    (fs : FS) (m : AMap) (now : Int) (op : Op) (hI : Inv H C fs m) (hok : OpOK C (now, op)) :
    (stepC H fs now op).1 = (stepA H m op).1 ∧ Inv H C (stepC H fs now op).2 (stepA H m op).2 := by
  cases op with
  | get id =>
    have hs := get_sameData fs now id
    cases hm : m id with
    | none =>
      have := get_of_none fs now id (hI.absent id hm)
      simp only [stepC, stepA, this, hm, Option.map_none, true_and]
      exact hI
    | some d =>
      obtain ⟨t, ht⟩ := (hI.stored id d hm).get now
      cases hg : get fs now id with
      | mk r fs1 =>
        rw [hg] at ht hs
        simp only at ht
        subst ht
        simp only [stepC, stepA, hg, hm, Option.map_some, true_and]
        exact hI.of_sameData hs
  | getBytes id =>
    have hs := getBytes_sameData H fs now id
    cases hm : m id with
    | none =>
      have := getBytes_of_get_error (H := H) (get_of_none fs now id (hI.absent id hm))
      simp only [stepC, stepA, this, hm, Option.map_none, true_and]
      exact hI
    | some d =>
      obtain ⟨t, ht⟩ := (hI.stored id d hm).getBytes now
      cases hg : getBytes H fs now id with
      | mk r fs1 =>
        rw [hg] at ht hs
        simp only at ht
        subst ht
        simp only [stepC, stepA, hg, hm, Option.map_some, true_and]
        exact hI.of_sameData hs
  | getFile id =>
    have hs := getFile_sameData fs now id
    cases hm : m id with
    | none =>
      have := getFile_of_get_error (get_of_none fs now id (hI.absent id hm))
      simp only [stepC, stepA, this, hm, Option.map_none, true_and]
      exact hI
    | some d =>
      obtain ⟨t, ht⟩ := (hI.stored id d hm).getFile now
      cases hg : getFile fs now id with
      | mk r fs1 =>
        rw [hg] at ht hs
        simp only at ht
        subst ht
        have hd : dataOf fs1 (fileName (H d) keyD) = some d := by
          rw [hs]; exact (hI.stored id d hm).2.1
        simp only [stepC, stepA, hg, hm, Option.map_some, hd, true_and]
        exact hI.of_sameData hs
  | outputFile out =>
    simp only [stepC, stepA, outputFile, true_and]
    exact hI.of_sameData (used_sameData _ _ _)
  | put id data =>
    obtain ⟨hn0, hn1, hC, hlen⟩ := hok
    have hcoll : ∀ f, fs.get (fileName (H data) keyD) = some f → f.data.length = data.length → H f.data = H data → f.data = data := by
      intro f hf _ hh
      exact hinj _ _ (hI.dataC (H data) f.data (by simp [dataOf, hf])) hC hh
    obtain ⟨fs', hp, hidx, hdat, hother⟩ := put_spec H fs now id data hcoll
    simp only [stepC, stepA, hp, true_and]
    refine ⟨?_, ?_, ?_, ?_⟩
    · intro i d hm
      by_cases hi : i = id
      · subst hi
        simp only [if_true, Option.some.injEq] at hm
        subst hm
        exact ⟨⟨now, hn0, hn1, hidx⟩, hdat, hlen⟩
      · simp only [hi, if_false] at hm
        obtain ⟨⟨t, t0, t1, hix⟩, hdd, hl⟩ := hI.stored i d hm
        refine ⟨⟨t, t0, t1, ?_⟩, ?_, hl⟩
        · rw [hother _ (fun h => hi (fileName_inj h)) (fileName_a_ne_d _ _)]; exact hix
        · by_cases ho : H d = H data
          · have : d = data := hinj _ _ (hI.mapC i d hm) hC ho
            subst this; exact hdat
          · rw [hother _ (fun h => fileName_a_ne_d _ _ h.symm) (fun h => ho (fileName_inj h))]; exact hdd
    · intro i hm
      by_cases hi : i = id
      · subst hi; simp at hm
      · simp only [hi, if_false] at hm
        rw [hother _ (fun h => hi (fileName_inj h)) (fileName_a_ne_d _ _)]
        exact hI.absent i hm
    · intro o d hd
      by_cases ho : o = H data
      · subst ho; rw [hdat] at hd; cases hd; exact hC
      · rw [hother _ (fun h => fileName_a_ne_d _ _ h.symm) (fun h => ho (fileName_inj h))] at hd
        exact hI.dataC o d hd
    · intro i d hm
      by_cases hi : i = id
      · subst hi; simp only [if_true, Option.some.injEq] at hm; subst hm; exact hC
      · simp only [hi, if_false] at hm; exact hI.mapC i d hm

theorem run_refines (H : Bytes → Hash) (C : Bytes → Prop)
    (hinj : ∀ a b, C a → C b → H a = H b → a = b) :
    ∀ (ops : List (Int × Op)) (fs : FS) (m : AMap), Inv H C fs m → (∀ p ∈ ops, OpOK C p) →
      runC H fs ops = runA H m (ops.map (·.2)) := by
  intro ops
  induction ops with
  | nil => intro _ _ _ _; rfl
  | cons p rest ih =>
    intro fs m hI hok
    obtain ⟨now, op⟩ := p
    obtain ⟨h1, h2⟩ := step_refines H C hinj fs m now op hI (hok (now, op) (by simp))
    simp only [runC, List.map_cons, runA, h1]
    congr 1
    exact ih _ _ h2 (fun p hp => hok p (by simp [hp]))

end GIV.Cache
