/-
  C18 — the fuel of every loop of the model suffices (the model-only flag `stuck` is never set):
  the Go loops terminate.  Measure: bytes left + (not yet at EOF) + (a byte is peeked).
-/
import GIV.Lemmas.ImportsReadTotal

namespace GIV.C18
open GIV GIV.ReadImports GIV.Gen.Imports

/-- input still to be read, counting the EOF event itself. -/
def mu (st : St) : Nat := st.rest.length + (if st.eof then 0 else 1)
/-- … plus a pending peeked byte. -/
def nu (st : St) : Nat := mu st + (if st.peek = 0 then 0 else 1)

theorem mu_le_of_step {a b : St} (h : Step a b) : mu b ≤ mu a := by
  unfold mu
  have h1 := h.len
  by_cases hb : b.eof = true
  · simp [hb]; omega
  · have ha : a.eof = false := by
      cases hh : a.eof with
      | false => rfl
      | true => exact absurd (h.eof hh) hb
    have hb' : b.eof = false := by simpa using hb
    simp [ha, hb']; omega

/-- no new `stuck`, and the measure does not grow. -/
structure NS (a b : St) : Prop where
  step : Step a b
  stuck : b.stuck = true → a.stuck = true
  nu : nu b ≤ nu a

theorem NS.refl (a : St) : NS a a := ⟨Step.refl a, id, Nat.le_refl _⟩
theorem NS.trans {a b c : St} (h1 : NS a b) (h2 : NS b c) : NS a c :=
  ⟨h1.step.trans h2.step, fun h => h1.stuck (h2.stuck h), Nat.le_trans h2.nu h1.nu⟩

/-- from a `Step` that leaves `peek` alone. -/
theorem NS.of_step {a b : St} (h : Step a b) (hp : b.peek = a.peek) (hs : b.stuck = true → a.stuck = true) :
    NS a b := ⟨h, hs, by unfold C18.nu; rw [hp]; have := mu_le_of_step h; omega⟩

theorem ns_ite {a : St} (c : Prop) [Decidable c] {x y : St} (hx : NS a x) (hy : NS a y) :
    NS a (if c then x else y) := by
  split <;> assumption

/-! ### primitives -/

theorem readByte_peek (st : St) : (readByte st).2.peek = st.peek := by
  unfold readByte
  cases st.rest with
  | nil => rfl
  | cons c r => by_cases hc : c = 0 <;> by_cases he : st.err.isNone = true <;> simp [hc, he]

theorem readByte_stuck (st : St) : (readByte st).2.stuck = st.stuck := by
  unfold readByte
  cases st.rest with
  | nil => rfl
  | cons c r => by_cases hc : c = 0 <;> by_cases he : st.err.isNone = true <;> simp [hc, he]

theorem ns_readByte (st : St) : NS st (readByte st).2 :=
  NS.of_step (step_readByte st).1 (readByte_peek st) (by rw [readByte_stuck]; exact id)

/-- reading while not at EOF makes progress. -/
theorem readByte_mu (st : St) (h : st.eof = false) : mu (readByte st).2 + 1 ≤ mu st := by
  unfold readByte mu
  cases hr : st.rest with
  | nil => simp [h]
  | cons c r => by_cases hc : c = 0 <;> by_cases he : st.err.isNone = true <;> simp [hc, he, h]

/-- a non-zero byte can only come from the input. -/
theorem readByte_nonzero_mu (st : St) (h : (readByte st).1 ≠ 0) : mu (readByte st).2 + 1 ≤ mu st := by
  unfold readByte mu at *
  cases hr : st.rest with
  | nil => simp [hr] at h
  | cons c r =>
    by_cases hc : c = 0
    · simp [hr, hc] at h
    · simp [hc]; omega

/-- a zero byte means end of input or a NUL error. -/
theorem readByte_zero (st : St) (h : (readByte st).1 = 0) :
    (readByte st).2.eof = true ∨ (readByte st).2.err ≠ none := by
  unfold readByte at *
  cases hr : st.rest with
  | nil => left; rfl
  | cons c r =>
    by_cases hc : c = 0
    · right
      by_cases he : st.err.isNone = true
      · simp [hc, he]
      · simp only [hc, if_true]
        simp only [he, Bool.false_eq_true, if_false]
        intro h0; rw [h0] at he; simp at he
    · simp [hr, hc] at h

theorem ns_syntaxError (st : St) : NS st (syntaxError st) :=
  NS.of_step (step_syntaxError st).1 (by unfold syntaxError; split <;> rfl)
    (by unfold syntaxError; split <;> exact id)

theorem ns_saveFrom (st : St) (n : Nat) : NS st (saveFrom n st) :=
  NS.of_step (step_saveFrom st n).1 rfl id

theorem ns_clearPeek (st : St) : NS st { st with peek := 0 } :=
  ⟨(step_setPeek st 0).1, id, by unfold C18.nu mu; simp⟩

theorem syntaxError_err (st : St) : (syntaxError st).err ≠ none := by
  unfold syntaxError
  cases he : st.err with
  | none => simp
  | some e => simp [he]

/-! ### the inner loops -/

theorem ns_lineLoop : ∀ (n : Nat) (c : UInt8) (st : St), mu st ≤ n → NS st (lineLoop n c st).2 := by
  intro n
  induction n with
  | zero =>
    intro c st hn
    unfold lineLoop
    simp only
    split
    · next hc =>
      exfalso
      simp only [Bool.and_eq_true, Bool.not_eq_true'] at hc
      unfold mu at hn
      simp [hc.2] at hn
    · exact NS.refl st
  | succ n ih =>
    intro c st hn
    unfold lineLoop
    split
    · next hc =>
      simp only [Bool.and_eq_true, Bool.not_eq_true'] at hc
      have := readByte_mu st hc.2
      exact (ns_readByte st).trans (ih _ _ (by omega))
    · exact NS.refl st

theorem blockLoop_err (n : Nat) (c c1 : UInt8) (st : St) (h : st.err ≠ none) : blockLoop n c c1 st = st := by
  have : st.err.isNone = false := by cases he : st.err <;> simp_all
  cases n <;> simp [blockLoop, this]

theorem readByte_err (st : St) (h : st.err ≠ none) : (readByte st).2.err ≠ none := by
  have := (step_readByte st).1.err h
  rw [this]; exact h

theorem ns_blockLoop : ∀ (n : Nat) (c c1 : UInt8) (st : St), mu st + 1 ≤ n → NS st (blockLoop n c c1 st) := by
  intro n
  induction n with
  | zero => intro c c1 st hn; omega
  | succ n ih =>
    intro c c1 st hn
    unfold blockLoop
    split
    · by_cases heof : st.eof = true
      · simp only [heof, if_true]
        rw [blockLoop_err _ _ _ _ (readByte_err _ (syntaxError_err st))]
        exact (ns_syntaxError st).trans (ns_readByte _)
      · have heof' : st.eof = false := by simpa using heof
        simp only [heof', Bool.false_eq_true, if_false]
        have := readByte_mu st heof'
        exact (ns_readByte st).trans (ih _ _ _ (by omega))
    · exact NS.refl st

theorem ns_skipLoop (s : Bool) : ∀ (n : Nat) (c : UInt8) (st : St), mu st ≤ n → NS st (skipLoop s n c st).2 := by
  intro n
  induction n with
  | zero =>
    intro c st hn
    unfold skipLoop
    simp only
    split
    · next hc =>
      exfalso
      simp only [Bool.and_eq_true, Bool.not_eq_true'] at hc
      unfold mu at hn
      simp [hc.1.1.2] at hn
    · exact NS.refl st
  | succ n ih =>
    intro c st hn
    unfold skipLoop
    split
    · next hc =>
      simp only [Bool.and_eq_true, Bool.not_eq_true'] at hc
      have hmu := readByte_mu st hc.1.2
      split
      · exact (ns_readByte st).trans (ih _ _ (by omega))
      · split
        · have h0 := ns_readByte st
          have h1 : NS (readByte st).2
              (if (readByte st).1 = 47 then (lineLoop ((readByte st).2.rest.length + 1) (readByte st).1 (readByte st).2).2
               else if (readByte st).1 = 42 then blockLoop ((readByte st).2.rest.length + 2) (readByte st).1 0 (readByte st).2
               else syntaxError (readByte st).2) :=
            ns_ite _ (ns_lineLoop _ _ _ (by unfold mu; split <;> omega))
              (ns_ite _ (ns_blockLoop _ _ _ _ (by unfold mu; split <;> omega)) (ns_syntaxError _))
          have h2 := (h0.trans h1).trans (ns_readByte _)
          have hmu2 := mu_le_of_step (h1.trans (ns_readByte _)).step
          exact h2.trans (ih _ _ (by omega))
        · exact NS.refl st
    · exact NS.refl st

theorem skipLoop_stop_err (s : Bool) (n : Nat) (c : UInt8) (st : St) (h : st.eof = true ∨ st.err ≠ none) :
    skipLoop s n c st = (c, st) := by
  have : (st.err.isNone && !st.eof) = false := by
    rcases h with h | h
    · simp [h]
    · cases he : st.err <;> simp_all
  cases n <;> simp [skipLoop, this]

theorem ns_drain : ∀ (n : Nat) (st : St), mu st ≤ n → NS st (drain n st) := by
  intro n
  induction n with
  | zero =>
    intro st hn
    unfold drain
    split
    · next hc =>
      exfalso
      simp only [Bool.and_eq_true, Bool.not_eq_true'] at hc
      unfold mu at hn
      simp [hc.2] at hn
    · exact NS.refl st
  | succ n ih =>
    intro st hn
    unfold drain
    split
    · next hc =>
      simp only [Bool.and_eq_true, Bool.not_eq_true'] at hc
      have := readByte_mu st hc.2
      exact (ns_readByte st).trans (ih _ (by omega))
    · exact NS.refl st

/-! ### peekByte, nextByte -/

theorem isNone_false_of_ne {α : Type} {o : Option α} (h : o ≠ none) : o.isNone = false := by
  cases o <;> simp_all

/-- in the error state peekByte leaves input, EOF flag and peek alone. -/
theorem ns_peekByte_err (s : Bool) (a : St) (h : a.err ≠ none) : NS a (peekByte s a).2 := by
  refine NS.of_step (step_peekByte s a).1 ?_ ?_ <;>
    simp [peekByte, isSome_of_ne_none h]

theorem peekByte_peek (s : Bool) (a : St) (h : a.err = none) : (peekByte s a).2.peek = (peekByte s a).1 := by
  simp [peekByte, h]

/-- the state peekByte's loop starts from, and the byte it starts with. -/
theorem peekByte_ok_eq (s : Bool) (a : St) (h : a.err = none) :
    peekByte s a =
      ((skipLoop s ((if a.peek = 0 then readByte a else (a.peek, a)).2.rest.length + 2)
          (if a.peek = 0 then readByte a else (a.peek, a)).1 (if a.peek = 0 then readByte a else (a.peek, a)).2).1,
       { (skipLoop s ((if a.peek = 0 then readByte a else (a.peek, a)).2.rest.length + 2)
          (if a.peek = 0 then readByte a else (a.peek, a)).1 (if a.peek = 0 then readByte a else (a.peek, a)).2).2 with
         peek := (skipLoop s ((if a.peek = 0 then readByte a else (a.peek, a)).2.rest.length + 2)
          (if a.peek = 0 then readByte a else (a.peek, a)).1 (if a.peek = 0 then readByte a else (a.peek, a)).2).1 }) := by
  simp [peekByte, h]

theorem ns_peekByte (s : Bool) (a : St) : NS a (peekByte s a).2 := by
  by_cases h : a.err = none
  · rw [peekByte_ok_eq s a h]
    simp only
    by_cases hp : a.peek = 0
    · simp only [hp, if_true]
      have h0 := ns_readByte a
      have h1 := ns_skipLoop s ((readByte a).2.rest.length + 2) (readByte a).1 (readByte a).2
        (by unfold mu; split <;> omega)
      have h01 := h0.trans h1
      refine ⟨h01.step.trans (step_setPeek _ _).1, h01.stuck, ?_⟩
      -- the measure: a peeked byte was paid for by the byte read
      by_cases hz : (readByte a).1 = 0
      · have hstop := skipLoop_stop_err s ((readByte a).2.rest.length + 2) (readByte a).1 (readByte a).2
          (readByte_zero a hz)
        rw [hstop]
        simp only [hz]
        have := mu_le_of_step h0.step
        unfold C18.nu
        simp only [hp, if_true, Nat.add_zero]
        unfold mu at *
        simpa using this
      · have h2 := readByte_nonzero_mu a hz
        have h3 := mu_le_of_step h1.step
        unfold C18.nu
        simp only [hp, if_true, Nat.add_zero]
        have : mu { (skipLoop s ((readByte a).2.rest.length + 2) (readByte a).1 (readByte a).2).2 with
            peek := (skipLoop s ((readByte a).2.rest.length + 2) (readByte a).1 (readByte a).2).1 } =
            mu (skipLoop s ((readByte a).2.rest.length + 2) (readByte a).1 (readByte a).2).2 := rfl
        rw [this]
        split <;> omega
    · simp only [hp, if_false]
      have h1 := ns_skipLoop s (a.rest.length + 2) a.peek a (by unfold mu; split <;> omega)
      refine ⟨h1.step.trans (step_setPeek _ _).1, h1.stuck, ?_⟩
      have h3 := mu_le_of_step h1.step
      unfold C18.nu
      simp only [hp, if_false]
      have : mu { (skipLoop s (a.rest.length + 2) a.peek a).2 with
          peek := (skipLoop s (a.rest.length + 2) a.peek a).1 } = mu (skipLoop s (a.rest.length + 2) a.peek a).2 := rfl
      rw [this]
      split <;> omega
  · exact ns_peekByte_err s a h

theorem ns_nextByte (s : Bool) (a : St) : NS a (nextByte s a).2 :=
  (ns_peekByte s a).trans (ns_clearPeek _)

/-- taking a non-zero byte makes progress. -/
theorem nextByte_progress (s : Bool) (a : St) (h : a.err = none) (hz : (nextByte s a).1 ≠ 0) :
    nu (nextByte s a).2 + 1 ≤ nu a := by
  have h1 := (ns_peekByte s a).nu
  have hp := peekByte_peek s a h
  unfold nextByte at hz ⊢
  simp only at hz ⊢
  unfold C18.nu at h1 ⊢
  have : mu { (peekByte s a).2 with peek := 0 } = mu (peekByte s a).2 := rfl
  rw [this]
  rw [hp] at h1
  simp only [hz, if_false] at h1
  simp only [if_true, Nat.add_zero]
  omega

theorem skipLoop_false_eq (n : Nat) (c : UInt8) (st : St) : skipLoop false n c st = (c, st) := by
  cases n <;> simp [skipLoop]

/-- a zero byte from `nextByte(false)` means end of input or an error. -/
theorem nextByte_false_zero (a : St) (h : a.err = none) (hz : (nextByte false a).1 = 0) :
    (nextByte false a).2.eof = true ∨ (nextByte false a).2.err ≠ none := by
  unfold nextByte at hz ⊢
  simp only at hz ⊢
  rw [peekByte_ok_eq false a h] at hz ⊢
  simp only [skipLoop_false_eq] at hz ⊢
  by_cases hp : a.peek = 0
  · simp only [hp, if_true] at hz ⊢
    exact readByte_zero a hz
  · simp only [hp, if_false] at hz

/-! ### keywords, identifiers -/

theorem ns_kwLoop : ∀ (kw : Bytes) (a : St), NS a (kwLoop kw a).1 := by
  intro kw
  induction kw with
  | nil => intro a; exact NS.refl a
  | cons k ks ih =>
    intro a
    unfold kwLoop
    simp only
    split
    · exact (ns_nextByte false a).trans (ns_syntaxError _)
    · exact (ns_nextByte false a).trans (ih _)

theorem ns_readKeyword (kw : Bytes) (a : St) : NS a (readKeyword kw a) := by
  unfold readKeyword
  simp only
  have h1 := (ns_peekByte true a).trans (ns_kwLoop kw (peekByte true a).2)
  split
  · split
    · exact (h1.trans (ns_peekByte false _)).trans (ns_syntaxError _)
    · exact h1.trans (ns_peekByte false _)
  · exact h1

theorem peekByte_err_zero (s : Bool) (a : St) (h : a.err ≠ none) : (peekByte s a).1 = 0 :=
  (step_peekByte_err s a h).1

theorem ns_identLoop : ∀ (n : Nat) (a : St), nu a ≤ n → NS a (identLoop n a) := by
  intro n
  induction n with
  | zero =>
    intro a hn
    unfold identLoop
    simp only
    split
    · next hid =>
      exfalso
      by_cases h : a.err = none
      · -- nu a = 0: nothing peeked, nothing left, EOF seen: the byte read is 0
        unfold C18.nu mu at hn
        have hp : a.peek = 0 := by
          cases hh : decide (a.peek = 0) with
          | true => simpa using hh
          | false => simp at hh; simp [hh] at hn
        have hr : a.rest = [] := by
          cases hh : a.rest with
          | nil => rfl
          | cons c r => simp [hh] at hn
        have : (peekByte false a).1 = 0 := by
          rw [peekByte_ok_eq false a h]
          simp [skipLoop_false_eq, hp, readByte, hr]
        rw [this] at hid
        exact absurd hid (by decide)
      · rw [peekByte_err_zero false a h] at hid
        exact absurd hid (by decide)
    · exact ns_peekByte false a
  | succ n ih =>
    intro a hn
    unfold identLoop
    simp only
    split
    · next hid =>
      by_cases h : a.err = none
      · have h1 := ns_peekByte false a
        have hp := peekByte_peek false a h
        have hnz : (peekByte false a).1 ≠ 0 := by
          intro h0; rw [h0] at hid; exact absurd hid (by decide)
        have hdec : nu { (peekByte false a).2 with peek := 0 } + 1 ≤ nu a := by
          have := h1.nu
          unfold C18.nu at this ⊢
          have e : mu { (peekByte false a).2 with peek := 0 } = mu (peekByte false a).2 := rfl
          rw [e]
          rw [hp] at this
          simp only [hnz, if_false] at this
          simp only [if_true, Nat.add_zero]
          omega
        have hb : nu { (peekByte false a).2 with peek := 0 } ≤ n := by omega
        exact (h1.trans (ns_clearPeek _)).trans (ih _ hb)
      · rw [peekByte_err_zero false a h] at hid
        exact absurd hid (by decide)
    · exact ns_peekByte false a

theorem nu_le_rest (a : St) : nu a ≤ a.rest.length + 2 := by
  unfold C18.nu mu; split <;> split <;> omega

theorem ns_readIdent (a : St) : NS a (readIdent a) := by
  unfold readIdent
  simp only
  split
  · exact (ns_peekByte true a).trans (ns_syntaxError _)
  · exact (ns_peekByte true a).trans (ns_identLoop _ _ (nu_le_rest _))

/-! ### strings, specs -/

/-- progress: an error is pending, or the measure went down. -/
def Prog (a b : St) : Prop := b.err ≠ none ∨ nu b + 1 ≤ nu a

theorem Prog.then_ns {a b c : St} (h : Prog a b) (h2 : NS b c) : Prog a c := by
  rcases h with h | h
  · left; rw [h2.step.err h]; exact h
  · right; have := h2.nu; omega

theorem Prog.after_ns {a b c : St} (h1 : NS a b) (h : Prog b c) : Prog a c := by
  rcases h with h | h
  · left; exact h
  · right; have := h1.nu; omega

theorem prog_of_err {a b : St} (h : a.err ≠ none) (hs : Step a b) : Prog a b := by
  left; rw [hs.err h]; exact h

theorem ns_rawLoop : ∀ (n start : Nat) (a : St), nu a + 1 ≤ n → NS a (rawLoop n start a) := by
  intro n
  induction n with
  | zero => intro start a hn; omega
  | succ n ih =>
    intro start a hn
    by_cases h : a.err = none
    · unfold rawLoop
      simp only [h, Option.isNone_none, if_true]
      have h1 := ns_nextByte false a
      split
      · exact h1.trans (ns_saveFrom _ _)
      · have h2 : NS (nextByte false a).2
            (if (nextByte false a).2.eof = true then syntaxError (nextByte false a).2 else (nextByte false a).2) :=
          ns_ite _ (ns_syntaxError _) (NS.refl _)
        by_cases hz : (nextByte false a).1 = 0
        · -- end of input or NUL: the next round stops
          have herr : (if (nextByte false a).2.eof = true then syntaxError (nextByte false a).2
              else (nextByte false a).2).err ≠ none := by
            rcases nextByte_false_zero a h hz with he | he
            · simp only [he, if_true]; exact syntaxError_err _
            · split
              · exact syntaxError_err _
              · exact he
          rw [loop_err_stop_raw _ _ _ herr]
          exact h1.trans h2
        · have hp := nextByte_progress false a h hz
          have := h2.nu
          exact (h1.trans h2).trans (ih _ _ (by omega))
    · rw [loop_err_stop_raw _ _ _ h]; exact NS.refl a

theorem ns_strLoop : ∀ (n start : Nat) (a : St), nu a + 1 ≤ n → NS a (strLoop n start a) := by
  intro n
  induction n with
  | zero => intro start a hn; omega
  | succ n ih =>
    intro start a hn
    by_cases h : a.err = none
    · unfold strLoop
      simp only [h, Option.isNone_none, if_true]
      have h1 := ns_nextByte false a
      split
      · exact h1.trans (ns_saveFrom _ _)
      · have h2 : NS (nextByte false a).2
            (if ((nextByte false a).2.eof || decide ((nextByte false a).1 = 10)) = true
              then syntaxError (nextByte false a).2 else (nextByte false a).2) :=
          ns_ite _ (ns_syntaxError _) (NS.refl _)
        by_cases hz : (nextByte false a).1 = 0
        · have herr : (if ((nextByte false a).2.eof || decide ((nextByte false a).1 = 10)) = true
              then syntaxError (nextByte false a).2 else (nextByte false a).2).err ≠ none := by
            rcases nextByte_false_zero a h hz with he | he
            · simp only [he, Bool.true_or, if_true]; exact syntaxError_err _
            · split
              · exact syntaxError_err _
              · exact he
          have e92 : ((nextByte false a).1 = 92) = False := by rw [hz]; decide
          simp only [e92, if_false]
          rw [strLoop_err_stop _ _ _ herr]
          exact h1.trans h2
        · have hp := nextByte_progress false a h hz
          generalize hst1 : (if ((nextByte false a).2.eof || decide ((nextByte false a).1 = 10)) = true
              then syntaxError (nextByte false a).2 else (nextByte false a).2) = st1 at h2
          have h3 : NS st1 (if (nextByte false a).1 = 92 then
                (if (escapedNewlineIsError && decide ((nextByte false st1).1 = 10)) = true
                  then syntaxError (nextByte false st1).2 else (nextByte false st1).2) else st1) :=
            ns_ite _ (ns_ite _ ((ns_nextByte false st1).trans (ns_syntaxError _)) (ns_nextByte false st1))
              (NS.refl st1)
          have := h2.nu
          have := h3.nu
          exact ((h1.trans h2).trans h3).trans (ih _ _ (by omega))
    · rw [strLoop_err_stop _ _ _ h]; exact NS.refl a

theorem nextByte_peek_zero (s : Bool) (a : St) : (nextByte s a).2.peek = 0 := rfl

theorem nu_nextByte_le (s : Bool) (a : St) : nu (nextByte s a).2 + 1 ≤ (nextByte s a).2.rest.length + 2 := by
  unfold C18.nu mu
  rw [nextByte_peek_zero]
  simp only [if_true, Nat.add_zero]
  split <;> omega

theorem ns_readString (a : St) : NS a (readString a) := by
  unfold readString
  simp only
  have h1 := ns_nextByte true a
  split
  · exact h1.trans (ns_rawLoop _ _ _ (nu_nextByte_le true a))
  · split
    · exact h1.trans (ns_strLoop _ _ _ (nu_nextByte_le true a))
    · exact h1.trans (ns_syntaxError _)

theorem prog_readString (a : St) (h : a.err = none) : Prog a (readString a) := by
  unfold readString
  simp only
  split
  · next hq =>
    have hz : (nextByte true a).1 ≠ 0 := by rw [hq]; decide
    have hp := nextByte_progress true a h hz
    exact Prog.then_ns (Or.inr hp) (ns_rawLoop _ _ _ (nu_nextByte_le true a))
  · split
    · next hq =>
      have hz : (nextByte true a).1 ≠ 0 := by rw [hq]; decide
      have hp := nextByte_progress true a h hz
      exact Prog.then_ns (Or.inr hp) (ns_strLoop _ _ _ (nu_nextByte_le true a))
    · exact Or.inl (syntaxError_err _)

theorem ns_readImport (a : St) : NS a (readImport a) := by
  unfold readImport
  simp only
  have h1 : NS (peekByte true a).2
      (if (peekByte true a).1 = 46 then { (peekByte true a).2 with peek := 0 }
       else if isIdent (peekByte true a).1 = true then readIdent (peekByte true a).2 else (peekByte true a).2) :=
    ns_ite _ (ns_clearPeek _) (ns_ite _ (ns_readIdent _) (NS.refl _))
  exact ((ns_peekByte true a).trans h1).trans (ns_readString _)

theorem prog_readImport (a : St) : Prog a (readImport a) := by
  unfold readImport
  simp only
  have h1 : NS (peekByte true a).2
      (if (peekByte true a).1 = 46 then { (peekByte true a).2 with peek := 0 }
       else if isIdent (peekByte true a).1 = true then readIdent (peekByte true a).2 else (peekByte true a).2) :=
    ns_ite _ (ns_clearPeek _) (ns_ite _ (ns_readIdent _) (NS.refl _))
  have h01 := (ns_peekByte true a).trans h1
  generalize (if (peekByte true a).1 = 46 then { (peekByte true a).2 with peek := 0 }
       else if isIdent (peekByte true a).1 = true then readIdent (peekByte true a).2 else (peekByte true a).2) = st1 at h01
  by_cases he : st1.err = none
  · exact Prog.after_ns h01 (prog_readString st1 he)
  · exact Prog.after_ns h01 (prog_of_err he (ns_readString st1).step)

/-! ### groups, declarations, the whole scan -/

theorem ns_groupLoop_err (n : Nat) (a : St) (h : a.err ≠ none) : NS a (groupLoop n a) := by
  have h0 := ns_peekByte true a
  have he : (peekByte true a).2.err.isNone = false := by
    apply isNone_false_of_ne
    rw [h0.step.err h]; exact h
  cases n <;> simp only [groupLoop, he, Bool.and_false, Bool.false_eq_true, if_false] <;> exact h0

theorem ns_groupLoop : ∀ (n : Nat) (a : St), nu a + 1 ≤ n → NS a (groupLoop n a) := by
  intro n
  induction n with
  | zero => intro a hn; omega
  | succ n ih =>
    intro a hn
    unfold groupLoop
    simp only
    have h0 := ns_peekByte true a
    split
    · have hp := prog_readImport (peekByte true a).2
      have h1 := h0.trans (ns_readImport _)
      rcases hp with hp | hp
      · exact h1.trans (ns_groupLoop_err n _ hp)
      · have := h0.nu
        exact h1.trans (ih _ (by omega))
    · exact h0

theorem nextByte_false_peeked (a : St) (h : a.err = none) (hp : a.peek ≠ 0) : (nextByte false a).1 = a.peek := by
  unfold nextByte
  simp only
  rw [peekByte_ok_eq false a h]
  simp [skipLoop_false_eq, hp]

/-- the body of one iteration of the declaration loop. -/
def declIter (p : St) : St :=
  if (peekByte true (readKeyword kwImport p)).1 = 40 then
    (nextByte false (groupLoop ((peekByte true (readKeyword kwImport p)).2.rest.length + 2)
      (nextByte false (peekByte true (readKeyword kwImport p)).2).2)).2
  else readImport (peekByte true (readKeyword kwImport p)).2

theorem declLoop_succ' (n : Nat) (a : St) :
    declLoop (n + 1) a =
      if (peekByte true a).1 = 105 then declLoop n (declIter (peekByte true a).2) else (peekByte true a).2 := rfl

theorem declLoop_zero' (a : St) :
    declLoop 0 a = if (peekByte true a).1 = 105 then setStuck (peekByte true a).2 else (peekByte true a).2 := rfl

theorem ns_declIter (p : St) : NS p (declIter p) := by
  unfold declIter
  have h1 := (ns_readKeyword kwImport p).trans (ns_peekByte true _)
  split
  · have h2 := h1.trans (ns_nextByte false _)
    exact (h2.trans (ns_groupLoop _ _ (by
      have := nu_nextByte_le false (peekByte true (readKeyword kwImport p)).2
      have hl := (ns_nextByte false (peekByte true (readKeyword kwImport p)).2).step.len
      omega))).trans (ns_nextByte false _)
  · exact h1.trans (ns_readImport _)

theorem prog_declIter (p : St) : Prog p (declIter p) := by
  unfold declIter
  have hk := ns_readKeyword kwImport p
  have h1 := hk.trans (ns_peekByte true _)
  split
  · next h40 =>
    -- the `(` is taken: progress (or an error is pending)
    have hfuel : nu (nextByte false (peekByte true (readKeyword kwImport p)).2).2 + 1 ≤
        (peekByte true (readKeyword kwImport p)).2.rest.length + 2 := by
      have := nu_nextByte_le false (peekByte true (readKeyword kwImport p)).2
      have hl := (ns_nextByte false (peekByte true (readKeyword kwImport p)).2).step.len
      omega
    have hrest := (ns_groupLoop _ _ hfuel).trans (ns_nextByte false
      (groupLoop ((peekByte true (readKeyword kwImport p)).2.rest.length + 2)
        (nextByte false (peekByte true (readKeyword kwImport p)).2).2))
    by_cases he1 : (readKeyword kwImport p).err = none
    · by_cases he2 : (peekByte true (readKeyword kwImport p)).2.err = none
      · have hpk := peekByte_peek true _ he1
        have hnz : (peekByte true (readKeyword kwImport p)).2.peek ≠ 0 := by rw [hpk, h40]; decide
        have hval := nextByte_false_peeked _ he2 hnz
        have hprog := nextByte_progress false _ he2 (by rw [hval]; exact hnz)
        exact Prog.after_ns h1 (Prog.then_ns (Or.inr hprog) hrest)
      · exact Prog.after_ns h1 (prog_of_err he2 ((ns_nextByte false _).trans hrest).step)
    · exact Prog.after_ns hk (prog_of_err he1 (((ns_peekByte true _).trans (ns_nextByte false _)).trans hrest).step)
  · exact Prog.after_ns h1 (prog_readImport _)

theorem ns_declLoop_err (n : Nat) (a : St) (h : a.err ≠ none) : NS a (declLoop n a) := by
  have h0 := peekByte_err_zero true a h
  have e1 : ((0 : UInt8) = 105) = False := by decide
  cases n
  · rw [declLoop_zero', h0]; simp only [e1, if_false]; exact ns_peekByte true a
  · rw [declLoop_succ', h0]; simp only [e1, if_false]; exact ns_peekByte true a

theorem ns_declLoop : ∀ (n : Nat) (a : St), nu a + 1 ≤ n → NS a (declLoop n a) := by
  intro n
  induction n with
  | zero => intro a hn; omega
  | succ n ih =>
    intro a hn
    rw [declLoop_succ']
    have h0 := ns_peekByte true a
    split
    · have hp := prog_declIter (peekByte true a).2
      have h1 := h0.trans (ns_declIter _)
      rcases hp with hp | hp
      · exact h1.trans (ns_declLoop_err n _ hp)
      · have := h0.nu
        exact h1.trans (ih _ (by omega))
    · exact h0

theorem scan_not_stuck (d : Bytes) : (scan d).stuck = false := by
  have h1 := (ns_readKeyword kwPackage (St.init d)).trans (ns_readIdent _)
  have hnu : nu (St.init d) = d.length + 1 := by simp [C18.nu, mu, St.init]
  have h2 := ns_declLoop (d.length + 2) (readIdent (readKeyword kwPackage (St.init d)))
    (by have := h1.nu; omega)
  have h := h1.trans h2
  cases hs : (scan d).stuck with
  | false => rfl
  | true =>
    have := h.stuck hs
    simp [St.init] at this

theorem drained_not_stuck (st : St) (h : st.stuck = false) : (drained st).stuck = false := by
  have hns := ns_drain (st.rest.length + 1) { st with err := none } (by unfold mu; simp; split <;> omega)
  cases hs : (drained st).stuck with
  | false => rfl
  | true =>
    have := hns.stuck hs
    simp [h] at this

/-- every loop of the model has fuel to spare: the outcome is never `stuck`. -/
theorem readImports_no_stuck (d : Bytes) (report : Bool) : readImports d report ≠ .stuck := by
  unfold readImports
  have hs := scan_not_stuck (stripBOM d)
  rcases finish_cases report (scan (stripBOM d)) (scan_panicked _) with
    ⟨_, _, (⟨_, h⟩ | ⟨x, t, _, h⟩)⟩ | ⟨_, _, _, h⟩ | ⟨_, _, h⟩
  · rw [h]; simp
  · rw [h, hs]; simp
  · rw [h, drained_not_stuck _ hs]; simp
  · rw [h, hs]; simp

end GIV.C18
