/-
  Write (for C07): the invariant `WriteOK` — a Write that has seen no fault has truncated under its lock,
  copied a prefix of its content, and commits exactly its content — proved inductive over all
  interleavings (`reachable_Inv5`), one lemma per control point (`w_step_…`); and `Inv2b`: the history an
  operation saw at its flock step stays a suffix of the file's commit history.
-/
import GIV.Lemmas.LockedfileTransform

namespace GIV.Lockedfile
open GIV

/-! ### Write -/

def WFin (content : Bytes) (flt : List (Tag × Fault)) (ret : Ret) (v : Bytes) : Prop :=
  (ret = .ok ∧ v = content) ∨ (ret = .err ∧ flt ≠ [])

def WDone (content : Bytes) (flt : List (Tag × Fault)) (committed : Option Bytes) (ret : Ret) : Prop :=
  (ret = .ok ∧ committed = some content) ∨ (ret = .err ∧ flt ≠ [])

def WriteP (w : World) (p : Path) (content : Bytes) (h1 : List Bytes) (flt : List (Tag × Fault))
    (committed : Option Bytes) : Pc → Prop
  | .open => committed = none
  | .lock fd => committed = none ∧ ∃ o, w.fds fd = some o ∧ o.off = 0
  | .trunc fd => committed = none ∧ ∃ o, w.fds fd = some o ∧ o.off = 0
  | .truncStat _ => committed = none ∧ flt ≠ []
  | .copy fd rest => committed = none ∧ rest ≠ [] ∧
      ∃ o, w.fds fd = some o ∧ w.content p ++ rest = content ∧ o.off = (w.content p).length
  | .unlock _ ret => committed = none ∧ WFin content flt ret (w.content p)
  | .close _ ret true => committed = none ∧ ret = .err ∧ flt ≠ []
  | .close _ ret false => WDone content flt committed ret ∧ Pushed w p h1 committed
  | .done ret => WDone content flt committed ret ∧ Pushed w p h1 committed
  | _ => False

def WriteOK (w : World) (fr : Frame) (content : Bytes) : Prop :=
  WriteP w fr.op.path content fr.h1 fr.flt fr.committed fr.pc

structure WCtx (s : State) (c : Cid) (fr : Frame) (p : Path) (content : Bytes) : Prop where
  hi : Inv1 s
  h2 : Inv2 s
  hcur : (s.cl c).cur = some fr
  hop : fr.op = .write p content

theorem WCtx.flag {s c fr p content} (cx : WCtx s c fr p content) : fr.op.flag = Gen.Lockedfile.flagsWrite := by
  rw [cx.hop]; rfl

theorem WCtx.own {s c fr p content} (cx : WCtx s c fr p content) {fd : Fd} (hfd : fr.pc.fd? = some fd) :
    ∃ o, s.w.fds fd = some o ∧ o.path = fr.op.path ∧ o.wr = true ∧ o.app = false := by
  obtain ⟨ho, _, _⟩ := ((cx.hi.clients c).frame fr cx.hcur).fd fd hfd
  obtain ⟨o, h1, h2, _, _, h4, h5⟩ := ho.open
  refine ⟨o, h1, h2, h4.trans ?_, h5.trans ?_⟩ <;> rw [cx.flag] <;> decide

theorem writeOK_next {s : State} {w' : World} {fr : Frame} {content sc tag f n r} :
    WriteOK w' (nextFrame s.w w' fr sc tag f n r) content ↔
    WriteP w' fr.op.path content (nextFrame s.w w' fr sc tag f n r).h1 (nextFrame s.w w' fr sc tag f n r).flt
      (nextFrame s.w w' fr sc tag f n r).committed (advancePc fr.op fr.pc n r) := Iff.rfl

theorem nextFrame_flt_ne {w w' : World} {fr : Frame} {sc tag f n r} (h : fr.flt ≠ []) :
    (nextFrame w w' fr sc tag f n r).flt ≠ [] := by
  simp only [nextFrame]; split
  · simp
  · exact h

theorem resize_zero (d : Bytes) : resize d 0 = [] := by simp [resize, zeros]

theorem w_step_open {s : State} {w' : World} {c fr p content f n r} (cx : WCtx s c fr p content)
    (hpc : fr.pc = .open) (hr : WriteOK s.w fr content)
    (h : osStep s.w c (.open fr.op.path (openFlags fr.op.flag)) f = some (w', r)) :
    WriteOK w' (nextFrame s.w w' fr (.open fr.op.path (openFlags fr.op.flag)) .open f n r) content := by
  unfold WriteOK at hr; rw [hpc] at hr
  rw [writeOK_next, nextFrame_committed_keep (by simp [hpc, releases]), hpc]
  have hcr : fCreat (openFlags fr.op.flag) = true := by rw [cx.flag]; decide
  have hex : fExcl (openFlags fr.op.flag) = false := by rw [cx.flag]; decide
  rcases cls_open hcr hex h with ⟨e, hf, rfl, rfl⟩ | ⟨hf, rfl, rfl⟩
  · rw [nextFrame_flt_err hf]; simp only [advancePc, finPc_eq]
    exact ⟨.inr ⟨rfl, by simp⟩, fun v hv => (by rw [hr] at hv; cases hv)⟩
  · simp only [advancePc, finPc_eq, Gen.Lockedfile.truncAfterLock, Bool.not_true, Bool.and_false, Bool.false_eq_true, if_false]
    exact ⟨hr, _, upd_same _ _ _, rfl⟩

theorem w_step_lock {s : State} {w' : World} {c fr p content fd f n r} (cx : WCtx s c fr p content)
    (hpc : fr.pc = .lock fd) (hr : WriteOK s.w fr content)
    (h : osStep s.w c (.flock fd (lockMode fr.op.flag)) f = some (w', r)) :
    WriteOK w' (nextFrame s.w w' fr (.flock fd (lockMode fr.op.flag)) .lock f n r) content := by
  obtain ⟨od, hod, hpath, hwr, happ⟩ := cx.own (fd := fd) (by simp [hpc, Pc.fd?])
  unfold WriteOK at hr; rw [hpc] at hr
  obtain ⟨hcn, o', ho', hoff⟩ := hr
  rw [hod] at ho'; cases ho'
  rw [writeOK_next, nextFrame_committed_keep (by simp [hpc, releases]), hpc]
  rcases cls_flock hod (by simp [hwr]) h with ⟨e, hf, rfl, rfl⟩ | ⟨hf, hc, rfl, rfl⟩
  · rw [nextFrame_flt_err hf]
    have : advancePc fr.op (.lock fd) n (.err e) = .lock fd ∨ advancePc fr.op (.lock fd) n (.err e) = .close fd .err false := by
      simp only [advancePc, finPc_eq]; cases e <;> simp [Gen.Lockedfile.retriesEINTR]
    rcases this with hp | hp <;> rw [hp]
    · exact ⟨hcn, _, hod, hoff⟩
    · exact ⟨.inr ⟨rfl, by simp⟩, fun v hv => (by rw [hcn] at hv; cases hv)⟩
  · have hp : advancePc fr.op (.lock fd) n .ok = .trunc fd := by
      simp only [advancePc, finPc_eq, afterLock, cx.flag]
      have : wantsTrunc Gen.Lockedfile.flagsWrite = true := by decide
      simp [this, Gen.Lockedfile.truncAfterLock]
    rw [hp]
    exact ⟨hcn, od, by simpa using hod, hoff⟩

theorem w_step_trunc {s : State} {w' : World} {c fr p content fd f n r} (cx : WCtx s c fr p content)
    (hpc : fr.pc = .trunc fd) (hr : WriteOK s.w fr content)
    (h : osStep s.w c (.ftruncate fd Gen.Lockedfile.truncSize) f = some (w', r)) :
    WriteOK w' (nextFrame s.w w' fr (.ftruncate fd Gen.Lockedfile.truncSize) .trunc f n r) content := by
  obtain ⟨od, hod, hpath, hwr, happ⟩ := cx.own (fd := fd) (by simp [hpc, Pc.fd?])
  unfold WriteOK at hr; rw [hpc] at hr
  obtain ⟨hcn, o', ho', hoff⟩ := hr
  rw [hod] at ho'; cases ho'
  rw [writeOK_next, nextFrame_committed_keep (by simp [hpc, releases]), hpc]
  rcases cls_ftruncate hod hwr h with ⟨e, hf, rfl, rfl⟩ | ⟨hf, rfl, rfl⟩
  · rw [nextFrame_flt_err hf]; simp only [advancePc, finPc_eq]
    exact ⟨hcn, by simp⟩
  · have hadv : advancePc fr.op (.trunc fd) n .ok =
        (if content.isEmpty then Pc.unlock fd .ok else .copy fd content) := by
      rw [cx.hop]; simp [advancePc, finPc_eq, Gen.Lockedfile.truncAfterLock, afterOpen, finPc_eq]
    rw [hadv]
    have hts : Gen.Lockedfile.truncSize = 0 := by decide
    split
    · rename_i he
      refine ⟨hcn, .inl ⟨rfl, ?_⟩⟩
      rw [← hpath, content_setFile, hts, resize_zero]
      exact (List.isEmpty_iff.1 he).symm
    · rename_i he
      refine ⟨hcn, fun e => he (by simp [e]), od, hod, ?_, ?_⟩
      · rw [← hpath, content_setFile, hts, resize_zero]; rfl
      · rw [← hpath, content_setFile, hts, resize_zero]; exact hoff

theorem w_step_truncStat {s : State} {w' : World} {c fr p content fd f n r} (_cx : WCtx s c fr p content)
    (hpc : fr.pc = .truncStat fd) (hr : WriteOK s.w fr content) :
    WriteOK w' (nextFrame s.w w' fr (.fstat fd) .truncStat f n r) content := by
  unfold WriteOK at hr; rw [hpc] at hr
  rw [writeOK_next, nextFrame_committed_keep (by simp [hpc, releases]), hpc]
  simp only [advancePc, finPc_eq]
  exact ⟨hr.1, .inr ⟨rfl, nextFrame_flt_ne hr.2⟩⟩

theorem w_step_copy {s : State} {w' : World} {c fr p content fd rest f n r} (cx : WCtx s c fr p content)
    (hpc : fr.pc = .copy fd rest) (hr : WriteOK s.w fr content)
    (h : osStep s.w c (.write fd (rest.take n)) f = some (w', r)) :
    WriteOK w' (nextFrame s.w w' fr (.write fd (rest.take n)) .write f n r) content := by
  obtain ⟨od, hod, hpath, hwr, happ⟩ := cx.own (fd := fd) (by simp [hpc, Pc.fd?])
  unfold WriteOK at hr; rw [hpc] at hr
  obtain ⟨hcn, hne, o', ho', hD, hoff⟩ := hr
  rw [hod] at ho'; cases ho'
  have hD' : s.w.content od.path ++ rest = content := by rw [hpath]; exact hD
  have hoff' : od.off = (s.w.content od.path).length := by rw [hpath]; exact hoff
  rw [writeOK_next, nextFrame_committed_keep (by simp [hpc, releases]), hpc]
  rcases cls_write hod hwr happ h with ⟨e, hf, rfl, rfl⟩ | ⟨hna, rfl, rfl⟩ | ⟨k, rfl, rfl, rfl⟩
  · rw [nextFrame_flt_err hf]; simp only [advancePc, finPc_eq]
    exact ⟨hcn, .inr ⟨rfl, by simp⟩⟩
  · rw [nextFrame_flt_noaffect hna]; simp only [advancePc, finPc_eq]
    have hnew : World.content { s.w with
        files := upd s.w.files od.path (some (pwriteAt (s.w.content od.path) od.off (rest.take n))),
        fds := upd s.w.fds fd (some { od with off := od.off + (rest.take n).length }) } fr.op.path =
        s.w.content od.path ++ rest.take n := by
      rw [← hpath]
      show contentOf (upd s.w.files od.path _ od.path) = _
      rw [upd_same]; simp only [contentOf]
      rw [hoff', pwriteAt_end]
    split
    · rename_i he
      refine ⟨hcn, .inl ⟨rfl, ?_⟩⟩
      rw [hnew, ← hD']
      have : rest.drop n = [] := List.isEmpty_iff.1 he
      have h2 := List.take_append_drop n rest
      rw [this, List.append_nil] at h2
      rw [h2]
    · rename_i he
      refine ⟨hcn, fun e => he (by simp [e]), _, upd_same _ _ _, ?_, ?_⟩
      · rw [hnew, List.append_assoc, List.take_append_drop]; exact hD'
      · rw [hnew]; simp [hoff']
  · rw [nextFrame_flt_short_write]; simp only [advancePc, finPc_eq]
    exact ⟨hcn, .inr ⟨rfl, by simp⟩⟩

theorem w_step_unlock {s : State} {w' : World} {c fr p content fd ret f n r} (cx : WCtx s c fr p content)
    (hpc : fr.pc = .unlock fd ret) (hr : WriteOK s.w fr content)
    (h : osStep s.w c (.funlock fd) f = some (w', r)) :
    WriteOK w' (nextFrame s.w w' fr (.funlock fd) .unlock f n r) content := by
  obtain ⟨od, hod, hpath, hwr, happ⟩ := cx.own (fd := fd) (by simp [hpc, Pc.fd?])
  unfold WriteOK at hr; rw [hpc] at hr
  obtain ⟨hcn, hfin⟩ := hr
  have hexm : lockMode fr.op.flag = .ex := by rw [cx.flag]; decide
  rw [writeOK_next, hpc]
  rcases cls_funlock hod h with ⟨e, hf, rfl, rfl⟩ | ⟨hf, rfl, rfl⟩
  · rw [nextFrame_flt_err hf, nextFrame_committed_keep (by simp [hpc, releases])]
    have hcr : closeRet fr.op ret true = .err := by
      rcases hfin with ⟨rfl, _⟩ | ⟨rfl, _⟩ <;> simp [closeRet, cx.hop, reportsCloseErr]
    have : advancePc fr.op (.unlock fd ret) n (.err e) = .unlock fd ret ∨
        advancePc fr.op (.unlock fd ret) n (.err e) = .close fd .err true := by
      simp only [advancePc, finPc_eq, hcr]; cases e <;> simp [Gen.Lockedfile.retriesEINTR]
    rcases this with hp | hp <;> rw [hp]
    · refine ⟨hcn, ?_⟩
      rcases hfin with h1 | ⟨h1, _⟩
      · exact .inl h1
      · exact .inr ⟨h1, by simp⟩
    · exact ⟨hcn, rfl, by simp⟩
  · rw [nextFrame_flt_noerr hf (by intros; simp) (by intros; simp),
      nextFrame_committed_release (by simp [hpc, releases]) hexm]
    simp only [advancePc, finPc_eq]
    refine ⟨?_, fun v hv => ?_⟩
    · rcases hfin with ⟨h1, h2⟩ | h1
      · exact .inl ⟨h1, by rw [h2]⟩
      · exact .inr h1
    · cases hv
      have hl := (((cx.hi.clients c).frame fr cx.hcur).fd fd (by simp [hpc, Pc.fd?])).2.2
      simp only [hpc, Pc.locked, if_true, hexm] at hl
      have hh := cx.h2.hist c fr cx.hcur (by rw [cx.hop]; rfl)
      simp only [HistOK, hpc, Pc.preLock, Pc.locked, Bool.false_eq_true, if_false, if_true] at hh
      rw [nextFrame_h1_eq (by intro fd e; rw [hpc] at e; cases e), hpath, dropLock_pushes hl, hh.1]
      exact List.suffix_refl _

theorem w_step_close {s : State} {w' : World} {c fr p content fd ret b f n r} (cx : WCtx s c fr p content)
    (hpc : fr.pc = .close fd ret b) (hr : WriteOK s.w fr content)
    (h : osStep s.w c (.close fd) f = some (w', r)) :
    WriteOK w' (nextFrame s.w w' fr (.close fd) .close f n r) content := by
  obtain ⟨od, hod, hpath, hwr, happ⟩ := cx.own (fd := fd) (by simp [hpc, Pc.fd?])
  unfold WriteOK at hr; rw [hpc] at hr
  rw [writeOK_next, hpc]
  cases b
  · -- the lock has been released already
    rw [nextFrame_committed_keep (by simp [hpc, releases]), nextFrame_h1_eq (by intro fd e; rw [hpc] at e; cases e)]
    have hpu := hr.2.mono (osStep_hist_suffix h fr.op.path)
    rcases cls_close hod h with ⟨e, hf, rfl, rfl⟩ | ⟨hf, hns, rfl, rfl⟩ | ⟨rfl, rfl, rfl⟩
    · rw [nextFrame_flt_err hf]; simp only [advancePc, finPc_eq]
      refine ⟨.inr ⟨?_, by simp⟩, hpu⟩
      rcases hr.1 with ⟨rfl, _⟩ | ⟨rfl, _⟩ <;> simp [closeRet, cx.hop, reportsCloseErr]
    · rw [nextFrame_flt_noaffect (affects_close_false hf hns fd)]; simp only [advancePc, finPc_eq]; exact ⟨hr.1, hpu⟩
    · rw [nextFrame_flt_shared_close]; simp only [advancePc, finPc_eq]
      refine ⟨?_, hpu⟩
      rcases hr.1 with h1 | ⟨h1, _⟩
      · exact .inl h1
      · exact .inr ⟨h1, by simp⟩
  · obtain ⟨hcn, rfl, hne⟩ := hr
    have hd : ∃ ret', advancePc fr.op (.close fd .err true) n r = .done ret' ∧ ret' = .err := by
      simp only [advancePc, finPc_eq]; split
      · exact ⟨_, rfl, rfl⟩
      · exact ⟨_, rfl, by simp [closeRet]⟩
    obtain ⟨ret', hp, rfl⟩ := hd
    rw [hp]
    refine ⟨.inr ⟨rfl, nextFrame_flt_ne hne⟩, fun v hv => ?_⟩
    -- the commit (if the close succeeded) sits on top of the history at the flock step
    rcases cls_close hod h with ⟨e, hf, rfl, rfl⟩ | ⟨hf, hns, rfl, rfl⟩ | ⟨rfl, rfl, rfl⟩
    rotate_left
    · have hexm : lockMode fr.op.flag = .ex := by rw [cx.flag]; decide
      rw [nextFrame_committed_release (by simp [hpc, releases, hns]) hexm] at hv
      cases hv
      have hl := (((cx.hi.clients c).frame fr cx.hcur).fd fd (by simp [hpc, Pc.fd?])).2.2
      simp only [hpc, Pc.locked, if_true, hexm] at hl
      have hh := cx.h2.hist c fr cx.hcur (by rw [cx.hop]; rfl)
      simp only [HistOK, hpc, Pc.preLock, Pc.locked, Bool.false_eq_true, if_false, if_true] at hh
      rw [nextFrame_h1_eq (by intro fd e; rw [hpc] at e; cases e), closeFd_hist, hpath, dropLock_pushes hl, hh.1]
      exact List.suffix_refl _
    · rw [nextFrame_committed_keep (by simp [hpc, releases]), hcn] at hv; cases hv
    · rw [nextFrame_committed_keep (by simp [hpc, releases]), hcn] at hv; cases hv

theorem writeOK_step {s : State} {w' : World} {c : Cid} {fr : Frame} {p content n sc tag f r}
    (cx : WCtx s c fr p content) (hr : WriteOK s.w fr content) (hs : sysOf fr n = some (sc, tag))
    (h : osStep s.w c sc f = some (w', r)) : WriteOK w' (nextFrame s.w w' fr sc tag f n r) content := by
  have hr0 := hr
  unfold WriteOK at hr0
  cases hpc : fr.pc <;> simp only [sysOf, hpc] at hs <;> rw [hpc] at hr0
  case «open» => simp at hs; obtain ⟨rfl, rfl⟩ := hs; exact w_step_open cx hpc hr h
  case lock fd => simp at hs; obtain ⟨rfl, rfl⟩ := hs; exact w_step_lock cx hpc hr h
  case trunc fd => simp at hs; obtain ⟨rfl, rfl⟩ := hs; exact w_step_trunc cx hpc hr h
  case truncStat fd => simp at hs; obtain ⟨rfl, rfl⟩ := hs; exact w_step_truncStat cx hpc hr
  case copy fd rest =>
    split at hs
    · cases hs
    · simp at hs; obtain ⟨rfl, rfl⟩ := hs; exact w_step_copy cx hpc hr h
  case unlock fd ret => simp at hs; obtain ⟨rfl, rfl⟩ := hs; exact w_step_unlock cx hpc hr h
  case close fd ret b => simp at hs; obtain ⟨rfl, rfl⟩ := hs; exact w_step_close cx hpc hr h
  case done r' => cases hs
  all_goals exact hr0.elim

theorem writeOK_other {s s' : State} {c0 c : Cid} {a : Act} (hi : Inv1 s) (h : step s ⟨c0, a⟩ = some s')
    (hc : c ≠ c0) {fr : Frame} {content} (hcur : (s.cl c).cur = some fr) (hr : WriteOK s.w fr content) :
    WriteOK s'.w fr content := by
  have hfr := (hi.clients c).frame fr hcur
  unfold WriteOK at hr ⊢
  have keep : ∀ fd, fr.pc.fd? = some fd → fr.pc.locked = true →
      s'.w.content fr.op.path = s.w.content fr.op.path ∧ s'.w.fds fd = s.w.fds fd := by
    intro fd hfd hl
    obtain ⟨ho, _, hk⟩ := hfr.fd fd hfd
    rw [if_pos hl] at hk
    have := other_step_stable hi h hc ho
    exact ⟨(this.2.2 _ hk).1, this.1⟩
  cases hpc : fr.pc <;> rw [hpc] at hr <;> first | exact hr | exact hr.elim | skip
  case done ret => exact ⟨hr.1, hr.2.mono (step_hist_suffix h _)⟩
  case lock fd =>
    obtain ⟨ho, _, _⟩ := hfr.fd fd (by simp [hpc, Pc.fd?])
    obtain ⟨h1, o, ho', hoff⟩ := hr
    exact ⟨h1, o, by rw [(other_step_stable hi h hc ho).1]; exact ho', hoff⟩
  case trunc fd =>
    obtain ⟨_, hf'⟩ := keep fd (by simp [hpc, Pc.fd?]) (by simp [hpc, Pc.locked])
    obtain ⟨h1, o, ho', hoff⟩ := hr
    exact ⟨h1, o, by rw [hf']; exact ho', hoff⟩
  case copy fd rest =>
    obtain ⟨hc', hf'⟩ := keep fd (by simp [hpc, Pc.fd?]) (by simp [hpc, Pc.locked])
    obtain ⟨h1, h2, o, ho', h3, h4⟩ := hr
    exact ⟨h1, h2, o, by rw [hf']; exact ho', by rw [hc']; exact h3, by rw [hc']; exact h4⟩
  case unlock fd ret =>
    obtain ⟨hc', _⟩ := keep fd (by simp [hpc, Pc.fd?]) (by simp [hpc, Pc.locked])
    simpa only [WriteP, hc'] using hr
  case close fd ret b =>
    cases b
    · exact ⟨hr.1, hr.2.mono (step_hist_suffix h _)⟩
    · exact hr

def Inv5 (s : State) : Prop := ∀ c fr p content, (s.cl c).cur = some fr → fr.op = .write p content → WriteOK s.w fr content

theorem init_Inv5 (files0 : Path → Option Bytes) : Inv5 (init files0) := fun c fr p t h => by simp [init] at h

theorem step_Inv5 {s s' : State} {l : Label} (hi : Inv1 s) (h2 : Inv2 s) (h5 : Inv5 s) (h : step s l = some s') :
    Inv5 s' := by
  obtain ⟨c0, a⟩ := l
  intro c fr p content hcur hop
  by_cases hc : c = c0
  · subst hc
    cases a with
    | call op =>
      obtain ⟨_, _, rfl⟩ := step_call h
      rw [setClient_cl_same] at hcur
      simp only [Option.some.injEq] at hcur; subst hcur
      simp only at hop; subst hop
      exact rfl
    | ret =>
      obtain ⟨_, _, _, _, rfl⟩ := step_ret h
      rw [setClient_cl_same] at hcur; cases hcur
    | sys f n =>
      obtain ⟨fr0, sc, tag, w', r, hcur0, hs, hos, rfl⟩ := step_sys h
      simp only [upd_same, Option.some.injEq] at hcur; subst hcur
      exact writeOK_step ⟨hi, h2, hcur0, hop⟩ (h5 c fr0 p content hcur0 hop) hs hos
  · have hsame : (s'.cl c).cur = (s.cl c).cur := by
      cases a with
      | call op => obtain ⟨_, _, rfl⟩ := step_call h; rw [setClient_cl_other _ _ _ _ hc]
      | ret => obtain ⟨_, _, _, _, rfl⟩ := step_ret h; rw [setClient_cl_other _ _ _ _ hc]
      | sys f n => obtain ⟨_, _, _, _, _, _, _, _, rfl⟩ := step_sys h; simp only [upd_other _ _ _ _ hc]
    rw [hsame] at hcur
    exact writeOK_other hi h hc hcur (h5 c fr p content hcur hop)

theorem reachable_Inv5 {files0 : Path → Option Bytes} {s : State} (h : Reachable files0 s) : Inv5 s := by
  induction h with
  | init => exact init_Inv5 files0
  | step l hr hs ih => exact step_Inv5 (reachable_Inv1 hr) (reachable_Inv2 hr) ih hs

end GIV.Lockedfile


namespace GIV.Lockedfile
open GIV

/-! ### the history at the flock step stays a suffix of the history -/

def Inv2b (s : State) : Prop := ∀ c fr, (s.cl c).cur = some fr → fr.h1 <:+ s.w.hist fr.op.path

theorem init_Inv2b (files0 : Path → Option Bytes) : Inv2b (init files0) := fun c fr h => by simp [init] at h

theorem nextFrame_h1_cases {w w' : World} {fr : Frame} {sc tag f n r} :
    (nextFrame w w' fr sc tag f n r).h1 = w'.hist fr.op.path ∨ (nextFrame w w' fr sc tag f n r).h1 = fr.h1 := by
  simp only [nextFrame]
  split
  · exact .inl rfl
  · exact .inr rfl

theorem step_Inv2b {s s' : State} {l : Label} (hb : Inv2b s) (h : step s l = some s') : Inv2b s' := by
  obtain ⟨c0, a⟩ := l
  intro c fr hcur
  by_cases hc : c = c0
  · subst hc
    cases a with
    | call op =>
      obtain ⟨_, _, rfl⟩ := step_call h
      rw [setClient_cl_same] at hcur
      simp only [Option.some.injEq] at hcur; subst hcur
      exact List.nil_suffix
    | ret =>
      obtain ⟨_, _, _, _, rfl⟩ := step_ret h
      rw [setClient_cl_same] at hcur; cases hcur
    | sys f n =>
      have hsuf := step_hist_suffix h
      obtain ⟨fr0, sc, tag, w', r, hcur0, hs, hos, rfl⟩ := step_sys h
      simp only [upd_same, Option.some.injEq] at hcur; subst hcur
      rcases nextFrame_h1_cases (w := s.w) (w' := w') (fr := fr0) (sc := sc) (tag := tag) (f := f) (n := n) (r := r) with e | e
      · rw [e]; exact List.suffix_refl _
      · rw [e]; exact (hb c fr0 hcur0).trans (hsuf _)
  · have hsame : (s'.cl c).cur = (s.cl c).cur := by
      cases a with
      | call op => obtain ⟨_, _, rfl⟩ := step_call h; rw [setClient_cl_other _ _ _ _ hc]
      | ret => obtain ⟨_, _, _, _, rfl⟩ := step_ret h; rw [setClient_cl_other _ _ _ _ hc]
      | sys f n => obtain ⟨_, _, _, _, _, _, _, _, rfl⟩ := step_sys h; simp only [upd_other _ _ _ _ hc]
    rw [hsame] at hcur
    exact (hb c fr hcur).trans (step_hist_suffix h _)

theorem reachable_Inv2b {files0 : Path → Option Bytes} {s : State} (h : Reachable files0 s) : Inv2b s := by
  induction h with
  | init => exact init_Inv2b files0
  | step l _ hs ih => exact step_Inv2b ih hs

end GIV.Lockedfile

namespace GIV.Lockedfile
open GIV

theorem reachable_hist_ne {files0 : Path → Option Bytes} {s : State} (h : Reachable files0 s) (p : Path) :
    s.w.hist p ≠ [] := by
  induction h with
  | init => simp [init, initWorld]
  | step l _ hs ih =>
    intro e
    have := step_hist_suffix hs p
    rw [e] at this
    exact ih (List.eq_nil_of_suffix_nil this)

theorem releases_pc {pc : Pc} {r : Res} {f : Fault} (h : releases pc r f = true) :
    pc.locked = true ∧ pc.preLock = false ∧ ∀ fd, pc ≠ .lock fd := by
  cases pc <;> simp [releases] at h <;> first | (cases r <;> simp at h; done) | skip
  · exact ⟨rfl, rfl, fun fd e => by cases e⟩
  · rename_i fd ret b
    cases b <;> cases r <;> simp at h
    exact ⟨rfl, rfl, fun fd e => by cases e⟩

/-- An operation that has committed went through its flock step: `h1` is a real (non-empty) snapshot. -/
theorem reachable_committed_h1 {files0 : Path → Option Bytes} {s : State} (h : Reachable files0 s) :
    ∀ c fr, (s.cl c).cur = some fr → fr.op.opens = true → fr.committed.isSome = true → fr.h1 ≠ [] := by
  induction h with
  | init => intro c fr h; simp [init] at h
  | @step s s' l hr hs ih =>
    obtain ⟨c0, a⟩ := l
    intro c fr hcur hop hcom
    by_cases hc : c = c0
    · subst hc
      cases a with
      | call op =>
        obtain ⟨_, _, rfl⟩ := step_call hs
        rw [setClient_cl_same] at hcur
        simp only [Option.some.injEq] at hcur; subst hcur
        simp at hcom
      | ret =>
        obtain ⟨_, _, _, _, rfl⟩ := step_ret hs
        rw [setClient_cl_same] at hcur; cases hcur
      | sys f n =>
        have hne' := reachable_hist_ne (Reachable.step _ hr hs)
        obtain ⟨fr0, sc, tag, w', r, hcur0, hsys, hos, rfl⟩ := step_sys hs
        simp only [upd_same, Option.some.injEq] at hcur; subst hcur
        by_cases hrel : releases fr0.pc r f = true
        · obtain ⟨hl, hnp, hnl⟩ := releases_pc hrel
          have hh := (reachable_Inv2 hr).hist c fr0 hcur0 hop
          unfold HistOK at hh
          rw [if_neg (by simp [hnp]), if_pos hl] at hh
          rw [nextFrame_h1_eq hnl, ← hh.1]
          exact reachable_hist_ne hr _
        · rcases nextFrame_h1_cases (w := s.w) (w' := w') (fr := fr0) (sc := sc) (tag := tag) (f := f) (n := n) (r := r) with e | e
          · rw [e]; exact hne' _
          · rw [e]
            apply ih c fr0 hcur0 hop
            have : (nextFrame s.w w' fr0 sc tag f n r).committed = fr0.committed :=
              nextFrame_committed_keep (by simpa using hrel)
            rw [← this]; exact hcom
    · have hsame : (s'.cl c).cur = (s.cl c).cur := by
        cases a with
        | call op => obtain ⟨_, _, rfl⟩ := step_call hs; rw [setClient_cl_other _ _ _ _ hc]
        | ret => obtain ⟨_, _, _, _, rfl⟩ := step_ret hs; rw [setClient_cl_other _ _ _ _ hc]
        | sys f n => obtain ⟨_, _, _, _, _, _, _, _, rfl⟩ := step_sys hs; simp only [upd_other _ _ _ _ hc]
      rw [hsame] at hcur
      exact ih c fr hcur hop hcom

end GIV.Lockedfile
