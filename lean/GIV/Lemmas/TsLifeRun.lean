/-
  Lemmas for GIV.Model.TsLife §4: the skeleton of `run`.  One invariant of the script state that
  every command preserves (`RunInv`): the chain built by `Defer` calls its functions in reverse
  registration order, no deferred function has run and the log has not been flushed while the
  body runs, and every started background command is either waited for already or still recorded
  in `ts.background`.  From it, for every script and every exit path: `defer_lifo` and
  `background_drained`.
-/
import GIV.Model.TsLife

namespace GIV.TsLife
open GIV

/-- `Defer` chains the older functions after the new one. -/
class FDefer : Prop where
  oldLast : Gen.TsLife.deferChainsOldLast = true

theorem call_link [F : FDefer] (id : Nat) (ab : Abort) (old : Chain) :
    (Chain.link id ab old).call = id :: old.call := by
  simp [Chain.call, Chain.run, F.oldLast]

def LineRes.state : LineRes → SState
  | .ok s | .fatal s | .skipped s | .failNow s | .hang s | .escape s => s

/-- ids of the deferred functions called, from a trace (in trace order). -/
def defsOf (tr : List Ev) : List Nat :=
  tr.filterMap fun e => match e with | .deferred id => some id | _ => none

structure RunInv (s : SState) : Prop where
  chain : s.chain.call = s.registered.reverse
  nodef : defsOf s.trace = []
  noflush : Ev.logFlush ∉ s.trace
  bgInv : ∀ id k, Ev.started id k ∈ s.trace → Ev.waited id ∈ s.trace ∨ ∃ b ∈ s.bg, b.id = id

/-- a step that leaves the life-cycle fields alone -/
theorem RunInv.same {s s' : SState} (hi : RunInv s) (h1 : s'.chain = s.chain) (h2 : s'.registered = s.registered)
    (h3 : s'.trace = s.trace) (h4 : s'.bg = s.bg) : RunInv s' := by
  obtain ⟨a, b, c, d⟩ := hi
  exact ⟨by rw [h1, h2]; exact a, by rw [h3]; exact b, by rw [h3]; exact c, by rw [h3, h4]; exact d⟩

/-- emitting an event that is neither a deferred call, nor the flush, nor a start -/
theorem RunInv.emit_plain {s : SState} (hi : RunInv s) (e : Ev)
    (h1 : ∀ id, e ≠ .deferred id) (h2 : e ≠ .logFlush) (h3 : ∀ id k, e ≠ .started id k) : RunInv (emit s e) := by
  obtain ⟨a, b, c, d⟩ := hi
  refine ⟨a, ?_, ?_, ?_⟩
  · simp only [emit, defsOf, List.filterMap_cons]
    cases e <;> simp_all [defsOf]
  · simp only [emit, List.mem_cons, not_or]
    exact ⟨fun h => h2 h.symm, c⟩
  · intro id k hm
    simp only [emit, List.mem_cons] at hm ⊢
    rcases hm with hm | hm
    · exact absurd hm.symm (h3 id k)
    · rcases d id k hm with h | h
      · exact Or.inl (Or.inr h)
      · exact Or.inr h

theorem runInv_waitAllLoop (intr : Bool) : ∀ (l : List Bg) (s : SState), RunInv s →
    (∀ id k, Ev.started id k ∈ s.trace → Ev.waited id ∈ s.trace ∨ (∃ b ∈ l, b.id = id) ∨ False) →
    RunInv (waitAllLoop intr l s).state
  | [], s, hi, hb => by
    obtain ⟨a, b, c, d⟩ := hi
    refine ⟨a, b, c, ?_⟩
    intro id k hm
    rcases hb id k hm with h | ⟨b, hb, _⟩ | h
    · exact Or.inl h
    · cases hb
    · cases h
  | b :: rest, s, hi, hb => by
    unfold waitAllLoop
    split
    · exact hi
    · have hi1 : RunInv (emit s (.waited b.id)) := hi.emit_plain _ (by simp) (by simp) (by simp)
      simp only
      split
      · exact hi1
      · apply runInv_waitAllLoop intr rest _ hi1
        intro id k hm
        simp only [emit, List.mem_cons] at hm ⊢
        rcases hm with hm | hm
        · cases hm
        · rcases hb id k hm with h | ⟨b', hb', he⟩ | h
          · exact Or.inl (Or.inr h)
          · rcases List.mem_cons.1 hb' with h | h
            · subst h; exact Or.inl (Or.inl (by rw [he]))
            · exact Or.inr (Or.inl ⟨b', h, he⟩)
          · cases h

/-- in `waitAllLoop` the list passed is `s.bg` itself -/
theorem runInv_waitAll (intr : Bool) (s : SState) (hi : RunInv s) : RunInv (waitAllLoop intr s.bg s).state := by
  apply runInv_waitAllLoop intr s.bg s hi
  intro id k hm
  rcases hi.bgInv id k hm with h | h
  · exact Or.inl h
  · exact Or.inr (Or.inl h)

theorem runInv_interrupts (s : SState) (hi : RunInv s) (l : List Bg) :
    RunInv (l.foldl (fun (s : SState) (b : Bg) => emit s (.interrupted b.id)) s) ∧
    (l.foldl (fun (s : SState) (b : Bg) => emit s (.interrupted b.id)) s).bg = s.bg ∧
    (l.foldl (fun (s : SState) (b : Bg) => emit s (.interrupted b.id)) s).failed = s.failed := by
  induction l generalizing s with
  | nil => exact ⟨hi, rfl, rfl⟩
  | cons b rest ih =>
    simp only [List.foldl_cons]
    have h1 : RunInv (emit s (.interrupted b.id)) := hi.emit_plain _ (by simp) (by simp) (by simp)
    obtain ⟨a, b', c⟩ := ih (emit s (.interrupted b.id)) h1
    exact ⟨a, by rw [b']; rfl, by rw [c]; rfl⟩

theorem runInv_stepOp [FDefer] (cfg : Cfg) (s : SState) (op : Op) (hi : RunInv s) : RunInv (stepOp cfg s op).state := by
  cases op with
  | probe => exact hi.emit_plain _ (by simp) (by simp) (by simp)
  | cd rel =>
    simp only [stepOp, withPath]
    split
    · exact hi
    · split
      · exact hi.same rfl rfl rfl rfl
      · exact hi
  | cdWork => exact hi.same rfl rfl rfl rfl
  | env k v => exact hi.same rfl rfl rfl rfl
  | mkdir rel =>
    simp only [stepOp, withPath]
    split
    · exact hi
    · split
      · exact hi.same rfl rfl rfl rfl
      · exact hi
  | cp src dst =>
    simp only [stepOp, withPath]
    repeat' split
    all_goals first | exact hi | exact hi.same rfl rfl rfl rfl
  | rm rel =>
    simp only [stepOp, withPath]
    split
    · exact hi
    · split
      · exact hi
      · split
        · exact hi
        · exact hi.same rfl rfl rfl rfl
  | chmod rel =>
    simp only [stepOp, withPath]
    split
    · exact hi
    · split <;> exact hi
  | regDefer id ab =>
    obtain ⟨a, b, c, d⟩ := hi
    refine ⟨?_, b, c, d⟩
    simp only [stepOp, LineRes.state, call_link, List.reverse_append, List.reverse_cons,
      List.reverse_nil, List.nil_append, List.cons_append, a]
  | bg name kind neg =>
    simp only [stepOp]
    split
    · exact hi
    · obtain ⟨a, b, c, d⟩ := hi
      refine ⟨a, ?_, ?_, ?_⟩
      · simpa [LineRes.state, emit, defsOf] using b
      · simpa [LineRes.state, emit] using c
      · intro id k hm
        simp only [LineRes.state, emit, List.mem_cons, List.mem_append] at hm ⊢
        rcases hm with hm | hm
        · injection hm with h1 h2
          exact Or.inr ⟨_, Or.inr (Or.inl rfl), h1.symm⟩
        · rcases d id k hm with h | ⟨b', hb', he⟩
          · exact Or.inl (Or.inr h)
          · exact Or.inr ⟨b', Or.inl hb', he⟩
  | fg => exact hi.emit_plain _ (by simp) (by simp) (by simp)
  | waitAll => exact runInv_waitAll false s hi
  | waitOne name =>
    simp only [stepOp]
    split
    · exact hi
    · split
      · exact hi
      · rename_i b hb
        split
        · exact hi
        · have hi1 : RunInv (emit s (.waited b.id)) := hi.emit_plain _ (by simp) (by simp) (by simp)
          split
          · exact hi1
          · obtain ⟨a, b', c, d⟩ := hi1
            refine ⟨a, b', c, ?_⟩
            intro id k hm
            simp only [LineRes.state] at hm ⊢
            rcases d id k hm with h | ⟨x, hx, he⟩
            · exact Or.inl h
            · by_cases hxe : x.id = b.id
              · left
                simp only [emit, List.mem_cons]
                exact Or.inl (by rw [← he, hxe])
              · right
                refine ⟨x, ?_, he⟩
                exact List.mem_filter.2 ⟨hx, by simpa using hxe⟩
  | failLine => exact hi
  | skip =>
    simp only [stepOp]
    obtain ⟨h1, _, _⟩ := runInv_interrupts s hi s.bg
    have := runInv_waitAll true _ h1
    generalize waitAllLoop true (List.foldl (fun (s : SState) (b : Bg) => emit s (Ev.interrupted b.id)) s s.bg).bg
      (List.foldl (fun (s : SState) (b : Bg) => emit s (Ev.interrupted b.id)) s s.bg) = r at this
    cases r with
    | ok s' =>
      simp only [LineRes.state] at this ⊢
      by_cases hf : s'.failed = true <;> simp [hf] <;> exact this
    | _ => exact this
  | stop => exact hi

theorem runInv_loop [FDefer] (cfg : Cfg) : ∀ (ops : List Op) (s : SState), RunInv s → RunInv (loop cfg ops s).1
  | [], s, hi => hi
  | op :: rest, s, hi => by
    have h1 := runInv_stepOp cfg s op hi
    unfold loop
    generalize stepOp cfg s op = r at h1
    cases r with
    | ok s' =>
      simp only [LineRes.state] at h1 ⊢
      split
      · exact h1
      · exact runInv_loop cfg rest s' h1
    | fatal s' =>
      simp only [LineRes.state] at h1 ⊢
      have h2 : RunInv { s' with failed := true } := h1.same rfl rfl rfl rfl
      split
      · exact runInv_loop cfg rest _ h2
      · exact h2
    | skipped s' => exact h1
    | failNow s' => exact h1
    | hang s' => exact h1
    | escape s' => exact h1

/-! ### the end of the run: drain, deferred blocks -/

theorem fold_emit_trace (f : Bg → Ev) : ∀ (l : List Bg) (s : SState),
    (l.foldl (fun (s : SState) (b : Bg) => emit s (f b)) s).trace = (l.map f).reverse ++ s.trace ∧
    (l.foldl (fun (s : SState) (b : Bg) => emit s (f b)) s).bg = s.bg ∧
    (l.foldl (fun (s : SState) (b : Bg) => emit s (f b)) s).chain = s.chain ∧
    (l.foldl (fun (s : SState) (b : Bg) => emit s (f b)) s).registered = s.registered
  | [], s => by simp
  | b :: rest, s => by
    obtain ⟨a, b', c, d⟩ := fold_emit_trace f rest (emit s (f b))
    simp only [List.foldl_cons, a, b', c, d]
    simp [emit]

theorem drainAll_spec (s : SState) :
    (drainAll s).trace = (s.bg.map fun b => Ev.waited b.id).reverse ++ ((s.bg.map fun b => Ev.interrupted b.id).reverse ++ s.trace) ∧
    (drainAll s).bg = [] ∧ (drainAll s).chain = s.chain ∧ (drainAll s).registered = s.registered := by
  obtain ⟨a1, a2, a3, a4⟩ := fold_emit_trace (fun b => Ev.interrupted b.id) s.bg s
  obtain ⟨b1, b2, b3, b4⟩ := fold_emit_trace (fun b => Ev.waited b.id) s.bg
    (List.foldl (fun (s : SState) (b : Bg) => emit s (Ev.interrupted b.id)) s s.bg)
  simp only [drainAll, interruptAll, a2]
  exact ⟨by rw [b1, a1], by first | rfl | trivial, by rw [b3, a3], by rw [b4, a4]⟩

/-- every started command is waited for -/
def AllWaited (tr : List Ev) : Prop := ∀ id k, Ev.started id k ∈ tr → Ev.waited id ∈ tr

theorem drainAll_inv {s : SState} (hi : RunInv s) :
    RunInv (drainAll s) ∧ AllWaited (drainAll s).trace := by
  obtain ⟨t, hb, hc, hr⟩ := drainAll_spec s
  obtain ⟨a, b, c, d⟩ := hi
  refine ⟨⟨by rw [hc, hr]; exact a, ?_, ?_, ?_⟩, ?_⟩
  · rw [t]; simp only [defsOf, List.filterMap_append]
    have h1 : ∀ (l : List Bg), List.filterMap (fun e => match e with | Ev.deferred id => some id | _ => none)
        (l.map fun b => Ev.waited b.id).reverse = [] := by
      intro l; rw [List.filterMap_eq_nil_iff]; intro e he
      simp only [List.mem_reverse, List.mem_map] at he
      obtain ⟨b, _, rfl⟩ := he; rfl
    have h2 : ∀ (l : List Bg), List.filterMap (fun e => match e with | Ev.deferred id => some id | _ => none)
        (l.map fun b => Ev.interrupted b.id).reverse = [] := by
      intro l; rw [List.filterMap_eq_nil_iff]; intro e he
      simp only [List.mem_reverse, List.mem_map] at he
      obtain ⟨b, _, rfl⟩ := he; rfl
    rw [h1, h2]; exact b
  · rw [t]; simp [c]
  · intro id k hm
    rw [t] at hm ⊢
    simp only [List.mem_append, List.mem_reverse, List.mem_map] at hm ⊢
    rcases hm with ⟨_, _, h⟩ | ⟨_, _, h⟩ | hm
    · cases h
    · cases h
    · rcases d id k hm with h | ⟨x, hx, he⟩
      · exact Or.inl (Or.inr (Or.inr h))
      · exact Or.inl (Or.inl ⟨x, hx, by rw [he]⟩)
  · intro id k hm
    rw [t] at hm ⊢
    simp only [List.mem_append, List.mem_reverse, List.mem_map] at hm ⊢
    rcases hm with ⟨_, _, h⟩ | ⟨_, _, h⟩ | hm
    · cases h
    · cases h
    · rcases d id k hm with h | ⟨x, hx, he⟩
      · exact Or.inr (Or.inr h)
      · exact Or.inl ⟨x, hx, by rw [he]⟩

theorem defsOf_reverse (l : List Ev) : defsOf l.reverse = (defsOf l).reverse := by
  simp [defsOf, List.filterMap_reverse]

theorem fold_deferred_trace : ∀ (ids : List Nat) (s : SState),
    (ids.foldl (fun (s : SState) (id : Nat) => emit s (.deferred id)) s).trace = (ids.map Ev.deferred).reverse ++ s.trace ∧
    (ids.foldl (fun (s : SState) (id : Nat) => emit s (.deferred id)) s).bg = s.bg ∧
    (ids.foldl (fun (s : SState) (id : Nat) => emit s (.deferred id)) s).registered = s.registered
  | [], s => by simp
  | i :: rest, s => by
    obtain ⟨a, b, c⟩ := fold_deferred_trace rest (emit s (.deferred i))
    simp only [List.foldl_cons, a, b, c]
    simp [emit]

theorem defsOf_map_deferred (ids : List Nat) : defsOf (ids.map Ev.deferred) = ids := by
  induction ids with
  | nil => rfl
  | cons i rest ih => simp only [List.map_cons, defsOf, List.filterMap_cons] at ih ⊢; rw [ih]

/-- the three deferred blocks of `run` (newest first) from a state satisfying the invariant: the
deferred functions run in reverse registration order, then everything still in ts.background is
interrupted and waited for, then the log is flushed — the flush is the last event. -/
theorem final_blocks [FDefer] {s : SState} (hi : RunInv s) (pre : List String) (hpre : pre = [] ∨ pre = ["applyUpdates"]) :
    let s' := (pre ++ ["deferred", "bgflush"]).foldl runDefer s
    defsOf s'.trace.reverse = s.registered.reverse ∧ s'.registered = s.registered ∧
    ∃ body, s'.trace.reverse = body ++ [Ev.logFlush] ∧ Ev.logFlush ∉ body ∧ AllWaited body := by
  intro s'
  -- the optional first block only adds an event
  have h0 : ∃ s1, RunInv s1 ∧ s1.registered = s.registered ∧ s' = ["deferred", "bgflush"].foldl runDefer s1 := by
    rcases hpre with rfl | rfl
    · exact ⟨s, hi, rfl, rfl⟩
    · exact ⟨emit s .applyUpdates, hi.emit_plain _ (by simp) (by simp) (by simp), rfl, rfl⟩
  obtain ⟨s1, hi1, hr1, hs'⟩ := h0
  obtain ⟨ft, fb, fr⟩ := fold_deferred_trace s1.chain.call s1
  simp only [List.foldl_cons, List.foldl_nil, runDefer] at hs'
  generalize hs2 : (s1.chain.call.foldl (fun (s : SState) (id : Nat) => emit s (.deferred id)) s1) = s2 at hs' ft fb fr
  obtain ⟨dt, db, dc, dr⟩ := drainAll_spec s2
  have hs'' : s'.trace = Ev.logFlush :: (drainAll s2).trace := by rw [hs']; rfl
  have hreg : s'.registered = s.registered := by rw [hs']; simp only [bgFlush, emit]; rw [dr, fr, hr1]
  -- the body of the trace, oldest first
  have hbody : (drainAll s2).trace =
      (s2.bg.map fun b => Ev.waited b.id).reverse ++ ((s2.bg.map fun b => Ev.interrupted b.id).reverse ++
        ((s1.chain.call.map Ev.deferred).reverse ++ s1.trace)) := by rw [dt, ft]
  have hd1 : defsOf (s2.bg.map fun b => Ev.waited b.id).reverse = [] := by
    simp only [defsOf]; rw [List.filterMap_eq_nil_iff]; intro e he
    simp only [List.mem_reverse, List.mem_map] at he
    obtain ⟨b, _, rfl⟩ := he; rfl
  have hd2 : defsOf (s2.bg.map fun b => Ev.interrupted b.id).reverse = [] := by
    simp only [defsOf]; rw [List.filterMap_eq_nil_iff]; intro e he
    simp only [List.mem_reverse, List.mem_map] at he
    obtain ⟨b, _, rfl⟩ := he; rfl
  have happ : ∀ a b : List Ev, defsOf (a ++ b) = defsOf a ++ defsOf b := by
    intro a b; simp [defsOf, List.filterMap_append]
  refine ⟨?_, hreg, (drainAll s2).trace.reverse, by rw [hs'']; simp, ?_, ?_⟩
  · rw [hs'', defsOf_reverse]
    have : defsOf (Ev.logFlush :: (drainAll s2).trace) = defsOf (drainAll s2).trace := by simp [defsOf]
    rw [this, hbody, happ, happ, happ, hd1, hd2, hi1.nodef, defsOf_reverse, defsOf_map_deferred, hi1.chain, hr1]
    simp
  · rw [List.mem_reverse, hbody]
    simp [hi1.noflush]
  · -- RunInv of s2 (deferred calls are not starts), then drainAll
    intro id k hm
    rw [List.mem_reverse] at hm ⊢
    rw [hbody] at hm ⊢
    simp only [List.mem_append, List.mem_reverse, List.mem_map] at hm ⊢
    rcases hm with ⟨_, _, h⟩ | ⟨_, _, h⟩ | ⟨_, _, h⟩ | hm
    · cases h
    · cases h
    · cases h
    · rcases hi1.bgInv id k hm with h | ⟨x, hx, he⟩
      · exact Or.inr (Or.inr (Or.inr h))
      · rw [← fb] at hx
        exact Or.inl ⟨x, hx, by rw [he]⟩

theorem runInv_start (fs : FS) (env : EnvList) (ids : List Nat) [FDefer] :
    RunInv ⟨[], env, fs, [], 0, ids.foldl (fun c id => Chain.link id .none c) Chain.nop, ids, [], false⟩ := by
  refine ⟨?_, rfl, by simp, by simp⟩
  simp only
  -- the chain built by Setup's Defer calls
  have : ∀ (l : List Nat) (c : Chain) (done : List Nat), c.call = done.reverse →
      (l.foldl (fun c id => Chain.link id .none c) c).call = (done ++ l).reverse := by
    intro l
    induction l with
    | nil => intro c done h; simpa using h
    | cons i rest ih =>
      intro c done h
      simp only [List.foldl_cons]
      have := ih (Chain.link i .none c) (done ++ [i]) (by simp [call_link, h])
      simpa using this
  simpa using this ids Chain.nop [] rfl

/-- every script, every exit path: the deferred functions are called in reverse registration
order; the trace ends with the log flush, which happens once, and before it every background
command that was started has been waited for. -/
theorem runScript_spec [FDefer] [F : FRun] (cfg : Cfg) (files : List Entry) (ops : List Op) :
    defsOf (runScript cfg files ops).trace = (runScript cfg files ops).registered.reverse ∧
    ∃ body, (runScript cfg files ops).trace = body ++ [Ev.logFlush] ∧ Ev.logFlush ∉ body ∧ AllWaited body := by
  have hp0 : pendingDefers false = [] ++ ["deferred", "bgflush"] := by simp [pendingDefers, F.defers]
  have hp1 : pendingDefers true = ["applyUpdates"] ++ ["deferred", "bgflush"] := by simp [pendingDefers, F.defers]
  unfold runScript
  simp only
  generalize hu : unpackFrom cfg.uniqueNames fs0 files = u
  obtain ⟨fs, err⟩ := u
  cases err with
  | some e =>
    simp only
    have hi := runInv_start fs [] []
    simp only [List.foldl_nil] at hi
    rw [hp0]
    obtain ⟨a, b, body, c, d, e'⟩ := final_blocks hi [] (Or.inl rfl)
    exact ⟨by rw [a, b], body, c, d, e'⟩
  | none =>
    simp only
    have hi1 := runInv_start fs (initialEnv cfg.host (workdirOf cfg.root cfg.name) cfg.setupEnv) cfg.setupDefers
    generalize hs1 : (⟨[], initialEnv cfg.host (workdirOf cfg.root cfg.name) cfg.setupEnv, fs, [], 0,
      cfg.setupDefers.foldl (fun c id => Chain.link id .none c) Chain.nop, cfg.setupDefers, [], false⟩ : SState) = s1 at hi1
    have hi2 := runInv_loop cfg ops s1 hi1
    generalize hl : loop cfg ops s1 = r at hi2
    obtain ⟨s2, ex, st⟩ := r
    simp only at hi2 ⊢
    rw [hp1]
    cases ex with
    | returned =>
      simp only
      obtain ⟨a, b, body, c, d, e'⟩ := final_blocks (drainAll_inv hi2).1 ["applyUpdates"] (Or.inr rfl)
      exact ⟨by rw [a, b], body, c, d, e'⟩
    | failNow =>
      simp only
      obtain ⟨a, b, body, c, d, e'⟩ := final_blocks hi2 ["applyUpdates"] (Or.inr rfl)
      exact ⟨by rw [a, b], body, c, d, e'⟩
    | skipNow =>
      simp only
      obtain ⟨a, b, body, c, d, e'⟩ := final_blocks hi2 ["applyUpdates"] (Or.inr rfl)
      exact ⟨by rw [a, b], body, c, d, e'⟩
    | hang =>
      simp only
      obtain ⟨a, b, body, c, d, e'⟩ := final_blocks hi2 ["applyUpdates"] (Or.inr rfl)
      exact ⟨by rw [a, b], body, c, d, e'⟩
    | escape =>
      simp only
      obtain ⟨a, b, body, c, d, e'⟩ := final_blocks hi2 ["applyUpdates"] (Or.inr rfl)
      exact ⟨by rw [a, b], body, c, d, e'⟩

end GIV.TsLife
