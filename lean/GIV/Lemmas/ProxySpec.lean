/-
  Specification vocabulary of property C20 (URL of a request, "stored", "dot file", the par.Cache
  assumption `ValidWho`) and the helper lemmas of GIV.Props.C20 that are not themselves property
  statements.
-/
import GIV.Lemmas.ProxyRoute
namespace GIV.Proxy
open GIV

/-- the URL path of a proxy request: `/mod/<escaped path>/@v/<file>` -/
def url (ep file : Bytes) : Bytes := lit "/mod/" ++ ep ++ lit "/@v/" ++ file

theorem url_eq (ep file : Bytes) : url ep file = [47, 109, 111, 100, 47] ++ ep ++ [47, 64, 118, 47] ++ file := by
  have h1 : lit "/mod/" = [47, 109, 111, 100, 47] := by decide +kernel
  have h2 : lit "/@v/" = [47, 64, 118, 47] := by decide +kernel
  simp [url, h1, h2]

/-- "(p, v) is stored": `readModList` recorded it. `modList_exact` says what that means for the directory. -/
abbrev Stored (ml : List ModVer) (p v : Bytes) : Prop := (⟨p, v⟩ : ModVer) ∈ ml

/-- a file name "starts with a dot" -/
def DotFile (name : Bytes) : Prop := name.head? = some 46

instance (name : Bytes) : Decidable (DotFile name) := by unfold DotFile; infer_instance


/-- **the zipCache assumption.** `zipCache.Do(a, f)` is `par.Cache.Do`: it returns the value computed by
the closure of *some* call with the same key (C10 `f_once`, `do_returns_value`), whichever call wins
under the schedule at hand.  A call reaches `zipCache.Do` only after the membership test, with the
archive loaded for its own `(path, vers)`; archives (keys) correspond one-to-one to archive names
(`archiveCache` returns one pointer per name).  Hence: if the cached zip of archive `name` was built by
the closure of a call for `p'@v'`, then `p'@v'` is recorded and `name` is its archive name. -/
def ValidWho (ml : List ModVer) (who : Bytes → Option (Bytes × Bytes)) : Prop :=
  ∀ name p' v', who name = some (p', v') → Stored ml p' v' ∧ archiveBase p' v' = some name

theorem validWho_none (ml : List ModVer) : ValidWho ml (fun _ => none) := by
  intro _ _ _ h; cases h


theorem hasPrefix_dot (name : Bytes) : hasPrefix Gen.Proxy.zipSkipPrefix name = decide (DotFile name) := by
  have h : Gen.Proxy.zipSkipPrefix = [46] := rfl
  rw [h]
  unfold hasPrefix DotFile
  cases name with
  | nil => simp [List.isPrefixOf]
  | cons c rest =>
    by_cases hc : c = 46
    · simp [List.isPrefixOf, hc]
    · have : ¬ ((46 : UInt8) = c) := fun h' => hc h'.symm
      simp [List.isPrefixOf, hc, this]


/-- the versions printed by the list endpoint -/
theorem mem_listVersions (ml : List ModVer) (p v : Bytes) :
    v ∈ listVersions ml p ↔ Stored ml p v ∧ isPseudo v = false ∧ check p v = true := by
  have h1 : Gen.Proxy.listMatchesPath = true := rfl
  have h2 : Gen.Proxy.listExcludesPseudo = true := rfl
  have h3 : Gen.Proxy.listRequiresCheck = true := rfl
  unfold listVersions
  simp only [h1, h2, h3, Bool.not_true, Bool.false_or, List.mem_map, List.mem_filter, Bool.and_eq_true,
    decide_eq_true_eq, Bool.not_eq_true']
  constructor
  · rintro ⟨m, ⟨hm, ⟨hp, hps⟩, hck⟩, rfl⟩
    obtain ⟨mp, mv⟩ := m
    simp only at hp hps hck ⊢
    subst hp
    exact ⟨hm, hps, hck⟩
  · rintro ⟨hm, hps, hck⟩
    exact ⟨⟨p, v⟩, ⟨hm, ⟨rfl, hps⟩, hck⟩, rfl⟩


theorem hashStep_cases (x : Ext) (st : Store) (p v0 best : Bytes) (m : ModVer) :
    hashStep x st p v0 best m = best ∨ (hashStep x st p v0 best m = m.version ∧ m.path = p) := by
  unfold hashStep
  by_cases hc : (m.path = p && semverCompare best m.version < 0) = true
  · simp only [hc, if_true]
    generalize (if isPseudo m.version = true then afterLastDash m.version else findHash x st m) = hash
    by_cases hh : (hasPrefix v0 hash || hasPrefix hash v0) = true
    · right
      simp only [Bool.and_eq_true, decide_eq_true_eq] at hc
      simp only [hh, if_true]
      exact ⟨trivial, hc.1⟩
    · left
      simp only [hh, Bool.false_eq_true, if_false]
  · left
    simp only [hc, Bool.false_eq_true, if_false]


theorem serveFile_cache_independent (x : Ext) {st : Store} {ml : List ModVer} {who : Bytes → Option (Bytes × Bytes)}
    (hml : readModList st = some ml) (hns : NoSlash st) (hwho : ValidWho ml who) (p v0 ext : Bytes) :
    serveFile x ml st who p v0 ext = serveFile x ml st (fun _ => none) p v0 ext := by
  unfold serveFile
  have hck : Gen.Proxy.handlerChecksModList = true := rfl
  have hk : Gen.Proxy.zipKeyIsArchive = true := rfl
  by_cases hc : ml.contains (⟨p, resolve x st ml p v0⟩ : ModVer) = true
  · have hm : Stored ml p (resolve x st ml p v0) := List.contains_iff_mem.mp hc
    simp only [hck, hc, hk, Bool.not_true, Bool.and_false, Bool.false_eq_true, if_false, if_true]
    cases hb : archiveBase p (resolve x st ml p v0) with
    | none => rfl
    | some name =>
      simp only
      cases hw : who name with
      | none => rfl
      | some pv =>
        obtain ⟨p', v'⟩ := pv
        obtain ⟨hs', hb'⟩ := hwho name p' v' hw
        have := modVer_of_base_unique hml hns hs' hm hb' hb
        simp only [ModVer.mk.injEq] at this
        obtain ⟨rfl, rfl⟩ := this
        rfl
  · have hc' : ml.contains (⟨p, resolve x st ml p v0⟩ : ModVer) = false := by simpa using hc
    simp only [hck, hc', Bool.not_false, Bool.and_self, if_true]


/-- what a request leaves in the zip cache satisfies the cache assumption -/
theorem zipKeyOf_valid {x : Ext} {ml : List ModVer} {st : Store} {u name p v : Bytes}
    (h : zipKeyOf x ml st u = some (name, (p, v))) : Stored ml p v ∧ archiveBase p v = some name := by
  unfold zipKeyOf at h
  have hck : Gen.Proxy.handlerChecksModList = true := rfl
  cases hr : route u with
  | none => simp [hr] at h
  | some ef =>
    obtain ⟨enc, file⟩ := ef
    simp only [hr] at h
    cases hp : unescapePath enc with
    | none => simp [hp] at h
    | some p0 =>
      simp only [hp] at h
      by_cases hl : file = Gen.Proxy.listName
      · simp [hl] at h
      · simp only [hl, if_false] at h
        cases hs : splitExt file with
        | none => simp [hs] at h
        | some ee =>
          obtain ⟨encV, ext⟩ := ee
          simp only [hs] at h
          cases hv : unescapeVersion encV with
          | none => simp [hv] at h
          | some v0 =>
            simp only [hv] at h
            by_cases hc : ml.contains (⟨p0, resolve x st ml p0 v0⟩ : ModVer) = true
            · simp only [hck, hc, Bool.not_true, Bool.and_false, Bool.false_eq_true, if_false] at h
              split at h
              · cases h
              · cases hb : archiveBase p0 (resolve x st ml p0 v0) with
                | none => simp [hb] at h
                | some nm =>
                  simp only [hb, Option.map_eq_some_iff, Prod.mk.injEq] at h
                  obtain ⟨_, _, rfl, rfl, rfl⟩ := h
                  exact ⟨List.contains_iff_mem.mp hc, hb⟩
            · have hc' : ml.contains (⟨p0, resolve x st ml p0 v0⟩ : ModVer) = false := by simpa using hc
              simp only [hck, hc', Bool.not_false, Bool.and_self, if_true] at h
              cases h


end GIV.Proxy
