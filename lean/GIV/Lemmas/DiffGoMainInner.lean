/-
  GIV.Lemmas.DiffGoMainInner — the inner loops of the Go→Lean translation of `Diff` (GIV.Gen.DiffMainGo) in closed
  form: the two match-expanding loops are the model's `expandStart` / `expandEnd` (their budgets suffice), the five
  `for _, s := range x[a:b] { ctext = append(ctext, tag+s); count.x++ … }` loops append the tagged lines and count
  them, the printing loop appends the lines to the buffer.
-/
import GIV.Lemmas.DiffGoBase
import GIV.Gen.DiffMainGo

namespace GIV.Go.Diff
open GIV GIV.GoLib GIV.Diff

/-- the lines of a chunk as Go builds them: `"-"+s` is the tag byte in front of the line -/
def tagLines (t : UInt8) (l : List Bytes) : List Bytes := l.map (fun s => [t] ++ s)

theorem tagLines_nil (t : UInt8) : tagLines t [] = [] := rfl
theorem tagLines_cons (t : UInt8) (s : Bytes) (l : List Bytes) : tagLines t (s :: l) = ([t] ++ s) :: tagLines t l := rfl
@[simp] theorem tagLines_length (t : UInt8) (l : List Bytes) : (tagLines t l).length = l.length := by simp [tagLines]

section
variable (n1 a n2 b : Bytes) (x y : List Bytes) (out : Bytes) (done chunk m start end_ : GoPair) (C n : Int)

/-- `for _, s := range x[done.x:start.x] { ctext = append(ctext, "-"+s); count.x++ }` -/
theorem Diff_loop4_eq (l : List Bytes) : ∀ (count : GoPair) (ctext : List Bytes),
    Diff_loop4 n1 a n2 b x y out done chunk m start end_ l count ctext =
      some ({ x := count.x + l.length, y := count.y }, ctext ++ tagLines 45 l) := by
  induction l with
  | nil => intro count ctext; simp [Diff_loop4, tagLines]
  | cons s l ih =>
    intro count ctext
    simp only [Diff_loop4, ih, tagLines_cons, List.length_cons, Option.some.injEq, Prod.mk.injEq, GoPair.mk.injEq,
      List.append_assoc, List.singleton_append, and_true]
    first | (push_cast; omega) | exact ⟨by push_cast; omega, by push_cast; omega⟩

/-- `for _, s := range y[done.y:start.y] { ctext = append(ctext, "+"+s); count.y++ }` -/
theorem Diff_loop5_eq (l : List Bytes) : ∀ (count : GoPair) (ctext : List Bytes),
    Diff_loop5 n1 a n2 b x y out done chunk m start end_ l count ctext =
      some ({ x := count.x, y := count.y + l.length }, ctext ++ tagLines 43 l) := by
  induction l with
  | nil => intro count ctext; simp [Diff_loop5, tagLines]
  | cons s l ih =>
    intro count ctext
    simp only [Diff_loop5, ih, tagLines_cons, List.length_cons, Option.some.injEq, Prod.mk.injEq, GoPair.mk.injEq,
      List.append_assoc, List.singleton_append, and_true, true_and]
    push_cast; omega

/-- `for _, s := range x[start.x:end.x] { ctext = append(ctext, " "+s); count.x++; count.y++ }` -/
theorem Diff_loop6_eq (l : List Bytes) : ∀ (count : GoPair) (ctext : List Bytes),
    Diff_loop6 n1 a n2 b x y out done chunk m start end_ C l count ctext =
      some ({ x := count.x + l.length, y := count.y + l.length }, ctext ++ tagLines 32 l) := by
  induction l with
  | nil => intro count ctext; simp [Diff_loop6, tagLines]
  | cons s l ih =>
    intro count ctext
    simp only [Diff_loop6, ih, tagLines_cons, List.length_cons, Option.some.injEq, Prod.mk.injEq, GoPair.mk.injEq,
      List.append_assoc, List.singleton_append, and_true]
    first | (push_cast; omega) | exact ⟨by push_cast; omega, by push_cast; omega⟩

/-- `for _, s := range x[start.x : start.x+n] { … " "+s … }` -/
theorem Diff_loop7_eq (l : List Bytes) : ∀ (count : GoPair) (ctext : List Bytes),
    Diff_loop7 n1 a n2 b x y out done chunk m start end_ C n l count ctext =
      some ({ x := count.x + l.length, y := count.y + l.length }, ctext ++ tagLines 32 l) := by
  induction l with
  | nil => intro count ctext; simp [Diff_loop7, tagLines]
  | cons s l ih =>
    intro count ctext
    simp only [Diff_loop7, ih, tagLines_cons, List.length_cons, Option.some.injEq, Prod.mk.injEq, GoPair.mk.injEq,
      List.append_assoc, List.singleton_append, and_true]
    first | (push_cast; omega) | exact ⟨by push_cast; omega, by push_cast; omega⟩

/-- `for _, s := range x[chunk.x:end.x] { … " "+s … }` -/
theorem Diff_loop9_eq (l : List Bytes) : ∀ (count : GoPair) (ctext : List Bytes),
    Diff_loop9 n1 a n2 b x y out done chunk m start end_ C l count ctext =
      some ({ x := count.x + l.length, y := count.y + l.length }, ctext ++ tagLines 32 l) := by
  induction l with
  | nil => intro count ctext; simp [Diff_loop9, tagLines]
  | cons s l ih =>
    intro count ctext
    simp only [Diff_loop9, ih, tagLines_cons, List.length_cons, Option.some.injEq, Prod.mk.injEq, GoPair.mk.injEq,
      List.append_assoc, List.singleton_append, and_true]
    first | (push_cast; omega) | exact ⟨by push_cast; omega, by push_cast; omega⟩

/-- `for _, s := range ctext { out.WriteString(s) }` -/
theorem Diff_loop8_eq (count : GoPair) (ctext : List Bytes) (l : List Bytes) : ∀ (out : Bytes),
    Diff_loop8 n1 a n2 b x y done chunk count ctext m start end_ C n l out = some (out ++ l.flatten) := by
  induction l with
  | nil => intro out; simp [Diff_loop8]
  | cons s l ih => intro out; simp [Diff_loop8, ih]

end

/-! ### the two expanding loops -/

theorem lcp_le_left {α : Type} [DecidableEq α] : ∀ (l1 l2 : List α), lcp l1 l2 ≤ l1.length
  | [], _ => by simp [lcp]
  | _ :: _, [] => by simp [lcp]
  | a :: as, b :: bs => by
    simp only [lcp, List.length_cons]
    split
    · have := lcp_le_left as bs; omega
    · omega

section
variable (n1 a n2 b : Bytes) (x y : List Bytes) (out : Bytes) (chunk count m start : GoPair) (ctext : List Bytes)

/-- `for start.x > done.x && start.y > done.y && x[start.x-1] == y[start.y-1] { start.x--; start.y-- }`:
the model's `expandStart`, for every budget above `start.x`. -/
theorem Diff_loop2_eq (dx dy : Nat) : ∀ (fuel sx sy : Nat), sx + 1 ≤ fuel →
    Diff_loop2 n1 a n2 b x y out (ofPair (dx, dy)) chunk count ctext m fuel (ofPair (sx, sy)) =
      (expandStart x y dx dy sx sy).map ofPair := by
  intro fuel
  induction fuel with
  | zero => intro sx sy h; omega
  | succ fuel ih =>
    intro sx sy hf
    match sx, sy with
    | 0, sy =>
      have : ¬ ((0 : Int) > (dx : Int)) := by omega
      simp [Diff_loop2, expandStart, ofPair, this]
    | sx + 1, 0 =>
      have : ¬ ((0 : Int) > (dy : Int)) := by omega
      simp [Diff_loop2, expandStart, ofPair, this]
    | sx + 1, sy + 1 =>
      have e1 : ((sx + 1 : Nat) : Int) - 1 = (sx : Int) := by omega
      have e2 : ((sy + 1 : Nat) : Int) - 1 = (sy : Int) := by omega
      simp only [Diff_loop2, expandStart, ofPair_x, ofPair_y, e1, e2, idx_nat, Bool.and_eq_true, decide_eq_true_eq, gt_iff_lt]
      by_cases hc : dx < sx + 1 ∧ dy < sy + 1
      · have hc' : (dx : Int) < ((sx + 1 : Nat) : Int) ∧ (dy : Int) < ((sy + 1 : Nat) : Int) := by omega
        rw [if_pos hc, if_pos hc']
        cases hx : x[sx]? with
        | none => simp
        | some u =>
          cases hy : y[sy]? with
          | none => simp
          | some v =>
            by_cases huv : u = v
            · have := ih sx sy (by omega)
              simp only [ofPair] at this
              simp [huv, ofPair, this]
            · simp [huv, ofPair]
      · have hc' : ¬ ((dx : Int) < ((sx + 1 : Nat) : Int) ∧ (dy : Int) < ((sy + 1 : Nat) : Int)) := by omega
        rw [if_neg hc, if_neg hc']
        simp [ofPair]

/-- `for end.x < len(x) && end.y < len(y) && x[end.x] == y[end.y] { end.x++; end.y++ }`: the common prefix of
`x[end.x:]` and `y[end.y:]` is skipped, for every budget above its length. -/
theorem Diff_loop3_eq (done : GoPair) : ∀ (fuel ex ey : Nat), lcp (x.drop ex) (y.drop ey) + 1 ≤ fuel →
    Diff_loop3 n1 a n2 b x y out done chunk count ctext m start fuel (ofPair (ex, ey)) =
      some (ofPair (ex + lcp (x.drop ex) (y.drop ey), ey + lcp (x.drop ex) (y.drop ey))) := by
  intro fuel
  induction fuel with
  | zero => intro ex ey h; omega
  | succ fuel ih =>
    intro ex ey hf
    simp only [Diff_loop3, ofPair_x, ofPair_y, idx_nat, GoLib.len]
    by_cases hc : ex < x.length ∧ ey < y.length
    · have hc' : (ex : Int) < (x.length : Int) ∧ (ey : Int) < (y.length : Int) := by omega
      simp only [hc'.1, hc'.2, decide_true, Bool.and_self, if_true]
      have hx : x[ex]? = some x[ex] := List.getElem?_eq_getElem hc.1
      have hy : y[ey]? = some y[ey] := List.getElem?_eq_getElem hc.2
      have dx : x.drop ex = x[ex] :: x.drop (ex + 1) := List.drop_eq_getElem_cons hc.1
      have dy : y.drop ey = y[ey] :: y.drop (ey + 1) := List.drop_eq_getElem_cons hc.2
      rw [dx, dy] at hf ⊢
      simp only [lcp] at hf ⊢
      by_cases huv : x[ex] = y[ey]
      · rw [if_pos huv] at hf ⊢
        have := ih (ex + 1) (ey + 1) (by omega)
        simp only [ofPair] at this
        simp only [hx, hy, huv, Option.bind_eq_bind, Option.bind_some, Option.pure_def, beq_self_eq_true, Bool.not_true,
          Bool.false_eq_true, if_false, ofPair]
        have e1 : ((ex : Int) + 1) = ((ex + 1 : Nat) : Int) := by omega
        have e2 : ((ey : Int) + 1) = ((ey + 1 : Nat) : Int) := by omega
        rw [e1, e2, this]
        simp only [Option.some.injEq, GoPair.mk.injEq]
        omega
      · rw [if_neg huv]
        simp [hx, hy, huv, ofPair]
    · have hl : lcp (x.drop ex) (y.drop ey) = 0 := by
        by_cases h1 : ex < x.length
        · have h2 : y.length ≤ ey := by omega
          rw [List.drop_eq_nil_of_le h2]
          cases x.drop ex <;> simp [lcp]
        · have h1' : x.length ≤ ex := by omega
          rw [List.drop_eq_nil_of_le h1']
          simp [lcp]
      rw [hl]
      simp [ofPair, hc]

/-- with the budget the translation passes (`x.length + 1`): the model's `expandEnd` -/
theorem Diff_loop3_expandEnd (done : GoPair) (p : Nat × Nat) :
    Diff_loop3 n1 a n2 b x y out done chunk count ctext m start (x.length + 1) (ofPair p) =
      some (ofPair (expandEnd x y p)) := by
  have h1 := lcp_le_left (x.drop p.1) (y.drop p.2)
  have h2 : (x.drop p.1).length ≤ x.length := by simp
  exact Diff_loop3_eq n1 a n2 b x y out chunk count m start ctext done (x.length + 1) p.1 p.2 (by omega)

end

end GIV.Go.Diff
