/-
  The literal fragment of RE2 syntax and regexp.QuoteMeta.

  A pattern of the literal fragment is a sequence of items, each either a byte that is not a
  regexp metacharacter (it matches itself) or a backslash followed by a metacharacter (it matches
  that metacharacter); the pattern matches the concatenation.  `LitMatch p w` is this semantics.
  Multi-byte UTF-8 sequences are sequences of non-meta bytes, so for valid UTF-8 this coincides with
  the rune-level reading of the engine.
-/
import GIV.Model.ScriptParse
namespace GIV.Script
open GIV

/-- `LitMatch p w`: the literal pattern `p` matches exactly the byte string `w`. -/
inductive LitMatch : Bytes → Bytes → Prop
  | nil : LitMatch [] []
  | plain (c : UInt8) (p w : Bytes) : special c = false → LitMatch p w → LitMatch (c :: p) (c :: w)
  | esc (m : UInt8) (p w : Bytes) : special m = true → LitMatch p w → LitMatch (BACKSLASH :: m :: p) (m :: w)

/-- The language of a literal pattern. -/
def litLang (p : Bytes) : Bytes → Prop := LitMatch p

theorem special_backslash : special BACKSLASH = true := by decide

theorem quoteMeta_cons (c : UInt8) (v : Bytes) :
    quoteMeta (c :: v) = (if special c then [BACKSLASH, c] else [c]) ++ quoteMeta v := by
  simp [quoteMeta]

theorem litMatch_quoteMeta (v : Bytes) : LitMatch (quoteMeta v) v := by
  induction v with
  | nil => exact .nil
  | cons c v ih =>
    rw [quoteMeta_cons]
    by_cases h : special c = true
    · simpa [h] using LitMatch.esc c _ _ h ih
    · have h' : special c = false := by simpa using h
      simpa [h'] using LitMatch.plain c _ _ h' ih

theorem litMatch_cons_inv {c : UInt8} {p w : Bytes} (h : LitMatch (c :: p) w) :
    (special c = false ∧ ∃ w', w = c :: w' ∧ LitMatch p w') ∨
    (c = BACKSLASH ∧ ∃ m p' w', p = m :: p' ∧ special m = true ∧ w = m :: w' ∧ LitMatch p' w') := by
  cases h with
  | plain _ _ w' hns hm => exact Or.inl ⟨hns, w', rfl, hm⟩
  | esc m p' w' hms hm => exact Or.inr ⟨rfl, m, p', w', rfl, hms, rfl, hm⟩

theorem litMatch_quoteMeta_only (v : Bytes) : ∀ w, LitMatch (quoteMeta v) w → w = v := by
  induction v with
  | nil =>
    intro w h
    have : quoteMeta [] = [] := rfl
    rw [this] at h
    cases h
    rfl
  | cons c v ih =>
    intro w h
    rw [quoteMeta_cons] at h
    by_cases hs : special c = true
    · simp only [hs, if_true, List.cons_append, List.nil_append] at h
      rcases litMatch_cons_inv h with ⟨hns, _⟩ | ⟨_, m, p', w', hp, _, hw, hm⟩
      · rw [special_backslash] at hns; exact absurd hns (by simp)
      · have hmc : c = m ∧ quoteMeta v = p' := by simpa using hp
        rw [hw, ← hmc.1, ih w' (hmc.2 ▸ hm)]
    · have hs' : special c = false := by simpa using hs
      simp only [hs'] at h
      rcases litMatch_cons_inv h with ⟨_, w', hw, hm⟩ | ⟨hc, _⟩
      · rw [hw, ih w' hm]
      · rw [hc, special_backslash] at hs'; exact absurd hs' (by simp)

end GIV.Script
