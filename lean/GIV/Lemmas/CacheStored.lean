/-
  GIV.Lemmas.CacheStored — "id ↦ data is stored intact" (`Stored`) and what the lookups return on such an
  entry.  This is where the index codec (GIV.Lemmas.CacheParse: `parse_fmt`) meets the file-system lemmas;
  C13's theorems do not depend on it (only its Get-based non-vacuity examples do).  Core Lean only.
-/
import GIV.Lemmas.CacheOps
import GIV.Lemmas.CacheParse
import GIV.Lemmas.CacheWitness

namespace GIV.Cache
open GIV

/-! ### an intact entry -/

/-- id ↦ data is stored intact: the index file holds a well-formed entry for `(H data, len data)` and the data
file named by `H data` holds `data`. -/
def Stored (H : Bytes → Hash) (fs : FS) (id : Hash) (data : Bytes) : Prop :=
  (∃ t : Int, 0 ≤ t ∧ t < 2 ^ 63 ∧ dataOf fs (fileName id keyA) = some (fmtEntry id (H data) data.length t)) ∧
  dataOf fs (fileName (H data) keyD) = some data ∧ (data.length : Int) < 2 ^ 63

theorem Stored.of_sameData {H : Bytes → Hash} {fs fs' : FS} {id : Hash} {data : Bytes}
    (h : Stored H fs id data) (hs : SameData fs fs') : Stored H fs' id data := by
  obtain ⟨⟨t, h0, h1, hi⟩, hd, hl⟩ := h
  exact ⟨⟨t, h0, h1, by rw [hs]; exact hi⟩, by rw [hs]; exact hd, hl⟩

theorem Stored.toP {H : Bytes → Hash} {fs : FS} {id : Hash} {data : Bytes} (h : Stored H fs id data) : StoredP H fs id data := by
  obtain ⟨⟨t, h0, h1, hi⟩, hd, hl⟩ := h
  exact ⟨⟨_, t, hi, parse_fmt id (H data) data.length t (by omega) hl h0 h1⟩, hd⟩

theorem Stored.get {H : Bytes → Hash} {fs : FS} {id : Hash} {data : Bytes} (h : Stored H fs id data) (now : Int) :
    ∃ t, (get fs now id).1 = .ok ⟨H data, data.length, t⟩ := h.toP.get now

theorem Stored.getBytes {H : Bytes → Hash} {fs : FS} {id : Hash} {data : Bytes} (h : Stored H fs id data) (now : Int) :
    ∃ t, (getBytes H fs now id).1 = .ok (data, ⟨H data, data.length, t⟩) := h.toP.getBytes now

theorem Stored.getFile {H : Bytes → Hash} {fs : FS} {id : Hash} {data : Bytes} (h : Stored H fs id data) (now : Int) :
    ∃ t, (getFile fs now id).1 = .ok (fileName (H data) keyD, ⟨H data, data.length, t⟩) := h.toP.getFile now

theorem exFS_stored : Stored toyH exFS id1 [65] := by
  refine ⟨⟨7, by decide, by decide, ?_⟩, ?_, by decide⟩
  · simp [exFS, dataOf, FS.get_set, fileName_a_ne_d]
  · simp [exFS, dataOf, FS.get_set]

end GIV.Cache
