/-
  GIV.Lemmas.OsExpandGo — the Lean translation of the STANDARD LIBRARY's os.Expand and its helpers
  (GIV.Gen.OsExpandGo, regenerated on every run by harness/internal/go2lean from GOROOT/src/os/env.go of
  the toolchain the harness is built with) computes the index-form model of GIV.Model.ScriptParse
  (`osExpandIdx`, `getShellNameIdx`), which GIV.Lemmas.ScriptExpandIdx proves equal to the structural
  `osExpand` of the C02 theorems — for every string and every mapping function.

    isShellSpecialVar_eq, isAlphaNum_eq   the two byte classes
    getShellName_eq                        both scanning loops (budgets suffice, no index or slice fails;
                                           on the empty string the translation panics like Go: `s[0]`)
    Expand_loop_eq, Expand_eq_idx, Expand_eq   the loop of Expand with its `i`, `j`, `buf`: `buf` is nil
                                           (`none`) exactly as long as no '$' with a successor was seen, and then
                                           `i = 0`, which is why `return s` agrees with `string(buf) + s[i:]`
-/
import GIV.Gen.OsExpandGo
import GIV.Lemmas.ScriptExpandIdx
namespace GIV.OsExpandGo
open GIV GIV.GoLib GIV.Script

/-! ### Go's built-ins on natural-number indices -/

theorem idx_nat (s : Bytes) (i : Nat) : GoLib.idx? s (i : Int) = s[i]? := by
  unfold GoLib.idx?; simp

theorem slice_nat (s : Bytes) (a b : Nat) (h1 : a ≤ b) (h2 : b ≤ s.length) :
    GoLib.slice? s (a : Int) (b : Int) = some (sliceB s a b) := by
  unfold GoLib.slice? sliceB
  rw [if_pos (by omega)]
  simp only [Int.toNat_natCast, Option.some.injEq]
  rw [List.take_drop]
  congr 2
  omega

theorem slice_to_end (s : Bytes) (a : Nat) (h : a ≤ s.length) :
    GoLib.slice? s (a : Int) (GoLib.len s) = some (s.drop a) := by
  have := slice_nat s a s.length h (Nat.le_refl _)
  unfold GoLib.len
  rw [this, sliceB, List.take_of_length_le (by simp)]

theorem lt_of_some {s : Bytes} {i : Nat} {c : UInt8} (hi : s[i]? = some c) : i < s.length :=
  (List.getElem?_eq_some_iff.1 hi).1

/-! ### the byte classes -/

theorem isShellSpecialVar_eq (c : UInt8) :
    GIV.Go.Os.isShellSpecialVar c = some (isShellSpecialVar c) := by
  unfold GIV.Go.Os.isShellSpecialVar isShellSpecialVar Gen.Script.shellSpecialVars
  simp only [List.contains_cons, List.contains_nil, Bool.or_false]
  by_cases h : (c == 42 || (c == 35 || (c == 36 || (c == 64 || (c == 33 || (c == 63 || (c == 45 || (c == 48 ||
      (c == 49 || (c == 50 || (c == 51 || (c == 52 || (c == 53 || (c == 54 || (c == 55 || (c == 56 || c == 57)))))))))))))))) = true
  · have h' := h
    simp only [← Bool.or_assoc] at h'
    simp [h, h']
  · have h' := h
    simp only [← Bool.or_assoc] at h'
    simp [h, h']

theorem isAlphaNum_eq (c : UInt8) : GIV.Go.Os.isAlphaNum c = some (isAlphaNum c) := by
  unfold GIV.Go.Os.isAlphaNum isAlphaNum
  simp [Gen.Script.alphaNumIsIdentChars]

/-! ### getShellName -/

/-- the model counts in `Nat`, the translation in Go's `int`. -/
abbrev toInt (p : Bytes × Nat) : Bytes × Int := (p.1, (p.2 : Int))

theorem cast_succ (i : Nat) : (i : Int) + 1 = ((i + 1 : Nat) : Int) := by omega

theorem not_lt_len {s : Bytes} {i : Nat} (hi : s[i]? = none) : ¬ ((i : Int) < GoLib.len s) := by
  have := List.getElem?_eq_none_iff.1 hi
  unfold GoLib.len; omega

theorem lt_len {s : Bytes} {i : Nat} {c : UInt8} (hi : s[i]? = some c) : (i : Int) < GoLib.len s := by
  have := lt_of_some hi
  unfold GoLib.len; omega

/-- the "scan to closing brace" loop: the budget suffices, `s[i]` and `s[1:i]` never fail. -/
theorem loop1_eq (s : Bytes) : ∀ fuel i, 1 ≤ i → s.length - i < fuel →
    GIV.Go.Os.getShellName_loop1 s fuel (i : Int) = some (toInt (scanBraceIdx s fuel i)) := by
  intro fuel
  induction fuel with
  | zero => intro i _ h; omega
  | succ fuel ih =>
    intro i h1 hf
    rw [GIV.Go.Os.getShellName_loop1, scanBraceIdx]
    cases hi : s[i]? with
    | none =>
      simp [not_lt_len hi, GIV.Go.Os.getShellName_after1, toInt]
    | some c =>
      have hlt := lt_of_some hi
      simp only [lt_len hi, decide_true, Bool.not_true, Bool.false_eq_true, if_false, idx_nat, hi,
        Option.pure_def, Option.bind_eq_bind, Option.bind_some]
      by_cases hc : c = RBRACE
      · subst hc
        have h125 : (RBRACE == 125) = true := by decide
        by_cases hi1 : i = 1
        · subst hi1; simp [h125, toInt]
        · have hi1' : ¬ ((i : Int) = 1) := by omega
          have hsl := slice_nat s 1 i h1 (Nat.le_of_lt hlt)
          rw [show ((1 : Nat) : Int) = 1 from rfl] at hsl
          simp [h125, hi1, hi1', hsl, toInt]
      · have h125 : (c == 125) = false := by
          simpa [RBRACE] using hc
        simp only [h125, Bool.false_eq_true, if_false, hc, cast_succ]
        exact ih (i + 1) (by omega) (by omega)

/-- the "scan alphanumerics" loop. -/
theorem loop2_eq (s : Bytes) : ∀ fuel i, i ≤ s.length → s.length - i < fuel →
    GIV.Go.Os.getShellName_loop2 s fuel (i : Int) =
      some (sliceB s 0 (scanAlnumIdx s fuel i), ((scanAlnumIdx s fuel i : Nat) : Int)) := by
  intro fuel
  induction fuel with
  | zero => intro i _ h; omega
  | succ fuel ih =>
    intro i hle hf
    rw [GIV.Go.Os.getShellName_loop2, scanAlnumIdx]
    have h0 : ((0 : Nat) : Int) = 0 := rfl
    cases hi : s[i]? with
    | none =>
      have := slice_nat s 0 i (Nat.zero_le _) hle
      rw [h0] at this
      simp [not_lt_len hi, GIV.Go.Os.getShellName_after2, this]
    | some c =>
      have hlt := lt_of_some hi
      simp only [lt_len hi, decide_true, if_true, idx_nat, hi, isAlphaNum_eq,
        Option.pure_def, Option.bind_eq_bind, Option.bind_some]
      by_cases hc : isAlphaNum c = true
      · simp only [hc, Bool.not_true, Bool.false_eq_true, if_false, if_true, cast_succ]
        exact ih (i + 1) (by omega) (by omega)
      · have hc' : isAlphaNum c = false := by simpa using hc
        have := slice_nat s 0 i (Nat.zero_le _) hle
        rw [h0] at this
        simp [hc', GIV.Go.Os.getShellName_after2, this]

theorem idx_lit0 (s : Bytes) : GoLib.idx? s 0 = s[0]? := idx_nat s 0
theorem idx_lit1 (s : Bytes) : GoLib.idx? s 1 = s[1]? := idx_nat s 1
theorem idx_lit2 (s : Bytes) : GoLib.idx? s 2 = s[2]? := idx_nat s 2

theorem scanBraceIdx_fuel (s : Bytes) (f : Nat) (h : s.length ≤ f) : scanBraceIdx s f 1 = scanBraceIdx s s.length 1 := by
  rw [scanBraceIdx_eq s f 1 (Nat.le_refl 1) (by omega), scanBraceIdx_eq s s.length 1 (Nat.le_refl 1) (by omega)]

theorem scanAlnumIdx_fuel (s : Bytes) (f : Nat) (h : s.length ≤ f) : scanAlnumIdx s f 0 = scanAlnumIdx s s.length 0 := by
  rw [scanAlnumIdx_eq s f 0 (by omega), scanAlnumIdx_eq s s.length 0 (by omega)]

/-- **getShellName**: the translation is the model's index form — for every string; on the empty string
both are `none` (Go panics on `s[0]`; os.Expand never passes one). -/
theorem getShellName_eq (s : Bytes) : GIV.Go.Os.getShellName s = (getShellNameIdx s).map toInt := by
  unfold GIV.Go.Os.getShellName getShellNameIdx
  simp only [idx_lit0, idx_lit1, idx_lit2]
  cases h0 : s[0]? with
  | none => simp
  | some c0 =>
    have hl0 := lt_of_some h0
    simp only [Option.pure_def, Option.bind_eq_bind, Option.bind_some, isShellSpecialVar_eq]
    by_cases hb : c0 = LBRACE
    · subst hb
      have h123 : (LBRACE == 123) = true := by decide
      simp only [h123, if_true]
      have hloop := loop1_eq s (s.length + 2) 1 (Nat.le_refl 1) (by omega)
      rw [show ((1 : Nat) : Int) = 1 from rfl, scanBraceIdx_fuel s _ (by omega)] at hloop
      by_cases hlen : s.length > 2
      · have hlen' : GoLib.len s > 2 := by unfold GoLib.len; omega
        obtain ⟨c1, h1⟩ : ∃ c, s[1]? = some c := ⟨s[1], List.getElem?_eq_getElem (by omega)⟩
        obtain ⟨c2, h2⟩ : ∃ c, s[2]? = some c := ⟨s[2], List.getElem?_eq_getElem (by omega)⟩
        simp only [hlen', hlen, decide_true, if_true, h1, h2, Option.bind_some, Bool.true_and]
        by_cases hs : isShellSpecialVar c1 = true
        · by_cases hc2 : c2 = RBRACE
          · subst hc2
            have h125 : (RBRACE == 125) = true := by decide
            have hsl := slice_nat s 1 2 (by omega) (by omega)
            rw [show ((1 : Nat) : Int) = 1 from rfl, show ((2 : Nat) : Int) = 2 from rfl] at hsl
            simp [hs, h125, hsl, toInt]
          · have h125 : (c2 == 125) = false := by simpa [RBRACE] using hc2
            simp [hs, h125, hc2, hloop]
        · have hs' : isShellSpecialVar c1 = false := by simpa using hs
          simp [hs', hloop]
      · have hlen' : ¬ (GoLib.len s > 2) := by unfold GoLib.len; omega
        simp [hlen', hlen, hloop]
    · have h123 : (c0 == 123) = false := by simpa [LBRACE] using hb
      simp only [h123, Bool.false_eq_true, if_false, hb]
      by_cases hs : isShellSpecialVar c0 = true
      · have hsl := slice_nat s 0 1 (by omega) (by omega)
        rw [show ((0 : Nat) : Int) = 0 from rfl, show ((1 : Nat) : Int) = 1 from rfl] at hsl
        simp [hs, hsl, toInt]
      · have hs' : isShellSpecialVar c0 = false := by simpa using hs
        have hloop := loop2_eq s (s.length + 2) 0 (Nat.zero_le _) (by omega)
        rw [show ((0 : Nat) : Int) = 0 from rfl, scanAlnumIdx_fuel s _ (by omega)] at hloop
        simp [hs', hloop, toInt]

/-! ### Expand -/

/-- The translation's `buf` (an `Option`: Go's nil-ness is observed by `buf == nil`) against the model's
plain byte list: `buf` is nil only as long as nothing was copied — and then `i` is still 0, so that the
final `return s` is the model's `buf ++ s[i:]`. -/
def BufRel (ob : Option Bytes) (b : Bytes) (i : Nat) : Prop := (ob = none ∧ b = [] ∧ i = 0) ∨ ob = some b

theorem cond_eq (s : Bytes) (j : Nat) (c : UInt8) (hc : s[j]? = some c) :
    ((c == 36) && decide ((j : Int) + 1 < GoLib.len s)) = (s[j]? == some DOLLAR && decide (j + 1 < s.length)) := by
  have h1 : (s[j]? == some DOLLAR) = (c == 36) := by rw [hc]; simp [DOLLAR]
  have h2 : decide ((j : Int) + 1 < GoLib.len s) = decide (j + 1 < s.length) := by
    unfold GoLib.len
    apply decide_eq_decide.2
    omega
  rw [h1, h2]

/-- The loop of Expand: no budget, index or slice ever fails where the model does not, and the results agree. -/
theorem Expand_loop_eq (m : Bytes → Bytes) (s : Bytes) :
    ∀ fuel j i ob b, BufRel ob b i → i ≤ j → j ≤ s.length → s.length - j < fuel →
      GIV.Go.Os.Expand_loop1 s m fuel ob (i : Int) (j : Int) = osExpandIdxLoop m s fuel j i b := by
  intro fuel
  induction fuel with
  | zero => intro j i ob b _ _ _ h; omega
  | succ fuel ih =>
    intro j i ob b hR hij hj hf
    rw [GIV.Go.Os.Expand_loop1, osExpandIdxLoop]
    by_cases hlt : j < s.length
    · obtain ⟨c, hc⟩ : ∃ c, s[j]? = some c := ⟨s[j], List.getElem?_eq_getElem hlt⟩
      simp only [lt_len hc, decide_true, Bool.not_true, Bool.false_eq_true, if_false, hlt, if_true, idx_nat,
        Option.pure_def, Option.bind_eq_bind]
      rw [hc, Option.bind_some, cond_eq s j c hc, hc]
      by_cases hcond : ((some c == some DOLLAR) && decide (j + 1 < s.length)) = true
      · -- a '$' with something after it
        have hj1 : j + 1 < s.length := by simp at hcond; exact hcond.2
        obtain ⟨c1, hc1⟩ : ∃ c1, s[j + 1]? = some c1 := ⟨s[j + 1], List.getElem?_eq_getElem hj1⟩
        have hd1 : s.drop (j + 1) = c1 :: s.drop (j + 2) := drop_of_getElem?_some hc1
        have hw := getShellName_w_le c1 (s.drop (j + 2))
        have hlen : (c1 :: s.drop (j + 2)).length = s.length - (j + 1) := by rw [← hd1]; simp
        have hmake : GoLib.make? (0 : UInt8) (2 * GoLib.len s) = some (List.replicate (2 * GoLib.len s).toNat 0) := by
          unfold GoLib.make? GoLib.len
          rw [if_pos (by omega)]
        have hbuf : (if ob.isNone = true then (GoLib.make? (0 : UInt8) (2 * GoLib.len s)).bind fun _ => some (some ([] : Bytes))
            else some ob) = some (some b) := by
          rcases hR with ⟨h1, h2, _⟩ | h
          · subst h1; subst h2; simp [hmake]
          · subst h; simp
        have hcD : c = DOLLAR := by
          have : (some c == some DOLLAR) = true := by simp at hcond; simpa using hcond.1
          simpa using this
        subst hcD
        simp only [hcond, if_true, hbuf, Option.bind_some, slice_nat s i j hij hj, cast_succ,
          slice_to_end s (j + 1) (Nat.le_of_lt hj1), getShellName_eq, hd1, getShellNameIdx_eq, Option.map_some]
        cases hgs : getShellName c1 (s.drop (j + 2)) with
        | mk name w =>
          rw [hgs] at hw
          have hw' : w ≤ s.length - (j + 1) := by rw [← hlen]; exact hw
          have hcast : (j : Int) + (w : Int) + 1 = ((j + w + 1 : Nat) : Int) := by omega
          simp only [hcast]
          have hne : (name == ([] : Bytes)) = name.isEmpty := by cases name <;> rfl
          have hwd : decide ((w : Int) > 0) = decide (w > 0) := by apply decide_eq_decide.2; omega
          rw [hne, hwd]
          have hrec : ∀ b2 : Bytes, GIV.Go.Os.Expand_loop1 s m fuel (some b2) ((j + w + 1 : Nat) : Int) ((j : Int) + (w : Int) + 1) =
              osExpandIdxLoop m s fuel (j + w + 1) (j + w + 1) b2 := by
            intro b2
            rw [hcast]
            exact ih _ _ _ _ (Or.inr rfl) (Nat.le_refl _) (by omega) (by omega)
          by_cases h2 : name.isEmpty = true
          · by_cases hw0 : w > 0
            · simp only [h2, hw0, decide_true, Bool.and_true, if_true, Option.bind_some, nilAppend]
              exact hrec _
            · simp only [h2, hw0, decide_false, Bool.and_false, Bool.false_eq_true, if_false, if_true,
                Option.bind_some, nilAppend]
              exact hrec _
          · have h2' : name.isEmpty = false := by simpa using h2
            simp only [h2', Bool.false_and, Bool.false_eq_true, if_false, Option.bind_some, nilAppend]
            exact hrec _
      · -- an ordinary byte, or a '$' at the very end: nothing changes but j
        simp only [hcond, Bool.false_eq_true, if_false, Option.bind_some, cast_succ]
        exact ih (j + 1) i ob b hR (by omega) (by omega) (by omega)
    · -- the end of the string: `if buf == nil { return s }; return string(buf) + s[i:]`
      have hjl : j = s.length := by omega
      subst hjl
      have hge : ¬ (((s.length : Nat) : Int) < GoLib.len s) := by unfold GoLib.len; omega
      simp only [hge, decide_false, Bool.not_false, if_true, hlt, if_false, hij, GIV.Go.Os.Expand_after1,
        Option.pure_def, Option.bind_eq_bind]
      rcases hR with ⟨h1, h2, h3⟩ | h
      · subst h1; subst h2; subst h3; simp
      · subst h
        simp [slice_to_end s i hij, nilData]

/-- the model's loop gives the same result with every sufficient budget (the translator supplies
`len(s) + 2`, the model `len(s) + 1`). -/
theorem osExpandIdxLoop_fuel (m : Bytes → Bytes) (s : Bytes) (f : Nat) (h : s.length < f) :
    osExpandIdxLoop m s f 0 0 [] = osExpandIdx s m := by
  unfold osExpandIdx
  rw [osExpandIdxLoop_eq m s f 0 0 [] (Nat.le_refl 0) (Nat.zero_le _) (by omega),
    osExpandIdxLoop_eq m s (s.length + 1) 0 0 [] (Nat.le_refl 0) (Nat.zero_le _) (by omega)]

/-- **Expand**: the translation of the standard library's os.Expand is the model's index form, for every
string and every mapping function. -/
theorem Expand_eq_idx (s : Bytes) (m : Bytes → Bytes) : GIV.Go.Os.Expand s m = osExpandIdx s m := by
  unfold GIV.Go.Os.Expand
  have h := Expand_loop_eq m s (s.length + 2) 0 0 none [] (Or.inl ⟨rfl, rfl, rfl⟩) (Nat.le_refl 0) (Nat.zero_le _) (by omega)
  rw [show ((0 : Nat) : Int) = 0 from rfl] at h
  rw [h, osExpandIdxLoop_fuel m s _ (by omega)]

/-- … and therefore the structural `osExpand` of the C02 theorems: it never panics, no loop budget is
exhausted. -/
theorem Expand_eq (s : Bytes) (m : Bytes → Bytes) : GIV.Go.Os.Expand s m = some (osExpand s m) := by
  rw [Expand_eq_idx, osExpandIdx_eq]

end GIV.OsExpandGo
