/-
  GIV.Lemmas.DiffGoMainLoop — the hunk-assembling loop of the Go→Lean translation of `Diff` (GIV.Gen.DiffMainGo,
  `Diff_loop1`: `for _, m := range tgs(x, y) { … }`) simulates the model's `loop` (GIV.Model.Diff), for every match
  sequence and every state, panics included.  The translated loop keeps the open chunk as strings (tag byte + line) and
  prints each chunk into the buffer when it is closed; the model keeps tagged lines and structured hunks and renders
  at the end.  Simulation relation: the Go buffer = what was printed before the loop ++ the rendered hunks of the
  model's `out`; the Go `ctext` = the model's tagged `ctext`, each line rendered; `done`, `chunk`, `count` = the model's
  numbers as Ints.
-/
import GIV.Lemmas.DiffGoMainInner
import GIV.Lemmas.DiffGoFmt
import GIV.Lemmas.DiffRender

namespace GIV.Go.Diff
open GIV GIV.GoLib GIV.Diff

/-- the open chunk's lines as the Go code holds them: tag byte in front of the line -/
def goCtext (c : List (Tag × Bytes)) : List Bytes := c.map (fun p => [tagByte p.1] ++ p.2)

/-- the model's `chunk` (already Ints) as the Go struct -/
def goChunk (c : Int × Int) : GoPair := { x := c.1, y := c.2 }

theorem goCtext_append (c d : List (Tag × Bytes)) : goCtext (c ++ d) = goCtext c ++ goCtext d := by
  simp [goCtext]

theorem goCtext_tagged (t : Tag) (l : List Bytes) : goCtext (tagged t l) = tagLines (tagByte t) l := by
  simp [goCtext, tagged, tagLines, List.map_map, Function.comp_def]

theorem goCtext_length (c : List (Tag × Bytes)) : (goCtext c).length = c.length := by simp [goCtext]

theorem goCtext_flatten (c : List (Tag × Bytes)) : (goCtext c).flatten = renderBody c := by
  induction c with
  | nil => rfl
  | cons p c ih =>
    simp only [goCtext, renderBody, List.map_cons, List.flatten_cons, List.flatMap_cons] at ih ⊢
    rw [ih]; rfl

theorem slice_zero_zero {β : Type} (l : List β) : GoLib.slice? l 0 0 = some [] := by
  simp [GoLib.slice?]

section
variable (n1 a n2 b : Bytes) (x y : List Bytes)

/-- the chunk-closing block of `Diff_loop1` -/
def closeBlk (m start end_ : GoPair) (out : Bytes) (done chunk count : GoPair) (ctext : List Bytes) :
    Option (Bytes × GoPair × GoPair × GoPair × (List Bytes)) :=
  if decide (GoLib.len ctext > 0) then do
        let n : Int := min (end_.x - start.x) 3
        let t13 ← GoLib.slice? x start.x (start.x + n)
        let (count, ctext) ← Diff_loop7 n1 a n2 b x y out done chunk m start end_ 3 n t13 count ctext
        let done : GoPair := ({ x := start.x + n, y := start.y + n } : GoPair)
        let chunk ← (show Option (GoPair) from if decide (count.x > 0) then do
            let chunk : GoPair := { chunk with x := chunk.x + 1 }
            pure chunk
          else do
            pure chunk)
        let chunk ← (show Option (GoPair) from if decide (count.y > 0) then do
            let chunk : GoPair := { chunk with y := chunk.y + 1 }
            pure chunk
          else do
            pure chunk)
        let out : Bytes := out ++ ([64, 64, 32, 45] : Bytes) ++ (GoLib.fmtInt chunk.x) ++ ([44] : Bytes) ++ (GoLib.fmtInt count.x) ++ ([32, 43] : Bytes) ++ (GoLib.fmtInt chunk.y) ++ ([44] : Bytes) ++ (GoLib.fmtInt count.y) ++ ([32, 64, 64, 10] : Bytes)
        let out ← Diff_loop8 n1 a n2 b x y done chunk count ctext m start end_ 3 n ctext out
        let count : GoPair := { count with x := 0 }
        let count : GoPair := { count with y := 0 }
        let t14 ← GoLib.slice? ctext 0 0
        let ctext : (List Bytes) := t14
        pure (out, done, chunk, count, ctext)
      else do
        pure (out, done, chunk, count, ctext)

/-- what follows the chunk-closing block -/
def openBlk (rest_ : List GoPair) (m start end_ : GoPair) :
    Bytes × GoPair × GoPair × GoPair × (List Bytes) → Option Bytes
  | (out, done, chunk, count, ctext) => do
    if (decide (end_.x ≥ GoLib.len x)) && (decide (end_.y ≥ GoLib.len y)) then do
      Diff_after1 n1 a n2 b x y out done chunk count ctext
    else
    let chunk : GoPair := ({ x := end_.x - 3, y := end_.y - 3 } : GoPair)
    let t15 ← GoLib.slice? x chunk.x end_.x
    let (count, ctext) ← Diff_loop9 n1 a n2 b x y out done chunk m start end_ 3 t15 count ctext
    let done : GoPair := end_
    Diff_loop1 n1 a n2 b x y rest_ out done chunk count ctext

/-- one iteration of `Diff_loop1` after the mismatched lines were appended -/
def tailBlk (rest_ : List GoPair) (m start end_ : GoPair) (out : Bytes) (done chunk count : GoPair) (ctext : List Bytes) :
    Option Bytes := do
    if ((decide (end_.x < GoLib.len x)) || (decide (end_.y < GoLib.len y))) && ((decide (end_.x - start.x < 3)) || ((decide (GoLib.len ctext > 0)) && (decide (end_.x - start.x < 2 * 3)))) then do
      let t12 ← GoLib.slice? x start.x end_.x
      let (count, ctext) ← Diff_loop6 n1 a n2 b x y out done chunk m start end_ 3 t12 count ctext
      let done : GoPair := end_
      Diff_loop1 n1 a n2 b x y rest_ out done chunk count ctext
    else
    let p ← closeBlk n1 a n2 b x y m start end_ out done chunk count ctext
    openBlk n1 a n2 b x y rest_ m start end_ p

theorem Diff_loop1_cons (m : GoPair) (rest_ : List GoPair) (out : Bytes) (done chunk count : GoPair) (ctext : List Bytes) :
    Diff_loop1 n1 a n2 b x y (m :: rest_) out done chunk count ctext =
      (if decide (m.x < done.x) then Diff_loop1 n1 a n2 b x y rest_ out done chunk count ctext else do
        let start ← Diff_loop2 n1 a n2 b x y out done chunk count ctext m (x.length + 1) m
        let end_ ← Diff_loop3 n1 a n2 b x y out done chunk count ctext m start (x.length + 1) m
        let t10 ← GoLib.slice? x done.x start.x
        let (count, ctext) ← Diff_loop4 n1 a n2 b x y out done chunk m start end_ t10 count ctext
        let t11 ← GoLib.slice? y done.y start.y
        let (count, ctext) ← Diff_loop5 n1 a n2 b x y out done chunk m start end_ t11 count ctext
        tailBlk n1 a n2 b x y rest_ m start end_ out done chunk count ctext) := by
  rw [Diff_loop1]
  rfl


/-- The chunk-closing block = the model's `closeChunk` (buffer, `count`, `ctext`).  Its `done` and `chunk` results are
not related to the model: after a closed chunk both are dead stores on the Go side (`done = pair{start.x+n, start.y+n}`,
`chunk.x++` / `chunk.y++` for the 1-based header) — what follows either breaks or overwrites both — and the model
keeps neither (it puts the incremented numbers into the hunk only). -/
theorem closeBlk_eq (pre : Bytes) (m done : GoPair) (st : St Bytes) (ctext1 : List (Tag × Bytes))
    (count1 start en : Nat × Nat) :
    (∀ st2, closeChunk x st ctext1 count1 start en = some st2 → ∃ r,
      closeBlk n1 a n2 b x y m (ofPair start) (ofPair en) (pre ++ (st.out.map hunkBytes).flatten) done (goChunk st.chunk)
          (ofPair count1) (goCtext ctext1) = some r ∧
        r.1 = pre ++ (st2.out.map hunkBytes).flatten ∧ r.2.2.2.1 = ofPair st2.count ∧ r.2.2.2.2 = goCtext st2.ctext) ∧
    (closeChunk x st ctext1 count1 start en = none →
      closeBlk n1 a n2 b x y m (ofPair start) (ofPair en) (pre ++ (st.out.map hunkBytes).flatten) done (goChunk st.chunk)
          (ofPair count1) (goCtext ctext1) = none) := by
  by_cases hc : 0 < ctext1.length
  · have hc' : GoLib.len (goCtext ctext1) > 0 := by simp only [GoLib.len, goCtext_length]; omega
    have hm : Gen.Diff.closeCond ctext1.length = true := by simp only [Gen.Diff.closeCond, decide_eq_true_eq]; omega
    have hn : Gen.Diff.closeN en.1 en.2 start.1 start.2 = min ((en.1 : Int) - (start.1 : Int)) 3 := rfl
    simp only [closeBlk, closeChunk, hc', hm, hn, decide_true, if_true, ofPair_x, ofPair_y]
    generalize min ((en.1 : Int) - (start.1 : Int)) 3 = n
    by_cases hn0 : n < 0
    · rw [slice_neg _ _ _ (Or.inr (by omega)), if_pos hn0]
      exact ⟨fun st2 h => (by cases h), fun _ => rfl⟩
    · have e : (start.1 : Int) + n = ((start.1 + n.toNat : Nat) : Int) := by omega
      rw [e, slice_nat, if_neg hn0]
      cases hs : slice x start.1 (start.1 + n.toNat) with
      | none => exact ⟨fun st2 h => (by cases h), fun _ => rfl⟩
      | some comm =>
        refine ⟨fun st2 h => ?_, fun h => by cases h⟩
        cases h
        simp only [Option.bind_eq_bind, Option.bind_some, Diff_loop7_eq, Diff_loop8_eq, slice_zero_zero, Option.pure_def,
          ofPair_x, ofPair_y, Gen.Diff.hdrIncX, Gen.Diff.hdrIncY, Int.natCast_add]
        have hb : goCtext ctext1 ++ tagLines 32 comm = goCtext (ctext1 ++ tagged .ctx comm) := by
          rw [goCtext_append, goCtext_tagged]; rfl
        rw [hb, goCtext_flatten]
        by_cases h1 : (count1.1 : Int) + (comm.length : Int) > 0 <;>
        by_cases h2 : (count1.2 : Int) + (comm.length : Int) > 0 <;>
        · simp only [h1, h2, decide_true, decide_false, if_true, Bool.false_eq_true, if_false, Option.bind_some]
          refine ⟨_, rfl, ?_, rfl, rfl⟩
          simp only [List.map_append, List.flatten_append, List.map_cons, List.map_nil, List.flatten_cons, List.flatten_nil,
            hunkBytes, hunkHeaderBytes, fmtInt_eq, goChunk, List.append_assoc, List.append_nil, Int.natCast_add]
  · have hc' : ¬ (GoLib.len (goCtext ctext1) > 0) := by simp only [GoLib.len, goCtext_length]; omega
    have hm : Gen.Diff.closeCond ctext1.length = false := by
      simp only [Gen.Diff.closeCond, decide_eq_false_iff_not]; omega
    simp only [closeBlk, closeChunk, hc', hm, decide_false, Bool.false_eq_true, if_false]
    refine ⟨fun st2 h => ?_, fun h => by cases h⟩
    cases h
    exact ⟨_, rfl, rfl, rfl, rfl⟩

theorem goCtext_ctx (c : List (Tag × Bytes)) (comm : List Bytes) :
    goCtext c ++ tagLines 32 comm = goCtext (c ++ tagged .ctx comm) := by
  rw [goCtext_append, goCtext_tagged]; rfl

theorem ofPair_add (c : Nat × Nat) (i j : Nat) :
    ({ x := (ofPair c).x + (i : Int), y := (ofPair c).y + (j : Int) } : GoPair) = ofPair (c.1 + i, c.2 + j) := by
  simp only [ofPair, Int.natCast_add]

theorem openBlk_eq (pre : Bytes) (rest_ : List GoPair) (m start d c : GoPair) (st2 : St Bytes) (en : Nat × Nat) :
    openBlk n1 a n2 b x y rest_ m start (ofPair en)
        (pre ++ (st2.out.map hunkBytes).flatten, d, c, ofPair st2.count, goCtext st2.ctext) =
      if Gen.Diff.eofCond en.1 en.2 x.length y.length then some (pre ++ (st2.out.map hunkBytes).flatten) else
        match openChunk x st2 en with
        | none => none
        | some st3 => Diff_loop1 n1 a n2 b x y rest_ (pre ++ (st3.out.map hunkBytes).flatten) (ofPair st3.done)
            (goChunk st3.chunk) (ofPair st3.count) (goCtext st3.ctext) := by
  simp only [openBlk]
  by_cases he : Gen.Diff.eofCond en.1 en.2 x.length y.length = true
  · have he' : (decide ((ofPair en).x ≥ GoLib.len x) && decide ((ofPair en).y ≥ GoLib.len y)) = true := he
    rw [if_pos he, if_pos he']; rfl
  · have he' : ¬ (decide ((ofPair en).x ≥ GoLib.len x) && decide ((ofPair en).y ≥ GoLib.len y)) = true := he
    rw [if_neg he, if_neg he']
    have hcx : Gen.Diff.newChunkX en.1 en.2 = (en.1 : Int) - 3 := rfl
    have hcy : Gen.Diff.newChunkY en.1 en.2 = (en.2 : Int) - 3 := rfl
    simp only [openChunk, hcx, hcy, ofPair_x, ofPair_y]
    by_cases h0 : (en.1 : Int) - 3 < 0
    · rw [slice_neg _ _ _ (Or.inl h0), if_pos h0]; rfl
    · have e : (en.1 : Int) - 3 = ((((en.1 : Int) - 3).toNat : Nat) : Int) := by omega
      rw [if_neg h0]
      conv => lhs; rw [e, slice_nat]
      cases hs : slice x ((en.1 : Int) - 3).toNat en.1 with
      | none => rfl
      | some comm =>
        simp only [Option.bind_eq_bind, Option.bind_some, Diff_loop9_eq, ofPair_add, goCtext_ctx]
        rw [← e]; rfl

/-- the model's `step` after the mismatched lines were appended -/
def stepTail (st : St Bytes) (ctext1 : List (Tag × Bytes)) (count1 start en : Nat × Nat) : Option (St Bytes × Bool) :=
  if Gen.Diff.contCond en.1 en.2 start.1 start.2 x.length y.length ctext1.length then
    match slice x start.1 en.1 with
    | none => none
    | some comm =>
      some ({ st with done := en, count := (count1.1 + comm.length, count1.2 + comm.length),
                      ctext := ctext1 ++ tagged .ctx comm }, false)
  else
    match closeChunk x st ctext1 count1 start en with
    | none => none
    | some st2 =>
      if Gen.Diff.eofCond en.1 en.2 x.length y.length then some (st2, true)
      else
        match openChunk x st2 en with
        | none => none
        | some st3 => some (st3, false)

/-- what the translated loop does with the result of the model's `step` -/
def contK (pre : Bytes) (rest_ : List GoPair) : Option (St Bytes × Bool) → Option Bytes
  | none => none
  | some (st', true) => some (pre ++ (st'.out.map hunkBytes).flatten)
  | some (st', false) => Diff_loop1 n1 a n2 b x y rest_ (pre ++ (st'.out.map hunkBytes).flatten) (ofPair st'.done)
      (goChunk st'.chunk) (ofPair st'.count) (goCtext st'.ctext)

theorem tailBlk_eq (pre : Bytes) (rest_ : List GoPair) (m : GoPair) (st : St Bytes) (ctext1 : List (Tag × Bytes))
    (count1 start en : Nat × Nat) :
    tailBlk n1 a n2 b x y rest_ m (ofPair start) (ofPair en) (pre ++ (st.out.map hunkBytes).flatten) (ofPair st.done)
        (goChunk st.chunk) (ofPair count1) (goCtext ctext1) =
      contK n1 a n2 b x y pre rest_ (stepTail x y st ctext1 count1 start en) := by
  have hl : GoLib.len (goCtext ctext1) = (ctext1.length : Int) := by simp only [GoLib.len, goCtext_length]
  simp only [tailBlk, stepTail]
  rw [hl]
  by_cases hcont : Gen.Diff.contCond en.1 en.2 start.1 start.2 x.length y.length ctext1.length = true
  · have hcont' : ((decide ((ofPair en).x < GoLib.len x) || decide ((ofPair en).y < GoLib.len y)) &&
        (decide ((ofPair en).x - (ofPair start).x < 3) || decide ((ctext1.length : Int) > 0) &&
          decide ((ofPair en).x - (ofPair start).x < 2 * 3))) = true := hcont
    rw [if_pos hcont, if_pos hcont']
    simp only [ofPair_x, slice_nat]
    cases hs : slice x start.1 en.1 with
    | none => rfl
    | some comm =>
      simp only [Option.bind_eq_bind, Option.bind_some, Diff_loop6_eq, ofPair_add, goCtext_ctx]
      rfl
  · have hcont' : ¬ ((decide ((ofPair en).x < GoLib.len x) || decide ((ofPair en).y < GoLib.len y)) &&
        (decide ((ofPair en).x - (ofPair start).x < 3) || decide ((ctext1.length : Int) > 0) &&
          decide ((ofPair en).x - (ofPair start).x < 2 * 3))) = true := hcont
    rw [if_neg hcont, if_neg hcont']
    have hcb := closeBlk_eq n1 a n2 b x y pre m (ofPair st.done) st ctext1 count1 start en
    cases hcl : closeChunk x st ctext1 count1 start en with
    | none => rw [hcb.2 hcl]; rfl
    | some st2 =>
      obtain ⟨⟨o, d, c, cnt, ct⟩, hr, h1, h2, h3⟩ := hcb.1 st2 hcl
      simp only at h1 h2 h3
      subst h1 h2 h3
      rw [hr]
      simp only [Option.bind_eq_bind, Option.bind_some, openBlk_eq]
      by_cases he : Gen.Diff.eofCond en.1 en.2 x.length y.length = true
      · rw [if_pos he, if_pos he]; rfl
      · rw [if_neg he, if_neg he]
        cases openChunk x st2 en <;> rfl

theorem goCtext_del (c : List (Tag × Bytes)) (l : List Bytes) :
    goCtext c ++ tagLines 45 l = goCtext (c ++ tagged .del l) := by
  rw [goCtext_append, goCtext_tagged]; rfl

theorem goCtext_ins (c : List (Tag × Bytes)) (l : List Bytes) :
    goCtext c ++ tagLines 43 l = goCtext (c ++ tagged .ins l) := by
  rw [goCtext_append, goCtext_tagged]; rfl

theorem Diff_loop1_step (pre : Bytes) (rest_ : List GoPair) (m : Nat × Nat) (st : St Bytes) (hm : m.1 ≤ x.length)
    (hskip : ¬ m.1 < st.done.1) :
    Diff_loop1 n1 a n2 b x y (ofPair m :: rest_) (pre ++ (st.out.map hunkBytes).flatten) (ofPair st.done)
        (goChunk st.chunk) (ofPair st.count) (goCtext st.ctext) =
      contK n1 a n2 b x y pre rest_ (step x y st m) := by
  have hs0 : ¬ ((ofPair m).x < (ofPair st.done).x) := by simp only [ofPair_x]; omega
  have hs : ¬ (decide ((ofPair m).x < (ofPair st.done).x) = true) := fun h => hs0 (of_decide_eq_true h)
  rw [Diff_loop1_cons, if_neg hs]
  have h2 := Diff_loop2_eq n1 a n2 b x y (pre ++ (st.out.map hunkBytes).flatten) (goChunk st.chunk) (ofPair st.count)
    (ofPair m) (goCtext st.ctext) st.done.1 st.done.2 (x.length + 1) m.1 m.2 (by omega)
  rw [h2]
  cases hst : expandStart x y st.done.1 st.done.2 m.1 m.2 with
  | none => simp only [step, hst]; rfl
  | some start =>
    simp only [Option.map_some, Option.bind_eq_bind, Option.bind_some, Diff_loop3_expandEnd]
    rw [show (ofPair st.done).x = ((st.done.1 : Nat) : Int) from rfl, show (ofPair st.done).y = ((st.done.2 : Nat) : Int) from rfl,
      show (ofPair start).x = ((start.1 : Nat) : Int) from rfl, show (ofPair start).y = ((start.2 : Nat) : Int) from rfl,
      slice_nat, slice_nat]
    cases hdx : slice x st.done.1 start.1 with
    | none => simp only [step, hst, hdx]; rfl
    | some dels =>
      cases hdy : slice y st.done.2 start.2 with
      | none => simp only [step, hst, hdx, hdy, Option.bind_some, Diff_loop4_eq]; rfl
      | some inss =>
        simp only [Option.bind_some, Diff_loop4_eq, Diff_loop5_eq, ofPair_add, goCtext_del, goCtext_ins, tailBlk_eq]
        simp only [step, hst, hdx, hdy, stepTail]
        congr 1
        split
        · cases slice x start.1 (expandEnd x y m).1 <;> rfl
        · cases closeChunk x st (st.ctext ++ tagged Tag.del dels ++ tagged Tag.ins inss)
              (st.count.1 + dels.length, st.count.2 + inss.length) start (expandEnd x y m) with
          | none => rfl
          | some st2 =>
            simp only
            split
            · rfl
            · cases openChunk x st2 (expandEnd x y m) <;> rfl

end

/-- The translated loop = the model's loop, rendered.  (`m.1 ≤ len(x)` only makes the budget `len(x) + 1` of the
backward expansion loop sufficient; it holds for every element of `tgs`'s result.) -/
theorem Diff_loop1_eq (n1 a n2 b : Bytes) (x y : List Bytes) (pre : Bytes) :
    ∀ (ms : List (Nat × Nat)) (st : St Bytes), (∀ m ∈ ms, m.1 ≤ x.length) →
      Diff_loop1 n1 a n2 b x y (ms.map ofPair) (pre ++ (st.out.map hunkBytes).flatten) (ofPair st.done)
          (goChunk st.chunk) (ofPair st.count) (goCtext st.ctext) =
        (loop x y ms st).map (fun hs => pre ++ (hs.map hunkBytes).flatten) := by
  intro ms
  induction ms with
  | nil => intro st _; rfl
  | cons m ms ih =>
    intro st hms
    have hm : m.1 ≤ x.length := hms m (List.mem_cons_self ..)
    have hms' : ∀ m' ∈ ms, m'.1 ≤ x.length := fun m' h => hms m' (List.mem_cons_of_mem _ h)
    rw [List.map_cons]
    by_cases hskip : m.1 < st.done.1
    · have hs : decide ((ofPair m).x < (ofPair st.done).x) = true :=
        decide_eq_true (by simp only [ofPair_x]; omega)
      have hs' : Gen.Diff.skipCond m.1 m.2 st.done.1 st.done.2 = true := hs
      rw [Diff_loop1_cons, if_pos hs, loop, if_pos hs']
      exact ih st hms'
    · have hs' : ¬ Gen.Diff.skipCond m.1 m.2 st.done.1 st.done.2 = true :=
        fun h => hskip (by have := of_decide_eq_true h; omega)
      rw [Diff_loop1_step n1 a n2 b x y pre _ m st hm hskip, loop, if_neg hs']
      cases hstep : step x y st m with
      | none => rfl
      | some r =>
        obtain ⟨st', brk⟩ := r
        cases brk with
        | true => rfl
        | false => exact ih st' hms'

end GIV.Go.Diff