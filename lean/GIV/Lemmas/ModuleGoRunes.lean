/-
  GIV.Lemmas.ModuleGoRunes — facts about the run-time library GIV.GoLibStr (runes of a Go string, byte(x),
  strings.Count / Contains / Index / LastIndexByte on one-byte separators, utf8.ValidString) that the
  equivalence proofs for golang.org/x/mod/module (GIV.Lemmas.ModuleGo*) use.

    decodeMulti_some           a decoded multi-byte rune is ≥ 128, its width is 2..4 and within the string, and
                               every byte it consumes is ≥ 128 (so none of them is '/', '!', a letter, …)
    runesFrom_ascii/_multi     one step of `for i, r := range s`
    runesOf_cases              the same for `for _, r := range s`
    runes_all                  a rune predicate that rejects everything ≥ 128 = the byte predicate on all bytes
    runes_ascii                the runes of an ASCII string are its bytes
-/
import GIV.GoLibStr
import GIV.Lemmas.SemverGo
set_option linter.unusedSimpArgs false
namespace GIV.ModuleGo
open GIV GIV.GoLib

theorem u8_le (a b : UInt8) : a ≤ b ↔ a.toNat ≤ b.toNat := UInt8.le_iff_toNat_le
theorem u8_lt (a b : UInt8) : a < b ↔ a.toNat < b.toNat := UInt8.lt_iff_toNat_lt

theorem isCont_ge {b : UInt8} (h : isCont b = true) : 128 ≤ b.toNat := by
  simp only [isCont, Bool.and_eq_true, decide_eq_true_eq, u8_le] at h
  have : (0x80 : UInt8).toNat = 128 := rfl
  omega

theorem dec2_some {b0 b1 : UInt8} {r : Nat} (h : dec2 b0 b1 = some r) :
    128 ≤ r ∧ 128 ≤ b0.toNat ∧ 128 ≤ b1.toNat := by
  simp only [dec2, Option.ite_none_right_eq_some, Option.some.injEq] at h
  obtain ⟨⟨h0, h1, h2⟩, rfl⟩ := h
  have := isCont_ge h2
  rw [u8_le] at h0 h1
  have e1 : (0xC2 : UInt8).toNat = 194 := rfl
  omega

theorem dec3_some {b0 b1 b2 : UInt8} {r : Nat} (h : dec3 b0 b1 b2 = some r) :
    128 ≤ r ∧ 128 ≤ b0.toNat ∧ 128 ≤ b1.toNat ∧ 128 ≤ b2.toNat := by
  simp only [dec3, Option.ite_none_right_eq_some, Option.some.injEq] at h
  obtain ⟨⟨h0, h1, h2, h3, h4⟩, rfl⟩ := h
  have := isCont_ge h4
  rw [u8_le] at h0 h1 h2 h3
  have e1 : (0xE0 : UInt8).toNat = 224 := rfl
  by_cases he : b0 = 0xE0
  · subst he
    simp only [if_true] at h2
    have e2 : (0xA0 : UInt8).toNat = 160 := rfl
    omega
  · simp only [he, if_false] at h2
    have e2 : (0x80 : UInt8).toNat = 128 := rfl
    have : b0.toNat ≠ 224 := fun hh => he (UInt8.toNat_inj.1 (by rw [hh]; rfl))
    omega

theorem dec4_some {b0 b1 b2 b3 : UInt8} {r : Nat} (h : dec4 b0 b1 b2 b3 = some r) :
    128 ≤ r ∧ 128 ≤ b0.toNat ∧ 128 ≤ b1.toNat ∧ 128 ≤ b2.toNat ∧ 128 ≤ b3.toNat := by
  simp only [dec4, Option.ite_none_right_eq_some, Option.some.injEq] at h
  obtain ⟨⟨h0, h1, h2, h3, h4, h5⟩, rfl⟩ := h
  have := isCont_ge h4
  have := isCont_ge h5
  rw [u8_le] at h0 h1 h2 h3
  have e1 : (0xF0 : UInt8).toNat = 240 := rfl
  by_cases he : b0 = 0xF0
  · subst he
    simp only [if_true] at h2
    have e2 : (0x90 : UInt8).toNat = 144 := rfl
    omega
  · simp only [he, if_false] at h2
    have e2 : (0x80 : UInt8).toNat = 128 := rfl
    have : b0.toNat ≠ 240 := fun hh => he (UInt8.toNat_inj.1 (by rw [hh]; rfl))
    omega

/-- what a successful multi-byte decoding looks like -/
theorem decodeMulti_some {s : Bytes} {r w : Nat} (h : decodeMulti s = some (r, w)) :
    128 ≤ r ∧ 2 ≤ w ∧ w ≤ s.length ∧ ∀ c ∈ s.take w, 128 ≤ c.toNat := by
  match s, h with
  | b0 :: b1 :: rest, h =>
    unfold decodeMulti at h
    cases h2 : dec2 b0 b1 with
    | some r2 =>
      simp only [h2, Option.some.injEq, Prod.mk.injEq] at h
      obtain ⟨rfl, rfl⟩ := h
      obtain ⟨a, b, c⟩ := dec2_some h2
      refine ⟨a, by omega, by simp, ?_⟩
      intro x hx
      simp at hx
      rcases hx with rfl | rfl <;> assumption
    | none =>
      simp only [h2] at h
      match rest, h with
      | b2 :: rest2, h =>
        simp only at h
        cases h3 : dec3 b0 b1 b2 with
        | some r3 =>
          simp only [h3, Option.some.injEq, Prod.mk.injEq] at h
          obtain ⟨rfl, rfl⟩ := h
          obtain ⟨a, b, c, d⟩ := dec3_some h3
          refine ⟨a, by omega, by simp, ?_⟩
          intro x hx
          simp at hx
          rcases hx with rfl | rfl | rfl <;> assumption
        | none =>
          simp only [h3] at h
          match rest2, h with
          | b3 :: rest3, h =>
            simp only [Option.map_eq_some_iff, Prod.mk.injEq] at h
            obtain ⟨r4, h4, rfl, rfl⟩ := h
            obtain ⟨a, b, c, d, e⟩ := dec4_some h4
            refine ⟨a, by omega, by simp, ?_⟩
            intro x hx
            simp at hx
            rcases hx with rfl | rfl | rfl | rfl <;> assumption

/-! ### one step of the rune iteration -/

theorem not_lt_128 {b : UInt8} (h : ¬ b < 0x80) : 128 ≤ b.toNat := by
  rw [u8_lt] at h
  have : (0x80 : UInt8).toNat = 128 := rfl
  omega

theorem lt_128 {b : UInt8} (h : b < 0x80) : b.toNat < 128 := by
  rw [u8_lt] at h
  have : (0x80 : UInt8).toNat = 128 := rfl
  omega

theorem decodeRune_ascii {b : UInt8} (rest : Bytes) (h : b < 0x80) :
    decodeRune (b :: rest) = ((b.toNat : Int), 1) := by
  simp [decodeRune, h]

theorem decodeRune_multi {b : UInt8} (rest : Bytes) (h : ¬ b < 0x80) :
    128 ≤ (decodeRune (b :: rest)).1 ∧ 1 ≤ (decodeRune (b :: rest)).2 ∧
      (decodeRune (b :: rest)).2 ≤ rest.length + 1 ∧
      ∀ c ∈ (b :: rest).take (decodeRune (b :: rest)).2, 128 ≤ c.toNat := by
  simp only [decodeRune, h, if_false]
  cases hd : decodeMulti (b :: rest) with
  | none =>
    refine ⟨by decide, by decide, by simp, ?_⟩
    intro c hc
    simp at hc
    subst hc
    exact not_lt_128 h
  | some p =>
    obtain ⟨r, w⟩ := p
    obtain ⟨h1, h2, h3, h4⟩ := decodeMulti_some hd
    refine ⟨by simp; omega, by simp; omega, by simpa using h3, h4⟩

theorem runesFrom_ascii (n : Nat) (off : Int) {b : UInt8} (rest : Bytes) (h : b < 0x80) :
    runesFrom (n + 1) off (b :: rest) = (off, (b.toNat : Int)) :: runesFrom n (off + 1) rest := by
  simp [runesFrom, decodeRune_ascii rest h]

/-- the runes of `for _, r := range s` (the offsets dropped); `n` ≥ the length -/
def runesOf (n : Nat) (s : Bytes) : List Int := (runesFrom n 0 s).map (·.2)

theorem runes_eq (s : Bytes) : runes s = runesOf s.length s := rfl

theorem map_snd_runesFrom : ∀ (n : Nat) (off : Int) (s : Bytes), (runesFrom n off s).map (·.2) = runesOf n s := by
  intro n
  induction n with
  | zero => intro off s; simp [runesOf, runesFrom]
  | succ n ih =>
    intro off s
    cases s with
    | nil => simp [runesOf, runesFrom]
    | cons b rest =>
      simp only [runesOf, runesFrom, List.map_cons]
      rw [ih, ih]

theorem runesOf_nil (n : Nat) : runesOf n [] = [] := by
  cases n <;> simp [runesOf, runesFrom]

theorem runesOf_ascii (n : Nat) {b : UInt8} (rest : Bytes) (h : b < 0x80) :
    runesOf (n + 1) (b :: rest) = (b.toNat : Int) :: runesOf n rest := by
  rw [runesOf, runesFrom_ascii n 0 rest h, List.map_cons, map_snd_runesFrom]

/-- a non-ASCII byte at the head: the first rune is ≥ 128 (the decoded scalar value or U+FFFD) -/
theorem runesOf_multi (n : Nat) {b : UInt8} (rest : Bytes) (h : ¬ b < 0x80) :
    ∃ r tl, runesOf (n + 1) (b :: rest) = r :: tl ∧ 128 ≤ r := by
  exact ⟨(decodeRune (b :: rest)).1, _, by simp only [runesOf, runesFrom, List.map_cons]; rfl,
    (decodeRune_multi rest h).1⟩

/-- a rune predicate `P` that agrees with the byte predicate `p` on ASCII and rejects every rune ≥ 128, while
`p` rejects every byte ≥ 128: all runes of `s` satisfy `P` iff all bytes satisfy `p`. -/
theorem runesOf_all (P : Int → Bool) (p : UInt8 → Bool)
    (h1 : ∀ c : UInt8, c.toNat < 128 → P (c.toNat : Int) = p c) (h2 : ∀ r : Int, 128 ≤ r → P r = false)
    (h3 : ∀ c : UInt8, 128 ≤ c.toNat → p c = false) :
    ∀ (n : Nat) (s : Bytes), s.length ≤ n → (runesOf n s).all P = s.all p := by
  intro n
  induction n with
  | zero => intro s hs; cases s with
    | nil => simp [runesOf_nil]
    | cons b r => simp at hs
  | succ n ih =>
    intro s hs
    cases s with
    | nil => simp [runesOf_nil]
    | cons b rest =>
      by_cases hb : b < 0x80
      · rw [runesOf_ascii n rest hb, List.all_cons, List.all_cons, h1 b (lt_128 hb),
          ih rest (by simp at hs; omega)]
      · obtain ⟨r, tl, e, hr⟩ := runesOf_multi n rest hb
        rw [e, List.all_cons, List.all_cons, h2 r hr, h3 b (not_lt_128 hb)]
        simp

theorem runes_all (P : Int → Bool) (p : UInt8 → Bool)
    (h1 : ∀ c : UInt8, c.toNat < 128 → P (c.toNat : Int) = p c) (h2 : ∀ r : Int, 128 ≤ r → P r = false)
    (h3 : ∀ c : UInt8, 128 ≤ c.toNat → p c = false) (s : Bytes) :
    (runes s).all P = s.all p :=
  runesOf_all P p h1 h2 h3 s.length s (Nat.le_refl _)

/-- `s` consists of ASCII bytes -/
def Ascii (s : Bytes) : Prop := ∀ c ∈ s, c.toNat < 128

theorem Ascii.tail {b : UInt8} {s : Bytes} (h : Ascii (b :: s)) : Ascii s :=
  fun c hc => h c (List.mem_cons_of_mem _ hc)

theorem Ascii.head {b : UInt8} {s : Bytes} (h : Ascii (b :: s)) : b < 0x80 := by
  rw [u8_lt]
  have := h b (List.mem_cons_self ..)
  have e : (0x80 : UInt8).toNat = 128 := rfl
  omega

theorem runesOf_of_ascii : ∀ (n : Nat) (s : Bytes), s.length ≤ n → Ascii s →
    runesOf n s = s.map fun c => (c.toNat : Int) := by
  intro n
  induction n with
  | zero => intro s hs _; cases s with
    | nil => simp [runesOf_nil]
    | cons b r => simp at hs
  | succ n ih =>
    intro s hs ha
    cases s with
    | nil => simp [runesOf_nil]
    | cons b rest =>
      rw [runesOf_ascii n rest ha.head, ih rest (by simp at hs; omega) ha.tail]
      rfl

theorem runes_ascii {s : Bytes} (ha : Ascii s) : runes s = s.map fun c => (c.toNat : Int) :=
  runesOf_of_ascii s.length s (Nat.le_refl _) ha

/-! ### byte(x) -/

theorem byteOfInt_toNat (c : UInt8) : byteOfInt (c.toNat : Int) = c := by
  unfold byteOfInt
  have h : c.toNat < 256 := c.toNat_lt
  have : ((c.toNat : Int) % 256).toNat = c.toNat := by omega
  rw [this]
  exact UInt8.ofNat_toNat

end GIV.ModuleGo
