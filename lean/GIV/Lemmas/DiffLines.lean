/-
  Lemmas about `lines` / `unlines` of GIV.Model.Diff: the round trip and injectivity.
-/
import GIV.Model.Diff

namespace GIV.Diff
open GIV

theorem noNewline_shape : ∃ t, noNewline = NL :: t ∧ t ≠ [] := by
  refine ⟨noNewline.tail, ?_, ?_⟩ <;> decide

theorem dropWhile_ne_append (cur r : Bytes) (h : NL ∉ cur) :
    (cur ++ r).dropWhile (· != NL) = r.dropWhile (· != NL) := by
  induction cur with
  | nil => rfl
  | cons c cur ih =>
    have hc : c ≠ NL := fun e => h (by simp [e])
    have : NL ∉ cur := fun m => h (by simp [m])
    simp [hc, ih this]

theorem takeWhile_ne_append (cur r : Bytes) (h : NL ∉ cur) :
    (cur ++ r).takeWhile (· != NL) = cur ++ r.takeWhile (· != NL) := by
  induction cur with
  | nil => rfl
  | cons c cur ih =>
    have hc : c ≠ NL := fun e => h (by simp [e])
    have : NL ∉ cur := fun m => h (by simp [m])
    simp [hc, ih this]

theorem unline_full (cur : Bytes) (h : NL ∉ cur) : unline (cur ++ [NL]) = cur ++ [NL] := by
  unfold unline
  rw [dropWhile_ne_append cur [NL] h]
  simp

theorem unline_noNewline (cur : Bytes) (h : NL ∉ cur) : unline (cur ++ noNewline) = cur := by
  obtain ⟨t, ht, hne⟩ := noNewline_shape
  unfold unline
  rw [dropWhile_ne_append cur _ h, takeWhile_ne_append cur _ h, ht]
  simp [hne]

theorem unlines_linesGo (cur b : Bytes) (h : NL ∉ cur) : unlines (linesGo cur b) = cur ++ b := by
  induction b generalizing cur with
  | nil =>
    unfold linesGo
    split
    · simp_all [unlines]
    · simp [unlines, unline_noNewline cur h]
  | cons c b ih =>
    unfold linesGo
    split
    · rename_i hc
      subst hc
      have := ih [] (by simp)
      simp only [unlines, List.flatMap_cons] at this ⊢
      rw [this, unline_full cur h]
      simp
    · rename_i hc
      have hn : NL ∉ cur ++ [c] := by
        simp only [List.mem_append, List.mem_singleton, not_or]
        exact ⟨h, fun e => hc e.symm⟩
      rw [ih _ hn]
      simp

/-- `unlines` undoes `lines` — also for texts that lack the final newline. -/
theorem unlines_lines' (b : Bytes) : unlines (lines b) = b := by
  simpa [lines] using unlines_linesGo [] b (by simp)

theorem lines_injective {a b : Bytes} (h : lines a = lines b) : a = b := by
  rw [← unlines_lines' a, ← unlines_lines' b, h]

end GIV.Diff
