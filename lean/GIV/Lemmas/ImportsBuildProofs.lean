/-
  Proofs for C19: model (GIV.Model.Build) = specification (GIV.Lemmas.ImportsBuildSpec).
-/
import GIV.Lemmas.ImportsBuild
import GIV.Lemmas.ImportsBuildSpec

namespace GIV.C19
open GIV GIV.Build GIV.Gen.ImportsBuild

/-! ### the generated constants are the property's constants -/
theorem tagLinux_eq : tagLinux = linux := by decide
theorem tagAndroid_eq : tagAndroid = android := by decide
theorem tagStar_eq : tagStar = star := by decide
theorem tagIgnore_eq : tagIgnore = ignore := by decide
theorem fileStar_eq : fileStar = star := by decide
theorem plusBuild_eq : plusBuild = plusBuildWord := by decide
theorem slashslash_eq : slashslash = slashes := by decide
theorem testTok_eq : testTok = testWord := by decide

/-! ### matchTag / matchTerm -/

theorem matchTag_eq (U : Nat → Bool) (name : Bytes) (tags : Tags) (want : Bool) (hne : name ≠ []) :
    matchTag U name tags want =
      (validName U name && (if tags star && name ≠ ignore then true else (sel tags name == want))) := by
  have h1 : tagRuneCheck = true := rfl
  have h2 : tagStarClause = true := rfl
  have h3 : androidClause = true := rfl
  have h4 : haveEqWant = true := rfl
  unfold matchTag validTag validName sel
  rw [h1, h2, h3, h4, tagStar_eq, tagIgnore_eq, tagLinux_eq, tagAndroid_eq]
  have hemp : name.isEmpty = false := by cases name <;> simp_all
  have hil : ignore ≠ linux := by decide
  rw [hemp]
  cases hv : tagRunesOK U name 0 <;> cases hs : tags star <;> by_cases hi : name = ignore <;>
    by_cases hl : name = linux <;> simp_all

theorem matchTerm_spec (U : Nat → Bool) (name : Bytes) (tags : Tags) (hne : name ≠ []) :
    matchTerm U name tags = evalTerm tags (parseTerm U name) := by
  have h1 : rejectsDoubleBang = true := rfl
  have h2 : bangNegates = true := rfl
  unfold matchTerm
  rw [h1, h2]
  match name, hne with
  | c :: rest, _ =>
    by_cases hc : c = 33
    · subst hc
      match rest with
      | [] => simp [parseTerm, validName, evalTerm]
      | d :: rest' =>
        by_cases hd : d = 33
        · subst hd; simp [parseTerm, validName, tagRunesOK, asciiTagByte, evalTerm]
        · have hd' : (33 == d) = false := by simp; exact fun h => hd h.symm
          simp only [hasPrefix_cons, hasPrefix_nil, hd', beq_self_eq_true, Bool.true_and, Bool.and_true,
            Bool.false_eq_true, if_false, if_true, List.drop_succ_cons, List.drop_zero, Bool.not_true]
          rw [matchTag_eq U (d :: rest') tags _ (by simp)]
          simp only [parseTerm]
          by_cases hv : validName U (d :: rest') = true
          · simp [hv, evalTerm]
          · simp [hv, evalTerm]
    · have hc' : (33 == c) = false := by simp; exact fun h => hc h.symm
      simp only [hasPrefix_cons, hasPrefix_nil, hc', Bool.false_and, Bool.and_false,
        Bool.false_eq_true, if_false]
      rw [matchTag_eq U (c :: rest) tags _ (by simp)]
      have : parseTerm U (c :: rest) = if validName U (c :: rest) then .tag (c :: rest) else .bad := by
        unfold parseTerm
        split
        · next heq => simp at heq; exact absurd heq.1 hc
        · rfl
      rw [this]
      by_cases hv : validName U (c :: rest) = true
      · simp [hv, evalTerm]
      · simp [hv, evalTerm]

theorem matchTerm_nil (U : Nat → Bool) (tags : Tags) : evalTerm tags (parseTerm U []) = false := by
  simp [parseTerm, validName, evalTerm]

/-- the comma recursion: AND over the comma-separated pieces. -/
theorem matchTagsAux_spec (U : Nat → Bool) (tags : Tags) :
    ∀ (n : Nat) (name : Bytes), name.length < n →
      matchTagsAux U tags n name = (parseOption U name).all (evalTerm tags) := by
  have h1 : emptyIsFalse = true := rfl
  have h2 : commaIsAnd = true := rfl
  intro n
  induction n with
  | zero => intro name h; omega
  | succ n ih =>
    intro name hlen
    unfold matchTagsAux
    rw [h1, h2]
    by_cases hemp : name = []
    · subst hemp
      simp [parseOption, splitOn, matchTerm_nil]
    · have : name.isEmpty = false := by cases name <;> simp_all
      simp only [this, Bool.and_false, Bool.false_eq_true, if_false, if_true]
      rcases cutAt_cases 44 name with ⟨l, r, hcut⟩ | ⟨l, hcut⟩
      · obtain ⟨hname, hsplit⟩ := cutAt_some hcut
        have hl : l.length < n := by rw [hname] at hlen; simp at hlen; omega
        have hr : r.length < n := by rw [hname] at hlen; simp at hlen; omega
        rw [hcut]
        simp only
        rw [ih l hl, ih r hr]
        have hl1 : splitOn 44 l = [l] := by
          have := splitOn_cutAt_fst 44 name
          rwa [hcut] at this
        simp [parseOption, hsplit, hl1]
      · obtain ⟨_, hsplit⟩ := cutAt_none hcut
        rw [hcut]
        simp only
        rw [matchTerm_spec U name tags hemp]
        simp [parseOption, hsplit]

theorem matchTags_eq (U : Nat → Bool) (name : Bytes) (tags : Tags) :
    matchTags U name tags = (parseOption U name).all (evalTerm tags) :=
  matchTagsAux_spec U tags _ name (by omega)

/-! ### lines -/

theorem dropLastEmpty_cons (l : Bytes) (xs : List Bytes) (h : xs ≠ []) :
    dropLastEmpty (l :: xs) = l :: dropLastEmpty xs := by
  unfold dropLastEmpty
  have : (l :: xs).getLast? = xs.getLast? := by
    cases xs with
    | nil => exact absurd rfl h
    | cons y ys => simp [List.getLast?_cons_cons]
  rw [this]
  split
  · cases xs with
    | nil => exact absurd rfl h
    | cons y ys => simp [List.dropLast]
  · rfl

theorem linesOf_nil : linesOf [] = [] := by simp [linesOf, splitOn, dropLastEmpty]

theorem linesOf_some {p l r : Bytes} (h : cutAt 10 p = (l, some r)) : linesOf p = l :: linesOf r := by
  unfold linesOf
  rw [(cutAt_some h).2, dropLastEmpty_cons _ _ (splitOn_ne_nil _ _)]

theorem linesOf_none {p l : Bytes} (h : cutAt 10 p = (l, none)) (hp : p ≠ []) : linesOf p = [p] := by
  unfold linesOf
  rw [(cutAt_none h).2]
  simp [dropLastEmpty, hp]

theorem linesOf_ne_nil {p : Bytes} (hp : p ≠ []) : linesOf p ≠ [] := by
  rcases cutAt_cases 10 p with ⟨l, r, h⟩ | ⟨l, h⟩
  · rw [linesOf_some h]; simp
  · rw [linesOf_none h hp]; simp

/-! ### pass 1: the byte offset `end` against the leading block -/

/-- the byte prefix of `p` that makes up its leading block. -/
def blockBytes : Nat → Bytes → Bytes
  | 0, _ => []
  | n+1, p =>
    if p.isEmpty then [] else
    let lp := cutLine p
    let line := trimSpace lp.1
    let chunk := p.take (p.length - lp.2.length)
    if line.isEmpty then chunk ++ blockBytes n lp.2
    else if !hasPrefix slashes line then []
    else match blockBytes n lp.2 with
      | [] => []
      | b => chunk ++ b

theorem blockBytes_nil (n : Nat) : blockBytes n [] = [] := by
  cases n <;> simp [blockBytes]

/-- `cutLine` splits `p` into the consumed chunk (line and its newline) and the rest. -/
theorem cutLine_chunk (p : Bytes) (hp : p ≠ []) :
    p = p.take (p.length - (cutLine p).2.length) ++ (cutLine p).2 ∧
    p.take (p.length - (cutLine p).2.length) ≠ [] ∧ (cutLine p).2.length < p.length := by
  unfold cutLine
  rcases cutAt_cases 10 p with ⟨l, r, h⟩ | ⟨l, h⟩
  · rw [h]
    have hp' := (cutAt_some h).1
    simp only
    have hlen : p.length - r.length = l.length + 1 := by rw [hp']; simp; omega
    rw [hlen]
    refine ⟨?_, ?_, ?_⟩
    · conv => lhs; rw [hp']
      rw [hp']
      have : (l ++ 10 :: r).take (l.length + 1) = l ++ [10] := by
        rw [show l ++ 10 :: r = (l ++ [10]) ++ r by simp, List.take_left' (by simp)]
      rw [this]; simp
    · rw [hp']
      have : (l ++ 10 :: r).take (l.length + 1) = l ++ [10] := by
        rw [show l ++ 10 :: r = (l ++ [10]) ++ r by simp, List.take_left' (by simp)]
      rw [this]; simp
    · rw [hp']; simp; omega
  · rw [h]
    simp only [List.length_nil, Nat.sub_zero, List.take_length, List.append_nil, true_and]
    exact ⟨hp, List.length_pos_iff.mpr hp⟩

theorem pass1_blockBytes : ∀ (n : Nat) (p pre : Bytes) (e : Nat), p.length ≤ n → e ≤ pre.length →
    (pre ++ p).take (pass1 n (pre ++ p).length p e) =
      if blockBytes n p = [] then (pre ++ p).take e else pre ++ blockBytes n p := by
  have h1 : sbNonCommentBreaks = true := rfl
  have h2 : sbBlankOnlySetsEnd = true := rfl
  intro n
  induction n with
  | zero =>
    intro p pre e hp he
    have : p = [] := List.eq_nil_of_length_eq_zero (by omega)
    subst this
    simp [pass1, blockBytes]
  | succ n ih =>
    intro p pre e hp he
    unfold pass1 blockBytes
    by_cases hemp : p = []
    · subst hemp; simp
    · have hne : p.isEmpty = false := by cases p <;> simp_all
      obtain ⟨hsplit, hchunk, hlt⟩ := cutLine_chunk p hemp
      simp only [hne, Bool.false_eq_true, if_false, h1, h2, Bool.true_and, if_true, slashslash_eq]
      generalize hck : p.take (p.length - (cutLine p).2.length) = chunk at *
      generalize hr : (cutLine p).2 = r at *
      have hrn : r.length ≤ n := by omega
      have htot : (pre ++ p).length - r.length = (pre ++ chunk).length := by
        rw [hsplit]; simp; omega
      have hpp : pre ++ p = (pre ++ chunk) ++ r := by rw [hsplit]; simp
      by_cases hb : (trimSpace (cutLine p).1).isEmpty = true
      · simp only [hb, if_true]
        rw [htot, hpp, ih r (pre ++ chunk) _ hrn (Nat.le_refl _)]
        have : chunk ++ blockBytes n r ≠ [] := by simp [hchunk]
        simp only [this, if_false]
        split
        · next h0 =>
          rw [h0, List.append_nil, List.take_left' rfl]
        · simp
      · simp only [hb, Bool.false_eq_true, if_false]
        by_cases hc : hasPrefix slashes (trimSpace (cutLine p).1) = true
        · simp only [hc, Bool.not_true, Bool.false_eq_true, if_false]
          rw [hpp, ih r (pre ++ chunk) e hrn (by simp; omega)]
          cases hbb : blockBytes n r with
          | nil => simp
          | cons x xs => simp
        · simp [hc]

theorem linesOf_blockBytes : ∀ (n : Nat) (p : Bytes), p.length ≤ n →
    linesOf (blockBytes n p) = leadingBlock (linesOf p) := by
  intro n
  induction n with
  | zero =>
    intro p hp
    have : p = [] := List.eq_nil_of_length_eq_zero (by omega)
    subst this
    simp [blockBytes, linesOf_nil, leadingBlock]
  | succ n ih =>
    intro p hp
    unfold blockBytes
    by_cases hemp : p = []
    · subst hemp; simp [linesOf_nil, leadingBlock]
    · have hne : p.isEmpty = false := by cases p <;> simp_all
      simp only [hne, Bool.false_eq_true, if_false]
      rcases cutAt_cases 10 p with ⟨l, r, h⟩ | ⟨l, h⟩
      · have hp' := (cutAt_some h).1
        have hcl : cutLine p = (l, r) := by simp [cutLine, h]
        have hrn : r.length ≤ n := by rw [hp'] at hp; simp at hp; omega
        have hchunk : p.take (p.length - r.length) = l ++ [10] := by
          have hlen : p.length - r.length = l.length + 1 := by rw [hp']; simp; omega
          rw [hlen, hp', show l ++ 10 :: r = (l ++ [10]) ++ r by simp, List.take_left' (by simp)]
        have hcons : ∀ X, linesOf ((l ++ [10]) ++ X) = l :: linesOf X := by
          intro X
          have := cutAt_append h X
          rw [show (l ++ [10]) ++ X = l ++ 10 :: X by simp]
          exact linesOf_some this
        rw [hcl, linesOf_some h]
        simp only [hchunk]
        unfold leadingBlock
        simp only [isBlank, isComment]
        by_cases hb : (trimSpace l).isEmpty = true
        · simp only [hb, if_true]
          rw [hcons, ih r hrn]
        · simp only [hb, Bool.false_eq_true, if_false]
          by_cases hc : hasPrefix slashes (trimSpace l) = true
          · simp only [hc, Bool.not_true, Bool.false_eq_true, if_false, if_true]
            have ihr := ih r hrn
            cases hbb : blockBytes n r with
            | nil =>
              rw [hbb, linesOf_nil] at ihr
              simp [← ihr, linesOf_nil]
            | cons x xs =>
              have hne' : linesOf (x :: xs) ≠ [] := linesOf_ne_nil (by simp)
              rw [hbb] at ihr
              simp only
              rw [hcons, ← ihr]
              cases hl : linesOf (x :: xs) with
              | nil => exact absurd hl hne'
              | cons y ys => rfl
          · simp [hc, linesOf_nil]
      · have hl := (cutAt_none h).1
        rw [hl] at h
        have hcl : cutLine p = (p, []) := by simp [cutLine, h]
        rw [hcl, linesOf_none h hemp]
        simp only [List.length_nil, Nat.sub_zero, List.take_length, blockBytes_nil, List.append_nil]
        unfold leadingBlock
        simp only [isBlank, isComment, leadingBlock]
        by_cases hb : (trimSpace p).isEmpty = true
        · simp [hb, linesOf_none h hemp]
        · by_cases hc : hasPrefix slashes (trimSpace p) = true
          · simp [hb, hc, linesOf_nil]
          · simp [hb, hc, linesOf_nil]

/-! ### pass 2 -/

theorem bne_none_some_false : ((none : Option Bool) != some false) = true := by decide
theorem bne_some_true_some_false : ((some true : Option Bool) != some false) = true := by decide
theorem bne_some_false_some_false : ((some false : Option Bool) != some false) = false := by decide

theorem pass2_spec (U : Nat → Bool) (tags : Tags) : ∀ (n : Nat) (p : Bytes) (allok : Bool), p.length ≤ n →
    pass2 U tags n p allok = (allok && (linesOf p).all (fun l => buildLine U tags l != some false)) := by
  intro n
  induction n with
  | zero =>
    intro p allok hp
    have : p = [] := List.eq_nil_of_length_eq_zero (by omega)
    subst this
    simp [pass2, linesOf_nil]
  | succ n ih =>
    intro p allok hp
    unfold pass2
    by_cases hemp : p = []
    · subst hemp; simp [linesOf_nil]
    · have hne : p.isEmpty = false := by cases p <;> simp_all
      simp only [hne, Bool.false_eq_true, if_false]
      rcases cutAt_cases 10 p with ⟨l, r, h⟩ | ⟨l, h⟩
      · have hp' := (cutAt_some h).1
        have hcl : cutLine p = (l, r) := by simp [cutLine, h]
        have hrn : r.length ≤ n := by rw [hp'] at hp; simp at hp; omega
        rw [hcl, linesOf_some h]
        simp only [List.all_cons]
        cases hbl : buildLine U tags l with
        | none => simp [ih r allok hrn, bne_none_some_false]
        | some v => cases v <;> simp [ih r _ hrn, bne_some_true_some_false]
      · have hl := (cutAt_none h).1
        rw [hl] at h
        have hcl : cutLine p = (p, []) := by simp [cutLine, h]
        rw [hcl, linesOf_none h hemp]
        simp only [List.all_cons, List.all_nil, Bool.and_true]
        cases hbl : buildLine U tags p with
        | none => simp [ih [] allok (by simp), linesOf_nil, bne_none_some_false]
        | some v => cases v <;> simp [ih [] _ (by simp), linesOf_nil, bne_some_true_some_false]

theorem buildLine_spec (U : Nat → Bool) (tags : Tags) (l : Bytes) :
    buildLine U tags l = (plusBuildArgs l).map (fun args => evalLine tags (parseLine U args)) := by
  have h1 : sbTokensOr = true := rfl
  unfold buildLine plusBuildArgs isComment commentText
  rw [slashslash_eq, plusBuild_eq]
  by_cases hc : hasPrefix slashes (trimSpace l) = true
  · simp only [hc, Bool.not_true, Bool.false_eq_true, if_false, true_and]
    have : slashes.length = 2 := rfl
    rw [this]
    cases hline : trimSpace (List.drop 2 (trimSpace l)) with
    | nil => simp
    | cons c rest =>
      by_cases h43 : c = 43
      · subst h43
        simp only [List.head?_cons, if_true, ne_eq, not_true_eq_false, if_false]
        cases hf : fields (43 :: rest) with
        | nil => simp
        | cons f0 toks =>
          simp only
          by_cases hf0 : f0 = plusBuildWord
          · simp only [hf0, if_true, Option.map_some, Option.some.injEq]
            unfold lineOK evalLine parseLine
            rw [h1]
            simp only [if_true, List.any_map]
            congr 1
            funext t
            simp [matchTags_eq]
          · simp [hf0]
      · simp [h43]
  · simp [hc]

theorem shouldBuild_eq_spec (U : Nat → Bool) (c : Bytes) (tags : Tags) :
    shouldBuild U c tags = shouldBuildSpec U c tags := by
  unfold shouldBuild shouldBuildSpec
  have hp1 := pass1_blockBytes c.length c [] 0 (Nat.le_refl _) (Nat.le_refl _)
  simp only [List.nil_append, List.take_zero] at hp1
  have htake : c.take (pass1 c.length c.length c 0) = blockBytes c.length c := by
    rw [hp1]; split <;> simp_all
  simp only [htake]
  rw [pass2_spec U tags _ _ true (Nat.le_refl _), linesOf_blockBytes _ _ (Nat.le_refl _)]
  simp only [Bool.true_and]
  congr 1
  funext l
  rw [buildLine_spec]
  unfold lineSatisfied
  cases plusBuildArgs l with
  | none => simp
  | some args =>
    simp only [Option.map_some]
    generalize evalLine tags (parseLine U args) = v
    cases v <;> decide

/-! ### MatchFile -/

theorem tagRunesOK_ascii (U : Nat → Bool) : ∀ (t : Bytes), t.all (fun b => decide (b < 0x80) && asciiTagByte b) = true →
    tagRunesOK U t 0 = true := by
  intro t
  induction t with
  | nil => intro _; simp [tagRunesOK]
  | cons b rest ih =>
    intro h
    simp only [List.all_cons, Bool.and_eq_true, decide_eq_true_eq] at h
    unfold tagRunesOK
    simp only [h.1.1, if_true, h.1.2, Bool.true_and]
    exact ih h.2

theorem knownOS_ascii : (fields goosList).all (fun t => !t.isEmpty && t.all (fun b => decide (b < 0x80) && asciiTagByte b)) = true := by
  decide
theorem knownArch_ascii : (fields goarchList).all (fun t => !t.isEmpty && t.all (fun b => decide (b < 0x80) && asciiTagByte b)) = true := by
  decide

theorem known_valid (U : Nat → Bool) (t : Bytes) (h : knownOS t = true ∨ knownArch t = true) :
    validName U t = true := by
  have key : ∀ (L : List Bytes), L.all (fun t => !t.isEmpty && t.all (fun b => decide (b < 0x80) && asciiTagByte b)) = true →
      L.contains t = true → validName U t = true := by
    intro L hall hc
    have hm : t ∈ L := by simpa using hc
    have := (List.all_eq_true.mp hall) t hm
    simp only [Bool.and_eq_true] at this
    unfold validName
    simp only [this.1, Bool.true_and]
    exact tagRunesOK_ascii U t this.2
  rcases h with h | h
  · exact key _ knownOS_ascii h
  · exact key _ knownArch_ascii h

theorem fileSel_known (U : Nat → Bool) (tags : Tags) (t : Bytes) (h : knownOS t = true ∨ knownArch t = true)
    (hs : tags star = false) : fileSel U tags t = sel tags t := by
  have h1 : fileViaMatchTag = true := rfl
  have hv := known_valid U t h
  have hne : t ≠ [] := by
    intro h0; subst h0; simp [validName] at hv
  unfold fileSel
  rw [h1]
  simp only [if_true]
  rw [matchTag_eq U t tags true hne, hv, hs]
  simp

theorem applyRules_false_iff (U : Nat → Bool) (tags : Tags) (rl : List Bytes) (hs : tags star = false) :
    applyRules U tags rl fileRules = false ↔ suffixUnselected tags rl := by
  have hr : fileRules = [1, 2, 3] := rfl
  rw [hr]
  unfold suffixUnselected
  match rl with
  | [] => simp [applyRules, applyRule]
  | [t] =>
    by_cases ho : knownOS t = true
    · simp [applyRules, applyRule, ho, fileSel_known U tags t (Or.inl ho) hs]
    · by_cases ha : knownArch t = true
      · simp [applyRules, applyRule, ho, ha, fileSel_known U tags t (Or.inr ha) hs]
      · simp [applyRules, applyRule, ho, ha]
  | a :: o :: rest =>
    by_cases h1 : knownOS o = true ∧ knownArch a = true
    · have e1 := fileSel_known U tags o (Or.inl h1.1) hs
      have e2 := fileSel_known U tags a (Or.inr h1.2) hs
      simp only [applyRules, applyRule, h1.1, h1.2, Bool.and_self, if_true, e1, e2]
      constructor
      · intro h
        left
        refine ⟨a, o, rest, rfl, h1.1, h1.2, ?_⟩
        cases hso : sel tags o <;> cases hsa : sel tags a <;> simp_all
      · rintro (⟨a', o', rest', heq, _, _, hsel⟩ | ⟨t, rest', heq, _, hsel⟩)
        · simp only [List.cons.injEq] at heq
          obtain ⟨rfl, rfl, _⟩ := heq
          rcases hsel with h | h <;> simp [h]
        · simp only [List.cons.injEq] at heq
          obtain ⟨rfl, _⟩ := heq
          simp [hsel]
    · have h1' : (knownOS o && knownArch a) = false := by
        cases h2 : knownOS o <;> cases h3 : knownArch a <;> simp_all
      by_cases ho : knownOS a = true
      · have e := fileSel_known U tags a (Or.inl ho) hs
        simp only [applyRules, applyRule, h1', Bool.false_eq_true, if_false, ho, if_true, e]
        constructor
        · intro h; right; exact ⟨a, o :: rest, rfl, Or.inl ho, h⟩
        · rintro (⟨a', o', rest', heq, h2, h3, _⟩ | ⟨t, rest', heq, _, hsel⟩)
          · simp only [List.cons.injEq] at heq
            obtain ⟨rfl, rfl, _⟩ := heq
            exact absurd ⟨h2, h3⟩ h1
          · simp only [List.cons.injEq] at heq
            obtain ⟨rfl, _⟩ := heq
            exact hsel
      · by_cases ha : knownArch a = true
        · have e := fileSel_known U tags a (Or.inr ha) hs
          have hoo : knownOS o = false := by
            cases h2 : knownOS o
            · rfl
            · exact absurd ⟨h2, ha⟩ h1
          simp only [applyRules, applyRule, hoo, Bool.false_and, Bool.false_eq_true, if_false, ho, ha, if_true, e]
          constructor
          · intro h; right; exact ⟨a, o :: rest, rfl, Or.inr ha, h⟩
          · rintro (⟨a', o', rest', heq, h2, h3, _⟩ | ⟨t, rest', heq, _, hsel⟩)
            · simp only [List.cons.injEq] at heq
              obtain ⟨rfl, rfl, _⟩ := heq
              exact absurd ⟨h2, h3⟩ h1
            · simp only [List.cons.injEq] at heq
              obtain ⟨rfl, _⟩ := heq
              exact hsel
        · simp only [applyRules, applyRule, h1', Bool.false_eq_true, if_false, ho, ha]
          constructor
          · intro h; exact absurd h (by simp)
          · rintro (⟨a', o', rest', heq, h2, h3, _⟩ | ⟨t, rest', heq, hk, _⟩)
            · simp only [List.cons.injEq] at heq
              obtain ⟨rfl, rfl, _⟩ := heq
              exact absurd ⟨h2, h3⟩ h1
            · simp only [List.cons.injEq] at heq
              obtain ⟨rfl, _⟩ := heq
              rcases hk with hk | hk
              · exact absurd hk ho
              · exact absurd hk ha

theorem matchFile_false_iff (U : Nat → Bool) (name : Bytes) (tags : Tags) :
    matchFile U name tags = false ↔
      tags star = false ∧ ∃ rl, fileSegsRev name = some rl ∧ suffixUnselected tags rl := by
  have h1 : fileStarFirst = true := rfl
  unfold matchFile
  rw [h1, fileStar_eq]
  cases hs : tags star with
  | true => simp
  | false =>
    simp only [Bool.true_and, Bool.false_eq_true, if_false, true_and]
    cases hf : fileSegsRev name with
    | none => simp
    | some rl =>
      simp only [Option.some.injEq, exists_eq_left']
      exact applyRules_false_iff U tags rl hs

theorem matchFile_star (U : Nat → Bool) (name : Bytes) (tags : Tags) (hs : tags star = true) :
    matchFile U name tags = true := by
  have h1 : fileStarFirst = true := rfl
  unfold matchFile
  rw [h1, fileStar_eq, hs]
  simp

/-! ### the leading block, characterised (sanity of the specification itself) -/

theorem leadingBlock_prefix : ∀ (ls : List Bytes), leadingBlock ls <+: ls := by
  intro ls
  induction ls with
  | nil => simp [leadingBlock]
  | cons l ls ih =>
    unfold leadingBlock
    split
    · exact List.prefix_cons_inj l |>.mpr ih
    · split
      · split
        · exact List.nil_prefix
        · next hne => 
          exact List.prefix_cons_inj l |>.mpr ih
      · exact List.nil_prefix

theorem leadingBlock_lines : ∀ (ls : List Bytes), ∀ l ∈ leadingBlock ls, isBlank l = true ∨ isComment l = true := by
  intro ls
  induction ls with
  | nil => simp [leadingBlock]
  | cons x xs ih =>
    intro l hl
    unfold leadingBlock at hl
    split at hl
    · next hb =>
      rcases List.mem_cons.mp hl with rfl | h
      · exact Or.inl hb
      · exact ih l h
    · split at hl
      · next hc =>
        split at hl
        · simp at hl
        · rcases List.mem_cons.mp hl with rfl | h
          · exact Or.inr hc
          · exact ih l h
      · simp at hl

theorem leadingBlock_ends_blank : ∀ (ls : List Bytes) (l : Bytes), (leadingBlock ls).getLast? = some l →
    isBlank l = true := by
  intro ls
  induction ls with
  | nil => intro l h; simp [leadingBlock] at h
  | cons x xs ih =>
    intro l h
    unfold leadingBlock at h
    split at h
    · next hb =>
      cases hx : leadingBlock xs with
      | nil => rw [hx] at h; simp at h; rw [← h]; exact hb
      | cons y ys =>
        rw [hx, List.getLast?_cons_cons] at h
        exact ih l (by rw [hx]; exact h)
    · split at h
      · split at h
        · simp at h
        · next hne =>
          cases hx : leadingBlock xs with
          | nil => exact absurd hx hne
          | cons y ys =>
            rw [hx, List.getLast?_cons_cons] at h
            exact ih l (by rw [hx]; exact h)
      · simp at h

/-- maximality: any prefix of blank / comment lines that ends in a blank line lies within the block. -/
theorem leadingBlock_maximal : ∀ (ls : List Bytes) (k : Nat), k ≤ ls.length →
    (∀ l ∈ ls.take k, isBlank l = true ∨ isComment l = true) →
    (∃ l, (ls.take k).getLast? = some l ∧ isBlank l = true) → k ≤ (leadingBlock ls).length := by
  intro ls
  induction ls with
  | nil => intro k hk _ _; simp at hk; subst hk; simp
  | cons x xs ih =>
    intro k hk hall hlast
    cases k with
    | zero => omega
    | succ k =>
      simp only [List.take_succ_cons] at hall hlast
      have hx := hall x (by simp)
      have hk' : k ≤ xs.length := by simpa using hk
      have hall' : ∀ l ∈ xs.take k, isBlank l = true ∨ isComment l = true :=
        fun l hl => hall l (List.mem_cons_of_mem _ hl)
      unfold leadingBlock
      by_cases hb : isBlank x = true
      · simp only [hb, if_true, List.length_cons]
        cases k with
        | zero => omega
        | succ k' =>
          have : ∃ l, (xs.take (k' + 1)).getLast? = some l ∧ isBlank l = true := by
            obtain ⟨l, h1, h2⟩ := hlast
            cases hxs : xs.take (k' + 1) with
            | nil =>
              cases xs with
              | nil => simp at hk'
              | cons y ys => simp at hxs
            | cons y ys =>
              rw [hxs, List.getLast?_cons_cons] at h1
              exact ⟨l, h1, h2⟩
          have := ih (k' + 1) hk' hall' this
          omega
      · have hc : isComment x = true := by
          rcases hx with h | h
          · exact absurd h hb
          · exact h
        simp only [hb, Bool.false_eq_true, if_false, hc, if_true]
        cases k with
        | zero =>
          obtain ⟨l, h1, h2⟩ := hlast
          simp at h1
          rw [← h1] at h2
          exact absurd h2 hb
        | succ k' =>
          have hl' : ∃ l, (xs.take (k' + 1)).getLast? = some l ∧ isBlank l = true := by
            obtain ⟨l, h1, h2⟩ := hlast
            cases hxs : xs.take (k' + 1) with
            | nil =>
              cases xs with
              | nil => simp at hk'
              | cons y ys => simp at hxs
            | cons y ys =>
              rw [hxs, List.getLast?_cons_cons] at h1
              exact ⟨l, h1, h2⟩
          have hle := ih (k' + 1) hk' hall' hl'
          cases hlb : leadingBlock xs with
          | nil => rw [hlb] at hle; simp at hle
          | cons y ys =>
            rw [hlb] at hle
            simp only [List.length_cons] at hle ⊢
            omega

end GIV.C19
