/-
  GIV.Lemmas.TxtarLines — algebra of `cutNL` / `splitLines` / `joinLines` / `fixNL`.
-/
import GIV.Model.Txtar

namespace GIV.Txtar
open GIV

/-! ### fixNL -/

theorem fixNL_nil : fixNL [] = [] := by simp [fixNL]

theorem fixNL_of_ends {b : Bytes} (h : b = [] ∨ b.getLast? = some NL) : fixNL b = b := by
  unfold fixNL
  rcases h with h | h <;> simp [h]

theorem fixNL_ends (b : Bytes) : fixNL b = [] ∨ (fixNL b).getLast? = some NL := by
  unfold fixNL
  split
  · rename_i h
    rcases h with h | h
    · left; simpa using h
    · right; exact h
  · right; simp

theorem fixNL_idem (b : Bytes) : fixNL (fixNL b) = fixNL b :=
  fixNL_of_ends (fixNL_ends b)

theorem fixNL_eq_nil {b : Bytes} : fixNL b = [] ↔ b = [] := by
  unfold fixNL
  split <;> simp_all

theorem fixNL_of_not_ends {b : Bytes} (h1 : b ≠ []) (h2 : b.getLast? ≠ some NL) :
    fixNL b = b ++ [NL] := by
  unfold fixNL
  simp [h1, h2]

/-! ### cutNL -/

theorem cutNL_length {b l rest : Bytes} (h : cutNL b = (l, some rest)) : rest.length < b.length := by
  induction b generalizing l with
  | nil => simp [cutNL] at h
  | cons x xs ih =>
    unfold cutNL at h
    split at h
    · simp at h; simp [h.2]
    · simp only [Prod.mk.injEq] at h
      have := ih (l := (cutNL xs).1) (by rw [← h.2])
      simp; omega

theorem cutNL_append_nl {body : Bytes} (rest : Bytes) (h : NL ∉ body) :
    cutNL (body ++ NL :: rest) = (body, some rest) := by
  induction body with
  | nil => simp [cutNL]
  | cons x xs ih =>
    simp only [List.mem_cons, not_or] at h
    have hx : x ≠ NL := fun e => h.1 e.symm
    simp [cutNL, hx, ih h.2]

theorem cutNL_no_nl {body : Bytes} (h : NL ∉ body) : cutNL body = (body, none) := by
  induction body with
  | nil => simp [cutNL]
  | cons x xs ih =>
    simp only [List.mem_cons, not_or] at h
    have hx : x ≠ NL := fun e => h.1 e.symm
    simp [cutNL, hx, ih h.2]

/-! ### splitLines: fuel independence and clean recursions -/

theorem splitLinesAux_fuel (n m : Nat) (b : Bytes) (hn : b.length ≤ n) (hm : b.length ≤ m) :
    splitLinesAux n b = splitLinesAux m b := by
  induction n generalizing m b with
  | zero =>
    have : b = [] := by simpa using hn
    subst this
    cases m <;> simp [splitLinesAux]
  | succ n ih =>
    cases m with
    | zero =>
      have : b = [] := by simpa using hm
      subst this
      simp [splitLinesAux]
    | succ m =>
      unfold splitLinesAux
      split
      · rfl
      · split
        · rename_i l rest hc
          have := cutNL_length hc
          rw [ih m rest (by omega) (by omega)]
        · rfl

theorem splitLines_nil : splitLines [] = [] := by simp [splitLines, splitLinesAux]

theorem splitLinesAux_succ (n : Nat) (b : Bytes) :
    splitLinesAux (n+1) b = if b.isEmpty then [] else
      match cutNL b with
      | (l, some rest) => ⟨l, true⟩ :: splitLinesAux n rest
      | (l, none) => [⟨l, false⟩] := by
  rw [splitLinesAux]; rfl

/-- Recursion along `cutNL`. -/
theorem splitLines_eq (b : Bytes) (hb : b ≠ []) :
    splitLines b = match cutNL b with
      | (l, some rest) => ⟨l, true⟩ :: splitLines rest
      | (l, none) => [⟨l, false⟩] := by
  cases b with
  | nil => exact absurd rfl hb
  | cons x xs =>
    show splitLinesAux (xs.length + 1) (x :: xs) = _
    rw [splitLinesAux_succ]
    simp only [List.isEmpty_cons, Bool.false_eq_true, if_false]
    split
    · rename_i l rest hc
      have := cutNL_length hc
      simp only [List.length_cons] at this
      rw [splitLinesAux_fuel xs.length rest.length rest (by omega) (by omega)]
      rfl
    · rfl

theorem splitLines_line_nl {body : Bytes} (rest : Bytes) (h : NL ∉ body) :
    splitLines (body ++ NL :: rest) = ⟨body, true⟩ :: splitLines rest := by
  rw [splitLines_eq _ (by simp), cutNL_append_nl rest h]

theorem splitLines_line_eof {body : Bytes} (h : NL ∉ body) (hne : body ≠ []) :
    splitLines body = [⟨body, false⟩] := by
  rw [splitLines_eq _ hne, cutNL_no_nl h]

/-- Recursion on the first byte. -/
theorem splitLines_cons (x : UInt8) (xs : Bytes) :
    splitLines (x :: xs) =
      if x = NL then ⟨[], true⟩ :: splitLines xs else
      match splitLines xs with
      | [] => [⟨[x], false⟩]
      | l :: ls => ⟨x :: l.body, l.nl⟩ :: ls := by
  rw [splitLines_eq _ (by simp)]
  by_cases hx : x = NL
  · simp [cutNL, hx]
  · simp only [cutNL, hx, if_false]
    cases xs with
    | nil => simp [cutNL, splitLines_nil]
    | cons y ys =>
      rw [splitLines_eq (y :: ys) (by simp)]
      generalize cutNL (y :: ys) = r
      obtain ⟨l, _ | rest⟩ := r <;> simp

/-! ### well-shaped line lists -/

/-- Shape of `splitLines` output: no body contains '\n', only the last line may lack its
'\n', and then it is non-empty. -/
def LinesOK : List Line → Prop
  | [] => True
  | [l] => NL ∉ l.body ∧ (l.nl = false → l.body ≠ [])
  | l :: l' :: ls => NL ∉ l.body ∧ l.nl = true ∧ LinesOK (l' :: ls)

theorem LinesOK_cons {l : Line} {ls : List Line} (h : LinesOK (l :: ls)) :
    NL ∉ l.body ∧ (ls ≠ [] → l.nl = true) ∧ (l.nl = false → l.body ≠ []) ∧ LinesOK ls := by
  cases ls with
  | nil => simp [LinesOK] at h ⊢; exact h
  | cons l' ls =>
    simp only [LinesOK] at h
    refine ⟨h.1, fun _ => h.2.1, ?_, h.2.2⟩
    simp [h.2.1]

theorem LinesOK_cons_nl {body : Bytes} {ls : List Line} (h1 : NL ∉ body) (h2 : LinesOK ls) :
    LinesOK (⟨body, true⟩ :: ls) := by
  cases ls with
  | nil => simp [LinesOK, h1]
  | cons l' ls => simp [LinesOK, h1, h2]

theorem LinesOK_body {ls : List Line} (h : LinesOK ls) : ∀ l ∈ ls, NL ∉ l.body := by
  induction ls with
  | nil => simp
  | cons l ls ih =>
    have := LinesOK_cons h
    intro l' hl'
    rcases List.mem_cons.mp hl' with rfl | hl'
    · exact this.1
    · exact ih this.2.2.2 l' hl'

theorem splitLines_ok (b : Bytes) : LinesOK (splitLines b) := by
  induction b with
  | nil => simp [splitLines_nil, LinesOK]
  | cons x xs ih =>
    rw [splitLines_cons]
    split
    · exact LinesOK_cons_nl (by simp) ih
    · rename_i hx
      split
      · simp [LinesOK]; exact fun e => hx e.symm
      · rename_i l ls heq
        rw [heq] at ih
        cases ls with
        | nil =>
          simp only [LinesOK] at ih ⊢
          refine ⟨?_, by simp⟩
          simp only [List.mem_cons, not_or]
          exact ⟨fun e => hx e.symm, ih.1⟩
        | cons l' ls =>
          simp only [LinesOK] at ih ⊢
          refine ⟨?_, ih.2⟩
          simp only [List.mem_cons, not_or]
          exact ⟨fun e => hx e.symm, ih.1⟩

theorem joinLines_nil : joinLines [] = [] := rfl

theorem joinLines_cons (l : Line) (ls : List Line) : joinLines (l :: ls) = l.bytes ++ joinLines ls := by
  simp [joinLines]

theorem joinLines_append (a b : List Line) : joinLines (a ++ b) = joinLines a ++ joinLines b := by
  simp [joinLines]

theorem joinLines_splitLines (b : Bytes) : joinLines (splitLines b) = b := by
  induction b with
  | nil => simp [splitLines_nil, joinLines]
  | cons x xs ih =>
    rw [splitLines_cons]
    split
    · rename_i hx
      simp [joinLines_cons, Line.bytes, ih, hx]
    · split
      · rename_i heq
        rw [heq] at ih
        simp [joinLines] at ih
        simp [joinLines, Line.bytes, ih]
      · rename_i l ls heq
        rw [heq, joinLines_cons] at ih
        rw [joinLines_cons, ← ih]
        simp only [Line.bytes]
        split <;> simp

theorem splitLines_joinLines {ls : List Line} (h : LinesOK ls) : splitLines (joinLines ls) = ls := by
  induction ls with
  | nil => simp [joinLines, splitLines_nil]
  | cons l ls ih =>
    obtain ⟨h1, h2, h3, h4⟩ := LinesOK_cons h
    obtain ⟨body, nl⟩ := l
    rw [joinLines_cons]
    cases nl with
    | true =>
      simp only [Line.bytes, if_true, List.append_assoc, List.singleton_append]
      rw [splitLines_line_nl _ h1, ih h4]
    | false =>
      have : ls = [] := by
        by_cases e : ls = []
        · exact e
        · simpa using h2 e
      subst this
      simp only [Line.bytes, joinLines, List.flatMap_nil, List.append_nil]
      simp only [Bool.false_eq_true, if_false]
      exact splitLines_line_eof h1 (h3 rfl)

/-- every byte of a line of `b` is a byte of `b`. -/
theorem mem_of_mem_splitLines {b : Bytes} {l : Line} (hl : l ∈ splitLines b) :
    ∀ x ∈ l.body, x ∈ b := by
  intro x hx
  have : x ∈ joinLines (splitLines b) := by
    simp only [joinLines, List.mem_flatMap]
    refine ⟨l, hl, ?_⟩
    simp only [Line.bytes]
    split <;> simp [hx]
  rwa [joinLines_splitLines] at this

theorem splitLines_eq_nil {b : Bytes} : splitLines b = [] ↔ b = [] := by
  constructor
  · intro h
    have := joinLines_splitLines b
    rw [h] at this
    exact this.symm
  · rintro rfl; exact splitLines_nil

/-- All lines carry their '\n'. -/
def AllNL (ls : List Line) : Prop := ∀ l ∈ ls, l.nl = true

theorem joinLines_ends {ls : List Line} (h : AllNL ls) :
    joinLines ls = [] ∨ (joinLines ls).getLast? = some NL := by
  rcases List.eq_nil_or_concat ls with rfl | ⟨ls', l, rfl⟩
  · left; rfl
  · right
    have : l.nl = true := h l (by simp)
    simp [joinLines_append, joinLines_cons, joinLines_nil, Line.bytes, this]

theorem splitLines_append_of_allNL {ls : List Line} (h1 : ∀ l ∈ ls, NL ∉ l.body) (h2 : AllNL ls)
    (b : Bytes) : splitLines (joinLines ls ++ b) = ls ++ splitLines b := by
  induction ls with
  | nil => simp [joinLines]
  | cons l ls ih =>
    obtain ⟨body, nl⟩ := l
    have hnl : nl = true := h2 ⟨body, nl⟩ (by simp)
    subst hnl
    have hb : NL ∉ body := h1 ⟨body, true⟩ (by simp)
    rw [joinLines_cons]
    simp only [Line.bytes, if_true, List.append_assoc, List.cons_append, List.nil_append]
    rw [splitLines_line_nl _ hb, ih (fun l hl => h1 l (by simp [hl])) (fun l hl => h2 l (by simp [hl]))]

theorem splitLines_allNL {b : Bytes} (h : b = [] ∨ b.getLast? = some NL) : AllNL (splitLines b) := by
  induction b with
  | nil => simp [splitLines_nil, AllNL]
  | cons x xs ih =>
    rw [splitLines_cons]
    have hlast : (x :: xs).getLast? = some NL := by
      rcases h with h | h
      · simp at h
      · exact h
    by_cases hxs : xs = []
    · subst hxs
      simp at hlast
      simp [hlast, splitLines_nil, AllNL]
    · have hxs' : xs.getLast? = some NL := by
        rw [List.getLast?_cons_of_ne_nil hxs] at hlast
        exact hlast
      have ih' := ih (Or.inr hxs')
      split
      · intro l hl
        rcases List.mem_cons.mp hl with rfl | hl
        · rfl
        · exact ih' l hl
      · split
        · rename_i heq
          exact absurd (splitLines_eq_nil.mp heq) hxs
        · rename_i l ls heq
          rw [heq] at ih'
          intro l' hl'
          rcases List.mem_cons.mp hl' with rfl | hl'
          · exact ih' l (by simp)
          · exact ih' l' (by simp [hl'])

theorem splitLines_append {a : Bytes} (h : a = [] ∨ a.getLast? = some NL) (b : Bytes) :
    splitLines (a ++ b) = splitLines a ++ splitLines b := by
  have := splitLines_append_of_allNL (LinesOK_body (splitLines_ok a)) (splitLines_allNL h) b
  rwa [joinLines_splitLines] at this

/-- lines of `fixNL b`: those of `b`, with the last one terminated. -/
theorem splitLines_fixNL (b : Bytes) :
    splitLines (fixNL b) = (splitLines b).map fun l => ⟨l.body, true⟩ := by
  induction b with
  | nil => simp [fixNL_nil, splitLines_nil]
  | cons x xs ih =>
    by_cases hxs : xs = []
    · subst hxs
      by_cases hx : x = NL
      · subst hx
        rw [fixNL_of_ends (by simp)]
        simp [splitLines_cons, splitLines_nil]
      · rw [fixNL_of_not_ends (by simp) (by simpa using hx)]
        simp [splitLines_cons, splitLines_nil, hx]
    · have hfix : fixNL (x :: xs) = x :: fixNL xs := by
        unfold fixNL
        simp only [List.isEmpty_cons, Bool.false_eq_true, false_or, List.getLast?_cons_of_ne_nil hxs]
        have : xs.isEmpty = false := by simpa using hxs
        simp only [this, Bool.false_eq_true, false_or]
        split <;> simp
      rw [hfix, splitLines_cons, splitLines_cons, ih]
      split
      · simp
      · have : splitLines xs ≠ [] := fun e => hxs (splitLines_eq_nil.mp e)
        cases hs : splitLines xs with
        | nil => exact absurd hs this
        | cons l ls => simp

end GIV.Txtar
