/-
  Lemmas for GIV.Model.TsLife §4: how often a background command is waited for.  When every
  background command ends with the status its line expects (no `wait` fails) and the script does
  not hang, every started command is waited for EXACTLY once on every exit path.  (Without the
  hypothesis the count can be anything ≥ 1: GIV/Props/C04.lean has the counterexample.)
-/
import GIV.Lemmas.TsLifeMore

namespace GIV.TsLife
open GIV

/-- number of `<-bg.wait` receives for process `id` in a trace -/
def wc (tr : List Ev) (id : Nat) : Nat := tr.count (Ev.waited id)

def Ev.plain : Ev → Bool
  | .waited _ | .started _ _ => false
  | _ => true

def hasId (l : List Bg) (id : Nat) : Bool := l.any fun b => b.id == id

theorem wc_cons_waited (j id : Nat) (tr : List Ev) : wc (Ev.waited j :: tr) id = wc tr id + if j = id then 1 else 0 := by
  simp only [wc, List.count_cons]
  by_cases h : j = id <;> simp [h]

theorem wc_cons_other (e : Ev) (id : Nat) (tr : List Ev) (h : ∀ j, e ≠ Ev.waited j) : wc (e :: tr) id = wc tr id := by
  simp only [wc, List.count_cons]
  have : (e == Ev.waited id) = false := by simpa using h id
  simp [this]

theorem wc_zero_of_not_mem {tr : List Ev} {id : Nat} (h : Ev.waited id ∉ tr) : wc tr id = 0 := by
  simpa [wc, List.count_eq_zero] using h

/-- the bookkeeping invariant, over the list still to be waited for, the trace and `nextBg`. -/
structure BI (l : List Bg) (tr : List Ev) (nb : Nat) : Prop where
  nd : (l.map (·.id)).Nodup
  lt : ∀ b ∈ l, b.id < nb
  good : ∀ b ∈ l, b.kind.success ≠ b.neg
  wlt : ∀ id, Ev.waited id ∈ tr → id < nb
  slt : ∀ id k, Ev.started id k ∈ tr → id < nb
  cnt : ∀ id, id < nb → wc tr id = if hasId l id then 0 else 1

theorem BI.emitPlain {l : List Bg} {tr : List Ev} {nb : Nat} (h : BI l tr nb) (e : Ev) (he : e.plain = true) :
    BI l (e :: tr) nb := by
  obtain ⟨a, b, g, c, d, f⟩ := h
  have hw : ∀ j, e ≠ Ev.waited j := by intro j hj; rw [hj] at he; cases he
  have hs : ∀ j k, e ≠ Ev.started j k := by intro j k hj; rw [hj] at he; cases he
  refine ⟨a, b, g, ?_, ?_, ?_⟩
  · intro id hm
    rcases List.mem_cons.1 hm with hm | hm
    · exact absurd hm.symm (hw id)
    · exact c id hm
  · intro id k hm
    rcases List.mem_cons.1 hm with hm | hm
    · exact absurd hm.symm (hs id k)
    · exact d id k hm
  · intro id hid
    rw [wc_cons_other e id tr hw]; exact f id hid

theorem hasId_false_of_not_mem {l : List Bg} {id : Nat} (h : id ∉ l.map (·.id)) : hasId l id = false := by
  simp only [hasId, List.any_eq_false, beq_iff_eq]
  intro b hb hbe
  exact h (List.mem_map.2 ⟨b, hb, hbe⟩)

/-- waiting for the head of the list -/
theorem BI.waitHead {b : Bg} {rest : List Bg} {tr : List Ev} {nb : Nat} (h : BI (b :: rest) tr nb) :
    BI rest (Ev.waited b.id :: tr) nb := by
  obtain ⟨a, b', g, c, d, f⟩ := h
  simp only [List.map_cons, List.nodup_cons] at a
  refine ⟨a.2, fun x hx => b' x (List.mem_cons_of_mem _ hx), fun x hx => g x (List.mem_cons_of_mem _ hx), ?_, ?_, ?_⟩
  · intro id hm
    rcases List.mem_cons.1 hm with hm | hm
    · injection hm with hm; rw [hm]; exact b' b (List.mem_cons_self ..)
    · exact c id hm
  · intro id k hm
    rcases List.mem_cons.1 hm with hm | hm
    · cases hm
    · exact d id k hm
  · intro id hid
    rw [wc_cons_waited, f id hid]
    by_cases hbi : b.id = id
    · subst hbi
      have := hasId_false_of_not_mem a.1
      simp [hasId]
      simpa [hasId] using this
    · have : hasId (b :: rest) id = hasId rest id := by simp [hasId, hbi]
      rw [this]; simp [hbi]

/-- waiting for a member of the list and removing it (`wait name`) -/
theorem BI.waitMem {b : Bg} {l : List Bg} {tr : List Ev} {nb : Nat} (h : BI l tr nb) (hb : b ∈ l) :
    BI (l.filter fun x => x.id != b.id) (Ev.waited b.id :: tr) nb := by
  obtain ⟨a, b', g, c, d, f⟩ := h
  refine ⟨?_, fun x hx => b' x (List.mem_filter.1 hx).1, fun x hx => g x (List.mem_filter.1 hx).1, ?_, ?_, ?_⟩
  · have : List.Sublist ((l.filter fun x => x.id != b.id).map (·.id)) (l.map (·.id)) :=
      List.Sublist.map _ List.filter_sublist
    exact this.nodup a
  · intro id hm
    rcases List.mem_cons.1 hm with hm | hm
    · injection hm with hm; rw [hm]; exact b' b hb
    · exact c id hm
  · intro id k hm
    rcases List.mem_cons.1 hm with hm | hm
    · cases hm
    · exact d id k hm
  · intro id hid
    rw [wc_cons_waited, f id hid]
    by_cases hbi : b.id = id
    · subst hbi
      have h1 : hasId l b.id = true := by
        simp only [hasId, List.any_eq_true, beq_iff_eq]; exact ⟨b, hb, rfl⟩
      have h2 : hasId (l.filter fun x => x.id != b.id) b.id = false := by
        simp only [hasId, List.any_eq_false, beq_iff_eq]
        intro x hx
        have := (List.mem_filter.1 hx).2
        simpa using this
      simp [h1, h2]
    · have : hasId (l.filter fun x => x.id != b.id) id = hasId l id := by
        simp only [hasId, List.any_filter]
        apply List.any_congr rfl  -- pointwise
        intro x
        by_cases hx : x.id = id
        · have h2 : ¬ id = b.id := fun h => hbi h.symm
          simp [hx, h2]
        · simp [hx]
      rw [this]; simp [hbi]

/-- starting a new command -/
theorem BI.start {l : List Bg} {tr : List Ev} {nb : Nat} (h : BI l tr nb) (b : Bg) (hid : b.id = nb)
    (hg : b.kind.success ≠ b.neg) : BI (l ++ [b]) (Ev.started nb b.kind :: tr) (nb + 1) := by
  obtain ⟨a, b', g, c, d, f⟩ := h
  refine ⟨?_, ?_, ?_, ?_, ?_, ?_⟩
  · simp only [List.map_append, List.map_cons, List.map_nil]
    rw [List.nodup_append]
    refine ⟨a, by simp, ?_⟩
    intro x hx y hy hxy
    simp only [List.mem_singleton] at hy
    obtain ⟨z, hz, rfl⟩ := List.mem_map.1 hx
    have := b' z hz
    omega
  · intro x hx
    rcases List.mem_append.1 hx with hx | hx
    · have := b' x hx; omega
    · simp only [List.mem_singleton] at hx; subst hx; omega
  · intro x hx
    rcases List.mem_append.1 hx with hx | hx
    · exact g x hx
    · simp only [List.mem_singleton] at hx; subst hx; exact hg
  · intro id hm
    rcases List.mem_cons.1 hm with hm | hm
    · cases hm
    · have := c id hm; omega
  · intro id k hm
    rcases List.mem_cons.1 hm with hm | hm
    · injection hm with hm; omega
    · have := d id k hm; omega
  · intro id hlt
    rw [wc_cons_other _ id tr (by intro j hj; cases hj)]
    by_cases hn : id = nb
    · subst hn
      have h0 : wc tr id = 0 := wc_zero_of_not_mem (fun hm => by have := c id hm; omega)
      have h1 : hasId (l ++ [b]) id = true := by
        simp only [hasId, List.any_append, List.any_cons, List.any_nil, hid, beq_self_eq_true, Bool.or_false, Bool.or_true]
      simp [h0, h1]
    · have h1 : hasId (l ++ [b]) id = hasId l id := by
        have : (b.id == id) = false := by simpa [hid] using fun h : nb = id => hn h.symm
        simp [hasId, List.any_append, this]
      rw [h1]; exact f id (by omega)

/-- the invariant of a script state -/
def SState.bi (s : SState) : Prop := BI s.bg s.trace s.nextBg

theorem fold_emit_bi {α : Type} (f : α → Ev) (hf : ∀ a, (f a).plain = true) (l : List Bg) :
    ∀ (xs : List α) (s : SState), BI l s.trace s.nextBg →
      BI l (xs.foldl (fun (s : SState) a => emit s (f a)) s).trace (xs.foldl (fun (s : SState) a => emit s (f a)) s).nextBg ∧
      (xs.foldl (fun (s : SState) a => emit s (f a)) s).bg = s.bg ∧
      (xs.foldl (fun (s : SState) a => emit s (f a)) s).failed = s.failed
  | [], s, h => ⟨h, rfl, rfl⟩
  | a :: rest, s, h => by
    simp only [List.foldl_cons]
    have h1 : BI l (emit s (f a)).trace (emit s (f a)).nextBg := h.emitPlain _ (hf a)
    obtain ⟨x, y, z⟩ := fold_emit_bi f hf l rest (emit s (f a)) h1
    exact ⟨x, by rw [y]; rfl, by rw [z]; rfl⟩

def LineRes.isHang : LineRes → Bool
  | .hang _ => true
  | _ => false

/-- the status-checking wait loop: it ends with everything waited for and the list cleared, or it
hangs; it cannot fail when every status is the expected one. -/
theorem bi_waitAllLoop (intr : Bool) : ∀ (l : List Bg) (s : SState), BI l s.trace s.nextBg →
    (waitAllLoop intr l s).isHang = false → (waitAllLoop intr l s).state.bi
  | [], s, h, _ => by
    simp only [waitAllLoop, LineRes.state, SState.bi]
    exact h
  | b :: rest, s, h, hh => by
    unfold waitAllLoop at hh ⊢
    split
    · rename_i hc; simp [hc, LineRes.isHang] at hh
    · rename_i hc
      simp only [hc] at hh
      have hg := h.good b (List.mem_cons_self ..)
      have hne : (b.kind.success == b.neg) = false := by simpa using hg
      simp only [hne, Bool.false_eq_true, if_false] at hh ⊢
      exact bi_waitAllLoop intr rest _ h.waitHead hh

theorem bi_waitFold : ∀ (l : List Bg) (s : SState), BI l s.trace s.nextBg →
    BI [] (l.foldl (fun (s : SState) (b : Bg) => emit s (.waited b.id)) s).trace
      (l.foldl (fun (s : SState) (b : Bg) => emit s (.waited b.id)) s).nextBg
  | [], _, h => h
  | b :: rest, s, h => by
    simp only [List.foldl_cons]
    exact bi_waitFold rest _ h.waitHead

theorem bi_drainAll {s : SState} (h : s.bi) : (drainAll s).bi := by
  obtain ⟨h1, hb, _⟩ := fold_emit_bi (fun b : Bg => Ev.interrupted b.id) (fun _ => rfl) s.bg s.bg s h
  have := bi_waitFold s.bg _ h1
  simp only [drainAll, interruptAll, hb, SState.bi]
  exact this

/-- the script's background commands all end with the status their line expects. -/
def opGood : Op → Bool
  | .bg _ kind neg => kind.success != neg
  | _ => true

theorem bi_stepOp (cfg : Cfg) (s : SState) (op : Op) (hi : s.bi) (hg : opGood op = true)
    (hh : (stepOp cfg s op).isHang = false) : (stepOp cfg s op).state.bi := by
  cases op with
  | probe => exact hi.emitPlain _ rfl
  | cd rel =>
    simp only [stepOp, withPath]
    split
    · exact hi
    · split <;> exact hi
  | cdWork => exact hi
  | env k v => exact hi
  | mkdir rel =>
    simp only [stepOp, withPath]
    split
    · exact hi
    · split <;> exact hi
  | cp src dst =>
    simp only [stepOp, withPath]
    repeat' split
    all_goals exact hi
  | rm rel =>
    simp only [stepOp, withPath]
    repeat' split
    all_goals exact hi
  | chmod rel =>
    simp only [stepOp, withPath]
    repeat' split
    all_goals exact hi
  | regDefer id ab => exact hi
  | bg name kind neg =>
    simp only [stepOp]
    split
    · exact hi
    · simp only [LineRes.state, SState.bi, emit]
      exact hi.start ⟨name, kind, neg, s.nextBg⟩ rfl (by simpa [opGood] using hg)
  | fg => exact hi.emitPlain _ rfl
  | waitAll => exact bi_waitAllLoop false s.bg s hi hh
  | waitOne name =>
    simp only [stepOp] at hh ⊢
    split
    · exact hi
    · split
      · exact hi
      · rename_i b hb
        have hmem : b ∈ s.bg := List.mem_of_find?_eq_some hb
        split
        · exact hi
        · have hgd := hi.good b hmem
          have hne : (b.kind.success == b.neg) = false := by simpa using hgd
          simp only [hne, Bool.false_eq_true, if_false, LineRes.state, SState.bi, emit]
          exact hi.waitMem hmem
  | failLine => exact hi
  | skip =>
    simp only [stepOp] at hh ⊢
    obtain ⟨h1, hb, _⟩ := fold_emit_bi (fun b : Bg => Ev.interrupted b.id) (fun _ => rfl) s.bg s.bg s hi
    generalize hs1 : List.foldl (fun (s : SState) (b : Bg) => emit s (Ev.interrupted b.id)) s s.bg = s1 at hh h1 hb ⊢
    rw [← hb] at h1
    have key := bi_waitAllLoop true s1.bg s1 h1
    generalize waitAllLoop true s1.bg s1 = r at hh key ⊢
    cases r with
    | ok s' =>
      have := key rfl
      simp only [LineRes.state] at this ⊢
      by_cases hf : s'.failed = true <;> simp [hf] <;> exact this
    | hang s' => simp [LineRes.isHang] at hh
    | _ => exact key rfl
  | stop => exact hi

/-- the loop: unless it ends in `hang` the invariant holds in the state it ends in. -/
theorem bi_loop (cfg : Cfg) : ∀ (ops : List Op) (s : SState), s.bi → (∀ op ∈ ops, opGood op = true) →
    (loop cfg ops s).2.1 ≠ .hang → (loop cfg ops s).1.bi
  | [], s, hi, _, _ => hi
  | op :: rest, s, hi, hg, hne => by
    have h1 := bi_stepOp cfg s op hi (hg op (List.mem_cons_self ..))
    have hg' : ∀ o ∈ rest, opGood o = true := fun o ho => hg o (List.mem_cons_of_mem _ ho)
    unfold loop at hne ⊢
    generalize stepOp cfg s op = r at h1 hne ⊢
    cases r with
    | ok s' =>
      simp only [LineRes.state, LineRes.isHang] at h1 hne ⊢
      split
      · exact h1 trivial
      · rename_i hstop
        simp only [hstop] at hne
        exact bi_loop cfg rest s' (h1 trivial) hg' hne
    | fatal s' =>
      simp only [LineRes.state, LineRes.isHang] at h1 hne ⊢
      have h2 : SState.bi { s' with failed := true } := h1 trivial
      split
      · rename_i hc
        simp only [hc, if_true] at hne
        exact bi_loop cfg rest _ h2 hg' hne
      · exact h2
    | skipped s' => exact h1 rfl
    | failNow s' => exact h1 rfl
    | hang s' => simp at hne
    | escape s' => exact h1 rfl

theorem bi_runDefers {s : SState} (hi : s.bi) (pre : List String) (hpre : pre = [] ∨ pre = ["applyUpdates"]) :
    BI [] ((pre ++ ["deferred", "bgflush"]).foldl runDefer s).trace ((pre ++ ["deferred", "bgflush"]).foldl runDefer s).nextBg := by
  have h0 : ∃ s1 : SState, s1.bi ∧ (pre ++ ["deferred", "bgflush"]).foldl runDefer s = ["deferred", "bgflush"].foldl runDefer s1 := by
    rcases hpre with rfl | rfl
    · exact ⟨s, hi, rfl⟩
    · exact ⟨emit s .applyUpdates, hi.emitPlain _ rfl, rfl⟩
  obtain ⟨s1, hi1, hs⟩ := h0
  rw [hs]
  simp only [List.foldl_cons, List.foldl_nil, runDefer]
  obtain ⟨h2, hb, _⟩ := fold_emit_bi (fun id : Nat => Ev.deferred id) (fun _ => rfl) s1.bg s1.chain.call s1 hi1
  generalize List.foldl (fun (s : SState) (id : Nat) => emit s (Ev.deferred id)) s1 s1.chain.call = s2 at h2 hb
  rw [← hb] at h2
  have h3 := bi_drainAll h2
  have hbg : (drainAll s2).bg = [] := (drainAll_spec s2).2.1
  simp only [SState.bi, hbg] at h3
  exact h3.emitPlain _ rfl

/-- every exit path except `hang`, for scripts whose background commands end as expected: in the
final state every process id below `nextBg` has been waited for exactly once, and every started
process has such an id. -/
theorem runFinal_bi [F : FRun] (cfg : Cfg) (files : List Entry) (ops : List Op)
    (hg : ∀ op ∈ ops, opGood op = true) (hv : (runScript cfg files ops).verdict ≠ .hang) :
    BI [] (runFinal cfg files ops).trace (runFinal cfg files ops).nextBg := by
  have hp0 : pendingDefers false = [] ++ ["deferred", "bgflush"] := by simp [pendingDefers, F.defers]
  have hp1 : pendingDefers true = ["applyUpdates"] ++ ["deferred", "bgflush"] := by simp [pendingDefers, F.defers]
  have hstart : ∀ (fs : FS) (env : EnvList) (c : Chain) (r : List Nat),
      SState.bi ⟨[], env, fs, [], 0, c, r, [], false⟩ := by
    intro fs env c r
    exact ⟨by simp, by simp, by simp, by simp, by simp, by intro id hid; simp at hid⟩
  unfold runScript at hv
  unfold runFinal
  simp only at hv ⊢
  generalize unpackFrom cfg.uniqueNames fs0 files = u at hv ⊢
  obtain ⟨fs, err⟩ := u
  cases err with
  | some e =>
    simp only
    rw [hp0]
    exact bi_runDefers (hstart fs [] .nop []) [] (Or.inl rfl)
  | none =>
    simp only at hv ⊢
    have hl := bi_loop cfg ops _ (hstart fs (initialEnv cfg.host (workdirOf cfg.root cfg.name) cfg.setupEnv)
      (cfg.setupDefers.foldl (fun c id => Chain.link id .none c) Chain.nop) cfg.setupDefers) hg
    generalize loop cfg ops _ = r at hv hl ⊢
    obtain ⟨s2, ex, st⟩ := r
    simp only at hv hl ⊢
    rw [hp1]
    cases ex with
    | hang => simp at hv
    | returned => exact bi_runDefers (bi_drainAll (hl (by simp))) ["applyUpdates"] (Or.inr rfl)
    | failNow => exact bi_runDefers (hl (by simp)) ["applyUpdates"] (Or.inr rfl)
    | skipNow => exact bi_runDefers (hl (by simp)) ["applyUpdates"] (Or.inr rfl)
    | escape => exact bi_runDefers (hl (by simp)) ["applyUpdates"] (Or.inr rfl)

/-- … so every started background command is waited for exactly once. -/
theorem waited_exactly_once [FRun] (cfg : Cfg) (files : List Entry) (ops : List Op)
    (hg : ∀ op ∈ ops, opGood op = true) (hv : (runScript cfg files ops).verdict ≠ .hang)
    (id : Nat) (k : BgKind) (hs : Ev.started id k ∈ (runScript cfg files ops).trace) :
    (runScript cfg files ops).trace.count (Ev.waited id) = 1 := by
  have hb := runFinal_bi cfg files ops hg hv
  rw [(runScript_final cfg files ops).1] at hs ⊢
  rw [List.mem_reverse] at hs
  rw [List.count_reverse]
  have := hb.cnt id (hb.slt id k hs)
  simpa [wc, hasId] using this

end GIV.TsLife
