/-
  GIV.Lemmas.ImportsBuildGo — the Go→Lean translation of imports/build.go (GIV.Gen.ImportsBuildGo,
  regenerated from /repo on every run) equals the model GIV.Model.Build, for all inputs.

  `unicode.IsLetter` / `unicode.IsDigit` are parameters `isLetter isDigit : Int → Bool` of the
  translation; the model's parameter is `UOf isLetter isDigit`.  What is assumed of them
  (`UnicodeOK`): on ASCII they are the letter / digit tables, and U+FFFD is neither.
-/
import GIV.Gen.ImportsBuildGo
import GIV.Lemmas.ImportsBuildProofs

namespace GIV.Go.Build
open GIV GIV.GoLib GIV.Build GIV.Gen.ImportsBuild

/-- the rune test of `matchTag`: letter, digit, '_' or '.'. -/
def okRune (isLetter isDigit : Int → Bool) (c : Int) : Bool :=
  isLetter c || isDigit c || c == 95 || c == 46

/-- the model's "letter or digit (or '_' '.')" predicate on non-ASCII runes. -/
def UOf (isLetter isDigit : Int → Bool) : Nat → Bool := fun r => okRune isLetter isDigit (r : Int)

/-- what the equivalence assumes of `unicode.IsLetter` / `unicode.IsDigit`. -/
structure UnicodeOK (isLetter isDigit : Int → Bool) : Prop where
  ascii : ∀ b : UInt8, b < 0x80 → okRune isLetter isDigit (b.toNat : Int) = asciiTagByte b
  runeError : okRune isLetter isDigit 0xFFFD = false

variable (isLetter isDigit : Int → Bool)

theorem loop1_eq (name : Bytes) (tags : Tags) (want : Bool) : ∀ l : List Int,
    matchTag_loop1 isLetter isDigit name tags want l =
      if l.all (okRune isLetter isDigit) then matchTag_after1 isLetter isDigit name tags want else some false := by
  intro l
  induction l with
  | nil => simp [matchTag_loop1]
  | cons c rest ih =>
    simp only [matchTag_loop1, List.all_cons]
    have hk : (!isLetter c && !isDigit c && c != 95 && c != 46) = !okRune isLetter isDigit c := by
      simp only [okRune, bne]
      cases isLetter c <;> cases isDigit c <;> cases (c == 95) <;> cases (c == 46) <;> rfl
    rw [hk, ih]
    rcases Bool.eq_false_or_eq_true (okRune isLetter isDigit c) with hc | hc <;> simp [hc]

theorem tagRunesOK_skip (U : Nat → Bool) : ∀ (rest : Bytes) (k : Nat), k ≤ rest.length →
    tagRunesOK U rest k = tagRunesOK U (rest.drop k) 0 := by
  intro rest
  induction rest with
  | nil => intro k hk; simp at hk; subst hk; simp
  | cons b rest ih =>
    intro k hk
    cases k with
    | zero => simp
    | succ k => simp only [tagRunesOK, List.drop_succ_cons]; exact ih k (by simpa using hk)

theorem decode_width {b : UInt8} {rest : Bytes} {r w : Nat} (h : decodeNonAscii (b :: rest) = some (r, w)) :
    w - 1 ≤ rest.length := by
  simp only [decodeNonAscii] at h
  split at h
  · cases rest with
    | nil => simp at h
    | cons b1 t => split at h <;> simp at h <;> (obtain ⟨_, _, rfl⟩ := h; simp)
  · split at h
    · match rest, h with
      | b1 :: b2 :: t, h => split at h <;> simp at h <;> (obtain ⟨_, _, rfl⟩ := h; simp)
      | [], h => simp at h
      | [_], h => simp at h
    · split at h
      · match rest, h with
        | b1 :: b2 :: b3 :: t, h => split at h <;> simp at h <;> (obtain ⟨_, _, rfl⟩ := h; simp)
        | [], h => simp at h
        | [_], h => simp at h
        | [_, _], h => simp at h
      · simp at h

theorem runes_all (hU : UnicodeOK isLetter isDigit) : ∀ (n : Nat) (s : Bytes), s.length ≤ n →
    (runesAux n s).all (okRune isLetter isDigit) = tagRunesOK (UOf isLetter isDigit) s 0 := by
  intro n
  induction n with
  | zero => intro s hs; have : s = [] := by simpa using hs
            subst this; simp [runesAux, tagRunesOK]
  | succ n ih =>
    intro s hs
    cases s with
    | nil => simp [runesAux, tagRunesOK]
    | cons b rest =>
      have hr : rest.length ≤ n := by simpa using hs
      simp only [runesAux, tagRunesOK]
      by_cases hb : b < 0x80
      · simp only [hb, if_true, List.all_cons, ih rest hr, hU.ascii b hb]
      · simp only [hb, if_false]
        cases hd : decodeNonAscii (b :: rest) with
        | none => simp [List.all_cons, hU.runeError]
        | some rw =>
          obtain ⟨r, w⟩ := rw
          have hw := decode_width hd
          simp only [List.all_cons]
          rw [ih (rest.drop (w - 1)) (by simp; omega), tagRunesOK_skip _ rest (w - 1) hw]
          rfl

theorem go_matchTag_eq (hU : UnicodeOK isLetter isDigit) (name : Bytes) (tags : Tags) (want : Bool) :
    GIV.Go.Build.matchTag isLetter isDigit name tags want
      = some (GIV.Build.matchTag (UOf isLetter isDigit) name tags want) := by
  have h1 : tagRuneCheck = true := rfl
  have h2 : tagStarClause = true := rfl
  have h3 : androidClause = true := rfl
  have h4 : haveEqWant = true := rfl
  simp only [GIV.Go.Build.matchTag, loop1_eq, runes, runes_all isLetter isDigit hU _ name (Nat.le_refl _),
    GIV.Build.matchTag, validTag, h1, h2, h3, h4, if_true, Bool.true_and]
  cases hv : tagRunesOK (UOf isLetter isDigit) name 0
  · simp
  · simp only [if_true, Bool.not_true, Bool.false_eq_true, if_false, matchTag_after1]
    have e1 : tagStar = [42] := rfl
    have e2 : tagIgnore = [105, 103, 110, 111, 114, 101] := rfl
    have e3 : tagLinux = [108, 105, 110, 117, 120] := rfl
    have e4 : tagAndroid = [97, 110, 100, 114, 111, 105, 100] := rfl
    rw [e1, e2, e3, e4]
    have hb : ∀ (a b : Bytes), (a != b) = decide (a ≠ b) := by
      intro a b; by_cases h : a = b <;> simp [h, bne]
    have hb2 : ∀ (a b : Bytes), (a == b) = decide (a = b) := by
      intro a b; by_cases h : a = b <;> simp [h]
    simp only [hb, hb2]
    split
    · rfl
    · split <;> rfl

/-! ### matchTags -/

theorem index_single_cutAt (c : UInt8) : ∀ (s : Bytes),
    (∀ l r, cutAt c s = (l, some r) → GoLib.index s [c] = (l.length : Int) ∧ s = l ++ c :: r) ∧
    (∀ l, cutAt c s = (l, none) → GoLib.index s [c] = -1 ∧ l = s) := by
  intro s
  induction s with
  | nil => simp [cutAt, GoLib.index]
  | cons x xs ih =>
    by_cases hx : x = c
    · subst hx
      simp [cutAt, GoLib.index, GoLib.hasPrefix]
    · have hp : GoLib.hasPrefix (x :: xs) [c] = false := by simp [GoLib.hasPrefix, hx]
      simp only [cutAt, hx, if_false, GoLib.index, hp, Bool.false_eq_true]
      constructor
      · intro l r h
        cases hc : cutAt c xs with
        | mk l' r' =>
          rw [hc] at h
          simp only [Prod.mk.injEq] at h
          obtain ⟨rfl, rfl⟩ := h
          obtain ⟨h1, h2⟩ := ih.1 l' r hc
          rw [h1]
          refine ⟨?_, by rw [h2]; simp⟩
          have : ¬ ((l'.length : Int) < 0) := by omega
          simp [this]
      · intro l h
        cases hc : cutAt c xs with
        | mk l' r' =>
          rw [hc] at h
          simp only [Prod.mk.injEq] at h
          obtain ⟨rfl, rfl⟩ := h
          obtain ⟨h1, h2⟩ := ih.2 l' hc
          rw [h1, h2]; simp

theorem hasPrefix_swap (s p : Bytes) : GoLib.hasPrefix s p = GIV.Build.hasPrefix p s := by
  simp only [GoLib.hasPrefix, GIV.Build.hasPrefix]
  by_cases h : p <+: s
  · have h2 := List.prefix_iff_eq_take.mp h
    simp [List.isPrefixOf_iff_prefix.mpr h, ← h2]
  · have : p.isPrefixOf s = false := by
      cases hh : p.isPrefixOf s
      · rfl
      · exact absurd (List.isPrefixOf_iff_prefix.mp hh) h
    rw [this]
    by_cases h3 : s.take p.length = p
    · exact absurd (List.prefix_iff_eq_take.mpr h3.symm) h
    · simp [h3]

theorem slice_take (s : Bytes) (n : Nat) (h : n ≤ s.length) : GoLib.slice? s 0 (n : Int) = some (s.take n) := by
  simp [GoLib.slice?, h]

theorem slice_drop (s : Bytes) (n : Nat) (h : n ≤ s.length) :
    GoLib.slice? s (n : Int) (GoLib.len s) = some (s.drop n) := by
  simp [GoLib.slice?, GoLib.len, h]

theorem go_matchTags_rec_eq (hU : UnicodeOK isLetter isDigit) (tags : Tags) : ∀ (n : Nat) (name : Bytes),
    name.length < n →
    matchTags_rec n isLetter isDigit name tags = some (matchTagsAux (UOf isLetter isDigit) tags n name) := by
  intro n
  induction n with
  | zero => intro name h; omega
  | succ n ih =>
    intro name hlen
    have f1 : emptyIsFalse = true := rfl
    have f2 : commaIsAnd = true := rfl
    have f3 : rejectsDoubleBang = true := rfl
    have f4 : bangNegates = true := rfl
    simp only [matchTags_rec, matchTagsAux, f1, f2, Bool.true_and, if_true]
    cases name with
    | nil => simp
    | cons x xs =>
      have hne : ((x :: xs : Bytes) == ([] : Bytes)) = false := by simp
      simp only [hne, Bool.false_eq_true, if_false, List.isEmpty_cons]
      cases hc : cutAt 44 (x :: xs) with
      | mk l r =>
        cases r with
        | some r =>
          obtain ⟨hi, hs⟩ := (index_single_cutAt 44 (x :: xs)).1 l r hc
          have hl : l.length ≤ (x :: xs).length := by rw [hs]; simp
          have hl1 : l.length + 1 ≤ (x :: xs).length := by rw [hs]; simp
          have htake : (x :: xs).take l.length = l := by rw [hs]; simp
          have hdrop : (x :: xs).drop (l.length + 1) = r := by
            rw [hs]; simp [List.drop_append]
          have hlen' : l.length + (r.length + 1) < n + 1 := by
            have := congrArg List.length hs; simp at this; simp at hlen; omega
          have hll : l.length < n := by omega
          have hrl : r.length < n := by omega
          have hge : decide ((l.length : Int) ≥ 0) = true := by simp
          rw [hi]
          simp only [hge, if_true]
          rw [slice_take _ _ hl, htake]
          have : ((l.length : Int) + 1) = ((l.length + 1 : Nat) : Int) := by simp
          rw [this, slice_drop _ _ hl1, hdrop]
          simp [ih l hll, ih r hrl]
        | none =>
          obtain ⟨hi, hs⟩ := (index_single_cutAt 44 (x :: xs)).2 l hc
          rw [hi]
          have : decide ((-1 : Int) ≥ 0) = false := by decide
          simp only [this, Bool.false_eq_true, if_false, matchTerm, f3, f4, Bool.true_and, Bool.not_true]
          simp only [hasPrefix_swap, go_matchTag_eq isLetter isDigit hU]
          have h1 : GoLib.slice? (x :: xs) 1 (GoLib.len (x :: xs)) = some ((x :: xs).drop 1) := by
            have := slice_drop (x :: xs) 1 (by simp)
            simpa using this
          have h2 : decide (GoLib.len (x :: xs) > 1) = decide ((x :: xs).length > 1) := by
            simp only [GoLib.len]; congr 1; apply propext; constructor <;> intro h <;> omega
          rw [h1, h2]
          split
          · rfl
          · split
            · cases decide ((x :: xs).length > 1) <;> simp [go_matchTag_eq isLetter isDigit hU]
            · rfl

theorem go_matchTags_eq (hU : UnicodeOK isLetter isDigit) (name : Bytes) (tags : Tags) :
    GIV.Go.Build.matchTags isLetter isDigit name tags
      = some (GIV.Build.matchTags (UOf isLetter isDigit) name tags) := by
  simp only [GIV.Go.Build.matchTags, GIV.Build.matchTags]
  exact go_matchTags_rec_eq isLetter isDigit hU tags _ name (Nat.lt_succ_self _)

/-! ### MatchFile -/

theorem splitOn_ne_nil (c : UInt8) : ∀ s : Bytes, splitOn c s ≠ [] := by
  intro s
  induction s with
  | nil => simp [splitOn]
  | cons b rest ih =>
    simp only [splitOn]
    split
    · simp
    · split
      · simp
      · simp

theorem idx_last1 {α} (xs : List α) (a : α) : GoLib.idx? (xs ++ [a]) (GoLib.len (xs ++ [a]) - 1) = some a := by
  have : (GoLib.len (xs ++ [a]) - 1) = (xs.length : Int) := by simp [GoLib.len]
  rw [this]; simp [GoLib.idx?]

theorem idx_last2 {α} (xs : List α) (o a : α) :
    GoLib.idx? (xs ++ [o, a]) (GoLib.len (xs ++ [o, a]) - 2) = some o ∧
    GoLib.idx? (xs ++ [o, a]) (GoLib.len (xs ++ [o, a]) - 1) = some a := by
  have h2 : (GoLib.len (xs ++ [o, a]) - 2) = (xs.length : Int) := by simp [GoLib.len]
  have h1 : (GoLib.len (xs ++ [o, a]) - 1) = ((xs.length + 1 : Nat) : Int) := by simp [GoLib.len]; omega
  rw [h1, h2]
  constructor
  · simp [GoLib.idx?]
  · simp only [GoLib.idx?, Int.toNat_natCast]
    have : (0 : Int) ≤ ((xs.length + 1 : Nat) : Int) := by omega
    simp only [this, if_true]
    simp

theorem slice_init {α} (xs : List α) (a : α) :
    GoLib.slice? (xs ++ [a]) 0 (GoLib.len (xs ++ [a]) - 1) = some xs := by
  have : (GoLib.len (xs ++ [a]) - 1) = (xs.length : Int) := by simp [GoLib.len]
  rw [this]; simp [GoLib.slice?]; omega

/-- the suffix rules of `MatchFile` on the final segment list `l` (as the translation states them). -/
theorem rules_eq (hU : UnicodeOK isLetter isDigit) (tags : Tags) (l : List Bytes) :
    (do
      let n_1 : Int := GoLib.len l
      let t7 ← (if decide (n_1 ≥ 2) then (do
        let t6 ← GoLib.idx? l (n_1 - 2)
        pure (GIV.Build.knownOS t6)) else pure false)
      let t9 ← (if t7 then (do
        let t8 ← GoLib.idx? l (n_1 - 1)
        pure (GIV.Build.knownArch t8)) else pure false)
      if t9 then do
        let t10 ← GoLib.idx? l (n_1 - 2)
        let t11 ← matchTag isLetter isDigit t10 tags true
        let t14 ← (if t11 then (do
          let t12 ← GoLib.idx? l (n_1 - 1)
          let t13 ← matchTag isLetter isDigit t12 tags true
          pure t13) else pure false)
        pure t14
      else
      let t16 ← (if decide (n_1 ≥ 1) then (do
        let t15 ← GoLib.idx? l (n_1 - 1)
        pure (GIV.Build.knownOS t15)) else pure false)
      if t16 then do
        let t17 ← GoLib.idx? l (n_1 - 1)
        let t18 ← matchTag isLetter isDigit t17 tags true
        pure t18
      else
      let t20 ← (if decide (n_1 ≥ 1) then (do
        let t19 ← GoLib.idx? l (n_1 - 1)
        pure (GIV.Build.knownArch t19)) else pure false)
      if t20 then do
        let t21 ← GoLib.idx? l (n_1 - 1)
        let t22 ← matchTag isLetter isDigit t21 tags true
        pure t22
      else
      pure true : Option Bool)
    = some (applyRules (UOf isLetter isDigit) tags l.reverse [1, 2, 3]) := by
  have fv : fileViaMatchTag = true := rfl
  rcases List.eq_nil_or_concat l with rfl | ⟨l1, a, rfl⟩
  · simp [applyRules, applyRule, GoLib.len]
  · rcases List.eq_nil_or_concat l1 with rfl | ⟨l2, o, rfl⟩
    · have hl : GoLib.len ([a] : List Bytes) = 1 := rfl
      have hi : GoLib.idx? ([a] : List Bytes) (1 - 1) = some a := rfl
      have h12 : decide ((1 : Int) ≥ 2) = false := by decide
      have h11 : decide ((1 : Int) ≥ 1) = true := by decide
      simp [applyRules, applyRule, fileSel, fv, go_matchTag_eq isLetter isDigit hU, GoLib.len, GoLib.idx?]
      cases knownOS a <;> cases knownArch a <;> simp
    · have e : (l2.concat o).concat a = l2 ++ [o, a] := by simp
      rw [e]
      obtain ⟨h2, h1⟩ := idx_last2 l2 o a
      have hge2 : decide (GoLib.len (l2 ++ [o, a]) ≥ 2) = true := by simp [GoLib.len]; omega
      have hge1 : decide (GoLib.len (l2 ++ [o, a]) ≥ 1) = true := by simp [GoLib.len]; omega
      simp only [hge2, hge1, h1, h2, if_true]
      simp [applyRules, applyRule, fileSel, fv, go_matchTag_eq isLetter isDigit hU]
      cases knownOS o <;> cases knownArch a <;> cases knownOS a <;> simp <;>
        cases GIV.Build.matchTag (UOf isLetter isDigit) o tags true <;> simp

end GIV.Go.Build
