/-
  GIV.Lemmas.ImportsBuildGoSB — translated ShouldBuild (GIV.Gen.ImportsBuildGo) = model shouldBuild.
-/
import GIV.Lemmas.ImportsBuildGo

namespace GIV.Go.Build
open GIV GIV.GoLib GIV.Build GIV.Gen.ImportsBuild

variable (isLetter isDigit : Int → Bool)

theorem indexByte_cutAt (c : UInt8) : ∀ (s : Bytes),
    (∀ l r, cutAt c s = (l, some r) → GoLib.indexByte s c = (l.length : Int) ∧ s = l ++ c :: r) ∧
    (∀ l, cutAt c s = (l, none) → GoLib.indexByte s c = -1 ∧ l = s) := by
  intro s
  induction s with
  | nil => simp [cutAt, GoLib.indexByte]
  | cons x xs ih =>
    by_cases hx : x = c
    · subst hx
      simp [cutAt, GoLib.indexByte]
    · simp only [cutAt, hx, if_false, GoLib.indexByte]
      constructor
      · intro l r h
        cases hc : cutAt c xs with
        | mk l' r' =>
          rw [hc] at h
          simp only [Prod.mk.injEq] at h
          obtain ⟨rfl, rfl⟩ := h
          obtain ⟨h1, h2⟩ := ih.1 l' r hc
          rw [h1]
          refine ⟨?_, by rw [h2]; simp⟩
          have : ¬ ((l'.length : Int) < 0) := by omega
          simp [this]
      · intro l h
        cases hc : cutAt c xs with
        | mk l' r' =>
          rw [hc] at h
          simp only [Prod.mk.injEq] at h
          obtain ⟨rfl, rfl⟩ := h
          obtain ⟨h1, h2⟩ := ih.2 l' hc
          rw [h1, h2]; simp

/-- the line-cutting step shared by both loops of `ShouldBuild`: `(p', line) = (cutLine p).2, (cutLine p).1`. -/
theorem cut_step (p : Bytes) :
    (show Option (Bytes × Bytes) from
      if decide (GoLib.indexByte p 10 ≥ 0) then do
        let t2 ← GoLib.slice? p 0 (GoLib.indexByte p 10)
        let t3 ← GoLib.slice? p (GoLib.indexByte p 10 + 1) (GoLib.len p)
        pure (t3, t2)
      else do
        let t4 ← GoLib.slice? p (GoLib.len p) (GoLib.len p)
        pure (t4, p)) = some ((cutLine p).2, (cutLine p).1) := by
  simp only [cutLine]
  cases hc : cutAt 10 p with
  | mk l r =>
    cases r with
    | some r =>
      obtain ⟨hi, hs⟩ := (indexByte_cutAt 10 p).1 l r hc
      have hl : l.length ≤ p.length := by rw [hs]; simp
      have hl1 : l.length + 1 ≤ p.length := by rw [hs]; simp
      have hge : decide ((l.length : Int) ≥ 0) = true := by simp
      have e1 : ((l.length : Int) + 1) = ((l.length + 1 : Nat) : Int) := by simp
      rw [hi, hge, e1]
      simp only [if_true, slice_take _ _ hl, slice_drop _ _ hl1]
      rw [hs]; simp [List.drop_append]
    | none =>
      obtain ⟨hi, hs⟩ := (indexByte_cutAt 10 p).2 l hc
      have : decide ((-1 : Int) ≥ 0) = false := by decide
      have hd := slice_drop p p.length (Nat.le_refl _)
      rw [hi, this]
      simp only [Bool.false_eq_true, if_false]
      have e : GoLib.len p = ((p.length : Nat) : Int) := rfl
      rw [e] at hd ⊢
      rw [hd]; simp [hs]

theorem cutLine_snd_lt (p : Bytes) (hp : p ≠ []) : (cutLine p).2.length < p.length := by
  simp only [cutLine]
  cases hc : cutAt 10 p with
  | mk l r =>
    cases r with
    | some r =>
      obtain ⟨_, hs⟩ := (indexByte_cutAt 10 p).1 l r hc
      rw [hs]; simp; omega
    | none =>
      cases p with
      | nil => exact absurd rfl hp
      | cons => simp

theorem loop3_eq (hU : UnicodeOK isLetter isDigit) (content : Bytes) (tags : Tags) (end_ : Int) (p : Bytes)
    (allok : Bool) (line : Bytes) (f : List Bytes) : ∀ (toks : List Bytes) (ok : Bool),
    ShouldBuild_loop3 isLetter isDigit content tags end_ p allok line f toks ok
      = some (if ok || toks.any (fun t => GIV.Build.matchTags (UOf isLetter isDigit) t tags) then allok else false) := by
  intro toks
  induction toks with
  | nil => intro ok; cases ok <;> simp [ShouldBuild_loop3, ShouldBuild_after3]
  | cons t rest ih =>
    intro ok
    simp only [ShouldBuild_loop3, go_matchTags_eq isLetter isDigit hU, Option.bind_eq_bind, Option.bind_some]
    cases hm : GIV.Build.matchTags (UOf isLetter isDigit) t tags <;> cases ok <;> simp [ih, hm]

theorem fieldsGo_ne_nil : ∀ (s : Bytes) (skip : Nat) (cur : Bytes), cur ≠ [] → fieldsGo s skip cur ≠ [] := by
  intro s
  induction s with
  | nil => intro skip cur h; simp [fieldsGo, flush, h]
  | cons b rest ih =>
    intro skip cur h
    cases skip with
    | succ k => simp only [fieldsGo]; exact ih k cur h
    | zero =>
      simp only [fieldsGo]
      split
      · exact ih 0 (b :: cur) (by simp)
      · simp [flush, h]

theorem fields_plus_ne_nil (rest : Bytes) : fields (43 :: rest) ≠ [] := by
  simp only [fields, fieldsGo]
  have : spacePrefixLen (43 :: rest) = 0 := by
    simp [spacePrefixLen]
  simp only [this, if_true]
  exact fieldsGo_ne_nil rest 0 [43] (by simp)

theorem loop2_eq (hU : UnicodeOK isLetter isDigit) (content : Bytes) (tags : Tags) (end_ : Int) :
    ∀ (fuel n : Nat) (p : Bytes) (allok : Bool), p.length ≤ n → p.length < fuel →
    ShouldBuild_loop2 isLetter isDigit content tags end_ fuel p allok
      = some (pass2 (UOf isLetter isDigit) tags n p allok) := by
  intro fuel
  induction fuel with
  | zero => intro n p allok _ h; omega
  | succ fuel ih =>
    intro n p allok hn hf
    cases p with
    | nil =>
      cases n <;> simp [ShouldBuild_loop2, ShouldBuild_after2, pass2, GoLib.len]
    | cons b bs =>
      cases n with
      | zero => simp at hn
      | succ n =>
        have hpos : decide (GoLib.len (b :: bs) > 0) = true := by simp [GoLib.len]
        have hlt := cutLine_snd_lt (b :: bs) (by simp)
        have hn' : (cutLine (b :: bs)).2.length ≤ n := by simp at hn; simp at hlt; omega
        have hf' : (cutLine (b :: bs)).2.length < fuel := by simp at hf; simp at hlt; omega
        simp only [ShouldBuild_loop2, hpos, Bool.not_true, Bool.false_eq_true, if_false, pass2, List.isEmpty_cons]
        have hcs := cut_step (b :: bs)
        simp only [] at hcs
        rw [hcs]
        simp only [Option.bind_eq_bind, Option.bind_some]
        generalize (cutLine (b :: bs)).1 = raw at *
        generalize (cutLine (b :: bs)).2 = p' at *
        simp only [buildLine, hasPrefix_swap]
        have hss : slashslash = [47, 47] := rfl
        have hpb : plusBuild = [43, 98, 117, 105, 108, 100] := rfl
        have hor : sbTokensOr = true := rfl
        rw [hss, hpb]
        cases hpre : GIV.Build.hasPrefix [47, 47] (trimSpace raw)
        · simp [ih n p' allok hn' hf']
        · simp only [Bool.not_true, Bool.false_eq_true, if_false]
          have h2 : 2 ≤ (trimSpace raw).length := by
            have := List.isPrefixOf_iff_prefix.mp hpre
            have := this.length_le
            simpa using this
          have hsl : GoLib.slice? (trimSpace raw) (GoLib.len ([47, 47] : Bytes)) (GoLib.len (trimSpace raw))
              = some ((trimSpace raw).drop 2) := by
            have := slice_drop (trimSpace raw) 2 h2
            simpa [GoLib.len] using this
          rw [hsl]
          simp only [Option.bind_some, List.length_cons, List.length_nil]
          generalize trimSpace (List.drop (0 + 1 + 1) (trimSpace raw)) = line
          cases line with
          | nil => simp [GoLib.len, ih n p' allok hn' hf']
          | cons c tail =>
            have hpos2 : decide (GoLib.len (c :: tail) > 0) = true := by simp [GoLib.len]
            have hi0 : GoLib.idx? (c :: tail) 0 = some c := rfl
            simp only [hpos2, if_true, hi0, Option.bind_some, Option.pure_def]
            by_cases hc : c = 43
            · subst hc
              have hf := fields_plus_ne_nil tail
              cases hfl : fields (43 :: tail) with
              | nil => exact absurd hfl hf
              | cons f0 toks =>
                have hi1 : GoLib.idx? (f0 :: toks) 0 = some f0 := rfl
                have hs1 : GoLib.slice? (f0 :: toks) 1 (GoLib.len (f0 :: toks)) = some toks := by
                  simp [GoLib.slice?, GoLib.len]; omega
                simp only [beq_self_eq_true, if_true, hi1, Option.bind_some, ne_eq, not_true_eq_false,
                  if_false]
                by_cases hf0 : f0 = [43, 98, 117, 105, 108, 100]
                · subst hf0
                  simp only [beq_self_eq_true, if_true, hs1, Option.bind_some,
                    loop3_eq isLetter isDigit hU, Bool.false_or, lineOK, hor]
                  cases hany : toks.any (fun t => GIV.Build.matchTags (UOf isLetter isDigit) t tags)
                  · simp [ih n p' false hn' hf']
                  · simp [ih n p' allok hn' hf']
                · have : (f0 == ([43, 98, 117, 105, 108, 100] : Bytes)) = false := by simp [hf0]
                  simp [this, hf0, ih n p' allok hn' hf']
            · have : (c == (43 : UInt8)) = false := by simp [hc]
              simp [this, hc, ih n p' allok hn' hf']

theorem pass1_le (total : Nat) : ∀ (n : Nat) (p : Bytes) (e : Nat), e ≤ total → pass1 n total p e ≤ total := by
  intro n
  induction n with
  | zero => intro p e h; simpa [pass1] using h
  | succ n ih =>
    intro p e h
    simp only [pass1]
    split
    · exact h
    · split
      · exact ih _ _ (Nat.sub_le _ _)
      · split
        · exact h
        · split
          · exact ih _ _ h
          · exact ih _ _ (Nat.sub_le _ _)

theorem after1_irrel (content : Bytes) (tags : Tags) (e : Int) (p q : Bytes) :
    ShouldBuild_after1 isLetter isDigit content tags e p = ShouldBuild_after1 isLetter isDigit content tags e q := rfl

theorem loop1_eq' (content : Bytes) (tags : Tags) :
    ∀ (fuel n : Nat) (p : Bytes) (e : Nat), p.length ≤ n → p.length < fuel → p.length ≤ content.length →
    ShouldBuild_loop1 isLetter isDigit content tags fuel (e : Int) p
      = ShouldBuild_after1 isLetter isDigit content tags ((pass1 n content.length p e : Nat) : Int) [] := by
  intro fuel
  induction fuel with
  | zero => intro n p e _ h; omega
  | succ fuel ih =>
    intro n p e hn hf hc
    cases p with
    | nil =>
      cases n <;> simp [ShouldBuild_loop1, pass1, GoLib.len, after1_irrel isLetter isDigit content tags _ [] []]
    | cons b bs =>
      cases n with
      | zero => simp at hn
      | succ n =>
        have hpos : decide (GoLib.len (b :: bs) > 0) = true := by simp [GoLib.len]
        have hlt := cutLine_snd_lt (b :: bs) (by simp)
        have hn' : (cutLine (b :: bs)).2.length ≤ n := by simp at hn; simp at hlt; omega
        have hf' : (cutLine (b :: bs)).2.length < fuel := by simp at hf; simp at hlt; omega
        have hc' : (cutLine (b :: bs)).2.length ≤ content.length := by omega
        simp only [ShouldBuild_loop1, hpos, Bool.not_true, Bool.false_eq_true, if_false, pass1, List.isEmpty_cons]
        have hcs := cut_step (b :: bs)
        simp only [] at hcs
        rw [hcs]
        simp only [Option.bind_eq_bind, Option.bind_some]
        generalize (cutLine (b :: bs)).1 = raw at *
        generalize (cutLine (b :: bs)).2 = p' at *
        have hss : slashslash = [47, 47] := rfl
        have f1 : sbNonCommentBreaks = true := rfl
        have f2 : sbBlankOnlySetsEnd = true := rfl
        simp only [hasPrefix_swap, hss, f1, f2, Bool.true_and, if_true]
        cases hline : trimSpace raw with
        | nil =>
          have e1 : (GoLib.len content - GoLib.len p') = ((content.length - p'.length : Nat) : Int) := by
            simp only [GoLib.len]; omega
          simp only [GoLib.len, List.length_nil, Int.natCast_zero, beq_self_eq_true, if_true, List.isEmpty_nil]
          simp only [GoLib.len] at e1
          rw [e1]
          exact ih n p' _ hn' hf' hc'
        | cons c tl =>
          have hne : ((GoLib.len (c :: tl)) == (0 : Int)) = false := by simp [GoLib.len]; omega
          simp only [hne, Bool.false_eq_true, if_false, List.isEmpty_cons]
          cases hpre : GIV.Build.hasPrefix [47, 47] (c :: tl)
          · simp [after1_irrel isLetter isDigit content tags _ p' []]
          · simp [ih n p' e hn' hf' hc']

theorem go_ShouldBuild_eq (hU : UnicodeOK isLetter isDigit) (content : Bytes) (tags : Tags) :
    GIV.Go.Build.ShouldBuild isLetter isDigit content tags
      = some (GIV.Build.shouldBuild (UOf isLetter isDigit) content tags) := by
  simp only [GIV.Go.Build.ShouldBuild, GIV.Build.shouldBuild]
  have h0 : (0 : Int) = ((0 : Nat) : Int) := rfl
  rw [h0, loop1_eq' isLetter isDigit content tags _ content.length content 0 (Nat.le_refl _) (by omega) (Nat.le_refl _)]
  have hle := pass1_le content.length content.length content 0 (Nat.zero_le _)
  generalize pass1 content.length content.length content 0 = e at *
  simp only [ShouldBuild_after1, slice_take content e hle, Option.bind_eq_bind, Option.bind_some]
  exact loop2_eq isLetter isDigit hU _ tags _ _ (content.take e).length (content.take e) true (Nat.le_refl _) (by omega)

end GIV.Go.Build
