/-
  What a script says about the header numbers: every hunk lies inside both files at the place
  its `@@` line names, its two sides are literally the lines found there, its counts are the
  sizes of its sides, and hunks are in order and do not overlap.
-/
import GIV.Lemmas.DiffScript
import GIV.Lemmas.DiffSeg

namespace GIV.Diff
open GIV

set_option linter.unusedSectionVars false
variable {α : Type} [DecidableEq α]

theorem seg_append_left (p l : List α) (u v : Nat) : seg (p ++ l) (p.length + u) (p.length + v) = seg l u v := by
  unfold seg
  rw [show p.length + v - (p.length + u) = v - u by omega, ← List.drop_drop, List.drop_left]

theorem seg_prefix (l r : List α) : seg (l ++ r) 0 l.length = l := by
  simp [seg]

/-- One hunk, read against the segments `xs` / `ys` that start at line index `a` / `b`. -/
def HunkAt (a b : Nat) (xs ys : List α) (h : Hunk α) : Prop :=
  h.cx = (oldSide h.body).length ∧ h.cy = (newSide h.body).length ∧
  ∃ i j : Nat, h.posX = (i : Int) ∧ h.posY = (j : Int) ∧ a ≤ i ∧ b ≤ j ∧
    i + h.cx ≤ a + xs.length ∧ j + h.cy ≤ b + ys.length ∧
    oldSide h.body = seg xs (i - a) (i - a + h.cx) ∧ newSide h.body = seg ys (j - b) (j - b + h.cy)

theorem HunkAt.shift {a b : Nat} {xs ys : List α} {h : Hunk α} (px py : List α) {a' b' : Nat}
    (ha : a' = a + px.length) (hb : b' = b + py.length)
    (w : HunkAt a' b' xs ys h) : HunkAt a b (px ++ xs) (py ++ ys) h := by
  subst ha hb
  obtain ⟨c1, c2, i, j, p1, p2, h1, h2, h3, h4, h5, h6⟩ := w
  refine ⟨c1, c2, i, j, p1, p2, by omega, by omega, by simp; omega, by simp; omega, ?_, ?_⟩
  · rw [h5, show i - a = px.length + (i - (a + px.length)) by omega, Nat.add_assoc, seg_append_left]
  · rw [h6, show j - b = py.length + (j - (b + py.length)) by omega, Nat.add_assoc, seg_append_left]

theorem Script.wf {a b : Nat} {xs ys : List α} {hs : List (Hunk α)} (t : Script a b xs ys hs) :
    (∀ h ∈ hs, HunkAt a b xs ys h) ∧
    hs.Pairwise (fun h1 h2 => h1.posX + (h1.cx : Int) ≤ h2.posX ∧ h1.posY + (h1.cy : Int) ≤ h2.posY) := by
  induction t with
  | nil a b g => simp
  | cons a b g h xs ys hs px py cx cy _ ih =>
    obtain ⟨ih1, ih2⟩ := ih
    have tail : ∀ h' ∈ hs, HunkAt a b (g ++ oldSide h.body ++ xs) (g ++ newSide h.body ++ ys) h' := by
      intro h' hm
      have := ih1 h' hm
      exact this.shift (g ++ oldSide h.body) (g ++ newSide h.body) (by simp [cx, Nat.add_assoc]) (by simp [cy, Nat.add_assoc])
    constructor
    · intro h' hm
      simp only [List.mem_cons] at hm
      rcases hm with rfl | hm
      · refine ⟨cx, cy, a + g.length, b + g.length, px, py, by omega, by omega, by simp [cx]; omega, by simp [cy]; omega, ?_, ?_⟩
        · rw [show a + g.length - a = g.length + 0 by omega, Nat.add_assoc, List.append_assoc, seg_append_left, cx, Nat.zero_add,
            seg_prefix]
        · rw [show b + g.length - b = g.length + 0 by omega, Nat.add_assoc, List.append_assoc, seg_append_left, cy, Nat.zero_add,
            seg_prefix]
      · exact tail h' hm
    · rw [List.pairwise_cons]
      refine ⟨fun h' hm => ?_, ih2⟩
      obtain ⟨_, _, i, j, p1, p2, h1, h2, _⟩ := ih1 h' hm
      rw [px, py, p1, p2]
      omega

theorem mem_seg {α : Type} {l : List α} {a b : Nat} {s : α} (h : s ∈ seg l a b) : s ∈ l :=
  List.mem_of_mem_drop (List.mem_of_mem_take h)

theorem mem_sides {α : Type} [DecidableEq α] (b : List (Tag × α)) (p : Tag × α) (h : p ∈ b) :
    p.2 ∈ oldSide b ∨ p.2 ∈ newSide b := by
  obtain ⟨t, s⟩ := p
  cases t
  · left; simp only [oldSide, List.mem_filterMap]; exact ⟨_, h, by simp⟩
  · left; simp only [oldSide, List.mem_filterMap]; exact ⟨_, h, by simp⟩
  · right; simp only [newSide, List.mem_filterMap]; exact ⟨_, h, by simp⟩

end GIV.Diff
