/-
  GIV.Lemmas.TxtarCRLF — replacing the LF of a marker line by CRLF does not change what `parse`
  returns (the marker line contributes only its name, and the name is the same).
-/
import GIV.Lemmas.TxtarParse

namespace GIV.Txtar
open GIV

theorem parseFiles_marker_congr {l l' : Line} {n : Bytes} (h : markerName l = some n)
    (h' : markerName l' = some n) (hn : n ≠ []) (hnl : l.nl = l'.nl) (pre rest : List Line)
    (name acc : Bytes) :
    parseFiles (pre ++ l :: rest) name acc = parseFiles (pre ++ l' :: rest) name acc := by
  induction pre generalizing name acc with
  | nil => simp only [List.nil_append, parseFiles, h, h', hnl, if_pos hn]
  | cons p pre ih =>
    simp only [List.cons_append, parseFiles]
    cases markerName p with
    | none => rfl
    | some m =>
      simp only
      split
      · split
        · rw [ih]
        · rfl
      · exact ih _ _

theorem parseLines_marker_congr {l l' : Line} {n : Bytes} (h : markerName l = some n)
    (h' : markerName l' = some n) (hn : n ≠ []) (hnl : l.nl = l'.nl) (pre rest : List Line)
    (acc : Bytes) :
    parseLines (pre ++ l :: rest) acc = parseLines (pre ++ l' :: rest) acc := by
  induction pre generalizing acc with
  | nil => simp only [List.nil_append, parseLines, h, h', hnl, if_pos hn]
  | cons p pre ih =>
    simp only [List.cons_append, parseLines]
    cases markerName p with
    | none => rfl
    | some m =>
      simp only
      split
      · split
        · rw [parseFiles_marker_congr h h' hn hnl]
        · rfl
      · exact ih _

/-- A marker line may end in CRLF instead of LF: the parse is the same. -/
theorem parse_marker_crlf [FLit] {pre body : Bytes} (rest : Bytes)
    (hpre : pre = [] ∨ pre.getLast? = some NL) (hb : NL ∉ body) (hcr : body.getLast? ≠ some CR)
    (hm : MarkerLine ⟨body, true⟩) :
    parse (pre ++ (body ++ CR :: NL :: rest)) = parse (pre ++ (body ++ NL :: rest)) := by
  obtain ⟨n, hn, hne⟩ := hm
  have hn' : markerName ⟨body ++ [CR], true⟩ = some n := by rw [marker_crlf_nl body hcr, hn]
  have hb' : NL ∉ body ++ [CR] := by
    simp only [List.mem_append, List.mem_singleton, not_or]
    exact ⟨hb, by decide⟩
  unfold parse
  rw [splitLines_append hpre, splitLines_append hpre, splitLines_line_nl rest hb]
  have : body ++ CR :: NL :: rest = (body ++ [CR]) ++ NL :: rest := by simp
  rw [this, splitLines_line_nl rest hb']
  exact parseLines_marker_congr hn' hn hne rfl _ _ _

end GIV.Txtar
