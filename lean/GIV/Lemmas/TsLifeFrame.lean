/-
  Frame lemmas for GIV.Model.TsLife §3: scripts whose paths stay inside their own work directory
  do not interfere.  The shared temporary root is one tree whose first path element is the name of
  a work directory; a script with work directory `w` acts on `w :: p` where its solo run acts on
  `p`.  For every schedule of primitive actions (MkdirAll, write, RemoveAll) of any number of
  scripts on the shared tree, every script sees — after each of its actions — exactly the tree and
  the results of its solo run.
-/
import GIV.Lemmas.TsLifeUnpack

namespace GIV.TsLife
open GIV

/-- the part of the shared tree below work directory `w`, with `w` stripped. -/
def proj (w : String) (g : FS) : FS :=
  g.filterMap fun e => match e.1 with
    | w' :: q => if w' = w then some (q, e.2) else none
    | [] => none

theorem proj_cons_same (w : String) (q : Path) (n : Node) (g : FS) :
    proj w ((w :: q, n) :: g) = (q, n) :: proj w g := by simp [proj]

theorem proj_cons_other (w w' : String) (q : Path) (n : Node) (g : FS) (h : w' ≠ w) :
    proj w ((w' :: q, n) :: g) = proj w g := by simp [proj, h]

theorem get_proj (w : String) (g : FS) (q : Path) (hq : q ≠ []) : (proj w g).get q = g.get (w :: q) := by
  induction g with
  | nil => simp [proj, FS.get, hq]
  | cons e rest ih =>
    obtain ⟨p, n⟩ := e
    cases p with
    | nil =>
      have h1 : proj w (([], n) :: rest) = proj w rest := by simp [proj]
      rw [h1, ih, get_cons _ _ _ _ (by simp)]
      simp
    | cons w' p' =>
      by_cases hw : w' = w
      · subst hw
        rw [proj_cons_same, get_cons _ _ _ _ hq, get_cons _ _ _ _ (by simp), ih]
        by_cases hp : p' = q
        · simp [hp]
        · simp [hp]
      · rw [proj_cons_other _ _ _ _ _ hw, ih, get_cons _ _ _ _ (by simp)]
        have : ¬ (w' :: p' = w :: q) := by intro h; injection h with h1 _; exact hw h1
        simp [this]

/-- one round of the MkdirAll loop -/
def mkStep (fs : FS) (q : Path) : Except FsErr FS :=
  match fs.get q with
  | some .dir => .ok fs
  | some (.file _) => .error .notDir
  | none => .ok ((q, .dir) :: fs)

theorem mkdirAll_eq (fs : FS) (p : Path) : mkdirAll fs p = (prefixes p).foldlM mkStep fs := rfl

theorem mk_fold_frame (w : String) : ∀ (l : List Path) (g : FS), (∀ q ∈ l, q ≠ []) →
    (match (l.map (w :: ·)).foldlM mkStep g with
     | .ok g' => l.foldlM mkStep (proj w g) = .ok (proj w g') ∧ ∀ w', w' ≠ w → proj w' g' = proj w' g
     | .error x => l.foldlM mkStep (proj w g) = .error x)
  | [], g, _ => by simp [List.foldlM_nil, pure, Except.pure]
  | q :: rest, g, hne => by
    have hq : q ≠ [] := hne q (List.mem_cons_self ..)
    have hrest : ∀ q ∈ rest, q ≠ [] := fun x hx => hne x (List.mem_cons_of_mem _ hx)
    simp only [List.map_cons, List.foldlM_cons, bind, Except.bind]
    have hg := get_proj w g q hq
    cases hgq : g.get (w :: q) with
    | none =>
      have e1 : mkStep g (w :: q) = .ok ((w :: q, .dir) :: g) := by simp [mkStep, hgq]
      have e2 : mkStep (proj w g) q = .ok ((q, .dir) :: proj w g) := by simp [mkStep, hg, hgq]
      rw [e1, e2]
      simp only
      have ih := mk_fold_frame w rest ((w :: q, Node.dir) :: g) hrest
      rw [proj_cons_same] at ih
      cases hr : List.foldlM mkStep ((w :: q, Node.dir) :: g) (rest.map (w :: ·)) with
      | error x => rw [hr] at ih; exact ih
      | ok g' =>
        rw [hr] at ih
        simp only at ih ⊢
        refine ⟨ih.1, ?_⟩
        intro w' hw'
        rw [ih.2 w' hw', proj_cons_other _ _ _ _ _ (Ne.symm hw')]
    | some n =>
      cases n with
      | file d =>
        have e1 : mkStep g (w :: q) = .error .notDir := by simp [mkStep, hgq]
        have e2 : mkStep (proj w g) q = .error .notDir := by simp [mkStep, hg, hgq]
        rw [e1, e2]
      | dir =>
        have e1 : mkStep g (w :: q) = .ok g := by simp [mkStep, hgq]
        have e2 : mkStep (proj w g) q = .ok (proj w g) := by simp [mkStep, hg, hgq]
        rw [e1, e2]
        exact mk_fold_frame w rest g hrest

theorem prefixes_cons (w : String) (p : Path) : prefixes (w :: p) = [w] :: (prefixes p).map (w :: ·) := by
  simp only [prefixes, List.length_cons, List.range_succ_eq_map, List.map_cons, List.map_map]
  constructor <;> simp [Function.comp_def]

/-- MkdirAll below one's own work directory (which exists): the same result as solo, nobody else's
tree changes. -/
theorem mkdirAll_frame (w : String) (g : FS) (p : Path) (hw : g.get [w] = some .dir) :
    (match mkdirAll g (w :: p) with
     | .ok g' => mkdirAll (proj w g) p = .ok (proj w g') ∧ ∀ w', w' ≠ w → proj w' g' = proj w' g
     | .error x => mkdirAll (proj w g) p = .error x) := by
  rw [mkdirAll_eq, mkdirAll_eq, prefixes_cons]
  simp only [List.foldlM_cons, bind, Except.bind]
  have : mkStep g [w] = .ok g := by simp [mkStep, hw]
  rw [this]
  exact mk_fold_frame w (prefixes p) g (fun q hq => mem_prefixes_ne_nil hq)

theorem writeFile_frame (w : String) (g : FS) (p : Path) (d : Bytes) (excl : Bool) (hp : p ≠ []) (hw : g.get [w] = some .dir) :
    (match writeFile g (w :: p) d excl with
     | .ok g' => writeFile (proj w g) p d excl = .ok (proj w g') ∧ ∀ w', w' ≠ w → proj w' g' = proj w' g
     | .error x => writeFile (proj w g) p d excl = .error x) := by
  unfold writeFile
  rw [get_proj w g p hp]
  have hpar : (proj w g).get p.dropLast = g.get (w :: p).dropLast := by
    cases p with
    | nil => exact absurd rfl hp
    | cons a r =>
      cases r with
      | nil => simp [get_nil, hw]
      | cons b r' =>
        have : (a :: b :: r').dropLast ≠ [] := by simp
        rw [get_proj w g _ this]; simp
  rw [hpar]
  cases h1 : g.get (w :: p) with
  | some n =>
    cases n with
    | dir => simp
    | file d0 =>
      cases excl with
      | true => simp
      | false =>
        simp only [Bool.false_eq_true, if_false]
        exact ⟨by rw [proj_cons_same], fun w' hw' => proj_cons_other _ _ _ _ _ (Ne.symm hw')⟩
  | none =>
    simp only
    cases h2 : g.get (w :: p).dropLast with
    | none => simp
    | some n =>
      cases n with
      | file d0 => simp
      | dir =>
        simp only
        exact ⟨by rw [proj_cons_same], fun w' hw' => proj_cons_other _ _ _ _ _ (Ne.symm hw')⟩

theorem removeTree_frame (w : String) (g : FS) (p : Path) :
    proj w (removeTree g (w :: p)) = removeTree (proj w g) p ∧
    ∀ w', w' ≠ w → proj w' (removeTree g (w :: p)) = proj w' g := by
  induction g with
  | nil => simp [proj, removeTree]
  | cons e rest ih =>
    obtain ⟨q, n⟩ := e
    obtain ⟨ih1, ih2⟩ := ih
    cases q with
    | nil =>
      have h0 : removeTree (([], n) :: rest) (w :: p) = ([], n) :: removeTree rest (w :: p) := by
        simp [removeTree]
      have hp : ∀ w'' (g' : FS), proj w'' (([], n) :: g') = proj w'' g' := by intro w'' g'; simp [proj]
      rw [h0]
      exact ⟨by rw [hp, hp, ih1], fun w' hw' => by rw [hp, hp, ih2 w' hw']⟩
    | cons w0 q' =>
      by_cases hw : w0 = w
      · subst hw
        by_cases hpre : p.isPrefixOf q' = true
        · have h0 : removeTree ((w0 :: q', n) :: rest) (w0 :: p) = removeTree rest (w0 :: p) := by
            simp [removeTree, hpre]
          have h1 : removeTree ((q', n) :: proj w0 rest) p = removeTree (proj w0 rest) p := by
            simp [removeTree, hpre]
          rw [h0, proj_cons_same, h1]
          exact ⟨ih1, fun w' hw' => by rw [ih2 w' hw', proj_cons_other _ _ _ _ _ (Ne.symm hw')]⟩
        · have hpre' : p.isPrefixOf q' = false := Bool.eq_false_iff.2 hpre
          have h0 : removeTree ((w0 :: q', n) :: rest) (w0 :: p) = (w0 :: q', n) :: removeTree rest (w0 :: p) := by
            simp [removeTree, hpre']
          have h1 : removeTree ((q', n) :: proj w0 rest) p = (q', n) :: removeTree (proj w0 rest) p := by
            simp [removeTree, hpre']
          rw [h0, proj_cons_same, proj_cons_same, h1, ih1]
          exact ⟨rfl, fun w' hw' => by
            rw [proj_cons_other _ _ _ _ _ (Ne.symm hw'), proj_cons_other _ _ _ _ _ (Ne.symm hw'), ih2 w' hw']⟩
      · have h0 : removeTree ((w0 :: q', n) :: rest) (w :: p) = (w0 :: q', n) :: removeTree rest (w :: p) := by
          have : ¬ (w = w0) := fun h => hw h.symm
          simp [removeTree, List.isPrefixOf, this]
        rw [h0, proj_cons_other _ _ _ _ _ hw, proj_cons_other _ _ _ _ _ hw]
        refine ⟨ih1, fun w' hw' => ?_⟩
        by_cases h3 : w0 = w'
        · subst h3; rw [proj_cons_same, proj_cons_same, ih2 w0 hw']
        · rw [proj_cons_other _ _ _ _ _ h3, proj_cons_other _ _ _ _ _ h3, ih2 w' hw']

/-! ### schedules of primitive actions on the shared tree -/

inductive Act where
  | mk (p : Path)
  | wr (p : Path) (d : Bytes) (excl : Bool)
  | rm (p : Path)
  deriving Repr, DecidableEq

/-- an action of the script with work directory `w` (`none` = its solo run, paths as they are):
the new tree and whether the call succeeded. Writing to or removing the work directory itself is
refused (the interpreter never does it). -/
def act (pre : Path) (fs : FS) : Act → FS × Bool
  | .mk p => match mkdirAll fs (pre ++ p) with
    | .ok fs' => (fs', true)
    | .error _ => (fs, false)
  | .wr p d x => if p = [] then (fs, false) else
    match writeFile fs (pre ++ p) d x with
    | .ok fs' => (fs', true)
    | .error _ => (fs, false)
  | .rm p => if p = [] then (fs, false) else (removeTree fs (pre ++ p), true)

/-- the solo run: results and the tree seen after each action -/
def runLocal : FS → List Act → FS × List (Bool × FS)
  | fs, [] => (fs, [])
  | fs, a :: rest =>
    let r := act [] fs a
    let t := runLocal r.1 rest
    (t.1, (r.2, r.1) :: t.2)

/-- a schedule on the shared tree: who acts, and what each sees (result, own subtree) afterwards -/
def runShared : FS → List (String × Act) → FS × List (String × Bool × FS)
  | g, [] => (g, [])
  | g, (w, a) :: rest =>
    let r := act [w] g a
    let t := runShared r.1 rest
    (t.1, (w, r.2, proj w r.1) :: t.2)

/-- all the work directories of the names in `ws` exist -/
def HasDirs (g : FS) (ws : List String) : Prop := ∀ w ∈ ws, g.get [w] = some .dir

theorem act_frame (w : String) (g : FS) (a : Act) (hw : g.get [w] = some .dir) :
    (act [] (proj w g) a).2 = (act [w] g a).2 ∧ (act [] (proj w g) a).1 = proj w (act [w] g a).1 ∧
    (∀ w', w' ≠ w → proj w' (act [w] g a).1 = proj w' g) := by
  cases a with
  | mk p =>
    have := mkdirAll_frame w g p hw
    simp only [act, List.nil_append, List.singleton_append]
    cases h : mkdirAll g (w :: p) with
    | ok g' => rw [h] at this; simp only at this; rw [this.1]; exact ⟨rfl, rfl, this.2⟩
    | error x => rw [h] at this; simp only at this; rw [this]; exact ⟨rfl, rfl, fun _ _ => rfl⟩
  | wr p d x =>
    simp only [act, List.nil_append, List.singleton_append]
    by_cases hp : p = []
    · simp [hp]
    · simp only [hp, if_false]
      have := writeFile_frame w g p d x hp hw
      cases h : writeFile g (w :: p) d x with
      | ok g' => rw [h] at this; simp only at this; rw [this.1]; exact ⟨rfl, rfl, this.2⟩
      | error e => rw [h] at this; simp only at this; rw [this]; exact ⟨rfl, rfl, fun _ _ => rfl⟩
  | rm p =>
    simp only [act, List.nil_append, List.singleton_append]
    by_cases hp : p = []
    · simp [hp]
    · simp only [hp, if_false]
      obtain ⟨a, b⟩ := removeTree_frame w g p
      exact ⟨by first | rfl | trivial, a.symm, b⟩

theorem get_removeTree_root (g : FS) (w w' : String) (p : Path) (hp : p ≠ []) :
    (removeTree g (w :: p)).get [w'] = g.get [w'] := by
  induction g with
  | nil => simp [removeTree, FS.get]
  | cons e rest ih =>
    obtain ⟨q, n⟩ := e
    by_cases hpre : (w :: p).isPrefixOf q = true
    · have h0 : removeTree ((q, n) :: rest) (w :: p) = removeTree rest (w :: p) := by
        simp [removeTree, hpre]
      rw [h0, ih, get_cons _ _ _ _ (by simp)]
      have : q ≠ [w'] := by
        intro hq; subst hq
        cases p with
        | nil => exact hp rfl
        | cons a r => simp [List.isPrefixOf] at hpre
      simp [this]
    · have hpre' : (w :: p).isPrefixOf q = false := Bool.eq_false_iff.2 hpre
      have h0 : removeTree ((q, n) :: rest) (w :: p) = (q, n) :: removeTree rest (w :: p) := by
        simp [removeTree, hpre']
      rw [h0, get_cons _ _ _ _ (by simp), get_cons _ _ _ _ (by simp), ih]

theorem act_keeps_dirs (w : String) (g : FS) (a : Act) (ws : List String) (h : HasDirs g ws) :
    HasDirs (act [w] g a).1 ws := by
  intro w' hw'
  have h0 := h w' hw'
  cases a with
  | mk p =>
    simp only [act, List.singleton_append]
    cases hm : mkdirAll g (w :: p) with
    | error x => exact h0
    | ok g' =>
      simp only
      rcases (mkdirAll_spec hm).2 [w'] with h1 | ⟨_, _, h1⟩
      · rw [h1]; exact h0
      · exact h1
  | wr p d x =>
    simp only [act, List.singleton_append]
    by_cases hp : p = []
    · simp [hp]; exact h0
    · simp only [hp, if_false]
      cases hwf : writeFile g (w :: p) d x with
      | error e => exact h0
      | ok g' =>
        simp only
        obtain ⟨rfl, _, _, _⟩ := writeFile_spec hwf
        rw [get_cons _ _ _ _ (by simp)]
        have : ¬ (w :: p = [w']) := by
          intro hh; injection hh with _ h2; exact hp h2
        simp [this]; exact h0
  | rm p =>
    simp only [act, List.singleton_append]
    by_cases hp : p = []
    · simp [hp]; exact h0
    · simp only [hp, if_false]
      rw [get_removeTree_root g w w' p hp]; exact h0

/-- Frame / non-interference: for every schedule of actions of any number of scripts on the shared
tree (all the work directories exist): script `w` observes, after each of its actions, the result
and the tree of its solo run, and ends with the tree of its solo run. -/
theorem frame_schedule (w : String) : ∀ (sched : List (String × Act)) (g : FS) (ws : List String),
    HasDirs g ws → w ∈ ws → (∀ x ∈ sched, x.1 ∈ ws) →
    proj w (runShared g sched).1 = (runLocal (proj w g) ((sched.filter (·.1 == w)).map (·.2))).1 ∧
    ((runShared g sched).2.filter (·.1 == w)).map (·.2) =
      (runLocal (proj w g) ((sched.filter (·.1 == w)).map (·.2))).2
  | [], g, ws, _, _, _ => by simp [runShared, runLocal]
  | (w0, a) :: rest, g, ws, hd, hw, hs => by
    have hw0 : w0 ∈ ws := hs (w0, a) (List.mem_cons_self ..)
    have hd' := act_keeps_dirs w0 g a ws hd
    have ih := frame_schedule w rest (act [w0] g a).1 ws hd' hw (fun x hx => hs x (List.mem_cons_of_mem _ hx))
    obtain ⟨f1, f2, f3⟩ := act_frame w0 g a (hd w0 hw0)
    by_cases h : w0 = w
    · subst h
      simp only [runShared, List.filter_cons, beq_self_eq_true, if_true, List.map_cons, runLocal]
      rw [f2, f1]
      exact ⟨ih.1, by rw [ih.2]⟩
    · have hb : (w0 == w) = false := by simpa using h
      simp only [runShared, List.filter_cons, hb, Bool.false_eq_true, if_false]
      rw [← f3 w (Ne.symm h)]
      exact ih

end GIV.TsLife
