/-
  GIV.Lemmas.CachePutSeq — sequential histories (C12): one operation at a time, each run by a
  process that may be hit by at most one fault (a failing call, a short write, or death before /
  after any call).
-/
import GIV.Lemmas.CachePutLookup

set_option linter.unusedSimpArgs false
set_option linter.unusedSectionVars false
set_option linter.unusedVariables false

namespace GIV.CachePut
open GIV

variable {Id Hsh : Type} [DecidableEq Id] [DecidableEq Hsh]

inductive Outcome (Hsh : Type) where
  | ret (r : Result Hsh)
  | crashed

/-- `OpRun P now proc op fs pc used fs' o`: process `proc`, alone, runs `op` from program point `pc`
to its end (`o = .ret r`) or to its death (`o = .crashed`, its descriptors are closed); every step is the
model's `tstep`; `used` says whether the single fault of this run has been spent. -/
inductive OpRun (P : Params Id Hsh) (now : Int) (proc : Nat) (op : Op Id) :
    FS Id Hsh → PC Hsh → Bool → FS Id Hsh → Outcome Hsh → Prop
  | step {fs fs' fs'' : FS Id Hsh} {pc pc' : PC Hsh} {used used' : Bool} {fault : Fault} {n : Nat} {r : Res} {o : Outcome Hsh} :
      FaultStep fault used used' → tstep P now fs proc op pc fault n = some (fs', r, .goto pc') →
      OpRun P now proc op fs' pc' used' fs'' o → OpRun P now proc op fs pc used fs'' o
  | done {fs fs' : FS Id Hsh} {pc : PC Hsh} {used used' : Bool} {fault : Fault} {n : Nat} {r : Res} {res : Result Hsh} :
      FaultStep fault used used' → tstep P now fs proc op pc fault n = some (fs', r, .done res) →
      OpRun P now proc op fs pc used fs' (.ret res)
  | crashBefore {fs : FS Id Hsh} {pc : PC Hsh} : OpRun P now proc op fs pc false (fs.closeProc proc) .crashed
  | crashAfter {fs fs' : FS Id Hsh} {pc : PC Hsh} {n : Nat} {r : Res} {nx : Next Hsh} :
      tstep P now fs proc op pc .none n = some (fs', r, nx) →
      OpRun P now proc op fs pc false (fs'.closeProc proc) .crashed

/-- a whole operation, from its first program point. -/
def OpExec (P : Params Id Hsh) (now : Int) (proc : Nat) (op : Op Id) (fs fs' : FS Id Hsh) (o : Outcome Hsh) : Prop :=
  match startOp (Hsh := Hsh) op with
  | .done r => fs' = fs ∧ o = .ret r
  | .goto pc => OpRun P now proc op fs pc false fs' o

/-- the contents offered by an operation are in the set the hypotheses speak about. -/
def OpOffers (offered : Bytes → Prop) : Op Id → Prop
  | .put _ s => offered s.data1
  | _ => True

/-- what `Trim` does to the directory: it removes a file (any file: modification times, by which Trim
selects, are not modelled, so every selection is covered). -/
def FS.remove (fs : FS Id Hsh) (q : Name Id Hsh) : FS Id Hsh :=
  { fs with names := fun p => if p = q then none else fs.names p }

/-- histories: from an undamaged cache, any sequence of operations, each with at most one fault, and of
removals of files by Trim. -/
inductive Hist (P : Params Id Hsh) (offered : Bytes → Prop) : FS Id Hsh → Prop
  | init {fs : FS Id Hsh} : FSInv P offered fs → Hist P offered fs
  | op {fs fs' : FS Id Hsh} {now : Int} {proc : Nat} {op : Op Id} {o : Outcome Hsh} :
      Hist P offered fs → OpOffers offered op → OpExec P now proc op fs fs' o → Hist P offered fs'
  | trim {fs : FS Id Hsh} (q : Name Id Hsh) : Hist P offered fs → Hist P offered (fs.remove q)

variable {P : Params Id Hsh} {offered : Bytes → Prop} {now : Int} {proc : Nat}

theorem put_run_inv (hy : Hyps P offered) {id : Id} {s : Src} (hoff : offered s.data1)
    {fs fs' : FS Id Hsh} {pc : PC Hsh} {used : Bool} {o : Outcome Hsh}
    (hrun : OpRun P now proc (.put id s) fs pc used fs' o) (hL : LocalPut P offered now id s used fs pc) :
    FSInv P offered fs' := by
  induction hrun with
  | step hf hs _ ih => exact ih (put_step_preserves hy hoff hL hs hf)
  | done hf hs => exact put_step_preserves hy hoff hL hs hf
  | crashBefore => exact inv_closeProc _ (local_unused_inv hy hoff hL)
  | @crashAfter fs fs' pc n r nx hs =>
    have h := put_step_preserves hy hoff hL hs (FaultStep.none false)
    cases nx with
    | goto pc' => exact inv_closeProc _ (local_unused_inv hy hoff h)
    | done res => exact inv_closeProc _ h

theorem get_run_inv (hy : Hyps P offered) {op : Op Id} (hop : isLookup op = true)
    {fs fs' : FS Id Hsh} {pc : PC Hsh} {used : Bool} {o : Outcome Hsh}
    (hrun : OpRun P now proc op fs pc used fs' o) (hL : LocalGet P offered op.id fs pc) :
    FSInv P offered fs' ∧ ∀ r, o = .ret r → ResOK P offered r := by
  induction hrun with
  | step hf hs _ ih => exact ih (get_step_preserves hy hop hL hs)
  | done hf hs =>
    have h := get_step_preserves hy hop hL hs
    exact ⟨h.1, fun r hr => by cases hr; exact h.2⟩
  | crashBefore => exact ⟨inv_closeProc _ (localGet_inv hL), fun r hr => by cases hr⟩
  | @crashAfter fs fs' pc n r nx hs =>
    have h := get_step_preserves hy hop hL hs
    refine ⟨?_, fun r hr => by cases hr⟩
    cases nx with
    | goto pc' => exact inv_closeProc _ (localGet_inv h)
    | done res => exact inv_closeProc _ h.1

/-- one operation (with at most one fault) from a directory satisfying the invariant. -/
theorem opExec_inv (hy : Hyps P offered) {op : Op Id} (hoffers : OpOffers offered op)
    {fs fs' : FS Id Hsh} {o : Outcome Hsh} (hinv : FSInv P offered fs) (hex : OpExec P now proc op fs fs' o) :
    FSInv P offered fs' := by
  unfold OpExec at hex
  cases hop : isLookup op with
  | true =>
    have hst := get_start (P := P) (offered := offered) hop hinv
    split at hex
    · obtain ⟨rfl, _⟩ := hex; exact hinv
    · next pc hpc => rw [hpc] at hst; exact (get_run_inv hy hop hex hst).1
  | false =>
    cases op with
    | put id s =>
      have hst := put_start (P := P) (offered := offered) (now := now) (id := id) (s := s) hinv
      split at hex
      · obtain ⟨rfl, _⟩ := hex; exact hinv
      · next pc hpc => rw [hpc] at hst; exact put_run_inv hy hoffers hex hst
    | get id => simp [isLookup] at hop
    | getFile id => simp [isLookup] at hop
    | getBytes id => simp [isLookup] at hop

/-! ### the checksum gate of `GetBytes`, in any world -/

theorem bytesResult_gate {acc d : Bytes} {e e' : Entry Hsh} (h : bytesResult P acc e = .done (.bytes d e')) :
    P.H d = e'.out := by
  by_cases hh : P.H acc = e.out
  · simp [bytesResult, Gen.CachePut.getBytesReject, hh] at h
    obtain ⟨rfl, rfl⟩ := h; exact hh
  · simp [bytesResult, Gen.CachePut.getBytesReject, hh] at h

theorem next_bytes_gate {content : Name Id Hsh → Option Bytes} {n : Nat} {op : Op Id} {pc : PC Hsh} {r : Res}
    {d : Bytes} {e : Entry Hsh} (h : next P content n op pc r = .done (.bytes d e)) : P.H d = e.out := by
  cases op <;> cases pc <;> simp only [next] at h <;>
    (repeat' split at h) <;>
    simp_all [copyOk, copyErr, indexOk, errPath, afterCopyN, writeOrNext, bytesResult, afterGetClose, afterUsed,
      Gen.CachePut.indexAfterCopy, Gen.CachePut.copyErrSkipsIndex, Gen.CachePut.copyReuseRefreshes,
      Gen.CachePut.truncOnSeekErr, Gen.CachePut.truncOnCopyErr, Gen.CachePut.truncOnLastReadErr,
      Gen.CachePut.truncOnMismatch, Gen.CachePut.truncOnCommitErr, Gen.CachePut.checkBeforeLastByte,
      Gen.CachePut.removeOnCloseErr, Gen.CachePut.indexTruncAfterWrite, Gen.CachePut.indexRemoveOnErr,
      Gen.CachePut.getBytesReject] <;>
    (repeat' split at h) <;> simp_all [Gen.CachePut.getBytesReject]

theorem run_bytes_gate {op : Op Id} {fs fs' : FS Id Hsh} {pc : PC Hsh} {used : Bool} {o : Outcome Hsh}
    (hrun : OpRun P now proc op fs pc used fs' o) {d : Bytes} {e : Entry Hsh} (ho : o = .ret (.bytes d e)) :
    P.H d = e.out := by
  induction hrun with
  | step _ _ _ ih => exact ih ho
  | done hf hs =>
    cases ho
    obtain ⟨_, hnx⟩ := tstep_eq hs
    exact next_bytes_gate hnx.symm
  | crashBefore => cases ho
  | crashAfter _ => cases ho

end GIV.CachePut
