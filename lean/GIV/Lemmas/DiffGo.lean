/-
  GIV.Lemmas.DiffGo — the Go→Lean translation of diff.lines (GIV.Gen.DiffGo, regenerated from /repo on
  every run) equals the model's `lines`, for all inputs (it never panics: SplitAfter never returns an empty list).
-/
import GIV.Gen.DiffGo

namespace GIV.Go.Diff
open GIV GIV.GoLib GIV.Diff

/-- what `lines` does to the pieces of SplitAfter: drop a final empty piece, else attach the warning to the last one. -/
def post : List Bytes → List Bytes
  | [] => []
  | [l] => if l = [] then [] else [l ++ noNewline]
  | l :: m :: rest => l :: post (m :: rest)

def mapHead (cur : Bytes) : List Bytes → List Bytes
  | [] => []
  | h :: t => (cur ++ h) :: t

theorem splitAfterNL_ne_nil : ∀ x : Bytes, splitAfterNL x ≠ [] := by
  intro x
  induction x with
  | nil => simp [splitAfterNL]
  | cons b rest ih =>
    simp only [splitAfterNL]
    split
    · simp
    · split <;> simp

theorem linesGo_post : ∀ (x cur : Bytes), linesGo cur x = post (mapHead cur (splitAfterNL x)) := by
  intro x
  induction x with
  | nil => intro cur; by_cases h : cur = [] <;> simp [linesGo, splitAfterNL, mapHead, post, h]
  | cons b rest ih =>
    intro cur
    simp only [linesGo, splitAfterNL]
    by_cases hb : b = NL
    · simp only [hb, if_true, mapHead]
      have hne := splitAfterNL_ne_nil rest
      cases hs : splitAfterNL rest with
      | nil => exact absurd hs hne
      | cons h t =>
        have := ih []
        rw [hs] at this
        simp only [mapHead, List.nil_append] at this
        simp [post, this]
    · simp only [hb, if_false]
      have hne := splitAfterNL_ne_nil rest
      cases hs : splitAfterNL rest with
      | nil => exact absurd hs hne
      | cons h t =>
        have := ih (cur ++ [b])
        rw [hs] at this
        simp only [mapHead] at this
        simp [mapHead, this]

theorem lines_post (x : Bytes) : GIV.Diff.lines x = post (splitAfterNL x) := by
  have := linesGo_post x []
  unfold GIV.Diff.lines
  rw [this]
  cases splitAfterNL x <;> simp [mapHead]

theorem post_concat (xs : List Bytes) (l : Bytes) :
    post (xs ++ [l]) = if l = [] then xs else xs ++ [l ++ noNewline] := by
  induction xs with
  | nil => by_cases h : l = [] <;> simp [post, h]
  | cons a rest ih =>
    cases rest with
    | nil => by_cases h : l = [] <;> simp [post, h]
    | cons m r =>
      simp only [List.cons_append] at ih ⊢
      have : post (a :: m :: (r ++ [l])) = a :: post (m :: (r ++ [l])) := by
        simp [post]
      rw [this, ih]
      by_cases h : l = [] <;> simp [h]

theorem idx_last {α} (xs : List α) (a : α) : GoLib.idx? (xs ++ [a]) (GoLib.len (xs ++ [a]) - 1) = some a := by
  have : (GoLib.len (xs ++ [a]) - 1) = (xs.length : Int) := by simp [GoLib.len]
  rw [this]; simp [GoLib.idx?]

theorem slice_init {α} (xs : List α) (a : α) :
    GoLib.slice? (xs ++ [a]) 0 (GoLib.len (xs ++ [a]) - 1) = some xs := by
  have : (GoLib.len (xs ++ [a]) - 1) = (xs.length : Int) := by simp [GoLib.len]
  rw [this]; simp [GoLib.slice?]; omega

theorem set_last {α} (xs : List α) (a v : α) :
    GoLib.setIdx? (xs ++ [a]) (GoLib.len (xs ++ [a]) - 1) v = some (xs ++ [v]) := by
  have : (GoLib.len (xs ++ [a]) - 1) = (xs.length : Int) := by simp [GoLib.len]
  rw [this]
  simp [GoLib.setIdx?]; omega

/-- The translated `lines` never panics and is the model's `lines`. -/
theorem go_lines_eq (x : Bytes) : GIV.Go.Diff.lines x = some (GIV.Diff.lines x) := by
  rw [lines_post]
  unfold GIV.Go.Diff.lines
  have hne := splitAfterNL_ne_nil x
  generalize splitAfterNL x = L at hne
  rcases List.eq_nil_or_concat L with rfl | ⟨xs, l, rfl⟩
  · exact absurd rfl hne
  · have e : xs.concat l = xs ++ [l] := by simp
    rw [e, post_concat]
    have hn : noNewline = [10, 92, 32, 78, 111, 32, 110, 101, 119, 108, 105, 110, 101, 32, 97, 116, 32, 101, 110, 100, 32, 111, 102, 32, 102, 105, 108, 101, 10] := by decide
    simp only [idx_last, Option.bind_eq_bind, Option.bind_some, slice_init, set_last, hn]
    by_cases hl : l = []
    · simp [hl]
    · have : (l == ([] : Bytes)) = false := by simp [hl]
      simp [hl, this]

end GIV.Go.Diff
