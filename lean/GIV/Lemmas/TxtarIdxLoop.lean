/-
  GIV.Lemmas.TxtarIdxLoop — the index-form loops (`findFileMarker`: `data[i:]`,
  `bytes.Index(data[i:], "\\n-- ")`, `i += j+1`; `Parse`: `for name != ""`) compute the
  line-structured forms.  Key facts: `indexSub_line` (bytes.Index with a separator starting with
  '\\n' finds the next *line start* whose line begins with "-- ") and `MarkerSpec.noPrefix` (a line
  that does not begin with "-- " is not a marker, so testing isMarker only there loses nothing).
  Generic in the `isMarker` used, so that /repo's Parse and x/tools' Parse share the proof.
-/
import GIV.Lemmas.TxtarIdx
namespace GIV.Txtar
open GIV

/-- the `"\n-- "` literal. -/
class FNLM : Prop where
  eq : Gen.Txtar.newlineMarker = [10, 45, 45, 32]

theorem newlineMarker_eq [FLit] [FNLM] : newlineMarker = NL :: marker := by
  rw [marker_eq]; exact FNLM.eq

theorem marker_ne_nil [FLit] : marker ≠ [] := by rw [marker_eq]; simp

/-! ### bytes.Index for a separator that starts with a byte not in the current line -/

theorem indexSub_not_mem {s : Bytes} {c : UInt8} (h : c ∉ s) (m : Bytes) : indexSub s (c :: m) = none := by
  induction s with
  | nil => simp [indexSub]
  | cons x xs ih =>
    simp only [List.mem_cons, not_or] at h
    have hx : (c == x) = false := by rw [beq_eq_false_iff_ne]; exact h.1
    simp [indexSub, hasPrefix_eq, List.isPrefixOf, hx, ih h.2]

theorem indexSub_line {body : Bytes} {c : UInt8} (h : c ∉ body) (m rest : Bytes) :
    indexSub (body ++ c :: rest) (c :: m) =
      if hasPrefix rest m then some body.length
      else (indexSub rest (c :: m)).map (· + (body.length + 1)) := by
  induction body with
  | nil =>
    simp only [List.nil_append, indexSub, hasPrefix_eq, List.isPrefixOf, beq_self_eq_true, Bool.true_and,
      List.length_nil, Nat.zero_add]
  | cons x xs ih =>
    simp only [List.mem_cons, not_or] at h
    have hx : (c == x) = false := by rw [beq_eq_false_iff_ne]; exact h.1
    simp only [List.cons_append, indexSub, hasPrefix_eq, List.isPrefixOf, hx, Bool.false_and,
      Bool.false_eq_true, if_false]
    rw [← hasPrefix_eq, ih h.2]
    split
    · simp
    · simp only [Option.map_map, List.length_cons]
      congr 1

/-! ### generic line-level forms -/

/-- `findFM` with the recogniser as a parameter. -/
def findFMG (mk : Line → Option Bytes) : List Line → Bytes → Option Found
  | [], acc => some ⟨fixNL acc, [], none⟩
  | l :: rest, acc =>
    match mk l with
    | none => none
    | some name =>
      if name ≠ [] then some ⟨acc, name, if l.nl then some rest else none⟩
      else findFMG mk rest (acc ++ l.bytes)

theorem findFM_eq_G (ls : List Line) (acc : Bytes) : findFM ls acc = findFMG markerName ls acc := by
  induction ls generalizing acc with
  | nil => rfl
  | cons l rest ih =>
    simp only [findFM, findFMG]
    cases markerName l with
    | none => rfl
    | some n =>
      simp only
      split
      · rfl
      · exact ih _

/-- line-level result → what the Go function returns. -/
def Found.toIdx (f : Found) : Bytes × Bytes × Option Bytes := (f.before, f.name, f.after.map joinLines)

/-- the tail of one loop iteration of `findFileMarker`, after `isMarker(data[i:])` said no. -/
def contIdx (isM : Bytes → Option (Bytes × Option Bytes)) (data : Bytes) (fuel i : Nat) (d : Bytes) :
    Option (Bytes × Bytes × Option Bytes) :=
  match indexSub d newlineMarker with
  | none => some (fixNL data, [], none)
  | some j => findFileMarkerLoop isM data fuel (i + (j + 1))

theorem findFileMarkerLoop_succ (isM : Bytes → Option (Bytes × Option Bytes)) (data : Bytes)
    (fuel i : Nat) (hi : i ≤ data.length) :
    findFileMarkerLoop isM data (fuel + 1) i =
      match isM (data.drop i) with
      | none => none
      | some (name, after) =>
        if name ≠ [] then some (data.take i, name, after) else contIdx isM data fuel i (data.drop i) := by
  rw [findFileMarkerLoop]
  simp only [slice?_suffix hi, slice?_prefix hi, Option.bind_eq_bind, Option.bind_some]
  cases isM (data.drop i) with
  | none => rfl
  | some p =>
    obtain ⟨name, after⟩ := p
    simp only [Option.bind_some]
    split
    · rfl
    · rfl

end GIV.Txtar
namespace GIV.Txtar
open GIV

section loop
variable {isM : Bytes → Option (Bytes × Option Bytes)} {mk : Line → Option Bytes}

/-- Statement M: the loop positioned at the start of the line list `ls` (after the bytes `P`). -/
def LoopAt (isM : Bytes → Option (Bytes × Option Bytes)) (mk : Line → Option Bytes) (ls : List Line) : Prop :=
  ∀ (P : Bytes) (fuel : Nat), ls.length + 1 ≤ fuel → LinesOK ls →
    findFileMarkerLoop isM (P ++ joinLines ls) fuel P.length = (findFMG mk ls P).map Found.toIdx

/-- Statement C: the continuation after line `l` (which was not a marker), lines `rest` follow. -/
def ContAt (isM : Bytes → Option (Bytes × Option Bytes)) (mk : Line → Option Bytes) (rest : List Line) : Prop :=
  ∀ (l : Line) (P : Bytes) (fuel : Nat), rest.length + 1 ≤ fuel → LinesOK (l :: rest) →
    contIdx isM (P ++ joinLines (l :: rest)) fuel P.length (joinLines (l :: rest)) =
      (findFMG mk rest (P ++ l.bytes)).map Found.toIdx

theorem loopAt_nil [FLit] [FNLM] (hs : MarkerSpec isM mk) : LoopAt isM mk [] := by
  intro P fuel hf _
  obtain ⟨f, rfl⟩ : ∃ f, fuel = f + 1 := ⟨fuel - 1, by simp at hf; omega⟩
  have h1 := hs.fst ⟨[], false⟩ [] (by simp) (fun _ => rfl)
  have h2 : mk ⟨[], false⟩ = some [] := hs.noPrefix _ (by
    simp only [Line.bytes, Bool.false_eq_true, if_false]
    cases hm : marker with
    | nil => exact absurd hm marker_ne_nil
    | cons a m => rfl)
  rw [h2] at h1
  simp only [Line.bytes, Bool.false_eq_true, if_false, List.append_nil] at h1
  rw [findFileMarkerLoop_succ _ _ _ _ (by simp [joinLines])]
  simp only [joinLines_nil, List.append_nil, List.drop_length]
  cases hm : isM [] with
  | none => rw [hm] at h1; simp at h1
  | some p =>
    obtain ⟨n, a⟩ := p
    rw [hm] at h1
    simp only [Option.map_some, Option.some.injEq] at h1
    subst h1
    simp only [ne_eq, not_true_eq_false, if_false, contIdx, newlineMarker_eq, indexSub, List.isEmpty_cons,
      Bool.false_eq_true, findFMG, Option.map_some, Found.toIdx, Option.map_none]

theorem contAt_end [FLit] [FNLM] (l : Line) (P : Bytes) (fuel : Nat)
    (h : indexSub (joinLines [l]) newlineMarker = none) :
    contIdx isM (P ++ joinLines [l]) fuel P.length (joinLines [l]) =
      (findFMG mk [] (P ++ l.bytes)).map Found.toIdx := by
  unfold contIdx
  rw [h]
  simp only [findFMG, Option.map_some, Found.toIdx, Option.map_none, joinLines_cons,
    joinLines_nil, List.append_nil]

theorem indexSub_lastLine [FLit] [FNLM] {l : Line} (hb : NL ∉ l.body) :
    indexSub (joinLines [l]) newlineMarker = none := by
  obtain ⟨body, nl⟩ := l
  rw [newlineMarker_eq]
  cases nl with
  | true =>
    simp only [joinLines_cons, joinLines_nil, Line.bytes, if_true, List.append_nil]
    rw [indexSub_line hb]
    have : hasPrefix [] marker = false := by
      rw [hasPrefix_eq]
      cases hm : marker with
      | nil => exact absurd hm marker_ne_nil
      | cons a m => rfl
    simp [this, indexSub]
  | false =>
    simp only [joinLines_cons, joinLines_nil, Line.bytes, Bool.false_eq_true, if_false, List.append_nil]
    exact indexSub_not_mem hb _

theorem contAt_nil [FLit] [FNLM] : ContAt isM mk [] := by
  intro l P fuel _ hok
  exact contAt_end l P fuel (indexSub_lastLine (LinesOK_cons hok).1)

theorem loopAt_cons [FLit] [FNLM] (hs : MarkerSpec isM mk) (l : Line) (rest : List Line)
    (hc : ContAt isM mk rest) : LoopAt isM mk (l :: rest) := by
  intro P fuel hf hok
  obtain ⟨f, rfl⟩ : ∃ f, fuel = f + 1 := ⟨fuel - 1, by simp at hf; omega⟩
  obtain ⟨hb, hnl, _, _⟩ := LinesOK_cons hok
  have hrest : l.nl = false → joinLines rest = [] := by
    intro e
    have : rest = [] := by
      by_cases er : rest = []
      · exact er
      · have := hnl er; rw [e] at this; cases this
    rw [this]; rfl
  rw [findFileMarkerLoop_succ _ _ _ _ (by simp)]
  simp only [List.drop_left, List.take_left]
  have h1 := hs.fst l (joinLines rest) hb hrest
  rw [joinLines_cons]
  simp only [findFMG]
  cases hm : isM (l.bytes ++ joinLines rest) with
  | none =>
    rw [hm] at h1
    simp only [Option.map_none] at h1
    rw [← h1]
    rfl
  | some p =>
    obtain ⟨n, a⟩ := p
    rw [hm] at h1
    simp only [Option.map_some] at h1
    rw [← h1]
    simp only
    by_cases hn : n = []
    · subst hn
      simp only [ne_eq, not_true_eq_false, if_false]
      have := hc l P f (by simp at hf; omega) hok
      rw [joinLines_cons] at this
      exact this
    · have ha := hs.after l (joinLines rest) n a hb hrest hm hn
      subst ha
      simp only [ne_eq, hn, not_false_eq_true, if_true, Option.map_some, Found.toIdx, afterOf]
      cases l.nl <;> simp

theorem contAt_cons [FLit] [FNLM] (hs : MarkerSpec isM mk) (l' : Line) (rest' : List Line)
    (hc : ContAt isM mk rest') (hl : LoopAt isM mk (l' :: rest')) : ContAt isM mk (l' :: rest') := by
  intro l P fuel hf hok
  obtain ⟨hb, hnl, _, hok'⟩ := LinesOK_cons hok
  have hnl' : l.nl = true := hnl (by simp)
  obtain ⟨body, nl⟩ := l
  simp only at hnl' hb
  subst hnl'
  have hdata : P ++ joinLines (⟨body, true⟩ :: l' :: rest') = (P ++ (body ++ [NL])) ++ joinLines (l' :: rest') := by
    simp [joinLines_cons, Line.bytes]
  have hd : joinLines (⟨body, true⟩ :: l' :: rest') = body ++ NL :: joinLines (l' :: rest') := by
    simp [joinLines_cons, Line.bytes]
  have hlen : (P ++ (body ++ [NL])).length = P.length + (body.length + 1) := by simp
  unfold contIdx
  rw [hd, newlineMarker_eq, indexSub_line hb]
  simp only [Line.bytes, if_true]
  by_cases hp : hasPrefix (joinLines (l' :: rest')) marker = true
  · -- the next line starts with the marker prefix: the loop continues there
    simp only [hp, if_true]
    rw [← hd, hdata, ← hlen]
    exact hl (P ++ (body ++ [NL])) fuel hf hok'
  · -- it does not: that line is not a marker either, and `bytes.Index` keeps searching
    simp only [hp]
    obtain ⟨hb', hnl'', _, _⟩ := LinesOK_cons hok'
    have hrest : l'.nl = false → joinLines rest' = [] := by
      intro e
      have : rest' = [] := by
        by_cases er : rest' = []
        · exact er
        · have := hnl'' er; rw [e] at this; cases this
      rw [this]; rfl
    have hmk : mk l' = some [] := by
      apply hs.noPrefix
      rw [hasPrefix_eq, joinLines_cons, isPrefixOf_bytes_append l' _ hrest] at hp
      exact Bool.eq_false_iff.mpr hp
    have hfm : findFMG mk (l' :: rest') (P ++ (body ++ [NL])) = findFMG mk rest' ((P ++ (body ++ [NL])) ++ l'.bytes) := by
      simp only [findFMG, hmk, ne_eq, not_true_eq_false, if_false]
    rw [hfm]
    have ih := hc l' (P ++ (body ++ [NL])) fuel (by simp at hf ⊢; omega) hok'
    rw [← ih]
    unfold contIdx
    rw [newlineMarker_eq, ← hd, hdata, hlen]
    cases indexSub (joinLines (l' :: rest')) (NL :: marker) with
    | none => rfl
    | some j =>
      simp only [Option.map_some, Bool.false_eq_true, if_false]
      have : P.length + (j + (body.length + 1) + 1) = P.length + (body.length + 1) + (j + 1) := by omega
      rw [this]

theorem loop_all [FLit] [FNLM] (hs : MarkerSpec isM mk) (ls : List Line) :
    ContAt isM mk ls ∧ LoopAt isM mk ls := by
  induction ls with
  | nil => exact ⟨contAt_nil, loopAt_nil hs⟩
  | cons l rest ih =>
    have hl := loopAt_cons hs l rest ih.1
    exact ⟨contAt_cons hs l rest ih.1 hl, hl⟩

end loop
end GIV.Txtar
namespace GIV.Txtar
open GIV

theorem length_le_joinLines {ls : List Line} (h : LinesOK ls) : ls.length ≤ (joinLines ls).length := by
  induction ls with
  | nil => simp
  | cons l rest ih =>
    obtain ⟨_, _, hne, hrest⟩ := LinesOK_cons h
    have := ih hrest
    rw [joinLines_cons]
    have hl : 1 ≤ l.bytes.length := by
      unfold Line.bytes
      split
      · simp
      · rename_i hnl
        have := hne (by simpa using hnl)
        cases hb : l.body with
        | nil => exact absurd hb this
        | cons _ _ => simp
    simp only [List.length_cons, List.length_append]
    omega

section parse
variable {isM : Bytes → Option (Bytes × Option Bytes)} {mk : Line → Option Bytes}

/-- The index-form `findFileMarker` on the bytes of a well-shaped line list. -/
theorem findFileMarkerG_joinLines [FLit] [FNLM] (hs : MarkerSpec isM mk) {ls : List Line} (hok : LinesOK ls) :
    findFileMarkerG isM (joinLines ls) = (findFMG mk ls []).map Found.toIdx := by
  have := (loop_all hs ls).2 [] ((joinLines ls).length + 1) (by have := length_le_joinLines hok; omega) hok
  simpa [findFileMarkerG] using this

/-- `parseFiles` / `parseLines` with the recogniser as a parameter. -/
def parseFilesG (mk : Line → Option Bytes) : List Line → Bytes → Bytes → Option (List File)
  | [], name, acc => some [⟨name, fixNL acc⟩]
  | l :: rest, name, acc =>
    match mk l with
    | none => none
    | some n =>
      if n ≠ [] then
        (if l.nl then parseFilesG mk rest n [] else some [⟨n, []⟩]).map (fun fs => ⟨name, acc⟩ :: fs)
      else parseFilesG mk rest name (acc ++ l.bytes)

def parseLinesG (mk : Line → Option Bytes) : List Line → Bytes → Option Archive
  | [], acc => some ⟨fixNL acc, []⟩
  | l :: rest, acc =>
    match mk l with
    | none => none
    | some n =>
      if n ≠ [] then
        (if l.nl then parseFilesG mk rest n [] else some [⟨n, []⟩]).map (fun fs => ⟨acc, fs⟩)
      else parseLinesG mk rest (acc ++ l.bytes)

/-- `parseFiles` is "findFileMarker, then the rest of the `for name != ""` loop". -/
theorem parseFilesG_unfold (mk : Line → Option Bytes) (ls : List Line) (name acc : Bytes) :
    parseFilesG mk ls name acc =
      match findFMG mk ls acc with
      | none => none
      | some f =>
        if f.name = [] then some [⟨name, f.before⟩]
        else (parseFilesG mk (f.after.getD []) f.name []).map (fun fs => ⟨name, f.before⟩ :: fs) := by
  induction ls generalizing acc with
  | nil => simp [parseFilesG, findFMG]
  | cons l rest ih =>
    simp only [parseFilesG, findFMG]
    cases mk l with
    | none => rfl
    | some n =>
      simp only
      by_cases hn : n = []
      · simp only [hn, ne_eq, not_true_eq_false, if_false]
        exact ih _
      · simp only [ne_eq, hn, not_false_eq_true, if_true, if_false]
        cases l.nl
        · simp [parseFilesG, fixNL_nil]
        · simp

theorem parseLinesG_unfold (mk : Line → Option Bytes) (ls : List Line) (acc : Bytes) :
    parseLinesG mk ls acc =
      match findFMG mk ls acc with
      | none => none
      | some f =>
        if f.name = [] then some ⟨f.before, []⟩
        else (parseFilesG mk (f.after.getD []) f.name []).map (fun fs => ⟨f.before, fs⟩) := by
  induction ls generalizing acc with
  | nil => simp [parseLinesG, findFMG]
  | cons l rest ih =>
    simp only [parseLinesG, findFMG]
    cases mk l with
    | none => rfl
    | some n =>
      simp only
      by_cases hn : n = []
      · simp only [hn, ne_eq, not_true_eq_false, if_false]
        exact ih _
      · simp only [ne_eq, hn, not_false_eq_true, if_true, if_false]
        cases l.nl
        · simp [parseFilesG, fixNL_nil]
        · simp

/-- what `findFileMarker` returns as `after` is a strictly shorter, well-shaped line list. -/
theorem findFMG_after {mk : Line → Option Bytes} {ls : List Line} {acc : Bytes} {f : Found}
    (h : findFMG mk ls acc = some f) (hn : f.name ≠ []) (hok : LinesOK ls) :
    LinesOK (f.after.getD []) ∧ (f.after.getD []).length < ls.length := by
  induction ls generalizing acc with
  | nil =>
    simp only [findFMG, Option.some.injEq] at h
    subst h
    exact absurd rfl hn
  | cons l rest ih =>
    obtain ⟨_, _, _, hrest⟩ := LinesOK_cons hok
    simp only [findFMG] at h
    cases hm : mk l with
    | none => rw [hm] at h; cases h
    | some n =>
      rw [hm] at h
      simp only at h
      split at h
      · simp only [Option.some.injEq] at h
        subst h
        simp only
        cases l.nl
        · simp [LinesOK]
        · simp [hrest]
      · have := ih h hrest
        exact ⟨this.1, by simp only [List.length_cons]; omega⟩

theorem parseLoopG_eq [FLit] [FNLM] (hs : MarkerSpec isM mk) (n : Nat) :
    ∀ (ls : List Line) (fuel : Nat) (name : Bytes) (files : List File), ls.length ≤ n → LinesOK ls →
      name ≠ [] → ls.length + 2 ≤ fuel →
      parseLoopG isM fuel name (joinLines ls) files = (parseFilesG mk ls name []).map (files ++ ·) := by
  induction n with
  | zero =>
    intro ls fuel name files hlen hok hname hfuel
    have : ls = [] := List.eq_nil_of_length_eq_zero (by omega)
    subst this
    obtain ⟨f, rfl⟩ : ∃ f, fuel = f + 2 := ⟨fuel - 2, by simp at hfuel; omega⟩
    rw [parseLoopG, if_neg hname, findFileMarkerG_joinLines hs hok, parseFilesG_unfold]
    simp [findFMG, Found.toIdx, parseLoopG]
  | succ n ih =>
    intro ls fuel name files hlen hok hname hfuel
    obtain ⟨f, rfl⟩ : ∃ f, fuel = f + 2 := ⟨fuel - 2, by omega⟩
    rw [parseLoopG, if_neg hname, findFileMarkerG_joinLines hs hok, parseFilesG_unfold]
    cases hf : findFMG mk ls [] with
    | none => rfl
    | some fd =>
      simp only [Option.map_some, Found.toIdx, Option.bind_eq_bind, Option.bind_some]
      by_cases hn : fd.name = []
      · simp [hn, parseLoopG]
      · obtain ⟨hok', hlt⟩ := findFMG_after hf hn hok
        have hj : (fd.after.map joinLines).getD [] = joinLines (fd.after.getD []) := by
          cases fd.after <;> rfl
        rw [hj, ih (fd.after.getD []) (f + 1) fd.name _ (by omega) hok' hn (by omega)]
        simp only [if_neg hn, Option.map_map]
        congr 1
        funext fs
        simp

theorem parseG_eq [FLit] [FNLM] (hs : MarkerSpec isM mk) (d : Bytes) :
    parseG isM d = parseLinesG mk (splitLines d) [] := by
  have hok := splitLines_ok d
  have hd := joinLines_splitLines d
  unfold parseG
  rw [parseLinesG_unfold]
  conv => lhs; rw [← hd, findFileMarkerG_joinLines hs hok]
  cases hf : findFMG mk (splitLines d) [] with
  | none => rfl
  | some fd =>
    simp only [Option.map_some, Found.toIdx, Option.bind_eq_bind, Option.bind_some]
    by_cases hn : fd.name = []
    · simp [hn, parseLoopG]
    · obtain ⟨hok', hlt⟩ := findFMG_after hf hn hok
      have hj : (fd.after.map joinLines).getD [] = joinLines (fd.after.getD []) := by
        cases fd.after <;> rfl
      have hlen := length_le_joinLines hok
      rw [hd] at hlen
      rw [hj, hd, parseLoopG_eq hs _ (fd.after.getD []) (d.length + 1) fd.name [] (Nat.le_refl _) hok' hn (by omega)]
      simp only [if_neg hn, List.nil_append]
      cases parseFilesG mk (fd.after.getD []) fd.name [] <;> rfl

end parse
end GIV.Txtar
namespace GIV.Txtar
open GIV

theorem parseFiles_eq_G (ls : List Line) (name acc : Bytes) :
    parseFiles ls name acc = parseFilesG markerName ls name acc := by
  induction ls generalizing name acc with
  | nil => rfl
  | cons l rest ih =>
    simp only [parseFiles, parseFilesG]
    cases markerName l with
    | none => rfl
    | some n =>
      simp only
      split
      · rw [ih]
      · exact ih _ _

theorem parseLines_eq_G (ls : List Line) (acc : Bytes) :
    parseLines ls acc = parseLinesG markerName ls acc := by
  induction ls generalizing acc with
  | nil => rfl
  | cons l rest ih =>
    simp only [parseLines, parseLinesG]
    cases markerName l with
    | none => rfl
    | some n =>
      simp only
      split
      · rw [parseFiles_eq_G]
      · exact ih _

theorem refParseFiles_eq_G (ls : List Line) (name acc : Bytes) :
    parseFilesG (fun l => some (refMarkerName l)) ls name acc = some (refParseFiles ls name acc) := by
  induction ls generalizing name acc with
  | nil => rfl
  | cons l rest ih =>
    simp only [refParseFiles, parseFilesG]
    split
    · split
      · rw [ih]; rfl
      · rfl
    · exact ih _ _

theorem refParseLines_eq_G (ls : List Line) (acc : Bytes) :
    parseLinesG (fun l => some (refMarkerName l)) ls acc = some (refParseLines ls acc) := by
  induction ls generalizing acc with
  | nil => rfl
  | cons l rest ih =>
    simp only [refParseLines, parseLinesG]
    split
    · split
      · rw [refParseFiles_eq_G]; rfl
      · rfl
    · exact ih _

/-- The index-form `findFileMarker` (offsets, `bytes.Index(data[i:], "\n-- ")`, `i += j+1`)
computes the line-structured `findFM`. In particular its fuel `len(data)+1` suffices. -/
theorem findFileMarkerIdx_eq [FLit] [FNLM] (d : Bytes) :
    findFileMarkerIdx d = (findFM (splitLines d) []).map Found.toIdx := by
  have := findFileMarkerG_joinLines markerSpec_idx (splitLines_ok d)
  rw [joinLines_splitLines] at this
  rw [findFM_eq_G]
  exact this

/-- The index-form `Parse` computes the line-structured `parse`. -/
theorem parseIdx_eq [FLit] [FNLM] (d : Bytes) : parseIdx d = parse d := by
  unfold parseIdx parse
  rw [parseG_eq markerSpec_idx, parseLines_eq_G]

/-- The index-form x/tools `Parse` never panics and computes `refParse`. -/
theorem refParseIdx_eq [FLit] [FNLM] (d : Bytes) : refParseIdx d = some (refParse d) := by
  unfold refParseIdx refParse
  rw [parseG_eq markerSpec_ref, refParseLines_eq_G]

/-- The index-form `NeedsQuote` computes the line-structured `needsQuote`. -/
theorem needsQuoteIdx_eq [FLit] [FNLM] (d : Bytes) : needsQuoteIdx d = needsQuote d := by
  unfold needsQuoteIdx needsQuote
  rw [findFileMarkerIdx_eq]
  cases findFM (splitLines d) [] with
  | none => rfl
  | some f =>
    simp only [Option.map_some, Found.toIdx, Option.bind_eq_bind, Option.bind_some, Option.isSome_map]

end GIV.Txtar
