/-
  GIV.Lemmas.ParWorkDeadlock — every non-final reachable state of par.Work has an enabled step.
-/
import GIV.Lemmas.ParWorkLive
namespace GIV.ParWork
open GIV.Gen.ParWork

theorem invL_reach {c : Cfg} (hn : 1 ≤ c.n) {s : State} (h : Reach c s) : InvL c s := by
  induction h with
  | init => exact invL_init c
  | step hr hs ih => exact invL_step hn (inv_reach hn hr) ih (step_sound hs)

theorem cnt_all (p : Pc → Bool) (f : Nat → Pc) (n : Nat) (h : ∀ i, i < n → p (f i) = true) : cnt p f n = n := by
  induction n with
  | zero => rfl
  | succ n ih => simp [cnt, h n (by omega), ih (fun i hi => h i (by omega))]

/-- a task whose next operation is not a blocked `lock` / `wake` can take a (non-spurious) step -/
theorem enabled_of_pc (c : Cfg) (s : State) (l : InvL c s) (t : Nat)
    (hp : s.pc t ≠ .absent) (hx : s.pc t ≠ .exited)
    (hfree : s.owner = none ∨ (s.pc t).holder = true)
    (hwake : s.pc t = .wake → t ∈ s.woken) :
    ∃ e, e ≠ .spurious ∧ ∃ s', step c s t e = some s' := by
  have hown : (s.pc t).holder = true → s.owner.isSome = true := by
    intro h; rw [l.holder_own t h]; rfl
  have hnone : (s.pc t).holder = false → s.owner = none := by
    intro h; rcases hfree with h1 | h1
    · exact h1
    · rw [h] at h1; exact absurd h1 (by simp)
  cases hpc : s.pc t with
  | absent => exact absurd hpc hp
  | exited => exact absurd hpc hx
  | init => exact ⟨.start, by simp, by simp [step, hpc, shapeOK_true]⟩
  | mainAdd j =>
    have ho := hnone (by rw [hpc]; rfl)
    cases hj : c.init[j]? with
    | some x => exact ⟨.lock, by simp, by simp [step, hpc, shapeOK_true, hj, lockStep, ho]⟩
    | none => exact ⟨.doCall c.n, by simp, by simp [step, hpc, shapeOK_true, hj]⟩
  | panicNext => exact ⟨.panic, by simp, by simp [step, hpc, shapeOK_true]⟩
  | spawn i => exact ⟨.go i, by simp, by simp [step, hpc, shapeOK_true]⟩
  | lockTop =>
    have ho := hnone (by rw [hpc]; rfl)
    exact ⟨.lock, by simp, by simp [step, hpc, shapeOK_true, lockStep, ho]⟩
  | wait =>
    have ho := hown (by rw [hpc]; rfl)
    exact ⟨.wait, by simp, by simp [step, hpc, shapeOK_true, unlockStep, ho]⟩
  | wake =>
    have ho := hnone (by rw [hpc]; rfl)
    have hw := hwake hpc
    exact ⟨.wake, by simp, by simp [step, hpc, shapeOK_true, lockStep, ho, hw]⟩
  | bcast => exact ⟨.broadcast s.waiters.length, by simp, by simp [step, hpc, shapeOK_true]⟩
  | unlockRet =>
    have ho := hown (by rw [hpc]; rfl)
    exact ⟨.unlock, by simp, by simp [step, hpc, shapeOK_true, unlockStep, ho]⟩
  | returned =>
    by_cases ht0 : t = 0
    · subst ht0; exact ⟨.doReturn, by simp, by simp [step, hpc, shapeOK_true]⟩
    · exact ⟨.exit, by simp, by simp [step, hpc, shapeOK_true, ht0]⟩
  | retd => exact ⟨.exit, by simp, by simp [step, hpc, shapeOK_true]⟩
  | rand =>
    have hne := l.randTodo t hpc
    cases htd : s.todo with
    | nil => exact absurd htd hne
    | cons x rest =>
      exact ⟨.rand s.todo.length 0, by simp, by simp [step, hpc, shapeOK_true, htd]⟩
  | unlockRun x =>
    have ho := hown (by rw [hpc]; rfl)
    exact ⟨.unlock, by simp, by simp [step, hpc, shapeOK_true, unlockStep, ho]⟩
  | fEnter x => exact ⟨.fEnter x, by simp, by simp [step, hpc, shapeOK_true]⟩
  | inF x k =>
    have ho := hnone (by rw [hpc]; rfl)
    cases hj : (c.children x)[k]? with
    | some ch => exact ⟨.lock, by simp, by simp [step, hpc, shapeOK_true, hj, lockStep, ho]⟩
    | none => exact ⟨.fExit x, by simp, by simp [step, hpc, shapeOK_true, hj]⟩
  | addSignal k =>
    cases hw : s.waiters with
    | nil => exact ⟨.signal none, by simp, by simp [step, hpc, shapeOK_true, hw]⟩
    | cons w rest => exact ⟨.signal (some w), by simp, by simp [step, hpc, shapeOK_true, hw]⟩
  | addUnlock k =>
    have ho := hown (by rw [hpc]; rfl)
    exact ⟨.unlock, by simp, by simp [step, hpc, shapeOK_true, unlockStep, ho]⟩

/-- deadlock freedom -/
theorem deadlock_free (c : Cfg) (hn : 1 ≤ c.n) (s : State) (h : Reach c s) (hnf : ¬ final s) :
    ∃ t e, e ≠ .spurious ∧ ∃ s', step c s t e = some s' := by
  have inv := inv_reach hn h
  have l := invL_reach hn h
  cases ho : s.owner with
  | some t0 =>
    have hh := l.own_holder t0 ho
    have hp : s.pc t0 ≠ .absent := by intro e; rw [e] at hh; simp [Pc.holder] at hh
    have hx : s.pc t0 ≠ .exited := by intro e; rw [e] at hh; simp [Pc.holder] at hh
    exact ⟨t0, enabled_of_pc c s l t0 hp hx (Or.inr hh) (by intro e; rw [e] at hh; simp [Pc.holder] at hh)⟩
  | none =>
    by_cases hex : ∃ t, s.pc t ≠ .absent ∧ s.pc t ≠ .exited ∧ s.pc t ≠ .wake
    · obtain ⟨t, h1, h2, h3⟩ := hex
      exact ⟨t, enabled_of_pc c s l t h1 h2 (Or.inl ho) (fun e => absurd e h3)⟩
    · have hall : ∀ t, s.pc t = .absent ∨ s.pc t = .exited ∨ s.pc t = .wake := by
        intro t
        apply Classical.byContradiction
        intro hne
        apply hex
        exact ⟨t, fun e => hne (Or.inl e), fun e => hne (Or.inr (Or.inl e)), fun e => hne (Or.inr (Or.inr e))⟩
      have hw : ∃ t, s.pc t = .wake := by
        apply Classical.byContradiction
        intro hne
        apply hnf
        intro t
        rcases hall t with e | e | e
        · exact Or.inr e
        · exact Or.inl e
        · exact absurd ⟨t, e⟩ hne
      obtain ⟨t, ht⟩ := hw
      have hmem := l.wakeMem t ht
      by_cases hd : ∃ d, s.pc d = .exited
      · obtain ⟨d, hd⟩ := hd
        have hwn := l.postNoWaiters d (by rw [hd]; rfl)
        rw [hwn] at hmem
        have hwk : t ∈ s.woken := by simpa using hmem
        exact ⟨t, enabled_of_pc c s l t (by rw [ht]; simp) (by rw [ht]; simp) (Or.inl ho) (fun _ => hwk)⟩
      · exfalso
        have hall2 : ∀ i, s.pc i = .absent ∨ s.pc i = .wake := by
          intro i
          rcases hall i with e | e | e
          · exact Or.inl e
          · exact absurd ⟨i, e⟩ hd
          · exact Or.inr e
        have htn : t < c.n := inv.bound t (by rw [ht]; simp)
        have h0 : (s.pc 0).preDo = false := run_of_pc inv (t := t) (by rw [ht]; simp) (by rw [ht]; rfl)
        have hallw : ∀ i, i < c.n → (s.pc i).inW = true := by
          intro i hi
          rcases hall2 i with e | e
          · rcases l.absentPhase i hi e with h1 | ⟨j, h1, _⟩
            · rw [h0] at h1; exact absurd h1 (by simp)
            · rcases hall2 0 with e0 | e0 <;> rw [e0] at h1 <;> simp at h1
          · rw [e]; rfl
        have hwn : s.waiting = s.running := by
          rw [inv.waitingEq, cnt_all _ _ _ hallw, inv.run h0]
        obtain ⟨d, hd⟩ := l.someDone h0 hwn
        rcases hall2 d with e | e <;> rw [e] at hd <;> simp [Pc.isDone] at hd

end GIV.ParWork
