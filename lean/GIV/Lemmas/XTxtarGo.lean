/-
  GIV.Lemmas.XTxtarGo — ties the Lean translation of golang.org/x/tools/txtar/archive.go
  (GIV.Gen.XTxtarGo: `Format`, and the REFERENCE `Parse` / `findFileMarker` / `isMarker` / `fixNL`,
  regenerated on every run by harness/internal/go2lean from the module-cache copy of the x/tools
  version /repo's go.mod requires) to the model's reference definitions:

      isMarker_eq         X.isMarker d       = (refIsMarkerIdx d).map optB
      fixNL_eq            X.fixNL d          = some (fixNL d)
      findFileMarker_eq   X.findFileMarker d = (findFileMarkerG refIsMarkerIdx d).map toGo3
      Parse_eq            X.Parse d          = (refParseIdx d).map toGoArchive
      Parse_eq_ref        X.Parse d          = some (toGoArchive (refParse d))    (never a panic, budgets suffice)
      Format_eq           X.Format a         = some (format (ofGoArchive a))      (never a panic)

  for all inputs.  The library source writes its marker literals itself (`var marker = []byte("-- ")`,
  inlined by the translator); that they are the literals of /repo's archive.go (`Gen.Txtar.marker`, …,
  regenerated facts) is part of what is proved here (`marker_lit`, `markerEnd_lit`, `newlineMarker_lit`).
  The helper lemmas about the translator's run-time library are those of GIV.Lemmas.TxtarGo.
-/
import GIV.Gen.XTxtarGo
import GIV.Lemmas.TxtarGoLoop
namespace GIV.XTxtarGo
open GIV GIV.GoLib GIV.Txtar
open GIV.TxtarGo (indexByte_eq index_eq slice_eq optB toGo3 copy_set idx_last)

/-! ### the literals of the library source are those of /repo's archive.go -/

theorem marker_lit : ([45, 45, 32] : Bytes) = Txtar.marker := rfl
theorem markerEnd_lit : ([32, 45, 45] : Bytes) = Txtar.markerEnd := rfl
theorem newlineMarker_lit : ([10, 45, 45, 32] : Bytes) = Txtar.newlineMarker := rfl

/-! ### isMarker (the reference one: no carriage-return handling) -/

theorem isMarker_tail (d : Bytes) (a : Option Bytes) :
    (if (!(Txtar.hasSuffix d Txtar.markerEnd &&
          decide ((↑(List.length d) : Int) ≥ ↑(List.length Txtar.marker) + ↑(List.length Txtar.markerEnd))) ) = true
      then (pure ([], []) : Option (Bytes × Bytes))
      else do
        let t3 ← GoLib.slice? d (↑(List.length Txtar.marker))
          (↑(List.length d) - ↑(List.length Txtar.markerEnd))
        pure (trimSpace t3, a.getD [])) =
    Option.map optB
      (if (!(Txtar.hasSuffix d Txtar.markerEnd &&
            decide (List.length Txtar.marker + List.length Txtar.markerEnd ≤ List.length d))) = true
        then some ([], none)
        else do
          let nm ← Txtar.slice? d (List.length Txtar.marker) (List.length d - List.length Txtar.markerEnd)
          some (trimSpace nm, a)) := by
  by_cases hs : Txtar.hasSuffix d Txtar.markerEnd = true
  · by_cases hl : List.length Txtar.marker + List.length Txtar.markerEnd ≤ List.length d
    · have hl' : (↑(List.length d) : Int) ≥ ↑(List.length Txtar.marker) + ↑(List.length Txtar.markerEnd) := by omega
      have hsub : ((↑(List.length d) : Int) - ↑(List.length Txtar.markerEnd)) =
          ((List.length d - List.length Txtar.markerEnd : Nat) : Int) := by omega
      simp only [hs, hl, hl', decide_true, Bool.and_true, Bool.not_true, Bool.false_eq_true, if_false,
        hsub, slice_eq]
      cases Txtar.slice? d (List.length Txtar.marker) (List.length d - List.length Txtar.markerEnd) <;> rfl
    · have hl' : ¬ ((↑(List.length d) : Int) ≥ ↑(List.length Txtar.marker) + ↑(List.length Txtar.markerEnd)) := by omega
      simp [hs, hl, hl', optB]
  · simp [hs, optB]

theorem isMarker_eq (data : Bytes) : GIV.Go.XTxtar.isMarker data = (refIsMarkerIdx data).map optB := by
  unfold GIV.Go.XTxtar.isMarker refIsMarkerIdx
  simp only [marker_lit, markerEnd_lit, TxtarGo.hasPrefix_eq, TxtarGo.hasSuffix_eq, indexByte_eq, NL]
  by_cases hp : Txtar.hasPrefix data Txtar.marker = true
  · simp only [hp, Bool.not_true, Bool.false_eq_true, if_false]
    cases hi : Txtar.indexByte data 10 with
    | none =>
      simp only [GoLib.len]
      have h0 : ¬ ((-1 : Int) ≥ 0) := by omega
      simp only [h0, decide_false, Bool.false_eq_true, if_false]
      exact isMarker_tail data none
    | some i =>
      simp only [GoLib.len]
      have h0 : ((i : Int) ≥ 0) := by omega
      simp only [h0, decide_true, if_true]
      have e0 : GoLib.slice? data 0 (i : Int) = Txtar.slice? data 0 i := slice_eq data 0 i
      have e1 : GoLib.slice? data ((i : Int) + 1) (↑(List.length data)) = Txtar.slice? data (i + 1) data.length := by
        have := slice_eq data (i + 1) data.length
        simpa using this
      rw [e0, e1]
      cases h1 : Txtar.slice? data 0 i with
      | none => rfl
      | some d1 =>
        cases h2 : Txtar.slice? data (i + 1) data.length with
        | none => rfl
        | some d2 => exact isMarker_tail d1 (some d2)
  · simp [hp, optB]

/-! ### fixNL (the same text as /repo's; the proof is that of `TxtarGo.fixNL_eq`) -/

theorem fixNL_eq (d : Bytes) : GIV.Go.XTxtar.fixNL d = some (GIV.Txtar.fixNL d) := by
  unfold GIV.Go.XTxtar.fixNL GIV.Txtar.fixNL
  by_cases hne : d = []
  · subst hne; simp [GoLib.len]
  · have hpos : 0 < d.length := List.length_pos_iff.mpr hne
    have hlen : ((GoLib.len d) == 0) = false := by simp [GoLib.len]; omega
    have hlast : d.getLast? = some (d.getLast hne) := List.getLast?_eq_some_getLast hne
    have hmk : GoLib.make? (0 : UInt8) (GoLib.len d + 1) = some (List.replicate (d.length + 1) 0) := by
      unfold GoLib.make? GoLib.len
      have : (0 : Int) ≤ ↑d.length + 1 := by omega
      rw [if_pos this]
      congr 2
    have hset : ∀ (l : Bytes), l.length = d.length + 1 → GoLib.setIdx? l (GoLib.len d) 10 = some (l.set d.length 10) := by
      intro l hl
      unfold GoLib.setIdx? GoLib.len
      rw [if_pos (by omega)]
      simp
    have hemp : d.isEmpty = false := by cases d <;> simp_all
    simp only [hlen, Bool.false_eq_true, if_false, idx_last d hne]
    by_cases h10 : d.getLast hne = 10
    · simp [h10, hlast, NL]
    · have hb : (d.getLast hne == 10) = false := by simpa using h10
      simp only [Option.bind_eq_bind, Option.bind_some, Option.pure_def, hb, Bool.false_eq_true, if_false,
        hmk]
      rw [hset _ (by simp [GoLib.copyInto]), copy_set]
      simp [hlast, h10, NL, hemp]

/-! ### findFileMarker -/

theorem findFileMarker_loop_eq (data before : Bytes) :
    ∀ (fuel i : Nat) (name after : Bytes),
      GIV.Go.XTxtar.findFileMarker_loop1 data before fuel name after (i : Int) =
        (GIV.Txtar.findFileMarkerLoop refIsMarkerIdx data fuel i).map toGo3 := by
  intro fuel
  induction fuel with
  | zero => intro i name after; rfl
  | succ fuel ih =>
    intro i name after
    unfold GIV.Go.XTxtar.findFileMarker_loop1 GIV.Txtar.findFileMarkerLoop
    have e1 : GoLib.slice? data (i : Int) (GoLib.len data) = GIV.Txtar.slice? data i data.length := slice_eq data i data.length
    have e0 : GoLib.slice? data 0 (i : Int) = GIV.Txtar.slice? data 0 i := slice_eq data 0 i
    simp only [e1, e0, isMarker_eq, index_eq, newlineMarker_lit]
    cases GIV.Txtar.slice? data i data.length with
    | none => rfl
    | some d =>
      simp only [Option.bind_eq_bind, Option.bind_some]
      cases refIsMarkerIdx d with
      | none => rfl
      | some p =>
        obtain ⟨nm, af⟩ := p
        simp only [Option.map_some, Option.bind_some, optB]
        by_cases hn : nm = []
        · subst hn
          simp only [bne_self_eq_false, Bool.false_eq_true, if_false, ne_eq, not_true_eq_false]
          cases hj : GIV.Txtar.indexSub d GIV.Txtar.newlineMarker with
          | none =>
            simp [fixNL_eq, toGo3]
          | some j =>
            simp only
            have hlt : ¬ ((j : Int) < 0) := by omega
            simp only [hlt, decide_false, Bool.false_eq_true, if_false]
            have := ih (i + (j + 1)) [] (af.getD [])
            simpa using this
        · have hb : (nm != []) = true := by simpa using hn
          simp only [hb, if_true, ne_eq, hn, not_false_eq_true]
          cases GIV.Txtar.slice? data 0 i <;> rfl

theorem findFileMarker_eq (d : Bytes) :
    GIV.Go.XTxtar.findFileMarker d = (findFileMarkerG refIsMarkerIdx d).map toGo3 := by
  unfold GIV.Go.XTxtar.findFileMarker findFileMarkerG
  exact findFileMarker_loop_eq d [] (d.length + 1) 0 [] []

/-! ### Parse -/

def toGoFile (f : GIV.Txtar.File) : GIV.Go.XTxtar.GoFile := ⟨f.name, f.data⟩
def toGoArchive (a : GIV.Txtar.Archive) : GIV.Go.XTxtar.GoArchive := ⟨a.comment, a.files.map toGoFile⟩
def ofGoFile (f : GIV.Go.XTxtar.GoFile) : File := ⟨f.Name, f.Data⟩
def ofGoArchive (a : GIV.Go.XTxtar.GoArchive) : Archive := ⟨a.Comment, a.Files.map ofGoFile⟩

theorem ofGo_toGo (a : Archive) : ofGoArchive (toGoArchive a) = a := by
  cases a with
  | mk c fs =>
    simp only [toGoArchive, ofGoArchive, List.map_map, Archive.mk.injEq, true_and]
    have : (ofGoFile ∘ toGoFile) = id := by funext f; cases f; rfl
    rw [this, List.map_id]

theorem toGo_ofGo (g : GIV.Go.XTxtar.GoArchive) : toGoArchive (ofGoArchive g) = g := by
  cases g with
  | mk c fs =>
    simp only [toGoArchive, ofGoArchive, List.map_map, GIV.Go.XTxtar.GoArchive.mk.injEq, true_and]
    have : (toGoFile ∘ ofGoFile) = id := by funext f; cases f; rfl
    rw [this, List.map_id]

theorem Parse_loop_eq :
    ∀ (fuel : Nat) (data name : Bytes) (a : GIV.Go.XTxtar.GoArchive) (files : List GIV.Txtar.File),
      a.Files = files.map toGoFile →
      GIV.Go.XTxtar.Parse_loop1 fuel data a name =
        (GIV.Txtar.parseLoopG refIsMarkerIdx fuel name data files).map
          (fun fs => (⟨a.Comment, fs.map toGoFile⟩ : GIV.Go.XTxtar.GoArchive)) := by
  intro fuel
  induction fuel with
  | zero => intro data name a files _; rfl
  | succ fuel ih =>
    intro data name a files ha
    unfold GIV.Go.XTxtar.Parse_loop1 GIV.Txtar.parseLoopG
    by_cases hn : name = []
    · subst hn
      simp [GIV.Go.XTxtar.Parse_after1, ← ha]
    · have hb : (name != []) = true := by simpa using hn
      simp only [hb, Bool.not_true, Bool.false_eq_true, if_false, hn, findFileMarker_eq]
      cases GIV.Txtar.findFileMarkerG refIsMarkerIdx data with
      | none => rfl
      | some r =>
        obtain ⟨fd, nm, af⟩ := r
        simp only [Option.map_some, Option.bind_eq_bind, Option.bind_some, toGo3]
        rw [ih (af.getD []) nm _ (files ++ [⟨name, fd⟩]) (by simp [ha, toGoFile])]

/-- The translated reference `Parse` computes the line-structured reference parse (so its loop
budgets suffice and no index or slice fails). -/
theorem Parse_lines [FLit] [FNLM] (d : Bytes) :
    GIV.Go.XTxtar.Parse d =
      (parseLinesG (fun l => some (refMarkerName l)) (splitLines d) []).map toGoArchive := by
  have hs := markerSpec_ref
  have hok := splitLines_ok d
  have hd := joinLines_splitLines d
  unfold GIV.Go.XTxtar.Parse
  simp only [findFileMarker_eq]
  rw [parseLinesG_unfold]
  conv => lhs; rw [← hd, findFileMarkerG_joinLines hs hok]
  cases hf : findFMG (fun l => some (refMarkerName l)) (splitLines d) [] with
  | none => rfl
  | some fd =>
    simp only [Option.map_some, Found.toIdx, Option.bind_eq_bind, Option.bind_some, toGo3]
    by_cases hn : fd.name = []
    · simp [hn, GIV.Go.XTxtar.Parse_loop1, GIV.Go.XTxtar.Parse_after1, toGoArchive]
    · obtain ⟨hok', hlt⟩ := findFMG_after hf hn hok
      have hj : (fd.after.map joinLines).getD [] = joinLines (fd.after.getD []) := by
        cases fd.after <;> rfl
      have hlen := length_le_joinLines hok'
      rw [hj, Parse_loop_eq _ _ _ _ [] rfl,
        parseLoopG_eq hs _ (fd.after.getD []) _ fd.name [] (Nat.le_refl _) hok' hn (by omega)]
      simp only [if_neg hn, List.nil_append]
      cases parseFilesG (fun l => some (refMarkerName l)) (fd.after.getD []) fd.name [] <;> rfl

/-- The translated reference `Parse` equals the index-form model of the reference. -/
theorem Parse_eq [FLit] [FNLM] (d : Bytes) : GIV.Go.XTxtar.Parse d = (refParseIdx d).map toGoArchive := by
  rw [Parse_lines, refParseIdx, parseG_eq markerSpec_ref]

/-- … hence the line-structured `refParse` the property theorems are about; it never panics. -/
theorem Parse_eq_ref [FLit] [FNLM] (d : Bytes) : GIV.Go.XTxtar.Parse d = some (toGoArchive (refParse d)) := by
  rw [Parse_eq, refParseIdx_eq]; rfl

/-! ### Format -/

theorem Format_loop_eq (a : GIV.Go.XTxtar.GoArchive) : ∀ (fs : List GIV.Go.XTxtar.GoFile) (buf : Bytes),
    GIV.Go.XTxtar.Format_loop1 a fs buf =
      some (buf ++ (fs.map ofGoFile).flatMap fun f =>
        Txtar.marker ++ f.name ++ Txtar.markerEnd ++ [NL] ++ Txtar.fixNL f.data) := by
  intro fs
  induction fs with
  | nil => intro buf; simp [GIV.Go.XTxtar.Format_loop1, GIV.Go.XTxtar.Format_after1]
  | cons f rest ih =>
    intro buf
    unfold GIV.Go.XTxtar.Format_loop1
    simp only [fixNL_eq, Option.bind_eq_bind, Option.bind_some, ih]
    simp [ofGoFile, Txtar.marker, Txtar.markerEnd, Gen.Txtar.marker, Gen.Txtar.markerEnd, NL]

/-- The translated x/tools `Format` never panics and is the model's `format`. -/
theorem Format_eq (a : GIV.Go.XTxtar.GoArchive) :
    GIV.Go.XTxtar.Format a = some (format (ofGoArchive a)) := by
  unfold GIV.Go.XTxtar.Format
  simp only [fixNL_eq, Option.bind_eq_bind, Option.bind_some, Format_loop_eq]
  simp [format, ofGoArchive]

theorem Format_toGo (a : Archive) : GIV.Go.XTxtar.Format (toGoArchive a) = some (format a) := by
  rw [Format_eq, ofGo_toGo]

/-! ### /repo's `Archive` is an alias of the library's (`type Archive = txtar.Archive`)

The two translations declare their own Lean structures; `xGo` reads an archive returned by /repo's
translated functions as the argument handed to the library's `Format` — in Go the same value. -/

def xGo (g : GIV.Go.Txtar.GoArchive) : GIV.Go.XTxtar.GoArchive :=
  ⟨g.Comment, g.Files.map fun f => ⟨f.Name, f.Data⟩⟩

theorem ofGo_xGo (g : GIV.Go.Txtar.GoArchive) : ofGoArchive (xGo g) = TxtarGo.ofGoArchive g := by
  cases g with
  | mk c fs => simp [xGo, ofGoArchive, TxtarGo.ofGoArchive, ofGoFile, TxtarGo.ofGoFile]

theorem xGo_toGo (a : Archive) : xGo (TxtarGo.toGoArchive a) = toGoArchive a := by
  cases a with
  | mk c fs => simp [xGo, toGoArchive, TxtarGo.toGoArchive, toGoFile, TxtarGo.toGoFile]

/-- The library's `Format` applied to an archive /repo's functions returned. -/
theorem Format_xGo (g : GIV.Go.Txtar.GoArchive) :
    GIV.Go.XTxtar.Format (xGo g) = some (format (TxtarGo.ofGoArchive g)) := by
  rw [Format_eq, ofGo_xGo]

end GIV.XTxtarGo
