/-
  GIV.Lemmas.CachePutFS — invariants of the cache directory and byte-level lemmas for the
  system-call model of `cache.Put` (GIV.Model.CachePut).
-/
import GIV.Model.CachePut

namespace GIV.CachePut
open GIV

variable {Id Hsh : Type}

/-! ## hypotheses on the parameters -/

/-- What the development assumes about the hash and the index-entry codec, relative to the set of
contents ever offered to `Put`:
* no other byte string has the hash of an offered content (SHA-256 idealised as collision free on
  the contents that occur);
* the index entry of an offered content has the fixed length, parses back to what was encoded, and the
  empty file does not parse (these are `fmtEntry_length`, `parse_fmt` of group `cache`, C05, for sizes and
  times below 10^20 resp. 2^63). -/
structure Hyps (P : Params Id Hsh) (offered : Bytes → Prop) : Prop where
  noColl : ∀ c x, offered c → P.H x = P.H c → x = c
  encLen : ∀ id c t, offered c → (P.enc id (P.H c) c.length t).length = Gen.CachePut.entrySize
  parseEnc : ∀ id c t, offered c → P.parse id (P.enc id (P.H c) c.length t) = some ⟨P.H c, c.length⟩
  parseNil : ∀ id, P.parse id [] = none

/-! ## the invariant of the directory -/

/-- clause (D) for data files, clause (I) for index files (entries are written whole or removed). -/
def FileOK (P : Params Id Hsh) (offered : Bytes → Prop) : Name Id Hsh → Bytes → Prop
  | .data h, d => ∀ c, offered c → P.H c = h → d.length < c.length ∨ d = c
  | .index id, d => d = [] ∨ ∃ c t, offered c ∧ d = P.enc id (P.H c) c.length t

/-- every name leads to an inode created under that name; inode numbers are below the counter. -/
structure Struct (fs : FS Id Hsh) : Prop where
  named : ∀ p i, fs.names p = some i → ∃ nd, fs.inodes i = some nd ∧ nd.name = p
  bound : ∀ i nd, fs.inodes i = some nd → i < fs.nextIno

/-- the invariant, possibly exempting ONE name (a file that a running Put is bound to truncate or remove). -/
def FSInvExc (P : Params Id Hsh) (offered : Bytes → Prop) (fs : FS Id Hsh) (ex : Option (Name Id Hsh)) : Prop :=
  Struct fs ∧ ∀ p i nd, some p ≠ ex → fs.names p = some i → fs.inodes i = some nd → FileOK P offered p nd.data

/-- `CacheInv`: clauses (D) and (I) for every file. -/
def FSInv (P : Params Id Hsh) (offered : Bytes → Prop) (fs : FS Id Hsh) : Prop := FSInvExc P offered fs none

theorem FSInv.exc {P : Params Id Hsh} {offered : Bytes → Prop} {fs : FS Id Hsh} (h : FSInv P offered fs)
    (ex : Option (Name Id Hsh)) : FSInvExc P offered fs ex :=
  ⟨h.1, fun p i nd _ hn hi => h.2 p i nd (by simp) hn hi⟩

/-- the exempted file is fine too: the full invariant. -/
theorem FSInvExc.full {P : Params Id Hsh} {offered : Bytes → Prop} {fs : FS Id Hsh} {q : Name Id Hsh}
    (h : FSInvExc P offered fs (some q))
    (hq : ∀ i nd, fs.names q = some i → fs.inodes i = some nd → FileOK P offered q nd.data) :
    FSInv P offered fs := by
  refine ⟨h.1, fun p i nd _ hn hi => ?_⟩
  by_cases hp : p = q
  · subst hp; exact hq i nd hn hi
  · exact h.2 p i nd (by simpa using hp) hn hi

/-! ## bytes -/

theorem writeAt_nil (d : Bytes) (off : Nat) : writeAt d off [] = d := by simp [writeAt]

theorem writeAt_inside (d : Bytes) (off : Nat) (bs : Bytes) (h : off ≤ d.length) :
    writeAt d off bs = d.take off ++ bs ++ d.drop (off + bs.length) := by
  unfold writeAt
  split
  · next hb => subst hb; simp
  · have : off - d.length = 0 := by omega
    simp [this]

theorem writeAt_length (d : Bytes) (off : Nat) (bs : Bytes) (h : off ≤ d.length) :
    (writeAt d off bs).length = max d.length (off + bs.length) := by
  rw [writeAt_inside d off bs h]
  simp
  omega

theorem writeAt_take (d : Bytes) (off : Nat) (bs : Bytes) (h : off ≤ d.length) :
    (writeAt d off bs).take (off + bs.length) = d.take off ++ bs := by
  rw [writeAt_inside d off bs h]
  have h1 : (d.take off ++ bs).length = off + bs.length := by simp; omega
  rw [List.take_append_of_le_length (by omega)]
  rw [← h1, List.take_length]

/-- overwriting a file that is not longer than what is written, from offset 0. -/
theorem writeAt_zero_cover (d bs : Bytes) (h : d.length ≤ bs.length) : writeAt d 0 bs = bs := by
  unfold writeAt
  split
  · next hb => subst hb; simp at h; simp [h]
  · simp [List.drop_eq_nil_of_le h]

theorem truncTo_self (d : Bytes) : truncTo d d.length = d := by simp [truncTo]

theorem truncTo_zero (d : Bytes) : truncTo d 0 = [] := by simp [truncTo]

/-- the commit: the file holds the first `n` bytes of `x` and is at most `n+1` long; writing byte `n`
of `x` at offset `n` makes it exactly the first `n+1` bytes. -/
theorem writeAt_commit (d x : Bytes) (n : Nat) (hpre : d.take n = x.take n) (hn : n ≤ d.length)
    (hlen : d.length ≤ n + 1) (hx : n < x.length) :
    writeAt d n ((x.drop n).take 1) = x.take (n + 1) := by
  have hb : ((x.drop n).take 1).length = 1 := by simp; omega
  rw [writeAt_inside d n _ hn, hb, List.drop_eq_nil_of_le hlen, hpre]
  simp
  rw [← List.take_add]


/-! ## how file-system updates act on the invariant -/

/-- same names and inodes (descriptors may differ). -/
def SameFiles (fs fs' : FS Id Hsh) : Prop :=
  fs'.names = fs.names ∧ fs'.inodes = fs.inodes ∧ fs'.nextIno = fs.nextIno

theorem SameFiles.refl (fs : FS Id Hsh) : SameFiles fs fs := ⟨rfl, rfl, rfl⟩

theorem SameFiles.inv {P : Params Id Hsh} {offered : Bytes → Prop} {fs fs' : FS Id Hsh} {ex : Option (Name Id Hsh)}
    (h : SameFiles fs fs') (hi : FSInvExc P offered fs ex) : FSInvExc P offered fs' ex := by
  obtain ⟨h1, h2, h3⟩ := h
  refine ⟨⟨?_, ?_⟩, ?_⟩
  · intro p i hn; rw [h1] at hn; rw [h2]; exact hi.1.named p i hn
  · intro i nd hn; rw [h2] at hn; rw [h3]; exact hi.1.bound i nd hn
  · intro p i nd hp hn hino; rw [h1] at hn; rw [h2] at hino; exact hi.2 p i nd hp hn hino

theorem fileOK_nil (P : Params Id Hsh) (offered : Bytes → Prop) (p : Name Id Hsh) : FileOK P offered p [] := by
  cases p with
  | data h =>
    intro c _ _
    cases c with
    | nil => right; rfl
    | cons a t => left; simp
  | index id => left; rfl

set_option linter.unusedSectionVars false
variable [DecidableEq Id] [DecidableEq Hsh]

/-- the data of the inode linked at `q` changes; `q` stays exempted. -/
theorem inv_setData_exc {P : Params Id Hsh} {offered : Bytes → Prop} {fs : FS Id Hsh} {q : Name Id Hsh} {i : Nat}
    {nd : Inode Id Hsh} (d' : Bytes) (h : FSInvExc P offered fs (some q)) (hn : fs.names q = some i)
    (hi : fs.inodes i = some nd) :
    FSInvExc P offered (fs.setInode i { nd with data := d' }) (some q) := by
  refine ⟨⟨?_, ?_⟩, ?_⟩
  · intro p j hp
    simp only [FS.setInode] at hp ⊢
    by_cases hj : j = i
    · subst hj
      obtain ⟨nd', h1, h2⟩ := h.1.named p j hp
      rw [hi] at h1; cases h1
      exact ⟨{ nd with data := d' }, by simp, h2⟩
    · simpa [hj] using h.1.named p j hp
  · intro j nd' hj
    simp only [FS.setInode] at hj ⊢
    by_cases hji : j = i
    · subst hji; exact h.1.bound j nd hi
    · simp [hji] at hj; exact h.1.bound j nd' hj
  · intro p j nd' hp hpn hj
    simp only [FS.setInode] at hpn hj
    by_cases hji : j = i
    · subst hji
      obtain ⟨nd1, h1, h2⟩ := h.1.named p j hpn
      obtain ⟨nd2, h3, h4⟩ := h.1.named q j hn
      rw [h1] at h3; cases h3
      exact absurd (h2.symm.trans h4) (by simpa using hp)
    · simp [hji] at hj; exact h.2 p j nd' hp hpn hj

/-- the data of the inode linked at `q` changes to something acceptable. -/
theorem inv_setData {P : Params Id Hsh} {offered : Bytes → Prop} {fs : FS Id Hsh} {q : Name Id Hsh} {i : Nat}
    {nd : Inode Id Hsh} (d' : Bytes) (h : FSInvExc P offered fs (some q)) (hn : fs.names q = some i)
    (hi : fs.inodes i = some nd) (hd : FileOK P offered q d') :
    FSInv P offered (fs.setInode i { nd with data := d' }) := by
  refine (inv_setData_exc d' h hn hi).full ?_
  intro j nd' hj hnd
  simp only [FS.setInode] at hj hnd
  rw [hn] at hj; cases hj
  simp at hnd; subst hnd
  exact hd

theorem inv_setFd {P : Params Id Hsh} {offered : Bytes → Prop} {fs : FS Id Hsh} {ex : Option (Name Id Hsh)}
    (fd : Nat) (o : Option OFD) (h : FSInvExc P offered fs ex) : FSInvExc P offered (fs.setFd fd o) ex :=
  SameFiles.inv (fs := fs) ⟨rfl, rfl, rfl⟩ h

theorem inv_closeProc {P : Params Id Hsh} {offered : Bytes → Prop} {fs : FS Id Hsh} {ex : Option (Name Id Hsh)}
    (proc : Nat) (h : FSInvExc P offered fs ex) : FSInvExc P offered (fs.closeProc proc) ex :=
  SameFiles.inv (fs := fs) ⟨rfl, rfl, rfl⟩ h

/-- `unlink q`: afterwards nothing is exempted. -/
theorem inv_unlink {P : Params Id Hsh} {offered : Bytes → Prop} {fs : FS Id Hsh} {q : Name Id Hsh}
    (h : FSInvExc P offered fs (some q)) :
    FSInv P offered { fs with names := fun p => if p = q then none else fs.names p } := by
  refine ⟨⟨?_, ?_⟩, ?_⟩
  · intro p i hp
    simp only at hp ⊢
    by_cases hpq : p = q
    · simp [hpq] at hp
    · simp [hpq] at hp; exact h.1.named p i hp
  · intro i nd hi; exact h.1.bound i nd hi
  · intro p i nd _ hp hi
    simp only at hp hi
    by_cases hpq : p = q
    · simp [hpq] at hp
    · simp [hpq] at hp; exact h.2 p i nd (by simpa using hpq) hp hi

/-- `open(q, O_CREATE)` of a missing name: a new empty file. -/
theorem inv_create {P : Params Id Hsh} {offered : Bytes → Prop} {fs : FS Id Hsh} {ex : Option (Name Id Hsh)}
    (q : Name Id Hsh) (h : FSInvExc P offered fs ex) (hq : fs.names q = none) :
    FSInvExc P offered { fs with names := fun p => if p = q then some fs.nextIno else fs.names p,
                                 inodes := fun j => if j = fs.nextIno then some ⟨q, []⟩ else fs.inodes j,
                                 nextIno := fs.nextIno + 1 } ex := by
  have fresh : ∀ p, fs.names p ≠ some fs.nextIno := by
    intro p hp
    obtain ⟨nd, h1, _⟩ := h.1.named p _ hp
    exact absurd (h.1.bound _ nd h1) (by omega)
  refine ⟨⟨?_, ?_⟩, ?_⟩
  · intro p i hp
    simp only at hp ⊢
    by_cases hpq : p = q
    · simp [hpq] at hp; subst hp; exact ⟨⟨q, []⟩, by simp, hpq.symm⟩
    · simp [hpq] at hp
      have : i ≠ fs.nextIno := fun e => fresh p (e ▸ hp)
      simpa [this] using h.1.named p i hp
  · intro i nd hi
    simp only at hi ⊢
    by_cases hin : i = fs.nextIno
    · omega
    · simp [hin] at hi; have := h.1.bound i nd hi; omega
  · intro p i nd hpe hp hi
    simp only at hp hi
    by_cases hpq : p = q
    · simp [hpq] at hp; subst hp; simp at hi; subst hi; subst hpq; exact fileOK_nil P offered p
    · simp [hpq] at hp
      have : i ≠ fs.nextIno := fun e => fresh p (e ▸ hp)
      simp [this] at hi
      exact h.2 p i nd hpe hp hi

end GIV.CachePut
