import GIV.Gen.ModuleGo
import GIV.Lemmas.SemverGo
set_option linter.unusedSimpArgs false
namespace GIV.ModuleGo
open GIV GIV.GoLib GIV.Proxy GIV.SemverGo

/-! ### literals -/

theorem lit_gopkg : lit "gopkg.in/" = [103, 111, 112, 107, 103, 46, 105, 110, 47] := by decide +kernel
theorem lit_unstable : lit "-unstable" = [45, 117, 110, 115, 116, 97, 98, 108, 101] := by decide +kernel
theorem lit_dotv : lit ".v" = [46, 118] := by decide +kernel
theorem lit_v000 : lit "v0.0.0-" = [118, 48, 46, 48, 46, 48, 45] := by decide +kernel
theorem lit_dotv1 : lit ".v1" = [46, 118, 49] := by decide +kernel
theorem lit_slashv1 : lit "/v1" = [47, 118, 49] := by decide +kernel
theorem lit_dotv0 : lit ".v0" = [46, 118, 48] := by decide +kernel
theorem lit_v0 : lit "v0" = [118, 48] := by decide +kernel
theorem lit_v1 : lit "v1" = [118, 49] := by decide +kernel
theorem lit_incompatible : lit "+incompatible" = [43, 105, 110, 99, 111, 109, 112, 97, 116, 105, 98, 108, 101] := by
  decide +kernel

/-! ### prefixes and suffixes -/

theorem hasPrefix_eq (s pre : Bytes) : GoLib.hasPrefix s pre = Proxy.hasPrefix pre s := by
  unfold GoLib.hasPrefix Proxy.hasPrefix
  rw [Bool.eq_iff_iff, List.isPrefixOf_iff_prefix, List.prefix_iff_eq_take, beq_iff_eq]
  exact ⟨fun h => h.symm, fun h => h.symm⟩

theorem hasSuffix_eq (s suf : Bytes) : GoLib.hasSuffix s suf = Proxy.hasSuffix suf s := by
  unfold GoLib.hasSuffix Proxy.hasSuffix
  rw [Bool.eq_iff_iff, List.isSuffixOf_iff_suffix, List.suffix_iff_eq_drop, Bool.and_eq_true, beq_iff_eq,
    decide_eq_true_iff]
  constructor
  · intro h; exact h.2.symm
  · intro h
    have hl : suf.length ≤ s.length := by
      have := congrArg List.length h
      simp only [List.length_drop] at this
      omega
    exact ⟨hl, h.symm⟩

theorem hasSuffix_len {s suf : Bytes} (h : Proxy.hasSuffix suf s = true) : suf.length ≤ s.length := by
  rw [← hasSuffix_eq] at h
  unfold GoLib.hasSuffix at h
  simp only [Bool.and_eq_true, decide_eq_true_iff] at h
  exact h.1

/-! ### backward scanning: `for i > 0 && p(v[i-1]) { i-- }` from `i` stops at `bscan p v i` -/

/-- the bytes a backward scan from `i` passes over (last first) -/
def brun (p : UInt8 → Bool) (v : Bytes) (i : Nat) : Bytes := (v.take i).reverse.takeWhile p

/-- where a backward scan over the bytes satisfying `p` that starts at index `i` stops. -/
def bscan (p : UInt8 → Bool) (v : Bytes) (i : Nat) : Nat := i - (brun p v i).length

theorem brun_zero (p : UInt8 → Bool) (v : Bytes) : brun p v 0 = [] := by simp [brun]

theorem take_succ_reverse {v : Bytes} {i : Nat} {c : UInt8} (hi : v[i]? = some c) :
    (v.take (i + 1)).reverse = c :: (v.take i).reverse := by
  rw [List.take_add_one, hi]; simp

theorem brun_stop {p : UInt8 → Bool} {v : Bytes} {i : Nat} {c : UInt8} (hi : v[i]? = some c)
    (hp : p c = false) : brun p v (i + 1) = [] := by
  simp [brun, take_succ_reverse hi, hp]

theorem brun_step {p : UInt8 → Bool} {v : Bytes} {i : Nat} {c : UInt8} (hi : v[i]? = some c)
    (hp : p c = true) : brun p v (i + 1) = c :: brun p v i := by
  simp [brun, take_succ_reverse hi, hp]

theorem brun_len (p : UInt8 → Bool) (v : Bytes) (i : Nat) : (brun p v i).length ≤ i := by
  unfold brun
  have h1 : ((v.take i).reverse.takeWhile p).length ≤ (v.take i).reverse.length := by
    have := congrArg List.length (List.takeWhile_append_dropWhile (p := p) (l := (v.take i).reverse))
    simp only [List.length_append] at this
    omega
  simp only [List.length_reverse, List.length_take] at h1
  omega

theorem bscan_zero (p : UInt8 → Bool) (v : Bytes) : bscan p v 0 = 0 := by simp [bscan]

theorem bscan_stop {p : UInt8 → Bool} {v : Bytes} {i : Nat} {c : UInt8} (hi : v[i]? = some c)
    (hp : p c = false) : bscan p v (i + 1) = i + 1 := by
  simp [bscan, brun_stop hi hp]

theorem bscan_step {p : UInt8 → Bool} {v : Bytes} {i : Nat} {c : UInt8} (hi : v[i]? = some c)
    (hp : p c = true) : bscan p v (i + 1) = bscan p v i := by
  simp [bscan, brun_step hi hp]

theorem bscan_le (p : UInt8 → Bool) (v : Bytes) (i : Nat) : bscan p v i ≤ i := by
  unfold bscan; omega

theorem some_of_lt {v : Bytes} {i : Nat} (h : i < v.length) : ∃ c, v[i]? = some c :=
  ⟨v[i], List.getElem?_eq_getElem h⟩

theorem cast_pred (i : Nat) : ((i + 1 : Nat) : Int) - 1 = (i : Int) := by omega

/-! ### splitGopkgIn -/

theorem gopkg_loop_eq (u : GoLib.Unicode) (v a b : Bytes) (ok : Bool) : ∀ fuel i, i < fuel → i ≤ v.length →
    GIV.Go.Module.splitGopkgIn_loop1 u v a b ok fuel (i : Int) =
      GIV.Go.Module.splitGopkgIn_after1 u v a b ok ((bscan isDigit v i : Nat) : Int) := by
  intro fuel
  induction fuel with
  | zero => intro i h; omega
  | succ fuel ih =>
    intro i hf hl
    rw [GIV.Go.Module.splitGopkgIn_loop1]
    cases i with
    | zero => simp [bscan_zero]
    | succ j =>
      obtain ⟨c, hi⟩ := some_of_lt (show j < v.length by omega)
      have hpos : ((j + 1 : Nat) : Int) > 0 := by omega
      simp only [hpos, decide_true, if_true, cast_pred, idx_nat, hi, Option.pure_def, Option.bind_eq_bind,
        Option.bind_some]
      by_cases h1 : (48 : UInt8) ≤ c
      · by_cases h2 : c ≤ (57 : UInt8)
        · have hd : isDigit c = true := by simp [isDigit, h1, h2]
          simp only [h1, h2, decide_true, if_true, Option.bind_some, Bool.not_true, Bool.false_eq_true, if_false]
          rw [bscan_step hi hd]
          exact ih j (by omega) (by omega)
        · have hd : isDigit c = false := by simp [isDigit, h2]
          simp [h1, h2, bscan_stop hi hd]
      · have hd : isDigit c = false := by simp [isDigit, h1]
        simp [h1, bscan_stop hi hd]

/-- the result of the model's `splitGopkgIn` once the scan has stopped at `i` -/
def gopkgRes (path : Bytes) (i : Nat) : Bytes × Bytes × Bool :=
  if i ≤ 1 || path[i-1]? ≠ some 118 || path[i-2]? ≠ some 46 then (path, [], false) else
  let pathMajor := path.drop (i - 2)
  if pathMajor.length ≤ 2 || (pathMajor[2]? = some 48 && pathMajor ≠ lit ".v0") then (path, [], false)
  else (path.take (i - 2), pathMajor, true)

theorem idx_two (s : Bytes) : GoLib.idx? s 2 = s[2]? := idx_nat s 2

theorem gopkg_after_eq (u : GoLib.Unicode) (path a b : Bytes) (ok : Bool) (i : Nat) (hl : i ≤ path.length) :
    GIV.Go.Module.splitGopkgIn_after1 u path a b ok (i : Int) = some (gopkgRes path i) := by
  unfold GIV.Go.Module.splitGopkgIn_after1 gopkgRes
  by_cases h1 : i ≤ 1
  · have : (i : Int) ≤ 1 := by omega
    simp [h1, this]
  · obtain ⟨k, rfl⟩ : ∃ k, i = k + 2 := ⟨i - 2, by omega⟩
    have hn : ¬ (((k + 2 : Nat) : Int) ≤ 1) := by omega
    have e1 : ((k + 2 : Nat) : Int) - 1 = ((k + 1 : Nat) : Int) := by omega
    have e2 : ((k + 2 : Nat) : Int) - 2 = (k : Int) := by omega
    obtain ⟨c1, hc1⟩ := some_of_lt (show k + 1 < path.length by omega)
    obtain ⟨c2, hc2⟩ := some_of_lt (show k < path.length by omega)
    simp only [hn, h1, e1, e2, idx_nat, hc1, hc2, decide_false, Bool.false_eq_true, if_false, Option.pure_def,
      Option.bind_eq_bind, Option.bind_some, Nat.add_sub_cancel, Bool.false_or,
      show k + 2 - 1 = k + 1 from rfl, slice_zero path k (by omega), slice_to_end path k (by omega), lit_dotv0]
    by_cases g1 : c1 = 118
    · by_cases g2 : c2 = 46
      · subst g1 g2
        simp only [bne_self_eq_false, Bool.false_eq_true, if_false, Option.bind_some, ne_eq, not_true,
          decide_false, Bool.or_self, idx_two]
        generalize List.drop k path = pm
        by_cases hp : pm.length ≤ 2
        · have : GoLib.len pm ≤ 2 := by unfold GoLib.len; omega
          simp [hp, this]
        · have : ¬ (GoLib.len pm ≤ 2) := by unfold GoLib.len; omega
          obtain ⟨c, hc⟩ := some_of_lt (show 2 < pm.length by omega)
          simp only [hp, this, decide_false, Bool.false_eq_true, if_false, hc, Option.bind_some, Bool.false_or,
            Option.some.injEq]
          by_cases g3 : c = 48 <;> by_cases g4 : pm = [46, 118, 48] <;> simp [g3, g4]
      · simp [g1, g2]
    · simp [g1]

/-- Go's splitGopkgIn checks the prefix itself; the model's is only called with it -/
theorem splitGopkgIn_eq (u : GoLib.Unicode) (path : Bytes) :
    GIV.Go.Module.splitGopkgIn u path =
      some (if Proxy.hasPrefix (lit "gopkg.in/") path then Proxy.splitGopkgIn path else (path, [], false)) := by
  unfold GIV.Go.Module.splitGopkgIn
  rw [hasPrefix_eq, hasSuffix_eq, ← lit_gopkg, ← lit_unstable]
  by_cases hp : Proxy.hasPrefix (lit "gopkg.in/") path = true
  · simp only [hp, Bool.not_true, Bool.false_eq_true, if_false, if_true]
    have key : ∀ i0 : Nat, i0 ≤ path.length →
        GIV.Go.Module.splitGopkgIn_loop1 u path [] [] false
          (path.length + ([] : Bytes).length + ([] : Bytes).length + 2) (i0 : Int) =
          some (gopkgRes path (i0 - ((path.take i0).reverse.takeWhile isDigit).length)) := by
      intro i0 h0
      rw [gopkg_loop_eq u path [] [] false _ i0 (by simp only [List.length_nil]; omega) h0,
        gopkg_after_eq u path [] [] false _ (Nat.le_trans (bscan_le _ _ _) h0)]
      rfl
    unfold Proxy.splitGopkgIn
    by_cases hs : Proxy.hasSuffix (lit "-unstable") path = true
    · have hlen := hasSuffix_len hs
      have e : GoLib.len path - GoLib.len (lit "-unstable") = ((path.length - (lit "-unstable").length : Nat) : Int) := by
        unfold GoLib.len; omega
      simp only [hs, if_true, Option.pure_def, Option.bind_eq_bind, Option.bind_some, e]
      rw [key _ (by omega)]
      rfl
    · simp only [hs, Bool.false_eq_true, if_false, Option.pure_def, Option.bind_eq_bind, Option.bind_some, GoLib.len]
      rw [key _ (Nat.le_refl _)]
      rfl
  · simp [hp]

/-! ### SplitPathVersion -/

/-- the byte class of the backward scan of `SplitPathVersion`: a digit or '.' -/
def pdot : UInt8 → Bool := fun c => isDigit c || c = 46

theorem spv_loop_eq (u : GoLib.Unicode) (v a b : Bytes) (ok : Bool) : ∀ fuel i dot, i < fuel → i ≤ v.length →
    GIV.Go.Module.SplitPathVersion_loop1 u v a b ok fuel (i : Int) dot =
      GIV.Go.Module.SplitPathVersion_after1 u v a b ok ((bscan pdot v i : Nat) : Int)
        (dot || (brun pdot v i).contains 46) := by
  intro fuel
  induction fuel with
  | zero => intro i dot h; omega
  | succ fuel ih =>
    intro i dot hf hl
    rw [GIV.Go.Module.SplitPathVersion_loop1]
    cases i with
    | zero => simp [bscan_zero, brun_zero]
    | succ j =>
      obtain ⟨c, hi⟩ := some_of_lt (show j < v.length by omega)
      have hpos : ((j + 1 : Nat) : Int) > 0 := by omega
      simp only [hpos, decide_true, if_true, cast_pred, idx_nat, hi, Option.pure_def, Option.bind_eq_bind,
        Option.bind_some]
      by_cases hd : isDigit c = true
      · have h12 : (48 : UInt8) ≤ c ∧ c ≤ (57 : UInt8) := by simpa [isDigit] using hd
        have hp : pdot c = true := by simp [pdot, hd]
        have hne : c ≠ 46 := by
          intro h; subst h; revert hd; decide
        simp only [h12.1, h12.2, decide_true, if_true, Option.bind_some, Bool.not_true, Bool.false_eq_true,
          if_false, beq_iff_eq, hne]
        rw [bscan_step hi hp, brun_step hi hp, ih j dot (by omega) (by omega)]
        have : (46 : UInt8) ≠ c := fun h => hne h.symm
        simp [List.contains_cons, this]
      · have hd' : isDigit c = false := by simpa using hd
        have ht : (if decide ((48 : UInt8) ≤ c) = true then (some (decide (c ≤ (57 : UInt8)))) else some false)
            = some false := by
          by_cases h1 : (48 : UInt8) ≤ c
          · by_cases h2 : c ≤ (57 : UInt8)
            · exfalso; revert hd'; simp [isDigit, h1, h2]
            · simp [h1, h2]
          · simp [h1]
        simp only [ht, Option.bind_some, Bool.false_eq_true, if_false]
        by_cases h46 : c = 46
        · subst h46
          have hp : pdot 46 = true := by decide
          simp only [beq_self_eq_true, Bool.not_true, Bool.false_eq_true, if_false, if_true, Option.bind_some]
          rw [bscan_step hi hp, brun_step hi hp, ih j true (by omega) (by omega)]
          simp [List.contains_cons]
        · have hp : pdot c = false := by simp [pdot, hd', h46]
          simp [h46, bscan_stop hi hp, brun_stop hi hp]

/-- the result of the model's `splitPathVersion` once the scan has stopped at `i` having seen a '.' or not -/
def spvRes (path : Bytes) (i : Nat) (dot : Bool) : Bytes × Bytes × Bool :=
  if i ≤ 1 || i = path.length || path[i-1]? ≠ some 118 || path[i-2]? ≠ some 47 then (path, [], true) else
  let pathMajor := path.drop (i - 2)
  if dot || pathMajor.length ≤ 2 || pathMajor[2]? = some 48 || pathMajor = lit "/v1" then (path, [], false)
  else (path.take (i - 2), pathMajor, true)

theorem spv_after_eq (u : GoLib.Unicode) (path a b : Bytes) (ok : Bool) (i : Nat) (dot : Bool)
    (hl : i ≤ path.length) :
    GIV.Go.Module.SplitPathVersion_after1 u path a b ok (i : Int) dot = some (spvRes path i dot) := by
  unfold GIV.Go.Module.SplitPathVersion_after1 spvRes
  by_cases h1 : i ≤ 1
  · have : (i : Int) ≤ 1 := by omega
    simp [h1, this]
  · by_cases h0 : i = path.length
    · subst h0
      simp [GoLib.len]
    · obtain ⟨k, rfl⟩ : ∃ k, i = k + 2 := ⟨i - 2, by omega⟩
      have hn : ¬ (((k + 2 : Nat) : Int) ≤ 1) := by omega
      have hn0 : (((k + 2 : Nat) : Int) == GoLib.len path) = false := by
        simp only [GoLib.len, beq_eq_false_iff_ne, ne_eq]; omega
      have e1 : ((k + 2 : Nat) : Int) - 1 = ((k + 1 : Nat) : Int) := by omega
      have e2 : ((k + 2 : Nat) : Int) - 2 = (k : Int) := by omega
      obtain ⟨c1, hc1⟩ := some_of_lt (show k + 1 < path.length by omega)
      obtain ⟨c2, hc2⟩ := some_of_lt (show k < path.length by omega)
      simp only [hn, hn0, h1, h0, e1, e2, idx_nat, hc1, hc2, decide_false, Bool.false_eq_true, if_false,
        Option.pure_def, Option.bind_eq_bind, Option.bind_some, Nat.add_sub_cancel, Bool.false_or, Bool.or_self,
        show k + 2 - 1 = k + 1 from rfl, slice_zero path k (by omega), slice_to_end path k (by omega), lit_slashv1]
      by_cases g1 : c1 = 118
      · by_cases g2 : c2 = 47
        · subst g1 g2
          simp only [bne_self_eq_false, Bool.false_eq_true, if_false, Option.bind_some, ne_eq, not_true,
            decide_false, Bool.or_self, idx_two]
          generalize List.drop k path = pm
          cases dot with
          | true => simp
          | false =>
            by_cases hp : pm.length ≤ 2
            · have : GoLib.len pm ≤ 2 := by unfold GoLib.len; omega
              simp [hp, this]
            · have : ¬ (GoLib.len pm ≤ 2) := by unfold GoLib.len; omega
              obtain ⟨c, hc⟩ := some_of_lt (show 2 < pm.length by omega)
              simp only [hp, this, decide_false, Bool.false_eq_true, if_false, hc, Option.bind_some, Bool.false_or,
                Bool.or_self, Option.some.injEq]
              by_cases g3 : c = 48 <;> by_cases g4 : pm = [47, 118, 49] <;> simp [g3, g4]
        · simp [g1, g2]
      · simp [g1]

theorem SplitPathVersion_eq (u : GoLib.Unicode) (path : Bytes) :
    GIV.Go.Module.SplitPathVersion u path = some (Proxy.splitPathVersion path) := by
  unfold GIV.Go.Module.SplitPathVersion Proxy.splitPathVersion
  rw [hasPrefix_eq, ← lit_gopkg]
  by_cases hp : Proxy.hasPrefix (lit "gopkg.in/") path = true
  · simp [hp, splitGopkgIn_eq]
  · simp only [hp, Bool.false_eq_true, if_false]
    rw [show GoLib.len path = ((path.length : Nat) : Int) from rfl,
      spv_loop_eq u path [] [] false _ path.length false (by simp only [List.length_nil]; omega) (Nat.le_refl _),
      spv_after_eq u path [] [] false _ _ (bscan_le _ _ _)]
    simp only [bscan, brun, List.take_length, Bool.false_or]
    rfl

/-! ### CheckPathMajor, MatchPathMajor -/

theorem k1_eq (u : GoLib.Unicode) (v pm m : Bytes) :
    (GIV.Go.Module.CheckPathMajor_k1 u v pm m).map Option.isNone = some false := by
  unfold GIV.Go.Module.CheckPathMajor_k1
  simp [Major_eq]

theorem k2_eq (u : GoLib.Unicode) (v pm m : Bytes) :
    (GIV.Go.Module.CheckPathMajor_k2 u v pm m).map Option.isNone = some false := by
  unfold GIV.Go.Module.CheckPathMajor_k2
  exact k1_eq u v pm m

/-- `CheckPathMajor` after the "-unstable" suffix of a gopkg.in major has been removed -/
theorem checkPathMajor_core (u : GoLib.Unicode) (v pm : Bytes) :
    (((if (GoLib.hasPrefix v ([118, 48, 46, 48, 46, 48, 45] : Bytes)) && (pm == ([46, 118, 49] : Bytes)) then
        (pure none : Option GoError)
      else do
        let t1 ← GIV.Go.Semver.Major v
        let m : Bytes := t1
        if pm == ([] : Bytes) then do
          let t4 ← (if (m == ([118, 48] : Bytes)) || (m == ([118, 49] : Bytes)) then pure true else (do
            let t3 ← GIV.Go.Semver.Build v
            pure (t3 == ([43, 105, 110, 99, 111, 109, 112, 97, 116, 105, 98, 108, 101] : Bytes))))
          if t4 then do
            pure none
          else
          let pathMajor : Bytes := ([118, 48, 32, 111, 114, 32, 118, 49] : Bytes)
          GIV.Go.Module.CheckPathMajor_k1 u v pathMajor m
        else do
          let t5 ← GoLib.idx? pm 0
          let t7 ← (if t5 == 47 then pure true else (do
            let t6 ← GoLib.idx? pm 0
            pure (t6 == 46)))
          if t7 then do
            let t8 ← GoLib.slice? pm 1 (GoLib.len pm)
            if m == t8 then do
              pure none
            else
            let t9 ← GoLib.slice? pm 1 (GoLib.len pm)
            let pathMajor : Bytes := t9
            GIV.Go.Module.CheckPathMajor_k2 u v pathMajor m
          else do
            GIV.Go.Module.CheckPathMajor_k2 u v pm m) : Option GoError).map Option.isNone) =
      some (if Proxy.hasPrefix (lit "v0.0.0-") v && pm = lit ".v1" then true else
        let m := semverMajor v
        if pm.isEmpty then m = lit "v0" || m = lit "v1" || semverBuild v = lit "+incompatible"
        else if pm.head? = some 47 || pm.head? = some 46 then m = pm.drop 1
        else false) := by
  rw [hasPrefix_eq, ← lit_v000, lit_dotv1, lit_v0, lit_v1, lit_incompatible]
  by_cases h0 : (Proxy.hasPrefix (lit "v0.0.0-") v && pm == ([46, 118, 49] : Bytes)) = true
  · have h0' : (Proxy.hasPrefix (lit "v0.0.0-") v && decide (pm = ([46, 118, 49] : Bytes))) = true := by
      simpa using h0
    rw [if_pos h0, if_pos h0']; rfl
  · have h0' : ¬ ((Proxy.hasPrefix (lit "v0.0.0-") v && decide (pm = ([46, 118, 49] : Bytes))) = true) := by
      simpa using h0
    rw [if_neg h0, if_neg h0']
    simp only [Major_eq, Build_eq, Option.pure_def, Option.bind_eq_bind, Option.bind_some]
    generalize semverMajor v = m
    generalize semverBuild v = bld
    cases pm with
    | nil =>
      have : (([] : Bytes) == ([] : Bytes)) = true := rfl
      simp only [this, if_true, List.isEmpty_nil]
      by_cases g1 : m = [118, 48]
      · simp [g1]
      · by_cases g2 : m = [118, 49]
        · simp [g2]
        · by_cases g3 : bld = [43, 105, 110, 99, 111, 109, 112, 97, 116, 105, 98, 108, 101]
          · simp [g1, g2, g3]
          · have := k1_eq u v [118, 48, 32, 111, 114, 32, 118, 49] m
            simp [g1, g2, g3, this]
    | cons c r =>
      have : ((c :: r) == ([] : Bytes)) = false := rfl
      simp only [this, Bool.false_eq_true, if_false, idx_zero, List.head?_cons, Option.bind_some, slice_one_end,
        List.isEmpty_cons, List.drop_succ_cons, List.drop_zero, Option.some.injEq]
      by_cases g1 : c = 47
      · subst g1
        by_cases g2 : m = r
        · simp [g2]
        · have := k2_eq u v r m
          simp [g2, this]
      · by_cases g2 : c = 46
        · subst g2
          by_cases g3 : m = r
          · simp [g3]
          · have := k2_eq u v r m
            simp [g3, this]
        · have := k2_eq u v (c :: r) m
          simp [g1, g2, this]

theorem trimSuffix_unstable {pm : Bytes} (h : Proxy.hasSuffix (lit "-unstable") pm = true) :
    GoLib.trimSuffix pm (lit "-unstable") = pm.take (pm.length - 9) := by
  unfold GoLib.trimSuffix
  rw [hasSuffix_eq, h, if_pos rfl, lit_unstable]
  rfl

/-- errors are opaque: nil / non-nil -/
theorem CheckPathMajor_eq (u : GoLib.Unicode) (v pathMajor : Bytes) :
    (GIV.Go.Module.CheckPathMajor u v pathMajor).map Option.isNone = some (Proxy.checkPathMajor v pathMajor) := by
  unfold GIV.Go.Module.CheckPathMajor Proxy.checkPathMajor
  rw [hasPrefix_eq, hasSuffix_eq, ← lit_dotv, ← lit_unstable]
  by_cases h : (Proxy.hasPrefix (lit ".v") pathMajor && Proxy.hasSuffix (lit "-unstable") pathMajor) = true
  · have hs : Proxy.hasSuffix (lit "-unstable") pathMajor = true := by
      simp only [Bool.and_eq_true] at h; exact h.2
    simp only [h, if_true, Option.pure_def, Option.bind_eq_bind, Option.bind_some, trimSuffix_unstable hs]
    exact checkPathMajor_core u v _
  · simp only [h, Bool.false_eq_true, if_false, Option.pure_def, Option.bind_eq_bind, Option.bind_some]
    exact checkPathMajor_core u v _

theorem MatchPathMajor_eq (u : GoLib.Unicode) (v pathMajor : Bytes) :
    GIV.Go.Module.MatchPathMajor u v pathMajor = some (Proxy.checkPathMajor v pathMajor) := by
  have h := CheckPathMajor_eq u v pathMajor
  unfold GIV.Go.Module.MatchPathMajor
  cases hc : GIV.Go.Module.CheckPathMajor u v pathMajor with
  | none => rw [hc] at h; simp at h
  | some e =>
    rw [hc] at h
    simp only [Option.map_some, Option.some.injEq] at h
    rw [← h]
    cases e <;> rfl

end GIV.ModuleGo
