/-
  GIV.Lemmas.FsxPath — split/join at '/', and the shape of `cleanPath` (component-stack Clean).
-/
import GIV.Model.Fsx

namespace GIV.Fsx
open GIV

/-! ### splitSep / joinSep -/

theorem splitAux_nil : splitAux [] = ([], []) := rfl

theorem splitAux_cons_sep (rest : Bytes) :
    splitAux (SEP :: rest) = ([], (splitAux rest).1 :: (splitAux rest).2) := by
  simp [splitAux]

theorem splitAux_cons_ne {b : UInt8} (h : b ≠ SEP) (rest : Bytes) :
    splitAux (b :: rest) = (b :: (splitAux rest).1, (splitAux rest).2) := by
  simp [splitAux, h]

theorem splitAux_nosep (s : Bytes) : SEP ∉ (splitAux s).1 ∧ ∀ c ∈ (splitAux s).2, SEP ∉ c := by
  induction s with
  | nil => simp [splitAux]
  | cons b rest ih =>
    by_cases hb : b = SEP
    · subst hb
      rw [splitAux_cons_sep]
      refine ⟨by simp, ?_⟩
      intro c hc
      simp only [List.mem_cons] at hc
      rcases hc with rfl | hc
      · exact ih.1
      · exact ih.2 c hc
    · rw [splitAux_cons_ne hb]
      refine ⟨?_, ih.2⟩
      simp only [List.mem_cons, not_or]
      exact ⟨fun h => hb h.symm, ih.1⟩

theorem splitSep_nosep {s c : Bytes} (h : c ∈ splitSep s) : SEP ∉ c := by
  simp only [splitSep, List.mem_cons] at h
  rcases h with rfl | h
  · exact (splitAux_nosep s).1
  · exact (splitAux_nosep s).2 c h

theorem splitSep_ne_nil (s : Bytes) : splitSep s ≠ [] := by simp [splitSep]

theorem joinSep_cons_cons (c d : Bytes) (cs : List Bytes) :
    joinSep (c :: d :: cs) = c ++ SEP :: joinSep (d :: cs) := rfl

theorem joinSep_cons_of_ne_nil (c : Bytes) {cs : List Bytes} (h : cs ≠ []) :
    joinSep (c :: cs) = c ++ SEP :: joinSep cs := by
  cases cs with
  | nil => exact absurd rfl h
  | cons d ds => rfl

theorem joinSep_splitSep (s : Bytes) : joinSep (splitSep s) = s := by
  induction s with
  | nil => rfl
  | cons b rest ih =>
    simp only [splitSep] at ih
    by_cases hb : b = SEP
    · subst hb
      simp only [splitSep, splitAux_cons_sep]
      rw [joinSep_cons_cons, ih]; rfl
    · simp only [splitSep, splitAux_cons_ne hb]
      generalize (splitAux rest).1 = x at ih ⊢
      generalize (splitAux rest).2 = y at ih ⊢
      cases y with
      | nil =>
        simp only [joinSep] at ih ⊢
        rw [ih]
      | cons d ds =>
        rw [joinSep_cons_cons] at ih ⊢
        rw [← ih]; rfl

theorem splitAux_of_nosep {c : Bytes} (h : SEP ∉ c) : splitAux c = (c, []) := by
  induction c with
  | nil => rfl
  | cons b rest ih =>
    simp only [List.mem_cons, not_or] at h
    rw [splitAux_cons_ne (fun e => h.1 e.symm), ih h.2]

theorem splitAux_append_sep {c : Bytes} (h : SEP ∉ c) (rest : Bytes) :
    splitAux (c ++ SEP :: rest) = (c, (splitAux rest).1 :: (splitAux rest).2) := by
  induction c with
  | nil => simp [splitAux_cons_sep]
  | cons b cs ih =>
    simp only [List.mem_cons, not_or] at h
    rw [List.cons_append, splitAux_cons_ne (fun e => h.1 e.symm), ih h.2]

theorem splitSep_joinSep {l : List Bytes} (hne : l ≠ []) (h : ∀ c ∈ l, SEP ∉ c) :
    splitSep (joinSep l) = l := by
  induction l with
  | nil => exact absurd rfl hne
  | cons c cs ih =>
    cases cs with
    | nil =>
      simp only [joinSep, splitSep]
      rw [splitAux_of_nosep (h c (by simp))]
    | cons d ds =>
      rw [joinSep_cons_cons]
      simp only [splitSep]
      rw [splitAux_append_sep (h c (by simp))]
      have := ih (by simp) (fun x hx => h x (List.mem_cons_of_mem _ hx))
      simp only [splitSep] at this
      rw [this]

/-! ### the stack of `cleanPath` -/

/-- an ordinary path element: not empty, not ".", not "..", no '/'. -/
def Normal (c : Bytes) : Prop := c ≠ [] ∧ c ≠ dotB ∧ c ≠ dotdotB ∧ SEP ∉ c

instance (c : Bytes) : Decidable (Normal c) := by unfold Normal; exact inferInstance

theorem cleanStep_normal (rooted : Bool) (st : List Bytes) {c : Bytes} (h : Normal c) :
    cleanStep rooted st c = c :: st := by
  simp [cleanStep, h.1, h.2.1, h.2.2.1]

theorem cleanComps_normal (rooted : Bool) (st : List Bytes) {cs : List Bytes} (h : ∀ c ∈ cs, Normal c) :
    cleanComps rooted st cs = cs.reverse ++ st := by
  induction cs generalizing st with
  | nil => rfl
  | cons c cs ih =>
    simp only [cleanComps, List.foldl_cons] at ih ⊢
    rw [cleanStep_normal rooted st (h c (by simp))]
    rw [ih (c :: st) (fun x hx => h x (List.mem_cons_of_mem _ hx))]
    simp

/-- stack of a relative Clean: ordinary elements on top of a block of ".." -/
def RelSt (st : List Bytes) : Prop :=
  ∃ (ns : List Bytes) (k : Nat), st = ns ++ List.replicate k dotdotB ∧ ∀ c ∈ ns, Normal c

theorem relSt_nil : RelSt [] := ⟨[], 0, rfl, by simp⟩

theorem relSt_step {st : List Bytes} {c : Bytes} (hst : RelSt st) (hc : SEP ∉ c) :
    RelSt (cleanStep false st c) := by
  obtain ⟨ns, k, rfl, hns⟩ := hst
  unfold cleanStep
  by_cases h1 : c = [] ∨ c = dotB
  · rw [if_pos h1]; exact ⟨ns, k, rfl, hns⟩
  · rw [if_neg h1]
    by_cases h2 : c = dotdotB
    · rw [if_pos h2]
      cases ns with
      | nil =>
        cases k with
        | zero => exact ⟨[], 1, rfl, by simp⟩
        | succ k =>
          simp only [List.nil_append, List.replicate_succ]
          exact ⟨[], k + 2, by simp [List.replicate_succ], by simp⟩
      | cons n ns' =>
        have hn : n ≠ dotdotB := (hns n (by simp)).2.2.1
        simp only [List.cons_append]
        rw [if_neg (by simp [hn])]
        exact ⟨ns', k, rfl, fun x hx => hns x (List.mem_cons_of_mem _ hx)⟩
    · rw [if_neg h2]
      have hn : Normal c := ⟨fun e => h1 (Or.inl e), fun e => h1 (Or.inr e), h2, hc⟩
      refine ⟨c :: ns, k, rfl, ?_⟩
      intro x hx
      simp only [List.mem_cons] at hx
      rcases hx with rfl | hx
      · exact hn
      · exact hns x hx

theorem relSt_comps {st cs : List Bytes} (hst : RelSt st) (hcs : ∀ c ∈ cs, SEP ∉ c) :
    RelSt (cleanComps false st cs) := by
  induction cs generalizing st with
  | nil => exact hst
  | cons c cs ih =>
    simp only [cleanComps, List.foldl_cons] at ih ⊢
    exact ih (relSt_step hst (hcs c (by simp))) (fun x hx => hcs x (List.mem_cons_of_mem _ hx))

/-- stack of a rooted Clean: ordinary elements only -/
theorem rootSt_step {st : List Bytes} {c : Bytes} (hst : ∀ x ∈ st, Normal x) (hc : SEP ∉ c) :
    ∀ x ∈ cleanStep true st c, Normal x := by
  unfold cleanStep
  by_cases h1 : c = [] ∨ c = dotB
  · rw [if_pos h1]; exact hst
  · rw [if_neg h1]
    by_cases h2 : c = dotdotB
    · rw [if_pos h2]
      cases st with
      | nil => simp
      | cons t rest =>
        simp only [Bool.true_eq_false, false_and, if_false]
        exact fun x hx => hst x (List.mem_cons_of_mem _ hx)
    · rw [if_neg h2]
      intro x hx
      simp only [List.mem_cons] at hx
      rcases hx with rfl | hx
      · exact ⟨fun e => h1 (Or.inl e), fun e => h1 (Or.inr e), h2, hc⟩
      · exact hst x hx

theorem rootSt_comps {st cs : List Bytes} (hst : ∀ x ∈ st, Normal x) (hcs : ∀ c ∈ cs, SEP ∉ c) :
    ∀ x ∈ cleanComps true st cs, Normal x := by
  induction cs generalizing st with
  | nil => exact hst
  | cons c cs ih =>
    simp only [cleanComps, List.foldl_cons] at ih ⊢
    exact ih (rootSt_step hst (hcs c (by simp))) (fun x hx => hcs x (List.mem_cons_of_mem _ hx))

/-! ### shape of cleanPath -/

/-- The output elements of a relative Clean: `k` times ".." and then ordinary elements. -/
theorem clean_rel_out (p : Bytes) :
    ∃ (k : Nat) (ns : List Bytes), (∀ c ∈ ns, Normal c) ∧
      (cleanComps false [] (splitSep p)).reverse = List.replicate k dotdotB ++ ns := by
  obtain ⟨ns, k, h, hns⟩ := relSt_comps relSt_nil (fun c hc => splitSep_nosep (s := p) hc)
  refine ⟨k, ns.reverse, fun c hc => hns c (List.mem_reverse.mp hc), ?_⟩
  rw [h]; simp

theorem cleanPath_nil : cleanPath [] = dotB := rfl

theorem cleanPath_rooted {p : Bytes} (h : p.head? = some SEP) :
    cleanPath p = SEP :: joinSep (cleanComps true [] (splitSep p)).reverse := by
  have : p ≠ [] := by intro e; simp [e] at h
  simp [cleanPath, this, h]

theorem cleanPath_rel {p : Bytes} (hne : p ≠ []) (h : p.head? ≠ some SEP) :
    cleanPath p = if (cleanComps false [] (splitSep p)).reverse = [] then dotB
      else joinSep (cleanComps false [] (splitSep p)).reverse := by
  simp [cleanPath, hne, h]

theorem normal_nosep_of_mem {l : List Bytes} (h : ∀ c ∈ l, Normal c) : ∀ c ∈ l, SEP ∉ c :=
  fun c hc => (h c hc).2.2.2

theorem dotdot_nosep : SEP ∉ dotdotB := by decide

/-- **Shape of a relative Clean.**  For a path that does not start with '/', the elements of
`cleanPath p` are either just `["."]`, or `k` times ".." followed by ordinary elements. -/
theorem clean_rel_shape (p : Bytes) (h : p.head? ≠ some SEP) :
    ∃ (k : Nat) (ns : List Bytes), (∀ c ∈ ns, Normal c) ∧
      ((k = 0 ∧ ns = [] ∧ cleanPath p = dotB) ∨
       (List.replicate k dotdotB ++ ns ≠ [] ∧ cleanPath p = joinSep (List.replicate k dotdotB ++ ns) ∧
        splitSep (cleanPath p) = List.replicate k dotdotB ++ ns)) := by
  by_cases hne : p = []
  · subst hne
    exact ⟨0, [], by simp, Or.inl ⟨rfl, rfl, rfl⟩⟩
  · obtain ⟨k, ns, hns, hout⟩ := clean_rel_out p
    refine ⟨k, ns, hns, ?_⟩
    rw [cleanPath_rel hne h, hout]
    by_cases he : List.replicate k dotdotB ++ ns = []
    · left
      rw [if_pos he]
      simp only [List.append_eq_nil_iff, List.replicate_eq_nil_iff] at he
      exact ⟨he.1, he.2, rfl⟩
    · right
      rw [if_neg he]
      refine ⟨he, rfl, splitSep_joinSep he ?_⟩
      intro c hc
      simp only [List.mem_append, List.mem_replicate] at hc
      rcases hc with ⟨_, rfl⟩ | hc
      · exact dotdot_nosep
      · exact (hns c hc).2.2.2

end GIV.Fsx
