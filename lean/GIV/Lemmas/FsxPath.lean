/-
  GIV.Lemmas.FsxPath — split/join at '/', and the shape of `cleanPath` (component-stack Clean).
-/
import GIV.Model.Fsx

namespace GIV.Fsx
open GIV

/-! ### splitSep / joinSep -/

theorem splitAux_nil : splitAux [] = ([], []) := rfl

theorem splitAux_cons_sep (rest : Bytes) :
    splitAux (SEP :: rest) = ([], (splitAux rest).1 :: (splitAux rest).2) := by
  simp [splitAux]

theorem splitAux_cons_ne {b : UInt8} (h : b ≠ SEP) (rest : Bytes) :
    splitAux (b :: rest) = (b :: (splitAux rest).1, (splitAux rest).2) := by
  simp [splitAux, h]

theorem splitAux_nosep (s : Bytes) : SEP ∉ (splitAux s).1 ∧ ∀ c ∈ (splitAux s).2, SEP ∉ c := by
  induction s with
  | nil => simp [splitAux]
  | cons b rest ih =>
    by_cases hb : b = SEP
    · subst hb
      rw [splitAux_cons_sep]
      refine ⟨by simp, ?_⟩
      intro c hc
      simp only [List.mem_cons] at hc
      rcases hc with rfl | hc
      · exact ih.1
      · exact ih.2 c hc
    · rw [splitAux_cons_ne hb]
      refine ⟨?_, ih.2⟩
      simp only [List.mem_cons, not_or]
      exact ⟨fun h => hb h.symm, ih.1⟩

theorem splitSep_nosep {s c : Bytes} (h : c ∈ splitSep s) : SEP ∉ c := by
  simp only [splitSep, List.mem_cons] at h
  rcases h with rfl | h
  · exact (splitAux_nosep s).1
  · exact (splitAux_nosep s).2 c h

theorem splitSep_ne_nil (s : Bytes) : splitSep s ≠ [] := by simp [splitSep]

theorem joinSep_cons_cons (c d : Bytes) (cs : List Bytes) :
    joinSep (c :: d :: cs) = c ++ SEP :: joinSep (d :: cs) := rfl

theorem joinSep_cons_of_ne_nil (c : Bytes) {cs : List Bytes} (h : cs ≠ []) :
    joinSep (c :: cs) = c ++ SEP :: joinSep cs := by
  cases cs with
  | nil => exact absurd rfl h
  | cons d ds => rfl

theorem joinSep_splitSep (s : Bytes) : joinSep (splitSep s) = s := by
  induction s with
  | nil => rfl
  | cons b rest ih =>
    simp only [splitSep] at ih
    by_cases hb : b = SEP
    · subst hb
      simp only [splitSep, splitAux_cons_sep]
      rw [joinSep_cons_cons, ih]; rfl
    · simp only [splitSep, splitAux_cons_ne hb]
      generalize (splitAux rest).1 = x at ih ⊢
      generalize (splitAux rest).2 = y at ih ⊢
      cases y with
      | nil =>
        simp only [joinSep] at ih ⊢
        rw [ih]
      | cons d ds =>
        rw [joinSep_cons_cons] at ih ⊢
        rw [← ih]; rfl

theorem splitAux_of_nosep {c : Bytes} (h : SEP ∉ c) : splitAux c = (c, []) := by
  induction c with
  | nil => rfl
  | cons b rest ih =>
    simp only [List.mem_cons, not_or] at h
    rw [splitAux_cons_ne (fun e => h.1 e.symm), ih h.2]

theorem splitAux_append_sep {c : Bytes} (h : SEP ∉ c) (rest : Bytes) :
    splitAux (c ++ SEP :: rest) = (c, (splitAux rest).1 :: (splitAux rest).2) := by
  induction c with
  | nil => simp [splitAux_cons_sep]
  | cons b cs ih =>
    simp only [List.mem_cons, not_or] at h
    rw [List.cons_append, splitAux_cons_ne (fun e => h.1 e.symm), ih h.2]

theorem splitSep_joinSep {l : List Bytes} (hne : l ≠ []) (h : ∀ c ∈ l, SEP ∉ c) :
    splitSep (joinSep l) = l := by
  induction l with
  | nil => exact absurd rfl hne
  | cons c cs ih =>
    cases cs with
    | nil =>
      simp only [joinSep, splitSep]
      rw [splitAux_of_nosep (h c (by simp))]
    | cons d ds =>
      rw [joinSep_cons_cons]
      simp only [splitSep]
      rw [splitAux_append_sep (h c (by simp))]
      have := ih (by simp) (fun x hx => h x (List.mem_cons_of_mem _ hx))
      simp only [splitSep] at this
      rw [this]

/-! ### the stack of `cleanPath` -/

/-- an ordinary path element: not empty, not ".", not "..", no '/'. -/
def Normal (c : Bytes) : Prop := c ≠ [] ∧ c ≠ dotB ∧ c ≠ dotdotB ∧ SEP ∉ c

instance (c : Bytes) : Decidable (Normal c) := by unfold Normal; exact inferInstance

theorem cleanStep_normal (rooted : Bool) (st : List Bytes) {c : Bytes} (h : Normal c) :
    cleanStep rooted st c = c :: st := by
  simp [cleanStep, h.1, h.2.1, h.2.2.1]

theorem cleanComps_normal (rooted : Bool) (st : List Bytes) {cs : List Bytes} (h : ∀ c ∈ cs, Normal c) :
    cleanComps rooted st cs = cs.reverse ++ st := by
  induction cs generalizing st with
  | nil => rfl
  | cons c cs ih =>
    simp only [cleanComps, List.foldl_cons] at ih ⊢
    rw [cleanStep_normal rooted st (h c (by simp))]
    rw [ih (c :: st) (fun x hx => h x (List.mem_cons_of_mem _ hx))]
    simp

/-- stack of a relative Clean: ordinary elements on top of a block of ".." -/
def RelSt (st : List Bytes) : Prop :=
  ∃ (ns : List Bytes) (k : Nat), st = ns ++ List.replicate k dotdotB ∧ ∀ c ∈ ns, Normal c

theorem relSt_nil : RelSt [] := ⟨[], 0, rfl, by simp⟩

theorem relSt_step {st : List Bytes} {c : Bytes} (hst : RelSt st) (hc : SEP ∉ c) :
    RelSt (cleanStep false st c) := by
  obtain ⟨ns, k, rfl, hns⟩ := hst
  unfold cleanStep
  by_cases h1 : c = [] ∨ c = dotB
  · rw [if_pos h1]; exact ⟨ns, k, rfl, hns⟩
  · rw [if_neg h1]
    by_cases h2 : c = dotdotB
    · rw [if_pos h2]
      cases ns with
      | nil =>
        cases k with
        | zero => exact ⟨[], 1, rfl, by simp⟩
        | succ k =>
          simp only [List.nil_append, List.replicate_succ]
          exact ⟨[], k + 2, by simp [List.replicate_succ], by simp⟩
      | cons n ns' =>
        have hn : n ≠ dotdotB := (hns n (by simp)).2.2.1
        simp only [List.cons_append]
        rw [if_neg (by simp [hn])]
        exact ⟨ns', k, rfl, fun x hx => hns x (List.mem_cons_of_mem _ hx)⟩
    · rw [if_neg h2]
      have hn : Normal c := ⟨fun e => h1 (Or.inl e), fun e => h1 (Or.inr e), h2, hc⟩
      refine ⟨c :: ns, k, rfl, ?_⟩
      intro x hx
      simp only [List.mem_cons] at hx
      rcases hx with rfl | hx
      · exact hn
      · exact hns x hx

theorem relSt_comps {st cs : List Bytes} (hst : RelSt st) (hcs : ∀ c ∈ cs, SEP ∉ c) :
    RelSt (cleanComps false st cs) := by
  induction cs generalizing st with
  | nil => exact hst
  | cons c cs ih =>
    simp only [cleanComps, List.foldl_cons] at ih ⊢
    exact ih (relSt_step hst (hcs c (by simp))) (fun x hx => hcs x (List.mem_cons_of_mem _ hx))

/-- stack of a rooted Clean: ordinary elements only -/
theorem rootSt_step {st : List Bytes} {c : Bytes} (hst : ∀ x ∈ st, Normal x) (hc : SEP ∉ c) :
    ∀ x ∈ cleanStep true st c, Normal x := by
  unfold cleanStep
  by_cases h1 : c = [] ∨ c = dotB
  · rw [if_pos h1]; exact hst
  · rw [if_neg h1]
    by_cases h2 : c = dotdotB
    · rw [if_pos h2]
      cases st with
      | nil => simp
      | cons t rest =>
        simp only [Bool.true_eq_false, false_and, if_false]
        exact fun x hx => hst x (List.mem_cons_of_mem _ hx)
    · rw [if_neg h2]
      intro x hx
      simp only [List.mem_cons] at hx
      rcases hx with rfl | hx
      · exact ⟨fun e => h1 (Or.inl e), fun e => h1 (Or.inr e), h2, hc⟩
      · exact hst x hx

theorem rootSt_comps {st cs : List Bytes} (hst : ∀ x ∈ st, Normal x) (hcs : ∀ c ∈ cs, SEP ∉ c) :
    ∀ x ∈ cleanComps true st cs, Normal x := by
  induction cs generalizing st with
  | nil => exact hst
  | cons c cs ih =>
    simp only [cleanComps, List.foldl_cons] at ih ⊢
    exact ih (rootSt_step hst (hcs c (by simp))) (fun x hx => hcs x (List.mem_cons_of_mem _ hx))

/-! ### shape of cleanPath -/

/-- The output elements of a relative Clean: `k` times ".." and then ordinary elements. -/
theorem clean_rel_out (p : Bytes) :
    ∃ (k : Nat) (ns : List Bytes), (∀ c ∈ ns, Normal c) ∧
      (cleanComps false [] (splitSep p)).reverse = List.replicate k dotdotB ++ ns := by
  obtain ⟨ns, k, h, hns⟩ := relSt_comps relSt_nil (fun c hc => splitSep_nosep (s := p) hc)
  refine ⟨k, ns.reverse, fun c hc => hns c (List.mem_reverse.mp hc), ?_⟩
  rw [h]; simp

theorem cleanPath_nil : cleanPath [] = dotB := rfl

theorem cleanPath_rooted {p : Bytes} (h : p.head? = some SEP) :
    cleanPath p = SEP :: joinSep (cleanComps true [] (splitSep p)).reverse := by
  have : p ≠ [] := by intro e; simp [e] at h
  simp [cleanPath, this, h]

theorem cleanPath_rel {p : Bytes} (hne : p ≠ []) (h : p.head? ≠ some SEP) :
    cleanPath p = if (cleanComps false [] (splitSep p)).reverse = [] then dotB
      else joinSep (cleanComps false [] (splitSep p)).reverse := by
  simp [cleanPath, hne, h]

theorem normal_nosep_of_mem {l : List Bytes} (h : ∀ c ∈ l, Normal c) : ∀ c ∈ l, SEP ∉ c :=
  fun c hc => (h c hc).2.2.2

theorem dotdot_nosep : SEP ∉ dotdotB := by decide

/-- **Shape of a relative Clean.**  For a path that does not start with '/', the elements of
`cleanPath p` are either just `["."]`, or `k` times ".." followed by ordinary elements. -/
theorem clean_rel_shape (p : Bytes) (h : p.head? ≠ some SEP) :
    ∃ (k : Nat) (ns : List Bytes), (∀ c ∈ ns, Normal c) ∧
      ((k = 0 ∧ ns = [] ∧ cleanPath p = dotB) ∨
       (List.replicate k dotdotB ++ ns ≠ [] ∧ cleanPath p = joinSep (List.replicate k dotdotB ++ ns) ∧
        splitSep (cleanPath p) = List.replicate k dotdotB ++ ns)) := by
  by_cases hne : p = []
  · subst hne
    exact ⟨0, [], by simp, Or.inl ⟨rfl, rfl, rfl⟩⟩
  · obtain ⟨k, ns, hns, hout⟩ := clean_rel_out p
    refine ⟨k, ns, hns, ?_⟩
    rw [cleanPath_rel hne h, hout]
    by_cases he : List.replicate k dotdotB ++ ns = []
    · left
      rw [if_pos he]
      simp only [List.append_eq_nil_iff, List.replicate_eq_nil_iff] at he
      exact ⟨he.1, he.2, rfl⟩
    · right
      rw [if_neg he]
      refine ⟨he, rfl, splitSep_joinSep he ?_⟩
      intro c hc
      simp only [List.mem_append, List.mem_replicate] at hc
      rcases hc with ⟨_, rfl⟩ | hc
      · exact dotdot_nosep
      · exact (hns c hc).2.2.2

/-! ### "climbs out", without Clean -/

/-- Follow the elements one by one, `d` levels below the starting directory: does the walk step
above the start at some point?  (empty and "." elements stay, ".." goes up, anything else goes down) -/
def climbsFrom : Nat → List Bytes → Bool
  | _, [] => false
  | d, c :: cs =>
    if c = [] ∨ c = dotB then climbsFrom d cs
    else if c = dotdotB then
      (match d with
       | 0 => true
       | d' + 1 => climbsFrom d' cs)
    else climbsFrom (d + 1) cs

/-- the relative name climbs out of the directory it is resolved in. -/
def climbsOut (name : Bytes) : Bool := climbsFrom 0 (splitSep name)

def dotdotSlash : Bytes := [DOT, DOT, SEP]

theorem cleanComps_cons (r : Bool) (st : List Bytes) (c : Bytes) (cs : List Bytes) :
    cleanComps r st (c :: cs) = cleanComps r (cleanStep r st c) cs := rfl

theorem cleanStep_skip (r : Bool) (st : List Bytes) {c : Bytes} (h : c = [] ∨ c = dotB) :
    cleanStep r st c = st := by simp [cleanStep, h]

theorem cleanStep_dd_nil : cleanStep false [] dotdotB = [dotdotB] := by decide

theorem cleanStep_dd_dd (st : List Bytes) :
    cleanStep false (dotdotB :: st) dotdotB = dotdotB :: dotdotB :: st := by
  have h1 : ¬ (dotdotB = [] ∨ dotdotB = dotB) := by decide
  simp [cleanStep, h1]

theorem cleanStep_dd_pop {top : Bytes} (st : List Bytes) (h : top ≠ dotdotB) :
    cleanStep false (top :: st) dotdotB = st := by
  have h1 : ¬ (dotdotB = [] ∨ dotdotB = dotB) := by decide
  simp [cleanStep, h1, h]

theorem climbsFrom_skip (d : Nat) {c : Bytes} (cs : List Bytes) (h : c = [] ∨ c = dotB) :
    climbsFrom d (c :: cs) = climbsFrom d cs := by simp [climbsFrom, h]

theorem climbsFrom_dd_zero (cs : List Bytes) : climbsFrom 0 (dotdotB :: cs) = true := by
  have h1 : ¬ (dotdotB = [] ∨ dotdotB = dotB) := by decide
  simp [climbsFrom, h1]

theorem climbsFrom_dd_succ (d : Nat) (cs : List Bytes) :
    climbsFrom (d + 1) (dotdotB :: cs) = climbsFrom d cs := by
  have h1 : ¬ (dotdotB = [] ∨ dotdotB = dotB) := by decide
  simp [climbsFrom, h1]

theorem climbsFrom_normal (d : Nat) {c : Bytes} (cs : List Bytes) (h : Normal c) :
    climbsFrom d (c :: cs) = climbsFrom (d + 1) cs := by
  simp [climbsFrom, h.1, h.2.1, h.2.2.1]

theorem climbs_stack (cs : List Bytes) (hcs : ∀ c ∈ cs, SEP ∉ c) :
    ∀ (ns : List Bytes) (k : Nat), (∀ c ∈ ns, Normal c) →
      ∃ (ns' : List Bytes) (k' : Nat),
        cleanComps false (ns ++ List.replicate k dotdotB) cs = ns' ++ List.replicate k' dotdotB ∧
        (∀ c ∈ ns', Normal c) ∧ (0 < k' ↔ 0 < k ∨ climbsFrom ns.length cs = true) := by
  induction cs with
  | nil =>
    intro ns k hns
    exact ⟨ns, k, rfl, hns, by simp [climbsFrom]⟩
  | cons c cs ih =>
    intro ns k hns
    have hcs' : ∀ x ∈ cs, SEP ∉ x := fun x hx => hcs x (List.mem_cons_of_mem _ hx)
    rw [cleanComps_cons]
    by_cases h1 : c = [] ∨ c = dotB
    · rw [cleanStep_skip _ _ h1, climbsFrom_skip _ _ h1]
      exact ih hcs' ns k hns
    · by_cases h2 : c = dotdotB
      · subst h2
        cases ns with
        | nil =>
          have hst : cleanStep false ([] ++ List.replicate k dotdotB) dotdotB =
              [] ++ List.replicate (k + 1) dotdotB := by
            cases k with
            | zero => exact cleanStep_dd_nil
            | succ k =>
              simp only [List.nil_append, List.replicate_succ]
              exact cleanStep_dd_dd _
          rw [hst]
          obtain ⟨ns', k', e, hn', hk⟩ := ih hcs' [] (k + 1) (by simp)
          refine ⟨ns', k', e, hn', ?_⟩
          rw [hk, List.length_nil, climbsFrom_dd_zero]
          simp
        | cons n ns'' =>
          have hn : n ≠ dotdotB := (hns n (by simp)).2.2.1
          rw [List.cons_append, cleanStep_dd_pop _ hn, List.length_cons, climbsFrom_dd_succ]
          exact ih hcs' ns'' k (fun x hx => hns x (List.mem_cons_of_mem _ hx))
      · have hn : Normal c := ⟨fun e => h1 (Or.inl e), fun e => h1 (Or.inr e), h2, hcs c (by simp)⟩
        rw [cleanStep_normal false _ hn, climbsFrom_normal _ _ hn]
        have := ih hcs' (c :: ns) k (by
          intro x hx
          simp only [List.mem_cons] at hx
          rcases hx with rfl | hx
          · exact hn
          · exact hns x hx)
        simpa using this

theorem joinSep_normal_head {n : Bytes} {rest : List Bytes} (hn : Normal n) :
    ∃ b bs, n = b :: bs ∧ b ≠ SEP ∧ (joinSep (n :: rest)).head? = some b := by
  have hne : n ≠ [] := hn.1
  cases n with
  | nil => exact absurd rfl hne
  | cons b bs =>
    refine ⟨b, bs, rfl, ?_, ?_⟩
    · intro e; apply hn.2.2.2; rw [e]; simp
    · cases rest with
      | nil => rfl
      | cons d ds => rw [joinSep_cons_cons]; rfl

/-- a non-empty join of ordinary elements is not ".", not "..", does not start with "../" or "/". -/
theorem joinSep_normal_plain {ns : List Bytes} (hne : ns ≠ []) (hns : ∀ c ∈ ns, Normal c) :
    joinSep ns ≠ dotB ∧ joinSep ns ≠ dotdotB ∧ ¬ dotdotSlash <+: joinSep ns ∧
      (joinSep ns).head? ≠ some SEP ∧ joinSep ns ≠ [] := by
  have hsp := splitSep_joinSep hne (normal_nosep_of_mem hns)
  cases ns with
  | nil => exact absurd rfl hne
  | cons n rest =>
    have hn := hns n (by simp)
    obtain ⟨b, bs, _, hb, hhead⟩ := joinSep_normal_head (rest := rest) hn
    refine ⟨?_, ?_, ?_, ?_, ?_⟩
    · intro e
      rw [e] at hsp
      have : splitSep dotB = [dotB] := by decide
      rw [this] at hsp
      injection hsp with h _
      exact hn.2.1 h.symm
    · intro e
      rw [e] at hsp
      have : splitSep dotdotB = [dotdotB] := by decide
      rw [this] at hsp
      injection hsp with h _
      exact hn.2.2.1 h.symm
    · rintro ⟨t, ht⟩
      have e : dotdotSlash ++ t = dotdotB ++ SEP :: t := rfl
      rw [← ht, e] at hsp
      simp only [splitSep] at hsp
      rw [splitAux_append_sep dotdot_nosep] at hsp
      injection hsp with h _
      exact hn.2.2.1 h.symm
    · rw [hhead]; simpa using hb
    · intro e; rw [e] at hhead; cases hhead

/-- **Clean vs. the walk.** For a name that does not start with '/', `Clean(name)` is ".." or starts
with "../" exactly when following the name's elements steps above the starting directory. -/
theorem clean_climbs_iff (p : Bytes) (h : p.head? ≠ some SEP) :
    (cleanPath p = dotdotB ∨ dotdotSlash <+: cleanPath p) ↔ climbsOut p = true := by
  by_cases hne : p = []
  · subst hne
    have h1 : cleanPath [] = dotB := rfl
    rw [h1]
    constructor
    · rintro (h | h)
      · exact absurd h (by decide)
      · exact absurd h (by decide)
    · intro h; exact absurd h (by decide)
  · obtain ⟨ns', k', hst, hn', hk⟩ :=
      climbs_stack (splitSep p) (fun c hc => splitSep_nosep (s := p) hc) [] 0 (by simp)
    simp only [List.replicate_zero, List.append_nil, List.length_nil, Nat.lt_irrefl, false_or] at hst hk
    unfold climbsOut
    rw [← hk, cleanPath_rel hne h, hst]
    simp only [List.reverse_append, List.reverse_replicate]
    cases k' with
    | zero =>
      simp only [List.replicate_zero, List.nil_append, Nat.lt_irrefl, iff_false, not_or]
      have hnr : ∀ c ∈ ns'.reverse, Normal c := fun c hc => hn' c (List.mem_reverse.mp hc)
      by_cases he : ns'.reverse = []
      · rw [if_pos he]; exact ⟨by decide, by decide⟩
      · rw [if_neg he]
        obtain ⟨_, a2, a3, _, _⟩ := joinSep_normal_plain he hnr
        exact ⟨a2, a3⟩
    | succ k =>
      simp only [Nat.zero_lt_succ, iff_true]
      rw [if_neg (by simp [List.replicate_succ])]
      rw [List.replicate_succ, List.cons_append]
      cases hrest : List.replicate k dotdotB ++ ns'.reverse with
      | nil => left; rfl
      | cons d ds =>
        right
        rw [joinSep_cons_cons]
        exact ⟨joinSep (d :: ds), rfl⟩

/-! ### paths as strings -/

/-- the absolute path string of a component list ("/" for the root). -/
def pathStr (p : Path) : Bytes := SEP :: joinSep p

theorem joinSep_append {a b : List Bytes} (ha : a ≠ []) (hb : b ≠ []) :
    joinSep (a ++ b) = joinSep a ++ SEP :: joinSep b := by
  induction a with
  | nil => exact absurd rfl ha
  | cons x xs ih =>
    cases xs with
    | nil =>
      simp only [List.singleton_append]
      rw [joinSep_cons_of_ne_nil x hb]; rfl
    | cons y ys =>
      rw [List.cons_append, joinSep_cons_of_ne_nil x (by simp), ih (by simp), joinSep_cons_cons]
      simp [List.append_assoc]

/-- component-wise "strictly beneath `dir`" is string-wise "starts with dir + '/'". -/
theorem pathStr_prefix_of_beneath {dir q : Path} (h : dir <+: q) (hne : q ≠ dir) (hd : dir ≠ []) :
    pathStr dir ++ [SEP] <+: pathStr q := by
  obtain ⟨t, rfl⟩ := h
  have ht : t ≠ [] := by intro e; apply hne; simp [e]
  unfold pathStr
  rw [joinSep_append hd ht]
  exact ⟨joinSep t, by simp [List.append_assoc]⟩

theorem splitSep_joinSep_append {dir : List Bytes} (hd : ∀ c ∈ dir, SEP ∉ c) (hne : dir ≠ []) (fp : Bytes) :
    splitSep (joinSep dir ++ SEP :: fp) = dir ++ splitSep fp := by
  induction dir with
  | nil => exact absurd rfl hne
  | cons x xs ih =>
    cases xs with
    | nil =>
      simp only [joinSep, splitSep, List.singleton_append]
      rw [splitAux_append_sep (hd x (by simp))]
    | cons y ys =>
      rw [joinSep_cons_cons, List.append_assoc, List.cons_append]
      have := ih (fun c hc => hd c (List.mem_cons_of_mem _ hc)) (by simp)
      simp only [splitSep] at this ⊢
      rw [splitAux_append_sep (hd x (by simp)), this]
      rfl

/-- `joinPath dir fp` is `filepath.Join(dir, fp)` = `Clean(dir + "/" + fp)` for a normalised `dir`. -/
theorem joinPath_eq_clean {dir : Path} (hd : ∀ c ∈ dir, Normal c) (fp : Bytes) :
    cleanPath (pathStr dir ++ SEP :: fp) = pathStr (joinPath dir fp) := by
  have hroot : (pathStr dir ++ SEP :: fp).head? = some SEP := rfl
  rw [cleanPath_rooted hroot]
  unfold pathStr joinPath
  congr 2
  have hskip : cleanStep true [] [] = [] := by simp [cleanStep]
  by_cases hne : dir = []
  · subst hne
    have hsplit : splitSep (SEP :: joinSep [] ++ SEP :: fp) = [] :: [] :: splitSep fp := by
      simp [splitSep, joinSep, splitAux_cons_sep]
    rw [hsplit, cleanComps_cons, hskip, cleanComps_cons, hskip]
    rfl
  · have hsplit : splitSep (SEP :: joinSep dir ++ SEP :: fp) = [] :: (dir ++ splitSep fp) := by
      have := splitSep_joinSep_append (normal_nosep_of_mem hd) hne fp
      simp only [splitSep, List.cons_append, splitAux_cons_sep] at this ⊢
      rw [this]
    rw [hsplit, cleanComps_cons, hskip]
    simp only [cleanComps, List.foldl_append]
    have := cleanComps_normal true [] hd
    simp only [cleanComps, List.append_nil] at this
    rw [this]

end GIV.Fsx
