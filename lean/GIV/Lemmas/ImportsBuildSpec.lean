/-
  C19 — the specification side, written from the property statement, not from build.go:
  terms, OR-of-AND lines, evaluation (android also satisfies linux, malformed ⇒ false,
  "*" ⇒ every tag but "ignore" is both true and false), lines, the leading block.
  Shared with the model: Go's notions of white space (`trimSpace`, `fields`), of
  "letter or digit" (`tagRunesOK`) and the splitting primitives `splitOn`.
-/
import GIV.Model.Build

namespace GIV.C19
open GIV GIV.Build

/-! The property's constants, spelled out (they are *not* taken from the generated facts). -/
def linux : Bytes := [108, 105, 110, 117, 120]
def android : Bytes := [97, 110, 100, 114, 111, 105, 100]
def star : Bytes := [42]
def ignore : Bytes := [105, 103, 110, 111, 114, 101]
def plusBuildWord : Bytes := [43, 98, 117, 105, 108, 100]
def slashes : Bytes := [47, 47]
def testWord : Bytes := [116, 101, 115, 116]

/-- A term of a +build option. -/
inductive Term
  | tag (t : Bytes)
  | not (t : Bytes)
  | bad
deriving DecidableEq, Repr

/-- A +build line: an OR of AND-lists. -/
abbrev Line := List (List Term)

/-- a well-formed tag name: non-empty, only letters, digits, '_' and '.'. -/
def validName (U : Nat → Bool) (s : Bytes) : Bool := !s.isEmpty && tagRunesOK U s 0

/-- `tag`, `!tag`; everything else (empty, `!`, `!!…`, a bad rune) is malformed. -/
def parseTerm (U : Nat → Bool) : Bytes → Term
  | 33 :: rest => if validName U rest then .not rest else .bad
  | s => if validName U s then .tag s else .bad

/-- an option: comma-separated terms. -/
def parseOption (U : Nat → Bool) (s : Bytes) : List Term := (splitOn 44 s).map (parseTerm U)

/-- the arguments of a +build line: space-separated options. -/
def parseLine (U : Nat → Bool) (args : List Bytes) : Line := args.map (parseOption U)

/-- `tags` selects `t`; android also selects linux. -/
def sel (tags : Tags) (t : Bytes) : Bool := tags t || (decide (t = linux) && tags android)

def evalTerm (tags : Tags) : Term → Bool
  | .bad => false
  | .tag t => if tags star && t ≠ ignore then true else sel tags t
  | .not t => if tags star && t ≠ ignore then true else !sel tags t

def evalLine (tags : Tags) (l : Line) : Bool := l.any (fun opt => opt.all (evalTerm tags))

/-! ### lines and the leading block -/

def dropLastEmpty (ls : List Bytes) : List Bytes :=
  if ls.getLast? = some [] then ls.dropLast else ls

/-- the lines of a file: split at '\n'; nothing follows a final newline. -/
def linesOf (c : Bytes) : List Bytes := dropLastEmpty (splitOn 10 c)

def isBlank (l : Bytes) : Bool := (trimSpace l).isEmpty
def isComment (l : Bytes) : Bool := hasPrefix slashes (trimSpace l)

/-- The leading block: the longest prefix made of blank lines and // comment lines that ends in a
blank line ("the block that must be followed by a blank line"). -/
def leadingBlock : List Bytes → List Bytes
  | [] => []
  | l :: ls =>
    if isBlank l then l :: leadingBlock ls
    else if isComment l then
      match leadingBlock ls with
      | [] => []
      | b => l :: b
    else []

/-- the text of a // comment line: what follows the slashes, trimmed. -/
def commentText (l : Bytes) : Bytes := trimSpace ((trimSpace l).drop 2)

/-- `some args` when `l` is a `// +build args…` line: a // comment whose text starts with '+' and
whose first word is `+build` (the first condition is implied by the second for trimmed text; it is
kept because this is how such lines are recognised). -/
def plusBuildArgs (l : Bytes) : Option (List Bytes) :=
  if isComment l ∧ (commentText l).head? = some 43 then
    match fields (commentText l) with
    | w :: args => if w = plusBuildWord then some args else none
    | [] => none
  else none

/-- the verdict of a line of the block: +build lines must be satisfied, other lines do not matter. -/
def lineSatisfied (U : Nat → Bool) (tags : Tags) (l : Bytes) : Bool :=
  match plusBuildArgs l with
  | some args => evalLine tags (parseLine U args)
  | none => true

/-- ShouldBuild per the statement. -/
def shouldBuildSpec (U : Nat → Bool) (c : Bytes) (tags : Tags) : Bool :=
  (leadingBlock (linesOf c)).all (lineSatisfied U tags)

/-! ### MatchFile per the statement, over the model's split of the name -/

/-- the suffix shapes `_GOOS_GOARCH`, `_GOOS`, `_GOARCH` (segments reversed, `_test` already dropped)
with a known token that `tags` does not select. -/
def suffixUnselected (tags : Tags) (rl : List Bytes) : Prop :=
  (∃ a o rest, rl = a :: o :: rest ∧ knownOS o = true ∧ knownArch a = true ∧ (sel tags o = false ∨ sel tags a = false)) ∨
  (∃ t rest, rl = t :: rest ∧ (knownOS t = true ∨ knownArch t = true) ∧ sel tags t = false)

end GIV.C19
