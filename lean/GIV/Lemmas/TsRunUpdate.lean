/-
  GIV.Lemmas.TsRunUpdate — lemmas about GIV.Model.ScriptUpdate used by GIV.Props.C16.
-/
import GIV.Model.ScriptUpdate

namespace GIV.TsRun.Update
open GIV GIV.Txtar

/-- the shape of doCmdCmp's update branch -/
structure CmpFacts : Prop where
  flagAndNotEnv : Gen.TsRunUpdate.updateCondFlagAndNotEnv = true
  afterNegAndEq : Gen.TsRunUpdate.updateAfterNegAndEq = true
  keyIsAbsName2 : Gen.TsRunUpdate.updateKeyIsAbsName2 = true
  storesText1 : Gen.TsRunUpdate.updateStoresText1 = true

/-- the shape of applyScriptUpdates -/
structure ApplyFacts : Prop where
  noopWhenEmpty : Gen.TsRunUpdate.applyNoopWhenEmpty = true
  quotesWhenNeeded : Gen.TsRunUpdate.applyQuotesWhenNeeded = true
  fatalCaught : Gen.TsRunUpdate.updateFatalCaught = true
  writesFormat : Gen.TsRunUpdate.applyWritesFormat = true

theorem doCmp_eq (F : CmpFacts) (i : CmpIn) :
    doCmp i =
      if i.neg then (if i.text1 = i.text2 then .fatal else .ok)
      else if i.text1 = i.text2 then .ok
      else if i.updateScripts && !i.env then
        (match i.entry with | some n => .recorded n i.text1 | none => .fatal)
      else .fatal := by
  simp only [doCmp, updateApplies, F.flagAndNotEnv, F.afterNegAndEq, F.keyIsAbsName2, F.storesText1, if_true, beq_iff_eq]
  cases i.neg <;> simp
  by_cases h : i.text1 = i.text2 <;> simp [h]
  cases i.updateScripts <;> cases i.env <;> simp <;> cases i.entry <;> simp

theorem doCmp_recorded_iff (F : CmpFacts) (i : CmpIn) (n c : Bytes) :
    doCmp i = .recorded n c ↔
      (i.updateScripts = true ∧ i.env = false ∧ i.neg = false ∧ i.text1 ≠ i.text2 ∧
        i.entry = some n ∧ c = i.text1) := by
  rw [doCmp_eq F]
  cases hneg : i.neg <;> simp
  · by_cases heq : i.text1 = i.text2 <;> simp [heq]
    cases hu : i.updateScripts <;> cases he : i.env <;> simp
    cases hentry : i.entry <;> simp
    intro _
    exact eq_comm
  · by_cases heq : i.text1 = i.text2 <;> simp [heq]

theorem lookupU_record_self (u : Updates) (n c : Bytes) : lookupU (record u n c) n = some c := by
  simp [record, lookupU]

theorem lookupU_filter_ne (u : Updates) (n m : Bytes) (h : m ≠ n) :
    lookupU (u.filter (fun e => e.1 ≠ n)) m = lookupU u m := by
  induction u with
  | nil => rfl
  | cons e u ih =>
    obtain ⟨k, v⟩ := e
    rw [List.filter_cons]
    by_cases hk : k = n
    · subst hk
      have hkm : ¬ k = m := fun h' => h h'.symm
      simp only [ne_eq, not_true_eq_false, decide_false, Bool.false_eq_true, if_false, lookupU, hkm]
      exact ih
    · simp only [ne_eq, hk, not_false_eq_true, decide_true, if_true, lookupU]
      by_cases hm : k = m
      · simp [hm]
      · simp only [hm, if_false]; exact ih

theorem lookupU_record_other (u : Updates) (n c m : Bytes) (h : m ≠ n) :
    lookupU (record u n c) m = lookupU u m := by
  have hnm : ¬ n = m := fun h' => h h'.symm
  simp only [record, lookupU, hnm, if_false]
  exact lookupU_filter_ne u n m h

theorem updData_ok (F : ApplyFacts) {c d : Bytes} (h : updData c = .ok d) :
    (needsQuote c = some false ∧ d = c) ∨ (needsQuote c = some true ∧ quote c = .ok d) := by
  unfold updData at h
  split at h
  · simp at h
  · rename_i nq hnq
    simp only [F.quotesWhenNeeded, Bool.and_true] at h
    cases nq with
    | false => simp at h; left; exact ⟨hnq, h.symm⟩
    | true =>
      simp at h
      split at h
      · rename_i q hq; simp at h; right; exact ⟨hnq, by rw [hq, h]⟩
      · simp at h

theorem updData_quote_error (F : ApplyFacts) {c : Bytes} (h : updData c = .error .quote) :
    needsQuote c = some true ∧ ∃ e, quote c = .error e := by
  unfold updData at h
  split at h
  · simp at h
  · rename_i nq hnq
    simp only [F.quotesWhenNeeded, Bool.and_true] at h
    cases nq with
    | false => simp at h
    | true =>
      simp at h
      split at h
      · simp at h
      · rename_i e he; exact ⟨hnq, e, he⟩

theorem applyFile_ok {u : Updates} {f f' : File} (h : applyFile u f = .ok f') :
    f'.name = f.name ∧ (lookupU u f.name = none → f' = f) ∧
      (∀ c, lookupU u f.name = some c → updData c = .ok f'.data) := by
  unfold applyFile at h
  split at h
  · rename_i hn
    simp at h
    subst h
    simp [hn]
  · rename_i c hc
    split at h
    · rename_i d hd
      simp at h
      subst h
      simp [hc, hd]
    · simp at h

theorem applyFiles_ok (u : Updates) :
    ∀ (fs fs' : List File), applyFiles u fs = .ok fs' →
      fs'.length = fs.length ∧
      ∀ (i : Nat) (f : File), fs[i]? = some f → ∃ f', fs'[i]? = some f' ∧ applyFile u f = .ok f' := by
  intro fs
  induction fs with
  | nil => intro fs' h; simp [applyFiles] at h; subst h; simp
  | cons f fs ih =>
    intro fs' h
    simp only [applyFiles] at h
    split at h
    · simp at h
    · rename_i f1 hf1
      split at h
      · simp at h
      · rename_i fs1 hfs1
        simp at h
        subst h
        obtain ⟨hl, hi⟩ := ih fs1 hfs1
        refine ⟨by simp [hl], ?_⟩
        intro i g hg
        cases i with
        | zero => simp at hg; subst hg; exact ⟨f1, by simp, hf1⟩
        | succ i => simp at hg; simpa using hi i g hg

theorem applyFiles_error (u : Updates) :
    ∀ (fs : List File) (e : ApplyErr), applyFiles u fs = .error e → ∃ f ∈ fs, applyFile u f = .error e := by
  intro fs
  induction fs with
  | nil => intro e h; simp [applyFiles] at h
  | cons f fs ih =>
    intro e h
    simp only [applyFiles] at h
    split at h
    · rename_i e1 he1; simp at h; subst h; exact ⟨f, by simp, he1⟩
    · split at h
      · rename_i e2 he2; simp at h; subst h
        obtain ⟨g, hg, hge⟩ := ih _ he2
        exact ⟨g, by simp [hg], hge⟩
      · simp at h

theorem applyFile_error {u : Updates} {f : File} {e : ApplyErr} (h : applyFile u f = .error e) :
    ∃ c, lookupU u f.name = some c ∧ updData c = .error e := by
  unfold applyFile at h
  split at h
  · simp at h
  · rename_i c hc
    split at h
    · simp at h
    · rename_i e' he'; simp at h; subst h; exact ⟨c, hc, he'⟩

/-- If every file is unaffected nothing changes. -/
theorem applyFiles_no_update (u : Updates) :
    ∀ (fs : List File), (∀ f ∈ fs, lookupU u f.name = none) → applyFiles u fs = .ok fs := by
  intro fs
  induction fs with
  | nil => intro _; rfl
  | cons f fs ih =>
    intro h
    have hf : applyFile u f = .ok f := by simp [applyFile, h f (by simp)]
    simp [applyFiles, hf, ih (fun g hg => h g (by simp [hg]))]

theorem applyFiles_mem (u : Updates) :
    ∀ (fs fs' : List File), applyFiles u fs = .ok fs' → ∀ f' ∈ fs', ∃ f ∈ fs, applyFile u f = .ok f' := by
  intro fs
  induction fs with
  | nil => intro fs' h; simp [applyFiles] at h; subst h; simp
  | cons f fs ih =>
    intro fs' h
    simp only [applyFiles] at h
    split at h
    · simp at h
    · rename_i f1 hf1
      split at h
      · simp at h
      · rename_i fs1 hfs1
        simp at h
        subst h
        intro g hg
        simp at hg
        rcases hg with hg | hg
        · subst hg; exact ⟨f, by simp, hf1⟩
        · obtain ⟨f0, hf0, hf0'⟩ := ih fs1 hfs1 g hg
          exact ⟨f0, by simp [hf0], hf0'⟩

theorem applyFiles_names (u : Updates) :
    ∀ (fs fs' : List File), applyFiles u fs = .ok fs' → fs'.map (·.name) = fs.map (·.name) := by
  intro fs
  induction fs with
  | nil => intro fs' h; simp [applyFiles] at h; subst h; rfl
  | cons f fs ih =>
    intro fs' h
    simp only [applyFiles] at h
    split at h
    · simp at h
    · rename_i f1 hf1
      split at h
      · simp at h
      · rename_i fs1 hfs1
        simp at h
        subst h
        simp [ih fs1 hfs1, (applyFile_ok hf1).1]

theorem applyUpdates_ok {a a' : Archive} {u : Updates} (h : applyUpdates a u = .ok a') :
    a'.comment = a.comment ∧ applyFiles u a.files = .ok a'.files := by
  unfold applyUpdates at h
  split at h
  · rename_i fs hfs; simp at h; subst h; exact ⟨rfl, hfs⟩
  · simp at h

theorem applyUpdates_error {a : Archive} {u : Updates} {e : ApplyErr} (h : applyUpdates a u = .error e) :
    applyFiles u a.files = .error e := by
  unfold applyUpdates at h
  split at h
  · simp at h
  · rename_i e' he'; simp at h; subst h; exact he'

end GIV.TsRun.Update
