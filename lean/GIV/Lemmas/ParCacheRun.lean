/-
  GIV.Lemmas.ParCacheRun — executions as event lists (trace-level statements, non-vacuity examples).
-/
import GIV.Lemmas.ParCacheInv
namespace GIV.ParCache

/-- an execution: the list of (task, event) pairs performed from the initial state, oldest first -/
inductive Exec (c : Cfg) : List (Nat × Event) → State → Prop
  | nil : Exec c [] (init0 c)
  | snoc {tr s s' t e} : Exec c tr s → step c s t e = some s' → Exec c (tr ++ [(t, e)]) s'

theorem Exec.reach {c : Cfg} {tr : List (Nat × Event)} {s : State} (h : Exec c tr s) : Reach c s := by
  induction h with
  | nil => exact Reach.init
  | snoc _ hs ih => exact Reach.step ih hs

theorem Reach.exec {c : Cfg} {s : State} (h : Reach c s) : ∃ tr, Exec c tr s := by
  induction h with
  | init => exact ⟨[], Exec.nil⟩
  | step _ hs ih => obtain ⟨tr, h⟩ := ih; exact ⟨_, Exec.snoc h hs⟩

/-- the ghost counter `fcalls k` is the number of `f-enter k` events of the execution -/
theorem exec_fcalls {c : Cfg} {tr : List (Nat × Event)} {s : State} (h : Exec c tr s) (k : Nat) :
    (s.key k).fcalls = tr.countP (fun te => te.2 == Event.fEnter k) := by
  induction h with
  | nil => simp [init0, K0]
  | @snoc tr s s' t e _ hs ih =>
    rw [List.countP_append, ← ih]
    have := step_sound hs
    cases this <;> simp [State.setPc, State.setKey]
    all_goals (split <;> first | (simp_all; done) | (rename_i hne; simp_all; exact fun h => hne h.symm))

def runFrom (c : Cfg) : State → List (Nat × Event) → Option State
  | s, [] => some s
  | s, (t, e) :: rest =>
    match step c s t e with
    | some s' => runFrom c s' rest
    | none => none

theorem runFrom_reach {c : Cfg} : ∀ {evs : List (Nat × Event)} {s s' : State}, Reach c s → runFrom c s evs = some s' → Reach c s'
  | [], s, s', hr, h => by simp only [runFrom, Option.some.injEq] at h; exact h ▸ hr
  | (t, e) :: rest, s, s', hr, h => by
    simp only [runFrom] at h
    split at h
    · rename_i s1 hs; exact runFrom_reach (Reach.step hr hs) h
    · simp at h

theorem reach_of_run (c : Cfg) (evs : List (Nat × Event)) (P : State → Bool)
    (h : (match runFrom c (init0 c) evs with | some s => P s | none => false) = true) :
    ∃ s, Reach c s ∧ P s = true := by
  split at h
  · rename_i s hs; exact ⟨s, runFrom_reach Reach.init hs, h⟩
  · simp at h

/-- two goroutines: `Do(0)` and `Do(0); Get(0)` -/
def exCfg : Cfg := { prog := fun t => if t = 0 then [.doK 0] else if t = 1 then [.doK 0, .getK 0] else [] }

/-- a complete trace of the instrumented package (`cache d0|d0;g0`, seed 5) with the internal write step -/
def exTrace : List (Nat × Event) :=
  [(0, .start), (0, .doCall 0), (1, .start), (1, .doCall 0), (1, .mapLoad 0 false), (0, .mapLoad 0 false),
   (0, .mapLoadOrStore 0 false), (0, .atomicLoad 0 0), (1, .mapLoadOrStore 0 true), (0, .lock 0), (0, .atomicLoad 0 0),
   (0, .fEnter 0), (1, .atomicLoad 0 0), (0, .fExit 0 (some ⟨0, 1⟩)), (0, .write 0), (0, .atomicStore 0 1), (0, .unlock 0),
   (0, .doReturn 0 (some ⟨0, 1⟩)), (0, .exit), (1, .lock 0), (1, .atomicLoad 0 1), (1, .unlock 0),
   (1, .doReturn 0 (some ⟨0, 1⟩)), (1, .getCall 0), (1, .mapLoad 0 true), (1, .atomicLoad 0 1),
   (1, .getReturn 0 (some ⟨0, 1⟩)), (1, .exit)]

/-- a nil key: goroutine 0 runs `Do(0); Do(0)` with an f that returns nil, goroutine 1 runs `Get(0)` -/
def exNilCfg : Cfg :=
  { prog := fun t => if t = 0 then [.doK 0, .doK 0] else if t = 1 then [.getK 0] else [], nilKey := fun k => k == 0 }

/-- a complete trace of the instrumented package (`cache n0;n0|g0`, goroutine 0 first) with the internal write step -/
def exNilTrace : List (Nat × Event) :=
  [(0, .start), (0, .doCall 0), (0, .mapLoad 0 false), (0, .mapLoadOrStore 0 false), (0, .atomicLoad 0 0), (0, .lock 0),
   (0, .atomicLoad 0 0), (0, .fEnter 0), (0, .fExit 0 none), (0, .write 0), (0, .atomicStore 0 1), (0, .unlock 0),
   (0, .doReturn 0 none), (0, .doCall 0), (0, .mapLoad 0 true), (0, .atomicLoad 0 1), (0, .doReturn 0 none), (0, .exit),
   (1, .start), (1, .getCall 0), (1, .mapLoad 0 true), (1, .atomicLoad 0 1), (1, .getReturn 0 none), (1, .exit)]

end GIV.ParCache
