/-
  C18 — the regenerated model, part 2: readKeyword and readIdent of imports/read.go
  (GIV/Gen/ImportsReadGo.lean, translated on every run) against the hand-written byte machine.
  Same shape as part 1 (GIV/Lemmas/ImportsReadGo.lean): `OK (f st) → OK st ∧ Go.f (ofSt st) = some (ofSt (f st))`.
-/
import GIV.Lemmas.ImportsReadGo

namespace GIV.ReadGo
open GIV GIV.ReadImports GIV.GoLib GIV.Gen.Imports

/-! ### readKeyword -/

/-- what follows the keyword loop: `if isIdent(r.peekByte(false)) { r.syntaxError() }` -/
def kwTail (st : St) : St :=
  let p := peekByte false st
  if isIdent p.1 then syntaxError p.2 else p.2

theorem kwTail_go (kw : Bytes) (st : St) (h : OK (kwTail st)) :
    OK st ∧ Go.Read.readKeyword_after1 (ofSt st) kw = some (ofSt (kwTail st)) := by
  unfold kwTail at h ⊢
  unfold Go.Read.readKeyword_after1
  generalize hp : peekByte false st = p at h ⊢
  obtain ⟨c, st'⟩ := p
  dsimp only at h ⊢
  by_cases hi : isIdent c = true
  · simp only [if_pos hi] at h ⊢
    have h1 := (ok_syntaxError st').1 h
    obtain ⟨h2, h3⟩ := peekByte_go false st (by rw [hp]; exact h1)
    refine ⟨h2, ?_⟩
    rw [h3, hp]
    simp [isIdent_eq, hi, syntaxError_eq]
  · simp only [if_neg hi] at h ⊢
    obtain ⟨h2, h3⟩ := peekByte_go false st (by rw [hp]; exact h)
    refine ⟨h2, ?_⟩
    rw [h3, hp]
    simp [isIdent_eq, hi]

theorem idx_append (pre : Bytes) (k : UInt8) (ks : Bytes) :
    GoLib.idx? (pre ++ k :: ks) (pre.length : Int) = some k := by
  simp [GoLib.idx?]

/-- the `for i := range len(kw)` loop: the index list `pre.length, pre.length+1, …` against the
remaining keyword bytes. -/
theorem kwLoop_go : ∀ (ks pre : Bytes) (st : St), OK (kwLoop ks st).1 →
    OK st ∧ Go.Read.readKeyword_loop1 (pre ++ ks) ((List.range' pre.length ks.length).map Int.ofNat) (ofSt st) =
      (if (kwLoop ks st).2 then Go.Read.readKeyword_after1 (ofSt (kwLoop ks st).1) (pre ++ ks)
       else some (ofSt (kwLoop ks st).1)) := by
  intro ks
  induction ks with
  | nil =>
    intro pre st h
    exact ⟨h, rfl⟩
  | cons k ks ih =>
    intro pre st h
    unfold kwLoop at h ⊢
    generalize hr : nextByte false st = r at h ⊢
    obtain ⟨b, st'⟩ := r
    dsimp only at h ⊢
    have hl : (List.range' pre.length (k :: ks).length).map Int.ofNat =
        (pre.length : Int) :: (List.range' (pre ++ [k]).length ks.length).map Int.ofNat := by
      simp [List.range'_succ]
    have hk : pre ++ k :: ks = (pre ++ [k]) ++ ks := by simp
    rw [hl]
    unfold Go.Read.readKeyword_loop1
    by_cases hb : b ≠ k
    · simp only [if_pos hb] at h ⊢
      have h1 := (ok_syntaxError st').1 h
      obtain ⟨h2, h3⟩ := nextByte_go false st (by rw [hr]; exact h1)
      refine ⟨h2, ?_⟩
      rw [h3, hr]
      simp [idx_append, hb, syntaxError_eq]
    · simp only [if_neg hb] at h ⊢
      obtain ⟨h1, h4⟩ := ih (pre ++ [k]) st' h
      obtain ⟨h2, h3⟩ := nextByte_go false st (by rw [hr]; exact h1)
      refine ⟨h2, ?_⟩
      rw [h3, hr]
      have hb' : b = k := by simpa using hb
      simp only [Option.bind_eq_bind, Option.bind_some, idx_append, hb', bne_self_eq_false, Bool.false_eq_true, if_false]
      rw [hk, h4]

/-- `readKeyword(kw)`. -/
theorem readKeyword_go (kw : Bytes) (st : St) (h : OK (readKeyword kw st)) :
    OK st ∧ Go.Read.readKeyword (ofSt st) kw = some (ofSt (readKeyword kw st)) := by
  unfold readKeyword at h ⊢
  unfold Go.Read.readKeyword
  generalize hp : peekByte true st = p at h ⊢
  obtain ⟨c, st1⟩ := p
  dsimp only at h ⊢
  have hrange : GoLib.rangeInt (GoLib.len kw) = (List.range' ([] : Bytes).length kw.length).map Int.ofNat := by
    simp [GoLib.rangeInt, GoLib.len, List.range_eq_range']
  by_cases hk : (kwLoop kw st1).2 = true
  · simp only [if_pos hk] at h ⊢
    obtain ⟨h1, h2⟩ := kwTail_go kw _ h
    obtain ⟨h3, h4⟩ := kwLoop_go kw [] st1 h1
    obtain ⟨h5, h6⟩ := peekByte_go true st (by rw [hp]; exact h3)
    refine ⟨h5, ?_⟩
    rw [h6, hp, hrange]
    simp only [Option.bind_eq_bind, Option.bind_some]
    have := h4
    rw [List.nil_append, if_pos hk, h2] at this
    exact this
  · simp only [if_neg hk] at h ⊢
    obtain ⟨h3, h4⟩ := kwLoop_go kw [] st1 h
    obtain ⟨h5, h6⟩ := peekByte_go true st (by rw [hp]; exact h3)
    refine ⟨h5, ?_⟩
    rw [h6, hp, hrange]
    simp only [Option.bind_eq_bind, Option.bind_some]
    have := h4
    rw [List.nil_append, if_neg hk] at this
    exact this

/-! ### readIdent -/

/-- `for isIdent(r.peekByte(false)) { r.peek = 0 }` -/
theorem identLoop_go (c0 : UInt8) : ∀ (n : Nat) (st : St), OK (identLoop n st) →
    OK st ∧ Go.Read.readIdent_loop1 c0 (n + 1) (ofSt st) = some (ofSt (identLoop n st)) := by
  intro n
  induction n with
  | zero =>
    intro st h
    unfold identLoop at h ⊢
    unfold Go.Read.readIdent_loop1
    generalize hp : peekByte false st = p at h ⊢
    obtain ⟨c, st'⟩ := p
    dsimp only at h ⊢
    by_cases hi : isIdent c = true
    · rw [if_pos hi] at h; exact absurd h (not_ok_setStuck st')
    · simp only [if_neg hi] at h ⊢
      obtain ⟨h2, h3⟩ := peekByte_go false st (by rw [hp]; exact h)
      refine ⟨h2, ?_⟩
      rw [h3, hp]
      simp [isIdent_eq, hi, Go.Read.readIdent_after1]
  | succ n ih =>
    intro st h
    unfold identLoop at h ⊢
    unfold Go.Read.readIdent_loop1
    generalize hp : peekByte false st = p at h ⊢
    obtain ⟨c, st'⟩ := p
    dsimp only at h ⊢
    by_cases hi : isIdent c = true
    · simp only [if_pos hi] at h ⊢
      obtain ⟨h1, h4⟩ := ih _ h
      obtain ⟨h2, h3⟩ := peekByte_go false st (by rw [hp]; exact (ok_clearPeek st').1 h1)
      refine ⟨h2, ?_⟩
      rw [h3, hp]
      simp only [Option.bind_eq_bind, Option.bind_some, isIdent_eq, hi, Bool.not_true, Bool.false_eq_true, if_false]
      exact h4
    · simp only [if_neg hi] at h ⊢
      obtain ⟨h2, h3⟩ := peekByte_go false st (by rw [hp]; exact h)
      refine ⟨h2, ?_⟩
      rw [h3, hp]
      simp [isIdent_eq, hi, Go.Read.readIdent_after1]

/-- `readIdent()`. -/
theorem readIdent_go (st : St) (h : OK (readIdent st)) :
    OK st ∧ Go.Read.readIdent (ofSt st) = some (ofSt (readIdent st)) := by
  unfold readIdent at h ⊢
  unfold Go.Read.readIdent
  generalize hp : peekByte true st = p at h ⊢
  obtain ⟨c, st'⟩ := p
  dsimp only at h ⊢
  by_cases hi : isIdent c = true
  · have hi' : (!isIdent c) = false := by simp [hi]
    simp only [hi', Bool.false_eq_true, if_false] at h ⊢
    obtain ⟨h1, h4⟩ := identLoop_go c _ _ h
    obtain ⟨h2, h3⟩ := peekByte_go true st (by rw [hp]; exact h1)
    refine ⟨h2, ?_⟩
    rw [h3, hp]
    simp only [Option.bind_eq_bind, Option.bind_some, isIdent_eq, hi, Bool.not_true, Bool.false_eq_true, if_false]
    exact h4
  · have hi' : (!isIdent c) = true := by simpa using hi
    simp only [hi', if_true] at h ⊢
    have h1 := (ok_syntaxError st').1 h
    obtain ⟨h2, h3⟩ := peekByte_go true st (by rw [hp]; exact h1)
    refine ⟨h2, ?_⟩
    rw [h3, hp]
    simp [isIdent_eq, hi, syntaxError_eq]

end GIV.ReadGo
