/-
  Lemmas for GIV.Model.TsLife §2: the initial environment of a script (property C04).
-/
import GIV.Model.TsLife

namespace GIV.TsLife
open GIV

/-! ### §2 environment -/

theorem lookupLast_none_of_forall (e : EnvList) (k : String) (h : ∀ kv ∈ e, kv.1 ≠ k) :
    lookupLast e k = none := by
  induction e with
  | nil => rfl
  | cons kv rest ih =>
    obtain ⟨k', v⟩ := kv
    have h1 := ih (fun x hx => h x (List.mem_cons_of_mem _ hx))
    have h2 : k' ≠ k := h (k', v) (List.mem_cons_self ..)
    simp [lookupLast, h1, h2]

theorem lookupLast_append (a b : EnvList) (k : String) :
    lookupLast (a ++ b) k = match lookupLast b k with
      | some w => some w
      | none => lookupLast a k := by
  induction a with
  | nil => cases h : lookupLast b k <;> simp [lookupLast, h]
  | cons kv rest ih =>
    obtain ⟨k', v⟩ := kv
    simp only [List.cons_append, lookupLast, ih]
    cases hb : lookupLast b k <;> simp

theorem lookupLast_some_mem (e : EnvList) (k v : String) (h : lookupLast e k = some v) : (k, v) ∈ e := by
  induction e with
  | nil => simp [lookupLast] at h
  | cons kv rest ih =>
    obtain ⟨k', v'⟩ := kv
    simp only [lookupLast] at h
    cases hr : lookupLast rest k with
    | some w =>
      simp only [hr] at h
      injection h with h; subst h
      exact List.mem_cons_of_mem _ (ih hr)
    | none =>
      simp only [hr] at h
      by_cases hk : k' = k
      · simp only [hk, if_true] at h
        injection h with h; subst h; subst hk
        exact List.mem_cons_self ..
      · simp [hk] at h

theorem documentedPart_keys (host : EnvList) (wd : String) :
    (documentedPart host wd).map (·.1) = Gen.TsLife.documentedVars.map (·.1) := by
  simp [documentedPart, List.map_map, Function.comp_def]

theorem passthroughPart_keys (host : EnvList) (kv : String × String) (h : kv ∈ passthroughPart host) :
    kv.1 ∈ Gen.TsLife.passthroughVars ∧ kv.2 = hostGetenv host kv.1 := by
  simp only [passthroughPart, List.mem_filterMap] at h
  obtain ⟨k, hk, hs⟩ := h
  split at hs
  · cases hs
  · injection hs with hs; subst hs; exact ⟨hk, rfl⟩

/-- a name outside the built-in list and outside Setup's additions is not in the environment:
host variables are invisible. -/
theorem initialEnv_invisible (host : EnvList) (wd : String) (setup : EnvList) (k : String)
    (hb : k ∉ builtinNames) (hs : k ∉ setup.map (·.1)) :
    lookupLast (initialEnv host wd setup) k = none := by
  apply lookupLast_none_of_forall
  intro kv hkv hk
  simp only [initialEnv, List.mem_append] at hkv
  simp only [builtinNames, List.mem_append, not_or] at hb
  rcases hkv with ((h | h) | h) | h
  · apply hb.1.1
    rw [← documentedPart_keys host wd, ← hk]
    exact List.mem_map_of_mem h
  · exact hb.1.2 (hk ▸ (passthroughPart_keys host kv h).1)
  · exact hb.2 (hk ▸ List.mem_map_of_mem h)
  · exact hs (hk ▸ List.mem_map_of_mem h)

/-- whatever the environment holds for a name is: a documented value, the host's value of a
pass-through variable, a tail value, or one of Setup's additions. -/
theorem initialEnv_sources (host : EnvList) (wd : String) (setup : EnvList) (k v : String)
    (h : lookupLast (initialEnv host wd setup) k = some v) :
    (k, v) ∈ setup ∨ (k, v) ∈ Gen.TsLife.unixTailVars ∨
    (k ∈ Gen.TsLife.passthroughVars ∧ v = hostGetenv host k) ∨
    (∃ s, (k, s) ∈ Gen.TsLife.documentedVars ∧ v = evalSrc host wd s) := by
  have hm := lookupLast_some_mem _ _ _ h
  simp only [initialEnv, List.mem_append] at hm
  rcases hm with ((h | h) | h) | h
  · right; right; right
    simp only [documentedPart, List.mem_map] at h
    obtain ⟨⟨k', s⟩, hks, he⟩ := h
    injection he with h1 h2
    subst h1; subst h2
    exact ⟨s, hks, rfl⟩
  · right; right; left; exact passthroughPart_keys host (k, v) h
  · right; left; exact h
  · left; exact h

/-- Setup's additions win over everything built in. -/
theorem initialEnv_setup_wins (host : EnvList) (wd : String) (setup : EnvList) (k v : String)
    (h : lookupLast setup k = some v) : lookupLast (initialEnv host wd setup) k = some v := by
  simp [initialEnv, lookupLast_append, h]

/-- without an addition by Setup the built-in part decides. -/
theorem initialEnv_no_setup (host : EnvList) (wd : String) (setup : EnvList) (k : String)
    (h : lookupLast setup k = none) :
    lookupLast (initialEnv host wd setup) k = lookupLast (initialEnv host wd []) k := by
  simp [initialEnv, lookupLast_append, h]

end GIV.TsLife
