/-
  GIV.Lemmas.ParWorkTerm — a measure on the states of par.Work that every (non-spurious) step decreases.
-/
import GIV.Lemmas.ParWorkInv
namespace GIV.ParWork
open GIV.Gen.ParWork

@[simp] theorem upd_apply' (f : Nat → Pc) (t : Nat) (p : Pc) (i : Nat) : upd f t p i = if i = t then p else f i := rfl

/-! ### sums -/

/-- Σ_{i<n} φ (f i) -/
def psum (φ : Pc → Nat) (f : Nat → Pc) : Nat → Nat
  | 0 => 0
  | n + 1 => psum φ f n + φ (f n)

theorem psum_upd_ge (φ : Pc → Nat) (f : Nat → Pc) (t : Nat) (v : Pc) (n : Nat) (h : n ≤ t) :
    psum φ (upd f t v) n = psum φ f n := by
  induction n with
  | zero => rfl
  | succ n ih =>
    have : n ≠ t := by omega
    simp [psum, upd, this, ih (by omega)]

theorem psum_upd (φ : Pc → Nat) (f : Nat → Pc) (t : Nat) (v : Pc) (n : Nat) (h : t < n) :
    psum φ (upd f t v) n + φ (f t) = psum φ f n + φ v := by
  induction n with
  | zero => omega
  | succ n ih =>
    by_cases htn : t = n
    · subst htn
      simp only [psum, psum_upd_ge φ f t v t (Nat.le_refl t), upd, if_true]
      omega
    · have h1 : t < n := by omega
      have h2 : n ≠ t := fun h => htn h.symm
      have := ih h1
      simp only [psum, upd, h2, if_false]
      omega

/-- Σ_{x ∈ l} w x -/
def tw (w : Nat → Nat) : List Nat → Nat
  | [] => 0
  | x :: l => w x + tw w l

theorem tw_append (w : Nat → Nat) (l1 l2 : List Nat) : tw w (l1 ++ l2) = tw w l1 + tw w l2 := by
  induction l1 with
  | nil => simp [tw]
  | cons a l ih => simp [tw, ih]; omega

theorem tw_set (w : Nat → Nat) : ∀ (l : List Nat) (k : Nat) (z : Nat) (hk : k < l.length),
    tw w (l.set k z) + w l[k] = tw w l + w z
  | a :: l, 0, z, _ => by simp [tw]; omega
  | a :: l, k + 1, z, hk => by
    have := tw_set w l k z (by simpa using hk)
    simp only [List.set_cons_succ, tw, List.getElem_cons_succ]
    omega

theorem tw_swapRemove (w : Nat → Nat) (l : List Nat) (k x : Nat) (h : l[k]? = some x) :
    tw w (swapRemove l k) + w x = tw w l := by
  rcases List.eq_nil_or_concat l with hl | ⟨l', z, hl⟩
  · subst hl; simp at h
  · subst hl
    have hlast : (l'.concat z).getLast? = some z := by simp
    unfold swapRemove
    rw [hlast]
    simp only [List.concat_eq_append] at *
    by_cases hk : k < l'.length
    · rw [List.set_append, if_pos hk, List.dropLast_concat]
      rw [List.getElem?_append, if_pos hk] at h
      have hx : l'[k] = x := by
        rw [List.getElem?_eq_getElem hk] at h; exact Option.some.inj h
      have := tw_set w l' k z hk
      rw [hx] at this
      rw [tw_append]; simp only [tw]; omega
    · rw [List.getElem?_append, if_neg hk] at h
      have hk' : k - l'.length = 0 := by
        by_cases h0 : k - l'.length = 0
        · exact h0
        · have : ([z] : List Nat)[k - l'.length]? = none := by
            rw [List.getElem?_eq_none]; simp; omega
          rw [this] at h; simp at h
      rw [hk'] at h
      simp only [List.getElem?_cons_zero, Option.some.injEq] at h
      subst h
      rw [List.set_append, if_neg hk, hk']
      simp only [List.set_cons_zero, List.dropLast_concat, tw_append, tw]
      omega

/-- Σ_{x ∈ U, x ∉ added} u x -/
def uaw (u : Nat → Nat) (added : List Nat) : List Nat → Nat
  | [] => 0
  | x :: l => (if x ∈ added then 0 else u x) + uaw u added l

theorem uaw_add_le (u : Nat → Nat) (added : List Nat) (x : Nat) (U : List Nat) :
    uaw u (x :: added) U ≤ uaw u added U := by
  induction U with
  | nil => simp [uaw]
  | cons a l ih =>
    simp only [uaw, List.mem_cons]
    by_cases h1 : a = x <;> by_cases h2 : a ∈ added <;> simp [h1, h2] <;> omega

theorem uaw_add (u : Nat → Nat) (added : List Nat) (x : Nat) (U : List Nat) (hx : x ∈ U) (hna : x ∉ added) :
    uaw u (x :: added) U + u x ≤ uaw u added U := by
  induction U with
  | nil => simp at hx
  | cons a l ih =>
    simp only [uaw, List.mem_cons]
    by_cases h1 : a = x
    · subst h1
      have := uaw_add_le u added a l
      simp [hna]; omega
    · have hx' : x ∈ l := by
        rcases List.mem_cons.mp hx with h | h
        · exact absurd h.symm h1
        · exact h
      have := ih hx'
      by_cases h2 : a ∈ added <;> simp [h1, h2] <;> omega

/-! ### the invariant needed by the measure -/

def Pc.isWake : Pc → Bool
  | .wake => true
  | _ => false

/-- the item a task is working on -/
def Pc.item : Pc → Option Nat
  | .unlockRun x | .fEnter x | .inF x _ | .addSignal (.inF x _) | .addUnlock (.inF x _) => some x
  | _ => none

/-- `U` contains the initial items and is closed under `children` -/
structure Closed (c : Cfg) (U : List Nat) : Prop where
  init : ∀ x, x ∈ c.init → x ∈ U
  children : ∀ x, x ∈ U → ∀ y, y ∈ c.children x → y ∈ U

structure InvT (c : Cfg) (U : List Nat) (s : State) : Prop where
  len : s.waiters.length + s.woken.length = cnt Pc.isWake s.pc c.n
  todoU : ∀ x : Nat, x ∈ s.todo → x ∈ U
  pcU : ∀ (t x : Nat), (s.pc t).item = some x → x ∈ U

theorem cnt_upd_eq (p : Pc → Bool) (f : Nat → Pc) (t : Nat) (v : Pc) (n : Nat) (h : t < n) :
    cnt p (upd f t v) n = cnt p f n + (if p v then 1 else 0) - (if p (f t) then 1 else 0) := by
  have h1 := cnt_upd p f t v n h
  have h2 : (if p (f t) then 1 else 0) ≤ cnt p f n := by
    cases hp : p (f t) with
    | false => simp
    | true => simp; exact cnt_pos p f n t h hp
  omega

theorem mem_swapRemove (l : List Nat) (k x y : Nat) (h : l[k]? = some x) (hy : y ∈ swapRemove l k) : y ∈ l := by
  have := count_swapRemove l k x h y
  have h1 : 0 < (swapRemove l k).count y := List.count_pos_iff.mpr hy
  apply List.count_pos_iff.mp
  omega

theorem invT_init (c : Cfg) (U : List Nat) : InvT c U init0 := by
  refine ⟨?_, ?_, ?_⟩
  · simp only [init0, List.length_nil]
    rw [cnt_eq_zero]
    intro i _; split <;> rfl
  · simp [init0]
  · intro t x; simp only [init0]; split <;> simp [Pc.item]

theorem addCall_mem {c : Cfg} {U : List Nat} (cl : Closed c U) {s : State} (iT : InvT c U s) {t : Nat} {p : Pc} {k : Cont} {x : Nat}
    (hpc : s.pc t = p) (h : AddCall c p k x) : x ∈ U ∧ (∀ y, (Pc.addSignal k).item = some y → y ∈ U) ∧
      (∀ y, (Pc.addUnlock k).item = some y → y ∈ U) := by
  cases h with
  | main hj => exact ⟨cl.init _ (List.mem_of_getElem? hj), by simp [Pc.item], by simp [Pc.item]⟩
  | @inF y i x hj =>
    have hy : y ∈ U := iT.pcU t y (by rw [hpc]; rfl)
    exact ⟨cl.children y hy _ (List.mem_of_getElem? hj), by simp [Pc.item]; exact hy, by simp [Pc.item]; exact hy⟩

syntax "tgoals " ident ident : tactic
macro_rules
  | `(tactic| tgoals $iT $hpc) => `(tactic|
    (refine ⟨?_, ?_, ?_⟩ <;> simp only [State.setPc, resume]
     · have a := ($iT).len
       first
         | (rw [cnt_upd_eq _ _ _ _ _ (by assumption), $hpc:ident]; simp [Pc.isWake] at a ⊢; omega)
         | skip
     · have a := ($iT).todoU
       first | grind | skip
     · have a := ($iT).pcU
       simp only [upd_apply']
       first | grind [Pc.item] | skip))

set_option maxHeartbeats 1000000 in
theorem invT_step {c : Cfg} {U : List Nat} (cl : Closed c U) {s s' : State} {t : Nat} {e : Event}
    (inv : Inv c s) (iT : InvT c U s) (h : Step c s t e s') : InvT c U s' := by
  have htn : s.pc t ≠ .absent → t < c.n := inv.bound t
  cases h with
  | start hpc =>
    have ht : t < c.n := htn (by rw [hpc]; simp)
    split <;> tgoals iT hpc
  | @addLock p k x hpc hcall ho =>
    have ht : t < c.n := htn (by rw [hpc]; cases hcall <;> simp)
    obtain ⟨hxU, hs1, hs2⟩ := addCall_mem cl iT hpc hcall
    have hw : p.isWake = false := by cases hcall <;> rfl
    rw [addBody_eq]
    split <;> (try split)
    all_goals
      refine ⟨?_, ?_, ?_⟩ <;> simp only [State.setPc]
      · have a := iT.len
        rw [cnt_upd_eq _ _ _ _ _ ht, hpc, hw]; simp [Pc.isWake] at a ⊢; omega
      · have a := iT.todoU
        first | exact a | (intro y hy; rcases List.mem_append.mp hy with h | h
                           · exact a y h
                           · simp at h; subst h; exact hxU)
      · have a := iT.pcU
        intro t1 y; simp only [upd_apply']; split
        · first | exact hs1 y | exact hs2 y
        · exact a t1 y
  | doCall hpc hj =>
    have ht : t < c.n := htn (by rw [hpc]; simp)
    simp only [afterSpawn_eq]
    split <;> (try split) <;> tgoals iT hpc
  | panic hpc => have ht : t < c.n := htn (by rw [hpc]; simp); tgoals iT hpc
  | @go i hpc =>
    have ht : t < c.n := htn (by rw [hpc]; simp)
    have hi : i < c.n := inv.spawnLt t i hpc
    have habs : s.pc i = .absent := inv.spawnAbs t i hpc i (Nat.le_refl i)
    have hit : t ≠ i := by intro e; rw [e, habs] at hpc; simp at hpc
    simp only [afterSpawn_eq]
    split
    all_goals
      refine ⟨?_, ?_, ?_⟩ <;> simp only [State.setPc]
      · have a := iT.len
        rw [cnt_upd_eq _ _ _ _ _ ht, cnt_upd_eq _ _ _ _ _ hi]
        simp only [upd_apply', hit, if_false, hpc, habs]
        simp [Pc.isWake] at a ⊢; omega
      · exact iT.todoU
      · have a := iT.pcU
        intro t1 y; simp only [upd_apply']; split
        · simp [Pc.item]
        · split
          · simp [Pc.item]
          · exact a t1 y
  | lockTop hpc ho =>
    have ht : t < c.n := htn (by rw [hpc]; simp)
    rw [loopHead_eq]
    split <;> (try split) <;> tgoals iT hpc
  | wait hpc ho => have ht : t < c.n := htn (by rw [hpc]; simp); tgoals iT hpc
  | wake hpc hw ho =>
    have ht : t < c.n := htn (by rw [hpc]; simp)
    have hl : (s.woken.erase t).length + 1 = s.woken.length := by
      rw [List.length_erase_of_mem hw]
      have : 0 < s.woken.length := List.length_pos_of_mem hw
      omega
    rw [loopHead_eq]
    split <;> (try split) <;> tgoals iT hpc
  | spurious hpc hw =>
    have hl : (s.waiters.erase t).length + 1 = s.waiters.length := by
      rw [List.length_erase_of_mem hw]
      have : 0 < s.waiters.length := List.length_pos_of_mem hw
      omega
    refine ⟨?_, iT.todoU, iT.pcU⟩
    have a := iT.len
    simp only [List.length_cons]; omega
  | bcast hpc => have ht : t < c.n := htn (by rw [hpc]; simp); tgoals iT hpc
  | unlockRet hpc ho => have ht : t < c.n := htn (by rw [hpc]; simp); tgoals iT hpc
  | doReturn hpc ht0 => have ht : t < c.n := htn (by rw [hpc]; simp); tgoals iT hpc
  | exitRunner hpc ht0 => have ht : t < c.n := htn (by rw [hpc]; simp); tgoals iT hpc
  | exitMain hpc => have ht : t < c.n := htn (by rw [hpc]; simp); tgoals iT hpc
  | @rand k x hpc hx =>
    have ht : t < c.n := htn (by rw [hpc]; simp)
    have hxU : x ∈ U := iT.todoU x (List.mem_of_getElem? hx)
    have hsub := mem_swapRemove s.todo k x
    tgoals iT hpc
  | unlockRun hpc ho => have ht : t < c.n := htn (by rw [hpc]; simp); tgoals iT hpc
  | fEnter hpc => have ht : t < c.n := htn (by rw [hpc]; simp); tgoals iT hpc
  | fExit hpc hk => have ht : t < c.n := htn (by rw [hpc]; simp); tgoals iT hpc
  | @signalNone k hpc hw => have ht : t < c.n := htn (by rw [hpc]; simp); cases k <;> tgoals iT hpc
  | @signalSome k w rest hpc hw =>
    have ht : t < c.n := htn (by rw [hpc]; simp)
    have hl : s.waiters.length = rest.length + 1 := by rw [hw]; rfl
    cases k <;> tgoals iT hpc
  | @addUnlock k hpc ho => have ht : t < c.n := htn (by rw [hpc]; simp); cases k <;> tgoals iT hpc

end GIV.ParWork
