/-
  Lemmas about the tokenizer loop `tok` of GIV.Model.ScriptParse: single steps, runs of ordinary
  bytes, quoted words, and the segment/token law used by the C02 theorems.
-/
import GIV.Model.ScriptParse
namespace GIV.Script
open GIV

/-! ### where the regenerated facts enter -/

theorem quoteChar_eq : quoteChar = 39 := rfl
theorem isBlank_iff (c : UInt8) : isBlank c = true ↔ (c = 32 ∨ c = 9 ∨ c = 13) := by
  -- (insensitive to the order in which the source lists the three alternatives)
  have hm : isBlank c = true ↔ c ∈ Gen.Script.blanks := by simp [isBlank]
  rw [hm]
  constructor
  · intro h
    simp only [Gen.Script.blanks, List.mem_cons, List.not_mem_nil, or_false] at h
    rcases h with h | h | h <;> simp [h]
  · intro h
    rcases h with h | h | h <;> subst h <;> decide
theorem isComment_iff (c : UInt8) : isComment c = true ↔ c = 35 := by
  simp [isComment, Gen.Script.commentChars]

theorem chunkText_unq (env : Env) (ch : Bytes) : chunkText env false ch = expand env ch := by
  simp [chunkText, Gen.Script.expandsUnquotedChunks]
theorem chunkText_q (env : Env) (ch : Bytes) : chunkText env true ch = ch := by
  simp [chunkText, Gen.Script.expandsQuotedChunks]

theorem expand_nil (env : Env) : expand env [] = [] := by
  simp [expand, osExpand, osExpandGo]

/-- A byte that the tokenizer just saves when outside quotes. -/
def Ordinary (c : UInt8) : Prop := isBlank c = false ∧ isComment c = false ∧ c ≠ quoteChar

instance (c : UInt8) : Decidable (Ordinary c) := by unfold Ordinary; infer_instance

/-- The text that `start` contributes when the chunk is closed outside quotes. -/
def stText (env : Env) : Option Bytes → Bytes
  | some ch => expand env ch
  | none => []

/-! ### single steps -/

theorem tok_nil_unq (env : Env) (args : List Bytes) (arg : Bytes) (st : Option Bytes) :
    tok env [] args arg st false =
      .ok (match st with | some ch => args ++ [arg ++ expand env ch] | none => args) := by
  cases st <;> simp [tok, chunkText_unq]

theorem tok_nil_q (env : Env) (args : List Bytes) (arg : Bytes) (st : Option Bytes) :
    tok env [] args arg st true = .error .unterminated := by
  simp [tok, Gen.Script.unterminatedIsFatal]

theorem tok_blank (env : Env) (c : UInt8) (rest : Bytes) (args : List Bytes) (arg : Bytes) (st : Option Bytes)
    (h : isBlank c = true) :
    tok env (c :: rest) args arg st false =
      match st with
      | some ch => tok env rest (args ++ [arg ++ expand env ch]) [] none false
      | none => tok env rest args arg none false := by
  have hc : isComment c = false := by
    rcases (isBlank_iff c).1 h with h | h | h <;> subst h <;> decide
  cases st <;> simp [tok, h, hc, chunkText_unq]

theorem tok_comment (env : Env) (c : UInt8) (rest : Bytes) (args : List Bytes) (arg : Bytes) (st : Option Bytes)
    (h : isComment c = true) :
    tok env (c :: rest) args arg st false =
      .ok (match st with | some ch => args ++ [arg ++ expand env ch] | none => args) := by
  cases st <;> simp [tok, h, chunkText_unq]

theorem tok_ord (env : Env) (c : UInt8) (rest : Bytes) (args : List Bytes) (arg : Bytes) (st : Option Bytes)
    (h : Ordinary c) :
    tok env (c :: rest) args arg st false =
      tok env rest args arg (match st with | some ch => some (ch ++ [c]) | none => some [c]) false := by
  obtain ⟨hb, hc, hq⟩ := h
  cases st <;> simp [tok, hb, hc, hq]

theorem tok_open (env : Env) (rest : Bytes) (args : List Bytes) (arg : Bytes) (st : Option Bytes) :
    tok env (quoteChar :: rest) args arg st false =
      tok env rest args (arg ++ stText env st) (some []) true := by
  have hb : isBlank quoteChar = false := by decide
  have hc : isComment quoteChar = false := by decide
  cases st <;> simp [tok, hb, hc, chunkText_unq, stText]

/-- Inside quotes a byte other than the quote is saved. -/
theorem tok_q_other (env : Env) (c : UInt8) (rest : Bytes) (args : List Bytes) (arg ch : Bytes)
    (h : c ≠ quoteChar) :
    tok env (c :: rest) args arg (some ch) true = tok env rest args arg (some (ch ++ [c])) true := by
  rw [tok]
  simp [h]

/-- Inside quotes, two quotes: one quote byte is kept and the quoted text goes on. -/
theorem tok_q_doubled (env : Env) (rest : Bytes) (args : List Bytes) (arg ch : Bytes) :
    tok env (quoteChar :: quoteChar :: rest) args arg (some ch) true =
      tok env rest args (arg ++ ch) (some [quoteChar]) true := by
  rw [tok]
  simp [chunkText_q, Gen.Script.doubledQuoteRule]

/-- Inside quotes, a quote not followed by a quote closes the quoted text. -/
theorem tok_q_close (env : Env) (rest : Bytes) (args : List Bytes) (arg ch : Bytes)
    (h : rest.head? ≠ some quoteChar) :
    tok env (quoteChar :: rest) args arg (some ch) true =
      tok env rest args (arg ++ ch) (some []) false := by
  rw [tok]
  cases rest with
  | nil => simp [chunkText_q]
  | cons c2 r =>
    have : c2 ≠ quoteChar := by simpa using h
    simp [chunkText_q, this]

/-! ### runs -/

def AllBlank (b : Bytes) : Prop := ∀ c ∈ b, isBlank c = true
def AllOrdinary (u : Bytes) : Prop := ∀ c ∈ u, Ordinary c

instance (b : Bytes) : Decidable (AllBlank b) := by unfold AllBlank; infer_instance
instance (u : Bytes) : Decidable (AllOrdinary u) := by unfold AllOrdinary; infer_instance

/-- Leading / separating blanks are skipped when no argument is pending. -/
theorem tok_blanks (env : Env) (b rest : Bytes) (args : List Bytes) (hb : AllBlank b) :
    tok env (b ++ rest) args [] none false = tok env rest args [] none false := by
  induction b with
  | nil => rfl
  | cons c b ih =>
    have hc : isBlank c = true := hb c (by simp)
    have hb' : AllBlank b := fun x hx => hb x (by simp [hx])
    simp only [List.cons_append]
    rw [tok_blank env c _ args [] none hc]
    exact ih hb'

/-- A run of ordinary bytes extends the pending chunk. -/
theorem tok_run_some (env : Env) (u rest : Bytes) (args : List Bytes) (arg ch : Bytes) (hu : AllOrdinary u) :
    tok env (u ++ rest) args arg (some ch) false = tok env rest args arg (some (ch ++ u)) false := by
  induction u generalizing ch with
  | nil => simp
  | cons c u ih =>
    have hc : Ordinary c := hu c (by simp)
    have hu' : AllOrdinary u := fun x hx => hu x (by simp [hx])
    simp only [List.cons_append]
    rw [tok_ord env c _ args arg (some ch) hc]
    simp only []
    rw [ih _ hu']
    simp

theorem tok_run_none (env : Env) (u rest : Bytes) (args : List Bytes) (arg : Bytes)
    (hu : AllOrdinary u) (hne : u ≠ []) :
    tok env (u ++ rest) args arg none false = tok env rest args arg (some u) false := by
  cases u with
  | nil => exact absurd rfl hne
  | cons c u =>
    have hc : Ordinary c := hu c (by simp)
    have hu' : AllOrdinary u := fun x hx => hu x (by simp [hx])
    simp only [List.cons_append]
    rw [tok_ord env c _ args arg none hc]
    simp only []
    rw [tok_run_some env u rest args arg [c] hu']
    simp

/-! ### quoted words -/

/-- `w` with every quote byte doubled. -/
def dq (w : Bytes) : Bytes := w.flatMap fun c => if c = quoteChar then [c, c] else [c]

/-- The single-quoted form of `w`. -/
def sq (w : Bytes) : Bytes := quoteChar :: (dq w ++ [quoteChar])

theorem dq_cons (c : UInt8) (w : Bytes) :
    dq (c :: w) = (if c = quoteChar then [c, c] else [c]) ++ dq w := by
  simp [dq]

/-- Inside quotes: the doubled form of `w`, then a closing quote. -/
theorem tok_quoted_body (env : Env) (w rest : Bytes) (args : List Bytes) (arg ch : Bytes)
    (h : rest.head? ≠ some quoteChar) :
    tok env (dq w ++ quoteChar :: rest) args arg (some ch) true =
      tok env rest args (arg ++ ch ++ w) (some []) false := by
  induction w generalizing arg ch with
  | nil => simpa [dq] using tok_q_close env rest args arg ch h
  | cons c w ih =>
    rw [dq_cons]
    by_cases hc : c = quoteChar
    · subst hc
      simp only [if_true, List.cons_append, List.nil_append]
      rw [tok_q_doubled, ih]
      simp
    · simp only [hc, if_false, List.cons_append, List.nil_append]
      rw [tok_q_other env c _ args arg ch hc, ih]
      simp

/-- Outside quotes: a whole single-quoted word. -/
theorem tok_sq (env : Env) (w rest : Bytes) (args : List Bytes) (arg : Bytes) (st : Option Bytes)
    (h : rest.head? ≠ some quoteChar) :
    tok env (sq w ++ rest) args arg st false =
      tok env rest args (arg ++ stText env st ++ w) (some []) false := by
  simp only [sq, List.cons_append, List.append_assoc]
  rw [tok_open]
  have := tok_quoted_body env w rest args (arg ++ stText env st) [] h
  simpa using this

/-! ### tokens as alternating segments -/

/-- A piece of a token: unquoted text (subject to expansion) or a single-quoted word. -/
inductive Seg
  | raw (u : Bytes)
  | quo (w : Bytes)

def Seg.render : Seg → Bytes
  | .raw u => u
  | .quo w => sq w

def Seg.value (env : Env) : Seg → Bytes
  | .raw u => expand env u
  | .quo w => w

def Seg.isRaw : Seg → Bool
  | .raw _ => true
  | .quo _ => false

/-- An unquoted piece is non-empty and free of blanks, comment bytes and quotes. -/
def Seg.OK : Seg → Prop
  | .raw u => u ≠ [] ∧ AllOrdinary u
  | .quo _ => True

def renderSegs (segs : List Seg) : Bytes := segs.flatMap Seg.render
def valueSegs (env : Env) (segs : List Seg) : Bytes := segs.flatMap (Seg.value env)

/-- Well-formed token: every piece OK, unquoted and quoted pieces alternate
(two adjacent quoted pieces would read as a doubled quote, two unquoted ones are one piece). -/
def Alt : List Seg → Prop
  | [] => True
  | [s] => s.OK
  | s :: t :: rest => s.OK ∧ s.isRaw ≠ t.isRaw ∧ Alt (t :: rest)

/-- What may follow a token: end of line, a blank or a comment byte. -/
def EndsTok (rest : Bytes) : Prop :=
  rest = [] ∨ ∃ c r, rest = c :: r ∧ (isBlank c = true ∨ isComment c = true)

theorem EndsTok.head_ne_quote {rest : Bytes} (h : EndsTok rest) : rest.head? ≠ some quoteChar := by
  rcases h with h | ⟨c, r, h, hc⟩
  · simp [h]
  · subst h
    intro hq
    have : c = quoteChar := by simpa using hq
    subst this
    rcases hc with hc | hc <;> revert hc <;> decide

/-- State compatible with the next piece: an unquoted piece must start a fresh chunk. -/
def Compat (st : Option Bytes) (s : Seg) : Prop :=
  s.isRaw = true → (st = none ∨ st = some [])

theorem stText_fresh (env : Env) {st : Option Bytes} (h : st = none ∨ st = some []) : stText env st = [] := by
  rcases h with h | h <;> subst h <;> simp [stText, expand_nil]

/-- One piece, given that what follows does not start with a quote. -/
theorem tok_seg (env : Env) (s : Seg) (hs : s.OK) (rest : Bytes) (args : List Bytes) (arg : Bytes)
    (st : Option Bytes) (hc : Compat st s) (hq : s.isRaw = false → rest.head? ≠ some quoteChar) :
    ∃ arg' ch', tok env (s.render ++ rest) args arg st false = tok env rest args arg' (some ch') false ∧
      arg' ++ expand env ch' = arg ++ stText env st ++ s.value env ∧
      (s.isRaw = false → ch' = []) := by
  cases s with
  | raw u =>
    obtain ⟨hne, hu⟩ := hs
    refine ⟨arg, u, ?_, ?_, by simp [Seg.isRaw]⟩
    · rcases hc rfl with h | h <;> subst h
      · exact tok_run_none env u rest args arg hu hne
      · simpa [Seg.render] using tok_run_some env u rest args arg [] hu
    · simp [Seg.value, stText_fresh env (hc rfl)]
  | quo w =>
    refine ⟨arg ++ stText env st ++ w, [], ?_, ?_, by simp⟩
    · exact tok_sq env w rest args arg st (hq rfl)
    · simp [Seg.value, expand_nil]

theorem render_raw_head {u : Bytes} (hne : u ≠ []) (hu : AllOrdinary u) (rest : Bytes) :
    (u ++ rest).head? ≠ some quoteChar := by
  cases u with
  | nil => exact absurd rfl hne
  | cons c u =>
    have := (hu c (by simp)).2.2
    simpa using this

/-- A whole well-formed token followed by something that ends a token. -/
theorem tok_segs (env : Env) (rest : Bytes) (hr : EndsTok rest) (segs : List Seg) :
    ∀ (s : Seg), Alt (s :: segs) → ∀ (args : List Bytes) (arg : Bytes) (st : Option Bytes), Compat st s →
    ∃ arg' ch', tok env (renderSegs (s :: segs) ++ rest) args arg st false = tok env rest args arg' (some ch') false ∧
      arg' ++ expand env ch' = arg ++ stText env st ++ valueSegs env (s :: segs) := by
  induction segs with
  | nil =>
    intro s hA args arg st hc
    have hs : s.OK := hA
    obtain ⟨arg', ch', h1, h2, _⟩ := tok_seg env s hs rest args arg st hc (fun _ => hr.head_ne_quote)
    exact ⟨arg', ch', by simpa [renderSegs] using h1, by simpa [valueSegs] using h2⟩
  | cons t segs ih =>
    intro s hA args arg st hc
    obtain ⟨hs, hne, hA'⟩ := hA
    -- what follows s is the rendering of t :: segs, then rest
    have hq : s.isRaw = false → (renderSegs (t :: segs) ++ rest).head? ≠ some quoteChar := by
      intro hsq
      have ht : t.isRaw = true := by
        cases hh : t.isRaw
        · rw [hsq, hh] at hne; exact absurd rfl hne
        · rfl
      cases t with
      | quo w => simp [Seg.isRaw] at ht
      | raw u =>
        have htOK : (Seg.raw u).OK := by
          cases segs with
          | nil => exact hA'
          | cons _ _ => exact hA'.1
        have := render_raw_head htOK.1 htOK.2 (renderSegs segs ++ rest)
        simpa [renderSegs, Seg.render, List.append_assoc] using this
    obtain ⟨arg1, ch1, h1, h2, h3⟩ := tok_seg env s hs (renderSegs (t :: segs) ++ rest) args arg st hc hq
    have hc1 : Compat (some ch1) t := by
      intro ht
      have hsq : s.isRaw = false := by
        cases hh : s.isRaw
        · rfl
        · rw [hh, ht] at hne; exact absurd rfl hne
      right
      rw [h3 hsq]
    obtain ⟨arg2, ch2, h4, h5⟩ := ih t hA' args arg1 (some ch1) hc1
    refine ⟨arg2, ch2, ?_, ?_⟩
    · have : renderSegs (s :: t :: segs) ++ rest = s.render ++ (renderSegs (t :: segs) ++ rest) := by
        simp [renderSegs, List.append_assoc]
      rw [this, h1, h4]
    · rw [h5]
      have : stText env (some ch1) = expand env ch1 := rfl
      rw [this, h2]
      simp [valueSegs, List.append_assoc]

/-- A well-formed token followed by something that ends a token is one argument — its value —
and the loop continues after it with nothing pending. -/
theorem tok_token (env : Env) (segs : List Seg) (hne : segs ≠ []) (hA : Alt segs) (rest : Bytes)
    (hr : EndsTok rest) (args : List Bytes) :
    tok env (renderSegs segs ++ rest) args [] none false =
      tok env rest (args ++ [valueSegs env segs]) [] none false := by
  cases segs with
  | nil => exact absurd rfl hne
  | cons s segs =>
    obtain ⟨arg', ch', h1, h2⟩ := tok_segs env rest hr segs s hA args [] none (fun _ => Or.inl rfl)
    have h2' : arg' ++ expand env ch' = valueSegs env (s :: segs) := by simpa [stText] using h2
    rw [h1]
    rcases hr with hr | ⟨c, r, hr, hc | hc⟩
    · subst hr
      rw [tok_nil_unq, tok_nil_unq]
      simp [h2']
    · subst hr
      rw [tok_blank env c r args arg' (some ch') hc, tok_blank env c r _ [] none hc]
      simp [h2']
    · subst hr
      rw [tok_comment env c r args arg' (some ch') hc, tok_comment env c r _ [] none hc]
      simp [h2']

/-! ### whole lines -/

/-- The end of a line: blanks, then nothing or a comment. -/
def LineTail (t : Bytes) : Prop :=
  ∃ b, AllBlank b ∧ (t = b ∨ ∃ c r, isComment c = true ∧ t = b ++ c :: r)

theorem tok_tail (env : Env) (t : Bytes) (ht : LineTail t) (args : List Bytes) :
    tok env t args [] none false = .ok args := by
  obtain ⟨b, hb, rfl | ⟨c, r, hc, rfl⟩⟩ := ht
  · have := tok_blanks env t [] args hb
    rw [List.append_nil] at this
    rw [this, tok_nil_unq]
  · rw [tok_blanks env b _ args hb, tok_comment env c r args [] none hc]

theorem LineTail.endsTok {t : Bytes} (ht : LineTail t) : EndsTok t := by
  obtain ⟨b, hb, rfl | ⟨c, r, hc, rfl⟩⟩ := ht
  · cases t with
    | nil => exact Or.inl rfl
    | cons x b => exact Or.inr ⟨x, b, rfl, Or.inl (hb x (by simp))⟩
  · cases b with
    | nil => exact Or.inr ⟨c, r, rfl, Or.inr hc⟩
    | cons x b => exact Or.inr ⟨x, b ++ c :: r, rfl, Or.inl (hb x (by simp))⟩

/-- Tokens with the blank run that precedes each. -/
def renderToks (toks : List (Bytes × List Seg)) : Bytes := toks.flatMap fun p => p.1 ++ renderSegs p.2

def TokOK (p : Bytes × List Seg) : Prop := AllBlank p.1 ∧ p.2 ≠ [] ∧ Alt p.2

/-- The line law: blank runs (non-empty between tokens), well-formed tokens, a line tail. -/
theorem tok_line (env : Env) (tail : Bytes) (ht : LineTail tail) (toks : List (Bytes × List Seg)) :
    (∀ p ∈ toks, TokOK p) → (∀ p ∈ toks.tail, p.1 ≠ []) → ∀ args : List Bytes,
    tok env (renderToks toks ++ tail) args [] none false = .ok (args ++ toks.map fun p => valueSegs env p.2) := by
  induction toks with
  | nil =>
    intro _ _ args
    simpa [renderToks] using tok_tail env tail ht args
  | cons p more ih =>
    intro hok hsep args
    obtain ⟨hb, hne, hA⟩ := hok p (by simp)
    have hrest : EndsTok (renderToks more ++ tail) := by
      cases more with
      | nil => simpa [renderToks] using ht.endsTok
      | cons q more' =>
        have hq1 : q.1 ≠ [] := hsep q (by simp)
        have hqb : AllBlank q.1 := (hok q (by simp)).1
        cases hq : q.1 with
        | nil => exact absurd hq hq1
        | cons x b =>
          refine Or.inr ⟨x, b ++ renderSegs q.2 ++ renderToks more' ++ tail, ?_, Or.inl (hqb x (by simp [hq]))⟩
          simp [renderToks, hq, List.append_assoc]
    have hsplit : renderToks (p :: more) ++ tail = p.1 ++ (renderSegs p.2 ++ (renderToks more ++ tail)) := by
      simp [renderToks, List.append_assoc]
    rw [hsplit, tok_blanks env p.1 _ args hb, tok_token env p.2 hne hA _ hrest args]
    have hsep' : ∀ q ∈ more.tail, q.1 ≠ [] := by
      intro q hq
      cases more with
      | nil => simp at hq
      | cons m more' => exact hsep q (by simp [List.mem_of_mem_tail hq])
    rw [ih (fun q hq => hok q (by simp [hq])) hsep' (args ++ [valueSegs env p.2])]
    simp [List.append_assoc]

/-! ### balance of quotes -/

/-- Specification of "the line ends inside quotes": a two-state scan that toggles at every quote
byte and stops at a comment byte seen outside quotes (no knowledge of the doubling rule). -/
def unbalanced : Bytes → Bool → Bool
  | [], q => q
  | c :: r, q =>
    if c = quoteChar then unbalanced r (!q)
    else if !q && isComment c then false
    else unbalanced r q

theorem tok_balance (env : Env) (n : Nat) :
    ∀ (s : Bytes), s.length ≤ n → ∀ (args : List Bytes) (arg : Bytes) (st : Option Bytes) (q : Bool),
      (q = true → st.isSome = true) →
      (tok env s args arg st q = .error .unterminated ∧ unbalanced s q = true) ∨
      (∃ l, tok env s args arg st q = .ok l ∧ unbalanced s q = false) := by
  induction n with
  | zero =>
    intro s hs args arg st q hq
    have : s = [] := List.eq_nil_of_length_eq_zero (Nat.le_zero.1 hs)
    subst this
    cases q
    · right; rw [tok_nil_unq]; exact ⟨_, rfl, rfl⟩
    · left; rw [tok_nil_q]; exact ⟨rfl, rfl⟩
  | succ n ih =>
    intro s hs args arg st q hq
    cases s with
    | nil =>
      cases q
      · right; rw [tok_nil_unq]; exact ⟨_, rfl, rfl⟩
      · left; rw [tok_nil_q]; exact ⟨rfl, rfl⟩
    | cons c r =>
      have hr : r.length ≤ n := by simpa using hs
      cases q with
      | false =>
        by_cases hcq : c = quoteChar
        · subst hcq
          rw [tok_open]
          have := ih r hr args (arg ++ stText env st) (some []) true (fun _ => rfl)
          simpa [unbalanced] using this
        · by_cases hcc : isComment c = true
          · right
            rw [tok_comment env c r args arg st hcc]
            exact ⟨_, rfl, by simp [unbalanced, hcq, hcc]⟩
          · have hcc' : isComment c = false := by simpa using hcc
            by_cases hcb : isBlank c = true
            · rw [tok_blank env c r args arg st hcb]
              have hu : unbalanced (c :: r) false = unbalanced r false := by simp [unbalanced, hcq, hcc']
              rw [hu]
              cases st with
              | none => exact ih r hr _ _ _ false (by simp)
              | some ch => exact ih r hr _ _ _ false (by simp)
            · have hcb' : isBlank c = false := by simpa using hcb
              rw [tok_ord env c r args arg st ⟨hcb', hcc', hcq⟩]
              have hu : unbalanced (c :: r) false = unbalanced r false := by simp [unbalanced, hcq, hcc']
              rw [hu]
              exact ih r hr _ _ _ false (by simp)
      | true =>
        obtain ⟨ch, hst⟩ : ∃ ch, st = some ch := by
          cases st with
          | none => simp at hq
          | some ch => exact ⟨ch, rfl⟩
        subst hst
        by_cases hcq : c = quoteChar
        · subst hcq
          cases r with
          | nil =>
            right
            rw [tok_q_close env [] args arg ch (by simp), tok_nil_unq]
            exact ⟨_, rfl, by simp [unbalanced]⟩
          | cons c2 r2 =>
            by_cases hc2 : c2 = quoteChar
            · subst hc2
              rw [tok_q_doubled]
              have hr2 : r2.length ≤ n := by simp at hr; omega
              have := ih r2 hr2 args (arg ++ ch) (some [quoteChar]) true (fun _ => rfl)
              simpa [unbalanced] using this
            · rw [tok_q_close env (c2 :: r2) args arg ch (by simpa using hc2)]
              have := ih (c2 :: r2) hr args (arg ++ ch) (some []) false (by simp)
              simpa [unbalanced] using this
        · rw [tok_q_other env c r args arg ch hcq]
          have hu : unbalanced (c :: r) true = unbalanced r true := by simp [unbalanced, hcq]
          rw [hu]
          exact ih r hr _ _ _ true (fun _ => rfl)

/-- Text after a comment byte that stands outside quotes is ignored. -/
theorem tok_comment_cut (env : Env) (c : UInt8) (t : Bytes) (hc : isComment c = true) (n : Nat) :
    ∀ (s : Bytes), s.length ≤ n → ∀ (args : List Bytes) (arg : Bytes) (st : Option Bytes) (q : Bool),
      (q = true → st.isSome = true) → unbalanced s q = false →
      tok env (s ++ c :: t) args arg st q = tok env s args arg st q := by
  have hcq0 : c ≠ quoteChar := by
    intro h; subst h; revert hc; decide
  induction n with
  | zero =>
    intro s hs args arg st q hq hu
    have : s = [] := List.eq_nil_of_length_eq_zero (Nat.le_zero.1 hs)
    subst this
    have : q = false := by simpa [unbalanced] using hu
    subst this
    simp only [List.nil_append]
    rw [tok_comment env c t args arg st hc, tok_nil_unq]
  | succ n ih =>
    intro s hs args arg st q hq hu
    cases s with
    | nil =>
      have : q = false := by simpa [unbalanced] using hu
      subst this
      simp only [List.nil_append]
      rw [tok_comment env c t args arg st hc, tok_nil_unq]
    | cons x r =>
      have hr : r.length ≤ n := by simpa using hs
      simp only [List.cons_append]
      cases q with
      | false =>
        by_cases hxq : x = quoteChar
        · subst hxq
          rw [tok_open, tok_open]
          exact ih r hr _ _ _ true (fun _ => rfl) (by simpa [unbalanced] using hu)
        · by_cases hxc : isComment x = true
          · rw [tok_comment env x _ args arg st hxc, tok_comment env x _ args arg st hxc]
          · have hxc' : isComment x = false := by simpa using hxc
            have hu' : unbalanced r false = false := by simpa [unbalanced, hxq, hxc'] using hu
            by_cases hxb : isBlank x = true
            · rw [tok_blank env x _ args arg st hxb, tok_blank env x _ args arg st hxb]
              cases st with
              | none => exact ih r hr _ _ _ false (by simp) hu'
              | some ch => exact ih r hr _ _ _ false (by simp) hu'
            · have hxb' : isBlank x = false := by simpa using hxb
              rw [tok_ord env x _ args arg st ⟨hxb', hxc', hxq⟩, tok_ord env x _ args arg st ⟨hxb', hxc', hxq⟩]
              exact ih r hr _ _ _ false (by simp) hu'
      | true =>
        obtain ⟨ch, hst⟩ : ∃ ch, st = some ch := by
          cases st with
          | none => simp at hq
          | some ch => exact ⟨ch, rfl⟩
        subst hst
        by_cases hxq : x = quoteChar
        · subst hxq
          cases r with
          | nil =>
            simp only [List.nil_append]
            rw [tok_q_close env (c :: t) args arg ch (by simpa using hcq0),
              tok_q_close env [] args arg ch (by simp), tok_comment env c t _ _ _ hc, tok_nil_unq]
          | cons c2 r2 =>
            by_cases hc2 : c2 = quoteChar
            · subst hc2
              simp only [List.cons_append]
              rw [tok_q_doubled, tok_q_doubled]
              have hr2 : r2.length ≤ n := by simp at hr; omega
              exact ih r2 hr2 _ _ _ true (fun _ => rfl) (by simpa [unbalanced] using hu)
            · simp only [List.cons_append]
              rw [tok_q_close env (c2 :: (r2 ++ c :: t)) args arg ch (by simpa using hc2),
                tok_q_close env (c2 :: r2) args arg ch (by simpa using hc2)]
              have := ih (c2 :: r2) hr args (arg ++ ch) (some []) false (by simp) (by simpa [unbalanced] using hu)
              simpa using this
        · rw [tok_q_other env x _ args arg ch hxq, tok_q_other env x _ args arg ch hxq]
          exact ih r hr _ _ _ true (fun _ => rfl) (by simpa [unbalanced, hxq] using hu)

end GIV.Script
