/-
  Lemmas about the tokenizer loop `tok` of GIV.Model.ScriptParse: single steps, runs of ordinary
  bytes, quoted words, and the segment/token law used by the C02 theorems.
-/
import GIV.Model.ScriptParse
namespace GIV.Script
open GIV

/-! ### where the regenerated facts enter -/

theorem quoteChar_eq : quoteChar = 39 := rfl
theorem isBlank_iff (c : UInt8) : isBlank c = true ↔ (c = 32 ∨ c = 9 ∨ c = 13) := by
  simp [isBlank, Gen.Script.blanks]
theorem isComment_iff (c : UInt8) : isComment c = true ↔ c = 35 := by
  simp [isComment, Gen.Script.commentChars]

theorem chunkText_unq (env : Env) (ch : Bytes) : chunkText env false ch = expand env ch := by
  simp [chunkText, Gen.Script.expandsUnquotedChunks]
theorem chunkText_q (env : Env) (ch : Bytes) : chunkText env true ch = ch := by
  simp [chunkText, Gen.Script.expandsQuotedChunks]

theorem expand_nil (env : Env) : expand env [] = [] := by
  simp [expand, osExpand, osExpandGo]

/-- A byte that the tokenizer just saves when outside quotes. -/
def Ordinary (c : UInt8) : Prop := isBlank c = false ∧ isComment c = false ∧ c ≠ quoteChar

instance (c : UInt8) : Decidable (Ordinary c) := by unfold Ordinary; infer_instance

/-- The text that `start` contributes when the chunk is closed outside quotes. -/
def stText (env : Env) : Option Bytes → Bytes
  | some ch => expand env ch
  | none => []

/-! ### single steps -/

theorem tok_nil_unq (env : Env) (args : List Bytes) (arg : Bytes) (st : Option Bytes) :
    tok env [] args arg st false =
      .ok (match st with | some ch => args ++ [arg ++ expand env ch] | none => args) := by
  cases st <;> simp [tok, chunkText_unq]

theorem tok_nil_q (env : Env) (args : List Bytes) (arg : Bytes) (st : Option Bytes) :
    tok env [] args arg st true = .error .unterminated := by
  simp [tok, Gen.Script.unterminatedIsFatal]

theorem tok_blank (env : Env) (c : UInt8) (rest : Bytes) (args : List Bytes) (arg : Bytes) (st : Option Bytes)
    (h : isBlank c = true) :
    tok env (c :: rest) args arg st false =
      match st with
      | some ch => tok env rest (args ++ [arg ++ expand env ch]) [] none false
      | none => tok env rest args arg none false := by
  have hc : isComment c = false := by
    rcases (isBlank_iff c).1 h with h | h | h <;> subst h <;> decide
  cases st <;> simp [tok, h, hc, chunkText_unq]

theorem tok_comment (env : Env) (c : UInt8) (rest : Bytes) (args : List Bytes) (arg : Bytes) (st : Option Bytes)
    (h : isComment c = true) :
    tok env (c :: rest) args arg st false =
      .ok (match st with | some ch => args ++ [arg ++ expand env ch] | none => args) := by
  cases st <;> simp [tok, h, chunkText_unq]

theorem tok_ord (env : Env) (c : UInt8) (rest : Bytes) (args : List Bytes) (arg : Bytes) (st : Option Bytes)
    (h : Ordinary c) :
    tok env (c :: rest) args arg st false =
      tok env rest args arg (match st with | some ch => some (ch ++ [c]) | none => some [c]) false := by
  obtain ⟨hb, hc, hq⟩ := h
  cases st <;> simp [tok, hb, hc, hq]

theorem tok_open (env : Env) (rest : Bytes) (args : List Bytes) (arg : Bytes) (st : Option Bytes) :
    tok env (quoteChar :: rest) args arg st false =
      tok env rest args (arg ++ stText env st) (some []) true := by
  have hb : isBlank quoteChar = false := by decide
  have hc : isComment quoteChar = false := by decide
  cases st <;> simp [tok, hb, hc, chunkText_unq, stText]

/-- Inside quotes a byte other than the quote is saved. -/
theorem tok_q_other (env : Env) (c : UInt8) (rest : Bytes) (args : List Bytes) (arg ch : Bytes)
    (h : c ≠ quoteChar) :
    tok env (c :: rest) args arg (some ch) true = tok env rest args arg (some (ch ++ [c])) true := by
  rw [tok]
  simp [h]

/-- Inside quotes, two quotes: one quote byte is kept and the quoted text goes on. -/
theorem tok_q_doubled (env : Env) (rest : Bytes) (args : List Bytes) (arg ch : Bytes) :
    tok env (quoteChar :: quoteChar :: rest) args arg (some ch) true =
      tok env rest args (arg ++ ch) (some [quoteChar]) true := by
  rw [tok]
  simp [chunkText_q, Gen.Script.doubledQuoteRule]

/-- Inside quotes, a quote not followed by a quote closes the quoted text. -/
theorem tok_q_close (env : Env) (rest : Bytes) (args : List Bytes) (arg ch : Bytes)
    (h : rest.head? ≠ some quoteChar) :
    tok env (quoteChar :: rest) args arg (some ch) true =
      tok env rest args (arg ++ ch) (some []) false := by
  rw [tok]
  cases rest with
  | nil => simp [chunkText_q]
  | cons c2 r =>
    have : c2 ≠ quoteChar := by simpa using h
    simp [chunkText_q, this]

/-! ### runs -/

def AllBlank (b : Bytes) : Prop := ∀ c ∈ b, isBlank c = true
def AllOrdinary (u : Bytes) : Prop := ∀ c ∈ u, Ordinary c

/-- Leading / separating blanks are skipped when no argument is pending. -/
theorem tok_blanks (env : Env) (b rest : Bytes) (args : List Bytes) (hb : AllBlank b) :
    tok env (b ++ rest) args [] none false = tok env rest args [] none false := by
  induction b with
  | nil => rfl
  | cons c b ih =>
    have hc : isBlank c = true := hb c (by simp)
    have hb' : AllBlank b := fun x hx => hb x (by simp [hx])
    simp only [List.cons_append]
    rw [tok_blank env c _ args [] none hc]
    exact ih hb'

/-- A run of ordinary bytes extends the pending chunk. -/
theorem tok_run_some (env : Env) (u rest : Bytes) (args : List Bytes) (arg ch : Bytes) (hu : AllOrdinary u) :
    tok env (u ++ rest) args arg (some ch) false = tok env rest args arg (some (ch ++ u)) false := by
  induction u generalizing ch with
  | nil => simp
  | cons c u ih =>
    have hc : Ordinary c := hu c (by simp)
    have hu' : AllOrdinary u := fun x hx => hu x (by simp [hx])
    simp only [List.cons_append]
    rw [tok_ord env c _ args arg (some ch) hc]
    simp only []
    rw [ih _ hu']
    simp

theorem tok_run_none (env : Env) (u rest : Bytes) (args : List Bytes) (arg : Bytes)
    (hu : AllOrdinary u) (hne : u ≠ []) :
    tok env (u ++ rest) args arg none false = tok env rest args arg (some u) false := by
  cases u with
  | nil => exact absurd rfl hne
  | cons c u =>
    have hc : Ordinary c := hu c (by simp)
    have hu' : AllOrdinary u := fun x hx => hu x (by simp [hx])
    simp only [List.cons_append]
    rw [tok_ord env c _ args arg none hc]
    simp only []
    rw [tok_run_some env u rest args arg [c] hu']
    simp

/-! ### quoted words -/

/-- `w` with every quote byte doubled. -/
def dq (w : Bytes) : Bytes := w.flatMap fun c => if c = quoteChar then [c, c] else [c]

/-- The single-quoted form of `w`. -/
def sq (w : Bytes) : Bytes := quoteChar :: (dq w ++ [quoteChar])

theorem dq_cons (c : UInt8) (w : Bytes) :
    dq (c :: w) = (if c = quoteChar then [c, c] else [c]) ++ dq w := by
  simp [dq]

/-- Inside quotes: the doubled form of `w`, then a closing quote. -/
theorem tok_quoted_body (env : Env) (w rest : Bytes) (args : List Bytes) (arg ch : Bytes)
    (h : rest.head? ≠ some quoteChar) :
    tok env (dq w ++ quoteChar :: rest) args arg (some ch) true =
      tok env rest args (arg ++ ch ++ w) (some []) false := by
  induction w generalizing arg ch with
  | nil => simpa [dq] using tok_q_close env rest args arg ch h
  | cons c w ih =>
    rw [dq_cons]
    by_cases hc : c = quoteChar
    · subst hc
      simp only [if_true, List.cons_append, List.nil_append]
      rw [tok_q_doubled, ih]
      simp
    · simp only [hc, if_false, List.cons_append, List.nil_append]
      rw [tok_q_other env c _ args arg ch hc, ih]
      simp

/-- Outside quotes: a whole single-quoted word. -/
theorem tok_sq (env : Env) (w rest : Bytes) (args : List Bytes) (arg : Bytes) (st : Option Bytes)
    (h : rest.head? ≠ some quoteChar) :
    tok env (sq w ++ rest) args arg st false =
      tok env rest args (arg ++ stText env st ++ w) (some []) false := by
  simp only [sq, List.cons_append, List.append_assoc]
  rw [tok_open]
  have := tok_quoted_body env w rest args (arg ++ stText env st) [] h
  simpa using this

/-! ### tokens as alternating segments -/

/-- A piece of a token: unquoted text (subject to expansion) or a single-quoted word. -/
inductive Seg
  | raw (u : Bytes)
  | quo (w : Bytes)

def Seg.render : Seg → Bytes
  | .raw u => u
  | .quo w => sq w

def Seg.value (env : Env) : Seg → Bytes
  | .raw u => expand env u
  | .quo w => w

def Seg.isRaw : Seg → Bool
  | .raw _ => true
  | .quo _ => false

/-- An unquoted piece is non-empty and free of blanks, comment bytes and quotes. -/
def Seg.OK : Seg → Prop
  | .raw u => u ≠ [] ∧ AllOrdinary u
  | .quo _ => True

def renderSegs (segs : List Seg) : Bytes := segs.flatMap Seg.render
def valueSegs (env : Env) (segs : List Seg) : Bytes := segs.flatMap (Seg.value env)

/-- Well-formed token: every piece OK, unquoted and quoted pieces alternate
(two adjacent quoted pieces would read as a doubled quote, two unquoted ones are one piece). -/
def Alt : List Seg → Prop
  | [] => True
  | [s] => s.OK
  | s :: t :: rest => s.OK ∧ s.isRaw ≠ t.isRaw ∧ Alt (t :: rest)

/-- What may follow a token: end of line, a blank or a comment byte. -/
def EndsTok (rest : Bytes) : Prop :=
  rest = [] ∨ ∃ c r, rest = c :: r ∧ (isBlank c = true ∨ isComment c = true)

theorem EndsTok.head_ne_quote {rest : Bytes} (h : EndsTok rest) : rest.head? ≠ some quoteChar := by
  rcases h with h | ⟨c, r, h, hc⟩
  · simp [h]
  · subst h
    intro hq
    have : c = quoteChar := by simpa using hq
    subst this
    rcases hc with hc | hc <;> revert hc <;> decide

/-- State compatible with the next piece: an unquoted piece must start a fresh chunk. -/
def Compat (st : Option Bytes) (s : Seg) : Prop :=
  s.isRaw = true → (st = none ∨ st = some [])

theorem stText_fresh (env : Env) {st : Option Bytes} (h : st = none ∨ st = some []) : stText env st = [] := by
  rcases h with h | h <;> subst h <;> simp [stText, expand_nil]

/-- One piece, given that what follows does not start with a quote. -/
theorem tok_seg (env : Env) (s : Seg) (hs : s.OK) (rest : Bytes) (args : List Bytes) (arg : Bytes)
    (st : Option Bytes) (hc : Compat st s) (hq : s.isRaw = false → rest.head? ≠ some quoteChar) :
    ∃ arg' ch', tok env (s.render ++ rest) args arg st false = tok env rest args arg' (some ch') false ∧
      arg' ++ expand env ch' = arg ++ stText env st ++ s.value env ∧
      (s.isRaw = false → ch' = []) := by
  cases s with
  | raw u =>
    obtain ⟨hne, hu⟩ := hs
    refine ⟨arg, u, ?_, ?_, by simp [Seg.isRaw]⟩
    · rcases hc rfl with h | h <;> subst h
      · exact tok_run_none env u rest args arg hu hne
      · simpa [Seg.render] using tok_run_some env u rest args arg [] hu
    · simp [Seg.value, stText_fresh env (hc rfl)]
  | quo w =>
    refine ⟨arg ++ stText env st ++ w, [], ?_, ?_, by simp⟩
    · exact tok_sq env w rest args arg st (hq rfl)
    · simp [Seg.value, expand_nil]

theorem render_raw_head {u : Bytes} (hne : u ≠ []) (hu : AllOrdinary u) (rest : Bytes) :
    (u ++ rest).head? ≠ some quoteChar := by
  cases u with
  | nil => exact absurd rfl hne
  | cons c u =>
    have := (hu c (by simp)).2.2
    simpa using this

/-- A whole well-formed token followed by something that ends a token. -/
theorem tok_segs (env : Env) (rest : Bytes) (hr : EndsTok rest) (segs : List Seg) :
    ∀ (s : Seg), Alt (s :: segs) → ∀ (args : List Bytes) (arg : Bytes) (st : Option Bytes), Compat st s →
    ∃ arg' ch', tok env (renderSegs (s :: segs) ++ rest) args arg st false = tok env rest args arg' (some ch') false ∧
      arg' ++ expand env ch' = arg ++ stText env st ++ valueSegs env (s :: segs) := by
  induction segs with
  | nil =>
    intro s hA args arg st hc
    have hs : s.OK := hA
    obtain ⟨arg', ch', h1, h2, _⟩ := tok_seg env s hs rest args arg st hc (fun _ => hr.head_ne_quote)
    exact ⟨arg', ch', by simpa [renderSegs] using h1, by simpa [valueSegs] using h2⟩
  | cons t segs ih =>
    intro s hA args arg st hc
    obtain ⟨hs, hne, hA'⟩ := hA
    -- what follows s is the rendering of t :: segs, then rest
    have hq : s.isRaw = false → (renderSegs (t :: segs) ++ rest).head? ≠ some quoteChar := by
      intro hsq
      have ht : t.isRaw = true := by
        cases hh : t.isRaw
        · rw [hsq, hh] at hne; exact absurd rfl hne
        · rfl
      cases t with
      | quo w => simp [Seg.isRaw] at ht
      | raw u =>
        have htOK : (Seg.raw u).OK := by
          cases segs with
          | nil => exact hA'
          | cons _ _ => exact hA'.1
        have := render_raw_head htOK.1 htOK.2 (renderSegs segs ++ rest)
        simpa [renderSegs, Seg.render, List.append_assoc] using this
    obtain ⟨arg1, ch1, h1, h2, h3⟩ := tok_seg env s hs (renderSegs (t :: segs) ++ rest) args arg st hc hq
    have hc1 : Compat (some ch1) t := by
      intro ht
      have hsq : s.isRaw = false := by
        cases hh : s.isRaw
        · rfl
        · rw [hh, ht] at hne; exact absurd rfl hne
      right
      rw [h3 hsq]
    obtain ⟨arg2, ch2, h4, h5⟩ := ih t hA' args arg1 (some ch1) hc1
    refine ⟨arg2, ch2, ?_, ?_⟩
    · have : renderSegs (s :: t :: segs) ++ rest = s.render ++ (renderSegs (t :: segs) ++ rest) := by
        simp [renderSegs, List.append_assoc]
      rw [this, h1, h4]
    · rw [h5]
      have : stText env (some ch1) = expand env ch1 := rfl
      rw [this, h2]
      simp [valueSegs, List.append_assoc]

/-- A well-formed token at the end of the line is one argument: its value. -/
theorem tok_token_end (env : Env) (segs : List Seg) (hne : segs ≠ []) (hA : Alt segs) (args : List Bytes) :
    tok env (renderSegs segs) args [] none false = .ok (args ++ [valueSegs env segs]) := by
  cases segs with
  | nil => exact absurd rfl hne
  | cons s segs =>
    obtain ⟨arg', ch', h1, h2⟩ := tok_segs env [] (Or.inl rfl) segs s hA args [] none (fun _ => Or.inl rfl)
    have h1' : tok env (renderSegs (s :: segs)) args [] none false = tok env [] args arg' (some ch') false := by
      simpa using h1
    rw [h1', tok_nil_unq]
    simp [h2, stText]

/-- A well-formed token followed by a blank: one argument, then the loop goes on with no pending text. -/
theorem tok_token_blank (env : Env) (segs : List Seg) (hne : segs ≠ []) (hA : Alt segs) (args : List Bytes)
    (c : UInt8) (r : Bytes) (hc : isBlank c = true) :
    tok env (renderSegs segs ++ c :: r) args [] none false =
      tok env r (args ++ [valueSegs env segs]) [] none false := by
  cases segs with
  | nil => exact absurd rfl hne
  | cons s segs =>
    obtain ⟨arg', ch', h1, h2⟩ :=
      tok_segs env (c :: r) (Or.inr ⟨c, r, rfl, Or.inl hc⟩) segs s hA args [] none (fun _ => Or.inl rfl)
    rw [h1, tok_blank env c r args arg' (some ch') hc]
    simp [h2, stText]

/-- A well-formed token followed by a comment byte: one argument, and the line ends. -/
theorem tok_token_comment (env : Env) (segs : List Seg) (hne : segs ≠ []) (hA : Alt segs) (args : List Bytes)
    (c : UInt8) (r : Bytes) (hc : isComment c = true) :
    tok env (renderSegs segs ++ c :: r) args [] none false = .ok (args ++ [valueSegs env segs]) := by
  cases segs with
  | nil => exact absurd rfl hne
  | cons s segs =>
    obtain ⟨arg', ch', h1, h2⟩ :=
      tok_segs env (c :: r) (Or.inr ⟨c, r, rfl, Or.inr hc⟩) segs s hA args [] none (fun _ => Or.inl rfl)
    rw [h1, tok_comment env c r args arg' (some ch') hc]
    simp [h2, stText]

end GIV.Script
