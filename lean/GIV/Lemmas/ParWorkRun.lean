/-
  GIV.Lemmas.ParWorkRun — concrete executions (used by the non-vacuity examples).
-/
import GIV.Lemmas.ParWorkStep
namespace GIV.ParWork

/-- run a list of (task, event) pairs from a state -/
def runFrom (c : Cfg) : State → List (Nat × Event) → Option State
  | s, [] => some s
  | s, (t, e) :: rest =>
    match step c s t e with
    | some s' => runFrom c s' rest
    | none => none

theorem runFrom_reach {c : Cfg} : ∀ {evs : List (Nat × Event)} {s s' : State}, Reach c s → runFrom c s evs = some s' → Reach c s'
  | [], s, s', hr, h => by simp only [runFrom, Option.some.injEq] at h; exact h ▸ hr
  | (t, e) :: rest, s, s', hr, h => by
    simp only [runFrom] at h
    split at h
    · rename_i s1 hs; exact runFrom_reach (Reach.step hr hs) h
    · simp at h

/-- a reachable state with property `P`, from an accepted trace -/
theorem reach_of_run (c : Cfg) (evs : List (Nat × Event)) (P : State → Bool)
    (h : (match runFrom c init0 evs with | some s => P s | none => false) = true) :
    ∃ s, Reach c s ∧ P s = true := by
  split at h
  · rename_i s hs; exact ⟨s, runFrom_reach Reach.init hs, h⟩
  · simp at h

/-- the scenario `Do(2, f)` after `Add(0)`, where `f 0` adds 1 -/
def exCfg : Cfg := { n := 2, init := [0], children := fun x => if x = 0 then [1] else [] }

/-- a complete trace of the instrumented package for `exCfg` (`work 2 0 0>1`, seed 7) -/
def exTrace : List (Nat × Event) :=
  [(0, .start), (0, .lock), (0, .unlock), (0, .doCall 2), (0, .go 1), (0, .lock), (0, .rand 1 0), (0, .unlock),
   (0, .fEnter 0), (0, .lock), (0, .unlock), (0, .fExit 0), (1, .start), (0, .lock), (0, .rand 1 0), (0, .unlock),
   (0, .fEnter 1), (0, .fExit 1), (1, .lock), (1, .wait), (0, .lock), (0, .broadcast 1), (0, .unlock), (0, .doReturn),
   (0, .exit), (1, .wake), (1, .broadcast 0), (1, .unlock), (1, .exit)]

end GIV.ParWork
