/-
  GIV.Lemmas.CachePutReadSet — the READ SET of the lookups (`get`, `GetFile`, `GetBytes`) of the
  system-call model (C12: "a failed Put never makes unrelated entries unreadable").

  What a lookup of `id` reports — under every fault placement, every chunking of the reads, every
  outcome of the `used` mtime test — depends only on
    (a) the index file of `id` (does it exist, its bytes), and
    (b) the data file named by the OutputID that this index file parses to (does it exist, its bytes).
  `ReadAgree P id fs1 fs2` says that two directories agree on (a) and (b); `lookup_readset` then gives,
  for every execution of the lookup in `fs1`, an execution in `fs2` with the same faults, the same label
  numbers and the SAME OUTCOME (a simulation; `ReadAgree` is symmetric, so the sets of possible outcomes
  are equal: `lookup_readset_iff`).  Descriptor numbers, the clock and the process number may differ.
-/
import GIV.Lemmas.CachePutSeq

set_option linter.unusedSimpArgs false
set_option linter.unusedSectionVars false
set_option linter.unusedVariables false

namespace GIV.CachePut
open GIV

variable {Id Hsh : Type} [DecidableEq Id] [DecidableEq Hsh]
variable {P : Params Id Hsh} {now1 now2 : Int}
  {fs1 fs1' fs2 fs2' : FS Id Hsh} {proc1 proc2 n : Nat} {fault : Fault}

/-! ## contents under the structural invariant -/

theorem SameFiles.trans {a b c : FS Id Hsh} (h1 : SameFiles a b) (h2 : SameFiles b c) : SameFiles a c :=
  ⟨h2.1.trans h1.1, h2.2.1.trans h1.2.1, h2.2.2.trans h1.2.2⟩

theorem SameFiles.struct {a b : FS Id Hsh} (h : SameFiles a b) (hs : Struct a) : Struct b := by
  obtain ⟨h1, h2, h3⟩ := h
  refine ⟨?_, ?_⟩
  · intro p i hn; rw [h1] at hn; rw [h2]; exact hs.named p i hn
  · intro i nd hn; rw [h2] at hn; rw [h3]; exact hs.bound i nd hn

theorem sameFiles_closeProc (fs : FS Id Hsh) (proc : Nat) : SameFiles fs (fs.closeProc proc) := ⟨rfl, rfl, rfl⟩

/-- a name is absent, or leads to an inode: under `Struct` the content of a name says which. -/
theorem content_cases {fs : FS Id Hsh} (hst : Struct fs) (p : Name Id Hsh) :
    (fs.names p = none ∧ fs.content p = none) ∨
    ∃ i nd, fs.names p = some i ∧ fs.inodes i = some nd ∧ fs.content p = some nd.data := by
  cases hn : fs.names p with
  | none => exact Or.inl ⟨rfl, by simp [FS.content, FS.file?, hn]⟩
  | some i =>
    obtain ⟨nd, h1, _⟩ := hst.named p i hn
    exact Or.inr ⟨i, nd, rfl, h1, by simp [FS.content, FS.file?, hn, h1]⟩

/-! ## the system calls of a lookup, as functions of the contents they look at -/

/-- a call that is not a write: the fault is `fail` (no effect) or the call is performed. -/
theorem exec_nowrite_cases {fs fs' : FS Id Hsh} {proc : Nat} {sys : Sys Id Hsh} {r : Res}
    (hw : ∀ fd bs, sys ≠ .write fd bs) (hs : exec fs proc sys fault = some (fs', r)) :
    (fault = .fail ∧ fs' = fs ∧ r = .fail) ∨
    ((fault = .none ∨ fault = .crashAfter) ∧ execOk fs proc sys = some (fs', r)) := by
  cases fault <;> simp only [exec] at hs
  case none => exact Or.inr ⟨Or.inl rfl, hs⟩
  case crashAfter => exact Or.inr ⟨Or.inr rfl, hs⟩
  case fail => simp at hs; exact Or.inl ⟨rfl, hs.1.symm, hs.2.symm⟩
  case crashBefore => simp at hs
  case short k =>
    cases sys
    case write fd bs => exact absurd rfl (hw fd bs)
    all_goals simp at hs

theorem exec_eq_execOk {fs : FS Id Hsh} {proc : Nat} {sys : Sys Id Hsh} (hf : fault = .none ∨ fault = .crashAfter) :
    exec fs proc sys fault = execOk fs proc sys := by
  rcases hf with rfl | rfl <;> rfl

theorem execOk_stat_content {fs : FS Id Hsh} (hst : Struct fs) (proc : Nat) (p : Name Id Hsh) :
    execOk fs proc (.stat p) = some (fs, match fs.content p with | none => .enoent | some d => .okSize d.length) := by
  rcases content_cases hst p with ⟨h1, h2⟩ | ⟨i, nd, h1, h2, h3⟩
  · simp [execOk, h1, h2]
  · simp [execOk, h1, h2, h3]

theorem execOk_chtimes_content {fs : FS Id Hsh} (hst : Struct fs) (proc : Nat) (p : Name Id Hsh) :
    execOk fs proc (.chtimes p) = some (fs, match fs.content p with | none => .enoent | some _ => .ok) := by
  rcases content_cases hst p with ⟨h1, h2⟩ | ⟨i, nd, h1, h2, h3⟩
  · simp [execOk, h1, h2]
  · simp [execOk, h1, h2, h3]

/-- `stat p` in two directories that agree on `p`: same result, no effect. -/
theorem exec_stat_sim {p : Name Id Hsh} {r : Res} (st1 : Struct fs1) (st2 : Struct fs2)
    (hc : fs2.content p = fs1.content p)
    (hs : exec fs1 proc1 (.stat p) fault = some (fs1', r)) :
    fs1' = fs1 ∧ exec fs2 proc2 (.stat p) fault = some (fs2, r) := by
  rcases exec_nowrite_cases (by intro fd bs h; cases h) hs with ⟨rfl, rfl, rfl⟩ | ⟨hf, hok⟩
  · exact ⟨rfl, rfl⟩
  · rw [execOk_stat_content st1] at hok
    rw [exec_eq_execOk hf, execOk_stat_content st2, hc]
    simp at hok
    exact ⟨hok.1.symm, by rw [hok.2]⟩

theorem exec_chtimes_sim {p : Name Id Hsh} {r : Res} (st1 : Struct fs1) (st2 : Struct fs2)
    (hc : fs2.content p = fs1.content p)
    (hs : exec fs1 proc1 (.chtimes p) fault = some (fs1', r)) :
    fs1' = fs1 ∧ exec fs2 proc2 (.chtimes p) fault = some (fs2, r) := by
  rcases exec_nowrite_cases (by intro fd bs h; cases h) hs with ⟨rfl, rfl, rfl⟩ | ⟨hf, hok⟩
  · exact ⟨rfl, rfl⟩
  · rw [execOk_chtimes_content st1] at hok
    rw [exec_eq_execOk hf, execOk_chtimes_content st2, hc]
    simp at hok
    exact ⟨hok.1.symm, by rw [hok.2]⟩

/-- `close` is always enabled and changes no file (what it returns is not looked at by the lookups). -/
theorem exec_close_sim {fd1 fd2 : Nat} {r : Res}
    (hs : exec fs1 proc1 (.close fd1) fault = some (fs1', r)) :
    SameFiles fs1 fs1' ∧ ∃ fs2' r2, exec fs2 proc2 (.close fd2) fault = some (fs2', r2) ∧ SameFiles fs2 fs2' := by
  refine ⟨exec_close_same hs, ?_⟩
  rcases exec_nowrite_cases (by intro fd bs h; cases h) hs with ⟨rfl, rfl, rfl⟩ | ⟨hf, hok⟩
  · exact ⟨fs2, .fail, rfl, SameFiles.refl _⟩
  · rw [exec_eq_execOk hf]
    cases hfd : fs2.fds fd2 with
    | none => exact ⟨fs2, .eclosed, by simp [execOk, hfd], SameFiles.refl _⟩
    | some o => exact ⟨fs2.setFd fd2 none, .ok, by simp [execOk, hfd], ⟨rfl, rfl, rfl⟩⟩

/-- two descriptors (one in each directory) at the same offset of files with the same bytes. -/
def FdSim (fs1 fs2 : FS Id Hsh) (fd1 fd2 : Nat) (d : Bytes) (off : Nat) : Prop :=
  ∃ o1 nd1 o2 nd2, fs1.fds fd1 = some o1 ∧ fs1.inodes o1.ino = some nd1 ∧ fs2.fds fd2 = some o2 ∧
    fs2.inodes o2.ino = some nd2 ∧ nd1.data = d ∧ nd2.data = d ∧ o1.off = off ∧ o2.off = off

/-- a read-only `open p` in two directories that agree on `p`: both fail alike, or both succeed with
descriptors at offset 0 of files with the same bytes. -/
theorem exec_open_ro_sim {p : Name Id Hsh} {r : Res} (st1 : Struct fs1) (st2 : Struct fs2)
    (hc : fs2.content p = fs1.content p)
    (hs : exec fs1 proc1 (.open p .rdonly false false) fault = some (fs1', r)) :
    SameFiles fs1 fs1' ∧
    ((∃ fd1 fd2 fs2' d, r = .okFd fd1 ∧
        exec fs2 proc2 (.open p .rdonly false false) fault = some (fs2', .okFd fd2) ∧ SameFiles fs2 fs2' ∧
        fs1.content p = some d ∧ FdSim fs1' fs2' fd1 fd2 d 0) ∨
     ((∀ fd, r ≠ .okFd fd) ∧ exec fs2 proc2 (.open p .rdonly false false) fault = some (fs2, r))) := by
  refine ⟨exec_open_ro_same hs, ?_⟩
  rcases exec_nowrite_cases (by intro fd bs h; cases h) hs with ⟨rfl, rfl, rfl⟩ | ⟨hf, hok⟩
  · exact Or.inr ⟨(by intro fd h; cases h), rfl⟩
  · rw [exec_eq_execOk hf]
    rcases content_cases st1 p with ⟨h1, h2⟩ | ⟨i1, nd1, h1, h2, h3⟩
    · rcases content_cases st2 p with ⟨g1, g2⟩ | ⟨i2, nd2, g1, g2, g3⟩
      · simp [execOk, h1] at hok
        obtain ⟨rfl, rfl⟩ := hok
        exact Or.inr ⟨(by intro fd h; cases h), by simp [execOk, g1]⟩
      · rw [h2, g3] at hc; cases hc
    · rcases content_cases st2 p with ⟨g1, g2⟩ | ⟨i2, nd2, g1, g2, g3⟩
      · rw [h3, g2] at hc; cases hc
      · rw [h3, g3] at hc
        have hd : nd2.data = nd1.data := by simpa using hc
        simp [execOk, h1, h2, FS.newFd] at hok
        obtain ⟨rfl, rfl⟩ := hok
        refine Or.inl ⟨fs1.nextFd, fs2.nextFd, (fs2.newFd i2 proc2).1, nd1.data, rfl, ?_, ⟨rfl, rfl, rfl⟩, h3, ?_⟩
        · simp [execOk, g1, g2, FS.newFd]
        · exact ⟨⟨i1, 0, proc1⟩, nd1, ⟨i2, 0, proc2⟩, nd2, by simp, h2, by simp [FS.newFd], by simpa [FS.newFd] using g2,
            rfl, hd, rfl, rfl⟩

/-- a `read` through two such descriptors: same result; afterwards both are at the same new offset. -/
theorem exec_read_sim {fd1 fd2 k off : Nat} {d : Bytes} {r : Res} (hfd : FdSim fs1 fs2 fd1 fd2 d off)
    (hs : exec fs1 proc1 (.read fd1 k) fault = some (fs1', r)) :
    SameFiles fs1 fs1' ∧ ∃ fs2', exec fs2 proc2 (.read fd2 k) fault = some (fs2', r) ∧ SameFiles fs2 fs2' ∧
      ((r = .fail ∧ fs1' = fs1 ∧ fs2' = fs2) ∨
       (r = .eof ∧ fs1' = fs1 ∧ fs2' = fs2 ∧ (d.drop off).take k = []) ∨
       (∃ bs, r = .okData bs ∧ bs ≠ [] ∧ bs = (d.drop off).take k ∧ FdSim fs1' fs2' fd1 fd2 d (off + bs.length))) := by
  refine ⟨exec_read_same hs, ?_⟩
  obtain ⟨o1, nd1, o2, nd2, a1, a2, b1, b2, rfl, hd, rfl, ho⟩ := hfd
  rcases exec_nowrite_cases (by intro fd bs h; cases h) hs with ⟨rfl, rfl, rfl⟩ | ⟨hf, hok⟩
  · exact ⟨fs2, rfl, SameFiles.refl _, Or.inl ⟨rfl, rfl, rfl⟩⟩
  · rw [exec_eq_execOk hf]
    simp only [execOk, a1, a2] at hok
    by_cases hb : (nd1.data.drop o1.off).take k = []
    · rw [if_pos hb] at hok
      simp only [Option.some.injEq, Prod.mk.injEq] at hok
      obtain ⟨rfl, rfl⟩ := hok
      exact ⟨fs2, by simp [execOk, b1, b2, hd, ho, hb], SameFiles.refl _, Or.inr (Or.inl ⟨rfl, rfl, rfl, hb⟩)⟩
    · rw [if_neg hb] at hok
      simp only [Option.some.injEq, Prod.mk.injEq] at hok
      obtain ⟨rfl, rfl⟩ := hok
      refine ⟨fs2.setFd fd2 (some { o2 with off := o2.off + ((nd1.data.drop o1.off).take k).length }),
        ?_, ⟨rfl, rfl, rfl⟩, Or.inr (Or.inr ⟨_, rfl, hb, rfl, ?_⟩)⟩
      · simp only [execOk, b1, b2, hd, ho, if_neg hb]
      · exact ⟨{ o1 with off := o1.off + ((nd1.data.drop o1.off).take k).length }, nd1,
          { o2 with off := o2.off + ((nd1.data.drop o1.off).take k).length }, nd2,
          by simp [FS.setFd], by simpa [FS.setFd] using a2, by simp [FS.setFd],
          by simpa [FS.setFd] using b2, rfl, hd, rfl, by simp [ho]⟩

/-! ## the read set -/

/-- **what the lookups of `id` read**: two (structurally sound) directories agree on the index file of
`id` — existence and bytes — and, if that file parses to an entry, on the data file of the OutputID the
entry holds — existence and bytes (`stat` reports only the length of the bytes).  Nothing is said about
any other file, about descriptors, inode numbers or counters. -/
structure ReadAgree (P : Params Id Hsh) (id : Id) (fs1 fs2 : FS Id Hsh) : Prop where
  st1 : Struct fs1
  st2 : Struct fs2
  idx : fs2.content (.index id) = fs1.content (.index id)
  dat : ∀ d e, fs1.content (.index id) = some d → P.parse id d = some e →
    fs2.content (.data e.out) = fs1.content (.data e.out)

theorem ReadAgree.symm {id : Id} (h : ReadAgree P id fs1 fs2) : ReadAgree P id fs2 fs1 :=
  ⟨h.st2, h.st1, h.idx.symm, fun d e hd he => (h.dat d e (by rw [← h.idx]; exact hd) he).symm⟩

theorem ReadAgree.refl {id : Id} {fs : FS Id Hsh} (h : Struct fs) : ReadAgree P id fs fs :=
  ⟨h, h, rfl, fun _ _ _ _ => rfl⟩

/-- agreement on the index file of `id` and on EVERY data file is more than enough. -/
theorem ReadAgree.of_all_data {id : Id} (st1 : Struct fs1) (st2 : Struct fs2)
    (hi : fs2.content (.index id) = fs1.content (.index id))
    (hd : ∀ h, fs2.content (.data h) = fs1.content (.data h)) : ReadAgree P id fs1 fs2 :=
  ⟨st1, st2, hi, fun _ e _ _ => hd e.out⟩

theorem ReadAgree.same {id : Id} (h : ReadAgree P id fs1 fs2) (h1 : SameFiles fs1 fs1') (h2 : SameFiles fs2 fs2') :
    ReadAgree P id fs1' fs2' := by
  refine ⟨h1.struct h.st1, h2.struct h.st2, ?_, ?_⟩
  · rw [content_same h1, content_same h2]; exact h.idx
  · intro d e hd he
    rw [content_same h1] at hd
    rw [content_same h1, content_same h2]
    exact h.dat d e hd he

/-- the entry a lookup of `id` is working with is the one its index file parses to. -/
def Good (P : Params Id Hsh) (id : Id) (fs1 : FS Id Hsh) (e : Entry Hsh) : Prop :=
  ∃ d, fs1.content (.index id) = some d ∧ P.parse id d = some e

theorem Good.same {id : Id} {e : Entry Hsh} (h : Good P id fs1 e) (h1 : SameFiles fs1 fs1') : Good P id fs1' e := by
  obtain ⟨d, hd, he⟩ := h
  exact ⟨d, by rw [content_same h1]; exact hd, he⟩

theorem ReadAgree.data {id : Id} {e : Entry Hsh} (h : ReadAgree P id fs1 fs2) (hg : Good P id fs1 e) :
    fs2.content (.data e.out) = fs1.content (.data e.out) := by
  obtain ⟨d, hd, he⟩ := hg
  exact h.dat d e hd he

/-- the program points of a lookup of `id` in `fs1` and in `fs2` correspond: same point, same accumulated
bytes, same entry; descriptor numbers may differ, but they stand at the same offset of equal bytes. -/
def PCSim (P : Params Id Hsh) (id : Id) (fs1 fs2 : FS Id Hsh) : PC Hsh → PC Hsh → Prop
  | .gOpen, pc2 => pc2 = .gOpen
  | .gRead fd1 acc, pc2 => ∃ fd2 d, pc2 = .gRead fd2 acc ∧ acc.length < Gen.CachePut.getBufLen ∧
      fs1.content (.index id) = some d ∧ FdSim fs1 fs2 fd1 fd2 d acc.length ∧ acc = d.take acc.length
  | .gUsedStat _ e, pc2 => ∃ fd2, pc2 = .gUsedStat fd2 e ∧ Good P id fs1 e
  | .gUsedChtimes _ e, pc2 => ∃ fd2, pc2 = .gUsedChtimes fd2 e ∧ Good P id fs1 e
  | .gClose _ r, pc2 => ∃ fd2, pc2 = .gClose fd2 r ∧ ∀ e, r = some e → Good P id fs1 e
  | .oStat e, pc2 => pc2 = .oStat e ∧ Good P id fs1 e
  | .oChtimes e, pc2 => pc2 = .oChtimes e ∧ Good P id fs1 e
  | .fStat e, pc2 => pc2 = .fStat e ∧ Good P id fs1 e
  | .bOpen e, pc2 => pc2 = .bOpen e ∧ Good P id fs1 e
  | .bRead fd1 acc e, pc2 => ∃ fd2 d, pc2 = .bRead fd2 acc e ∧ FdSim fs1 fs2 fd1 fd2 d acc.length
  | .bClose _ acc e, pc2 => ∃ fd2, pc2 = .bClose fd2 acc e
  | _, _ => False

/-- the continuations correspond: the same result, or corresponding program points. -/
def NextSim (P : Params Id Hsh) (id : Id) (fs1 fs2 : FS Id Hsh) : Next Hsh → Next Hsh → Prop
  | .goto a, .goto b => PCSim P id fs1 fs2 a b
  | .done r1, .done r2 => r1 = r2
  | _, _ => False

/-! ### the continuation function on the program points of a lookup -/

section nextLemmas
variable {op : Op Id} {content : Name Id Hsh → Option Bytes} {r : Res}

theorem next_gOpen (hop : isLookup op = true) :
    next P content n op .gOpen r = (match r with | .okFd fd => .goto (.gRead fd []) | _ => .done .miss) := by
  cases op <;> simp [isLookup] at hop <;> cases r <;> rfl

theorem next_gRead (hop : isLookup op = true) {fd : Nat} {acc : Bytes} :
    next P content n op (.gRead fd acc) r = (match r with
      | .okData bs => if (acc ++ bs).length ≥ Gen.CachePut.getBufLen then .goto (.gClose fd none) else .goto (.gRead fd (acc ++ bs))
      | .eof => match P.parse op.id acc with
        | some e => .goto (.gUsedStat fd e)
        | none => .goto (.gClose fd none)
      | _ => .goto (.gClose fd none)) := by
  cases op <;> simp [isLookup] at hop <;> cases r <;> rfl

theorem next_gUsedStat (hop : isLookup op = true) {fd : Nat} {e : Entry Hsh} :
    next P content n op (.gUsedStat fd e) r = (if n = 0 then .goto (.gClose fd (some e)) else .goto (.gUsedChtimes fd e)) := by
  cases op <;> simp [isLookup] at hop <;> cases r <;> rfl

theorem next_gUsedChtimes (hop : isLookup op = true) {fd : Nat} {e : Entry Hsh} :
    next P content n op (.gUsedChtimes fd e) r = .goto (.gClose fd (some e)) := by
  cases op <;> simp [isLookup] at hop <;> cases r <;> rfl

theorem next_gClose (hop : isLookup op = true) {fd : Nat} {ro : Option (Entry Hsh)} :
    next P content n op (.gClose fd ro) r = afterGetClose op ro := by
  cases op <;> simp [isLookup] at hop <;> cases r <;> rfl

theorem next_oStat (hop : isLookup op = true) {e : Entry Hsh} :
    next P content n op (.oStat e) r = (if n = 0 then afterUsed op e else .goto (.oChtimes e)) := by
  cases op <;> simp [isLookup] at hop <;> cases r <;> rfl

theorem next_oChtimes (hop : isLookup op = true) {e : Entry Hsh} :
    next P content n op (.oChtimes e) r = afterUsed op e := by
  cases op <;> simp [isLookup] at hop <;> cases r <;> rfl

theorem next_fStat (hop : isLookup op = true) {e : Entry Hsh} :
    next P content n op (.fStat e) r = (match r with
      | .okSize L => if Gen.CachePut.getFileReject L e.size then .done .miss else .done (.file e (content (.data e.out)))
      | _ => .done .miss) := by
  cases op <;> simp [isLookup] at hop <;> cases r <;> rfl

theorem next_bOpen (hop : isLookup op = true) {e : Entry Hsh} :
    next P content n op (.bOpen e) r = (match r with
      | .okFd fd => .goto (.bRead fd [] e)
      | _ => bytesResult P [] e) := by
  cases op <;> simp [isLookup] at hop <;> cases r <;> rfl

theorem next_bRead (hop : isLookup op = true) {fd : Nat} {acc : Bytes} {e : Entry Hsh} :
    next P content n op (.bRead fd acc e) r = (match r with
      | .okData bs => .goto (.bRead fd (acc ++ bs) e)
      | _ => .goto (.bClose fd acc e)) := by
  cases op <;> simp [isLookup] at hop <;> cases r <;> rfl

theorem next_bClose (hop : isLookup op = true) {fd : Nat} {acc : Bytes} {e : Entry Hsh} :
    next P content n op (.bClose fd acc e) r = bytesResult P acc e := by
  cases op <;> simp [isLookup] at hop <;> cases r <;> rfl

end nextLemmas

theorem tstep_of_exec {fs fs' : FS Id Hsh} {now : Int} {proc : Nat} {op : Op Id} {pc : PC Hsh} {r : Res}
    (h : exec fs proc (sysOf P now n op pc) fault = some (fs', r)) :
    tstep P now fs proc op pc fault n = some (fs', r, next P fs'.content n op pc r) := by
  simp [tstep, h]

theorem sim_afterGetClose {op : Op Id} (hop : isLookup op = true) {ro : Option (Entry Hsh)}
    (h : ∀ e, ro = some e → Good P op.id fs1 e) :
    NextSim P op.id fs1 fs2 (afterGetClose op ro) (afterGetClose op ro) := by
  cases ro with
  | none => simp [afterGetClose, NextSim]
  | some e =>
    have := h e rfl
    cases op <;> simp [isLookup] at hop <;> simp [afterGetClose, NextSim, PCSim, this]

theorem sim_afterUsed {op : Op Id} (hop : isLookup op = true) {e : Entry Hsh} (h : Good P op.id fs1 e) :
    NextSim P op.id fs1 fs2 (afterUsed op e) (afterUsed op e) := by
  cases op <;> simp [isLookup] at hop <;> simp [afterUsed, NextSim, PCSim, h]

theorem sim_bytesResult {id : Id} {acc : Bytes} {e : Entry Hsh} :
    NextSim P id fs1 fs2 (bytesResult P acc e) (bytesResult P acc e) := by
  unfold bytesResult
  split <;> simp [NextSim]

/-! ## one step -/

/-- **Simulation of one program step of a lookup**: in two directories that agree on the read set, from
corresponding program points, the same label (fault, number) is enabled, leaves both directories'
files alone, and leads to corresponding continuations — in particular to the same result. -/
theorem lookup_step_sim {op : Op Id} (hop : isLookup op = true) {pc1 pc2 : PC Hsh} {r1 : Res} {nx1 : Next Hsh}
    (hag : ReadAgree P op.id fs1 fs2) (hpc : PCSim P op.id fs1 fs2 pc1 pc2)
    (hs : tstep P now1 fs1 proc1 op pc1 fault n = some (fs1', r1, nx1)) :
    SameFiles fs1 fs1' ∧ ∃ fs2' r2 nx2, tstep P now2 fs2 proc2 op pc2 fault n = some (fs2', r2, nx2) ∧
      SameFiles fs2 fs2' ∧ NextSim P op.id fs1' fs2' nx1 nx2 := by
  obtain ⟨he, rfl⟩ := tstep_eq hs
  cases pc1 <;> simp only [PCSim] at hpc
  case gOpen =>
    subst hpc
    obtain ⟨hs1, hcase⟩ := exec_open_ro_sim (proc2 := proc2) hag.st1 hag.st2 hag.idx he
    refine ⟨hs1, ?_⟩
    rcases hcase with ⟨fd1, fd2, fs2', d, rfl, he2, hs2, hd, hfd⟩ | ⟨hr, he2⟩
    · refine ⟨fs2', _, _, tstep_of_exec (pc := .gOpen) he2, hs2, ?_⟩
      rw [next_gOpen hop, next_gOpen hop]
      simp only [NextSim, PCSim]
      exact ⟨fd2, d, rfl, by simp [Gen.CachePut.getBufLen], by rw [content_same hs1]; exact hd, hfd, by simp⟩
    · refine ⟨fs2, _, _, tstep_of_exec (pc := .gOpen) he2, SameFiles.refl _, ?_⟩
      rw [next_gOpen hop, next_gOpen hop]
      cases r1 <;> simp only [NextSim]
      case okFd fd => exact absurd rfl (hr fd)
  case gRead fd1 acc =>
    obtain ⟨fd2, d, rfl, hlt, hd, hfd, hacc⟩ := hpc
    obtain ⟨hs1, fs2', he2, hs2, hcase⟩ := exec_read_sim (proc2 := proc2) hfd he
    refine ⟨hs1, fs2', _, _, tstep_of_exec (pc := .gRead fd2 acc) he2, hs2, ?_⟩
    rw [next_gRead hop, next_gRead hop]
    rcases hcase with ⟨rfl, rfl, rfl⟩ | ⟨rfl, rfl, rfl, hnil⟩ | ⟨bs, rfl, hbne, hbs, hfd'⟩
    · simp [NextSim, PCSim]
    · -- end of file: `acc` is the whole index file
      have hdrop : d.drop acc.length = [] := take_nil_of_pos (by omega) hnil
      have hwhole : acc = d := by rw [hacc]; exact List.take_of_length_le (List.drop_eq_nil_iff.mp hdrop)
      simp only
      cases hp : P.parse op.id acc with
      | none => simp [NextSim, PCSim]
      | some e =>
        simp only [NextSim, PCSim]
        exact ⟨fd2, rfl, d, hd, by rw [← hwhole]; exact hp⟩
    · simp only
      split
      · simp [NextSim, PCSim]
      · next hlen =>
        simp only [NextSim, PCSim]
        refine ⟨fd2, d, rfl, by omega, by rw [content_same hs1]; exact hd, by simpa using hfd', ?_⟩
        rw [List.length_append, List.take_add, ← hacc, hbs]
        congr 1
        exact (take_take_length _ _).symm
  case gUsedStat fd1 e =>
    obtain ⟨fd2, rfl, hg⟩ := hpc
    obtain ⟨rfl, he2⟩ := exec_stat_sim (proc2 := proc2) hag.st1 hag.st2 hag.idx he
    refine ⟨SameFiles.refl _, fs2, _, _, tstep_of_exec (pc := .gUsedStat fd2 e) he2, SameFiles.refl _, ?_⟩
    rw [next_gUsedStat hop, next_gUsedStat hop]
    split <;> simp only [NextSim, PCSim]
    · exact ⟨fd2, rfl, fun e' h => by cases h; exact hg⟩
    · exact ⟨fd2, rfl, hg⟩
  case gUsedChtimes fd1 e =>
    obtain ⟨fd2, rfl, hg⟩ := hpc
    obtain ⟨rfl, he2⟩ := exec_chtimes_sim (proc2 := proc2) hag.st1 hag.st2 hag.idx he
    refine ⟨SameFiles.refl _, fs2, _, _, tstep_of_exec (pc := .gUsedChtimes fd2 e) he2, SameFiles.refl _, ?_⟩
    rw [next_gUsedChtimes hop, next_gUsedChtimes hop]
    simp only [NextSim, PCSim]
    exact ⟨fd2, rfl, fun e' h => by cases h; exact hg⟩
  case gClose fd1 ro =>
    obtain ⟨fd2, rfl, hg⟩ := hpc
    obtain ⟨hs1, fs2', r2, he2, hs2⟩ := exec_close_sim (proc2 := proc2) (fs2 := fs2) (fd2 := fd2) he
    refine ⟨hs1, fs2', r2, _, tstep_of_exec (pc := .gClose fd2 ro) he2, hs2, ?_⟩
    rw [next_gClose hop, next_gClose hop]
    exact sim_afterGetClose hop (fun e h => (hg e h).same hs1)
  case oStat e =>
    obtain ⟨rfl, hg⟩ := hpc
    obtain ⟨rfl, he2⟩ := exec_stat_sim (proc2 := proc2) hag.st1 hag.st2 (hag.data hg) he
    refine ⟨SameFiles.refl _, fs2, _, _, tstep_of_exec (pc := .oStat e) he2, SameFiles.refl _, ?_⟩
    rw [next_oStat hop, next_oStat hop]
    split
    · exact sim_afterUsed hop hg
    · simp [NextSim, PCSim, hg]
  case oChtimes e =>
    obtain ⟨rfl, hg⟩ := hpc
    obtain ⟨rfl, he2⟩ := exec_chtimes_sim (proc2 := proc2) hag.st1 hag.st2 (hag.data hg) he
    refine ⟨SameFiles.refl _, fs2, _, _, tstep_of_exec (pc := .oChtimes e) he2, SameFiles.refl _, ?_⟩
    rw [next_oChtimes hop, next_oChtimes hop]
    exact sim_afterUsed hop hg
  case fStat e =>
    obtain ⟨rfl, hg⟩ := hpc
    obtain ⟨rfl, he2⟩ := exec_stat_sim (proc2 := proc2) hag.st1 hag.st2 (hag.data hg) he
    refine ⟨SameFiles.refl _, fs2, _, _, tstep_of_exec (pc := .fStat e) he2, SameFiles.refl _, ?_⟩
    rw [next_fStat hop, next_fStat hop, hag.data hg]
    cases r1 <;> simp only [NextSim]
    case okSize L =>
      cases hrej : Gen.CachePut.getFileReject L e.size <;> simp [NextSim]
  case bOpen e =>
    obtain ⟨rfl, hg⟩ := hpc
    obtain ⟨hs1, hcase⟩ := exec_open_ro_sim (proc2 := proc2) hag.st1 hag.st2 (hag.data hg) he
    refine ⟨hs1, ?_⟩
    rcases hcase with ⟨fd1, fd2, fs2', d, rfl, he2, hs2, hd, hfd⟩ | ⟨hr, he2⟩
    · refine ⟨fs2', _, _, tstep_of_exec (pc := .bOpen e) he2, hs2, ?_⟩
      rw [next_bOpen hop, next_bOpen hop]
      simp only [NextSim, PCSim]
      exact ⟨fd2, d, rfl, hfd⟩
    · refine ⟨fs2, _, _, tstep_of_exec (pc := .bOpen e) he2, SameFiles.refl _, ?_⟩
      rw [next_bOpen hop, next_bOpen hop]
      cases r1 <;> first | exact sim_bytesResult | skip
      case okFd fd => exact absurd rfl (hr fd)
  case bRead fd1 acc e =>
    obtain ⟨fd2, d, rfl, hfd⟩ := hpc
    obtain ⟨hs1, fs2', he2, hs2, hcase⟩ := exec_read_sim (proc2 := proc2) hfd he
    refine ⟨hs1, fs2', _, _, tstep_of_exec (pc := .bRead fd2 acc e) he2, hs2, ?_⟩
    rw [next_bRead hop, next_bRead hop]
    rcases hcase with ⟨rfl, rfl, rfl⟩ | ⟨rfl, rfl, rfl, hnil⟩ | ⟨bs, rfl, hbne, hbs, hfd'⟩
    · simp [NextSim, PCSim]
    · simp [NextSim, PCSim]
    · simp only [NextSim, PCSim]
      exact ⟨fd2, d, rfl, by simpa using hfd'⟩
  case bClose fd1 acc e =>
    obtain ⟨fd2, rfl⟩ := hpc
    obtain ⟨hs1, fs2', r2, he2, hs2⟩ := exec_close_sim (proc2 := proc2) (fs2 := fs2) (fd2 := fd2) he
    refine ⟨hs1, fs2', r2, _, tstep_of_exec (pc := .bClose fd2 acc e) he2, hs2, ?_⟩
    rw [next_bClose hop, next_bClose hop]
    exact sim_bytesResult

/-! ## whole executions -/

/-- simulation of a run of a lookup from corresponding program points: the same fault budget, the same
outcome (the result reported, or death). -/
theorem lookup_run_sim {op : Op Id} (hop : isLookup op = true) {pc1 : PC Hsh} {used : Bool} {o : Outcome Hsh}
    (hrun : OpRun P now1 proc1 op fs1 pc1 used fs1' o) :
    ∀ {fs2 : FS Id Hsh} {pc2 : PC Hsh}, ReadAgree P op.id fs1 fs2 → PCSim P op.id fs1 fs2 pc1 pc2 →
      ∃ fs2', OpRun P now2 proc2 op fs2 pc2 used fs2' o ∧ SameFiles fs2 fs2' ∧ SameFiles fs1 fs1' := by
  induction hrun with
  | step hf hs _ ih =>
    intro fs2 pc2 hag hpc
    obtain ⟨hs1, fs2a, r2, nx2, ht2, hs2, hnx⟩ := lookup_step_sim (now2 := now2) (proc2 := proc2) hop hag hpc hs
    cases nx2 with
    | done res => simp [NextSim] at hnx
    | goto pc2' =>
      obtain ⟨fs2b, hrun2, hs2b, hs1b⟩ := ih (hag.same hs1 hs2) hnx
      exact ⟨fs2b, OpRun.step hf ht2 hrun2, hs2.trans hs2b, hs1.trans hs1b⟩
  | done hf hs =>
    intro fs2 pc2 hag hpc
    obtain ⟨hs1, fs2a, r2, nx2, ht2, hs2, hnx⟩ := lookup_step_sim (now2 := now2) (proc2 := proc2) hop hag hpc hs
    cases nx2 with
    | goto pc2' => simp [NextSim] at hnx
    | done res =>
      simp only [NextSim] at hnx
      subst hnx
      exact ⟨fs2a, OpRun.done hf ht2, hs2, hs1⟩
  | crashBefore =>
    intro fs2 pc2 hag hpc
    exact ⟨fs2.closeProc proc2, OpRun.crashBefore, sameFiles_closeProc _ _, sameFiles_closeProc _ _⟩
  | crashAfter hs =>
    intro fs2 pc2 hag hpc
    obtain ⟨hs1, fs2a, r2, nx2, ht2, hs2, hnx⟩ := lookup_step_sim (now2 := now2) (proc2 := proc2) hop hag hpc hs
    exact ⟨fs2a.closeProc proc2, OpRun.crashAfter ht2, hs2.trans (sameFiles_closeProc _ _),
      hs1.trans (sameFiles_closeProc _ _)⟩

/-- **The read set of the lookups** (frame lemma).  If two directories agree on the index file of
`op.id` and on the data file named by the OutputID that index file parses to (`ReadAgree`), then every
execution of the lookup `op` (`get`, `GetFile` or `GetBytes`; any fault placement within the budget,
any chunking, any mtime-test outcome, death at any point) in the first has a counterpart in the second with the
SAME OUTCOME — the same reported result, byte for byte, or death.  The clock and the process number
need not be the same; neither execution changes a file. -/
theorem lookup_readset {op : Op Id} (hop : isLookup op = true) {o : Outcome Hsh}
    (hag : ReadAgree P op.id fs1 fs2) (hex : OpExec P now1 proc1 op fs1 fs1' o) :
    ∃ fs2', OpExec P now2 proc2 op fs2 fs2' o ∧ SameFiles fs2 fs2' ∧ SameFiles fs1 fs1' := by
  cases op with
  | put id s => simp [isLookup] at hop
  | get id =>
    obtain ⟨fs2', h, h2, h1⟩ := lookup_run_sim (now2 := now2) (proc2 := proc2) hop (pc1 := .gOpen) hex (pc2 := .gOpen) hag (by simp [PCSim])
    exact ⟨fs2', h, h2, h1⟩
  | getFile id =>
    obtain ⟨fs2', h, h2, h1⟩ := lookup_run_sim (now2 := now2) (proc2 := proc2) hop (pc1 := .gOpen) hex (pc2 := .gOpen) hag (by simp [PCSim])
    exact ⟨fs2', h, h2, h1⟩
  | getBytes id =>
    obtain ⟨fs2', h, h2, h1⟩ := lookup_run_sim (now2 := now2) (proc2 := proc2) hop (pc1 := .gOpen) hex (pc2 := .gOpen) hag (by simp [PCSim])
    exact ⟨fs2', h, h2, h1⟩

/-- the possible outcomes of a lookup are the same in two directories that agree on its read set. -/
theorem lookup_readset_iff {op : Op Id} (hop : isLookup op = true) (hag : ReadAgree P op.id fs1 fs2)
    (now : Int) (proc : Nat) (o : Outcome Hsh) :
    (∃ fs1', OpExec P now proc op fs1 fs1' o) ↔ (∃ fs2', OpExec P now proc op fs2 fs2' o) := by
  constructor
  · rintro ⟨fs1', h⟩
    obtain ⟨fs2', h2, _⟩ := lookup_readset (now2 := now) (proc2 := proc) hop hag h
    exact ⟨fs2', h2⟩
  · rintro ⟨fs2', h⟩
    obtain ⟨fs1', h1, _⟩ := lookup_readset (now2 := now) (proc2 := proc) hop hag.symm h
    exact ⟨fs1', h1⟩

/-! ## the size gate of `GetFile`, in any world (used by the shared-output counterexample of C12) -/

theorem next_file_gate {content : Name Id Hsh → Option Bytes} {op : Op Id} {pc : PC Hsh} {r : Res}
    {e : Entry Hsh} {cont : Option Bytes} (h : next P content n op pc r = .done (.file e cont)) :
    pc = .fStat e ∧ r = .okSize e.size ∧ cont = content (.data e.out) := by
  cases op <;> cases pc <;> simp only [next] at h <;>
    (repeat' split at h) <;>
    simp_all [copyOk, copyErr, indexOk, errPath, afterCopyN, writeOrNext, bytesResult, afterGetClose, afterUsed,
      Gen.CachePut.indexAfterCopy, Gen.CachePut.copyErrSkipsIndex, Gen.CachePut.copyReuseRefreshes,
      Gen.CachePut.truncOnSeekErr, Gen.CachePut.truncOnCopyErr, Gen.CachePut.truncOnLastReadErr,
      Gen.CachePut.truncOnMismatch, Gen.CachePut.truncOnCommitErr, Gen.CachePut.checkBeforeLastByte,
      Gen.CachePut.removeOnCloseErr, Gen.CachePut.indexTruncAfterWrite, Gen.CachePut.indexRemoveOnErr,
      Gen.CachePut.getBytesReject, Gen.CachePut.getFileReject]
  all_goals (repeat' split at h)
  all_goals first
    | (simp_all [Gen.CachePut.getBytesReject, Gen.CachePut.getFileReject]; done)
    | (obtain ⟨rfl, rfl⟩ := h; rfl)

/-- whatever the directory holds: a run that ends by reporting `file e cont` ends in a directory in
which the data file of `e.out` exists, has `e.size` bytes, and `cont` is those bytes. -/
theorem run_file_gate {now : Int} {proc : Nat} {op : Op Id} {fs fs' : FS Id Hsh} {pc : PC Hsh} {used : Bool}
    {o : Outcome Hsh} (hrun : OpRun P now proc op fs pc used fs' o) {e : Entry Hsh} {cont : Option Bytes}
    (ho : o = .ret (.file e cont)) :
    ∃ d, cont = some d ∧ d.length = e.size ∧ fs'.content (.data e.out) = some d := by
  induction hrun with
  | step _ _ _ ih => exact ih ho
  | @done fs fs' pc used used' fault n r res hf hs =>
    cases ho
    obtain ⟨he, hnx⟩ := tstep_eq hs
    obtain ⟨rfl, rfl, rfl⟩ := next_file_gate hnx.symm
    have he' : exec fs proc (.stat (.data e.out)) fault = some (fs', .okSize e.size) := he
    obtain ⟨rfl, i, nd, h1, h2, h3⟩ := exec_okSize he'
    exact ⟨nd.data, content_of h1 h2, h3.symm, content_of h1 h2⟩
  | crashBefore => cases ho
  | crashAfter _ => cases ho

/-- a lookup changes no file (whole executions; from the simulation of a directory by itself). -/
theorem lookup_exec_sameFiles {now : Int} {proc : Nat} {op : Op Id} (hop : isLookup op = true) {fs fs' : FS Id Hsh}
    {o : Outcome Hsh} (hst : Struct fs) (hex : OpExec P now proc op fs fs' o) : SameFiles fs fs' := by
  obtain ⟨_, _, _, h⟩ := lookup_readset (now2 := now) (proc2 := proc) hop (ReadAgree.refl hst) hex
  exact h

/-- **the size gate of `GetFile` in any directory**: if a lookup reports `file e cont`, the data file of
`e.out` exists (already in the directory the lookup started in), has `e.size` bytes, and `cont` is its bytes. -/
theorem exec_file_gate {now : Int} {proc : Nat} {op : Op Id} (hop : isLookup op = true) {fs fs' : FS Id Hsh}
    {e : Entry Hsh} {cont : Option Bytes} (hst : Struct fs)
    (hex : OpExec P now proc op fs fs' (.ret (.file e cont))) :
    ∃ d, cont = some d ∧ d.length = e.size ∧ fs.content (.data e.out) = some d := by
  have hsame := lookup_exec_sameFiles hop hst hex
  have key : ∃ d, cont = some d ∧ d.length = e.size ∧ fs'.content (.data e.out) = some d := by
    cases op with
    | put id s => simp [isLookup] at hop
    | get id => exact run_file_gate (pc := .gOpen) hex rfl
    | getFile id => exact run_file_gate (pc := .gOpen) hex rfl
    | getBytes id => exact run_file_gate (pc := .gOpen) hex rfl
  obtain ⟨d, h1, h2, h3⟩ := key
  exact ⟨d, h1, h2, by rw [← content_same hsame]; exact h3⟩

end GIV.CachePut
