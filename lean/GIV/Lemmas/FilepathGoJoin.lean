/-
  GIV.Lemmas.FilepathGoJoin — the Lean translation of the STANDARD LIBRARY's filepath.Join for Unix
  (GIV.Gen.FilepathJoinGo: `func join` of GOROOT/src/path/filepath/path_unix.go; `Join(elem...)` is `join(elem)`).

    join_loop_eq, join_eq   Join skips leading empty elements and returns Clean of the rest joined with "/"
                            ("" when every element is empty); `elem[i:]` never fails
    join2_eq                `Join(dir, fp) = Clean(dir + "/" + fp)` for a non-empty `dir`
-/
import GIV.Gen.FilepathJoinGo
import GIV.Lemmas.FilepathGoClean
namespace GIV.FilepathGo
open GIV GIV.GoLib GIV.Fsx GIV.Go.Filepath

/-- filepath.Join on Unix, as a specification. -/
def joinSpec : List Bytes → Bytes
  | [] => []
  | e :: rest => if e = [] then joinSpec rest else cleanPath (joinSep (e :: rest))

theorem join_loop_eq (elem : List Bytes) : ∀ (rest pre : List Bytes), elem = pre ++ rest →
    GIV.Go.FilepathJoin.join_loop1 elem rest (pre.length : Int) = some (joinSpec rest) := by
  intro rest
  induction rest with
  | nil => intro pre _; rfl
  | cons e rest ih =>
    intro pre hp
    rw [GIV.Go.FilepathJoin.join_loop1, joinSpec]
    by_cases he : e = []
    · have : (e != ([] : Bytes)) = false := by rw [he]; rfl
      simp only [this, Bool.false_eq_true, if_false, if_pos he]
      have hc : (pre.length : Int) + 1 = ((pre ++ [e]).length : Int) := by simp
      rw [hc]
      exact ih (pre ++ [e]) (by rw [hp]; simp)
    · have : (e != ([] : Bytes)) = true := by
        rw [bne_iff_ne]; exact he
      have hsl : GoLib.slice? elem (pre.length : Int) (GoLib.len elem) = some (e :: rest) := by
        unfold GoLib.slice? GoLib.len
        rw [if_pos (by rw [hp]; simp; omega)]
        have h1 : ((elem.length : Int)).toNat = elem.length := by simp
        rw [h1, List.take_of_length_le (Nat.le_refl _), Int.toNat_natCast, hp, List.drop_left]
      simp only [this, if_true, hsl, Option.pure_def, Option.bind_eq_bind, Option.bind_some, Clean_eq_path, if_neg he]

/-- **filepath.Join** (translated) = the specification, for every list of elements. -/
theorem join_eq (elem : List Bytes) : GIV.Go.FilepathJoin.join elem = some (joinSpec elem) := by
  unfold GIV.Go.FilepathJoin.join
  exact join_loop_eq elem elem [] rfl

/-- `Join(dir, fp)` for a non-empty `dir` is `Clean(dir + "/" + fp)`. -/
theorem join2_eq (d fp : Bytes) (hd : d ≠ []) :
    GIV.Go.FilepathJoin.join [d, fp] = some (cleanPath (d ++ SEP :: fp)) := by
  rw [join_eq, joinSpec, if_neg hd]
  rfl

end GIV.FilepathGo
