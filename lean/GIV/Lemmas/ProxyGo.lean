/-
  GIV.Lemmas.ProxyGo — the Go→Lean translation of goproxytest.allHex (GIV.Gen.ProxyGo, regenerated from /repo on
  every run) equals the model's `allHex`, for all inputs (it never panics: `rev[i]` with `i` from `range len(rev)`).
-/
import GIV.Gen.ProxyGo
import GIV.Model.Proxy

namespace GIV.Go.Proxy
open GIV GIV.GoLib

def isHex (c : UInt8) : Bool := ((decide (48 ≤ c)) && (decide (c ≤ 57))) || ((decide (97 ≤ c)) && (decide (c ≤ 102)))

theorem loop_eq (rev : Bytes) : ∀ (m k : Nat), k + m = rev.length →
    allHex_loop1 rev ((List.range' k m).map Int.ofNat) = some ((rev.drop k).all isHex) := by
  intro m
  induction m with
  | zero =>
    intro k h
    have : rev.drop k = [] := by apply List.drop_eq_nil_of_le; omega
    simp [allHex_loop1, allHex_after1, this]
  | succ m ih =>
    intro k h
    have hk : k < rev.length := by omega
    have hd : rev.drop k = rev[k] :: rev.drop (k + 1) := by
      rw [List.drop_eq_getElem_cons hk]
    simp only [List.range'_succ, List.map_cons, allHex_loop1]
    have hi : GoLib.idx? rev (Int.ofNat k) = some rev[k] := by
      simp [GoLib.idx?, hk]
    rw [hi, hd]
    simp only [Option.bind_eq_bind, Option.bind_some, List.all_cons]
    have := ih (k + 1) (by omega)
    cases hc : isHex rev[k]
    · simp only [isHex] at hc
      simp [hc]
    · simp only [isHex] at hc
      simp [hc, this]

/-- The translated `allHex` never panics and is the model's `allHex`. -/
theorem go_allHex_eq (rev : Bytes) : GIV.Go.Proxy.allHex rev = some (GIV.Proxy.allHex rev) := by
  unfold GIV.Go.Proxy.allHex
  have h := loop_eq rev rev.length 0 (by omega)
  simp only [GoLib.rangeInt, GoLib.len, Int.toNat_natCast, List.range_eq_range', List.drop_zero] at h ⊢
  rw [h]
  congr 1
  unfold GIV.Proxy.allHex
  have hr : Gen.Proxy.hexRanges = [(48, 57), (97, 102)] := rfl
  congr 1
  funext c
  simp [isHex, hr]

end GIV.Go.Proxy
