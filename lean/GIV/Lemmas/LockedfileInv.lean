/-
  The first invariant of the lockedfile transition system (GIV.Model.Lockedfile): the relation
  between the programs' control points and the OS lock table.

  `Inv1`: the world invariant `WInv`, and for every client: every File / Mutex it was handed is an
  open descriptor of its own, on the right file, holding the lock of the mode that the source's
  switch picks for its flag; the descriptor of the running operation is its own, distinct from the
  handed-out ones, and holds that lock exactly at the control points between the successful flock
  and the unlock (and no lock before / after).
-/
import GIV.Lemmas.LockedfileOS
namespace GIV.Lockedfile
open GIV

/-- The descriptor a control point works on. -/
def Pc.fd? : Pc → Option Fd
  | .open => none
  | .lock fd => some fd
  | .trunc fd => some fd
  | .truncStat fd => some fd
  | .readAll fd _ => some fd
  | .copy fd _ => some fd
  | .tRead fd _ => some fd
  | .tTail fd _ _ => some fd
  | .tTailUndo fd _ => some fd
  | .tBody fd _ _ => some fd
  | .tShrink fd _ _ => some fd
  | .tRb1 fd _ => some fd
  | .tRb2 fd _ => some fd
  | .mlock fd _ => some fd
  | .munlock fd _ => some fd
  | .unlock fd _ => some fd
  | .close fd _ _ => some fd
  | .user _ => none
  | .done (.handle fd) => some fd
  | .done _ => none

/-- Is the operation's lock held at this control point? -/
def Pc.locked : Pc → Bool
  | .open => false
  | .lock _ => false
  | .close _ _ b => b
  | .user _ => false
  | .done (.handle _) => true
  | .done _ => false
  | _ => true

def Ret.isHandle : Ret → Bool
  | .handle _ => true
  | _ => false

/-- closeFile never returns a handle. -/
def Pc.retNoHandle : Pc → Prop
  | .unlock _ r => r.isHandle = false
  | .close _ r _ => r.isHandle = false
  | _ => True

structure FrameOK (w : World) (c : Cid) (held : List Handle) (fr : Frame) : Prop where
  ret : fr.pc.retNoHandle
  user : ∀ s, fr.pc = .user s → ∃ h io, fr.op = .user h io ∧ s = io.sys h.fd ∧ h ∈ held
  fd : ∀ fd, fr.pc.fd? = some fd →
    Owns w c fd fr.op.path fr.op.flag ∧ fd ∉ held.map (·.fd) ∧
    (if fr.pc.locked then holdsFd w fd fr.op.path (lockMode fr.op.flag) else ∀ p k, ¬ holdsFd w fd p k)

structure ClientOK (w : World) (c : Cid) (cl : Client) : Prop where
  handles : ∀ h ∈ cl.held, Owns w c h.fd h.path h.flag ∧ holdsFd w h.fd h.path (lockMode h.flag)
  nodup : (cl.held.map (·.fd)).Nodup
  muFlag : ∀ h ∈ cl.held, h.mu.isSome → h.flag = Gen.Lockedfile.flagsMutex
  frame : ∀ fr, cl.cur = some fr → FrameOK w c cl.held fr

structure Inv1 (s : State) : Prop where
  world : WInv s.w
  clients : ∀ c, ClientOK s.w c (s.cl c)

theorem init_Inv1 (files0 : Path → Option Bytes) : Inv1 (init files0) :=
  ⟨initWorld_WInv files0, fun _ => ⟨fun _ h => by simp [init] at h, by simp [init], fun _ h => by simp [init] at h,
    fun _ h => by simp [init] at h⟩⟩

/-! ### decomposing a step -/

theorem step_call {s s' : State} {c op} (h : step s ⟨c, .call op⟩ = some s') :
    (s.cl c).cur = none ∧ callable (s.cl c).held op = true ∧
    s' = setClient s c ⟨heldAfterCall (s.cl c).held op, some ⟨op, startPc op, s.w.hist op.path, [], [], none⟩⟩ := by
  simp only [step, stepRes] at h
  cases hc : (s.cl c).cur with
  | some _ => simp [hc] at h
  | none =>
    simp only [hc] at h
    split at h
    · rename_i hcall; simp at h; exact ⟨rfl, hcall, h.symm⟩
    · simp at h

theorem step_sys {s s' : State} {c f n} (h : step s ⟨c, .sys f n⟩ = some s') :
    ∃ fr sc tag w' r, (s.cl c).cur = some fr ∧ sysOf fr n = some (sc, tag) ∧ osStep s.w c sc f = some (w', r) ∧
      s' = ⟨w', upd s.cl c ⟨(s.cl c).held, some (nextFrame s.w w' fr sc tag f n r)⟩⟩ := by
  simp only [step, stepRes] at h
  cases hc : (s.cl c).cur with
  | none => simp [hc] at h
  | some fr =>
    simp only [hc] at h
    cases hs : sysOf fr n with
    | none => simp [hs] at h
    | some st =>
      obtain ⟨sc, tag⟩ := st
      simp only [hs] at h
      cases ho : osStep s.w c sc f with
      | none => simp [ho] at h
      | some wr =>
        obtain ⟨w', r⟩ := wr
        simp [ho] at h
        exact ⟨fr, sc, tag, w', r, rfl, hs, ho, h.symm⟩

theorem step_ret {s s' : State} {c} (h : step s ⟨c, .ret⟩ = some s') :
    ∃ fr r, (s.cl c).cur = some fr ∧ fr.pc = .done r ∧
      s' = setClient s c ⟨heldAfterRet (s.cl c).held fr.op r, none⟩ := by
  simp only [step, stepRes] at h
  cases hc : (s.cl c).cur with
  | none => simp [hc] at h
  | some fr =>
    simp only [hc] at h
    split at h
    · rename_i r hr; simp at h; exact ⟨fr, r, rfl, hr, h.symm⟩
    · simp at h


/-! ### control points -/

/-- The control points whose system call is a data call on the operation's own locked descriptor. -/
def Pc.isData : Pc → Bool
  | .trunc _ | .truncStat _ | .readAll _ _ | .copy _ _ | .tRead _ _ | .tTail _ _ _ | .tTailUndo _ _
  | .tBody _ _ _ | .tShrink _ _ _ | .tRb1 _ _ | .tRb2 _ _ | .mlock _ _ | .munlock _ _ => true
  | _ => false

theorem closeRet_isHandle (op : Op) (r : Ret) (b : Bool) (h : r.isHandle = false) : (closeRet op r b).isHandle = false := by
  unfold closeRet; split
  · rfl
  · exact h

theorem afterOpen_spec (op : Op) (fd : Fd) :
    (afterOpen op fd).retNoHandle ∧ (∀ s, afterOpen op fd ≠ .user s) ∧
    ∀ fd', (afterOpen op fd).fd? = some fd' → fd = fd' ∧ (afterOpen op fd).locked = true := by
  cases op <;> simp only [afterOpen, finPc_eq]
  case write p content => split <;> simp [Pc.retNoHandle, Pc.fd?, Pc.locked, Ret.isHandle]
  all_goals simp [Pc.retNoHandle, Pc.fd?, Pc.locked]

theorem advancePc_data (op : Op) (pc : Pc) (n : Nat) (r : Res) (hd : pc.isData = true) :
    (advancePc op pc n r).retNoHandle ∧ (∀ s, advancePc op pc n r ≠ .user s) ∧
    ∀ fd', (advancePc op pc n r).fd? = some fd' → pc.fd? = some fd' ∧ (advancePc op pc n r).locked = true := by
  cases pc <;> simp [Pc.isData] at hd
  all_goals simp only [advancePc, finPc_eq, rollbackPc, Gen.Lockedfile.truncAfterLock, if_true]
  all_goals (repeat' split)
  all_goals first
    | (simp [Pc.retNoHandle, Pc.fd?, Pc.locked, Ret.isHandle]; done)
    | (have := afterOpen_spec op ‹Fd›; simpa [Pc.fd?] using this)


/-! ### stability of the claims about descriptors a call does not act on -/

theorem UserIO.sys_ctl (io : UserIO) (fd : Fd) : Sys.ctl (io.sys fd) = none := by
  cases io <;> rfl

theorem UserIO.sys_not_open (io : UserIO) (fd : Fd) (p fl) : io.sys fd ≠ .open p fl := by
  cases io <;> simp [UserIO.sys]

/-- A lock-table changing call of a running operation acts on the operation's own descriptor. -/
theorem sysOf_ctl {w : World} {c held} {fr : Frame} (hf : FrameOK w c held fr) {n sc tag fd0}
    (hs : sysOf fr n = some (sc, tag)) (hc : Sys.ctl sc = some fd0) : fr.pc.fd? = some fd0 := by
  cases hpc : fr.pc <;> simp only [sysOf, hpc] at hs
  case user s =>
    obtain ⟨h, io, _, rfl, _⟩ := hf.user s hpc
    simp at hs; obtain ⟨rfl, _⟩ := hs
    rw [UserIO.sys_ctl] at hc; cases hc
  case done r => cases hs
  all_goals (first | (split at hs <;> simp at hs) | simp at hs)
  all_goals (obtain ⟨rfl, _⟩ := hs; first | (simp [Sys.ctl] at hc; done) | (simp [Sys.ctl] at hc; simp [Pc.fd?, hc]))

theorem FrameOK.stable {w w' : World} {c c' held} {fr : Frame} {sc f r} (hw : WInv w)
    (h : osStep w c sc f = some (w', r)) (hf : FrameOK w c' held fr)
    (hne : ∀ fd, fr.pc.fd? = some fd → Sys.ctl sc ≠ some fd) : FrameOK w' c' held fr := by
  refine ⟨hf.ret, hf.user, fun fd hfd => ?_⟩
  obtain ⟨h1, h2, h3⟩ := hf.fd fd hfd
  refine ⟨osStep_owns_other hw h (hne fd hfd) h1, h2, ?_⟩
  split
  · rename_i hl; rw [if_pos hl] at h3; exact (osStep_holds_other h (hne fd hfd) _ _).2 h3
  · rename_i hl; rw [if_neg hl] at h3
    intro p k hh; exact h3 p k ((osStep_holds_other h (hne fd hfd) _ _).1 hh)

theorem Owns.owner_eq {w : World} {c c' fd p p' fl fl'} (h : Owns w c fd p fl) (h' : Owns w c' fd p' fl') : c = c' := by
  unfold Owns at h h'; rw [h] at h'; simp at h'; exact h'.2.2.2.2

theorem Owns.lt_nextFd {w : World} (hw : WInv w) {c fd p fl} (h : Owns w c fd p fl) : fd < w.nextFd := by
  by_cases hlt : fd < w.nextFd
  · exact hlt
  · have := hw.fresh fd (Nat.le_of_not_lt hlt)
    simp [Owns, this] at h

theorem Owns.path {w : World} {c fd p fl o} (h : Owns w c fd p fl) (ho : w.fds fd = some o) : o.path = p := by
  simp [Owns, ho, OpenFD.static] at h; exact h.1

/-- Claims of a client about its handed-out Files survive a call that acts on another descriptor. -/
theorem handles_stable {w w' : World} {c c' sc f r} (hw : WInv w) (h : osStep w c sc f = some (w', r))
    {held : List Handle}
    (hh : ∀ x ∈ held, Owns w c' x.fd x.path x.flag ∧ holdsFd w x.fd x.path (lockMode x.flag))
    (hne : ∀ x ∈ held, Sys.ctl sc ≠ some x.fd) :
    ∀ x ∈ held, Owns w' c' x.fd x.path x.flag ∧ holdsFd w' x.fd x.path (lockMode x.flag) :=
  fun x hx => ⟨osStep_owns_other hw h (hne x hx) (hh x hx).1, (osStep_holds_other h (hne x hx) _ _).2 (hh x hx).2⟩


/-! ### the running operation's own step -/

theorem Pc.isData_locked {pc : Pc} (h : pc.isData = true) : pc.locked = true := by
  cases pc <;> simp [Pc.isData] at h <;> rfl

theorem sysOf_data {fr : Frame} {n sc tag} (hd : fr.pc.isData = true) (hs : sysOf fr n = some (sc, tag)) :
    Sys.ctl sc = none := by
  cases hpc : fr.pc <;> simp [hpc, Pc.isData] at hd <;> simp only [sysOf, hpc] at hs
  all_goals (first | (split at hs <;> simp at hs) | simp at hs)
  all_goals (obtain ⟨rfl, _⟩ := hs; rfl)

/-- FrameOK only looks at the operation and the control point. -/
theorem FrameOK.congr {w : World} {c held} {fr fr' : Frame} (h : FrameOK w c held fr) (ho : fr'.op = fr.op)
    (hp : fr'.pc = fr.pc) : FrameOK w c held fr' := by
  refine ⟨hp ▸ h.ret, fun s hs => ?_, fun fd hfd => ?_⟩
  · rw [ho]; exact h.user s (hp ▸ hs)
  · rw [ho, hp]; exact h.fd fd (hp ▸ hfd)

theorem frameOK_nofd {w : World} {c held} {fr : Frame} (h1 : fr.pc.retNoHandle) (h2 : ∀ s, fr.pc ≠ .user s)
    (h3 : fr.pc.fd? = none) : FrameOK w c held fr :=
  ⟨h1, fun s hs => absurd hs (h2 s), fun fd hfd => by rw [h3] at hfd; cases hfd⟩

/-- Build FrameOK for a control point with a descriptor. -/
theorem frameOK_fd {w : World} {c held} {fr : Frame} {fd : Fd} (h1 : fr.pc.retNoHandle) (h2 : ∀ s, fr.pc ≠ .user s)
    (h3 : ∀ fd', fr.pc.fd? = some fd' → fd = fd') (ho : Owns w c fd fr.op.path fr.op.flag)
    (hn : fd ∉ held.map (·.fd))
    (hl : if fr.pc.locked then holdsFd w fd fr.op.path (lockMode fr.op.flag) else ∀ p k, ¬ holdsFd w fd p k) :
    FrameOK w c held fr :=
  ⟨h1, fun s hs => absurd hs (h2 s), fun fd' hfd => by obtain rfl := h3 fd' hfd; exact ⟨ho, hn, hl⟩⟩

theorem frame_step {w w' : World} {c held} {fr : Frame} {n sc tag f r} (hw : WInv w)
    (hh : ∀ x ∈ held, Owns w c x.fd x.path x.flag ∧ holdsFd w x.fd x.path (lockMode x.flag))
    (hf : FrameOK w c held fr) (hs : sysOf fr n = some (sc, tag)) (h : osStep w c sc f = some (w', r)) :
    FrameOK w' c held (nextFrame w w' fr sc tag f n r) := by
  suffices H : ∀ pc', advancePc fr.op fr.pc n r = pc' →
      FrameOK w' c held ⟨fr.op, pc', fr.h0, fr.h1, fr.flt, fr.committed⟩ from (H _ rfl).congr rfl rfl
  intro pc' hpc'
  by_cases hd : fr.pc.isData = true
  · -- a data call on the locked descriptor
    have hctl := sysOf_data hd hs
    have hst := hf.stable hw h (fun fd _ => by rw [hctl]; simp)
    obtain ⟨a1, a2, a3⟩ := advancePc_data fr.op fr.pc n r hd
    rw [hpc'] at a1 a2 a3
    refine ⟨a1, fun s hs' => absurd hs' (a2 s), fun fd hfd => ?_⟩
    obtain ⟨b1, b2⟩ := a3 fd hfd
    obtain ⟨c1, c2, c3⟩ := hst.fd fd b1
    refine ⟨c1, c2, ?_⟩
    rw [if_pos (Pc.isData_locked hd)] at c3
    show if pc'.locked = true then _ else _
    rw [if_pos b2]; exact c3
  · cases hpc : fr.pc <;> simp [hpc, Pc.isData] at hd <;> simp only [sysOf, hpc] at hs <;> rw [hpc] at hpc'
    case «open» =>
      simp at hs; obtain ⟨rfl, _⟩ := hs
      rcases osStep_open_spec h with ⟨e, hr, hw'⟩ | ⟨hr, hw'⟩
      · subst hr; simp only [advancePc, finPc_eq] at hpc'; subst hpc'
        exact frameOK_nofd trivial (fun s hs' => by cases hs') rfl
      · subst hr hw'
        simp [advancePc, finPc_eq, Gen.Lockedfile.truncAfterLock] at hpc'; subst hpc'
        refine frameOK_fd (fd := w.nextFd) trivial (fun s hs' => by cases hs') (fun fd' hfd => by simpa [Pc.fd?] using hfd) ?_ ?_ ?_
        · simp [Owns, OpenFD.static, openFlags_accRd, openFlags_accWr]
        · intro hmem
          obtain ⟨x, hx, hxe⟩ := List.mem_map.1 hmem
          have := (hh x hx).1.lt_nextFd hw
          rw [hxe] at this
          exact Nat.lt_irrefl _ this
        · simp only [Pc.locked]
          intro p k hk
          have hk' : holdsFd w w.nextFd p k := (holdsFd_congr rfl _ _ _).1 hk
          obtain ⟨o, ho, _⟩ := hw.holderOpen p _ k hk'
          rw [hw.fresh _ (Nat.le_refl _)] at ho; cases ho
    case lock fd =>
      simp at hs; obtain ⟨rfl, _⟩ := hs
      obtain ⟨o1, o2, o3⟩ := hf.fd fd (by simp [hpc, Pc.fd?])
      simp only [hpc, Pc.locked] at o3
      rcases osStep_flock_spec h with ⟨e, hr, hw'⟩ | ⟨o, ho, hc, hr, hw'⟩
      · -- the flock failed: retry (EINTR) or close
        subst hr hw'
        have : pc' = .lock fd ∨ pc' = .close fd .err false := by
          rw [← hpc']; simp only [advancePc, finPc_eq]
          cases e <;> simp [Gen.Lockedfile.retriesEINTR]
        rcases this with hp | hp <;> subst hp
        · exact frameOK_fd trivial (fun s hs' => by cases hs') (fun fd' hfd => by simpa [Pc.fd?] using hfd) o1 o2
            (by simpa [Pc.locked] using o3)
        · exact frameOK_fd rfl (fun s hs' => by cases hs') (fun fd' hfd => by simpa [Pc.fd?] using hfd) o1 o2
            (by simpa [Pc.locked] using o3)
      · -- the lock was granted
        subst hr hw'
        simp only [advancePc, finPc_eq] at hpc'; subst hpc'
        have hpath : o.path = fr.op.path := o1.path ho
        have hspec : (afterLock fr.op fd).retNoHandle ∧ (∀ s, afterLock fr.op fd ≠ .user s) ∧
            ∀ fd', (afterLock fr.op fd).fd? = some fd' → fd = fd' ∧ (afterLock fr.op fd).locked = true := by
          unfold afterLock; split
          · simp [Pc.retNoHandle, Pc.fd?, Pc.locked]
          · exact afterOpen_spec _ _
        refine ⟨hspec.1, fun s hs' => absurd hs' (hspec.2.1 s), fun fd' hfd => ?_⟩
        obtain ⟨rfl, hl⟩ := hspec.2.2 fd' hfd
        refine ⟨o1.congr (by simp), o2, ?_⟩
        show if (afterLock fr.op fd).locked = true then _ else _
        rw [if_pos hl, holdsFd_acquire _ _ _ _ hc, if_pos ⟨rfl, hpath.symm⟩]
    case unlock fd ret =>
      simp at hs; obtain ⟨rfl, _⟩ := hs
      obtain ⟨o1, o2, o3⟩ := hf.fd fd (by simp [hpc, Pc.fd?])
      have hr' : ret.isHandle = false := by have := hf.ret; rw [hpc] at this; exact this
      simp only [hpc, Pc.locked, if_true] at o3
      rcases osStep_funlock_spec h with ⟨e, hr, hw'⟩ | ⟨o, ho, hr, hw'⟩
      · subst hr hw'
        have : pc' = .unlock fd ret ∨ pc' = .close fd (closeRet fr.op ret true) true := by
          rw [← hpc']; simp only [advancePc, finPc_eq]
          cases e <;> simp [Gen.Lockedfile.retriesEINTR]
        rcases this with hp | hp <;> subst hp
        · exact frameOK_fd hr' (fun s hs' => by cases hs') (fun fd' hfd => by simpa [Pc.fd?] using hfd) o1 o2
            (by simpa [Pc.locked] using o3)
        · exact frameOK_fd (closeRet_isHandle _ _ _ hr') (fun s hs' => by cases hs')
            (fun fd' hfd => by simpa [Pc.fd?] using hfd) o1 o2 (by simpa [Pc.locked] using o3)
      · subst hr hw'
        simp only [advancePc, finPc_eq] at hpc'; subst hpc'
        refine frameOK_fd hr' (fun s hs' => by cases hs') (fun fd' hfd => by simpa [Pc.fd?] using hfd) (o1.congr rfl) o2 ?_
        simp only [Pc.locked]
        intro p k hk
        obtain ⟨hk1, hk2⟩ := (holdsFd_dropLock ..).1 hk
        exact hk2 ⟨rfl, (hw.holds_path hk1 ho).symm⟩
    case close fd ret b =>
      simp at hs; obtain ⟨rfl, _⟩ := hs
      have hr' : ret.isHandle = false := by have := hf.ret; rw [hpc] at this; exact this
      have : ∃ ret', pc' = .done ret' ∧ ret'.isHandle = false := by
        rw [← hpc']; simp only [advancePc, finPc_eq]
        split
        · exact ⟨_, rfl, hr'⟩
        · exact ⟨_, rfl, closeRet_isHandle _ _ _ hr'⟩
      obtain ⟨ret', hp, hr''⟩ := this
      subst hp
      refine frameOK_nofd trivial (fun s hs' => by cases hs') ?_
      cases ret' <;> simp [Pc.fd?, Ret.isHandle] at hr'' ⊢
    case user s =>
      simp at hs; obtain ⟨rfl, _⟩ := hs
      simp only [advancePc, finPc_eq] at hpc'; subst hpc'
      exact frameOK_nofd trivial (fun s hs' => by cases hs') rfl
    case done r => cases hs


/-! ### the invariant is inductive -/

theorem erase_fd_notin {held : List Handle} {h : Handle} (hn : (held.map (·.fd)).Nodup) (hm : h ∈ held) :
    h.fd ∉ (held.erase h).map (·.fd) := by
  induction held with
  | nil => cases hm
  | cons a t ih =>
    simp only [List.map_cons, List.nodup_cons] at hn
    by_cases ha : a = h
    · subst ha; simp only [List.erase_cons_head]; exact hn.1
    · have hmt : h ∈ t := by
        rcases List.mem_cons.1 hm with e | e
        · exact absurd e.symm ha
        · exact e
      rw [List.erase_cons_tail (by simpa using ha)]
      simp only [List.map_cons, List.mem_cons, not_or]
      refine ⟨fun e => hn.1 (e ▸ List.mem_map.2 ⟨h, hmt, rfl⟩), ih hn.2 hmt⟩

theorem setClient_cl_same (s : State) (c : Cid) (x : Client) : (setClient s c x).cl c = x := by simp [setClient]
theorem setClient_cl_other (s : State) (c : Cid) (x : Client) (c' : Cid) (h : c' ≠ c) :
    (setClient s c x).cl c' = s.cl c' := by simp [setClient, upd_other _ _ _ _ h]

theorem step_Inv1 {s s' : State} {l : Label} (hi : Inv1 s) (h : step s l = some s') : Inv1 s' := by
  obtain ⟨c, a⟩ := l
  cases a with
  | call op =>
    obtain ⟨hcur, hcall, rfl⟩ := step_call h
    refine ⟨hi.world, fun c' => ?_⟩
    by_cases hc : c' = c
    · subst hc
      rw [setClient_cl_same]
      have hk := hi.clients c'
      have hsub : ∀ x ∈ heldAfterCall (s.cl c').held op, x ∈ (s.cl c').held := by
        intro x hx
        cases op <;> simp only [heldAfterCall] at hx <;> first | exact hx | exact List.mem_of_mem_erase hx
      have hnd : ((heldAfterCall (s.cl c').held op).map (·.fd)).Nodup := by
        cases op <;> simp only [heldAfterCall] <;>
          first | exact hk.nodup | exact hk.nodup.sublist (List.Sublist.map _ List.erase_sublist)
      refine ⟨fun x hx => hk.handles x (hsub x hx), hnd, fun x hx => hk.muFlag x (hsub x hx), fun fr hfr => ?_⟩
      simp only [Option.some.injEq] at hfr; subst hfr
      cases op with
      | closeH x =>
        simp only [callable, Bool.and_eq_true, List.contains_iff_mem] at hcall
        obtain ⟨hm, _⟩ := hcall
        have hm : x ∈ (s.cl c').held := by simpa using hm
        exact frameOK_fd (fd := x.fd) rfl (fun s hs' => by cases hs') (fun fd' hfd => by simpa [startPc, finPc_eq, Pc.fd?] using hfd)
          (hk.handles x hm).1 (erase_fd_notin hk.nodup hm) (by simp only [startPc, finPc_eq, Pc.locked, if_true]; exact (hk.handles x hm).2)
      | unlockM x =>
        simp only [callable, Bool.and_eq_true] at hcall
        obtain ⟨hm, hmu⟩ := hcall
        have hm : x ∈ (s.cl c').held := by simpa using hm
        cases hxm : x.mu with
        | none => simp [hxm] at hmu
        | some m =>
          have hp : startPc (.unlockM x) = .munlock x.fd m := by simp [startPc, finPc_eq, hxm]
          refine frameOK_fd (fd := x.fd) (by simp only [hp]; trivial) (fun s hs' => by simp only [hp] at hs'; cases hs')
            (fun fd' hfd => by simpa [hp, Pc.fd?] using hfd) (hk.handles x hm).1 (erase_fd_notin hk.nodup hm) ?_
          simp only [hp, Pc.locked]; exact (hk.handles x hm).2
      | user x io =>
        simp only [callable, Bool.and_eq_true] at hcall
        have hm : x ∈ (s.cl c').held := by simpa using hcall.1
        exact ⟨trivial, fun s hs' => ⟨x, io, rfl, by simpa [startPc, finPc_eq] using hs'.symm, hm⟩, fun fd hfd => by simp [startPc, finPc_eq, Pc.fd?] at hfd⟩
      | _ => exact frameOK_nofd trivial (fun s hs' => by cases hs') rfl
    · rw [setClient_cl_other _ _ _ _ hc]; exact hi.clients c'
  | sys f n =>
    obtain ⟨fr, sc, tag, w', r, hcur, hs, hos, rfl⟩ := step_sys h
    have hk := hi.clients c
    have hfr := hk.frame fr hcur
    refine ⟨osStep_WInv hi.world hos, fun c' => ?_⟩
    by_cases hc : c' = c
    · subst hc
      simp only [upd_same]
      -- the acting client's handed-out Files are not the descriptor the call acts on
      have hne : ∀ x ∈ (s.cl c').held, Sys.ctl sc ≠ some x.fd := by
        intro x hx hctl
        have := sysOf_ctl hfr hs hctl
        exact (hfr.fd x.fd this).2.1 (List.mem_map.2 ⟨x, hx, rfl⟩)
      refine ⟨handles_stable hi.world hos hk.handles hne, hk.nodup, hk.muFlag, fun fr' hfr' => ?_⟩
      simp only [Option.some.injEq] at hfr'; subst hfr'
      exact frame_step hi.world hk.handles hfr hs hos
    · simp only [upd_other _ _ _ _ hc]
      have hk' := hi.clients c'
      -- descriptors of other clients are not the one the call acts on
      have hother : ∀ fd p fl, Owns s.w c' fd p fl → Sys.ctl sc ≠ some fd := by
        intro fd p fl ho hctl
        have := sysOf_ctl hfr hs hctl
        exact hc ((hfr.fd fd this).1.owner_eq ho).symm
      refine ⟨handles_stable hi.world hos hk'.handles (fun x hx => hother _ _ _ (hk'.handles x hx).1), hk'.nodup, hk'.muFlag,
        fun fr' hfr' => ?_⟩
      exact (hk'.frame fr' hfr').stable hi.world hos (fun fd hfd => hother _ _ _ ((hk'.frame fr' hfr').fd fd hfd).1)
  | ret =>
    obtain ⟨fr, r, hcur, hpc, rfl⟩ := step_ret h
    refine ⟨hi.world, fun c' => ?_⟩
    by_cases hc : c' = c
    · subst hc
      rw [setClient_cl_same]
      have hk := hi.clients c'
      have hfr := hk.frame fr hcur
      have hnew : ∀ fd, r = .handle fd → Owns s.w c' fd fr.op.path fr.op.flag ∧ fd ∉ (s.cl c').held.map (·.fd) ∧
          holdsFd s.w fd fr.op.path (lockMode fr.op.flag) := by
        intro fd hr; subst hr
        have := hfr.fd fd (by simp [hpc, Pc.fd?])
        simpa [hpc, Pc.locked] using this
      refine ⟨?_, ?_, ?_, fun fr' hfr' => by cases hfr'⟩
      · intro x hx
        cases hop : fr.op <;> cases r <;> simp only [hop, heldAfterRet] at hx <;>
          first
          | exact hk.handles x hx
          | (rcases List.mem_cons.1 hx with rfl | hx
             · have := hnew _ rfl; simp only [hop, Op.path, Op.flag] at this; exact ⟨this.1, this.2.2⟩
             · exact hk.handles x hx)
      · cases hop : fr.op <;> cases r <;> simp only [heldAfterRet] <;>
          first
          | exact hk.nodup
          | (simp only [List.map_cons, List.nodup_cons]; exact ⟨(hnew _ rfl).2.1, hk.nodup⟩)
      · intro x hx
        cases hop : fr.op <;> cases r <;> simp only [hop, heldAfterRet] at hx <;>
          first
          | exact hk.muFlag x hx
          | (rcases List.mem_cons.1 hx with rfl | hx
             · simp
             · exact hk.muFlag x hx)
    · rw [setClient_cl_other _ _ _ _ hc]; exact hi.clients c'

theorem reachable_Inv1 {files0 : Path → Option Bytes} {s : State} (h : Reachable files0 s) : Inv1 s := by
  induction h with
  | init => exact init_Inv1 files0
  | step l _ hs ih => exact step_Inv1 ih hs

end GIV.Lockedfile
