/-
  GIV.Lemmas.CachePutShared — a COMPLETE, VALID output file that a `Put` finds under its own output
  name (C12, shared outputs: another id's entry names the same OutputID).

  `copyFile` protects such a file by its hash guard (stat, size equal, re-hash, `out == out2` ⇒ return
  without writing).  One failed file operation in that guard (the stat, the open, a read) sends the code
  to the rewriting path, WITHOUT `O_TRUNC` (the sizes are equal), where it overwrites the file with the
  bytes of the source's second pass.  If that second pass is steady (the second `Seek` succeeds and the
  same bytes come again) every write stores bytes that are already there, no error path (`Truncate(0)`,
  `Remove`) is reachable because the one fault of the run is spent: the file keeps its bytes at every
  program point (`put_run_keeps_valid`).  With an unsteady second pass this is FALSE
  (`GIV.C12.shared_output_damaged_witness`).
-/
import GIV.Lemmas.CachePutFrame
import GIV.Lemmas.CachePutReadSet

set_option linter.unusedSimpArgs false
set_option linter.unusedSectionVars false
set_option linter.unusedVariables false

namespace GIV.CachePut
open GIV

variable {Id Hsh : Type} [DecidableEq Id] [DecidableEq Hsh]
variable {P : Params Id Hsh} {offered : Bytes → Prop} {now : Int} {id : Id} {s : Src} {used used' : Bool}
  {fs fs' : FS Id Hsh} {proc n : Nat} {fault : Fault} {r : Res} {nx : Next Hsh}

/-! ## bytes -/

/-- writing bytes that are already there. -/
theorem writeAt_same (d : Bytes) (off : Nat) (bs : Bytes) (hoff : off ≤ d.length) (hbs : bs <+: d.drop off) :
    writeAt d off bs = d := by
  obtain ⟨t, ht⟩ := hbs
  rw [writeAt_inside d off bs hoff]
  have : d.drop (off + bs.length) = t := by
    rw [← List.drop_drop, ← ht]; simp
  rw [this, List.append_assoc, ht, List.take_append_drop]

theorem seg_of_take {c rest : Bytes} {off first : Nat} (h : c.take off ++ rest = c.take first) :
    rest <+: c.drop off := by
  have h1 : c.take off ++ rest <+: c := by rw [h]; exact List.take_prefix _ _
  have h2 : c.take off ++ rest <+: c.take off ++ c.drop off := by rw [List.take_append_drop]; exact h1
  exact (List.prefix_append_right_inj _).mp h2

/-! ## the extra invariant of a Put that found a valid output -/

/-- the second pass of the source repeats the first. -/
def Src.steady (s : Src) : Prop := s.seek2 = true ∧ s.data2 = s.data1

/-- what holds, in addition to `LocalPut`, at the program points of a `Put` whose output file was valid when
it started and whose source is steady: the rewriting path is entered only with the fault spent and without
`O_TRUNC`; the error paths of `copyFile` are not reachable. -/
def Keep (s : Src) (used : Bool) (fs : FS Id Hsh) : PC Hsh → Prop
  | .pCkOpen L => L = s.size
  | .pCkRead _ _ L => L = s.size
  | .pCkClose _ _ L => L = s.size
  | .pOpen trunc => used = true ∧ trunc = false
  | .pWrite _ _ => used = true
  | .pCommit _ _ => used = true
  | .pTrunc0 _ => False
  | .pClose fd => used = true ∧ ∃ o, fs.fds fd = some o
  | .pRemoveData _ => False
  | _ => True

def KeepPost (s : Src) (used' : Bool) (fs' : FS Id Hsh) : Next Hsh → Prop
  | .goto pc' => Keep s used' fs' pc'
  | .done _ => True

theorem faultStep_spent (h : FaultStep fault true used') : fault = .none ∧ used' = true := by
  cases h; exact ⟨rfl, rfl⟩

theorem valid_inode {p : Name Id Hsh} {c : Bytes} (hst : Struct fs) (hV : fs.content p = some c) :
    ∃ i nd, fs.names p = some i ∧ fs.inodes i = some nd ∧ nd.data = c := by
  rcases content_cases hst p with ⟨_, h2⟩ | ⟨i, nd, h1, h2, h3⟩
  · rw [h2] at hV; cases hV
  · rw [h3] at hV; exact ⟨i, nd, h1, h2, Option.some.inj hV⟩

theorem content_setFd (p : Name Id Hsh) (fd : Nat) (o : Option OFD) : (fs.setFd fd o).content p = fs.content p := rfl

theorem content_setInode_self {p : Name Id Hsh} {i : Nat} (h : fs.names p = some i) (nd' : Inode Id Hsh) :
    (fs.setInode i nd').content p = some nd'.data := by
  simp [FS.content, FS.file?, FS.setInode, h]

/-- a write, through a descriptor on the file at `p`, of bytes that are already there. -/
theorem exec_write_same {p : Name Id Hsh} {c bs : Bytes} {fd : Nat} {o : OFD} {nd : Inode Id Hsh}
    (h1 : fs.fds fd = some o) (h2 : fs.names p = some o.ino) (h3 : fs.inodes o.ino = some nd) (hc : nd.data = c)
    (hoff : o.off ≤ c.length) (hbs : bs <+: c.drop o.off)
    (he : exec fs proc (.write fd bs) .none = some (fs', r)) :
    fs'.content p = some c ∧ r = .okN bs.length ∧ ∃ o', fs'.fds fd = some o' := by
  obtain ⟨o', nd', g1, g2, rfl, rfl⟩ := write_spec (by simpa [exec] using he)
  rw [h1] at g1; cases g1
  rw [h3] at g2; cases g2
  refine ⟨?_, rfl, { o with off := o.off + bs.length }, by simp [FS.setFd]⟩
  rw [content_setFd, content_setInode_self h2]
  simp only
  rw [hc, writeAt_same c o.off bs hoff hbs]

/-! ## one step -/

/-- the index phase touches only the index file. -/
theorem index_touches {pc : PC Hsh} (hL : LocalPut P offered now id s used fs pc)
    (hpc : pc = .iOpen ∨ (∃ fd, pc = .iWrite fd) ∨ (∃ fd, pc = .iTrunc fd) ∨ (∃ fd e, pc = .iClose fd e) ∨ pc = .iRemove ∨ pc = .iChtimes) :
    Touches fs (.index id) (.index id) (sysOf P now n (.put id s) pc) := by
  rcases hpc with rfl | ⟨fd, rfl⟩ | ⟨fd, rfl⟩ | ⟨fd, e, rfl⟩ | rfl | rfl <;>
    simp only [LocalPut] at hL <;> simp only [sysOf, Touches, Op.id]
  · exact Or.inl trivial
  · obtain ⟨_, o, h1, _, h3⟩ := hL
    intro o' ho; rw [h1] at ho; cases ho; exact Or.inl h3
  · obtain ⟨_, o, nd, h1, h2, _⟩ := hL
    intro o' ho; rw [h1] at ho; cases ho; exact Or.inl h2
  · exact Or.inl trivial

/-- **One program step of a `Put` that found its output file complete and valid, with a steady source**:
the file keeps its bytes, and the extra invariant goes on. -/
theorem keep_step (hy : Hyps P offered) (hoff : offered s.data1) (hsrc : s.steady) {pc : PC Hsh}
    (hL : LocalPut P offered now id s used fs pc) (hK : Keep s used fs pc)
    (hV : fs.content (.data (putOut P s)) = some s.data1)
    (hs : tstep P now fs proc (.put id s) pc fault n = some (fs', r, nx)) (hf : FaultStep fault used used') :
    fs'.content (.data (putOut P s)) = some s.data1 ∧ KeepPost s used' fs' nx := by
  have hst : Struct fs := localPut_struct hL
  obtain ⟨i0, nd0, hn0, hi0, hd0⟩ := valid_inode hst hV
  obtain ⟨hseek, hd2⟩ := hsrc
  obtain ⟨he, rfl⟩ := tstep_eq hs
  have hne : (Name.data (putOut P s) : Name Id Hsh) ≠ .index id := by intro h; cases h
  have hidx : (pc = .iOpen ∨ (∃ fd, pc = .iWrite fd) ∨ (∃ fd, pc = .iTrunc fd) ∨ (∃ fd e, pc = .iClose fd e) ∨
      pc = .iRemove ∨ pc = .iChtimes) → fs'.content (.data (putOut P s)) = some s.data1 :=
    fun hpc => by rw [exec_frame hst he (index_touches hL hpc) hne hne]; exact hV
  cases pc <;> simp only [LocalPut] at hL <;> simp only [Keep] at hK
  case pStat =>
    simp only [sysOf] at he
    refine ⟨by rw [content_same (exec_stat_same he)]; exact hV, ?_⟩
    cases hf with
    | none u =>
      simp only [exec] at he
      rw [execOk_stat_content hst, hV] at he
      simp at he
      obtain ⟨rfl, rfl⟩ := he
      simp [next, KeepPost, Keep, Gen.CachePut.reuseCheck, Src.size]
    | fail =>
      simp [exec] at he
      obtain ⟨rfl, rfl⟩ := he
      simp [next, KeepPost, Keep, Gen.CachePut.dataOpenTrunc]
    | short k => simp [exec] at he
  case pCkOpen L =>
    simp only [sysOf] at he
    refine ⟨by rw [content_same (exec_open_ro_same he)]; exact hV, ?_⟩
    subst hK
    cases hf with
    | none u =>
      simp only [exec, execOk, hn0, hi0, FS.newFd] at he
      simp at he
      obtain ⟨rfl, rfl⟩ := he
      simp [next, KeepPost, Keep]
    | fail =>
      simp [exec] at he
      obtain ⟨rfl, rfl⟩ := he
      simp [next, KeepPost, Keep, Gen.CachePut.dataOpenTrunc]
    | short k => simp [exec] at he
  case pCkRead fd acc L =>
    simp only [sysOf] at he
    refine ⟨by rw [content_same (exec_read_same he)]; exact hV, ?_⟩
    simp only [next]
    cases r <;> simp [KeepPost, Keep, hK]
  case pCkClose fd acc L =>
    simp only [sysOf] at he
    have hV' : fs'.content (.data (putOut P s)) = some s.data1 := by rw [content_same (exec_close_same he)]; exact hV
    refine ⟨hV', ?_⟩
    subst hK
    simp only [next, Gen.CachePut.reuseHit, Gen.CachePut.copyReuseRefreshes, if_true]
    by_cases hh : putOut P s = P.H acc
    · simp [hh, KeepPost, Keep]
    · simp only [hh, decide_false, Bool.false_eq_true, if_false, KeepPost, Keep, Gen.CachePut.dataOpenTrunc]
      refine ⟨?_, by simp⟩
      cases hu : used' with
      | true => rfl
      | false =>
        exfalso
        have hu0 : used = false := by
          cases hf with
          | none u => exact hu
          | fail => cases hu
          | short k => cases hu
        obtain ⟨i, nd, g1, g2, g3⟩ := hL.2 hu0
        rw [hn0] at g1; cases g1
        rw [hi0] at g2; cases g2
        exact hh (by rw [g3, hd0]; rfl)
  case pReuseStat =>
    simp only [sysOf] at he
    refine ⟨by rw [content_same (exec_stat_same he)]; exact hV, ?_⟩
    simp only [next, copyOk, Gen.CachePut.indexAfterCopy, if_true]
    split <;> simp [KeepPost, Keep]
  case pReuseChtimes =>
    simp only [sysOf] at he
    refine ⟨by rw [content_same (exec_chtimes_same he)]; exact hV, ?_⟩
    simp [next, copyOk, Gen.CachePut.indexAfterCopy, KeepPost, Keep]
  case pOpen trunc =>
    obtain ⟨rfl, rfl⟩ := hK
    obtain ⟨rfl, rfl⟩ := faultStep_spent hf
    simp only [sysOf, exec, execOk, hn0, hi0, FS.newFd] at he
    simp at he
    obtain ⟨rfl, rfl⟩ := he
    refine ⟨by simpa [FS.content, FS.file?] using hV, ?_⟩
    simp only [next, hseek]
    by_cases hz : Gen.CachePut.emptyReturn s.size = true
    · simp [hz, KeepPost, Keep]
    · simp only [hz, Bool.false_eq_true, if_false, Bool.not_true]
      unfold writeOrNext
      split
      · unfold afterCopyN
        simp only [Gen.CachePut.truncOnCopyErr, Gen.CachePut.truncOnLastReadErr, Gen.CachePut.truncOnMismatch,
          Gen.CachePut.checkBeforeLastByte, Gen.CachePut.underfoot, if_true, errPath]
        have hsz : s.size ≠ 0 := by simpa [Gen.CachePut.emptyReturn] using hz
        have hfl := first_lt hsz
        have h1 : ¬ s.data2.length < s.first := by rw [hd2]; simp only [Src.size] at hfl; omega
        have h2 : ¬ s.data2.length ≤ s.first := by rw [hd2]; simp only [Src.size] at hfl; omega
        have h3 : P.H (s.data2.take (s.first + 1)) = putOut P s := by
          rw [hd2, List.take_of_length_le (by
            simp only [Src.first, Gen.CachePut.firstLen, Src.size] at hfl ⊢; omega)]; rfl
        simp [h1, h2, h3, KeepPost, Keep]
      · simp [KeepPost, Keep]
  case pWrite fd rest =>
    subst hK
    obtain ⟨rfl, rfl⟩ := faultStep_spent hf
    obtain ⟨hsz, hrest, o, nd, g1, g2, g3, _, g5, g6, _, _⟩ := hL
    have hnd : nd.data = s.data1 := by
      rw [hn0] at g2; cases g2; rw [hi0] at g3; cases g3; exact hd0
    rw [hnd, hd2] at g5
    rw [hnd] at g6
    have hseg : rest <+: s.data1.drop o.off := seg_of_take g5
    simp only [sysOf] at he
    obtain ⟨hV', rfl, o', ho'⟩ := exec_write_same (p := .data (putOut P s)) g1 g2 g3 hnd g6
      ((List.take_prefix _ _).trans hseg) he
    refine ⟨hV', ?_⟩
    simp only [next]
    unfold writeOrNext
    split
    · unfold afterCopyN
      simp only [Gen.CachePut.truncOnCopyErr, Gen.CachePut.truncOnLastReadErr, Gen.CachePut.truncOnMismatch,
        Gen.CachePut.checkBeforeLastByte, Gen.CachePut.underfoot, if_true, errPath]
      have hfl := first_lt hsz
      have h1 : ¬ s.data2.length < s.first := by rw [hd2]; simp only [Src.size] at hfl; omega
      have h2 : ¬ s.data2.length ≤ s.first := by rw [hd2]; simp only [Src.size] at hfl; omega
      have h3 : P.H (s.data2.take (s.first + 1)) = putOut P s := by
        rw [hd2, List.take_of_length_le (by
          simp only [Src.first, Gen.CachePut.firstLen, Src.size] at hfl ⊢; omega)]; rfl
      simp [h1, h2, h3, KeepPost, Keep]
    · simp [KeepPost, Keep]
  case pCommit fd checked =>
    subst hK
    obtain ⟨rfl, rfl⟩ := faultStep_spent hf
    obtain ⟨hsz, rfl, _, _, o, nd, g1, g2, g3, _, g5, g6, _, _⟩ := hL
    have hnd : nd.data = s.data1 := by
      rw [hn0] at g2; cases g2; rw [hi0] at g3; cases g3; exact hd0
    rw [hnd, hd2, List.append_nil] at g5
    rw [hnd] at g6
    have hfl := first_lt hsz
    simp only [Src.size] at hfl
    have hoff' : o.off = s.first := by
      have := congrArg List.length g5
      simp only [List.length_take] at this
      omega
    simp only [sysOf, lastByte, hd2] at he
    obtain ⟨hV', rfl, o', ho'⟩ := exec_write_same (p := .data (putOut P s)) g1 g2 g3 hnd g6
      (by rw [hoff']; exact List.take_prefix _ _) he
    refine ⟨hV', ?_⟩
    simp [next, KeepPost, Keep, ho']
  case pClose fd =>
    obtain ⟨rfl, o, ho⟩ := hK
    obtain ⟨rfl, rfl⟩ := faultStep_spent hf
    simp only [sysOf] at he
    refine ⟨by rw [content_same (exec_close_same he)]; exact hV, ?_⟩
    simp only [exec, execOk, ho] at he
    simp at he
    obtain ⟨rfl, rfl⟩ := he
    simp [next, KeepPost, Keep]
  case pChtimes fd =>
    simp only [sysOf] at he
    refine ⟨by rw [content_same (exec_chtimes_same he)]; exact hV, ?_⟩
    simp [next, KeepPost, Keep]
  case pDeferClose fd ok =>
    simp only [sysOf] at he
    refine ⟨by rw [content_same (exec_close_same he)]; exact hV, ?_⟩
    simp only [next, copyOk, copyErr, Gen.CachePut.indexAfterCopy, Gen.CachePut.copyErrSkipsIndex, if_true]
    cases ok <;> simp [KeepPost, Keep]
  case iOpen =>
    refine ⟨hidx (Or.inl rfl), ?_⟩
    simp only [next]
    cases r <;> simp [KeepPost, Keep]
  case iWrite fd =>
    refine ⟨hidx (Or.inr (Or.inl ⟨fd, rfl⟩)), ?_⟩
    simp only [next, Gen.CachePut.indexTruncAfterWrite, if_true]
    cases r <;> simp [KeepPost, Keep]
  case iTrunc fd =>
    refine ⟨hidx (Or.inr (Or.inr (Or.inl ⟨fd, rfl⟩))), ?_⟩
    simp only [next]
    cases r <;> simp [KeepPost, Keep]
  case iClose fd e =>
    simp only [sysOf] at he
    refine ⟨by rw [content_same (exec_close_same he)]; exact hV, ?_⟩
    simp only [next, Gen.CachePut.indexRemoveOnErr, if_true]
    split <;> simp [KeepPost, Keep]
  case iRemove =>
    refine ⟨hidx (Or.inr (Or.inr (Or.inr (Or.inr (Or.inl rfl))))), ?_⟩
    simp [next, KeepPost]
  case iChtimes =>
    simp only [sysOf] at he
    refine ⟨by rw [content_same (exec_chtimes_same he)]; exact hV, ?_⟩
    simp only [next, indexOk, Gen.CachePut.indexAfterCopy, if_true]
    simp [KeepPost]
  all_goals exact hL.elim

/-! ## whole runs -/

/-- **A Put that finds its output file complete and valid, and whose source repeats itself on the second
pass, never changes the bytes of that file** — whatever single fault hits it, wherever it stops. -/
theorem put_run_keeps_valid (hy : Hyps P offered) (hoff : offered s.data1) (hsrc : s.steady) {pc : PC Hsh} {o : Outcome Hsh}
    (hrun : OpRun P now proc (.put id s) fs pc used fs' o) (hL : LocalPut P offered now id s used fs pc)
    (hK : Keep s used fs pc) (hV : fs.content (.data (putOut P s)) = some s.data1) :
    fs'.content (.data (putOut P s)) = some s.data1 := by
  induction hrun with
  | step hf hs _ ih =>
    have hpost := put_step_preserves hy hoff hL hs hf
    obtain ⟨hV', hK'⟩ := keep_step hy hoff hsrc hL hK hV hs hf
    exact ih hpost hK' hV'
  | done hf hs => exact (keep_step hy hoff hsrc hL hK hV hs hf).1
  | crashBefore => exact hV
  | crashAfter hs =>
    rw [content_closeProc]
    exact (keep_step hy hoff hsrc hL hK hV hs (FaultStep.none false)).1

theorem put_exec_keeps_valid (hy : Hyps P offered) (hoff : offered s.data1) (hsrc : s.steady) {o : Outcome Hsh}
    (hinv : FSInv P offered fs) (hex : OpExec P now proc (.put id s) fs fs' o)
    (hV : fs.content (.data (P.H s.data1)) = some s.data1) :
    fs'.content (.data (P.H s.data1)) = some s.data1 := by
  have hst := put_start (P := P) (offered := offered) (now := now) (id := id) (s := s) hinv
  unfold OpExec at hex
  split at hex
  · obtain ⟨rfl, _⟩ := hex; exact hV
  · next pc hpc =>
    rw [hpc] at hst
    have hK : Keep s false fs pc := by
      simp only [startOp, Gen.CachePut.indexAfterCopy, if_true] at hpc
      split at hpc
      · cases hpc
      · cases hpc; trivial
    exact put_run_keeps_valid hy hoff hsrc hex hst hK hV

end GIV.CachePut
