/-
  GIV.Lemmas.CachePutConcWorld — the world-level invariant of fault-free concurrent executions (C11)
  and its preservation by every step of every task under every schedule.
-/
import GIV.Lemmas.CachePutConcG

set_option linter.unusedSimpArgs false
set_option linter.unusedSectionVars false
set_option linter.unusedVariables false

namespace GIV.CachePut
open GIV

variable {Id Hsh : Type} [DecidableEq Id] [DecidableEq Hsh]
variable {P : Params Id Hsh} {offered : Bytes → Prop} {now : Int}
  {fs fs' : FS Id Hsh} {proc n : Nat} {r : Res} {nx : Next Hsh}

/-! ## descriptors: a task keeps its descriptor or gets a fresh one -/

def Next.fd : Next Hsh → Option Nat
  | .goto pc => fdOf pc
  | .done _ => none

@[simp] theorem fd_goto (pc : PC Hsh) : (Next.goto pc).fd = fdOf pc := rfl
@[simp] theorem fd_done (r : Result Hsh) : (Next.done r).fd = none := rfl

@[simp] theorem errPath_fd (fd : Nat) (t : Bool) : (errPath (Hsh := Hsh) fd t).fd = some fd := by
  unfold errPath; split <;> rfl

@[simp] theorem afterCopyN_fd (s : Src) (fd : Nat) : (afterCopyN P s fd).fd = some fd := by
  unfold afterCopyN
  repeat' split
  all_goals first | exact errPath_fd _ _ | rfl

@[simp] theorem writeOrNext_fd (s : Src) (fd : Nat) (rest : Bytes) : (writeOrNext P s fd rest).fd = some fd := by
  unfold writeOrNext; split
  · exact afterCopyN_fd _ _
  · rfl

@[simp] theorem copyOk_fd (s : Src) : (copyOk P s).fd = none := by unfold copyOk; split <;> rfl
@[simp] theorem copyErr_fd : (copyErr (Hsh := Hsh)).fd = none := by unfold copyErr; split <;> rfl
@[simp] theorem indexOk_fd (s : Src) : (indexOk P s).fd = none := by unfold indexOk; split <;> rfl
@[simp] theorem bytesResult_fd (acc : Bytes) (e : Entry Hsh) : (bytesResult P acc e).fd = none := by
  unfold bytesResult; split <;> rfl
@[simp] theorem afterGetClose_fd (op : Op Id) (ro : Option (Entry Hsh)) : (afterGetClose op ro).fd = none := by
  cases ro <;> cases op <;> rfl
@[simp] theorem afterUsed_fd (op : Op Id) (e : Entry Hsh) : (afterUsed op e).fd = none := by
  cases op <;> rfl

theorem next_fd {content : Name Id Hsh → Option Bytes} {op : Op Id} {pc : PC Hsh} {g : Nat}
    (h : (next P content n op pc r).fd = some g) : fdOf pc = some g ∨ r = .okFd g := by
  cases op <;> cases pc <;> simp only [next] at h <;>
    (repeat' split at h) <;>
    simp_all [fdOf]

theorem sysOf_fd {op : Op Id} {pc : PC Hsh} {g : Nat} (h : sysFd (sysOf P now n op pc) = some g) : fdOf pc = some g := by
  cases op <;> cases pc <;> simp_all [sysOf, sysFd, fdOf]

theorem execOk_okFd {sys : Sys Id Hsh} {g : Nat} (h : execOk fs proc sys = some (fs', .okFd g)) :
    g = fs.nextFd ∧ fs'.nextFd = fs.nextFd + 1 := by
  cases sys <;> simp only [execOk] at h <;> (repeat' split at h) <;> simp_all [FS.newFd, FS.setFd, FS.setInode]
  all_goals (obtain ⟨rfl, rfl⟩ := h; simp)

/-! ## one fault-free transition of the system, spelled out -/

theorem step_spec {w w' : World Id Hsh} {l : Label} {obs : Obs Id Hsh} (h : step P w l = some (w', obs))
    (hf : l.fault = .none) :
    ∃ tk op pc fs1 r nx, w.tasks l.tid = some tk ∧ tk.cur = some (op, pc) ∧
      tstep P w.now w.fs tk.proc op pc .none l.n = some (fs1, r, nx) ∧
      w'.fs = fs1 ∧
      (∀ t, t ≠ l.tid → w'.tasks t = w.tasks t) ∧
      ∃ cur' todo', w'.tasks l.tid = some { tk with cur := cur', todo := todo' } ∧
        (cur', todo', w'.hist) = (match nx with
          | .goto pc' => (some (op, pc'), tk.todo, w.hist ++ ghostOf l.tid op pc r)
          | .done res => startOps l.tid tk.todo (w.hist ++ ghostOf l.tid op pc r ++ [.ret l.tid op res])) := by
  unfold step at h
  split at h
  · simp at h
  · next tk htk =>
    split at h
    · simp at h
    · split at h
      · simp at h
      · next op pc hcur =>
        simp only [hf] at h
        rw [if_neg (by simp)] at h
        split at h
        · simp at h
        · next fs1 r nx hts =>
          rw [if_neg (by simp)] at h
          refine ⟨tk, op, pc, fs1, r, nx, htk, hcur, hts, ?_⟩
          cases nx with
          | goto pc' =>
            simp at h
            obtain ⟨rfl, _⟩ := h
            exact ⟨rfl, fun t ht => by simp [ht], _, _, by simp, rfl⟩
          | done res =>
            simp only at h
            generalize hso : startOps l.tid tk.todo (w.hist ++ ghostOf l.tid op pc r ++ [Ev.ret l.tid op res]) = so at h
            obtain ⟨c', t', h'⟩ := so
            simp at h
            obtain ⟨rfl, _⟩ := h
            exact ⟨rfl, fun t ht => by simp [ht], c', t', by simp, by rw [← hso]⟩

/-! ## what a writer's step does to the index files -/

theorem content_of' {p : Name Id Hsh} {i : Nat} {nd : Inode Id Hsh} (h1 : fs.names p = some i) (h2 : fs.inodes i = some nd) :
    fs.content p = some nd.data := by
  simp [FS.content, FS.file?, h1, h2]

theorem content_inv {p : Name Id Hsh} {d : Bytes} (hst : Struct fs) (h : fs.content p = some d) :
    ∃ i nd, fs.names p = some i ∧ fs.inodes i = some nd ∧ nd.data = d := by
  simp only [FS.content, FS.file?] at h
  cases hn : fs.names p with
  | none => simp [hn] at h
  | some i =>
    obtain ⟨nd, h1, _⟩ := hst.named _ _ hn
    simp [hn, h1] at h
    exact ⟨i, nd, rfl, h1, h⟩

/-- the index files after a step of `Put(id, s)`: unchanged, or empty (just created), or — at the single
write of `putIndexEntry` — the whole new entry of this Put. -/
theorem put_index_content (hy : Hyps P offered) {id : Id} {s : Src} (hoff : offered s.data1)
    (hinv : FSInvP P offered fs) {pc : PC Hsh} (hL : LocalC P id s fs pc)
    (he : execOk fs proc (sysOf P now n (.put id s) pc) = some (fs', r)) :
    ∀ id' d', fs'.content (.index id') = some d' →
      fs.content (.index id') = some d' ∨ d' = [] ∨
      (id' = id ∧ (∃ fd, pc = .iWrite fd) ∧ d' = P.enc id (putOut P s) s.size now) := by
  intro id' d' hd
  -- steps that touch at most the data file
  have dataOnly : Touches fs (.data (putOut P s)) (.data (putOut P s)) (sysOf P now n (.put id s) pc) →
      fs.content (.index id') = some d' := by
    intro ht
    rw [← execOk_frame hinv.1 he ht (p := .index id') (by simp) (by simp)]; exact hd
  cases pc <;> simp only [LocalC] at hL <;> simp only [sysOf] at he dataOnly
  case pWrite fd rest =>
    obtain ⟨_, _, o, nd, h1, h2, _⟩ := hL
    exact Or.inl (dataOnly (fun o' ho => by rw [h1] at ho; cases ho; exact Or.inl h2))
  case pCommit fd ck =>
    obtain ⟨_, _, o, nd, h1, h2, _⟩ := hL
    exact Or.inl (dataOnly (fun o' ho => by rw [h1] at ho; cases ho; exact Or.inl h2))
  case iOpen =>
    simp only [Op.id, Gen.CachePut.indexOpenCreate, Gen.CachePut.indexOpenTrunc] at he
    by_cases hid : id' = id
    · subst hid
      obtain ⟨hinv', i, nd', _, _, hnm, hnd, hcase⟩ := open_create_specp hinv he
      rw [content_of' hnm hnd] at hd
      cases hd
      rcases hcase with h0 | ⟨_, k1, k2⟩
      · exact Or.inr (Or.inl h0)
      · exact Or.inl (content_of' k1 k2)
    · left
      rw [← execOk_frame hinv.1 he (q1 := .index id) (q2 := .index id) (by simp [Touches]) (p := .index id')
        (by simpa using hid) (by simpa using hid)]
      exact hd
  case iWrite fd =>
    obtain ⟨o, h1, h2, h3⟩ := hL
    by_cases hid : id' = id
    · subst hid
      obtain ⟨nd, h4, _⟩ := hinv.1.named _ _ h3
      obtain ⟨o', nd', g1, g2, rfl, _⟩ := write_spec he
      rw [h1] at g1; cases g1
      rw [h4] at g2; cases g2
      have e2 : (P.enc id' (putOut P s) s.size now).length = Gen.CachePut.entrySize := hy.encLen id' s.data1 now hoff
      have hcover : writeAt nd.data o.off (P.enc id' (putOut P s) s.size now) = P.enc id' (putOut P s) s.size now := by
        rw [h2]
        apply writeAt_zero_cover
        rcases hinv.2 _ _ _ (by simp) h3 h4 with h | ⟨c, t, hc, h⟩
        · simp [h]
        · rw [h, hy.encLen id' c t hc, e2]; exact Nat.le_refl _
      have : ((fs.setInode o.ino { nd with data := writeAt nd.data o.off (P.enc id' (putOut P s) s.size now) }).setFd fd
          (some { o with off := o.off + (P.enc id' (putOut P s) s.size now).length })).content (.index id')
          = some (writeAt nd.data o.off (P.enc id' (putOut P s) s.size now)) := by
        simp [FS.content, FS.file?, FS.setFd, FS.setInode, h3]
      rw [this, hcover] at hd
      cases hd
      exact Or.inr (Or.inr ⟨rfl, ⟨fd, rfl⟩, rfl⟩)
    · left
      rw [← execOk_frame hinv.1 he (q1 := .index id) (q2 := .index id)
        (by intro o' ho; rw [h1] at ho; cases ho; exact Or.inl h3) (p := .index id')
        (by simpa using hid) (by simpa using hid)]
      exact hd
  case iTrunc fd =>
    obtain ⟨o, nd, h1, h2, h3, h4⟩ := hL
    by_cases hid : id' = id
    · subst hid
      obtain ⟨o', nd', g1, g2, rfl, _⟩ := ftruncate_spec he
      rw [h1] at g1; cases g1
      rw [h3] at g2; cases g2
      have e2 : (P.enc id' (putOut P s) s.size now).length = Gen.CachePut.entrySize := hy.encLen id' s.data1 now hoff
      have : (fs.setInode o.ino { nd with data := truncTo nd.data (P.enc id' (putOut P s) s.size now).length }).content (.index id')
          = some nd.data := by
        simp [FS.content, FS.file?, FS.setInode, h2, e2, ← h4, truncTo_self]
      rw [this] at hd
      left; rw [content_of' h2 h3]; exact hd
    · left
      rw [← execOk_frame hinv.1 he (q1 := .index id) (q2 := .index id)
        (by intro o' ho; rw [h1] at ho; cases ho; exact Or.inl h2) (p := .index id')
        (by simpa using hid) (by simpa using hid)]
      exact hd
  all_goals first
    | exact hL.elim
    | exact Or.inl (dataOnly (by simp [Touches]))

/-! ## the invariant of the world -/

/-- the contents known to have been stored for an id: initially (`K0`), or by a Put whose index write
has been executed (ghost event `indexed`). -/
def Known (K0 : Id → Bytes → Prop) (hist : List (Ev Id Hsh)) (id : Id) (c : Bytes) : Prop :=
  K0 id c ∨ ∃ t, Ev.indexed t id c ∈ hist

theorem Known.mono {K0 : Id → Bytes → Prop} {h h' : List (Ev Id Hsh)} (hs : ∀ e, e ∈ h → e ∈ h') {id : Id} {c : Bytes}
    (hk : Known K0 h id c) : Known K0 h' id c := by
  rcases hk with hk | ⟨t, ht⟩
  · exact Or.inl hk
  · exact Or.inr ⟨t, hs _ ht⟩

/-- operations of the fault-free setting: the source reader of a Put is well behaved, its content offered. -/
def GoodOp (offered : Bytes → Prop) : Op Id → Prop
  | .put _ s => GoodSrc s ∧ offered s.data1
  | _ => True

def startPC : Op Id → PC Hsh
  | .put _ _ => .pStat
  | _ => .gOpen

theorem startOps_cons {tid : Nat} {op : Op Id} {rest : List (Op Id)} {h : List (Ev Id Hsh)} (hg : GoodOp offered op) :
    startOps (Hsh := Hsh) tid (op :: rest) h = (some (op, startPC op), rest, h) := by
  cases op with
  | put id s =>
    obtain ⟨⟨h1, _⟩, _⟩ := hg
    simp [startOps, startOp, h1, Gen.CachePut.indexAfterCopy, startPC]
  | get id => rfl
  | getFile id => rfl
  | getBytes id => rfl

section
variable (P : Params Id Hsh) (offered : Bytes → Prop) (K : Id → Bytes → Prop) (fs : FS Id Hsh)

/-- what a task knows at its program point. -/
def TaskOK : Op Id → PC Hsh → Prop
  | .put id s, pc => LocalC P id s fs pc ∧ Extra P id s fs pc
  | .get id, pc => LocalG P offered K id fs pc
  | .getFile id, pc => LocalG P offered K id fs pc
  | .getBytes id, pc => LocalG P offered K id fs pc

/-- conclusion about the moving task. -/
def StepPost (op : Op Id) : Next Hsh → Prop
  | .goto pc' => TaskOK P offered K fs op pc'
  | .done res => (op.isGet = true → ResK P offered K op.id res) ∧
      (∀ id s out size, op = .put id s → res = .putOk out size → IndexFull fs id)
end

variable {K K' : Id → Bytes → Prop}

theorem taskOK_start {op : Op Id} : TaskOK P offered K fs op (startPC op) := by
  cases op <;> simp [TaskOK, startPC, LocalC, Extra, LocalG]

theorem taskOK_get {op : Op Id} (hop : op.isGet = true) {pc : PC Hsh} :
    TaskOK P offered K fs op pc = LocalG P offered K op.id fs pc := by
  cases op <;> simp [Op.isGet] at hop <;> rfl

/-- the local facts of any task survive the steps of the others. -/
theorem taskOK_mono (hy : Hyps P offered) (hK : ∀ id c, K id c → K' id c) {f : Option Nat} (hm : Mono fs fs' f)
    (hinv : FSInvP P offered fs) (hinv' : FSInvP P offered fs') {op : Op Id} (hgood : GoodOp offered op) {pc : PC Hsh}
    (hfd : ∀ g, fdOf pc = some g → some g ≠ f ∧ g < fs.nextFd) (hT : TaskOK P offered K fs op pc) :
    TaskOK P offered K' fs' op pc := by
  cases op with
  | put id s =>
    exact ⟨localC_mono hy hgood.2 hm hinv hinv' hfd hT.1, extra_mono hy hgood.2 hm hinv hinv' hfd hT.2⟩
  | get id => exact localG_mono hK hm hfd hT
  | getFile id => exact localG_mono hK hm hfd hT
  | getBytes id => exact localG_mono hK hm hfd hT

/-- **the moving task**: its fault-free step keeps the prefix invariant, is a safe system call, re-establishes
its local facts (or yields a correct result), changes index files only by creating an empty one or — at the
single write of `putIndexEntry`, when the output is complete — by storing the whole new entry. -/
theorem task_step (hy : Hyps P offered) {op : Op Id} (hgood : GoodOp offered op) {pc : PC Hsh}
    (hinv : FSInvP P offered fs) (hik : IndexK P offered K fs) (hT : TaskOK P offered K fs op pc)
    (hs : tstep P now fs proc op pc .none n = some (fs', r, nx)) :
    FSInvP P offered fs' ∧ SafeSys fs (sysOf P now n op pc) ∧ StepPost P offered K fs' op nx ∧
    (∀ id' d', fs'.content (.index id') = some d' → fs.content (.index id') = some d' ∨ d' = [] ∨
      ∃ id s fd, op = .put id s ∧ id' = id ∧ pc = .iWrite fd ∧ d' = P.enc id (putOut P s) s.size now) ∧
    (∀ id s fd, op = .put id s → pc = .iWrite fd → (∃ k, r = .okN k) ∧ CompleteF P fs s.data1) := by
  have he0 : execOk fs proc (sysOf P now n op pc) = some (fs', r) := by
    have := (tstep_eq hs).1; simpa [exec] using this
  cases op with
  | put id s =>
    obtain ⟨hg, hoff⟩ := hgood
    obtain ⟨hL, hX⟩ := hT
    have h1 := put_cstep hy hg hoff hinv hL hs
    have h2 := put_xstep hy hg hoff hinv hL hX hs
    refine ⟨h1.1, put_safe hy hoff hL, ?_, ?_, ?_⟩
    · cases nx with
      | goto pc' => exact ⟨h1.2, h2⟩
      | done res =>
        refine ⟨fun h => by simp [Op.isGet] at h, fun id' s' out size ho hr => ?_⟩
        cases ho; subst hr
        exact h2.2
    · intro id' d' hd
      rcases put_index_content hy hoff hinv hL he0 id' d' hd with h | h | ⟨h3, ⟨fd, h4⟩, h5⟩
      · exact Or.inl h
      · exact Or.inr (Or.inl h)
      · exact Or.inr (Or.inr ⟨id, s, fd, rfl, h3, h4, h5⟩)
    · intro id' s' fd ho hp
      cases ho; subst hp
      simp only [sysOf] at he0
      obtain ⟨_, _, _, _, _, hr⟩ := write_spec he0
      exact ⟨⟨_, hr⟩, hX⟩
  | get id =>
    have hop : (Op.get id : Op Id).isGet = true := rfl
    have hsame := get_same hop hT he0
    refine ⟨hsame.invp hinv, get_safe hop hT, ?_, fun id' d' hd => Or.inl (by rw [← content_same hsame]; exact hd),
      fun _ _ _ ho => by cases ho⟩
    have h := get_cstep hy hop hinv hik hT hs
    cases nx with
    | goto pc' => exact h
    | done res => exact ⟨fun _ => h, fun _ _ _ _ ho => by cases ho⟩
  | getFile id =>
    have hop : (Op.getFile id : Op Id).isGet = true := rfl
    have hsame := get_same hop hT he0
    refine ⟨hsame.invp hinv, get_safe hop hT, ?_, fun id' d' hd => Or.inl (by rw [← content_same hsame]; exact hd),
      fun _ _ _ ho => by cases ho⟩
    have h := get_cstep hy hop hinv hik hT hs
    cases nx with
    | goto pc' => exact h
    | done res => exact ⟨fun _ => h, fun _ _ _ _ ho => by cases ho⟩
  | getBytes id =>
    have hop : (Op.getBytes id : Op Id).isGet = true := rfl
    have hsame := get_same hop hT he0
    refine ⟨hsame.invp hinv, get_safe hop hT, ?_, fun id' d' hd => Or.inl (by rw [← content_same hsame]; exact hd),
      fun _ _ _ ho => by cases ho⟩
    have h := get_cstep hy hop hinv hik hT hs
    cases nx with
    | goto pc' => exact h
    | done res => exact ⟨fun _ => h, fun _ _ _ _ ho => by cases ho⟩

/-- **the invariant of every reachable world** of a fault-free concurrent execution. -/
structure WInv (P : Params Id Hsh) (offered : Bytes → Prop) (K0 K1 : Id → Bytes → Prop) (w : World Id Hsh) : Prop where
  /-- clauses (D⁺), (I) -/
  fs : FSInvP P offered w.fs
  /-- every index file is empty or the whole entry of a content known to have been stored for that id -/
  ik : IndexK P offered (Known K0 w.hist) w.fs
  /-- a content stored by a Put of this execution (or initially, as far as `K1` says) is offered and its output is complete -/
  kc : ∀ id c, Known K1 w.hist id c → offered c ∧ CompleteF P w.fs c
  /-- a Put that returned nil left a whole index entry for its id -/
  rp : ∀ tid id s out size, Ev.ret tid (.put id s) (.putOk out size) ∈ w.hist → IndexFull w.fs id
  /-- what lookups reported is known to have been stored for their id -/
  rl : ∀ tid op res, Ev.ret tid op res ∈ w.hist → op.isGet = true → ResK P offered (Known K0 w.hist) op.id res
  todo : ∀ tid tk op, w.tasks tid = some tk → op ∈ tk.todo → GoodOp offered op
  cur : ∀ tid tk op pc, w.tasks tid = some tk → tk.cur = some (op, pc) →
    GoodOp offered op ∧ TaskOK P offered (Known K0 w.hist) w.fs op pc ∧ ∀ g, fdOf pc = some g → g < w.fs.nextFd
  /-- descriptors of distinct tasks are distinct -/
  distinct : ∀ t1 t2 tk1 tk2 op1 pc1 op2 pc2 g, t1 ≠ t2 → w.tasks t1 = some tk1 → w.tasks t2 = some tk2 →
    tk1.cur = some (op1, pc1) → tk2.cur = some (op2, pc2) → fdOf pc1 = some g → fdOf pc2 ≠ some g

theorem ghostOf_mem {tid : Nat} {op : Op Id} {pc : PC Hsh} {r : Res} {e : Ev Id Hsh} (h : e ∈ ghostOf tid op pc r) :
    ∃ id s fd k, op = .put id s ∧ pc = .iWrite fd ∧ r = .okN k ∧ e = .indexed tid id s.data1 := by
  unfold ghostOf at h
  split at h
  · next id s fd k => simp at h; exact ⟨id, s, fd, k, rfl, rfl, rfl, h⟩
  · simp at h

theorem ghostOf_iWrite {tid : Nat} {id : Id} {s : Src} {fd k : Nat} :
    ghostOf (Hsh := Hsh) tid (.put id s) (.iWrite fd) (.okN k) = [.indexed tid id s.data1] := rfl

/-- **every fault-free step of any task, under any schedule, preserves the invariant.** -/
theorem winv_step (hy : Hyps P offered) {K0 K1 : Id → Bytes → Prop} {w w' : World Id Hsh} {l : Label} {obs : Obs Id Hsh}
    (W : WInv P offered K0 K1 w) (h : step P w l = some (w', obs)) (hf : l.fault = .none) : WInv P offered K0 K1 w' := by
  obtain ⟨tk, op, pc, fs1, r, nx, htk, hcur, hts, hfs, hother, cur', todo', htk', hcth⟩ := step_spec h hf
  obtain ⟨hgood, hT, hbound⟩ := W.cur _ _ _ _ htk hcur
  obtain ⟨hinv', hsafe, hpost, hidx, hghost⟩ := task_step hy hgood W.fs W.ik hT hts
  have he0 : execOk w.fs tk.proc (sysOf P w.now l.n op pc) = some (fs1, r) := by
    have := (tstep_eq hts).1; simpa [exec] using this
  have hm : Mono w.fs fs1 (sysFd (sysOf P w.now l.n op pc)) := exec_mono W.fs.1 he0 hsafe
  have hnxeq := (tstep_eq hts).2
  have htodo : ∀ op', op' ∈ tk.todo → GoodOp offered op' := fun op' ho => W.todo _ _ _ htk ho
  -- what the moving task does next
  have hgoto : ∀ pc'', nx = .goto pc'' → cur' = some (op, pc'') ∧ todo' = tk.todo ∧
      w'.hist = w.hist ++ ghostOf l.tid op pc r := by
    intro pc'' hnx; subst hnx
    simp only at hcth
    exact ⟨congrArg (fun x => x.1) hcth, congrArg (fun x => x.2.1) hcth, congrArg (fun x => x.2.2) hcth⟩
  have hdone : ∀ res, nx = .done res → w'.hist = w.hist ++ ghostOf l.tid op pc r ++ [.ret l.tid op res] ∧
      ((tk.todo = [] ∧ cur' = none ∧ todo' = []) ∨
       ∃ o rest, tk.todo = o :: rest ∧ cur' = some (o, startPC o) ∧ todo' = rest) := by
    intro res hnx; subst hnx
    simp only at hcth
    cases htd : tk.todo with
    | nil =>
      rw [htd] at hcth
      simp only [startOps] at hcth
      exact ⟨congrArg (fun x => x.2.2) hcth, Or.inl ⟨rfl, congrArg (fun x => x.1) hcth, congrArg (fun x => x.2.1) hcth⟩⟩
    | cons o rest =>
      rw [htd, startOps_cons (offered := offered) (htodo o (by rw [htd]; simp))] at hcth
      exact ⟨congrArg (fun x => x.2.2) hcth, Or.inr ⟨o, rest, rfl, congrArg (fun x => x.1) hcth, congrArg (fun x => x.2.1) hcth⟩⟩
  have hhist : ∃ extra, w'.hist = w.hist ++ ghostOf l.tid op pc r ++ extra ∧
      (∀ e, e ∈ extra → ∃ res, nx = .done res ∧ e = .ret l.tid op res) := by
    cases hnx' : nx with
    | goto pc' => exact ⟨[], by simpa using (hgoto _ hnx').2.2, fun e he => by simp at he⟩
    | done res => exact ⟨[.ret l.tid op res], (hdone _ hnx').1, fun e he => ⟨res, rfl, by simpa using he⟩⟩
  obtain ⟨extra, hh, hextra⟩ := hhist
  have hsub : ∀ e, e ∈ w.hist → e ∈ w'.hist := fun e he => by rw [hh]; simp [he]
  have hK : ∀ id c, Known K0 w.hist id c → Known K0 w'.hist id c := fun id c hk => hk.mono hsub
  -- the new current operation of the moving task
  have hcur' : ∀ op' pc', cur' = some (op', pc') →
      GoodOp offered op' ∧ TaskOK P offered (Known K0 w'.hist) fs1 op' pc' ∧
      (∀ g, fdOf pc' = some g → fdOf pc = some g ∨ (g = w.fs.nextFd ∧ fs1.nextFd = w.fs.nextFd + 1)) := by
    intro op' pc' hc
    cases hnx' : nx with
    | goto pc'' =>
      rw [(hgoto _ hnx').1] at hc
      cases hc
      rw [hnx'] at hpost hnxeq
      have hfdn : ∀ g, fdOf pc' = some g → fdOf pc = some g ∨ (g = w.fs.nextFd ∧ fs1.nextFd = w.fs.nextFd + 1) := by
        intro g hg
        have := next_fd (P := P) (content := fs1.content) (n := l.n) (op := op) (pc := pc) (r := r) (g := g)
          (by rw [← hnxeq]; simpa using hg)
        rcases this with h | h
        · exact Or.inl h
        · subst h; exact Or.inr (execOk_okFd he0)
      have hb' : ∀ g, fdOf pc' = some g → g < fs1.nextFd := by
        intro g hg
        rcases hfdn g hg with h | ⟨rfl, h⟩
        · exact Nat.lt_of_lt_of_le (hbound g h) hm.nextFd
        · omega
      have hcase : TaskOK P offered (Known K0 w.hist) fs1 op pc' := hpost
      exact ⟨hgood, taskOK_mono hy hK (f := none)
        ⟨fun _ _ h => h, fun i nd h => ⟨nd, h, Nat.le_refl _⟩, fun _ _ _ => rfl, Nat.le_refl _⟩
        hinv' hinv' hgood (fun g hg => ⟨by simp, hb' g hg⟩) hcase, hfdn⟩
    | done res =>
      rcases (hdone _ hnx').2 with ⟨_, h1, _⟩ | ⟨o, rest, htd, h1, _⟩
      · rw [h1] at hc; cases hc
      · rw [h1] at hc; cases hc
        refine ⟨htodo _ (by rw [htd]; simp), taskOK_start, fun g hg => ?_⟩
        cases op' <;> simp [startPC, fdOf] at hg
  have htodo' : ∀ op', op' ∈ todo' → GoodOp offered op' := by
    intro op' ho
    cases hnx' : nx with
    | goto pc'' => rw [(hgoto _ hnx').2.1] at ho; exact htodo _ ho
    | done res =>
      rcases (hdone _ hnx').2 with ⟨_, _, h1⟩ | ⟨o, rest, htd, _, h1⟩
      · rw [h1] at ho; cases ho
      · rw [h1] at ho; exact htodo _ (by rw [htd]; simp [ho])
  -- the descriptor used by the moving task's system call is its own
  have hown : ∀ g, sysFd (sysOf P w.now l.n op pc) = some g → fdOf pc = some g := fun g hg => sysOf_fd hg
  -- facts about the other tasks
  have hotherOK : ∀ t tk2 op2 pc2, t ≠ l.tid → w.tasks t = some tk2 → tk2.cur = some (op2, pc2) →
      GoodOp offered op2 ∧ TaskOK P offered (Known K0 w'.hist) fs1 op2 pc2 ∧ ∀ g, fdOf pc2 = some g → g < fs1.nextFd := by
    intro t tk2 op2 pc2 hne ht2 hc2
    obtain ⟨g2, T2, b2⟩ := W.cur _ _ _ _ ht2 hc2
    refine ⟨g2, taskOK_mono hy hK hm W.fs hinv' g2 (fun g hg => ⟨fun heq => ?_, b2 g hg⟩) T2,
      fun g hg => Nat.lt_of_lt_of_le (b2 g hg) hm.nextFd⟩
    exact W.distinct l.tid t tk tk2 op pc op2 pc2 g (Ne.symm hne) htk ht2 hcur hc2 (hown g heq.symm) hg
  refine ⟨by rw [hfs]; exact hinv', ?_, ?_, ?_, ?_, ?_, ?_, ?_⟩
  · -- ik
    rw [hfs]
    intro id' d' hd
    rcases hidx id' d' hd with h1 | h1 | ⟨id, s, fd, rfl, rfl, rfl, rfl⟩
    · rcases W.ik id' d' h1 with h0 | ⟨c, t, k1, k2, k3⟩
      · exact Or.inl h0
      · exact Or.inr ⟨c, t, hK _ _ k1, k2, k3⟩
    · exact Or.inl h1
    · obtain ⟨⟨k, rfl⟩, _⟩ := hghost _ _ _ rfl rfl
      refine Or.inr ⟨s.data1, w.now, Or.inr ⟨l.tid, ?_⟩, hgood.2, rfl⟩
      rw [hh, ghostOf_iWrite]; simp
  · -- kc
    rw [hfs]
    intro id c hk
    rcases hk with hk | ⟨t, ht⟩
    · obtain ⟨h1, h2⟩ := W.kc id c (Or.inl hk)
      exact ⟨h1, completeF_mono hm hinv' h1 h2⟩
    · rw [hh] at ht
      simp only [List.mem_append] at ht
      rcases ht with (ht | ht) | ht
      · obtain ⟨h1, h2⟩ := W.kc id c (Or.inr ⟨t, ht⟩)
        exact ⟨h1, completeF_mono hm hinv' h1 h2⟩
      · obtain ⟨id', s, fd, k, rfl, rfl, rfl, he⟩ := ghostOf_mem ht
        cases he
        obtain ⟨_, hc⟩ := hghost _ _ _ rfl rfl
        exact ⟨hgood.2, completeF_mono hm hinv' hgood.2 hc⟩
      · obtain ⟨res, _, he⟩ := hextra _ ht; cases he
  · -- rp
    rw [hfs]
    intro tid id s out size hr
    rw [hh] at hr
    simp only [List.mem_append] at hr
    rcases hr with (hr | hr) | hr
    · exact indexFull_mono hy hm hinv' (W.rp _ _ _ _ _ hr)
    · obtain ⟨_, _, _, _, _, _, _, he⟩ := ghostOf_mem hr; cases he
    · obtain ⟨res, hnx, he⟩ := hextra _ hr
      cases he
      subst hnx
      exact hpost.2 _ _ _ _ rfl rfl
  · -- rl
    intro tid op' res hr hop
    rw [hh] at hr
    simp only [List.mem_append] at hr
    rcases hr with (hr | hr) | hr
    · exact (W.rl _ _ _ hr hop).mono hK
    · obtain ⟨_, _, _, _, _, _, _, he⟩ := ghostOf_mem hr; cases he
    · obtain ⟨res', hnx, he⟩ := hextra _ hr
      cases he
      subst hnx
      exact (hpost.1 hop).mono hK
  · -- todo
    intro tid tk2 op' ht2 ho
    by_cases hne : tid = l.tid
    · subst hne; rw [htk'] at ht2; cases ht2; exact htodo' _ ho
    · rw [hother _ hne] at ht2; exact W.todo _ _ _ ht2 ho
  · -- cur
    intro tid tk2 op' pc' ht2 hc2
    rw [hfs]
    by_cases hne : tid = l.tid
    · subst hne; rw [htk'] at ht2; cases ht2
      obtain ⟨h1, h2, h3⟩ := hcur' _ _ hc2
      refine ⟨h1, h2, fun g hg => ?_⟩
      rcases h3 g hg with h | ⟨rfl, h⟩
      · exact Nat.lt_of_lt_of_le (hbound g h) hm.nextFd
      · omega
    · rw [hother _ hne] at ht2; exact hotherOK _ _ _ _ hne ht2 hc2
  · -- distinct
    intro t1 t2 tk1 tk2 op1 pc1 op2 pc2 g hne h1 h2 c1 c2 g1 g2
    by_cases e1 : t1 = l.tid
    · subst e1
      rw [htk'] at h1; cases h1
      rw [hother _ (Ne.symm hne)] at h2
      obtain ⟨_, _, h3⟩ := hcur' _ _ c1
      obtain ⟨_, _, b2⟩ := W.cur _ _ _ _ h2 c2
      rcases h3 g g1 with h | ⟨rfl, _⟩
      · exact W.distinct _ _ _ _ _ _ _ _ g hne htk h2 hcur c2 h g2
      · have := b2 _ g2; omega
    · rw [hother _ e1] at h1
      by_cases e2 : t2 = l.tid
      · subst e2
        rw [htk'] at h2; cases h2
        obtain ⟨_, _, h3⟩ := hcur' _ _ c2
        obtain ⟨_, _, b1⟩ := W.cur _ _ _ _ h1 c1
        rcases h3 g g2 with h | ⟨rfl, _⟩
        · exact W.distinct _ _ _ _ _ _ _ _ g hne h1 htk c1 hcur g1 h
        · have := b1 _ g1; omega
      · rw [hother _ e2] at h2
        exact W.distinct _ _ _ _ _ _ _ _ g hne h1 h2 c1 c2 g1 g2

end GIV.CachePut
