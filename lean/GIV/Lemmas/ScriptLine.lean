/-
  Helper lemmas for GIV.Props.C02 at the level of whole lines: the quoted line, quote parity,
  a single token alone on a line.
-/
import GIV.Lemmas.ScriptTok
import GIV.Lemmas.ScriptExpand
namespace GIV.Script
open GIV

/-- The words of `ws`, single-quoted (quotes doubled), joined by one space. -/
def quotedLine (ws : List Bytes) : Bytes := [32].intercalate (ws.map sq)

theorem quotedLine_cons₂ (w w2 : Bytes) (ws : List Bytes) :
    quotedLine (w :: w2 :: ws) = sq w ++ 32 :: quotedLine (w2 :: ws) := by
  simp [quotedLine, List.intercalate]

theorem quote_law_aux (env : Env) (ws : List Bytes) :
    ∀ args : List Bytes, tok env (quotedLine ws) args [] none false = .ok (args ++ ws) := by
  induction ws with
  | nil => intro args; simp [quotedLine, List.intercalate, tok]
  | cons w ws ih =>
    intro args
    cases ws with
    | nil =>
      have h := tok_sq env w [] args [] none (by simp)
      have hq : quotedLine [w] = sq w ++ [] := by simp [quotedLine, List.intercalate]
      rw [hq, h, tok_nil_unq]
      simp [stText, expand_nil]
    | cons w2 ws =>
      rw [quotedLine_cons₂, tok_sq env w _ args [] none (by simp [quoteChar_eq]),
        tok_blank env 32 _ args _ (some []) (by decide)]
      simp only []
      rw [ih]
      simp [stText, expand_nil]

theorem unbalanced_parity (s : Bytes) (hs : ∀ c ∈ s, isComment c = false) :
    ∀ q, unbalanced s q = true ↔ (q = true ↔ s.count quoteChar % 2 = 0) := by
  induction s with
  | nil => intro q; cases q <;> simp [unbalanced]
  | cons c s ih =>
    intro q
    have hc : isComment c = false := hs c (by simp)
    have ih' := ih (fun x hx => hs x (by simp [hx]))
    by_cases hq : c = quoteChar
    · subst hq
      rw [unbalanced, if_pos rfl, ih', List.count_cons_self]
      cases q <;> simp <;> omega
    · have hu : unbalanced (c :: s) q = unbalanced s q := by simp [unbalanced, hq, hc]
      rw [hu, ih', List.count_cons_of_ne hq]

theorem isAlphaNum_ordinary {c : UInt8} (h : isAlphaNum c = true) : Ordinary c := by
  refine ⟨?_, ?_, ?_⟩
  · cases hb : isBlank c
    · rfl
    · rcases (isBlank_iff c).1 hb with hc | hc | hc <;> subst hc <;> revert h <;> decide
  · cases hb : isComment c
    · rfl
    · have := (isComment_iff c).1 hb; subst this; revert h; decide
  · intro hc; subst hc; revert h; decide

theorem ordinary_syntax : Ordinary DOLLAR ∧ Ordinary LBRACE ∧ Ordinary RBRACE ∧ Ordinary 64 ∧ Ordinary 82 := by decide

/-- A single well-formed token alone on the line: one argument, its value. -/
theorem token_line (env : Env) (segs : List Seg) (hne : segs ≠ []) (hA : Alt segs) :
    parseLine env (renderSegs segs) = .ok [valueSegs env segs] := by
  have := tok_token env segs hne hA [] (Or.inl rfl) []
  simpa [parseLine, tok_nil_unq] using this

end GIV.Script
