/-
  GIV.Lemmas.SemverGo — the Lean translation of golang.org/x/mod/semver (GIV.Gen.SemverGo, regenerated on
  every run by harness/internal/go2lean from the module-cache copy of the x/mod version /repo's go.mod
  requires: GOMODCACHE/golang.org/x/mod@v…/semver/semver.go) computes the model's `semverParse`,
  `semverIsValid`, `semverMajor`, `semverBuild`, `semverCompare` (GIV.Model.Proxy, section
  "golang.org/x/mod/semver") — for every string; no index, slice or loop budget ever fails.

    isIdentChar_eq                         the byte class
    isNum_eq, isBadNum_eq, parseInt_eq     the three digit scans (`scan`: where `for i < len(v) && p(v[i]) { i++ }` stops)
    pre_loop_eq, parsePrerelease_eq        the prerelease scan with its `i`, `start`: `v[start:i]` is the identifier
    build_loop_eq, parseBuild_eq           being read; the scans accept exactly when the model's `all` / `splitOn` test does
    parse_eq                               `parse v = (g, semverIsValid v)`, and when valid `ofGo g = ` the model's
                                           `Parsed`, `g.short = semverShort v` (on failure Go's struct is partly filled
                                           and no caller reads it)
    IsValid_eq, Major_eq, Build_eq         (`v[:1+len(major)]` is in range: `major_len`)
    Canonical_eq                           = `semverCanonical` (its specification over `semverParse`; `v[:len(v)-len(build)]`
                                           is in range: `build_len`)
    compareInt_eq, nextIdent_eq            Go's string `<` is `List.lt` on the bytes = the model's `bytesLt`
    comparePrerelease_loop_eq              the identifier-by-identifier loop = `cmpGo` over the `splitOn` pieces
    comparePrerelease_eq, Compare_eq       = the model's, for operands that are empty or start with the same byte,
                                           which is all `Compare` passes (`prerelease_head`)
-/
import GIV.Gen.SemverGo
import GIV.Model.Proxy
set_option linter.unusedSimpArgs false
namespace GIV.SemverGo
open GIV GIV.GoLib GIV.Proxy

/-! ### Go's built-ins on natural-number indices -/

theorem idx_nat (s : Bytes) (i : Nat) : GoLib.idx? s (i : Int) = s[i]? := by
  unfold GoLib.idx?; simp

theorem idx_zero (s : Bytes) : GoLib.idx? s 0 = s.head? := by
  have := idx_nat s 0
  rw [show ((0 : Nat) : Int) = 0 from rfl] at this
  rw [this]; cases s <;> rfl

theorem slice_nat (s : Bytes) (a b : Nat) (h1 : a ≤ b) (h2 : b ≤ s.length) :
    GoLib.slice? s (a : Int) (b : Int) = some ((s.take b).drop a) := by
  unfold GoLib.slice?
  rw [if_pos (by omega)]
  simp

theorem slice_zero (s : Bytes) (b : Nat) (h2 : b ≤ s.length) :
    GoLib.slice? s 0 (b : Int) = some (s.take b) := by
  have := slice_nat s 0 b (Nat.zero_le _) h2
  rw [show ((0 : Nat) : Int) = 0 from rfl] at this
  rw [this]; simp

theorem slice_to_end (s : Bytes) (a : Nat) (h : a ≤ s.length) :
    GoLib.slice? s (a : Int) (GoLib.len s) = some (s.drop a) := by
  have := slice_nat s a s.length h (Nat.le_refl _)
  unfold GoLib.len
  rw [this, List.take_of_length_le (Nat.le_refl _)]

theorem slice_one_end (c : UInt8) (s : Bytes) :
    GoLib.slice? (c :: s) 1 (GoLib.len (c :: s)) = some s := by
  have := slice_to_end (c :: s) 1 (by simp)
  rw [show ((1 : Nat) : Int) = 1 from rfl] at this
  rw [this]; rfl

theorem cast_succ (i : Nat) : (i : Int) + 1 = ((i + 1 : Nat) : Int) := by omega

theorem lt_of_some {s : Bytes} {i : Nat} {c : UInt8} (hi : s[i]? = some c) : i < s.length :=
  (List.getElem?_eq_some_iff.1 hi).1

theorem not_lt_len {s : Bytes} {i : Nat} (hi : s[i]? = none) : ¬ ((i : Int) < GoLib.len s) := by
  have := List.getElem?_eq_none_iff.1 hi
  unfold GoLib.len; omega

theorem lt_len {s : Bytes} {i : Nat} {c : UInt8} (hi : s[i]? = some c) : (i : Int) < GoLib.len s := by
  have := lt_of_some hi
  unfold GoLib.len; omega

theorem drop_of_some {s : Bytes} {i : Nat} {c : UInt8} (hi : s[i]? = some c) :
    s.drop i = c :: s.drop (i + 1) := by
  have h := lt_of_some hi
  rw [List.drop_eq_getElem_cons h]
  congr 1
  rw [List.getElem?_eq_getElem h] at hi
  exact Option.some.inj hi

theorem drop_of_none {s : Bytes} {i : Nat} (hi : s[i]? = none) : s.drop i = [] :=
  List.drop_eq_nil_iff.2 (List.getElem?_eq_none_iff.1 hi)

/-! ### scanning: `for i < len(v) && p(v[i]) { i++ }` stops at `scan p v i` -/

/-- where a scan over the bytes satisfying `p` that starts at index `i` stops. -/
def scan (p : UInt8 → Bool) (v : Bytes) (i : Nat) : Nat := i + ((v.drop i).takeWhile p).length

theorem scan_end {p : UInt8 → Bool} {v : Bytes} {i : Nat} (hi : v[i]? = none) : scan p v i = i := by
  simp [scan, drop_of_none hi]

theorem scan_stop {p : UInt8 → Bool} {v : Bytes} {i : Nat} {c : UInt8} (hi : v[i]? = some c)
    (hp : p c = false) : scan p v i = i := by
  simp [scan, drop_of_some hi, hp]

theorem scan_step {p : UInt8 → Bool} {v : Bytes} {i : Nat} {c : UInt8} (hi : v[i]? = some c)
    (hp : p c = true) : scan p v i = scan p v (i + 1) := by
  simp [scan, drop_of_some hi, hp]; omega

theorem scan_le (p : UInt8 → Bool) (v : Bytes) (i : Nat) (h : i ≤ v.length) : scan p v i ≤ v.length := by
  unfold scan
  have h1 : ((v.drop i).takeWhile p).length ≤ (v.drop i).length := by
    have := congrArg List.length (List.takeWhile_append_dropWhile (p := p) (l := v.drop i))
    simp only [List.length_append] at this
    omega
  simp only [List.length_drop] at h1
  omega

theorem le_scan (p : UInt8 → Bool) (v : Bytes) (i : Nat) : i ≤ scan p v i := by
  unfold scan; omega

theorem takeWhile_length_eq_iff (p : UInt8 → Bool) (v : Bytes) :
    ((v.takeWhile p).length = v.length) ↔ v.all p = true := by
  induction v with
  | nil => simp
  | cons c r ih =>
    by_cases hc : p c = true
    · simp only [List.takeWhile_cons, hc, if_true, List.length_cons, List.all_cons, Bool.true_and]
      rw [← ih]; omega
    · have hc' : p c = false := by simpa using hc
      simp [hc']

theorem take_takeWhile_length (p : UInt8 → Bool) (v : Bytes) :
    v.take (v.takeWhile p).length = v.takeWhile p := by
  induction v with
  | nil => simp
  | cons c r ih =>
    by_cases hc : p c = true
    · simp [hc, ih]
    · have hc' : p c = false := by simpa using hc
      simp [hc']

/-- the digit test as the three translated loops compute it -/
theorem digit_test (c : UInt8) : (decide (48 ≤ c) && decide (c ≤ 57)) = isDigit c := rfl

/-! ### isIdentChar -/

theorem isIdentChar_eq (c : UInt8) : GIV.Go.Semver.isIdentChar c = some (isIdentChar c) := by
  unfold GIV.Go.Semver.isIdentChar isIdentChar isUpper isLower isDigit
  rfl

/-! ### isNum, isBadNum -/

theorem isNum_loop_eq (v : Bytes) : ∀ fuel i, v.length - i < fuel →
    GIV.Go.Semver.isNum_loop1 v fuel (i : Int) = GIV.Go.Semver.isNum_after1 v ((scan isDigit v i : Nat) : Int) := by
  intro fuel
  induction fuel with
  | zero => intro i h; omega
  | succ fuel ih =>
    intro i hf
    rw [GIV.Go.Semver.isNum_loop1]
    cases hi : v[i]? with
    | none => simp [not_lt_len hi, scan_end hi]
    | some c =>
      have hlt := lt_of_some hi
      simp only [lt_len hi, decide_true, if_true, idx_nat, hi, Option.pure_def, Option.bind_eq_bind,
        Option.bind_some]
      by_cases h1 : (48 : UInt8) ≤ c
      · by_cases h2 : c ≤ (57 : UInt8)
        · have hd : isDigit c = true := by simp [isDigit, h1, h2]
          simp only [h1, h2, decide_true, if_true, Option.bind_some, Bool.not_true, Bool.false_eq_true, if_false,
            cast_succ]
          rw [scan_step hi hd]
          exact ih (i + 1) (by omega)
        · have hd : isDigit c = false := by simp [isDigit, h2]
          simp [h1, h2, scan_stop hi hd]
      · have hd : isDigit c = false := by simp [isDigit, h1]
        simp [h1, scan_stop hi hd]

theorem scan_zero (p : UInt8 → Bool) (v : Bytes) : scan p v 0 = (v.takeWhile p).length := by
  simp [scan]

theorem isNum_eq (v : Bytes) : GIV.Go.Semver.isNum v = some (v.all isDigit) := by
  unfold GIV.Go.Semver.isNum
  have := isNum_loop_eq v (v.length + 2) 0 (by omega)
  rw [show ((0 : Nat) : Int) = 0 from rfl] at this
  rw [this, GIV.Go.Semver.isNum_after1, scan_zero]
  simp only [Option.pure_def, GoLib.len, Option.some.injEq]
  by_cases h : v.all isDigit = true
  · have := (takeWhile_length_eq_iff isDigit v).2 h
    rw [h, this]; simp
  · have h' : v.all isDigit = false := by simpa using h
    rw [h']
    have := mt (takeWhile_length_eq_iff isDigit v).1 h
    have h3 : ¬ (((v.takeWhile isDigit).length : Int) = (v.length : Int)) := by omega
    simp [h3]

theorem isBadNum_loop_eq (v : Bytes) : ∀ fuel i, v.length - i < fuel →
    GIV.Go.Semver.isBadNum_loop1 v fuel (i : Int) = GIV.Go.Semver.isBadNum_after1 v ((scan isDigit v i : Nat) : Int) := by
  intro fuel
  induction fuel with
  | zero => intro i h; omega
  | succ fuel ih =>
    intro i hf
    rw [GIV.Go.Semver.isBadNum_loop1]
    cases hi : v[i]? with
    | none => simp [not_lt_len hi, scan_end hi]
    | some c =>
      have hlt := lt_of_some hi
      simp only [lt_len hi, decide_true, if_true, idx_nat, hi, Option.pure_def, Option.bind_eq_bind,
        Option.bind_some]
      by_cases h1 : (48 : UInt8) ≤ c
      · by_cases h2 : c ≤ (57 : UInt8)
        · have hd : isDigit c = true := by simp [isDigit, h1, h2]
          simp only [h1, h2, decide_true, if_true, Option.bind_some, Bool.not_true, Bool.false_eq_true, if_false,
            cast_succ]
          rw [scan_step hi hd]
          exact ih (i + 1) (by omega)
        · have hd : isDigit c = false := by simp [isDigit, h2]
          simp [h1, h2, scan_stop hi hd]
      · have hd : isDigit c = false := by simp [isDigit, h1]
        simp [h1, scan_stop hi hd]

theorem isBadNum_eq (v : Bytes) : GIV.Go.Semver.isBadNum v = some (isBadNum v) := by
  unfold GIV.Go.Semver.isBadNum
  have := isBadNum_loop_eq v (v.length + 2) 0 (by omega)
  rw [show ((0 : Nat) : Int) = 0 from rfl] at this
  rw [this, GIV.Go.Semver.isBadNum_after1, scan_zero, idx_zero]
  unfold isBadNum
  simp only [Option.pure_def, GoLib.len]
  by_cases h : v.all isDigit = true
  · have hl := (takeWhile_length_eq_iff isDigit v).2 h
    rw [h, hl]
    cases v with
    | nil => simp
    | cons c r =>
      by_cases hr : r = []
      · subst hr; simp
      · have : 0 < r.length := List.length_pos_iff.2 hr
        have h2 : (1 : Int) < (r.length : Int) + 1 := by omega
        simp [h2, this]
        rfl
  · have h' : v.all isDigit = false := by simpa using h
    rw [h']
    have := mt (takeWhile_length_eq_iff isDigit v).1 h
    have h3 : ¬ (((v.takeWhile isDigit).length : Int) = (v.length : Int)) := by omega
    simp [h3]

/-! ### parseInt -/

theorem parseInt_loop_eq (v t rest : Bytes) (ok : Bool) : ∀ fuel i, v.length - i < fuel →
    GIV.Go.Semver.parseInt_loop1 v t rest ok fuel (i : Int) =
      GIV.Go.Semver.parseInt_after1 v t rest ok ((scan isDigit v i : Nat) : Int) := by
  intro fuel
  induction fuel with
  | zero => intro i h; omega
  | succ fuel ih =>
    intro i hf
    rw [GIV.Go.Semver.parseInt_loop1]
    cases hi : v[i]? with
    | none => simp [not_lt_len hi, scan_end hi]
    | some c =>
      have hlt := lt_of_some hi
      simp only [lt_len hi, decide_true, if_true, idx_nat, hi, Option.pure_def, Option.bind_eq_bind,
        Option.bind_some]
      by_cases h1 : (48 : UInt8) ≤ c
      · by_cases h2 : c ≤ (57 : UInt8)
        · have hd : isDigit c = true := by simp [isDigit, h1, h2]
          simp only [h1, h2, decide_true, if_true, Option.bind_some, Bool.not_true, Bool.false_eq_true, if_false,
            cast_succ]
          rw [scan_step hi hd]
          exact ih (i + 1) (by omega)
        · have hd : isDigit c = false := by simp [isDigit, h2]
          simp [h1, h2, scan_stop hi hd]
      · have hd : isDigit c = false := by simp [isDigit, h1]
        simp [h1, scan_stop hi hd]

/-- what Go's `parseInt` returns, in terms of the model's: `("", "", false)` when the model says `none`. -/
def parseIntRes (v : Bytes) : Bytes × Bytes × Bool :=
  match Proxy.parseInt v with
  | some (t, r) => (t, r, true)
  | none => ([], [], false)

theorem parseInt_eq (v : Bytes) : GIV.Go.Semver.parseInt v = some (parseIntRes v) := by
  unfold GIV.Go.Semver.parseInt parseIntRes Proxy.parseInt
  cases v with
  | nil => simp
  | cons c r =>
    have hne : ((c :: r) == ([] : Bytes)) = false := rfl
    simp only [hne, Bool.false_eq_true, if_false, idx_zero, List.head?_cons, Option.pure_def, Option.bind_eq_bind,
      Option.bind_some]
    by_cases h1 : c < (48 : UInt8)
    · have hd : isDigit c = false := by
        have : ¬ ((48 : UInt8) ≤ c) := UInt8.not_le.2 h1
        simp [isDigit, this]
      simp [h1, hd]
    · by_cases h2 : (57 : UInt8) < c
      · have hd : isDigit c = false := by
          have : ¬ (c ≤ (57 : UInt8)) := UInt8.not_le.2 h2
          simp [isDigit, this]
        simp [h1, h2, hd]
      · have hd : isDigit c = true := by
          have a : (48 : UInt8) ≤ c := UInt8.not_lt.1 h1
          have b : c ≤ (57 : UInt8) := UInt8.not_lt.1 h2
          simp [isDigit, a, b]
        simp only [h1, h2, decide_false, Bool.false_eq_true, if_false, Option.bind_some, hd, Bool.not_true]
        have hl := parseInt_loop_eq (c :: r) [] [] false ((c :: r).length + ([] : Bytes).length + ([] : Bytes).length + 2) 1
          (by simp only [List.length_cons, List.length_nil]; omega)
        rw [show ((1 : Nat) : Int) = 1 from rfl] at hl
        rw [hl, GIV.Go.Semver.parseInt_after1]
        have hs : scan isDigit (c :: r) 1 = ((c :: r).takeWhile isDigit).length := by
          simp [scan, hd]; omega
        have hle : ((c :: r).takeWhile isDigit).length ≤ (c :: r).length := by
          have := scan_le isDigit (c :: r) 1 (by simp)
          omega
        rw [hs]
        simp only [idx_zero, List.head?_cons, Option.pure_def, Option.bind_eq_bind, Option.bind_some]
        rw [slice_zero _ _ hle, slice_to_end _ _ hle, take_takeWhile_length]
        have h1' : (((List.takeWhile isDigit (c :: r)).length : Int) != 1) = ((List.takeWhile isDigit (c :: r)).length != 1) := by
          rw [Bool.eq_iff_iff]; simp only [bne_iff_ne, ne_eq]; omega
        rw [h1']
        generalize List.takeWhile isDigit (c :: r) = T
        by_cases hc : c = 48 <;> by_cases hT : T.length = 1 <;> simp [hc, hT]

/-! ### splitOn on a string whose first piece is known -/

theorem splitOn_ne_nil (sep : UInt8) (s : Bytes) : splitOn sep s ≠ [] := by
  induction s with
  | nil => simp [splitOn]
  | cons c r ih =>
    unfold splitOn
    by_cases h : c = sep
    · simp [h]
    · simp only [h, if_false]
      cases hs : splitOn sep r <;> simp

theorem splitOn_nosep (sep : UInt8) (cur : Bytes) (h : ∀ c ∈ cur, c ≠ sep) : splitOn sep cur = [cur] := by
  induction cur with
  | nil => simp [splitOn]
  | cons c r ih =>
    have hc : c ≠ sep := h c (by simp)
    have := ih (fun x hx => h x (by simp [hx]))
    simp [splitOn, hc, this]

theorem splitOn_append_sep (sep : UInt8) (cur rest : Bytes) (h : ∀ c ∈ cur, c ≠ sep) :
    splitOn sep (cur ++ sep :: rest) = cur :: splitOn sep rest := by
  induction cur with
  | nil => simp [splitOn]
  | cons c r ih =>
    have hc : c ≠ sep := h c (by simp)
    have := ih (fun x hx => h x (by simp [hx]))
    simp [splitOn, hc, this]

/-! ### the identifier scans of parsePrerelease and parseBuild

  `cur = v[start:i]` is the identifier being read (it contains no '.'); the loops accept exactly when every
  byte up to the end (the next '+' for a prerelease) is an identifier byte or '.', and every identifier of
  `cur ++ remaining bytes` is non-empty (and, for a prerelease, not a number with a leading zero). -/

theorem take_succ_drop {v : Bytes} {i start : Nat} {c : UInt8} (hi : v[i]? = some c) (hs : start ≤ i) :
    (v.take (i + 1)).drop start = (v.take i).drop start ++ [c] := by
  have hlt := lt_of_some hi
  rw [List.take_add_one, hi]
  rw [List.drop_append_of_le_length (by simp; omega)]
  rfl

theorem take_drop_self (v : Bytes) (i : Nat) : (v.take i).drop i = [] := by
  apply List.drop_eq_nil_iff.2; simp only [List.length_take]; exact Nat.min_le_left _ _

theorem cur_nil_iff (v : Bytes) (i start : Nat) (hs : start ≤ i) (hi : i ≤ v.length) :
    ((v.take i).drop start = []) ↔ start = i := by
  rw [List.drop_eq_nil_iff]; simp; omega

/-- the result of the prerelease scan from index `i` with the current identifier `cur`. -/
def preRes (v : Bytes) (i : Nat) (cur : Bytes) : Bytes × Bytes × Bool :=
  let body := (v.drop i).takeWhile (· ≠ 43)
  if body.all (fun c => isIdentChar c || c = 46) && (splitOn 46 (cur ++ body)).all (fun id => !id.isEmpty && !isBadNum id)
  then (v.take (i + body.length), v.drop (i + body.length), true) else ([], [], false)

theorem pre_after_eq (v : Bytes) (i start : Nat) (hs : start ≤ i) (hi : i ≤ v.length)
    (hcur : ∀ c ∈ (v.take i).drop start, c ≠ 46)
    (hstop : (v.drop i).takeWhile (· ≠ 43) = []) :
    GIV.Go.Semver.parsePrerelease_after1 v [] [] false (i : Int) (start : Int) =
      some (preRes v i ((v.take i).drop start)) := by
  rw [GIV.Go.Semver.parsePrerelease_after1, preRes]
  simp only [hstop, List.all_nil, Bool.true_and, List.append_nil, splitOn_nosep 46 _ hcur, List.all_cons,
    Bool.and_true, List.length_nil, Nat.add_zero]
  rw [slice_nat v start i hs hi, slice_zero v i hi, slice_to_end v i hi]
  simp only [isBadNum_eq, Option.pure_def, Option.bind_eq_bind, Option.bind_some]
  by_cases he : start = i
  · subst he
    simp [take_drop_self]
  · have he' : ¬ ((start : Int) = (i : Int)) := by omega
    have hne : (v.take i).drop start ≠ [] := fun h => he ((cur_nil_iff v i start hs hi).1 h)
    have hne' : ((v.take i).drop start).isEmpty = false := by
      cases h : (v.take i).drop start with
      | nil => exact absurd h hne
      | cons _ _ => rfl
    simp only [beq_iff_eq, he', if_false, Option.bind_some, hne', Bool.not_false, Bool.true_and]
    cases isBadNum ((v.take i).drop start) <;> simp

theorem pre_loop_eq (v : Bytes) : ∀ fuel i start, start ≤ i → i ≤ v.length → v.length - i < fuel →
    (∀ c ∈ (v.take i).drop start, c ≠ 46) →
    GIV.Go.Semver.parsePrerelease_loop1 v [] [] false fuel (i : Int) (start : Int) =
      some (preRes v i ((v.take i).drop start)) := by
  intro fuel
  induction fuel with
  | zero => intro i _ _ _ h; omega
  | succ fuel ih =>
    intro i start hs hle hf hcur
    rw [GIV.Go.Semver.parsePrerelease_loop1]
    cases hi : v[i]? with
    | none =>
      simp only [not_lt_len hi, decide_false, Bool.false_eq_true, if_false, Option.pure_def, Option.bind_eq_bind,
        Option.bind_some, Bool.not_false, if_true]
      exact pre_after_eq v i start hs hle hcur (by simp [drop_of_none hi])
    | some c =>
      have hlt := lt_of_some hi
      simp only [lt_len hi, decide_true, if_true, idx_nat, hi, Option.pure_def, Option.bind_eq_bind,
        Option.bind_some, isIdentChar_eq]
      by_cases h43 : c = 43
      · subst h43
        simp only [bne_self_eq_false, Bool.not_false, if_true]
        exact pre_after_eq v i start hs hle hcur (by simp [drop_of_some hi])
      · have hb : (c != 43) = true := by simpa using h43
        simp only [hb, Bool.not_true, Bool.false_eq_true, if_false]
        have hbody : (v.drop i).takeWhile (· ≠ 43) = c :: (v.drop (i + 1)).takeWhile (· ≠ 43) := by
          simp [drop_of_some hi, h43]
        by_cases h46 : c = 46
        · subst h46
          have hid : isIdentChar 46 = false := by decide
          simp only [hid, Bool.not_false, if_true, bne_self_eq_false, Option.bind_some, Bool.false_eq_true,
            if_false, beq_self_eq_true]
          rw [slice_nat v start i hs hle]
          simp only [isBadNum_eq, Option.bind_some]
          have hrec := ih (i + 1) (i + 1) (Nat.le_refl _) (by omega) (by omega) (by simp [take_drop_self])
          rw [take_drop_self] at hrec
          have hres : preRes v i ((v.take i).drop start) =
              if (!((v.take i).drop start).isEmpty && !isBadNum ((v.take i).drop start)) = true
              then preRes v (i + 1) [] else ([], [], false) := by
            unfold preRes
            simp only [hbody, List.all_cons, hid, Bool.false_or, decide_true, Bool.true_and,
              splitOn_append_sep 46 _ _ hcur, List.nil_append, List.length_cons]
            have e : i + (List.length (List.takeWhile (fun x => decide (x ≠ 43)) (List.drop (i + 1) v)) + 1) =
              i + 1 + List.length (List.takeWhile (fun x => decide (x ≠ 43)) (List.drop (i + 1) v)) := by omega
            rw [e]
            cases h1 : (!((v.take i).drop start).isEmpty && !isBadNum ((v.take i).drop start)) <;> simp
          rw [hres]
          by_cases he : start = i
          · subst he
            simp [take_drop_self]
          · have he' : ¬ ((start : Int) = (i : Int)) := by omega
            have hne : (v.take i).drop start ≠ [] := fun h => he ((cur_nil_iff v i start hs hle).1 h)
            have hne' : ((v.take i).drop start).isEmpty = false := by
              cases h : (v.take i).drop start with
              | nil => exact absurd h hne
              | cons _ _ => rfl
            simp only [beq_iff_eq, he', if_false, Option.bind_some, hne', Bool.not_false, Bool.true_and]
            cases hbn : isBadNum ((v.take i).drop start)
            · simp only [Bool.false_eq_true, if_false, Bool.not_false, if_true, cast_succ]
              exact hrec
            · simp
        · have hb46 : (c != 46) = true := by simpa using h46
          have hb46' : (c == 46) = false := by simpa using h46
          cases hid : isIdentChar c
          · have hres : preRes v i ((v.take i).drop start) = ([], [], false) := by
              unfold preRes
              simp only [hbody, List.all_cons, hid, Bool.false_or]
              simp [h46]
            simp [hb46, hres]
          · simp only [Bool.not_true, Bool.false_eq_true, if_false, Option.bind_some, hb46', cast_succ]
            have hrec := ih (i + 1) start (by omega) (by omega) (by omega) (by
              rw [take_succ_drop hi hs]
              intro x hx
              rcases List.mem_append.1 hx with hx | hx
              · exact hcur x hx
              · simp at hx; subst hx; exact h46)
            rw [hrec, take_succ_drop hi hs]
            congr 1
            unfold preRes
            simp only [hbody, List.all_cons, hid, Bool.true_or, Bool.true_and, List.length_cons,
              List.append_assoc, List.singleton_append]
            have e : i + (List.length (List.takeWhile (fun x => decide (x ≠ 43)) (List.drop (i + 1) v)) + 1) =
              i + 1 + List.length (List.takeWhile (fun x => decide (x ≠ 43)) (List.drop (i + 1) v)) := by omega
            rw [e]

/-- a Go triple `(t, rest, ok)` for the model's `Option (t, rest)`: `("", "", false)` for `none`. -/
def res3 : Option (Bytes × Bytes) → Bytes × Bytes × Bool
  | some (t, r) => (t, r, true)
  | none => ([], [], false)

theorem parseIntRes_eq (v : Bytes) : parseIntRes v = res3 (Proxy.parseInt v) := by
  unfold parseIntRes res3; cases Proxy.parseInt v with
  | none => rfl
  | some p => rfl

theorem parsePrerelease_eq (c : UInt8) (r : Bytes) (h : c = 45) :
    GIV.Go.Semver.parsePrerelease (c :: r) = some (res3 (Proxy.parsePrerelease (c :: r))) := by
  subst h
  unfold GIV.Go.Semver.parsePrerelease
  have hne : (((45 : UInt8) :: r) == ([] : Bytes)) = false := rfl
  simp only [hne, Bool.false_eq_true, if_false, idx_zero, List.head?_cons, Option.pure_def, Option.bind_eq_bind,
    Option.bind_some, bne_self_eq_false]
  have hl := pre_loop_eq (45 :: r) ((45 :: r).length + ([] : Bytes).length + ([] : Bytes).length + 2) 1 1
    (Nat.le_refl _) (by simp) (by simp only [List.length_cons, List.length_nil]; omega) (by simp [take_drop_self])
  rw [show ((1 : Nat) : Int) = 1 from rfl] at hl
  rw [hl, take_drop_self]
  unfold preRes Proxy.parsePrerelease res3
  simp only [List.drop_one, List.tail_cons, List.nil_append]
  split <;> rfl

/-- the result of the build scan from index `i` with the current identifier `cur`. -/
def buildRes (v : Bytes) (i : Nat) (cur : Bytes) : Bytes × Bytes × Bool :=
  let body := v.drop i
  if body.all (fun c => isIdentChar c || c = 46) && (splitOn 46 (cur ++ body)).all (fun id => !id.isEmpty)
  then (v, [], true) else ([], [], false)

theorem build_loop_eq (v : Bytes) : ∀ fuel i start, start ≤ i → i ≤ v.length → v.length - i < fuel →
    (∀ c ∈ (v.take i).drop start, c ≠ 46) →
    GIV.Go.Semver.parseBuild_loop1 v [] [] false fuel (i : Int) (start : Int) =
      some (buildRes v i ((v.take i).drop start)) := by
  intro fuel
  induction fuel with
  | zero => intro i _ _ _ h; omega
  | succ fuel ih =>
    intro i start hs hle hf hcur
    rw [GIV.Go.Semver.parseBuild_loop1]
    cases hi : v[i]? with
    | none =>
      have hlen : i = v.length := by
        have := List.getElem?_eq_none_iff.1 hi
        omega
      simp only [not_lt_len hi, decide_false, Bool.not_false, if_true]
      rw [GIV.Go.Semver.parseBuild_after1, buildRes]
      simp only [drop_of_none hi, List.all_nil, Bool.true_and, List.append_nil, splitOn_nosep 46 _ hcur,
        List.all_cons, Bool.and_true]
      rw [slice_zero v i hle, slice_to_end v i hle, drop_of_none hi]
      by_cases he : start = i
      · subst he
        simp [take_drop_self]
      · have he' : ¬ ((start : Int) = (i : Int)) := by omega
        have hne : (v.take i).drop start ≠ [] := fun h => he ((cur_nil_iff v i start hs hle).1 h)
        have hne' : ((v.take i).drop start).isEmpty = false := by
          cases h : (v.take i).drop start with
          | nil => exact absurd h hne
          | cons _ _ => rfl
        have ht : v.take i = v := by rw [hlen]; exact List.take_of_length_le (Nat.le_refl _)
        simp [he', ht]
        omega
    | some c =>
      have hlt := lt_of_some hi
      simp only [lt_len hi, decide_true, Bool.not_true, Bool.false_eq_true, if_false, idx_nat, hi, Option.pure_def,
        Option.bind_eq_bind, Option.bind_some, isIdentChar_eq]
      by_cases h46 : c = 46
      · subst h46
        have hid : isIdentChar 46 = false := by decide
        simp only [hid, Bool.not_false, if_true, bne_self_eq_false, Option.bind_some, Bool.false_eq_true,
          if_false, beq_self_eq_true]
        have hrec := ih (i + 1) (i + 1) (Nat.le_refl _) (by omega) (by omega) (by simp [take_drop_self])
        rw [take_drop_self] at hrec
        have hres : buildRes v i ((v.take i).drop start) =
            if (!((v.take i).drop start).isEmpty) = true then buildRes v (i + 1) [] else ([], [], false) := by
          unfold buildRes
          simp only [drop_of_some hi, List.all_cons, hid, Bool.false_or, decide_true, Bool.true_and,
            splitOn_append_sep 46 _ _ hcur, List.nil_append]
          cases h1 : (!((v.take i).drop start).isEmpty) <;> simp
        rw [hres]
        by_cases he : start = i
        · subst he
          simp [take_drop_self]
        · have he' : ¬ ((start : Int) = (i : Int)) := by omega
          have hne : (v.take i).drop start ≠ [] := fun h => he ((cur_nil_iff v i start hs hle).1 h)
          have hne' : ((v.take i).drop start).isEmpty = false := by
            cases h : (v.take i).drop start with
            | nil => exact absurd h hne
            | cons _ _ => rfl
          simp only [beq_iff_eq, he', if_false, hne', Bool.not_false, if_true, cast_succ]
          exact hrec
      · have hb46 : (c != 46) = true := by simpa using h46
        have hb46' : (c == 46) = false := by simpa using h46
        cases hid : isIdentChar c
        · have hres : buildRes v i ((v.take i).drop start) = ([], [], false) := by
            unfold buildRes
            simp only [drop_of_some hi, List.all_cons, hid, Bool.false_or]
            simp [h46]
          simp [hb46, hres]
        · simp only [Bool.not_true, Bool.false_eq_true, if_false, Option.bind_some, hb46', cast_succ]
          have hrec := ih (i + 1) start (by omega) (by omega) (by omega) (by
            rw [take_succ_drop hi hs]
            intro x hx
            rcases List.mem_append.1 hx with hx | hx
            · exact hcur x hx
            · simp at hx; subst hx; exact h46)
          rw [hrec, take_succ_drop hi hs]
          congr 1
          unfold buildRes
          simp only [drop_of_some hi, List.all_cons, hid, Bool.true_or, Bool.true_and,
            List.append_assoc, List.singleton_append]

theorem parseBuild_eq (c : UInt8) (r : Bytes) (h : c = 43) :
    GIV.Go.Semver.parseBuild (c :: r) = some (res3 (Proxy.parseBuild (c :: r))) := by
  subst h
  unfold GIV.Go.Semver.parseBuild
  have hne : (((43 : UInt8) :: r) == ([] : Bytes)) = false := rfl
  simp only [hne, Bool.false_eq_true, if_false, idx_zero, List.head?_cons, Option.pure_def, Option.bind_eq_bind,
    Option.bind_some, bne_self_eq_false]
  have hl := build_loop_eq (43 :: r) ((43 :: r).length + ([] : Bytes).length + ([] : Bytes).length + 2) 1 1
    (Nat.le_refl _) (by simp) (by simp only [List.length_cons, List.length_nil]; omega) (by simp [take_drop_self])
  rw [show ((1 : Nat) : Int) = 1 from rfl] at hl
  rw [hl, take_drop_self]
  unfold buildRes Proxy.parseBuild res3
  simp only [List.drop_one, List.tail_cons, List.nil_append]
  split <;> rfl

/-! ### parse -/

/-- the model's `Parsed` of a Go `parsed` struct: the five fields the model keeps (`short` is below). -/
def ofGo (g : GIV.Go.Semver.GoParsed) : Parsed := ⟨g.major, g.minor, g.patch, g.prerelease, g.build⟩

/-- the field `short` of Go's `parsed`: what `Canonical` appends to a shortened version (".0.0" to vMAJOR,
    ".0" to vMAJOR.MINOR, nothing to a full version). -/
def semverShort (v : Bytes) : Bytes :=
  match v with
  | 118 :: v1 =>
    match Proxy.parseInt v1 with
    | some (_, []) => [46, 48, 46, 48]
    | some (_, 46 :: v2) =>
      match Proxy.parseInt v2 with
      | some (_, []) => [46, 48]
      | _ => []
    | _ => []
  | _ => []

/-- the model's reading of the build part: what follows the prerelease must be a build suffix up to the end. -/
def buildSpec (v5 : Bytes) : Option Bytes :=
  match (if v5.head? = some 43 then Proxy.parseBuild v5 else some ([], v5)) with
  | none => none
  | some (build, v6) => if v6.isEmpty then some build else none

theorem parse_k2_eq (v6 : Bytes) (p : GIV.Go.Semver.GoParsed) (ok : Bool) :
    GIV.Go.Semver.parse_k2 v6 p ok = some (p, v6.isEmpty) := by
  unfold GIV.Go.Semver.parse_k2
  cases v6 <;> simp

theorem parse_k1_eq (v5 : Bytes) (p : GIV.Go.Semver.GoParsed) (ok : Bool) (hp : p.build = []) :
    ∃ g, GIV.Go.Semver.parse_k1 v5 p ok = some (g, (buildSpec v5).isSome) ∧
      ∀ b, buildSpec v5 = some b → g = { p with build := b } := by
  unfold GIV.Go.Semver.parse_k1 buildSpec
  have hpp : p = { p with build := [] } := by cases p; simp at hp; subst hp; rfl
  cases v5 with
  | nil =>
    refine ⟨p, by simp [GoLib.len, parse_k2_eq], ?_⟩
    intro b hb; simp at hb; subst hb; exact hpp
  | cons c r =>
    have hlen : GoLib.len (c :: r) > 0 := by simp only [GoLib.len, List.length_cons]; omega
    simp only [hlen, decide_true, if_true, idx_zero, List.head?_cons, Option.pure_def, Option.bind_eq_bind,
      Option.bind_some, Option.some.injEq]
    by_cases hc : c = 43
    · subst hc
      simp only [beq_self_eq_true, if_true, parseBuild_eq 43 r rfl, Option.bind_some]
      cases hb : Proxy.parseBuild (43 :: r) with
      | none => exact ⟨_, by simp [res3]; rfl, by simp⟩
      | some q =>
        obtain ⟨build, v6⟩ := q
        refine ⟨{ p with build := build }, by cases v6 <;> simp [res3, parse_k2_eq], ?_⟩
        intro b hb'; simp at hb'; rw [hb'.2]
    · have hb : (c == 43) = false := by simpa using hc
      refine ⟨p, by simp [hb, hc, parse_k2_eq], ?_⟩
      intro b hb'; simp [hc] at hb'

theorem semverParse_tail (v1 major v2 minor v3 patch v4 pre v5 : Bytes)
    (h1 : Proxy.parseInt v1 = some (major, 46 :: v2)) (h2 : Proxy.parseInt v2 = some (minor, 46 :: v3))
    (h3 : Proxy.parseInt v3 = some (patch, v4))
    (h4 : (if v4.head? = some 45 then Proxy.parsePrerelease v4 else some ([], v4)) = some (pre, v5)) :
    semverParse (118 :: v1) = (buildSpec v5).map (fun b => ⟨major, minor, patch, pre, b⟩) := by
  simp only [semverParse, h1, h2, h3, h4, buildSpec]
  cases (if v5.head? = some 43 then Proxy.parseBuild v5 else some ([], v5)) with
  | none => rfl
  | some q =>
    obtain ⟨b, v6⟩ := q
    cases v6 <;> simp

theorem semverShort_full (v1 major v2 minor v3 : Bytes)
    (h1 : Proxy.parseInt v1 = some (major, 46 :: v2)) (h2 : Proxy.parseInt v2 = some (minor, 46 :: v3)) :
    semverShort (118 :: v1) = [] := by
  simp [semverShort, h1, h2]

theorem parse_eq (v : Bytes) : ∃ g, GIV.Go.Semver.parse v = some (g, semverIsValid v) ∧
    ∀ p, semverParse v = some p → ofGo g = p ∧ g.short = semverShort v := by
  unfold GIV.Go.Semver.parse semverIsValid
  cases v with
  | nil => exact ⟨_, by simp [semverParse]; rfl, by simp [semverParse]⟩
  | cons c v1 =>
    have hne : ((c :: v1) == ([] : Bytes)) = false := rfl
    simp only [hne, Bool.false_eq_true, if_false, idx_zero, List.head?_cons, Option.pure_def, Option.bind_eq_bind,
      Option.bind_some]
    by_cases hc : c = 118
    · subst hc
      simp only [bne_self_eq_false, Bool.false_eq_true, if_false, slice_one_end, Option.bind_some, parseInt_eq,
        parseIntRes_eq]
      cases h1 : Proxy.parseInt v1 with
      | none => exact ⟨_, by simp [semverParse, h1, res3]; rfl, by simp [semverParse, h1]⟩
      | some p1 =>
        obtain ⟨major, rest1⟩ := p1
        cases rest1 with
        | nil => exact ⟨_, by simp [semverParse, h1, res3]; rfl, by simp [semverParse, semverShort, h1, ofGo]⟩
        | cons d v2 =>
          simp only [res3, Bool.not_true, Bool.false_eq_true, if_false]
          have hne2 : ((d :: v2) == ([] : Bytes)) = false := rfl
          simp only [hne2, Bool.false_eq_true, if_false, idx_zero, List.head?_cons, Option.bind_some]
          by_cases hd : d = 46
          · subst hd
            simp only [bne_self_eq_false, Bool.false_eq_true, if_false, slice_one_end, Option.bind_some,
              parseInt_eq, parseIntRes_eq]
            cases h2 : Proxy.parseInt v2 with
            | none => exact ⟨_, by simp [semverParse, h1, h2, res3]; rfl, by simp [semverParse, h1, h2]⟩
            | some p2 =>
              obtain ⟨minor, rest2⟩ := p2
              cases rest2 with
              | nil =>
                exact ⟨_, by simp [semverParse, h1, h2, res3]; rfl, by simp [semverParse, semverShort, h1, h2, ofGo]⟩
              | cons e v3 =>
                simp only [res3, Bool.not_true, Bool.false_eq_true, if_false]
                have hne3 : ((e :: v3) == ([] : Bytes)) = false := rfl
                simp only [hne3, Bool.false_eq_true, if_false, idx_zero, List.head?_cons, Option.bind_some]
                by_cases he : e = 46
                · subst he
                  simp only [bne_self_eq_false, Bool.false_eq_true, if_false, slice_one_end, Option.bind_some,
                    parseInt_eq, parseIntRes_eq]
                  cases h3 : Proxy.parseInt v3 with
                  | none => exact ⟨_, by simp [semverParse, h1, h2, h3, res3]; rfl, by simp [semverParse, h1, h2, h3]⟩
                  | some p3 =>
                    obtain ⟨patch, v4⟩ := p3
                    simp only [res3, Bool.not_true, Bool.false_eq_true, if_false]
                    have hsh := semverShort_full v1 major v2 minor v3 h1 h2
                    cases v4 with
                    | nil =>
                      obtain ⟨g, hg, hgb⟩ := parse_k1_eq []
                        { major := major, minor := minor, patch := patch, short := [], prerelease := [], build := [] } true rfl
                      have hm := semverParse_tail v1 major v2 minor v3 patch [] [] [] h1 h2 h3 (by simp)
                      refine ⟨g, ?_, ?_⟩
                      · simp [GoLib.len, hg, hm]
                      · intro p hp
                        rw [hm] at hp
                        cases hb : buildSpec [] with
                        | none => simp [hb] at hp
                        | some b =>
                          simp [hb] at hp
                          rw [hgb b hb, ← hp, hsh]; simp [ofGo]
                    | cons f r4 =>
                      have hlen : GoLib.len (f :: r4) > 0 := by simp only [GoLib.len, List.length_cons]; omega
                      simp only [hlen, decide_true, if_true, List.head?_cons, Option.bind_some]
                      by_cases hf : f = 45
                      · subst hf
                        simp only [beq_self_eq_true, if_true, parsePrerelease_eq 45 r4 rfl, Option.bind_some]
                        cases h4 : Proxy.parsePrerelease (45 :: r4) with
                        | none =>
                          exact ⟨_, by simp [semverParse, h1, h2, h3, h4, res3]; rfl, by simp [semverParse, h1, h2, h3, h4]⟩
                        | some q =>
                          obtain ⟨pre, v5⟩ := q
                          simp only [res3, Bool.not_true, Bool.false_eq_true, if_false]
                          obtain ⟨g, hg, hgb⟩ := parse_k1_eq v5
                            { major := major, minor := minor, patch := patch, short := [], prerelease := pre, build := [] } true rfl
                          have hm := semverParse_tail v1 major v2 minor v3 patch (45 :: r4) pre v5 h1 h2 h3 (by simp [h4])
                          refine ⟨g, ?_, ?_⟩
                          · simp [hg, hm]
                          · intro p hp
                            rw [hm] at hp
                            cases hb : buildSpec v5 with
                            | none => simp [hb] at hp
                            | some b =>
                              simp [hb] at hp
                              rw [hgb b hb, ← hp, hsh]; simp [ofGo]
                      · have hb45 : (f == 45) = false := by simpa using hf
                        simp only [hb45, Bool.false_eq_true, if_false]
                        obtain ⟨g, hg, hgb⟩ := parse_k1_eq (f :: r4)
                          { major := major, minor := minor, patch := patch, short := [], prerelease := [], build := [] } true rfl
                        have hm := semverParse_tail v1 major v2 minor v3 patch (f :: r4) [] (f :: r4) h1 h2 h3 (by simp [hf])
                        refine ⟨g, ?_, ?_⟩
                        · simp [hg, hm]
                        · intro p hp
                          rw [hm] at hp
                          cases hb : buildSpec (f :: r4) with
                          | none => simp [hb] at hp
                          | some b =>
                            simp [hb] at hp
                            rw [hgb b hb, ← hp, hsh]; simp [ofGo]
                · have hb : (e != 46) = true := by simpa using he
                  exact ⟨_, by simp [semverParse, h1, h2, hb, he]; rfl, by simp [semverParse, h1, h2, he]⟩
          · have hb : (d != 46) = true := by simpa using hd
            exact ⟨_, by simp [semverParse, h1, hb, hd]; rfl, by simp [semverParse, h1, hd]⟩
    · have hb : (c != 118) = true := by simpa using hc
      have : semverParse (c :: v1) = none := by
        unfold semverParse
        split
        · rename_i heq; simp at heq; exact absurd heq.1 hc
        · rfl
      exact ⟨_, by simp [hb, this]; rfl, by simp [this]⟩

/-! ### IsValid, Major, Build, Canonical -/

theorem IsValid_eq (v : Bytes) : GIV.Go.Semver.IsValid v = some (semverIsValid v) := by
  obtain ⟨g, hg, _⟩ := parse_eq v
  unfold GIV.Go.Semver.IsValid
  rw [hg]; rfl

theorem parseInt_len {v t r : Bytes} (h : Proxy.parseInt v = some (t, r)) : t.length ≤ v.length := by
  unfold Proxy.parseInt at h
  cases v with
  | nil => simp at h
  | cons c rest =>
    simp only at h
    split at h
    · simp at h
    · split at h
      · simp at h
      · simp only [Option.some.injEq, Prod.mk.injEq] at h
        rw [← h.1]
        have := scan_le isDigit (c :: rest) 0 (Nat.zero_le _)
        rw [scan_zero] at this
        exact this

theorem semverParse_major {v : Bytes} {p : Parsed} (h : semverParse v = some p) :
    ∃ v1 r, v = 118 :: v1 ∧ Proxy.parseInt v1 = some (p.major, r) := by
  unfold semverParse at h
  split at h
  · rename_i v1
    split at h
    · simp at h
    · rename_i major hm
      simp at h; subst h; exact ⟨v1, _, rfl, hm⟩
    · rename_i major v2 hm
      refine ⟨v1, 46 :: v2, rfl, ?_⟩
      rw [hm]
      repeat' split at h
      all_goals (first | (simp at h; done) | (simp at h; subst h; rfl))
    · simp at h
  · simp at h

theorem major_len {v : Bytes} {p : Parsed} (h : semverParse v = some p) : 1 + p.major.length ≤ v.length := by
  obtain ⟨v1, r, hv, hm⟩ := semverParse_major h
  have := parseInt_len hm
  subst hv; simp only [List.length_cons]; omega

theorem Major_eq (v : Bytes) : GIV.Go.Semver.Major v = some (semverMajor v) := by
  obtain ⟨g, hg, hp⟩ := parse_eq v
  unfold GIV.Go.Semver.Major semverMajor
  rw [hg]
  unfold semverIsValid
  cases h : semverParse v with
  | none => simp
  | some p =>
    obtain ⟨hgp, _⟩ := hp p h
    have hmaj : g.major = p.major := by rw [← hgp]; rfl
    have hl := major_len h
    have hs := slice_zero v (1 + p.major.length) hl
    have hc : ((1 + p.major.length : Nat) : Int) = 1 + GoLib.len g.major := by
      rw [hmaj]; simp [GoLib.len]
    rw [hc] at hs
    simp [hs]

theorem Build_eq (v : Bytes) : GIV.Go.Semver.Build v = some (semverBuild v) := by
  obtain ⟨g, hg, hp⟩ := parse_eq v
  unfold GIV.Go.Semver.Build semverBuild
  rw [hg]
  unfold semverIsValid
  cases h : semverParse v with
  | none => simp
  | some p =>
    obtain ⟨hgp, _⟩ := hp p h
    have hb : g.build = p.build := by rw [← hgp]; rfl
    simp [hb]

/-! ### Canonical (the model has no counterpart: `semverCanonical` is its specification over `semverParse`) -/

theorem parseInt_rest_len {v t r : Bytes} (h : Proxy.parseInt v = some (t, r)) : r.length ≤ v.length := by
  unfold Proxy.parseInt at h
  cases v with
  | nil => simp at h
  | cons c rest =>
    simp only at h
    split at h
    · simp at h
    · split at h
      · simp at h
      · simp only [Option.some.injEq, Prod.mk.injEq] at h
        rw [← h.2]; simp

theorem parsePrerelease_rest_len {v t r : Bytes} (h : Proxy.parsePrerelease v = some (t, r)) :
    r.length ≤ v.length := by
  unfold Proxy.parsePrerelease at h
  simp only at h
  split at h
  · simp only [Option.some.injEq, Prod.mk.injEq] at h
    rw [← h.2]; simp
  · simp at h

theorem parseBuild_len {v t r : Bytes} (h : Proxy.parseBuild v = some (t, r)) : t.length ≤ v.length := by
  unfold Proxy.parseBuild at h
  simp only at h
  split at h
  · simp only [Option.some.injEq, Prod.mk.injEq] at h
    rw [← h.1]; exact Nat.le_refl _
  · simp at h

theorem build_len {v : Bytes} {p : Parsed} (h : semverParse v = some p) : p.build.length ≤ v.length := by
  unfold semverParse at h
  repeat' split at h
  all_goals (first
    | (simp at h; done)
    | (simp at h; subst h; exact Nat.zero_le _)
    | (rename_i h1 _ _ _ h2 _ _ _ h3 _ _ _ hpre _ _ _ hbuild _
       simp at h; subst h
       have l1 := parseInt_rest_len h1
       have l2 := parseInt_rest_len h2
       have l3 := parseInt_rest_len h3
       simp only [List.length_cons] at l1 l2 l3 ⊢
       have l4 : ∀ {a b c : Bytes}, (if a.head? = some 45 then Proxy.parsePrerelease a else some ([], a)) = some (b, c) →
           c.length ≤ a.length := by
         intro a b c hh
         split at hh
         · exact parsePrerelease_rest_len hh
         · simp at hh; rw [hh.2]; exact Nat.le_refl _
       have l5 : ∀ {a b c : Bytes}, (if a.head? = some 43 then Proxy.parseBuild a else some ([], a)) = some (b, c) →
           b.length ≤ a.length := by
         intro a b c hh
         split at hh
         · exact parseBuild_len hh
         · simp at hh; rw [hh.1]; exact Nat.zero_le _
       have := l4 hpre
       have := l5 hbuild
       omega))

/-- `semver.Canonical`: "" when invalid, else the version without its build suffix, a shortened form completed. -/
def semverCanonical (v : Bytes) : Bytes :=
  match semverParse v with
  | none => []
  | some p => if p.build ≠ [] then v.take (v.length - p.build.length) else v ++ semverShort v

theorem Canonical_eq (v : Bytes) : GIV.Go.Semver.Canonical v = some (semverCanonical v) := by
  obtain ⟨g, hg, hp⟩ := parse_eq v
  unfold GIV.Go.Semver.Canonical semverCanonical
  rw [hg]
  unfold semverIsValid
  cases h : semverParse v with
  | none => simp
  | some p =>
    obtain ⟨hgp, hsh⟩ := hp p h
    have hb : g.build = p.build := by rw [← hgp]; rfl
    have hl := build_len h
    simp only [Option.isSome_some, Bool.not_true, Bool.false_eq_true, if_false, Option.pure_def,
      Option.bind_eq_bind, Option.bind_some, hb, hsh]
    by_cases hbe : p.build = []
    · simp only [hbe, bne_self_eq_false, Bool.false_eq_true, if_false, ne_eq, not_true_eq_false]
      cases hs : semverShort v with
      | nil => simp
      | cons a b => simp
    · have hbn : (p.build != ([] : Bytes)) = true := by simpa using hbe
      have hs := slice_zero v (v.length - p.build.length) (Nat.sub_le _ _)
      have hc : ((v.length - p.build.length : Nat) : Int) = GoLib.len v - GoLib.len p.build := by
        simp only [GoLib.len]; omega
      rw [hc] at hs
      simp [hbn, hbe, hs]

/-! ### compareInt -/

theorem bytesLt_eq (x y : Bytes) : bytesLt x y = decide (x < y) := by
  induction x generalizing y with
  | nil => cases y <;> simp [bytesLt]
  | cons a as ih =>
    cases y with
    | nil => simp [bytesLt]
    | cons b bs =>
      rw [bytesLt, ih bs]
      by_cases h1 : a < b
      · simp [h1, List.cons_lt_cons_iff]
      · by_cases h2 : b < a
        · have hne : a ≠ b := fun e => by subst e; exact h1 h2
          simp [h1, h2, hne, List.cons_lt_cons_iff]
        · have he : a = b := by
            have a1 : b ≤ a := UInt8.not_lt.1 h1
            have a2 : a ≤ b := UInt8.not_lt.1 h2
            exact UInt8.le_antisymm a2 a1
          simp [h1, h2, he, List.cons_lt_cons_iff]

theorem compareInt_eq (x y : Bytes) : GIV.Go.Semver.compareInt x y = some (Proxy.compareInt x y) := by
  unfold GIV.Go.Semver.compareInt Proxy.compareInt
  by_cases h : x = y
  · simp [h]
  · have hb : (x == y) = false := by simpa using h
    simp only [hb, Bool.false_eq_true, if_false, h, GoLib.len, bytesLt_eq]
    by_cases h1 : x.length < y.length
    · have : (x.length : Int) < (y.length : Int) := by omega
      simp [h1, this]
    · have h1' : ¬ ((x.length : Int) < (y.length : Int)) := by omega
      by_cases h2 : x.length > y.length
      · have : (x.length : Int) > (y.length : Int) := by omega
        simp [h1, h1', h2, this]
      · have h2' : ¬ ((x.length : Int) > (y.length : Int)) := by omega
        simp only [h1, h1', h2, h2', decide_false, Bool.false_eq_true, if_false]
        by_cases h3 : x < y <;> simp [h3]

/-! ### nextIdent, comparePrerelease -/

theorem nextIdent_loop_eq (x dx rest : Bytes) : ∀ fuel i, x.length - i < fuel →
    GIV.Go.Semver.nextIdent_loop1 x dx rest fuel (i : Int) =
      GIV.Go.Semver.nextIdent_after1 x dx rest ((scan (· ≠ 46) x i : Nat) : Int) := by
  intro fuel
  induction fuel with
  | zero => intro i h; omega
  | succ fuel ih =>
    intro i hf
    rw [GIV.Go.Semver.nextIdent_loop1]
    cases hi : x[i]? with
    | none => simp [not_lt_len hi, scan_end hi]
    | some c =>
      have hlt := lt_of_some hi
      simp only [lt_len hi, decide_true, if_true, idx_nat, hi, Option.pure_def, Option.bind_eq_bind,
        Option.bind_some]
      by_cases h46 : c = 46
      · subst h46
        have := scan_stop (p := (· ≠ 46)) hi (by simp)
        simp only [bne_self_eq_false, Bool.not_false, if_true]
        rw [this]
      · have hb : (c != 46) = true := by simpa using h46
        have := scan_step (p := (· ≠ 46)) hi (by simpa using h46)
        simp only [hb, Bool.not_true, Bool.false_eq_true, if_false, cast_succ]
        rw [this]
        exact ih (i + 1) (by omega)

theorem nextIdent_eq (x : Bytes) :
    GIV.Go.Semver.nextIdent x =
      some (x.takeWhile (· ≠ 46), x.drop (x.takeWhile (· ≠ 46)).length) := by
  unfold GIV.Go.Semver.nextIdent
  have hl := nextIdent_loop_eq x [] [] (x.length + ([] : Bytes).length + ([] : Bytes).length + 2) 0
    (by simp only [List.length_nil]; omega)
  rw [show ((0 : Nat) : Int) = 0 from rfl] at hl
  rw [hl, GIV.Go.Semver.nextIdent_after1, scan_zero]
  have hle : (x.takeWhile (· ≠ 46)).length ≤ x.length := by
    have := scan_le (· ≠ 46) x 0 (Nat.zero_le _)
    rw [scan_zero] at this; exact this
  rw [slice_zero _ _ hle, slice_to_end _ _ hle, take_takeWhile_length]
  rfl

/-- the identifiers the loop of `comparePrerelease` still has to read: none when the string is exhausted,
    else (after skipping the '-' or '.') the dot-separated pieces. -/
def idents : Bytes → List Bytes
  | [] => []
  | _ :: r => splitOn 46 r

theorem splitOn_takeWhile (s : Bytes) :
    splitOn 46 s = s.takeWhile (· ≠ 46) :: idents (s.drop (s.takeWhile (· ≠ 46)).length) := by
  induction s with
  | nil => simp [splitOn, idents]
  | cons c r ih =>
    by_cases h : c = 46
    · subst h; simp [splitOn, idents]
    · rw [splitOn, if_neg h, ih]
      simp [h]

/-- `comparePrerelease`'s loop as Go runs it: like the model's `comparePreIdents`, except that running out of
    both lists at once answers -1 (Go tests `x == ""` first). -/
def cmpGo : List Bytes → List Bytes → Int
  | [], _ => -1
  | _ :: _, [] => 1
  | dx :: xs, dy :: ys =>
    if dx ≠ dy then
      let ix := dx.all isDigit
      let iy := dy.all isDigit
      if ix ≠ iy then (if ix then -1 else 1)
      else if ix && dx.length < dy.length then -1
      else if ix && dx.length > dy.length then 1
      else if bytesLt dx dy then -1 else 1
    else cmpGo xs ys

theorem cmpGo_eq : ∀ (X Y : List Bytes), X ≠ Y → comparePreIdents X Y = cmpGo X Y
  | [], [], h => absurd rfl h
  | [], _ :: _, _ => rfl
  | _ :: _, [], _ => rfl
  | dx :: xs, dy :: ys, h => by
    rw [comparePreIdents, cmpGo]
    by_cases hd : dx = dy
    · subst hd
      simp only [ne_eq, not_true_eq_false, if_false]
      exact cmpGo_eq xs ys (fun e => h (by rw [e]))
    · simp only [ne_eq, hd, not_false_eq_true, if_true]

theorem idents_length_lt (x : Bytes) :
    (x.drop (x.takeWhile (· ≠ 46)).length).length ≤ x.length := by
  simp

theorem comparePrerelease_loop_eq : ∀ fuel (x y : Bytes), x.length < fuel →
    GIV.Go.Semver.comparePrerelease_loop1 fuel x y = some (cmpGo (idents x) (idents y)) := by
  intro fuel
  induction fuel with
  | zero => intro x y h; omega
  | succ fuel ih =>
    intro x y hf
    rw [GIV.Go.Semver.comparePrerelease_loop1]
    cases x with
    | nil => simp [GIV.Go.Semver.comparePrerelease_after1, idents, cmpGo]
    | cons c x' =>
      cases y with
      | nil =>
        have : cmpGo (idents (c :: x')) (idents []) = 1 := by
          simp only [idents]
          cases hs : splitOn 46 x' with
          | nil => exact absurd hs (splitOn_ne_nil 46 x')
          | cons _ _ => rfl
        rw [this]
        simp [GIV.Go.Semver.comparePrerelease_after1]
      | cons d y' =>
        have e1 : (((c :: x') != ([] : Bytes)) && ((d :: y') != ([] : Bytes))) = true := rfl
        simp only [e1, Bool.not_true, Bool.false_eq_true, if_false, slice_one_end, Option.pure_def,
          Option.bind_eq_bind, Option.bind_some, nextIdent_eq, isNum_eq, idents]
        rw [splitOn_takeWhile x', splitOn_takeWhile y', cmpGo]
        generalize hdx : x'.takeWhile (· ≠ 46) = dx
        generalize hdy : y'.takeWhile (· ≠ 46) = dy
        by_cases hd : dx = dy
        · subst hd
          simp only [bne_self_eq_false, Bool.false_eq_true, if_false, ne_eq, not_true_eq_false]
          apply ih
          have := idents_length_lt x'
          rw [hdx] at this
          simp only [List.length_cons] at hf
          omega
        · have hb : (dx != dy) = true := by simpa using hd
          simp only [hb, if_true, ne_eq, hd, not_false_eq_true, GoLib.len, bytesLt_eq]
          cases hix : dx.all isDigit <;> cases hiy : dy.all isDigit
          · by_cases h3 : dx < dy <;> simp [h3]
          · simp
          · simp
          · by_cases h1 : dx.length < dy.length
            · have : (dx.length : Int) < (dy.length : Int) := by omega
              simp [h1, this]
            · have h1' : ¬ ((dx.length : Int) < (dy.length : Int)) := by omega
              by_cases h2 : dx.length > dy.length
              · have : (dx.length : Int) > (dy.length : Int) := by omega
                simp [h1, h1', h2, this]
              · have h2' : ¬ ((dx.length : Int) > (dy.length : Int)) := by omega
                by_cases h3 : dx < dy <;> simp [h1, h1', h2, h2', h3]

/-- the left inverse of `splitOn`: the pieces joined with the separator again. -/
def unsplit (sep : UInt8) : List Bytes → Bytes
  | [] => []
  | [a] => a
  | a :: b :: t => a ++ sep :: unsplit sep (b :: t)

theorem unsplit_splitOn (sep : UInt8) (s : Bytes) : unsplit sep (splitOn sep s) = s := by
  induction s with
  | nil => simp [splitOn, unsplit]
  | cons c r ih =>
    unfold splitOn
    by_cases h : c = sep
    · subst h
      simp only [if_true]
      cases hs : splitOn c r with
      | nil => exact absurd hs (splitOn_ne_nil c r)
      | cons a t => rw [unsplit, ← hs, ih]; rfl
    · simp only [h, if_false]
      cases hs : splitOn sep r with
      | nil => exact absurd hs (splitOn_ne_nil sep r)
      | cons a t =>
        rw [hs] at ih
        cases t with
        | nil => simp only [unsplit] at ih ⊢; rw [ih]
        | cons b t' => simp only [unsplit] at ih ⊢; rw [← ih]; rfl

theorem splitOn_inj (sep : UInt8) {a b : Bytes} (h : splitOn sep a = splitOn sep b) : a = b := by
  rw [← unsplit_splitOn sep a, ← unsplit_splitOn sep b, h]

/-- Go's `comparePrerelease` is the model's on every pair that is equal, has an empty side, or starts with the
    same byte (a prerelease field is empty or starts with '-').  On `"-a"`, `".a"` the two differ (Go: -1, the
    model: 0); `Compare` never passes such a pair. -/
theorem comparePrerelease_eq (x y : Bytes) (h : x = [] ∨ y = [] ∨ x.head? = y.head?) :
    GIV.Go.Semver.comparePrerelease x y = some (Proxy.comparePrerelease x y) := by
  unfold GIV.Go.Semver.comparePrerelease Proxy.comparePrerelease
  by_cases hxy : x = y
  · simp [hxy]
  · have hb : (x == y) = false := by simpa using hxy
    simp only [hb, Bool.false_eq_true, if_false, hxy]
    cases x with
    | nil => simp
    | cons c x' =>
      cases y with
      | nil => simp
      | cons d y' =>
        have e1 : ((c :: x') == ([] : Bytes)) = false := rfl
        have e2 : ((d :: y') == ([] : Bytes)) = false := rfl
        simp only [e1, e2, Bool.false_eq_true, if_false, List.isEmpty_cons, List.drop_one, List.tail_cons]
        rw [comparePrerelease_loop_eq _ _ _ (by simp only [List.length_cons]; omega)]
        simp only [idents]
        have hcd : c = d := by
          rcases h with h | h | h
          · simp at h
          · simp at h
          · simpa using h
        subst hcd
        rw [cmpGo_eq]
        intro e
        exact hxy (by rw [splitOn_inj 46 e])

/-! ### Compare -/

theorem parsePrerelease_head {v4 pre v5 : Bytes} (h : Proxy.parsePrerelease v4 = some (pre, v5)) :
    pre.head? = v4.head? := by
  unfold Proxy.parsePrerelease at h
  simp only at h
  split at h
  · simp only [Option.some.injEq, Prod.mk.injEq] at h
    rw [← h.1]
    cases v4 with
    | nil => rfl
    | cons c r => rw [Nat.add_comm]; rfl
  · simp at h

theorem prerelease_head {v : Bytes} {p : Parsed} (h : semverParse v = some p) :
    p.prerelease = [] ∨ p.prerelease.head? = some 45 := by
  unfold semverParse at h
  repeat' split at h
  all_goals (first
    | (simp at h; done)
    | (simp at h; subst h; left; rfl)
    | (rename_i hpre _ _ _ _ _
       simp at h; subst h
       split at hpre
       · rename_i hh
         right; rw [parsePrerelease_head hpre]; exact hh
       · simp at hpre; left; exact hpre.1))

theorem Compare_eq (v w : Bytes) : GIV.Go.Semver.Compare v w = some (semverCompare v w) := by
  obtain ⟨gv, hgv, hpv⟩ := parse_eq v
  obtain ⟨gw, hgw, hpw⟩ := parse_eq w
  unfold GIV.Go.Semver.Compare semverCompare
  rw [hgv, hgw]
  unfold semverIsValid
  cases hv : semverParse v with
  | none => cases hw : semverParse w <;> simp
  | some pv =>
    cases hw : semverParse w with
    | none => simp
    | some pw =>
      obtain ⟨hv1, _⟩ := hpv pv hv
      obtain ⟨hw1, _⟩ := hpw pw hw
      have e1 : gv.major = pv.major := by rw [← hv1]; rfl
      have e2 : gv.minor = pv.minor := by rw [← hv1]; rfl
      have e3 : gv.patch = pv.patch := by rw [← hv1]; rfl
      have e4 : gv.prerelease = pv.prerelease := by rw [← hv1]; rfl
      have f1 : gw.major = pw.major := by rw [← hw1]; rfl
      have f2 : gw.minor = pw.minor := by rw [← hw1]; rfl
      have f3 : gw.patch = pw.patch := by rw [← hw1]; rfl
      have f4 : gw.prerelease = pw.prerelease := by rw [← hw1]; rfl
      have hpre : pv.prerelease = [] ∨ pw.prerelease = [] ∨ pv.prerelease.head? = pw.prerelease.head? := by
        rcases prerelease_head hv with a | a
        · exact Or.inl a
        · rcases prerelease_head hw with b | b
          · exact Or.inr (Or.inl b)
          · exact Or.inr (Or.inr (by rw [a, b]))
      simp only [Option.isSome_some, Bool.not_true, Bool.and_self, Bool.false_eq_true, if_false, Option.pure_def,
        Option.bind_eq_bind, Option.bind_some, compareInt_eq, e1, e2, e3, e4, f1, f2, f3, f4,
        comparePrerelease_eq _ _ hpre]
      by_cases c1 : Proxy.compareInt pv.major pw.major = 0
      · by_cases c2 : Proxy.compareInt pv.minor pw.minor = 0
        · by_cases c3 : Proxy.compareInt pv.patch pw.patch = 0
          · simp [c1, c2, c3]
          · simp [c1, c2, c3]
        · simp [c1, c2]
      · simp [c1]

end GIV.SemverGo
