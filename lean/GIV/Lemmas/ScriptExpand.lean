/-
  Lemmas about the model of os.Expand / (*TestScript).expand: text without '$' is unchanged,
  `$NAME`, `${NAME}` and `${NAME@R}` are replaced by what the mapping gives, exactly once.
-/
import GIV.Model.ScriptParse
namespace GIV.Script
open GIV

/-- A variable name usable both as `$NAME` and `${NAME}`: letters, digits, '_', not starting with a digit. -/
def NameOK (k : Bytes) : Prop :=
  (∀ c ∈ k, isAlphaNum c = true) ∧ ∃ c t, k = c :: t ∧ ¬ (48 ≤ c ∧ c ≤ 57)

theorem isAlphaNum_ne {c : UInt8} (h : isAlphaNum c = true) :
    c ≠ DOLLAR ∧ c ≠ LBRACE ∧ c ≠ RBRACE ∧ c ≠ 64 := by
  refine ⟨?_, ?_, ?_, ?_⟩ <;> (intro hc; subst hc; revert h; decide)

theorem isAlphaNum_not_special {c : UInt8} (h : isAlphaNum c = true) (hd : ¬ (48 ≤ c ∧ c ≤ 57)) :
    isShellSpecialVar c = false := by
  simp [isAlphaNum, Gen.Script.alphaNumIsIdentChars] at h
  simp [isShellSpecialVar, Gen.Script.shellSpecialVars]
  simp [UInt8.le_iff_toNat_le] at h hd
  refine ⟨?_, ?_, ?_, ?_, ?_, ?_, ?_, ?_, ?_, ?_, ?_, ?_, ?_, ?_, ?_, ?_, ?_⟩ <;>
    (intro hc; subst hc; simp at h hd)

/-! ### the loop -/

theorem osExpandGo_skip_all (m : Bytes → Bytes) (s : Bytes) : ∀ n, s.length ≤ n → osExpandGo m n s = [] := by
  induction s with
  | nil => intro n _; cases n <;> simp [osExpandGo]
  | cons c s ih =>
    intro n hn
    cases n with
    | zero => simp at hn
    | succ n => simp [osExpandGo]; exact ih n (by simpa using hn)

theorem osExpandGo_skip (m : Bytes → Bytes) (a b : Bytes) : osExpandGo m a.length (a ++ b) = osExpandGo m 0 b := by
  induction a with
  | nil => rfl
  | cons c a ih => simpa [osExpandGo] using ih

theorem osExpandGo_cons_ne (m : Bytes → Bytes) (c : UInt8) (s : Bytes) (h : c ≠ DOLLAR) :
    osExpandGo m 0 (c :: s) = c :: osExpandGo m 0 s := by
  cases s with
  | nil => simp [osExpandGo]
  | cons c1 s => simp [osExpandGo, h]

/-- Text without '$' is copied. -/
theorem osExpandGo_plain (m : Bytes → Bytes) (u s : Bytes) (hu : ∀ c ∈ u, c ≠ DOLLAR) :
    osExpandGo m 0 (u ++ s) = u ++ osExpandGo m 0 s := by
  induction u with
  | nil => rfl
  | cons c u ih =>
    have hc : c ≠ DOLLAR := hu c (by simp)
    simp only [List.cons_append]
    rw [osExpandGo_cons_ne m c _ hc, ih (fun x hx => hu x (by simp [hx]))]

theorem osExpandGo_nil (m : Bytes → Bytes) : osExpandGo m 0 [] = [] := rfl

theorem osExpandGo_dollar (m : Bytes → Bytes) (c1 : UInt8) (r : Bytes) :
    osExpandGo m 0 (DOLLAR :: c1 :: r) =
      (if (getShellName c1 r).1.isEmpty && (getShellName c1 r).2 > 0 then []
       else if (getShellName c1 r).1.isEmpty then [DOLLAR]
       else m (getShellName c1 r).1) ++ osExpandGo m (getShellName c1 r).2 (c1 :: r) := by
  simp [osExpandGo]

/-! ### getShellName -/

theorem takeWhile_append_of_all {p : UInt8 → Bool} (k rest : Bytes) (hk : ∀ c ∈ k, p c = true)
    (hr : ∀ c, rest.head? = some c → p c = false) : (k ++ rest).takeWhile p = k := by
  induction k with
  | nil =>
    cases rest with
    | nil => rfl
    | cons c r => simp [hr c rfl]
  | cons c k ih =>
    simp [hk c (by simp), ih (fun x hx => hk x (by simp [hx]))]

/-- `$NAME` followed by something that cannot continue the name. -/
theorem getShellName_name (k rest : Bytes) (hk : NameOK k)
    (hr : ∀ c, rest.head? = some c → isAlphaNum c = false) :
    ∃ c t, k = c :: t ∧ getShellName c (t ++ rest) = (k, k.length) := by
  obtain ⟨hal, c, t, rfl, hd⟩ := hk
  refine ⟨c, t, rfl, ?_⟩
  have hc := hal c (by simp)
  have hne := isAlphaNum_ne hc
  have hsp := isAlphaNum_not_special hc hd
  have htw : (c :: (t ++ rest)).takeWhile isAlphaNum = c :: t := by
    have := takeWhile_append_of_all (p := isAlphaNum) (c :: t) rest hal hr
    simpa using this
  simp [getShellName, hne.2.1, hsp, htw]

theorem scanBrace_closed (k rest : Bytes) (hne : k ≠ []) (hk : RBRACE ∉ k) :
    scanBrace (k ++ RBRACE :: rest) = (k, k.length + 2) := by
  have htw : (k ++ RBRACE :: rest).takeWhile (· != RBRACE) = k := by
    apply takeWhile_append_of_all
    · intro c hc
      have : c ≠ RBRACE := fun h => hk (h ▸ hc)
      simpa using this
    · intro c hc
      have : c = RBRACE := by simpa using hc.symm
      simp [this]
  have hemp : k.isEmpty = false := by cases k <;> simp_all
  simp [scanBrace, htw, hemp]

/-- `${NAME}`: any non-empty name without '}'. -/
theorem getShellName_braced (k rest : Bytes) (hne : k ≠ []) (hk : RBRACE ∉ k) :
    getShellName LBRACE (k ++ RBRACE :: rest) = (k, k.length + 2) := by
  have hsb := scanBrace_closed k rest hne hk
  cases k with
  | nil => exact absurd rfl hne
  | cons c1 t =>
    cases t with
    | nil =>
      -- "${c}": the special-variable shortcut gives the same answer
      by_cases hs : isShellSpecialVar c1 = true
      · simp [getShellName, hs, RBRACE]
      · simpa [getShellName, hs] using hsb
    | cons c2 t =>
      have hc2 : c2 ≠ RBRACE := fun h => hk (by simp [h])
      simpa [getShellName, hc2] using hsb

/-! ### `$NAME`, `${NAME}` inside a text -/

theorem osExpandGo_name (m : Bytes → Bytes) (k rest : Bytes) (hk : NameOK k)
    (hr : ∀ c, rest.head? = some c → isAlphaNum c = false) :
    osExpandGo m 0 (DOLLAR :: (k ++ rest)) = m k ++ osExpandGo m 0 rest := by
  obtain ⟨c, t, hkt, hg⟩ := getShellName_name k rest hk hr
  subst hkt
  simp only [List.cons_append]
  rw [osExpandGo_dollar, hg]
  have : osExpandGo m (c :: t).length (c :: (t ++ rest)) = osExpandGo m 0 rest := by
    simpa using osExpandGo_skip m (c :: t) rest
  simp only [List.length_cons] at this
  simp [this]

theorem osExpandGo_braced (m : Bytes → Bytes) (k rest : Bytes) (hne : k ≠ []) (hk : RBRACE ∉ k) :
    osExpandGo m 0 (DOLLAR :: LBRACE :: (k ++ RBRACE :: rest)) = m k ++ osExpandGo m 0 rest := by
  rw [osExpandGo_dollar, getShellName_braced k rest hne hk]
  have hemp : k.isEmpty = false := by cases k <;> simp_all
  have : osExpandGo m (k.length + 2) (LBRACE :: (k ++ RBRACE :: rest)) = osExpandGo m 0 rest := by
    have := osExpandGo_skip m (LBRACE :: (k ++ [RBRACE])) rest
    simpa [List.append_assoc] using this
  simp [hemp, this]

/-! ### the mapping of (*TestScript).expand -/

theorem NameOK.ne_nil {k : Bytes} (h : NameOK k) : k ≠ [] := by
  obtain ⟨_, c, t, rfl, _⟩ := h; simp

theorem NameOK.no_rbrace {k : Bytes} (h : NameOK k) : RBRACE ∉ k := by
  intro hm
  exact (isAlphaNum_ne (h.1 _ hm)).2.2.1 rfl

theorem isSuffixOf_atR_false (k : Bytes) (hk : ∀ c ∈ k, isAlphaNum c = true) :
    Gen.Script.atRSuffix.isSuffixOf k = false := by
  apply Bool.eq_false_iff.2
  intro h
  rw [List.isSuffixOf_iff_suffix] at h
  obtain ⟨p, hp⟩ := h
  have : (64 : UInt8) ∈ k := by rw [← hp]; simp [Gen.Script.atRSuffix]
  exact (isAlphaNum_ne (hk _ this)).2.2.2 rfl

/-- A plain name is looked up in the environment map. -/
theorem expandMapping_name (env : Env) (k : Bytes) (hk : ∀ c ∈ k, isAlphaNum c = true) :
    expandMapping env k = lookup env k := by
  simp [expandMapping, isSuffixOf_atR_false k hk, Gen.Script.expandUsesGetenv, getenv,
    Gen.Script.getenvReadsEnvMap]

/-- A name with the `@R` suffix gives the QuoteMeta'd value of the name without it. -/
theorem expandMapping_atR (env : Env) (k : Bytes) :
    expandMapping env (k ++ [64, 82]) = quoteMeta (lookup env k) := by
  have hs : Gen.Script.atRSuffix.isSuffixOf (k ++ [64, 82]) = true := by
    rw [List.isSuffixOf_iff_suffix]
    exact ⟨k, rfl⟩
  simp [expandMapping, Gen.Script.atRSuffix, Gen.Script.atRQuotesMeta, getenv, Gen.Script.getenvReadsEnvMap]

theorem expand_eq (env : Env) (s : Bytes) : expand env s = osExpandGo (expandMapping env) 0 s := by
  simp [expand, osExpand, Gen.Script.expandIsOsExpand]

/-- Text without '$' expands to itself. -/
theorem expand_plain (env : Env) (u : Bytes) (hu : ∀ c ∈ u, c ≠ DOLLAR) : expand env u = u := by
  have := osExpandGo_plain (expandMapping env) u [] hu
  simpa [expand_eq, osExpandGo_nil] using this

/-- `p$NAMEq` and `p${NAME}q` with '$'-free `p`, `q` (`q` not continuing the name in the first form). -/
theorem expand_name_in (env : Env) (p k q : Bytes) (hp : ∀ c ∈ p, c ≠ DOLLAR) (hq : ∀ c ∈ q, c ≠ DOLLAR)
    (hk : NameOK k) (hr : ∀ c, q.head? = some c → isAlphaNum c = false) :
    expand env (p ++ DOLLAR :: (k ++ q)) = p ++ lookup env k ++ q := by
  rw [expand_eq, osExpandGo_plain _ p _ hp, osExpandGo_name _ k q hk hr, expandMapping_name env k hk.1]
  have := osExpandGo_plain (expandMapping env) q [] hq
  simp only [List.append_nil, osExpandGo_nil] at this
  rw [this, List.append_assoc]

theorem expand_braced_in (env : Env) (p k q : Bytes) (hp : ∀ c ∈ p, c ≠ DOLLAR) (hq : ∀ c ∈ q, c ≠ DOLLAR)
    (hk : NameOK k) :
    expand env (p ++ DOLLAR :: LBRACE :: (k ++ RBRACE :: q)) = p ++ lookup env k ++ q := by
  rw [expand_eq, osExpandGo_plain _ p _ hp, osExpandGo_braced _ k q hk.ne_nil hk.no_rbrace,
    expandMapping_name env k hk.1]
  have := osExpandGo_plain (expandMapping env) q [] hq
  simp only [List.append_nil, osExpandGo_nil] at this
  rw [this, List.append_assoc]

theorem expand_atR_in (env : Env) (p k q : Bytes) (hp : ∀ c ∈ p, c ≠ DOLLAR) (hq : ∀ c ∈ q, c ≠ DOLLAR)
    (hk : RBRACE ∉ k) :
    expand env (p ++ DOLLAR :: LBRACE :: (k ++ [64, 82] ++ RBRACE :: q)) = p ++ quoteMeta (lookup env k) ++ q := by
  have hk' : RBRACE ∉ k ++ [64, 82] := by
    intro h
    rcases List.mem_append.1 h with h | h
    · exact hk h
    · revert h; decide
  rw [expand_eq, osExpandGo_plain _ p _ hp, osExpandGo_braced _ (k ++ [64, 82]) q (by simp) hk',
    expandMapping_atR]
  have := osExpandGo_plain (expandMapping env) q [] hq
  simp only [List.append_nil, osExpandGo_nil] at this
  rw [this, List.append_assoc]

end GIV.Script
