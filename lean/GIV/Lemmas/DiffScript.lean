/-
  Edit scripts: the specification `Script a b xs ys hs` ("the hunks `hs`, whose positions are
  absolute and start at `a` / `b`, rewrite `xs` into `ys`; everything between hunks is common"),
  its closure properties, and that the strict applier of the model accepts every script.
-/
import GIV.Model.Diff

namespace GIV.Diff
open GIV

set_option linter.unusedSectionVars false
variable {α : Type} [DecidableEq α]

/-- `Script a b xs ys hs`: `xs` (which starts at line index `a` of the old file) and `ys` (index `b`
of the new file) decompose as gap, hunk, gap, hunk, …, gap where the gaps are the same lines on
both sides, every hunk sits exactly at the position its header states (with the unified-diff
start-line convention, see `Hunk.posX`), and its header counts are the sizes of its two sides. -/
inductive Script : Nat → Nat → List α → List α → List (Hunk α) → Prop
  | nil (a b : Nat) (g : List α) : Script a b g g []
  | cons (a b : Nat) (g : List α) (h : Hunk α) (xs ys : List α) (hs : List (Hunk α)) :
      h.posX = ((a + g.length : Nat) : Int) → h.posY = ((b + g.length : Nat) : Int) →
      h.cx = (oldSide h.body).length → h.cy = (newSide h.body).length →
      Script (a + g.length + h.cx) (b + g.length + h.cy) xs ys hs →
      Script a b (g ++ oldSide h.body ++ xs) (g ++ newSide h.body ++ ys) (h :: hs)

theorem Script.cons' {a b : Nat} {g : List α} {h : Hunk α} {xs ys X Y : List α} {hs : List (Hunk α)} {a' b' : Nat}
    (hX : X = g ++ oldSide h.body ++ xs) (hY : Y = g ++ newSide h.body ++ ys)
    (px : h.posX = ((a + g.length : Nat) : Int)) (py : h.posY = ((b + g.length : Nat) : Int))
    (cx : h.cx = (oldSide h.body).length) (cy : h.cy = (newSide h.body).length)
    (ha : a' = a + g.length + h.cx) (hb : b' = b + g.length + h.cy)
    (t : Script a' b' xs ys hs) : Script a b X Y (h :: hs) := by
  subst hX hY ha hb
  exact Script.cons a b g h xs ys hs px py cx cy t

/-- A common gap in front. -/
theorem Script.gap_left {a b a' b' : Nat} (g : List α) {xs ys : List α} {hs : List (Hunk α)}
    (ha : a' = a + g.length) (hb : b' = b + g.length)
    (t : Script a' b' xs ys hs) : Script a b (g ++ xs) (g ++ ys) hs := by
  subst ha hb
  cases t with
  | nil => exact Script.nil a b (g ++ _)
  | cons _ _ g' h xs ys hs px py cx cy t =>
    refine Script.cons' (g := g ++ g') (xs := xs) (ys := ys) (by simp) (by simp) ?_ ?_ cx cy rfl rfl ?_
    · rw [px]; simp [Nat.add_assoc]
    · rw [py]; simp [Nat.add_assoc]
    · simpa [Nat.add_assoc] using t

/-- Scripts compose. -/
theorem Script.append {a b : Nat} {xs ys xs' ys' : List α} {hs hs' : List (Hunk α)} {a' b' : Nat}
    (t : Script a b xs ys hs) (ha : a' = a + xs.length) (hb : b' = b + ys.length)
    (t' : Script a' b' xs' ys' hs') : Script a b (xs ++ xs') (ys ++ ys') (hs ++ hs') := by
  induction t generalizing a' b' with
  | nil a b g => exact Script.gap_left g ha hb t'
  | cons a b g h xs ys hs px py cx cy _ ih =>
    refine Script.cons' (g := g) (xs := xs ++ xs') (ys := ys ++ ys') (by simp) (by simp) px py cx cy rfl rfl ?_
    refine ih ?_ ?_ t'
    · rw [ha, cx]; simp [Nat.add_assoc]
    · rw [hb, cy]; simp [Nat.add_assoc]

/-- A common gap at the end. -/
theorem Script.gap_right {a b : Nat} {xs ys : List α} {hs : List (Hunk α)} (g : List α)
    (t : Script a b xs ys hs) : Script a b (xs ++ g) (ys ++ g) hs := by
  simpa using t.append rfl rfl (Script.nil _ _ g)

/-- One more hunk (directly after what the script covers) and a common gap after it. -/
theorem Script.snoc {a b : Nat} {xs ys : List α} {hs : List (Hunk α)} (t : Script a b xs ys hs)
    (h : Hunk α) (g : List α)
    (px : h.posX = ((a + xs.length : Nat) : Int)) (py : h.posY = ((b + ys.length : Nat) : Int))
    (cx : h.cx = (oldSide h.body).length) (cy : h.cy = (newSide h.body).length) :
    Script a b (xs ++ (oldSide h.body ++ g)) (ys ++ (newSide h.body ++ g)) (hs ++ [h]) := by
  refine t.append rfl rfl ?_
  exact Script.cons' (g := []) (xs := g) (ys := g) (by simp) (by simp) (by simpa using px) (by simpa using py)
    cx cy rfl rfl (Script.nil _ _ g)

/-! ### the applier accepts scripts -/

theorem stripPrefix_append (p l : List α) : stripPrefix p (p ++ l) = some l := by
  induction p with
  | nil => simp [stripPrefix]
  | cons a p ih => simp [stripPrefix, ih]

theorem Script.applyFrom {a b : Nat} {xs ys : List α} {hs : List (Hunk α)} (t : Script a b xs ys hs) :
    applyFrom a xs hs = some ys := by
  induction t with
  | nil a b g => simp [Diff.applyFrom]
  | cons a b g h xs ys hs px py cx cy _ ih =>
    unfold Diff.applyFrom
    have hg : h.posX.toNat - a = g.length := by rw [px]; omega
    have hp : h.posX.toNat = a + g.length := by rw [px]; omega
    rw [if_neg (by rw [px]; omega)]
    simp only [hg]
    rw [if_neg (by simp), if_neg (by simp [cx])]
    have : List.drop g.length (g ++ oldSide h.body ++ xs) = oldSide h.body ++ xs := by
      rw [List.append_assoc, List.drop_left]
    simp only [this, stripPrefix_append, hp, ih]
    simp [List.append_assoc]

/-! ### reversing -/

theorem oldSide_swap (b : List (Tag × α)) : oldSide (b.map fun p => (p.1.swap, p.2)) = newSide b := by
  induction b with
  | nil => rfl
  | cons p b ih =>
    obtain ⟨t, s⟩ := p
    cases t <;> simp_all [oldSide, newSide, Tag.swap]

theorem newSide_swap (b : List (Tag × α)) : newSide (b.map fun p => (p.1.swap, p.2)) = oldSide b := by
  induction b with
  | nil => rfl
  | cons p b ih =>
    obtain ⟨t, s⟩ := p
    cases t <;> simp_all [oldSide, newSide, Tag.swap]

theorem posX_swap (h : Hunk α) : h.swap.posX = h.posY := rfl
theorem posY_swap (h : Hunk α) : h.swap.posY = h.posX := rfl

theorem Script.swap {a b : Nat} {xs ys : List α} {hs : List (Hunk α)} (t : Script a b xs ys hs) :
    Script b a ys xs (hs.map Hunk.swap) := by
  induction t with
  | nil a b g => exact Script.nil b a g
  | cons a b g h xs ys hs px py cx cy _ ih =>
    refine Script.cons' (g := g) (h := h.swap) (xs := ys) (ys := xs) ?_ ?_ ?_ ?_ ?_ ?_ rfl rfl ?_
    · simp [Hunk.swap, oldSide_swap]
    · simp [Hunk.swap, newSide_swap]
    · rw [posX_swap]; exact py
    · rw [posY_swap]; exact px
    · simpa [Hunk.swap, oldSide_swap] using cy
    · simpa [Hunk.swap, newSide_swap] using cx
    · simpa [Hunk.swap] using ih

theorem Script.apply {x y : List α} {hs : List (Hunk α)} (t : Script 0 0 x y hs) : apply x hs = some y :=
  t.applyFrom

theorem Script.unapply {x y : List α} {hs : List (Hunk α)} (t : Script 0 0 x y hs) : unapply y hs = some x :=
  t.swap.applyFrom

end GIV.Diff
