/-
  C18 — the regenerated model, part 3: readImport, the loops of ReadImports, ReadImports and
  ReadComments of imports/read.go (GIV/Gen/ImportsReadGo.lean, translated on every run) against the
  hand-written byte machine, ending in

      go_ReadImports_eq : Go.Read.ReadImports input report (some []) = toGo (readImports input report)

  (imports list, returned bytes, error) for every input.  The hypothesis `OK` of parts 1–2 is
  discharged by the model's theorems `scan_not_stuck` (every loop budget suffices) and
  `scan_panicked` (the `nerr > 10000` panic is unreachable); `PeekBuf` (a peeked byte was read from
  the input, so `len(r.buf) - 1 ≥ 0` when readString computes `start`) holds of every state the
  reader reaches from its initial state.
-/
import GIV.Lemmas.ImportsReadGoParse
import GIV.Lemmas.ImportsReadGoString
import GIV.Lemmas.ImportsReadImps
import GIV.Lemmas.ImportsReadFuel

namespace GIV.ReadGo
open GIV GIV.ReadImports GIV.GoLib GIV.Gen.Imports GIV.C18


/-! ### readImport -/

theorem peekBuf_of_ne {st : St} (h : st.buf ≠ []) : PeekBuf st := fun _ => h

/-- a non-zero byte returned by peekByte was read from the input (or had been peeked before). -/
theorem peek_nz (s : Bool) (st : St) (hp : PeekBuf st) (hz : (peekByte s st).1 ≠ 0) :
    (peekByte s st).2.buf ≠ [] := by
  by_cases he : st.err = none
  · have := pb_peekByte s st hp
    rw [PeekBuf, peekByte_peek s st he] at this
    exact this hz
  · exact absurd (peekByte_err_zero s st he) hz

theorem readImport_go (st : St) (hp : PeekBuf st) (h : OK (readImport st)) :
    OK st ∧ Go.Read.readImport (ofSt st) (some st.imports) =
      some (ofSt (readImport st), some (readImport st).imports) := by
  unfold readImport at h ⊢
  unfold Go.Read.readImport
  have hpb := pb_peekByte true st hp
  have hnz := peek_nz true st hp
  have himp := imports_peekByte true st
  generalize hpk : peekByte true st = p at h hpb hnz himp ⊢
  obtain ⟨c, st'⟩ := p
  dsimp only at h hpb hnz himp ⊢
  by_cases h46 : c = 46
  · simp only [if_pos h46] at h ⊢
    obtain ⟨h1, h2⟩ := readString_go { st' with peek := 0 } (fun hh => absurd rfl hh) h
    obtain ⟨h3, h4⟩ := peekByte_go true st (by rw [hpk]; exact (ok_clearPeek st').1 h1)
    refine ⟨h3, ?_⟩
    rw [h4, hpk]
    simp only [Option.bind_eq_bind, Option.bind_some, h46, beq_self_eq_true, if_true, pure]
    have e : ofSt { st' with peek := 0 } = { ofSt st' with peek := 0 } := rfl
    rw [← himp]
    rw [e] at h2
    rw [show ({ st' with peek := 0 } : St).imports = st'.imports from rfl] at h2
    rw [h2]
    rfl
  · simp only [if_neg h46] at h ⊢
    have h46' : (c == 46) = false := by simpa using h46
    by_cases hi : isIdent c = true
    · simp only [if_pos hi] at h ⊢
      have hc0 : c ≠ 0 := by
        intro h0; rw [h0] at hi; exact absurd hi (by decide)
      have hne : (readIdent st').buf ≠ [] := (step_readIdent st').1.bufne (hnz hc0)
      obtain ⟨h1, h2⟩ := readString_go (readIdent st') (peekBuf_of_ne hne) h
      obtain ⟨h5, h6⟩ := readIdent_go st' h1
      obtain ⟨h3, h4⟩ := peekByte_go true st (by rw [hpk]; exact h5)
      refine ⟨h3, ?_⟩
      rw [h4, hpk]
      simp only [Option.bind_eq_bind, Option.bind_some, h46', Bool.false_eq_true, if_false, isIdent_eq, hi, if_true, h6, pure]
      rw [imports_readIdent, himp] at h2
      rw [h2]
      rfl
    · simp only [if_neg hi] at h ⊢
      obtain ⟨h1, h2⟩ := readString_go st' hpb h
      obtain ⟨h3, h4⟩ := peekByte_go true st (by rw [hpk]; exact h1)
      refine ⟨h3, ?_⟩
      rw [h4, hpk]
      have hi' : isIdent c = false := by simpa using hi
      simp only [Option.bind_eq_bind, Option.bind_some, h46', Bool.false_eq_true, if_false, isIdent_eq, hi', pure]
      rw [himp] at h2
      rw [h2]
      rfl

/-! ### the loops of ReadImports -/

/-- `for r.peekByte(true) != ')' && r.err == nil { r.readImport(imports) }` -/
theorem groupLoop_go (f : Bytes) (rep : Bool) (b : Bytes) : ∀ (n : Nat) (st : St), st.buf ≠ [] →
    OK (groupLoop n st) →
    OK st ∧ Go.Read.ReadImports_loop3 f rep b (n + 1) (some st.imports) (ofSt st) =
      some (some (groupLoop n st).imports, ofSt (groupLoop n st)) := by
  intro n
  induction n with
  | zero =>
    intro st hne h
    unfold groupLoop at h ⊢
    unfold Go.Read.ReadImports_loop3
    have himp := imports_peekByte true st
    generalize hpk : peekByte true st = p at h himp ⊢
    obtain ⟨c, st'⟩ := p
    dsimp only at h himp ⊢
    have hg : ((c != 41) && ((ofSt st').err == none)) = (c ≠ 41 && st'.err.isNone) := by
      rw [bne_dec, ofSt_err, errGo_eq_none]
    by_cases hc : (c ≠ 41 && st'.err.isNone) = true
    · rw [if_pos hc] at h; exact absurd h (not_ok_setStuck st')
    · simp only [if_neg hc] at h ⊢
      obtain ⟨h3, h4⟩ := peekByte_go true st (by rw [hpk]; exact h)
      refine ⟨h3, ?_⟩
      rw [h4, hpk]
      simp only [Bool.not_eq_true] at hc
      simp only [Option.bind_eq_bind, Option.bind_some, hg, hc, Bool.not_false, if_true, pure, himp]
  | succ n ih =>
    intro st hne h
    unfold groupLoop at h ⊢
    unfold Go.Read.ReadImports_loop3
    have himp := imports_peekByte true st
    have hne' := (step_peekByte true st).1.bufne hne
    generalize hpk : peekByte true st = p at h himp hne' ⊢
    obtain ⟨c, st'⟩ := p
    dsimp only at h himp hne' ⊢
    have hg : ((c != 41) && ((ofSt st').err == none)) = (c ≠ 41 && st'.err.isNone) := by
      rw [bne_dec, ofSt_err, errGo_eq_none]
    by_cases hc : (c ≠ 41 && st'.err.isNone) = true
    · simp only [if_pos hc] at h ⊢
      obtain ⟨h1, h2⟩ := ih (readImport st') ((step_readImport st').1.bufne hne') h
      obtain ⟨h5, h6⟩ := readImport_go st' (peekBuf_of_ne hne') h1
      obtain ⟨h3, h4⟩ := peekByte_go true st (by rw [hpk]; exact h5)
      refine ⟨h3, ?_⟩
      rw [h4, hpk]
      simp only [Option.bind_eq_bind, Option.bind_some, hg, hc, Bool.not_true, Bool.false_eq_true, if_false]
      rw [← himp, h6]
      simp only [Option.bind_some]
      exact h2
    · simp only [if_neg hc] at h ⊢
      obtain ⟨h3, h4⟩ := peekByte_go true st (by rw [hpk]; exact h)
      refine ⟨h3, ?_⟩
      rw [h4, hpk]
      simp only [Bool.not_eq_true] at hc
      simp only [Option.bind_eq_bind, Option.bind_some, hg, hc, Bool.not_false, if_true, pure, himp]

/-- one import declaration: `r.readKeyword("import")` and a group or a single import (the body of
the `for r.peekByte(true) == 'i'` loop, after the peek). -/
def declBody (st' : St) : St :=
  let st1 := readKeyword kwImport st'
  let q := peekByte true st1
  if q.1 = 40 then
    let g := groupLoop (q.2.rest.length + 2) (nextByte false q.2).2
    (nextByte false g).2
  else readImport q.2

theorem declBody_ne (st' : St) (h : st'.buf ≠ []) : (declBody st').buf ≠ [] := by
  unfold declBody
  dsimp only
  have h1 := (step_peekByte true _).1.bufne ((step_readKeyword kwImport st').1.bufne h)
  split
  · exact (step_nextByte false _).1.bufne ((step_groupLoop _ _).1.bufne ((step_nextByte false _).1.bufne h1))
  · exact (step_readImport _).1.bufne h1

theorem nextByte_false_rest (a : St) (hp : a.peek ≠ 0) : (nextByte false a).2.rest = a.rest := by
  unfold nextByte peekByte
  split
  · rfl
  · simp [skipLoop_false_eq]

theorem declBody_go (f : Bytes) (rep : Bool) (b : Bytes) (st' : St) (hne : st'.buf ≠ [])
    (h : OK (declBody st')) :
    OK st' ∧ ((Go.Read.readKeyword (ofSt st') [105, 109, 112, 111, 114, 116]).bind fun r =>
      (Go.Read.peekByte r true).bind fun x =>
        (if (x.1 == 40) = true then
          (Go.Read.nextByte x.2 false).bind fun y =>
            (Go.Read.ReadImports_loop3 f rep b (y.2.b.length + 3) (some st'.imports) y.2).bind fun z =>
              (Go.Read.nextByte z.2 false).bind fun w => pure (z.1, w.2)
         else (Go.Read.readImport x.2 (some st'.imports)).bind fun z => pure (z.2, z.1))) =
      some (some (declBody st').imports, ofSt (declBody st')) := by
  unfold declBody at h ⊢
  dsimp only at h ⊢
  have hi1 := imports_readKeyword kwImport st'
  have hne1 := (step_readKeyword kwImport st').1.bufne hne
  generalize hst1 : readKeyword kwImport st' = st1 at h hi1 hne1 ⊢
  have hi2 := imports_peekByte true st1
  have hne2 := (step_peekByte true st1).1.bufne hne1
  have hpeek : st1.err = none → (peekByte true st1).2.peek = (peekByte true st1).1 := peekByte_peek true st1
  have hzero : st1.err ≠ none → (peekByte true st1).1 = 0 := peekByte_err_zero true st1
  generalize hq : peekByte true st1 = q at h hi2 hne2 hpeek hzero ⊢
  obtain ⟨d, st2⟩ := q
  dsimp only at h hi2 hne2 hpeek hzero ⊢
  by_cases h40 : d = 40
  · simp only [if_pos h40] at h ⊢
    have hpk2 : st2.peek ≠ 0 := by
      by_cases he : st1.err = none
      · rw [hpeek he, h40]; decide
      · have := hzero he; rw [h40] at this; exact absurd this (by decide)
    have hrest := nextByte_false_rest st2 hpk2
    have hi3 := imports_nextByte false st2
    have hne3 := (step_nextByte false st2).1.bufne hne2
    generalize hnb : nextByte false st2 = nb at h hrest hi3 hne3 ⊢
    obtain ⟨e, st3⟩ := nb
    dsimp only at h hrest hi3 hne3 ⊢
    obtain ⟨h1, h2⟩ := nextByte_go false _ h
    obtain ⟨h3, h4⟩ := groupLoop_go f rep b _ st3 hne3 h1
    obtain ⟨h5, h6⟩ := nextByte_go false st2 (by rw [hnb]; exact h3)
    obtain ⟨h7, h8⟩ := peekByte_go true st1 (by rw [hq]; exact h5)
    obtain ⟨h9, h10⟩ := readKeyword_go kwImport st' (by rw [hst1]; exact h7)
    refine ⟨h9, ?_⟩
    have hkw : ([105, 109, 112, 111, 114, 116] : Bytes) = kwImport := rfl
    rw [hkw, h10, hst1]
    simp only [Option.bind_some]
    rw [h8, hq]
    simp only [Option.bind_some, h40, beq_self_eq_true, if_true]
    rw [h6, hnb]
    simp only [Option.bind_some]
    have hfuel : (ofSt st3).b.length + 3 = st2.rest.length + 2 + 1 := by
      rw [ofSt_b, hrest]
    rw [hfuel, ← hi1, ← hi2, ← hi3, h4]
    simp only [Option.bind_some]
    rw [h2]
    simp only [Option.bind_some, pure]
    rw [imports_nextByte]
  · simp only [if_neg h40] at h ⊢
    obtain ⟨h5, h6⟩ := readImport_go st2 (peekBuf_of_ne hne2) h
    obtain ⟨h7, h8⟩ := peekByte_go true st1 (by rw [hq]; exact h5)
    obtain ⟨h9, h10⟩ := readKeyword_go kwImport st' (by rw [hst1]; exact h7)
    refine ⟨h9, ?_⟩
    have hkw : ([105, 109, 112, 111, 114, 116] : Bytes) = kwImport := rfl
    have h40' : (d == 40) = false := by simpa using h40
    rw [hkw, h10, hst1]
    simp only [Option.bind_some]
    rw [h8, hq]
    simp only [Option.bind_some, h40', Bool.false_eq_true, if_false]
    rw [← hi1, ← hi2, h6]
    rfl

theorem bind_assoc3 {α β γ δ : Type} (A : Option α) (B : α → Option β) (C : β → Option γ) (K : γ → Option δ) :
    (A.bind fun r => (B r).bind fun x => (C x).bind K) = (A.bind fun r => (B r).bind fun x => C x).bind K := by
  cases A with
  | none => rfl
  | some a =>
    simp only [Option.bind_some]
    cases B a <;> rfl

/-- `for r.peekByte(true) == 'i' { … }`: the translated loop ends in what follows it (`ReadImports_after1`). -/
theorem declLoop_go (f : Bytes) (rep : Bool) (b : Bytes) : ∀ (n : Nat) (st : St), PeekBuf st →
    OK (declLoop n st) →
    OK st ∧ Go.Read.ReadImports_loop1 f rep b (n + 1) (some st.imports) (ofSt st) =
      Go.Read.ReadImports_after1 f rep (some (declLoop n st).imports) b (ofSt (declLoop n st)) := by
  intro n
  induction n with
  | zero =>
    intro st hpb h
    unfold declLoop at h ⊢
    unfold Go.Read.ReadImports_loop1
    have himp := imports_peekByte true st
    generalize hpk : peekByte true st = p at h himp ⊢
    obtain ⟨c, st'⟩ := p
    dsimp only at h himp ⊢
    by_cases hc : c = 105
    · rw [if_pos hc] at h; exact absurd h (not_ok_setStuck st')
    · simp only [if_neg hc] at h ⊢
      obtain ⟨h3, h4⟩ := peekByte_go true st (by rw [hpk]; exact h)
      refine ⟨h3, ?_⟩
      rw [h4, hpk]
      have hc' : (c == 105) = false := by simpa using hc
      simp only [Option.bind_eq_bind, Option.bind_some, hc', Bool.not_false, if_true, himp]
  | succ n ih =>
    intro st hpb h
    rw [declLoop_succ'] at h ⊢
    unfold Go.Read.ReadImports_loop1
    have himp := imports_peekByte true st
    have hnz := peek_nz true st hpb
    generalize hpk : peekByte true st = p at h himp hnz ⊢
    obtain ⟨c, st'⟩ := p
    dsimp only at h himp hnz ⊢
    by_cases hc : c = 105
    · simp only [if_pos hc] at h ⊢
      have hne : st'.buf ≠ [] := hnz (by rw [hc]; decide)
      have hbody : declIter st' = declBody st' := rfl
      rw [hbody] at h ⊢
      obtain ⟨h1, h2⟩ := ih (declBody st') (peekBuf_of_ne (declBody_ne st' hne)) h
      obtain ⟨h5, h6⟩ := declBody_go f rep b st' hne h1
      obtain ⟨h3, h4⟩ := peekByte_go true st (by rw [hpk]; exact h5)
      refine ⟨h3, ?_⟩
      rw [h4, hpk]
      simp only [Option.bind_eq_bind, Option.bind_some, hc, beq_self_eq_true, Bool.not_true, Bool.false_eq_true, if_false]
      rw [← himp, bind_assoc3, h6]
      exact h2
    · simp only [if_neg hc] at h ⊢
      obtain ⟨h3, h4⟩ := peekByte_go true st (by rw [hpk]; exact h)
      refine ⟨h3, ?_⟩
      rw [h4, hpk]
      have hc' : (c == 105) = false := by simpa using hc
      simp only [Option.bind_eq_bind, Option.bind_some, hc', Bool.not_false, if_true, himp]

/-! ### what follows the loop: the two returns and the syntax-error fallback -/

/-- `for r.err == nil && !r.eof { r.readByte() }` -/
theorem drain_go (f : Bytes) (rep : Bool) (imps : Option (List Bytes)) (b : Bytes) : ∀ (n : Nat) (st : St),
    OK (drain n st) →
    OK st ∧ Go.Read.ReadImports_loop2 f rep imps b (n + 1) (ofSt st) = some (ofSt (drain n st)) := by
  intro n
  induction n with
  | zero =>
    intro st h
    have hg : (((ofSt st).err == none) && !(ofSt st).eof) = (st.err.isNone && !st.eof) := by
      rw [ofSt_err, errGo_eq_none, ofSt_eof]
    unfold drain at h ⊢
    unfold Go.Read.ReadImports_loop2
    by_cases hc : (st.err.isNone && !st.eof) = true
    · rw [if_pos hc] at h; exact absurd h (not_ok_setStuck st)
    · rw [if_neg hc] at h ⊢
      refine ⟨h, ?_⟩
      simp only [Bool.not_eq_true] at hc
      rw [hg, hc]
      rfl
  | succ n ih =>
    intro st h
    have hg : (((ofSt st).err == none) && !(ofSt st).eof) = (st.err.isNone && !st.eof) := by
      rw [ofSt_err, errGo_eq_none, ofSt_eof]
    unfold drain at h ⊢
    unfold Go.Read.ReadImports_loop2
    by_cases hc : (st.err.isNone && !st.eof) = true
    · rw [if_pos hc] at h ⊢
      obtain ⟨h1, h2⟩ := ih _ h
      refine ⟨(ok_readByte st).1 h1, ?_⟩
      rw [hg, hc]
      simp [readByte_eq, h2]
    · rw [if_neg hc] at h ⊢
      refine ⟨h, ?_⟩
      simp only [Bool.not_eq_true] at hc
      rw [hg, hc]
      rfl

theorem imports_drain : ∀ (n : Nat) (st : St), (drain n st).imports = st.imports := by
  intro n
  induction n with
  | zero => intro st; unfold drain; split <;> rfl
  | succ n ih =>
    intro st; unfold drain
    split
    · rw [ih, imports_readByte]
    · rfl

theorem panicked_readByte (st : St) : (readByte st).2.panicked = st.panicked := by
  unfold readByte
  cases st.rest with
  | nil => rfl
  | cons c rest' =>
    dsimp only
    split
    · split <;> rfl
    · rfl

theorem panicked_drain : ∀ (n : Nat) (st : St), (drain n st).panicked = st.panicked := by
  intro n
  induction n with
  | zero => intro st; unfold drain; split <;> rfl
  | succ n ih =>
    intro st; unfold drain
    split
    · rw [ih, panicked_readByte]
    · rfl

/-- the outcome of the model as the translated ReadImports returns it: `(buf, err, *imports)`;
the model-only outcomes (which `readImports_total` excludes) have no counterpart. -/
def toGo : Outcome → Option (Bytes × GoError × Option (List Bytes))
  | .ok imps buf err => some (buf, errGo err, some imps)
  | _ => none

theorem take_reverse_cons (x : UInt8) (t : Bytes) :
    GoLib.slice? (x :: t).reverse 0 (GoLib.len (x :: t).reverse - 1) = some t.reverse := by
  have h1 : (GoLib.len (x :: t).reverse - 1 : Int) = (t.length : Int) := by
    simp [GoLib.len]
  rw [h1]
  simp [GoLib.slice?]
  omega

theorem after1_go (f : Bytes) (rep : Bool) (b : Bytes) (st : St) (h : OK st) :
    Go.Read.ReadImports_after1 f rep (some st.imports) b (ofSt st) = toGo (finish rep st) := by
  unfold Go.Read.ReadImports_after1
  have hg : (((ofSt st).err == none) && !(ofSt st).eof) = (st.err.isNone && !st.eof) := by
    rw [ofSt_err, errGo_eq_none, ofSt_eof]
  have hsyn : ((ofSt st).err == (some ([115, 121, 110, 116, 97, 120, 32, 101, 114, 114, 111, 114] : Bytes) : GoError)) =
      decide (st.err = some .syntax) := errGo_syntax st.err
  rw [hg, hsyn]
  rcases finish_cases rep st h.2 with ⟨he, hf, (⟨hb, hfin⟩ | ⟨x, t, hb, hfin⟩)⟩ | ⟨hn, hs, hr, hfin⟩ | ⟨hn, hs, hfin⟩
  · rw [hfin]
    simp [he, hf, hb, toGo, GoLib.slice?, GoLib.len]
  · rw [hfin, h.1]
    have := take_reverse_cons x t
    simp only [he, hf, Option.isNone_none, Bool.not_false, Bool.and_self, if_true, ofSt_buf, hb, toGo, errGo,
      Bool.false_eq_true, if_false, Option.bind_eq_bind, this, Option.bind_some, pure]
  · have hcond : (st.err.isNone && !st.eof) = false := by
      cases he : st.err <;> cases hf : st.eof <;> simp_all
    have hds := drained_not_stuck st h.1
    have hok : OK (drained st) := ⟨hds, by rw [drained, panicked_drain]; exact h.2⟩
    obtain ⟨_, h2⟩ := drain_go f rep (some st.imports) b (st.rest.length + 1) { st with err := none } hok
    rw [hfin, hds, hcond, hs, hr]
    simp only [Bool.false_eq_true, if_false, decide_true, Bool.not_false, Bool.and_self, if_true,
      Option.bind_eq_bind, pure]
    have e : ({ ofSt st with err := none } : GR) = ofSt { st with err := none } := rfl
    have e2 : List.length (ofSt st).b + 2 = st.rest.length + 1 + 1 := rfl
    rw [e, e2]
    rw [hr] at h2
    rw [h2]
    simp only [Option.bind_some, toGo]
    have : (drained st).imports = st.imports := imports_drain _ _
    rw [this]
    rfl
  · have hcond : (st.err.isNone && !st.eof) = false := by
      cases he : st.err <;> cases hf : st.eof <;> simp_all
    have hc2 : (decide (st.err = some Err.syntax) && !rep) = false := by
      cases rep <;> simp_all
    rw [hfin, h.1, hcond, hc2]
    rfl

/-! ### ReadImports -/

theorem pb_kwLoop : ∀ (kw : Bytes) (st : St), PeekBuf st → PeekBuf (kwLoop kw st).1 := by
  intro kw
  induction kw with
  | nil => intro st h; exact h
  | cons k ks ih =>
    intro st h
    unfold kwLoop; dsimp only
    split
    · exact pb_syntaxError _ (pb_nextByte_any false st)
    · exact ih _ (pb_nextByte_any false st)

theorem pb_readKeyword (kw : Bytes) (st : St) (h : PeekBuf st) : PeekBuf (readKeyword kw st) := by
  unfold readKeyword; dsimp only
  have h1 := pb_kwLoop kw _ (pb_peekByte true st h)
  split
  · split
    · exact pb_syntaxError _ (pb_peekByte false _ h1)
    · exact pb_peekByte false _ h1
  · exact h1

theorem pb_identLoop : ∀ (n : Nat) (st : St), PeekBuf st → PeekBuf (identLoop n st) := by
  intro n
  induction n with
  | zero =>
    intro st h; unfold identLoop; dsimp only
    split
    · exact pb_setStuck _ (pb_peekByte false st h)
    · exact pb_peekByte false st h
  | succ n ih =>
    intro st h; unfold identLoop; dsimp only
    split
    · exact ih _ (pb_clearPeek _)
    · exact pb_peekByte false st h

theorem pb_readIdent (st : St) (h : PeekBuf st) : PeekBuf (readIdent st) := by
  unfold readIdent; dsimp only
  split
  · exact pb_syntaxError _ (pb_peekByte true st h)
  · exact pb_identLoop _ _ (pb_peekByte true st h)

/-- the BOM skip: `if leadingBytes, err := b.Peek(3); err == nil && bytes.Equal(leadingBytes, bom) { b.Discard(3) }` -/
theorem stripBOM_go (input : Bytes) :
    (if (((GoLib.readerPeek input 3).2 == none) &&
        (BEq.beq (GoLib.readerPeek input 3).1 ([0xef, 0xbb, 0xbf] : Bytes))) = true
      then GoLib.readerDiscard input 3 else input) = stripBOM input := by
  unfold stripBOM GoLib.readerPeek GoLib.readerDiscard
  have hb : bom = [0xef, 0xbb, 0xbf] := rfl
  have hd : bomDiscarded = true := rfl
  rw [hd, hb]
  match input with
  | [] => rfl
  | [a] => simp [ioEOF]
  | [a, b] => simp [ioEOF]
  | a :: b :: c :: rest =>
    have e : (239 = a ∧ 187 = b ∧ 191 = c) ↔ (a = 239 ∧ b = 187 ∧ c = 191) := by
      constructor <;> (rintro ⟨h1, h2, h3⟩; exact ⟨h1.symm, h2.symm, h3.symm⟩)
    simp [List.isPrefixOf, e]

/-- **ReadImports, translated from imports/read.go, is the model's `readImports`** — the returned
bytes, the error and the import list written through `imports` (initially empty) — for every input
and both values of `reportSyntaxError`. -/
theorem go_ReadImports_eq (input : Bytes) (report : Bool) :
    Go.Read.ReadImports input report (some []) = toGo (readImports input report) := by
  unfold Go.Read.ReadImports readImports
  have hbom := stripBOM_go input
  generalize stripBOM input = data at hbom ⊢
  have hok : OK (scan data) := ⟨scan_not_stuck data, scan_panicked data⟩
  unfold scan at hok ⊢
  dsimp only at hok ⊢
  have hpb : PeekBuf (readIdent (readKeyword kwPackage (St.init data))) :=
    pb_readIdent _ (pb_readKeyword _ _ (pb_init data))
  obtain ⟨h1, h2⟩ := declLoop_go input report data _ _ hpb hok
  obtain ⟨h3, h4⟩ := readIdent_go _ h1
  obtain ⟨h5, h6⟩ := readKeyword_go kwPackage _ h3
  rw [← after1_go input report data _ hok, ← h2]
  have hinit : (readIdent (readKeyword kwPackage (St.init data))).imports = [] := by
    rw [imports_readIdent, imports_readKeyword]; rfl
  rw [hinit]
  have hb' : (if (((GoLib.readerPeek input 3).2 == none) &&
        (BEq.beq (GoLib.readerPeek input 3).1 ([0xef, 0xbb, 0xbf] : Bytes))) = true
      then pure (GoLib.readerDiscard input 3) else pure input : Option Bytes) = some data := by
    rw [← hbom]; split <;> rfl
  have hinit2 : ({ b := data, buf := [], peek := 0, err := none, eof := false, nerr := 0 } : GR) =
      ofSt (St.init data) := rfl
  have hkw : ([112, 97, 99, 107, 97, 103, 101] : Bytes) = kwPackage := rfl
  have hfuel : List.length data + 3 = List.length data + 2 + 1 := rfl
  simp only [Option.bind_eq_bind]
  rw [hb']
  simp only [Option.bind_some]
  rw [hinit2, hkw, h6]
  simp only [Option.bind_some]
  rw [h4]
  simp only [Option.bind_some]

/-- the translated ReadImports returns for every input (no panic, every loop budget suffices) — the
`nerr > 10000` panic of peekByte and the slice `r.buf[:len(r.buf)-1]` included. -/
theorem go_ReadImports_some (input : Bytes) (report : Bool) :
    ∃ imps buf err, readImports input report = .ok imps buf err ∧
      Go.Read.ReadImports input report (some []) = some (buf, errGo err, some imps) := by
  have h := go_ReadImports_eq input report
  cases hr : readImports input report with
  | panic => exact absurd hr (readImports_no_panic input report)
  | stuck => exact absurd hr (readImports_no_stuck input report)
  | ok imps buf err => rw [hr] at h; exact ⟨imps, buf, err, rfl, h⟩

/-! ### ReadComments -/

/-- `ReadComments` over the model's reader (the model file has no definition of its own for it):
peek past the leading white space and comments; when a byte stopped the scan, drop it. -/
def readComments (input : Bytes) : Bytes × Option Err :=
  let st := (peekByte true (St.init input)).2
  if st.err.isNone && !st.eof then (st.buf.tail.reverse, none) else (st.buf.reverse, st.err)

theorem ok_first_peek (input : Bytes) : OK (peekByte true (St.init input)).2 := by
  constructor
  · cases hs : (peekByte true (St.init input)).2.stuck with
    | false => rfl
    | true => exact absurd ((ns_peekByte true (St.init input)).stuck hs) (by simp [St.init])
  · cases hp : (peekByte true (St.init input)).2.panicked with
    | false => rfl
    | true =>
      exfalso
      have hst := step_peekByte true (St.init input)
      rcases hst.1.pan hp with h | h
      · simp [St.init] at h
      · have := hst.2
        simp [St.init, nerrLimit] at this h
        omega

/-- **ReadComments, translated from imports/read.go**, for every input: never a panic (the slice
`r.buf[:len(r.buf)-1]` is in range because a byte that stops the scan was read). -/
theorem go_ReadComments_eq (input : Bytes) :
    Go.Read.ReadComments input = some ((readComments input).1, errGo (readComments input).2) := by
  unfold Go.Read.ReadComments readComments
  have hok := ok_first_peek input
  have hstart := started_first_peek input
  obtain ⟨_, h2⟩ := peekByte_go true (St.init input) hok
  have hinit2 : ({ b := input, buf := [], peek := 0, err := none, eof := false, nerr := 0 } : GR) =
      ofSt (St.init input) := rfl
  rw [hinit2]
  dsimp only
  rw [h2]
  generalize (peekByte true (St.init input)) = p at hstart ⊢
  obtain ⟨c, st⟩ := p
  dsimp only at hstart ⊢
  simp only [Option.bind_eq_bind, Option.bind_some]
  have hg : (((ofSt st).err == none) && !(ofSt st).eof) = (st.err.isNone && !st.eof) := by
    rw [ofSt_err, errGo_eq_none, ofSt_eof]
  rw [hg]
  by_cases hc : (st.err.isNone && !st.eof) = true
  · simp only [hc, if_true]
    have he : st.err = none ∧ st.eof = false := by simpa using hc
    cases hb : st.buf with
    | nil =>
      rcases hstart with h | h | h
      · exact absurd hb h
      · rw [he.2] at h; cases h
      · exact absurd he.1 h
    | cons x t =>
      have := take_reverse_cons x t
      simp only [ofSt_buf, hb, this, Option.bind_some, pure, List.tail_cons, errGo]
      rw [ofSt_err, he.1]
      rfl
  · simp only [Bool.not_eq_true] at hc
    simp only [hc, Bool.false_eq_true, if_false, pure, Option.bind_some]
    rfl

end GIV.ReadGo
