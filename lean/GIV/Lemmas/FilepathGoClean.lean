/-
  GIV.Lemmas.FilepathGoClean — the Lean translation of the STANDARD LIBRARY's filepath.Clean for Unix
  (GIV.Gen.FilepathGo), part 2: the main loop and the top level.

    dotdot_ok    the `..` case of the switch: backtracking (loop2_eq), appending "../" (three appends in range), or
                 nothing at the root = the model's three-way test (`ddNext`)
    elem_ok      the `default` case: separator if needed, then the element copy (loop3_eq)
    loop1_eq     the `for r < n` loop, in lock step with `GIV.Fsx.cleanLoop` on the same budget: `path[r+1]`,
                 `path[r+2]` are only read where they exist, every `out.append` happens with `w < len(path)`
                 (invariant `Inv`: writes never overtake reads, and there is a byte to spare where a separator
                 will be written), the budget `len(path) + 1` suffices
    Clean_eq     `Go.Filepath.Clean p = some (cleanBytes p)`;  Clean_eq_path  `… = some (cleanPath p)`
    IsAbs_eq, isAbs_eq   filepath.IsAbs and /repo's txtar.isAbs are "starts with '/'" = the regenerated `Gen.Fsx.isAbs`
-/
import GIV.Lemmas.FilepathGo
import GIV.Lemmas.FsxCleanBytes
import GIV.Gen.TxtarAbsGo
namespace GIV.FilepathGo
open GIV GIV.GoLib GIV.Fsx GIV.Go.Filepath

def base (rooted : Bool) : Nat := if rooted then 1 else 0

/-- writes never overtake reads; where the next element will need a separator there is a byte to spare. -/
def Inv (rooted : Bool) (pre t ro : Bytes) : Prop :=
  ro.length ≤ pre.length ∧ (ro.length < pre.length ∨ t = [] ∨ t.head? = some SEP ∨ ro.length = base rooted)

/-- the end of Clean: "" becomes ".". -/
def finish (ro : Bytes) : Bytes := if ro = [] then [DOT] else ro.reverse

theorem backtrack_suffix (dd : Nat) : ∀ ro : Bytes, ∃ s, ro = s ++ backtrack dd ro := by
  intro ro
  induction ro with
  | nil => exact ⟨[], rfl⟩
  | cons x ro ih =>
    rw [backtrack]
    split
    · obtain ⟨s, hs⟩ := ih
      exact ⟨x :: s, by rw [List.cons_append, ← hs]⟩
    · exact ⟨[x], rfl⟩

theorem Buf.drop {b : GoLazybuf} {p : Bytes} : ∀ (s l : Bytes), Buf b p (s ++ l) → Buf b p l := by
  intro s
  induction s with
  | nil => intro l h; exact h
  | cons x s ih => intro l h; exact ih l h.tail

/-- what the `..` case does to (buffer, dotdot mark). -/
def ddNext (rooted : Bool) (ro : Bytes) (dd : Nat) : Bytes × Nat :=
  if dd < ro.length then (backtrack dd ro, dd)
  else if rooted = false then
    (DOT :: DOT :: (if 0 < ro.length then SEP :: ro else ro), (DOT :: DOT :: (if 0 < ro.length then SEP :: ro else ro)).length)
  else (ro, dd)

theorem dotdot_ok (p : Bytes) (rooted : Bool) (b : GoLazybuf) (ro : Bytes) (dd : Nat) (pre t2 : Bytes) (r2 : Int)
    (hp : p = pre ++ DOT :: DOT :: t2) (hA : Abs b p ro) (hI : Inv rooted pre (DOT :: DOT :: t2) ro) :
    ∃ b', (if decide (b.w > (dd : Int)) = true then
            (Clean_loop2 p p 0 rooted (GoLib.len p) r2 (dd : Int) (p.length + 1) { b with w := b.w - 1 }).bind
              fun out => some (out, (dd : Int))
          else
            (if (!rooted) = true then
                (if decide (b.w > 0) = true then lazybuf_append b 47 else some b).bind fun out =>
                  (lazybuf_append out 46).bind fun out => (lazybuf_append out 46).bind fun out => some (out, out.w)
              else some (b, (dd : Int))).bind
              fun __x => some (__x.fst, __x.snd)) = some (b', ((ddNext rooted ro dd).2 : Int)) ∧
      Abs b' p (ddNext rooted ro dd).1 ∧ (ddNext rooted ro dd).1.length ≤ pre.length + 2 := by
  obtain ⟨hB, hw⟩ := hA
  have hple : pre.length + 2 ≤ p.length := by rw [hp]; simp
  obtain ⟨hI1, hI2⟩ := hI
  unfold ddNext
  by_cases hgt : dd < ro.length
  · have hgt' : decide (b.w > (dd : Int)) = true := by rw [hw]; exact decide_eq_true (by omega)
    cases ro with
    | nil => simp at hgt
    | cons x ro =>
      have hl2 := loop2_eq p p 0 rooted (GoLib.len p) r2 dd ro x { b with w := b.w - 1 } (p.length + 1) (hB.setw _)
        (by show b.w - 1 = _; rw [hw]; simp) (by have := hB.le; simp at this; omega)
      obtain ⟨s, hs⟩ := backtrack_suffix dd (x :: ro)
      rw [if_pos hgt]
      refine ⟨{ b with w := ((backtrack dd (x :: ro)).length : Int) }, ?_, ⟨?_, rfl⟩, ?_⟩
      · rw [if_pos hgt', hl2]; rfl
      · have : Buf b p (s ++ backtrack dd (x :: ro)) := by rw [← hs]; exact hB
        exact (Buf.drop s _ this).setw _
      · have : (x :: ro).length = s.length + (backtrack dd (x :: ro)).length := by
          rw [← List.length_append, ← hs]
        show (backtrack dd (x :: ro)).length ≤ pre.length + 2
        omega
  · have hgt' : decide (b.w > (dd : Int)) = false := by rw [hw]; exact decide_eq_false (by omega)
    rw [if_neg hgt]
    cases rooted with
    | true =>
      refine ⟨b, ?_, ⟨hB, hw⟩, by simp; omega⟩
      simp [hgt']
    | false =>
      have hbase : base false = 0 := rfl
      by_cases hpos : 0 < ro.length
      · have hlt : ro.length < pre.length := by
          rcases hI2 with h | h | h | h
          · exact h
          · cases h
          · simp [DOT, SEP] at h
          · rw [hbase] at h; omega
        have hw0 : decide (b.w > 0) = true := by rw [hw]; exact decide_eq_true (by omega)
        obtain ⟨b1, hb1, hA1⟩ := append_ok 47 ⟨hB, hw⟩ (by omega)
        obtain ⟨b2, hb2, hA2⟩ := append_ok 46 hA1 (by simp; omega)
        obtain ⟨b3, hb3, hA3⟩ := append_ok 46 hA2 (by simp; omega)
        refine ⟨b3, ?_, ?_, ?_⟩
        · simp only [hgt', Bool.false_eq_true, if_false, Bool.not_false, if_true, hw0, hb1, Option.bind_some, hb2, hb3, hA3.2, hpos]
          rfl
        · simp only [if_true, hpos]; exact hA3
        · simp only [if_true, hpos]; simp; omega
      · have hw0 : decide (b.w > 0) = false := by rw [hw]; exact decide_eq_false (by omega)
        obtain ⟨b2, hb2, hA2⟩ := append_ok 46 ⟨hB, hw⟩ (by omega)
        obtain ⟨b3, hb3, hA3⟩ := append_ok 46 hA2 (by simp; omega)
        refine ⟨b3, ?_, ?_, ?_⟩
        · simp only [hgt', Bool.false_eq_true, if_false, Bool.not_false, if_true, hw0, Option.bind_some, hb2, hb3, hA3.2, hpos]
          rfl
        · simp only [if_true, if_false, hpos]; exact hA3
        · simp only [if_true, if_false, hpos]; simp; omega

theorem copyElem_len : ∀ (t acc : Bytes), (copyElem t acc).1.length ≤ t.length := by
  intro t
  induction t with
  | nil => intro acc; simp [copyElem]
  | cons y t ih =>
    intro acc
    rw [copyElem]
    split
    · simp
    · exact Nat.le_succ_of_le (ih _)

/-- the buffer the element is copied into: a separator first unless this is the first element. -/
def sepFirst (rooted : Bool) (ro : Bytes) : Bytes :=
  if (rooted = true ∧ ro.length ≠ 1) ∨ (rooted = false ∧ ro.length ≠ 0) then SEP :: ro else ro

theorem elem_ok (p : Bytes) (rooted : Bool) (b : GoLazybuf) (ro : Bytes) (dd : Int) (pre : Bytes) (x : UInt8) (t : Bytes)
    (hp : p = pre ++ x :: t) (hx : x ≠ SEP) (hA : Abs b p ro) (hI : Inv rooted pre (x :: t) ro) :
    ∃ b' c rest, ((if (rooted && b.w != 1 || !rooted && b.w != 0) = true then lazybuf_append b 47 else some b).bind
        fun out => (Clean_loop3 p p 0 rooted (GoLib.len p) dd (p.length + 1) out (pre.length : Int)).bind
          fun __x => some (__x.fst, __x.snd, dd)) = some (b', ((pre ++ c).length : Int), dd) ∧
      x :: t = c ++ rest ∧ c ≠ [] ∧ copyElem (x :: t) (sepFirst rooted ro) = (rest, c.reverse ++ sepFirst rooted ro) ∧
      (rest = [] ∨ rest.head? = some SEP) ∧ Abs b' p (c.reverse ++ sepFirst rooted ro) ∧
      (c.reverse ++ sepFirst rooted ro).length ≤ (pre ++ c).length := by
  obtain ⟨hI1, hI2⟩ := hI
  have hw := hA.2
  have hplen : pre.length < p.length := by rw [hp]; simp
  have hcond : (rooted && b.w != 1 || !rooted && b.w != 0) = decide ((rooted = true ∧ ro.length ≠ 1) ∨ (rooted = false ∧ ro.length ≠ 0)) := by
    rw [hw]
    have e1 : ((ro.length : Int) != 1) = decide (ro.length ≠ 1) := by
      by_cases h : ro.length = 1
      · rw [h]; rfl
      · have : ¬ ((ro.length : Int) = 1) := by omega
        simp [bne, h, this]
    have e0 : ((ro.length : Int) != 0) = decide (ro.length ≠ 0) := by
      by_cases h : ro.length = 0
      · rw [h]; rfl
      · have : ¬ ((ro.length : Int) = 0) := by omega
        simp [bne, h, this]
    rw [e1, e0]
    cases rooted <;> simp
  by_cases hs : (rooted = true ∧ ro.length ≠ 1) ∨ (rooted = false ∧ ro.length ≠ 0)
  · have hlt : ro.length < pre.length := by
      rcases hI2 with h | h | h | h
      · exact h
      · cases h
      · simp at h; exact absurd h hx
      · unfold base at h
        rcases hs with ⟨h1, h2⟩ | ⟨h1, h2⟩
        · subst h1; exact absurd h h2
        · subst h1; exact absurd h h2
    obtain ⟨b1, hb1, hA1⟩ := append_ok 47 hA (by omega)
    have hsf : sepFirst rooted ro = SEP :: ro := by unfold sepFirst; rw [if_pos hs]
    obtain ⟨c, rest, b', hc, hce, hrest, hsep, hloop, hA'⟩ :=
      loop3_eq p p 0 rooted dd (x :: t) (SEP :: ro) b1 pre (p.length + 1) hp hA1 (by simp; omega) (by rw [hp]; simp; omega)
    refine ⟨b', c, rest, ?_, hc, ?_, by rw [hsf]; exact hce, hrest, by rw [hsf]; exact hA', ?_⟩
    · rw [hcond, decide_eq_true hs, if_pos rfl, hb1, Option.bind_some, hloop]; rfl
    · intro hcn; rw [hcn] at hc hce
      rw [copyElem] at hce; simp [hx] at hce
      -- copyElem of a non-separator head consumes it
      have := congrArg Prod.fst hce
      simp at this
      have h2 : (copyElem t (x :: SEP :: ro)).1.length ≤ t.length := copyElem_len t _
      rw [this] at h2
      have hr : rest = x :: t := by simpa using hc.symm
      rw [hr] at h2; simp at h2; omega
    · rw [hsf]; simp; omega
  · have hsf : sepFirst rooted ro = ro := by unfold sepFirst; rw [if_neg hs]
    obtain ⟨c, rest, b', hc, hce, hrest, hsep, hloop, hA'⟩ :=
      loop3_eq p p 0 rooted dd (x :: t) ro b pre (p.length + 1) hp hA hI1 (by rw [hp]; simp; omega)
    refine ⟨b', c, rest, ?_, hc, ?_, by rw [hsf]; exact hce, hrest, by rw [hsf]; exact hA', ?_⟩
    · rw [hcond, decide_eq_false hs]; simp only [Bool.false_eq_true, if_false, Option.bind_some, hloop]
    · intro hcn; rw [hcn] at hc hce
      rw [copyElem] at hce; simp [hx] at hce
      have := congrArg Prod.fst hce
      simp at this
      have h2 : (copyElem t (x :: ro)).1.length ≤ t.length := copyElem_len t _
      rw [this] at h2
      have hr : rest = x :: t := by simpa using hc.symm
      rw [hr] at h2; simp at h2; omega
    · rw [hsf]; simp; omega

/-! ### the main loop -/

theorem loop1_eq (p : Bytes) (hpne : p ≠ []) (rooted : Bool) :
    ∀ (fuel : Nat) (t ro : Bytes) (dd : Nat) (b : GoLazybuf) (pre : Bytes), p = pre ++ t → Abs b p ro → Inv rooted pre t ro →
      t.length < fuel →
      Clean_loop1 p p 0 rooted (GoLib.len p) fuel b (pre.length : Int) (dd : Int) =
        some (finish (cleanLoop rooted fuel t ro dd)) := by
  intro fuel
  induction fuel with
  | zero => intro t ro dd b pre _ _ _ h; omega
  | succ fuel ih =>
    intro t ro dd b pre hp hA hI hf
    rw [Clean_loop1]
    cases t with
    | nil =>
      have hlt : decide ((pre.length : Int) < GoLib.len p) = false := by
        unfold GoLib.len; rw [hp]; simp
      simp only [hlt, Bool.not_false, if_true]
      rw [after1_eq p p 0 rooted _ _ _ hA hpne]
      rfl
    | cons x t =>
      have hlt : decide ((pre.length : Int) < GoLib.len p) = true := by
        unfold GoLib.len; rw [hp]; simp; omega
      have hidx : GoLib.idx? p (pre.length : Int) = some x := by
        rw [hp, idx_app0]; rfl
      have hc1 : (pre.length : Int) + 1 = ((pre ++ [x]).length : Int) := by simp
      have hp1 : p = (pre ++ [x]) ++ t := by rw [hp]; simp
      simp only [hlt, Bool.not_true, Bool.false_eq_true, if_false, hidx, isSep, Option.pure_def, Option.bind_eq_bind,
        Option.bind_some]
      -- one byte skipped (an empty or "." element): the buffer is untouched
      have hI1 := hI.1
      have hskip : Clean_loop1 p p 0 rooted (GoLib.len p) fuel b ((pre.length : Int) + 1) (dd : Int) =
          some (finish (cleanLoop rooted fuel t ro dd)) := by
        rw [hc1]
        exact ih t ro dd b (pre ++ [x]) hp1 hA ⟨by simp; omega, Or.inl (by simp; omega)⟩ (by simpa using hf)
      -- the default case of the switch
      have hElem : x ≠ SEP → ¬ (x = DOT ∧ (t = [] ∨ t.head? = some SEP)) →
          ¬ (x = DOT ∧ t.head? = some DOT ∧ (t.tail = [] ∨ t.tail.head? = some SEP)) →
          ∃ b' R', ((if (rooted && b.w != 1 || !rooted && b.w != 0) = true then lazybuf_append b 47 else some b).bind
            fun out => (Clean_loop3 p p 0 rooted (GoLib.len p) (dd : Int) (p.length + 1) out (pre.length : Int)).bind
              fun __x => some (__x.fst, __x.snd, (dd : Int))) = some (b', R', (dd : Int)) ∧
            Clean_loop1 p p 0 rooted (GoLib.len p) fuel b' R' (dd : Int) =
              some (finish (cleanLoop rooted (fuel + 1) (x :: t) ro dd)) := by
        intro h1 h2 h3
        obtain ⟨b', c, rest, hE, hc, hcne, hce, hrest, hA', hlen⟩ := elem_ok p rooted b ro (dd : Int) pre x t hp h1 hA hI
        refine ⟨b', _, hE, ?_⟩
        have hm : cleanLoop rooted (fuel + 1) (x :: t) ro dd =
            cleanLoop rooted fuel (copyElem (x :: t) (sepFirst rooted ro)).1 (copyElem (x :: t) (sepFirst rooted ro)).2 dd := by
          rw [cleanLoop, if_neg h1, if_neg h2, if_neg h3]; rfl
        rw [hm, hce]
        have hp' : p = (pre ++ c) ++ rest := by rw [hp, hc]; simp
        have hrl : rest.length < fuel := by
          have e1 : (x :: t).length = c.length + rest.length := by rw [hc]; simp
          have e2 : 0 < c.length := List.length_pos_iff.mpr hcne
          simp at hf e1; omega
        exact ih rest _ dd b' (pre ++ c) hp' hA' ⟨hlen, Or.inr (hrest.elim Or.inl (fun h => Or.inr (Or.inl h)))⟩ hrl
      -- the ".." case of the switch
      have hDD : ∀ t2, x = DOT → t = DOT :: t2 → (t2 = [] ∨ t2.head? = some SEP) →
          ∃ b' d', (if decide (b.w > (dd : Int)) = true then
              (Clean_loop2 p p 0 rooted (GoLib.len p) ((pre.length : Int) + 2) (dd : Int) (p.length + 1) { b with w := b.w - 1 }).bind
                fun out => some (out, (dd : Int))
            else
              (if (!rooted) = true then
                  (if decide (b.w > 0) = true then lazybuf_append b 47 else some b).bind fun out =>
                    (lazybuf_append out 46).bind fun out => (lazybuf_append out 46).bind fun out => some (out, out.w)
                else some (b, (dd : Int))).bind
                fun __x => some (__x.fst, __x.snd)) = some (b', d') ∧
            Clean_loop1 p p 0 rooted (GoLib.len p) fuel b' ((pre.length : Int) + 2) d' =
              some (finish (cleanLoop rooted (fuel + 1) (x :: t) ro dd)) := by
        intro t2 hx ht h2
        subst hx; subst ht
        obtain ⟨b', hE, hA', hlen⟩ := dotdot_ok p rooted b ro dd pre t2 ((pre.length : Int) + 2) hp hA hI
        refine ⟨b', _, hE, ?_⟩
        have hm : cleanLoop rooted (fuel + 1) (DOT :: DOT :: t2) ro dd =
            cleanLoop rooted fuel t2 (ddNext rooted ro dd).1 (ddNext rooted ro dd).2 := by
          rw [cleanLoop, if_neg (by decide), if_neg (by simp [DOT, SEP]), if_pos ⟨rfl, rfl, h2⟩]
          unfold ddNext
          split
          · rfl
          · split <;> rfl
        rw [hm]
        have hc2 : (pre.length : Int) + 2 = ((pre ++ [DOT, DOT]).length : Int) := by simp
        rw [hc2]
        exact ih t2 _ _ b' (pre ++ [DOT, DOT]) (by rw [hp]; simp) hA'
          ⟨by simpa using hlen, Or.inr (h2.elim Or.inl (fun h => Or.inr (Or.inl h)))⟩ (by simp at hf ⊢; omega)
      by_cases hx : x = SEP
      · -- empty path element
        have hm : cleanLoop rooted (fuel + 1) (x :: t) ro dd = cleanLoop rooted fuel t ro dd := by
          rw [cleanLoop, if_pos hx]
        rw [hm]
        simp only [hx, decide_true, if_true, Option.bind_some]
        exact hskip
      · have hx' : decide (x = SEP) = false := decide_eq_false hx
        simp only [hx', Bool.false_eq_true, if_false]
        by_cases hxd : x = DOT
        · have hx46 : (x == 46) = true := by rw [hxd]; rfl
          simp only [hx46, if_true]
          cases t with
          | nil =>
            -- "." at the end
            have hn1 : ((pre.length : Int) + 1 == GoLib.len p) = true := by
              rw [beq_iff_eq]; unfold GoLib.len; rw [hp]; simp
            have hm : cleanLoop rooted (fuel + 1) (x :: []) ro dd = cleanLoop rooted fuel [] ro dd := by
              rw [cleanLoop, if_neg hx, if_pos ⟨hxd, Or.inl rfl⟩]
            simp only [hn1, if_true, Option.bind_some]
            rw [hm]; exact hskip
          | cons y t' =>
            have hn1 : ((pre.length : Int) + 1 == GoLib.len p) = false := by
              rw [beq_eq_false_iff_ne]; unfold GoLib.len; rw [hp]; simp; omega
            have hidx1 : GoLib.idx? p ((pre.length : Int) + 1) = some y := by
              have := idx_app pre (x :: y :: t') 1
              rw [← hp] at this; simpa using this
            simp only [hn1, Bool.false_eq_true, if_false, hidx1, Option.bind_some]
            by_cases hy : y = SEP
            · -- "." followed by a separator
              have hm : cleanLoop rooted (fuel + 1) (x :: y :: t') ro dd = cleanLoop rooted fuel (y :: t') ro dd := by
                rw [cleanLoop, if_neg hx, if_pos ⟨hxd, Or.inr (by simp [hy])⟩]
              rw [hm]
              simp only [hy, decide_true, if_true, Option.bind_some]
              rw [hy] at hskip; exact hskip
            · have hy' : decide (y = SEP) = false := decide_eq_false hy
              have h2 : ¬ (x = DOT ∧ (y :: t' = [] ∨ (y :: t').head? = some SEP)) := by
                rintro ⟨_, h | h⟩
                · cases h
                · simp at h; exact hy h
              simp only [hy', Bool.false_eq_true, if_false]
              by_cases hyd : y = DOT
              · have hy46 : (y == 46) = true := by rw [hyd]; rfl
                simp only [hy46, if_true]
                cases t' with
                | nil =>
                  -- ".." at the end
                  have hn2 : ((pre.length : Int) + 2 == GoLib.len p) = true := by
                    rw [beq_iff_eq]; unfold GoLib.len; rw [hp]; simp
                  obtain ⟨b', d', hE, hK⟩ := hDD [] hxd (by rw [hyd]) (Or.inl rfl)
                  simp only [hn2, if_true, Option.bind_some, hE]
                  exact hK
                | cons z t'' =>
                  have hn2 : ((pre.length : Int) + 2 == GoLib.len p) = false := by
                    rw [beq_eq_false_iff_ne]; unfold GoLib.len; rw [hp]; simp; omega
                  have hidx2 : GoLib.idx? p ((pre.length : Int) + 2) = some z := by
                    have := idx_app pre (x :: y :: z :: t'') 2
                    rw [← hp] at this; simpa using this
                  simp only [hn2, Bool.false_eq_true, if_false, hidx2, Option.bind_some]
                  by_cases hz : z = SEP
                  · -- ".." followed by a separator
                    subst hz
                    obtain ⟨b', d', hE, hK⟩ := hDD (SEP :: t'') hxd (by rw [hyd]) (Or.inr rfl)
                    simp only [decide_true, if_true, Option.bind_some, hE]
                    exact hK
                  · -- an element that starts with ".."
                    have hz' : decide (z = SEP) = false := decide_eq_false hz
                    have h3 : ¬ (x = DOT ∧ (y :: z :: t'').head? = some DOT ∧
                        ((y :: z :: t'').tail = [] ∨ (y :: z :: t'').tail.head? = some SEP)) := by
                      rintro ⟨_, _, h | h⟩
                      · cases h
                      · simp at h; exact hz h
                    obtain ⟨b', R', hE, hK⟩ := hElem hx h2 h3
                    simp only [hz', Bool.false_eq_true, if_false, Option.bind_some, hE]
                    exact hK
              · -- an element that starts with "." and another byte
                have hy46 : (y == 46) = false := by
                  rw [beq_eq_false_iff_ne]; exact hyd
                have h3 : ¬ (x = DOT ∧ (y :: t').head? = some DOT ∧
                    ((y :: t').tail = [] ∨ (y :: t').tail.head? = some SEP)) := by
                  rintro ⟨_, h, _⟩
                  simp at h; exact hyd h
                obtain ⟨b', R', hE, hK⟩ := hElem hx h2 h3
                simp only [hy46, Bool.false_eq_true, if_false, Option.bind_some, hE]
                exact hK
        · -- an ordinary element
          have hx46 : (x == 46) = false := by
            rw [beq_eq_false_iff_ne]; exact hxd
          obtain ⟨b', R', hE, hK⟩ := hElem hx (fun h => hxd h.1) (fun h => hxd h.1)
          simp only [hx46, Bool.false_eq_true, if_false, Option.bind_some, hE]
          exact hK

/-! ### the top level -/

theorem cleanBytes_finish (x : UInt8) (t : Bytes) :
    cleanBytes (x :: t) = finish (if x = SEP then cleanLoop true (t.length + 2) t [SEP] 1
      else cleanLoop false (t.length + 2) (x :: t) [] 0) := by
  unfold cleanBytes finish
  by_cases hx : x = SEP
  · simp [hx]
  · simp [hx]

/-- **the translated Clean is the model's byte loop**: no index, slice or allocation fails, every loop ends within its
budget, and the result is `cleanBytes p` — for every string. -/
theorem Clean_eq (p : Bytes) : Clean p = some (cleanBytes p) := by
  unfold Clean
  have hvol : volumeNameLen p = some 0 := rfl
  have hsl : GoLib.slice? p 0 (GoLib.len p) = some p := by
    unfold GoLib.slice? GoLib.len; rw [if_pos (by omega)]; simp
  simp only [hvol, Option.pure_def, Option.bind_eq_bind, Option.bind_some, hsl]
  cases p with
  | nil => rfl
  | cons x t =>
    have hne : ((x :: t) == ([] : Bytes)) = false := by rfl
    have hidx : GoLib.idx? (x :: t) 0 = some x := by
      have := idx_nat (x :: t) 0; simpa using this
    simp only [hne, Bool.false_eq_true, if_false, hidx, isSep, Option.bind_some]
    rw [cleanBytes_finish]
    by_cases hx : x = SEP
    · have hd : decide (x = SEP) = true := decide_eq_true hx
      obtain ⟨b1, hb1, hA1⟩ := append_ok (p := x :: t) 47 ⟨Buf.nil, rfl⟩ (by simp)
      simp only [hd, if_true, hb1, Option.bind_some, if_pos hx]
      have := loop1_eq (x :: t) (by simp) true ((x :: t).length + 1) t [SEP] 1 b1 [x] rfl hA1
        ⟨by simp, Or.inr (Or.inr (Or.inr rfl))⟩ (by simp; omega)
      simpa using this
    · have hd : decide (x = SEP) = false := decide_eq_false hx
      simp only [hd, Bool.false_eq_true, if_false, Option.bind_some, if_neg hx]
      have := loop1_eq (x :: t) (by simp) false ((x :: t).length + 1) (x :: t) [] 0 _ [] rfl ⟨Buf.nil, rfl⟩
        ⟨by simp, Or.inr (Or.inr (Or.inr rfl))⟩ (by simp)
      simpa using this

/-- … and therefore the component-stack `cleanPath` the C15 theorems are about. -/
theorem Clean_eq_path (p : Bytes) : Clean p = some (cleanPath p) := by
  rw [Clean_eq, cleanBytes_eq]

/-! ### IsAbs -/

theorem hasPrefix_sep (p : Bytes) : GoLib.hasPrefix p ([47] : Bytes) = decide (p.head? = some SEP) := by
  unfold GoLib.hasPrefix SEP
  cases p with
  | nil => rfl
  | cons b r =>
    by_cases hb : b = 47
    · subst hb; simp
    · simp [hb]

/-- filepath.IsAbs on Unix. -/
theorem IsAbs_eq (p : Bytes) : IsAbs p = some (decide (p.head? = some SEP)) := by
  unfold IsAbs; rw [hasPrefix_sep]; rfl

/-- /repo's txtar.isAbs (`filepath.IsAbs(p) || strings.HasPrefix(p, string(filepath.Separator))`) on Unix. -/
theorem isAbs_eq (p : Bytes) : GIV.Go.TxtarWrite.isAbs p = some (decide (p.head? = some SEP)) := by
  unfold GIV.Go.TxtarWrite.isAbs
  rw [IsAbs_eq, hasPrefix_sep]
  simp

end GIV.FilepathGo
