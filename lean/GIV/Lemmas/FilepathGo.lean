/-
  GIV.Lemmas.FilepathGo — the Lean translation of the STANDARD LIBRARY's filepath.Clean for Unix
  (GIV.Gen.FilepathGo, regenerated on every run by harness/internal/go2lean from
  GOROOT/src/internal/filepathlite/{path.go, path_unix.go, path_nonwindows.go} of the toolchain the harness
  is built with), part 1: the lazy buffer.

  `lazybuf` writes into `buf` only once the output diverges from the input; until then (`buf == nil`) the
  output is the prefix `path[:w]`.  `data b` is the byte string the buffer currently stands for, `Buf b p l`
  says that its first `l.length` bytes are `l` reversed (the model `GIV.Fsx.cleanLoop` keeps its buffer
  reversed), `Abs b p ro` adds `w = ro.length`.

    append_ok     `out.append(c)` succeeds whenever `w < len(path)` — neither `b.path[b.w]`, `b.path[:b.w]`
                  nor `b.buf[b.w] = c` can fail — and pushes `c`
    index_ok      `out.index(w)` reads the byte just popped by `out.w--`
    string_ok     `out.string()` is the buffer contents (both the lazy and the allocated form)
    loop2_eq      the backtracking loop `for out.w > dotdot && !IsPathSeparator(out.index(out.w)) { out.w-- }`
                  = `backtrack`; budget suffices
    loop3_eq      the element copy `for ; r < n && !IsPathSeparator(path[r]); r++ { out.append(path[r]) }`
                  = `copyElem`; budget suffices, `w ≤ r` keeps every append in range
    after1_eq     the end of Clean ("" becomes ".", `FromSlash` is the identity for Separator == '/')
-/
import GIV.Gen.FilepathGo
import GIV.Model.Fsx
namespace GIV.FilepathGo
open GIV GIV.GoLib GIV.Fsx GIV.Go.Filepath

/-! ### Go's built-ins on natural-number indices -/

theorem idx_nat (s : Bytes) (i : Nat) : GoLib.idx? s (i : Int) = s[i]? := by
  unfold GoLib.idx?; simp

theorem idx_app (pre t : Bytes) (k : Nat) : GoLib.idx? (pre ++ t) ((pre.length : Int) + (k : Int)) = t[k]? := by
  have : ((pre.length : Int) + (k : Int)) = ((pre.length + k : Nat) : Int) := by omega
  rw [this, idx_nat, List.getElem?_append_right (by omega)]
  congr 1; omega

theorem idx_app0 (pre t : Bytes) : GoLib.idx? (pre ++ t) (pre.length : Int) = t[0]? := by
  have := idx_app pre t 0
  simpa using this

theorem isSep (c : UInt8) : IsPathSeparator c = some (decide (c = SEP)) := by
  unfold IsPathSeparator SEP
  by_cases h : c = 47
  · subst h; rfl
  · have h' : ¬ (47 : UInt8) = c := fun e => h e.symm
    simp [h, h']

theorem fromSlash (s : Bytes) : FromSlash s = some s := by
  unfold FromSlash; rfl

theorem take_set_succ (c : UInt8) : ∀ (d : Bytes) (w : Nat), w < d.length → (d.set w c).take (w + 1) = d.take w ++ [c] := by
  intro d
  induction d with
  | nil => intro w h; simp at h
  | cons x xs ih =>
    intro w h
    cases w with
    | zero => simp
    | succ w =>
      simp only [List.set_cons_succ, List.take_succ_cons, List.cons_append, List.cons.injEq, true_and]
      exact ih w (by simpa using h)

theorem take_succ_getElem (d : Bytes) (w : Nat) (h : w < d.length) : d.take (w + 1) = d.take w ++ [d[w]] := by
  rw [List.take_add_one, List.getElem?_eq_getElem h]; rfl

/-! ### the lazy buffer -/

/-- the bytes the buffer stands for: `path` while nothing was allocated, `buf` afterwards. -/
def data (b : GoLazybuf) : Bytes :=
  match b.buf with
  | none => b.path
  | some d => d

/-- the buffer of a Clean(p) run whose first `l.length` bytes are `l` reversed. -/
structure Buf (b : GoLazybuf) (p l : Bytes) : Prop where
  path : b.path = p
  vap : b.volAndPath = p
  vol : b.volLen = 0
  len : (data b).length = p.length
  pre : (data b).take l.length = l.reverse

/-- … and `w` is the number of bytes written. -/
def Abs (b : GoLazybuf) (p ro : Bytes) : Prop := Buf b p ro ∧ b.w = (ro.length : Int)

theorem Buf.le {b : GoLazybuf} {p l : Bytes} (h : Buf b p l) : l.length ≤ p.length := by
  have := congrArg List.length h.pre
  rw [List.length_take, List.length_reverse, h.len] at this
  omega

theorem Buf.setw {b : GoLazybuf} {p l : Bytes} (h : Buf b p l) (k : Int) : Buf { b with w := k } p l :=
  ⟨h.path, h.vap, h.vol, h.len, h.pre⟩

theorem Buf.tail {b : GoLazybuf} {p l : Bytes} {x : UInt8} (h : Buf b p (x :: l)) : Buf b p l := by
  refine ⟨h.path, h.vap, h.vol, h.len, ?_⟩
  have h1 := h.pre
  have : (data b).take l.length = ((data b).take (x :: l).length).take l.length := by
    rw [List.take_take]; congr 1; simp
  rw [this, h1]
  simp

theorem Buf.get {b : GoLazybuf} {p l : Bytes} {x : UInt8} (h : Buf b p (x :: l)) : (data b)[l.length]? = some x := by
  have h1 := h.pre
  have h2 : ((data b).take (x :: l).length)[l.length]? = some x := by
    rw [h1]; simp
  rw [List.getElem?_take] at h2
  simpa using h2

theorem Buf.nil {p : Bytes} : Buf ({ path := p, buf := none, w := 0, volAndPath := p, volLen := 0 } : GoLazybuf) p [] :=
  ⟨rfl, rfl, rfl, rfl, by simp⟩

/-- `out.append(c)`: with `w < len(path)` nothing fails and `c` is pushed. -/
theorem append_ok {b : GoLazybuf} {p ro : Bytes} (c : UInt8) (h : Abs b p ro) (hlt : ro.length < p.length) :
    ∃ b', lazybuf_append b c = some b' ∧ Abs b' p (c :: ro) := by
  obtain ⟨hB, hw⟩ := h
  have hpath := hB.path
  cases hbuf : b.buf with
  | none =>
    have hdata : data b = p := by unfold data; rw [hbuf]; exact hpath
    have hpre := hB.pre
    rw [hdata] at hpre
    have hlt' : decide (b.w < GoLib.len b.path) = true := by
      rw [hw, hpath]; unfold GoLib.len; simp; exact hlt
    have hidx : GoLib.idx? b.path b.w = some p[ro.length] := by
      rw [hw, hpath, idx_nat, List.getElem?_eq_getElem hlt]
    by_cases hc : p[ro.length] = c
    · refine ⟨{ b with w := b.w + 1 }, ?_, ?_, ?_⟩
      · unfold lazybuf_append
        simp [hbuf, hlt', hidx, hc]
      · refine ⟨hpath, hB.vap, hB.vol, ?_, ?_⟩
        · show (data { b with w := b.w + 1 }).length = p.length
          have : data { b with w := b.w + 1 } = data b := rfl
          rw [this, hdata]
        · have : data { b with w := b.w + 1 } = data b := rfl
          rw [this, hdata]
          simp only [List.length_cons, List.reverse_cons]
          rw [take_succ_getElem p _ hlt, hpre, hc]
      · show b.w + 1 = ((c :: ro).length : Int)
        rw [hw]; simp
    · have hmake : GoLib.make? (0 : UInt8) (GoLib.len b.path) = some (List.replicate p.length 0) := by
        unfold GoLib.make? GoLib.len; rw [hpath]; simp
      have hslice : GoLib.slice? b.path 0 b.w = some (p.take ro.length) := by
        unfold GoLib.slice?; rw [hw, hpath, if_pos (by omega)]; simp
      have hcopy : GoLib.copyInto (List.replicate p.length (0 : UInt8)) (p.take ro.length) =
          p.take ro.length ++ List.replicate (p.length - ro.length) 0 := by
        have hm : min p.length ro.length = ro.length := Nat.min_eq_right (Nat.le_of_lt hlt)
        have hm2 : min ro.length p.length = ro.length := Nat.min_eq_left (Nat.le_of_lt hlt)
        simp [GoLib.copyInto, List.take_take, hm, hm2]
      let d : Bytes := p.take ro.length ++ List.replicate (p.length - ro.length) 0
      have hdlen : d.length = p.length := by
        show (p.take ro.length ++ List.replicate (p.length - ro.length) 0).length = p.length
        simp; omega
      have hset : GoLib.setIdx? d b.w c = some (d.set ro.length c) := by
        unfold GoLib.setIdx?; rw [hw, if_pos (by omega)]; simp
      refine ⟨{ b with buf := some (d.set ro.length c), w := b.w + 1 }, ?_, ?_, ?_⟩
      · unfold lazybuf_append
        have hne : (p[ro.length] == c) = false := by simpa using hc
        simp only [hbuf, Option.isNone_none, if_true, hlt', hidx, Option.pure_def, Option.bind_eq_bind,
          Option.bind_some, hne, Bool.false_eq_true, if_false, hmake, hslice, Option.map_some, hcopy]
        unfold lazybuf_append_k1
        simp only [GoLib.nilData, Option.pure_def, Option.bind_eq_bind]
        rw [show (p.take ro.length ++ List.replicate (p.length - ro.length) (0 : UInt8)) = d from rfl, hset]
        rfl
      · have hdat : data { b with buf := some (d.set ro.length c), w := b.w + 1 } = d.set ro.length c := rfl
        refine ⟨hpath, hB.vap, hB.vol, ?_, ?_⟩
        · rw [hdat]; simp [hdlen]
        · rw [hdat]
          simp only [List.length_cons, List.reverse_cons]
          rw [take_set_succ c d _ (by omega)]
          congr 1
          show (p.take ro.length ++ List.replicate (p.length - ro.length) 0).take ro.length = ro.reverse
          rw [List.take_append_of_le_length (by simp; omega), List.take_take, Nat.min_self, hpre]
      · show b.w + 1 = ((c :: ro).length : Int)
        rw [hw]; simp
  | some d =>
    have hdata : data b = d := by unfold data; rw [hbuf]
    have hpre := hB.pre
    have hlen := hB.len
    rw [hdata] at hpre hlen
    have hset : GoLib.setIdx? d b.w c = some (d.set ro.length c) := by
      unfold GoLib.setIdx?; rw [hw, if_pos (by omega)]; simp
    refine ⟨{ b with buf := some (d.set ro.length c), w := b.w + 1 }, ?_, ?_, ?_⟩
    · unfold lazybuf_append
      simp only [hbuf, Option.isNone_some, Bool.false_eq_true, if_false]
      unfold lazybuf_append_k1
      simp only [hbuf, GoLib.nilData, Option.pure_def, Option.bind_eq_bind, hset, Option.bind_some]
    · have hdat : data { b with buf := some (d.set ro.length c), w := b.w + 1 } = d.set ro.length c := rfl
      refine ⟨hpath, hB.vap, hB.vol, ?_, ?_⟩
      · rw [hdat]; simp [hlen]
      · rw [hdat]
        simp only [List.length_cons, List.reverse_cons]
        rw [take_set_succ c d _ (by omega), hpre]
    · show b.w + 1 = ((c :: ro).length : Int)
      rw [hw]; simp

/-- `out.index(i)` for the byte at position `l.length` of a buffer holding `x :: l`. -/
theorem index_ok {b : GoLazybuf} {p l : Bytes} {x : UInt8} (h : Buf b p (x :: l)) :
    lazybuf_index b (l.length : Int) = some x := by
  have hg := h.get
  unfold lazybuf_index
  cases hbuf : b.buf with
  | none =>
    have hdata : data b = b.path := by unfold data; rw [hbuf]
    rw [hdata] at hg
    simp [idx_nat, hg]
  | some d =>
    have hdata : data b = d := by unfold data; rw [hbuf]
    rw [hdata] at hg
    simp [GoLib.nilData, idx_nat, hg]

/-- `out.string()` is what was written. -/
theorem string_ok {b : GoLazybuf} {p ro : Bytes} (h : Abs b p ro) : lazybuf_string b = some ro.reverse := by
  obtain ⟨hB, hw⟩ := h
  have hle := hB.le
  have hpre := hB.pre
  unfold lazybuf_string
  cases hbuf : b.buf with
  | none =>
    have hdata : data b = p := by unfold data; rw [hbuf]; exact hB.path
    rw [hdata] at hpre
    simp only [Option.isNone_none, if_true, hB.vap, hB.vol, hw, Option.pure_def, Option.bind_eq_bind]
    unfold GoLib.slice?
    rw [if_pos (by omega)]
    simp [hpre]
  | some d =>
    have hdata : data b = d := by unfold data; rw [hbuf]
    have hlen := hB.len
    rw [hdata] at hpre hlen
    simp only [Option.isNone_some, Bool.false_eq_true, if_false, hB.vap, hB.vol, hw, GoLib.nilData,
      Option.pure_def, Option.bind_eq_bind]
    unfold GoLib.slice?
    rw [if_pos (by omega), if_pos (by omega)]
    simp [hpre]

/-! ### the backtracking loop -/

theorem loop2_eq (p op : Bytes) (vl : Int) (rooted : Bool) (n r : Int) (dd : Nat) :
    ∀ (ro : Bytes) (x : UInt8) (b : GoLazybuf) (fuel : Nat), Buf b p (x :: ro) → b.w = (ro.length : Int) → ro.length < fuel →
      Clean_loop2 p op vl rooted n r (dd : Int) fuel b = some { b with w := ((backtrack dd (x :: ro)).length : Int) } := by
  intro ro
  induction ro with
  | nil =>
    intro x b fuel hB hw hf
    cases fuel with
    | zero => omega
    | succ fuel =>
      have hgt : decide (b.w > (dd : Int)) = false := by rw [hw]; simp
      have hb : b = { b with w := ((backtrack dd [x]).length : Int) } := by
        cases b; simp only [backtrack] at *; simp_all
      rw [Clean_loop2]
      simp only [hgt, Bool.false_eq_true, if_false, Option.pure_def, Option.bind_eq_bind, Option.bind_some,
        Bool.not_false, if_true]
      exact congrArg some hb
  | cons y ro ih =>
    intro x b fuel hB hw hf
    cases fuel with
    | zero => omega
    | succ fuel =>
      rw [Clean_loop2]
      have hidx := index_ok hB
      rw [← hw] at hidx
      by_cases hgt : dd < (y :: ro).length
      · have hgt' : decide (b.w > (dd : Int)) = true := by
          rw [hw]; exact decide_eq_true (by have := hgt; simp only [List.length_cons] at this ⊢; omega)
        by_cases hx : x = SEP
        · have hbt : backtrack dd (x :: y :: ro) = y :: ro := by
            rw [backtrack, if_neg (fun h => h.2 hx)]
          have hb : b = { b with w := ((y :: ro).length : Int) } := by cases b; simp_all
          rw [hbt]
          simp only [hgt', if_true, hidx, isSep, hx, decide_true, Option.pure_def, Option.bind_eq_bind,
            Option.bind_some, Bool.not_true, Bool.not_false]
          exact congrArg some hb
        · have hbt : backtrack dd (x :: y :: ro) = backtrack dd (y :: ro) := by
            rw [backtrack, if_pos ⟨hgt, hx⟩]
          have hx' : decide (x = SEP) = false := by simpa using hx
          simp only [hgt', if_true, hidx, isSep, hx', Option.pure_def, Option.bind_eq_bind,
            Option.bind_some, Bool.not_true, Bool.not_false, Bool.false_eq_true, if_false, hbt]
          have := ih y { b with w := b.w - 1 } fuel (hB.tail.setw _) (by show b.w - 1 = _; rw [hw]; simp) (by simpa using hf)
          rw [this]
      · have hgt' : decide (b.w > (dd : Int)) = false := by
          rw [hw]; exact decide_eq_false (by have := hgt; simp only [List.length_cons] at this ⊢; omega)
        have hbt : backtrack dd (x :: y :: ro) = y :: ro := by
          rw [backtrack, if_neg (fun h => hgt h.1)]
        have hb : b = { b with w := ((y :: ro).length : Int) } := by cases b; simp_all
        rw [hbt]
        simp only [hgt', Bool.false_eq_true, if_false, Option.pure_def, Option.bind_eq_bind, Option.bind_some,
          Bool.not_false, if_true]
        exact congrArg some hb

/-! ### the element copy -/

theorem loop3_eq (p op : Bytes) (vl : Int) (rooted : Bool) (dd : Int) :
    ∀ (t ro : Bytes) (b : GoLazybuf) (pre : Bytes) (fuel : Nat), p = pre ++ t → Abs b p ro → ro.length ≤ pre.length →
      t.length < fuel →
      ∃ c rest b', t = c ++ rest ∧ copyElem t ro = (rest, c.reverse ++ ro) ∧ (rest = [] ∨ rest.head? = some SEP) ∧
        SEP ∉ c ∧
        Clean_loop3 p op vl rooted (GoLib.len p) dd fuel b (pre.length : Int) = some (b', ((pre ++ c).length : Int)) ∧
        Abs b' p (c.reverse ++ ro) := by
  intro t
  induction t with
  | nil =>
    intro ro b pre fuel hp hA hle hf
    cases fuel with
    | zero => omega
    | succ fuel =>
      refine ⟨[], [], b, rfl, rfl, Or.inl rfl, by simp, ?_, by simpa using hA⟩
      rw [Clean_loop3]
      have : decide ((pre.length : Int) < GoLib.len p) = false := by
        unfold GoLib.len; rw [hp]; simp
      simp [this]
  | cons x t ih =>
    intro ro b pre fuel hp hA hle hf
    cases fuel with
    | zero => omega
    | succ fuel =>
      rw [Clean_loop3]
      have hlt : decide ((pre.length : Int) < GoLib.len p) = true := by
        unfold GoLib.len; rw [hp]; simp; omega
      have hidx : GoLib.idx? p (pre.length : Int) = some x := by
        rw [hp, idx_app0]; rfl
      by_cases hx : x = SEP
      · refine ⟨[], x :: t, b, rfl, ?_, Or.inr (by simp [hx]), by simp, ?_, by simpa using hA⟩
        · rw [copyElem]; simp [hx]
        · simp [hlt, hidx, isSep, hx]
      · have hx' : decide (x = SEP) = false := by simpa using hx
        have hplen : ro.length < p.length := by rw [hp]; simp; omega
        obtain ⟨b1, hb1, hA1⟩ := append_ok x hA hplen
        have hp' : p = (pre ++ [x]) ++ t := by rw [hp]; simp
        obtain ⟨c, rest, b', hc, hce, hrest, hsep, hloop, hA'⟩ :=
          ih (x :: ro) b1 (pre ++ [x]) fuel hp' hA1 (by simp; omega) (by simpa using hf)
        refine ⟨x :: c, rest, b', by rw [hc]; rfl, ?_, hrest, ?_, ?_, ?_⟩
        · rw [copyElem]; simp [hx, hce]
        · simp only [List.mem_cons, not_or]; exact ⟨fun e => hx e.symm, hsep⟩
        · have hcast : (pre.length : Int) + 1 = ((pre ++ [x]).length : Int) := by simp
          simp only [hlt, if_true, hidx, isSep, hx', Option.pure_def, Option.bind_eq_bind, Option.bind_some,
            Bool.not_false, Bool.not_true, Bool.false_eq_true, if_false, hb1, hcast]
          rw [hloop]
          simp
        · simpa using hA'

/-! ### the end of Clean -/

theorem after1_eq (p op : Bytes) (vl : Int) (rooted : Bool) (n r dd : Int) {b : GoLazybuf} {ro : Bytes}
    (h : Abs b p ro) (hp : p ≠ []) :
    Clean_after1 p op vl rooted n b r dd = some (if ro = [] then [DOT] else ro.reverse) := by
  unfold Clean_after1
  cases ro with
  | nil =>
    have hw : (b.w == 0) = true := by rw [h.2]; rfl
    have hlt : ([] : Bytes).length < p.length := by
      cases p with
      | nil => exact absurd rfl hp
      | cons => simp
    obtain ⟨b1, hb1, hA1⟩ := append_ok 46 h hlt
    simp only [hw, if_true, hb1, Option.pure_def, Option.bind_eq_bind, Option.bind_some, string_ok hA1, fromSlash]
    rfl
  | cons x ro =>
    have hw : (b.w == 0) = false := by
      rw [h.2]; simp; omega
    simp only [hw, Bool.false_eq_true, if_false, Option.pure_def, Option.bind_eq_bind, Option.bind_some,
      string_ok h, fromSlash]
    simp

end GIV.FilepathGo
