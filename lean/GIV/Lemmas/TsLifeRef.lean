/-
  Lemmas for GIV.Model.TsLife §5: the reference-counted cleanup of RunT as a transition system
  over N finishers (removeAll(workdir_i); AddInt32(−1); if 0 { Remove(root); cancel }), all
  interleavings.  One inductive invariant `RInv`; from it: the root is removed exactly once, by a
  call that succeeds (every work directory is gone by then), cancel is called exactly once, and
  nothing is removed when retention was requested.
-/
import GIV.Model.TsLife

namespace GIV.TsLife
open GIV

def PC.undec : PC → Bool
  | .rmAll | .dec => true
  | _ => false

section
variable [F : FRef]

theorem firstPC_eq : firstPC = .rmAll := by simp [firstPC, F.order]
theorem afterRmAll_eq : afterRmAll = .dec := by simp [afterRmAll, F.order]
theorem afterDecBranch_eq : afterDecBranch = .done := by simp [afterDecBranch, F.order]

/-- the inductive invariant of the cleanup system for `n ≥ 1` finishers. -/
structure RInv (n : Nat) (s : RC) : Prop where
  lenP : s.pcs.length = n
  lenW : s.wd.length = n
  cnt : s.count = (s.pcs.countP PC.undec : Nat)
  wd : ∀ (i : Nat) (p : PC), s.pcs[i]? = some p → p ≠ PC.rmAll → s.wd[i]? = some false
  win : if s.count = 0
        then s.pcs.countP (· == PC.rmRoot) + s.rootAttempts = 1 ∧ s.pcs.countP (· == PC.cancel) + s.cancels = s.rootAttempts
        else s.pcs.countP (· == PC.rmRoot) = 0 ∧ s.pcs.countP (· == PC.cancel) = 0 ∧ s.rootAttempts = 0 ∧ s.cancels = 0
  rootOK : s.rootFailed = 0 ∧ (s.root = true ↔ s.rootAttempts = 0)

theorem rinv_init (n : Nat) (hn : 1 ≤ n) : RInv n (RC.init n false) := by
  have h1 : List.countP PC.undec (List.replicate n PC.rmAll) = n := by
    simp [List.countP_replicate, PC.undec]
  refine ⟨by simp [RC.init], by simp [RC.init], ?_, ?_, ?_, ?_⟩
  · simp [RC.init, firstPC_eq, h1]
  · intro i p hp hne
    simp only [RC.init, firstPC_eq, Bool.false_and, Bool.false_eq_true, if_false] at hp
    rw [List.getElem?_replicate] at hp
    split at hp
    · injection hp with hp; exact absurd hp.symm hne
    · cases hp
  · have : ¬ n = 0 := by omega
    simp [RC.init, firstPC_eq, this, List.countP_replicate]
  · simp [RC.init]

omit F in
theorem countP_pos_of_getElem? {p : PC → Bool} {l : List PC} {i : Nat} {x : PC}
    (h : l[i]? = some x) (hx : p x = true) : 0 < l.countP p := by
  rw [List.countP_pos_iff]
  exact ⟨x, List.mem_of_getElem? h, hx⟩

omit F in
theorem all_wd_false {n : Nat} {s : RC} (hi : RInv n s) (h0 : s.pcs.countP PC.undec = 0) :
    s.wd.all (fun b => !b) = true := by
  rw [List.all_eq_true]
  intro b hb
  obtain ⟨i, hlt, hbi⟩ := List.getElem_of_mem hb
  have hip : i < s.pcs.length := by rw [hi.lenP, ← hi.lenW]; exact hlt
  have hp : s.pcs[i]? = some s.pcs[i] := List.getElem?_eq_getElem hip
  have hne : s.pcs[i] ≠ .rmAll := by
    intro he
    have := countP_pos_of_getElem? (p := PC.undec) hp (by rw [he]; rfl)
    omega
  have := hi.wd i _ hp hne
  rw [List.getElem?_eq_getElem hlt] at this
  injection this with this
  rw [← hbi, this]; rfl

theorem rinv_step {n : Nat} {s s' : RC} {i : Nat} (hi : RInv n s) (h : s.step i = some s') : RInv n s' := by
  obtain ⟨lenP, lenW, cnt, wd, win, rootOK⟩ := hi
  have hi : RInv n s := ⟨lenP, lenW, cnt, wd, win, rootOK⟩
  unfold RC.step at h
  split at h
  · cases h
  · cases h
  · -- removeAll(workdir_i)
    rename_i hp
    injection h with h; subst h
    have hlt : i < s.pcs.length := by
      rcases Nat.lt_or_ge i s.pcs.length with h | h
      · exact h
      · rw [List.getElem?_eq_none h] at hp; cases hp
    have hpi : s.pcs[i] = .rmAll := by
      rw [List.getElem?_eq_getElem hlt] at hp; injection hp
    have cU : (s.pcs.set i PC.dec).countP PC.undec = s.pcs.countP PC.undec := by
      have hpos := countP_pos_of_getElem? (p := PC.undec) hp rfl
      rw [List.countP_set hlt, hpi]; simp [PC.undec]; omega
    have cR : (s.pcs.set i PC.dec).countP (· == PC.rmRoot) = s.pcs.countP (· == PC.rmRoot) := by
      rw [List.countP_set hlt, hpi]; simp
    have cC : (s.pcs.set i PC.dec).countP (· == PC.cancel) = s.pcs.countP (· == PC.cancel) := by
      rw [List.countP_set hlt, hpi]; simp
    refine ⟨by simp [lenP], by simp [lenW], ?_, ?_, ?_, rootOK⟩
    · simp only [afterRmAll_eq, cU]; exact cnt
    · intro j p hj hne
      simp only [afterRmAll_eq] at hj
      rw [List.getElem?_set] at hj ⊢
      by_cases hij : i = j
      · subst hij
        have : i < s.wd.length := by omega
        simp [this]
      · simp only [hij, if_false] at hj ⊢
        exact wd j p hj hne
    · simp only [afterRmAll_eq, cR, cC]; exact win
  · -- AddInt32(&refCount, -1) and the test of the result
    rename_i hp
    injection h with h; subst h
    have hlt : i < s.pcs.length := by
      rcases Nat.lt_or_ge i s.pcs.length with h | h
      · exact h
      · rw [List.getElem?_eq_none h] at hp; cases hp
    have hpi : s.pcs[i] = .dec := by
      rw [List.getElem?_eq_getElem hlt] at hp; injection hp
    have hpos := countP_pos_of_getElem? (p := PC.undec) hp rfl
    have hc0 : s.count ≠ 0 := by omega
    simp only [hc0, if_false] at win
    obtain ⟨wA, wB, wr, wc⟩ := win
    simp only [F.delta, F.zero, afterDecBranch_eq]
    have hwd : ∀ (x : PC), x ≠ .rmAll → ∀ (j : Nat) (p : PC), (s.pcs.set i x)[j]? = some p → p ≠ PC.rmAll → s.wd[j]? = some false := by
      intro x hx j p hj hne
      rw [List.getElem?_set] at hj
      by_cases hij : i = j
      · subst hij
        exact wd i .dec hp (by simp)
      · simp only [hij, if_false] at hj
        exact wd j p hj hne
    by_cases hz : s.count + -1 = 0
    · have hzb : (s.count + -1 == 0) = true := by simp [hz]
      simp only [hzb, if_true]
      have cU : (s.pcs.set i PC.rmRoot).countP PC.undec = s.pcs.countP PC.undec - 1 := by
        rw [List.countP_set hlt, hpi]; simp [PC.undec]
      have cR : (s.pcs.set i PC.rmRoot).countP (· == PC.rmRoot) = 1 := by
        rw [List.countP_set hlt, hpi, wA]; simp
      have cC : (s.pcs.set i PC.rmRoot).countP (· == PC.cancel) = 0 := by
        rw [List.countP_set hlt, hpi, wB]; simp
      refine ⟨by simp [lenP], lenW, ?_, hwd _ (by simp), ?_, rootOK⟩
      · simp only [cU]; omega
      · simp only [hz, if_true, cR, cC, wr, wc]; simp
    · have hzb : (s.count + -1 == 0) = false := by simp [hz]
      simp only [hzb, Bool.false_eq_true, if_false]
      have cU : (s.pcs.set i PC.done).countP PC.undec = s.pcs.countP PC.undec - 1 := by
        rw [List.countP_set hlt, hpi]; simp [PC.undec]
      have cR : (s.pcs.set i PC.done).countP (· == PC.rmRoot) = 0 := by
        rw [List.countP_set hlt, hpi, wA]; simp
      have cC : (s.pcs.set i PC.done).countP (· == PC.cancel) = 0 := by
        rw [List.countP_set hlt, hpi, wB]; simp
      refine ⟨by simp [lenP], lenW, ?_, hwd _ (by simp), ?_, rootOK⟩
      · simp only [cU]; omega
      · simp only [hz, if_false, cR, cC, wr, wc]; simp
  · -- os.Remove(testTempDir)
    rename_i hp
    injection h with h; subst h
    have hlt : i < s.pcs.length := by
      rcases Nat.lt_or_ge i s.pcs.length with h | h
      · exact h
      · rw [List.getElem?_eq_none h] at hp; cases hp
    have hpi : s.pcs[i] = .rmRoot := by
      rw [List.getElem?_eq_getElem hlt] at hp; injection hp
    have hpos := countP_pos_of_getElem? (p := (· == PC.rmRoot)) hp (by simp)
    have hc0 : s.count = 0 := by
      rcases Int.decEq s.count 0 with h | h
      · simp only [h, if_false] at win; omega
      · exact h
    simp only [hc0, if_true] at win
    obtain ⟨wA, wB⟩ := win
    have hA : s.pcs.countP (· == PC.rmRoot) = 1 := by omega
    have hr0 : s.rootAttempts = 0 := by omega
    have hroot : s.root = true := rootOK.2.2 hr0
    have hU : s.pcs.countP PC.undec = 0 := by omega
    have hall := all_wd_false hi hU
    have cU : (s.pcs.set i PC.cancel).countP PC.undec = s.pcs.countP PC.undec := by
      rw [List.countP_set hlt, hpi]; simp [PC.undec]
    have cR : (s.pcs.set i PC.cancel).countP (· == PC.rmRoot) = 0 := by
      rw [List.countP_set hlt, hpi, hA]; simp
    have cC : (s.pcs.set i PC.cancel).countP (· == PC.cancel) = s.pcs.countP (· == PC.cancel) + 1 := by
      rw [List.countP_set hlt, hpi]; simp
    refine ⟨by simp [lenP], lenW, ?_, ?_, ?_, ?_⟩
    · simp only [cU]; exact cnt
    · intro j p hj hne
      rw [List.getElem?_set] at hj
      by_cases hij : i = j
      · subst hij; exact wd i .rmRoot hp (by simp)
      · simp only [hij, if_false] at hj; exact wd j p hj hne
    · simp only [hc0, if_true, cR, cC]; omega
    · simp [hroot, hall, rootOK.1]
  · -- cancel()
    rename_i hp
    injection h with h; subst h
    have hlt : i < s.pcs.length := by
      rcases Nat.lt_or_ge i s.pcs.length with h | h
      · exact h
      · rw [List.getElem?_eq_none h] at hp; cases hp
    have hpi : s.pcs[i] = .cancel := by
      rw [List.getElem?_eq_getElem hlt] at hp; injection hp
    have hpos := countP_pos_of_getElem? (p := (· == PC.cancel)) hp (by simp)
    have hc0 : s.count = 0 := by
      rcases Int.decEq s.count 0 with h | h
      · simp only [h, if_false] at win; omega
      · exact h
    simp only [hc0, if_true] at win
    obtain ⟨wA, wB⟩ := win
    simp only [afterDecBranch_eq]
    have cU : (s.pcs.set i PC.done).countP PC.undec = s.pcs.countP PC.undec := by
      rw [List.countP_set hlt, hpi]; simp [PC.undec]
    have cR : (s.pcs.set i PC.done).countP (· == PC.rmRoot) = s.pcs.countP (· == PC.rmRoot) := by
      rw [List.countP_set hlt, hpi]; simp
    have cC : (s.pcs.set i PC.done).countP (· == PC.cancel) = s.pcs.countP (· == PC.cancel) - 1 := by
      rw [List.countP_set hlt, hpi]; simp
    refine ⟨by simp [lenP], lenW, ?_, ?_, ?_, rootOK⟩
    · simp only [cU]; exact cnt
    · intro j p hj hne
      rw [List.getElem?_set] at hj
      by_cases hij : i = j
      · subst hij; exact wd i .cancel hp (by simp)
      · simp only [hij, if_false] at hj; exact wd j p hj hne
    · simp only [hc0, if_true, cR, cC]; omega

theorem rinv_run {n : Nat} : ∀ (sched : List Nat) {s s' : RC}, RInv n s → s.run sched = some s' → RInv n s'
  | [], s, s', hi, h => by simp [RC.run] at h; subst h; exact hi
  | i :: rest, s, s', hi, h => by
    simp only [RC.run] at h
    split at h
    · cases h
    · rename_i s1 h1
      exact rinv_run rest (rinv_step hi h1) h

omit F in
/-- safety in every reachable state: the root is removed at most once and that call never fails;
cancel follows it, at most once; while the root exists it has not been attempted. -/
theorem rc_safe {n : Nat} {s : RC} (hi : RInv n s) :
    s.rootFailed = 0 ∧ s.rootAttempts ≤ 1 ∧ s.cancels ≤ s.rootAttempts ∧ (s.root = false ↔ s.rootAttempts = 1) := by
  obtain ⟨_, _, _, _, win, rootOK⟩ := hi
  have : s.rootAttempts ≤ 1 ∧ s.cancels ≤ s.rootAttempts := by
    split at win <;> omega
  refine ⟨rootOK.1, this.1, this.2, ?_⟩
  cases hr : s.root with
  | true => have := rootOK.2.1 hr; simp; omega
  | false =>
    simp
    have : ¬ s.rootAttempts = 0 := fun h => by have := rootOK.2.2 h; simp [hr] at this
    omega

omit F in
/-- when every finisher is done: everything is gone, one successful Remove, one cancel. -/
theorem rc_complete {n : Nat} {s : RC} (hi : RInv n s) (hc : s.complete = true) :
    s.root = false ∧ s.rootAttempts = 1 ∧ s.rootFailed = 0 ∧ s.cancels = 1 ∧ s.wd = List.replicate n false ∧ s.count = 0 := by
  have hall : ∀ p ∈ s.pcs, p = .done := by
    simpa [RC.complete, List.all_eq_true] using hc
  have hU : s.pcs.countP PC.undec = 0 := by
    rw [List.countP_eq_zero]; intro p hp; rw [hall p hp]; simp [PC.undec]
  have hA : s.pcs.countP (· == PC.rmRoot) = 0 := by
    rw [List.countP_eq_zero]; intro p hp; rw [hall p hp]; simp
  have hB : s.pcs.countP (· == PC.cancel) = 0 := by
    rw [List.countP_eq_zero]; intro p hp; rw [hall p hp]; simp
  have hc0 : s.count = 0 := by rw [hi.cnt, hU]; rfl
  have hw := all_wd_false hi hU
  have win := hi.win
  simp only [hc0, if_true, hA, hB] at win
  obtain ⟨_, _, _, hroot⟩ := rc_safe hi
  refine ⟨hroot.2 (by omega), by omega, hi.rootOK.1, by omega, ?_, hc0⟩
  apply List.ext_getElem
  · simp [hi.lenW]
  · intro j h1 h2
    rw [List.all_eq_true] at hw
    have := hw s.wd[j] (List.getElem_mem h1)
    simpa using this

omit F in
/-- no deadlock: a finisher that is not done can always take its next step. -/
theorem rc_progress {s : RC} {i : Nat} {p : PC} (hp : s.pcs[i]? = some p) (hne : p ≠ .done) :
    (s.step i).isSome = true := by
  unfold RC.step
  cases p <;> simp [hp] at hne ⊢

end

/-- under retention (TestWork / WorkdirRoot) no finisher has anything to do: nothing is removed. -/
theorem rc_retain [F : FRef] (n : Nat) (sched : List Nat) (s : RC) (h : (RC.init n true).run sched = some s) :
    s = RC.init n true ∧ sched = [] := by
  cases sched with
  | nil => simp [RC.run] at h; exact ⟨h.symm, rfl⟩
  | cons i rest =>
    exfalso
    simp only [RC.run] at h
    have : (RC.init n true).step i = none := by
      unfold RC.step
      simp only [RC.init, F.retain, Bool.and_self, if_true]
      rw [List.getElem?_replicate]
      split
      · rfl
      · rfl
      all_goals (rename_i hq; split at hq <;> cases hq)
    rw [this] at h
    cases h

end GIV.TsLife
