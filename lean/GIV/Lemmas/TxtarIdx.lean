/-
  GIV.Lemmas.TxtarIdx — the `bytes` helpers of the index form, and the index-form `isMarker`
  (/repo's and x/tools') against the line-level recognisers `markerName` / `refMarkerName`.
  Nothing here unfolds `Gen.Txtar.lenGuard` / `crAtEOF`: both forms are governed by them alike.
-/
import GIV.Model.TxtarIdx
import GIV.Lemmas.TxtarParse
namespace GIV.Txtar
open GIV

/-! ### the `bytes` helpers -/

theorem hasPrefix_eq (s pre : Bytes) : hasPrefix s pre = pre.isPrefixOf s := by
  unfold hasPrefix
  induction pre generalizing s with
  | nil => simp
  | cons a p ih =>
    cases s with
    | nil => simp [List.isPrefixOf]
    | cons b s' =>
      simp only [List.length_cons, List.take_succ_cons, List.isPrefixOf]
      rw [← ih s']
      rw [Bool.eq_iff_iff]
      simp only [Bool.and_eq_true, beq_iff_eq, List.cons.injEq]
      constructor
      · rintro ⟨rfl, h⟩; exact ⟨rfl, h⟩
      · rintro ⟨rfl, h⟩; exact ⟨rfl, h⟩

theorem hasSuffix_eq (s suf : Bytes) : hasSuffix s suf = suf.isSuffixOf s := by
  rw [Bool.eq_iff_iff, List.isSuffixOf_iff_suffix]
  unfold hasSuffix
  simp only [Bool.and_eq_true, decide_eq_true_eq, beq_iff_eq]
  constructor
  · rintro ⟨_, h⟩
    rw [← h]
    exact List.drop_suffix _ _
  · rintro ⟨t, rfl⟩
    refine ⟨by simp, ?_⟩
    have : (t ++ suf).length - suf.length = t.length := by simp
    rw [this, List.drop_left]

theorem slice?_prefix {s : Bytes} {i : Nat} (h : i ≤ s.length) : slice? s 0 i = some (s.take i) := by
  simp [slice?, h]

theorem slice?_suffix {s : Bytes} {i : Nat} (h : i ≤ s.length) :
    slice? s i s.length = some (s.drop i) := by
  simp [slice?, h]

theorem indexByte_none {s : Bytes} {c : UInt8} (h : c ∉ s) : indexByte s c = none := by
  induction s with
  | nil => rfl
  | cons x xs ih =>
    simp only [List.mem_cons, not_or] at h
    have hx : x ≠ c := fun e => h.1 e.symm
    simp [indexByte, hx, ih h.2]

theorem indexByte_append {s : Bytes} {c : UInt8} (h : c ∉ s) (r : Bytes) :
    indexByte (s ++ c :: r) c = some s.length := by
  induction s with
  | nil => simp [indexByte]
  | cons x xs ih =>
    simp only [List.mem_cons, not_or] at h
    have hx : x ≠ c := fun e => h.1 e.symm
    simp [indexByte, hx, ih h.2]

theorem trimSuffix_CR (d : Bytes) : trimSuffix d [CR] = dropLastCR d := by
  unfold trimSuffix dropLastCR
  have : hasSuffix d [CR] = true ↔ d.getLast? = some CR := by
    rw [hasSuffix_eq, List.isSuffixOf_iff_suffix, List.getLast?_eq_some_iff]
    constructor
    · rintro ⟨t, h⟩; exact ⟨t, h.symm⟩
    · rintro ⟨t, h⟩; exact ⟨t, h.symm⟩
  by_cases h : d.getLast? = some CR
  · rw [if_pos (this.mpr h), if_pos h, List.dropLast_eq_take]
    rfl
  · rw [if_neg (fun e => h (this.mp e)), if_neg h]

end GIV.Txtar
namespace GIV.Txtar
open GIV

/-- A pattern without '\n' is a prefix of a terminated line followed by anything iff it is a
prefix of the line. -/
theorem isPrefixOf_line {m : Bytes} (hm : NL ∉ m) (body rest : Bytes) :
    m.isPrefixOf (body ++ NL :: rest) = m.isPrefixOf (body ++ [NL]) := by
  induction body generalizing m with
  | nil =>
    cases m with
    | nil => simp
    | cons a m' =>
      simp only [List.mem_cons, not_or] at hm
      have : (a == NL) = false := by
        rw [beq_eq_false_iff_ne]; exact fun e => hm.1 e.symm
      simp [List.isPrefixOf, this]
  | cons b bs ih =>
    cases m with
    | nil => simp
    | cons a m' =>
      simp only [List.mem_cons, not_or] at hm
      simp only [List.cons_append, List.isPrefixOf]
      rw [ih hm.2]

theorem nl_not_mem_marker [FLit] : NL ∉ marker := by
  rw [marker_eq]; decide

/-- the part of the input that `isMarker` looks at: the first line `l`, then `rest`. -/
theorem isPrefixOf_bytes_append [FLit] (l : Line) (rest : Bytes) (h : l.nl = false → rest = []) :
    marker.isPrefixOf (l.bytes ++ rest) = marker.isPrefixOf l.bytes := by
  obtain ⟨body, nl⟩ := l
  cases nl with
  | true =>
    simp only [Line.bytes, if_true, List.append_assoc, List.singleton_append]
    exact isPrefixOf_line nl_not_mem_marker _ _
  | false => simp [h rfl]

/-- the value `isMarker` returns as `after` when it recognises a marker on line `l`. -/
def afterOf (l : Line) (rest : Bytes) : Option Bytes := if l.nl then some rest else none

/-- normal form of the index-form `isMarker` on "first line `l`, then `rest`". -/
theorem isMarkerIdx_nf [FLit] (l : Line) (rest : Bytes) (hb : NL ∉ l.body) (h : l.nl = false → rest = []) :
    isMarkerIdx (l.bytes ++ rest) =
      if !marker.isPrefixOf l.bytes then some ([], none) else
      if !(markerEnd.isSuffixOf (lineData l) &&
          (!Gen.Txtar.lenGuard || decide (marker.length + markerEnd.length ≤ (lineData l).length))) then
        some ([], none)
      else if (lineData l).length - markerEnd.length < marker.length then none
      else some (trimSpace (nameSlice (lineData l)), afterOf l rest) := by
  unfold isMarkerIdx
  rw [hasPrefix_eq, isPrefixOf_bytes_append l rest h]
  by_cases hp : marker.isPrefixOf l.bytes = true
  · simp only [hp, Bool.not_true, Bool.false_eq_true, if_false]
    obtain ⟨body, nl⟩ := l
    have key : ∀ (data1 : Bytes) (after : Option Bytes) (sawNL : Bool),
        (if Gen.Txtar.crAtEOF || sawNL then trimSuffix data1 [CR] else data1) = lineData ⟨body, nl⟩ →
        after = afterOf ⟨body, nl⟩ rest →
        (do
          let data2 := if Gen.Txtar.crAtEOF || sawNL then trimSuffix data1 [CR] else data1
          if !(hasSuffix data2 markerEnd &&
              (!Gen.Txtar.lenGuard || decide (marker.length + markerEnd.length ≤ data2.length))) then
            some (([] : Bytes), (none : Option Bytes))
          else do
            let nm ← slice? data2 marker.length (data2.length - markerEnd.length)
            some (trimSpace nm, after)) =
        (if !(markerEnd.isSuffixOf (lineData ⟨body, nl⟩) &&
            (!Gen.Txtar.lenGuard || decide (marker.length + markerEnd.length ≤ (lineData ⟨body, nl⟩).length))) then
          some ([], none)
        else if (lineData ⟨body, nl⟩).length - markerEnd.length < marker.length then none
        else some (trimSpace (nameSlice (lineData ⟨body, nl⟩)), afterOf ⟨body, nl⟩ rest)) := by
      intro data1 after sawNL h1 h2
      simp only [h1, h2, hasSuffix_eq]
      split
      · rfl
      · by_cases hlt : (lineData ⟨body, nl⟩).length - markerEnd.length < marker.length
        · have : slice? (lineData ⟨body, nl⟩) marker.length ((lineData ⟨body, nl⟩).length - markerEnd.length) = none := by
            unfold slice?
            rw [if_neg]
            omega
          simp [this, hlt]
        · have : slice? (lineData ⟨body, nl⟩) marker.length ((lineData ⟨body, nl⟩).length - markerEnd.length)
              = some (nameSlice (lineData ⟨body, nl⟩)) := by
            unfold slice? nameSlice
            rw [if_pos]
            omega
          simp [this, hlt]
    cases nl with
    | true =>
      simp only [Line.bytes, if_true, List.append_assoc, List.singleton_append]
      rw [indexByte_append hb]
      have l1 : body.length ≤ (body ++ NL :: rest).length := by simp
      have l2 : body.length + 1 ≤ (body ++ NL :: rest).length := by simp
      simp only [slice?_prefix l1, slice?_suffix l2, List.take_left, Option.bind_eq_bind, Option.bind_some]
      have : (body ++ NL :: rest).drop (body.length + 1) = rest := by
        rw [← List.drop_drop, List.drop_left]; rfl
      rw [this]
      apply key
      · simp [lineData, trimSuffix_CR]
      · rfl
    | false =>
      have hr := h rfl
      subst hr
      simp only [Line.bytes, Bool.false_eq_true, if_false, List.append_nil]
      rw [indexByte_none hb]
      apply key
      · simp [lineData, trimSuffix_CR]
      · rfl
  · simp [hp]

end GIV.Txtar
namespace GIV.Txtar
open GIV

/-- What the generic loop lemmas need to know about an index-form `isMarker` and the line-level
recogniser it implements. -/
structure MarkerSpec (isM : Bytes → Option (Bytes × Option Bytes)) (mk : Line → Option Bytes) : Prop where
  fst : ∀ l rest, NL ∉ l.body → (l.nl = false → rest = []) →
    (isM (l.bytes ++ rest)).map Prod.fst = mk l
  after : ∀ l rest n a, NL ∉ l.body → (l.nl = false → rest = []) →
    isM (l.bytes ++ rest) = some (n, a) → n ≠ [] → a = afterOf l rest
  noPrefix : ∀ l, marker.isPrefixOf l.bytes = false → mk l = some []

theorem markerName_nf (l : Line) :
    markerName l =
      if !marker.isPrefixOf l.bytes then some [] else
      if !(markerEnd.isSuffixOf (lineData l) &&
          (!Gen.Txtar.lenGuard || decide (marker.length + markerEnd.length ≤ (lineData l).length))) then
        some []
      else if (lineData l).length - markerEnd.length < marker.length then none
      else some (trimSpace (nameSlice (lineData l))) := by
  unfold markerName
  show (if (!marker.isPrefixOf l.bytes) = true then some [] else
      if (!markerEnd.isSuffixOf (lineData l)) = true then some [] else
      if (Gen.Txtar.lenGuard && decide ((lineData l).length < marker.length + markerEnd.length)) = true then some [] else
      if (lineData l).length - markerEnd.length < marker.length then none
      else some (trimSpace (nameSlice (lineData l)))) = _
  generalize lineData l = data
  by_cases h1 : marker.isPrefixOf l.bytes = true
  · by_cases h2 : markerEnd.isSuffixOf data = true
    · by_cases h3 : marker.length + markerEnd.length ≤ data.length
      · simp [h1, h2, h3, Nat.not_lt.mpr h3]
      · cases Gen.Txtar.lenGuard <;> simp [h1, h2, h3, Nat.lt_of_not_le h3]
    · simp [h1, h2]
  · simp [h1]

/-- The index-form `isMarker` implements `markerName` on the first line. -/
theorem isMarkerIdx_eq [FLit] (l : Line) (rest : Bytes) (hb : NL ∉ l.body)
    (h : l.nl = false → rest = []) :
    (isMarkerIdx (l.bytes ++ rest)).map Prod.fst = markerName l := by
  rw [isMarkerIdx_nf l rest hb h, markerName_nf]
  split
  · rfl
  · split
    · rfl
    · split <;> rfl

theorem isMarkerIdx_after [FLit] (l : Line) (rest n : Bytes) (a : Option Bytes) (hb : NL ∉ l.body)
    (h : l.nl = false → rest = []) (he : isMarkerIdx (l.bytes ++ rest) = some (n, a)) (hn : n ≠ []) :
    a = afterOf l rest := by
  rw [isMarkerIdx_nf l rest hb h] at he
  split at he
  · simp only [Option.some.injEq, Prod.mk.injEq] at he; exact absurd he.1.symm hn
  · split at he
    · simp only [Option.some.injEq, Prod.mk.injEq] at he; exact absurd he.1.symm hn
    · split at he
      · cases he
      · simp only [Option.some.injEq, Prod.mk.injEq] at he; exact he.2.symm

theorem markerSpec_idx [FLit] : MarkerSpec isMarkerIdx markerName where
  fst := isMarkerIdx_eq
  after := isMarkerIdx_after
  noPrefix := by
    intro l h
    rw [markerName_nf, h]
    rfl

end GIV.Txtar
namespace GIV.Txtar
open GIV

theorem refIsMarkerIdx_nf [FLit] (l : Line) (rest : Bytes) (hb : NL ∉ l.body) (h : l.nl = false → rest = []) :
    refIsMarkerIdx (l.bytes ++ rest) =
      if !marker.isPrefixOf l.bytes then some ([], none) else
      if !(markerEnd.isSuffixOf l.body && decide (marker.length + markerEnd.length ≤ l.body.length)) then
        some ([], none)
      else some (trimSpace (nameSlice l.body), afterOf l rest) := by
  unfold refIsMarkerIdx
  rw [hasPrefix_eq, isPrefixOf_bytes_append l rest h]
  by_cases hp : marker.isPrefixOf l.bytes = true
  · simp only [hp, Bool.not_true, Bool.false_eq_true, if_false]
    obtain ⟨body, nl⟩ := l
    have key : ∀ (after : Option Bytes), after = afterOf ⟨body, nl⟩ rest →
        (if !(hasSuffix body markerEnd && decide (marker.length + markerEnd.length ≤ body.length)) then
            some (([] : Bytes), (none : Option Bytes))
          else do
            let nm ← slice? body marker.length (body.length - markerEnd.length)
            some (trimSpace nm, after)) =
        (if !(markerEnd.isSuffixOf body && decide (marker.length + markerEnd.length ≤ body.length)) then
          some ([], none)
        else some (trimSpace (nameSlice body), afterOf ⟨body, nl⟩ rest)) := by
      intro after h2
      simp only [h2, hasSuffix_eq]
      split
      · rfl
      · rename_i hc
        simp only [Bool.not_eq_true, Bool.not_eq_false', Bool.and_eq_true, decide_eq_true_eq] at hc
        have : slice? body marker.length (body.length - markerEnd.length) = some (nameSlice body) := by
          unfold slice? nameSlice
          rw [if_pos]
          omega
        simp [this]
    cases nl with
    | true =>
      simp only [Line.bytes, if_true, List.append_assoc, List.singleton_append]
      rw [indexByte_append hb]
      have l1 : body.length ≤ (body ++ NL :: rest).length := by simp
      have l2 : body.length + 1 ≤ (body ++ NL :: rest).length := by simp
      simp only [slice?_prefix l1, slice?_suffix l2, List.take_left, Option.bind_eq_bind, Option.bind_some]
      have : (body ++ NL :: rest).drop (body.length + 1) = rest := by
        rw [← List.drop_drop, List.drop_left]; rfl
      rw [this]
      exact key _ rfl
    | false =>
      have hr := h rfl
      subst hr
      simp only [Line.bytes, Bool.false_eq_true, if_false, List.append_nil]
      rw [indexByte_none hb]
      exact key _ rfl
  · simp [hp]

theorem refMarkerName_nf (l : Line) :
    refMarkerName l =
      if !marker.isPrefixOf l.bytes then [] else
      if !(markerEnd.isSuffixOf l.body && decide (marker.length + markerEnd.length ≤ l.body.length)) then []
      else trimSpace (nameSlice l.body) := rfl

theorem markerSpec_ref [FLit] : MarkerSpec refIsMarkerIdx (fun l => some (refMarkerName l)) where
  fst := by
    intro l rest hb h
    rw [refIsMarkerIdx_nf l rest hb h, refMarkerName_nf]
    split
    · rfl
    · split <;> rfl
  after := by
    intro l rest n a hb h he hn
    rw [refIsMarkerIdx_nf l rest hb h] at he
    split at he
    · simp only [Option.some.injEq, Prod.mk.injEq] at he; exact absurd he.1.symm hn
    · split at he
      · simp only [Option.some.injEq, Prod.mk.injEq] at he; exact absurd he.1.symm hn
      · simp only [Option.some.injEq, Prod.mk.injEq] at he; exact he.2.symm
  noPrefix := by
    intro l h
    rw [refMarkerName_nf, h]
    rfl

end GIV.Txtar
