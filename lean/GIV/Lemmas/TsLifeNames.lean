/-
  Lemmas for GIV.Model.TsLife §4b: the names RunT gives to the scripts of one call are pairwise
  distinct (so no two scripts share a work directory), and the search for a free name always ends.
-/
import GIV.Model.TsLife
import Std.Data.String.ToNat

namespace GIV.TsLife
open GIV

theorem pickAux_some {taken : List String} {b : String} : ∀ (f i : Nat) {n : String},
    pickAux taken b f i = some n → n ∉ taken ∧ ∃ j, n = cand b j
  | 0, _, _, h => by simp [pickAux] at h
  | f + 1, i, n, h => by
    simp only [pickAux] at h
    split at h
    · exact pickAux_some f (i + 1) h
    · rename_i hc
      injection h with h; subst h
      exact ⟨by simpa using hc, i, rfl⟩

theorem pickAux_none {taken : List String} {b : String} : ∀ (f i : Nat),
    pickAux taken b f i = none → ∀ j, j < f → cand b (i + j) ∈ taken
  | 0, _, _, j, hj => by omega
  | f + 1, i, h, j, hj => by
    simp only [pickAux] at h
    split at h
    · rename_i hc
      cases j with
      | zero => simpa using hc
      | succ j' =>
        have := pickAux_none f (i + 1) h j' (by omega)
        have e : i + 1 + j' = i + (j' + 1) := by omega
        rw [e] at this; exact this
    · cases h

theorem append_left_cancel_str {a x y : String} (h : a ++ x = a ++ y) : x = y := by
  have := congrArg String.toList h
  simp only [String.toList_append] at this
  exact String.toList_inj.1 (List.append_cancel_left this)

theorem cand_injective (b : String) {i j : Nat} (h : cand b i = cand b j) : i = j := by
  unfold cand at h
  by_cases hi : i = 0 <;> by_cases hj : j = 0 <;> simp only [hi, hj, if_true, if_false] at h
  · omega
  · have := congrArg String.length h
    have h1 : ("#" : String).length = 1 := by decide
    simp [String.length_append] at this
    omega
  · have := congrArg String.length h
    have h1 : ("#" : String).length = 1 := by decide
    simp [String.length_append] at this
    omega
  · have h1 : b ++ ("#" ++ toString i) = b ++ ("#" ++ toString j) := by
      simpa [String.append_assoc] using h
    have h2 := append_left_cancel_str (append_left_cancel_str h1)
    exact Nat.repr_injective h2

/-- pigeonhole: a duplicate-free list inside `t` is no longer than `t`. -/
theorem nodup_subset_length : ∀ (l t : List String), l.Nodup → (∀ x ∈ l, x ∈ t) → l.length ≤ t.length
  | [], _, _, _ => by simp
  | x :: rest, t, hn, hs => by
    have hx : x ∈ t := hs x (List.mem_cons_self ..)
    rw [List.nodup_cons] at hn
    have ih := nodup_subset_length rest (t.erase x) hn.2 (fun y hy => by
      have hne : y ≠ x := fun h => hn.1 (h ▸ hy)
      exact (List.mem_erase_of_ne hne).2 (hs y (List.mem_cons_of_mem _ hy)))
    have hl := List.length_erase_of_mem hx
    have : 0 < t.length := List.length_pos_of_mem hx
    simp only [List.length_cons]; omega

/-- the loop always finds a free name -/
theorem pickName_isSome (taken : List String) (b : String) : (pickName taken b).isSome = true := by
  cases h : pickName taken b with
  | some n => rfl
  | none =>
    exfalso
    have hall := pickAux_none (taken.length + 1) 0 h
    let l := (List.range (taken.length + 1)).map (cand b)
    have hnd : l.Nodup := by
      have hr : (List.range (taken.length + 1)).Nodup := List.nodup_range
      simp only [l, List.Nodup, List.pairwise_map] at hr ⊢
      exact hr.imp (fun hne heq => hne (cand_injective b heq))
    have hsub : ∀ x ∈ l, x ∈ taken := by
      intro x hx
      simp only [l, List.mem_map, List.mem_range] at hx
      obtain ⟨j, hj, rfl⟩ := hx
      have := hall j hj
      simpa using this
    have := nodup_subset_length l taken hnd hsub
    simp [l] at this
    omega

theorem assignFrom_spec : ∀ (bases taken : List String) {names : List String},
    assignFrom taken bases = some names →
    names.Nodup ∧ (∀ n ∈ names, n ∉ taken) ∧ names.length = bases.length ∧
    (∀ k (hk : k < names.length) (hb : k < bases.length), ∃ j, names[k] = cand bases[k] j)
  | [], taken, names, h => by
    simp [assignFrom] at h; subst h; simp
  | b :: rest, taken, names, h => by
    simp only [assignFrom] at h
    split at h
    · cases h
    · rename_i n hn
      split at h
      · cases h
      · rename_i ns hns
        injection h with h; subst h
        obtain ⟨a1, a2, a3, a4⟩ := assignFrom_spec rest (taken ++ [n]) hns
        obtain ⟨p1, j, p2⟩ := pickAux_some _ _ hn
        refine ⟨?_, ?_, by simp [a3], ?_⟩
        · rw [List.nodup_cons]
          exact ⟨fun hm => a2 n hm (by simp), a1⟩
        · intro x hx
          rcases List.mem_cons.1 hx with rfl | hx
          · exact p1
          · intro ht; exact a2 x hx (by simp [ht])
        · intro k hk hb
          cases k with
          | zero => exact ⟨j, by simpa using p2⟩
          | succ k' =>
            simp only [List.length_cons] at hk hb
            obtain ⟨j', hj'⟩ := a4 k' (by omega) (by omega)
            exact ⟨j', by simpa using hj'⟩

theorem assignFrom_isSome : ∀ (bases taken : List String), (assignFrom taken bases).isSome = true
  | [], _ => rfl
  | b :: rest, taken => by
    simp only [assignFrom]
    cases h : pickName taken b with
    | none => have := pickName_isSome taken b; simp [h] at this
    | some n =>
      simp only
      cases h2 : assignFrom (taken ++ [n]) rest with
      | none => have := assignFrom_isSome rest (taken ++ [n]); simp [h2] at this
      | some ns => rfl

end GIV.TsLife
