/-
  GIV.Lemmas.DiffGoMain — the Go→Lean translation of `Diff` (GIV.Gen.DiffMainGo, regenerated from /repo on every
  run) equals the model's `diff`, for all names and texts: the `bytes.Equal` shortcut, `lines` (go_lines_eq), `tgs`
  (go_tgs_eq), the three header Fprintf calls, and the loop (Diff_loop1_eq), whose budget condition holds because
  every element of `tgs`'s result lies inside `x` (tgs_spec).
-/
import GIV.Lemmas.DiffGoMainLoop
import GIV.Lemmas.DiffGoTgs
import GIV.Lemmas.DiffGo
import GIV.Lemmas.DiffTgs

namespace GIV.Go.Diff
open GIV GIV.GoLib GIV.Diff

/-- the model's `diff` for different texts, rendering in closed form -/
theorem diff_of_ne (n1 a n2 b : Bytes) (h : a ≠ b) :
    GIV.Diff.diff n1 a n2 b =
      (diffHunks (GIV.Diff.lines a) (GIV.Diff.lines b)).map fun hs => headerBytes n1 n2 ++ (hs.map hunkBytes).flatten := by
  unfold GIV.Diff.diff
  rw [if_neg h]
  cases diffHunks (GIV.Diff.lines a) (GIV.Diff.lines b) with
  | none => rfl
  | some hs => simp [render_eq]

/-- The translated `Diff` is the model's `diff`, panics included (there are none: `GIV.C08.diff_correct`). -/
theorem go_Diff_eq (n1 a n2 b : Bytes) : GIV.Go.Diff.Diff n1 a n2 b = GIV.Diff.diff n1 a n2 b := by
  by_cases h : a = b
  · subst h
    simp [GIV.Go.Diff.Diff, GIV.Diff.diff]
  · rw [diff_of_ne n1 a n2 b h]
    have hb : (a == b) = false := by simpa using h
    obtain ⟨s, hs, hspec⟩ := tgs_spec (GIV.Diff.lines a) (GIV.Diff.lines b)
    have hms : ∀ m ∈ s, m.1 ≤ (GIV.Diff.lines a).length := fun m hm => (hspec.msOK.elems m hm).1
    have hloop := Diff_loop1_eq n1 a n2 b (GIV.Diff.lines a) (GIV.Diff.lines b) (headerBytes n1 n2) s {} hms
    simp only [List.map_nil, List.flatten_nil, List.append_nil] at hloop
    have hhdr : ([] : Bytes) ++ ([100, 105, 102, 102, 32] : Bytes) ++ n1 ++ ([32] : Bytes) ++ n2 ++ ([10] : Bytes)
        ++ ([45, 45, 45, 32] : Bytes) ++ n1 ++ ([10] : Bytes) ++ ([43, 43, 43, 32] : Bytes) ++ n2 ++ ([10] : Bytes) = headerBytes n1 n2 := by
      simp [headerBytes]
    unfold GIV.Go.Diff.Diff
    simp only [diffHunks, hs]
    rw [hb, hhdr, go_lines_eq, go_lines_eq]
    simp only [Bool.false_eq_true, if_false, Option.bind_eq_bind, Option.bind_some, go_tgs_eq, hs, Option.map_some]
    exact hloop

end GIV.Go.Diff
