/-
  GIV.Lemmas.ParCacheStep — the transition function of GIV.Model.ParCache as an inductive relation,
  with the regenerated facts of GIV.Gen.ParCache resolved.
-/
import GIV.Model.ParCache
namespace GIV.ParCache
open GIV.Gen.ParCache

theorem shapeOK_true : shapeOK = true := by decide
theorem afterEntry_eq (k : Key) : afterEntry k = .dLoad1 k := rfl
theorem afterLock_eq (k : Key) : afterLock k = .dLoad2 k := rfl
theorem afterInner_eq (k : Key) : afterInner k = .dFEnter k := rfl
theorem afterWrite_eq (k : Key) : afterWrite k = .dStore k := rfl
theorem afterStore_eq (k : Key) : afterStore k = .dUnlock k := rfl
theorem afterHit_eq (k : Key) : afterHit k = .gLoad1 k := rfl
theorem doneStoreValue_eq : doneStoreValue = 1 := rfl
theorem outerNotDone_eq (v : Int) : outerNotDone v = decide (v = 0) := rfl
theorem innerNotDone_eq (v : Int) : innerNotDone v = decide (v = 0) := rfl
theorem getNotDone_eq (v : Int) : getNotDone v = decide (v = 0) := rfl

inductive Step (c : Cfg) (s : State) (t : Nat) : Event → State → Prop
  | start : s.pc t = .init → Step c s t .start (s.setPc t .idle)
  | exit : s.pc t = .idle → s.rest t = [] → Step c s t .exit (s.setPc t .exited)
  | doCall {k r} : s.pc t = .idle → s.rest t = .doK k :: r →
      Step c s t (.doCall k) ({ s with rest := fun i => if i = t then r else s.rest i }.setPc t (.dLoad k))
  | getCall {k r} : s.pc t = .idle → s.rest t = .getK k :: r →
      Step c s t (.getCall k) ({ s with rest := fun i => if i = t then r else s.rest i }.setPc t (.gLoad k))
  | dLoadHit {k} : s.pc t = .dLoad k → (s.key k).alloc = true → Step c s t (.mapLoad k true) (s.setPc t (.dLoad1 k))
  | dLoadMiss {k} : s.pc t = .dLoad k → (s.key k).alloc = false → Step c s t (.mapLoad k false) (s.setPc t (.dLos k))
  | dLos {k} : s.pc t = .dLos k →
      Step c s t (.mapLoadOrStore k (s.key k).alloc) ((s.setKey k { s.key k with alloc := true }).setPc t (.dLoad1 k))
  | dLoad1Zero {k} : s.pc t = .dLoad1 k → (s.key k).done = 0 → Step c s t (.atomicLoad k (s.key k).done) (s.setPc t (.dLock k))
  | dLoad1Set {k} : s.pc t = .dLoad1 k → (s.key k).done ≠ 0 → Step c s t (.atomicLoad k (s.key k).done) (s.setPc t (.dRet k))
  | dLock {k} : s.pc t = .dLock k → (s.key k).owner = none →
      Step c s t (.lock k) ((s.setKey k { s.key k with owner := some t }).setPc t (.dLoad2 k))
  | dLoad2Zero {k} : s.pc t = .dLoad2 k → (s.key k).done = 0 → Step c s t (.atomicLoad k (s.key k).done) (s.setPc t (.dFEnter k))
  | dLoad2Set {k} : s.pc t = .dLoad2 k → (s.key k).done ≠ 0 → Step c s t (.atomicLoad k (s.key k).done) (s.setPc t (.dUnlock k))
  | fEnter {k} : s.pc t = .dFEnter k →
      Step c s t (.fEnter k) ((s.setKey k { s.key k with fcalls := (s.key k).fcalls + 1 }).setPc t (.dInF k (c.fval k ((s.key k).fcalls + 1))))
  | fExit {k v} : s.pc t = .dInF k v → Step c s t (.fExit k v) ((s.setKey k { s.key k with fret := some v }).setPc t (.dWrite k v))
  | write {k v} : s.pc t = .dWrite k v → Step c s t (.write k) ((s.setKey k { s.key k with result := v }).setPc t (.dStore k))
  | store {k} : s.pc t = .dStore k → Step c s t (.atomicStore k 1) ((s.setKey k { s.key k with done := 1 }).setPc t (.dUnlock k))
  | unlock {k} : s.pc t = .dUnlock k → (s.key k).owner.isSome →
      Step c s t (.unlock k) ((s.setKey k { s.key k with owner := none }).setPc t (.dRet k))
  | doReturn {k} : s.pc t = .dRet k → Step c s t (.doReturn k (s.key k).result) (s.setPc t .idle)
  | gLoadHit {k} : s.pc t = .gLoad k → (s.key k).alloc = true → Step c s t (.mapLoad k true) (s.setPc t (.gLoad1 k))
  | gLoadMiss {k} : s.pc t = .gLoad k → (s.key k).alloc = false → Step c s t (.mapLoad k false) (s.setPc t (.gRetNil k))
  | gLoad1Zero {k} : s.pc t = .gLoad1 k → (s.key k).done = 0 → Step c s t (.atomicLoad k (s.key k).done) (s.setPc t (.gRetNil k))
  | gLoad1Set {k} : s.pc t = .gLoad1 k → (s.key k).done ≠ 0 → Step c s t (.atomicLoad k (s.key k).done) (s.setPc t (.gRet k))
  | getNil {k} : s.pc t = .gRetNil k → Step c s t (.getReturn k none) (s.setPc t .idle)
  | getVal {k} : s.pc t = .gRet k → Step c s t (.getReturn k (s.key k).result) (s.setPc t .idle)

theorem step_sound {c : Cfg} {s s' : State} {t : Nat} {e : Event} (h : step c s t e = some s') : Step c s t e s' := by
  unfold step at h
  simp only [shapeOK_true, Bool.not_true, Bool.false_eq_true, if_false, afterEntry_eq, afterLock_eq, afterInner_eq,
    afterWrite_eq, afterStore_eq, afterHit_eq, outerNotDone_eq, innerNotDone_eq, getNotDone_eq,
    decide_eq_true_eq] at h
  split at h
  · simp at h
  · split at h
    · rename_i hpc he; subst he; simp only [Option.some.injEq] at h; subst h; exact Step.start hpc
    · simp at h
  · rename_i hpc
    split at h
    · rename_i hr
      split at h
      · rename_i he; subst he; simp only [Option.some.injEq] at h; subst h; exact Step.exit hpc hr
      · simp at h
    · rename_i k r hr
      split at h
      · rename_i he; subst he; simp only [Option.some.injEq] at h; subst h; exact Step.doCall hpc hr
      · simp at h
    · rename_i k r hr
      split at h
      · rename_i he; subst he; simp only [Option.some.injEq] at h; subst h; exact Step.getCall hpc hr
      · simp at h
  · rename_i k hpc
    split at h
    · rename_i he; subst he; simp only [Option.some.injEq] at h; subst h
      cases ha : (s.key k).alloc with
      | true => simp only [if_true]; exact Step.dLoadHit hpc ha
      | false => simp only [Bool.false_eq_true, if_false]; exact Step.dLoadMiss hpc ha
    · simp at h
  · rename_i k hpc
    split at h
    · rename_i he; subst he; simp only [Option.some.injEq] at h; subst h; exact Step.dLos hpc
    · simp at h
  · rename_i k hpc
    split at h
    · rename_i he; subst he; simp only [Option.some.injEq] at h; subst h
      by_cases hd : (s.key k).done = 0
      · simp only [hd, if_true]; rw [← hd]; exact Step.dLoad1Zero hpc hd
      · simp only [hd, if_false]; exact Step.dLoad1Set hpc hd
    · simp at h
  · rename_i k hpc
    split at h
    · rename_i he; subst he
      split at h
      · rename_i ho; simp only [Option.some.injEq] at h; subst h; exact Step.dLock hpc ho
      · simp at h
    · simp at h
  · rename_i k hpc
    split at h
    · rename_i he; subst he; simp only [Option.some.injEq] at h; subst h
      by_cases hd : (s.key k).done = 0
      · simp only [hd, if_true]; rw [← hd]; exact Step.dLoad2Zero hpc hd
      · simp only [hd, if_false]; exact Step.dLoad2Set hpc hd
    · simp at h
  · rename_i k hpc
    split at h
    · rename_i he; subst he; simp only [Option.some.injEq] at h; subst h; exact Step.fEnter hpc
    · simp at h
  · rename_i k v hpc
    split at h
    · rename_i he; subst he; simp only [Option.some.injEq] at h; subst h; exact Step.fExit hpc
    · simp at h
  · rename_i k v hpc
    split at h
    · rename_i he; subst he; simp only [Option.some.injEq] at h; subst h; exact Step.write hpc
    · simp at h
  · rename_i k hpc
    split at h
    · rename_i he; subst he; simp only [Option.some.injEq] at h; subst h; exact Step.store hpc
    · simp at h
  · rename_i k hpc
    split at h
    · rename_i he; subst he
      split at h
      · rename_i ho; simp only [Option.some.injEq] at h; subst h; exact Step.unlock hpc ho
      · simp at h
    · simp at h
  · rename_i k hpc
    split at h
    · rename_i he; subst he; simp only [Option.some.injEq] at h; subst h; exact Step.doReturn hpc
    · simp at h
  · rename_i k hpc
    split at h
    · rename_i he; subst he; simp only [Option.some.injEq] at h; subst h
      cases ha : (s.key k).alloc with
      | true => simp only [if_true]; exact Step.gLoadHit hpc ha
      | false => simp only [Bool.false_eq_true, if_false]; exact Step.gLoadMiss hpc ha
    · simp at h
  · rename_i k hpc
    split at h
    · rename_i he; subst he; simp only [Option.some.injEq] at h; subst h
      by_cases hd : (s.key k).done = 0
      · simp only [hd, if_true]; rw [← hd]; exact Step.gLoad1Zero hpc hd
      · simp only [hd, if_false]; exact Step.gLoad1Set hpc hd
    · simp at h
  · rename_i k hpc
    split at h
    · rename_i he; subst he; simp only [Option.some.injEq] at h; subst h; exact Step.getNil hpc
    · simp at h
  · rename_i k hpc
    split at h
    · rename_i he; subst he; simp only [Option.some.injEq] at h; subst h; exact Step.getVal hpc
    · simp at h

end GIV.ParCache
