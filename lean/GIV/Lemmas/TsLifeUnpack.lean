/-
  Lemmas for GIV.Model.TsLife §3: what the work directory contains after the archive has been
  unpacked — exactly the files of the archive (a later entry with the same name wins, or the
  setup fails under RequireUniqueNames), their parent directories, and `.tmp`.
-/
import GIV.Model.TsLife

namespace GIV.TsLife
open GIV

theorem get_nil (fs : FS) : fs.get [] = some .dir := by simp [FS.get]

theorem get_cons (q : Path) (n : Node) (fs : FS) (p : Path) (hp : p ≠ []) :
    FS.get ((q, n) :: fs) p = if q = p then some n else fs.get p := by
  simp only [FS.get, hp, if_false, List.find?_cons]
  by_cases h : q = p
  · simp [h]
  · have : (q == p) = false := by simpa using h
    simp [this, h]

theorem mem_prefixes_ne_nil {p q : Path} (h : p ∈ prefixes q) : p ≠ [] := by
  simp only [prefixes, List.mem_map, List.mem_range] at h
  obtain ⟨i, hi, rfl⟩ := h
  intro hn
  cases q with
  | nil => simp at hi
  | cons a r => simp at hn

theorem mem_prefixes_length {p q : Path} (h : p ∈ prefixes q) : p.length ≤ q.length := by
  simp only [prefixes, List.mem_map, List.mem_range] at h
  obtain ⟨i, hi, rfl⟩ := h
  simp; omega

/-- the loop of `mkdirAll` over an arbitrary list of paths -/
theorem mkdir_fold_spec : ∀ (l : List Path) (fs fs' : FS),
    l.foldlM (fun (fs : FS) (q : Path) =>
      match fs.get q with
      | some .dir => (Except.ok fs : Except FsErr FS)
      | some (.file _) => .error .notDir
      | none => .ok ((q, .dir) :: fs)) fs = .ok fs' →
    (∀ p ∈ l, fs'.get p = some .dir) ∧
    (∀ p, fs'.get p = fs.get p ∨ (p ∈ l ∧ fs.get p = none ∧ fs'.get p = some .dir))
  | [], fs, fs', h => by
    simp only [List.foldlM_nil, pure, Except.pure] at h
    injection h with h; subst h
    exact ⟨fun p hp => absurd hp List.not_mem_nil, fun p => Or.inl rfl⟩
  | q :: rest, fs, fs', h => by
    simp only [List.foldlM_cons, bind, Except.bind] at h
    cases hq : fs.get q with
    | none =>
      simp only [hq] at h
      obtain ⟨a, b⟩ := mkdir_fold_spec rest _ fs' h
      have hqn : q ≠ [] := by intro hn; rw [hn, get_nil] at hq; cases hq
      refine ⟨?_, ?_⟩
      · intro p hp
        rcases List.mem_cons.1 hp with rfl | hp
        · rcases b p with h1 | ⟨_, h1, _⟩
          · rw [h1, get_cons _ _ _ _ hqn]; simp
          · rw [get_cons _ _ _ _ hqn] at h1; simp at h1
        · exact a p hp
      · intro p
        by_cases hpn : p = []
        · subst hpn; left; rw [get_nil, get_nil]
        · rcases b p with h1 | ⟨h0, h1, h2⟩
          · rw [get_cons _ _ _ _ hpn] at h1
            by_cases hqp : q = p
            · subst hqp
              right
              simp only [if_true] at h1
              exact ⟨List.mem_cons_self .., hq, h1⟩
            · simp only [hqp, if_false] at h1; exact Or.inl h1
          · rw [get_cons _ _ _ _ hpn] at h1
            by_cases hqp : q = p
            · simp [hqp] at h1
            · simp only [hqp, if_false] at h1
              exact Or.inr ⟨List.mem_cons_of_mem _ h0, h1, h2⟩
    | some n =>
      cases n with
      | file d => simp [hq] at h
      | dir =>
        simp only [hq] at h
        obtain ⟨a, b⟩ := mkdir_fold_spec rest fs fs' h
        refine ⟨?_, ?_⟩
        · intro p hp
          rcases List.mem_cons.1 hp with rfl | hp
          · rcases b p with h1 | ⟨_, h1, _⟩
            · rw [h1, hq]
            · rw [hq] at h1; cases h1
          · exact a p hp
        · intro p
          rcases b p with h1 | ⟨h0, h1, h2⟩
          · exact Or.inl h1
          · exact Or.inr ⟨List.mem_cons_of_mem _ h0, h1, h2⟩

theorem mkdirAll_spec {fs fs' : FS} {q : Path} (h : mkdirAll fs q = .ok fs') :
    (∀ p ∈ prefixes q, fs'.get p = some .dir) ∧
    (∀ p, fs'.get p = fs.get p ∨ (p ∈ prefixes q ∧ fs.get p = none ∧ fs'.get p = some .dir)) :=
  mkdir_fold_spec (prefixes q) fs fs' h

theorem writeFile_spec {fs fs' : FS} {q : Path} {d : Bytes} {excl : Bool} (h : writeFile fs q d excl = .ok fs') :
    fs' = (q, .file d) :: fs ∧ q ≠ [] ∧ fs.get q ≠ some .dir ∧ (excl = true → fs.get q = none) := by
  unfold writeFile at h
  have hq : q ≠ [] := by
    intro hn; subst hn; rw [get_nil] at h; cases h
  split at h
  · cases h
  · rename_i d0 hg
    split at h
    · cases h
    · rename_i he
      injection h with h
      exact ⟨h.symm, hq, by rw [hg]; simp, fun hx => by simp [hx] at he⟩
  · rename_i hg
    split at h
    · injection h with h
      exact ⟨h.symm, hq, by rw [hg]; simp, fun _ => hg⟩
    · cases h
    · cases h

/-- the data of the last entry named `p` -/
def lastData : List Entry → Path → Option Bytes
  | [], _ => none
  | e :: rest, p =>
    match lastData rest p with
    | some d => some d
    | none => if e.1 = p then some e.2 else none

theorem lastData_append (a b : List Entry) (p : Path) :
    lastData (a ++ b) p = match lastData b p with
      | some d => some d
      | none => lastData a p := by
  induction a with
  | nil => cases h : lastData b p <;> simp [lastData, h]
  | cons e rest ih =>
    simp only [List.cons_append, lastData, ih]
    cases hb : lastData b p <;> simp

theorem lastData_none_iff (l : List Entry) (p : Path) : lastData l p = none ↔ p ∉ l.map (·.1) := by
  induction l with
  | nil => simp [lastData]
  | cons e rest ih =>
    simp only [lastData, List.map_cons, List.mem_cons, not_or]
    cases hr : lastData rest p with
    | some d =>
      simp only [hr] at ih
      constructor
      · intro h; cases h
      · intro ⟨_, h2⟩; exact absurd (ih.2 h2) (by simp)
    | none =>
      have := ih.1 hr
      by_cases he : e.1 = p
      · simp [he]
      · simp only [he, if_false, true_iff]
        exact ⟨fun h => he h.symm, this⟩

/-- what the tree holds after the entries `done` have been unpacked -/
structure Spec (fs : FS) (done : List Entry) : Prop where
  files : ∀ p d, fs.get p = some (.file d) ↔ lastData done p = some d
  dirs : ∀ p, fs.get p = some .dir ↔
    (p = [] ∨ p = [Gen.TsLife.tmpDirName] ∨ ∃ e ∈ done, p ∈ prefixes e.1.dropLast)

theorem spec_fs0 : Spec fs0 [] := by
  refine ⟨?_, ?_⟩
  · intro p d
    simp only [lastData, fs0]
    by_cases hp : p = []
    · subst hp; rw [get_nil]; simp
    · rw [get_cons _ _ _ _ hp]
      split
      · simp
      · simp [FS.get, hp]
  · intro p
    by_cases hp : p = []
    · subst hp; simp [get_nil]
    · simp only [fs0, get_cons _ _ _ _ hp, hp, false_or, List.not_mem_nil, false_and, exists_false, or_false]
      by_cases h : [Gen.TsLife.tmpDirName] = p
      · simp [h]
      · simp only [h, if_false]
        constructor
        · intro hh; simp [FS.get, hp] at hh
        · intro hh; exact absurd hh.symm h

theorem spec_step {fs fs' : FS} {done : List Entry} {e : Entry} {excl : Bool}
    (hs : Spec fs done) (h : unpackOne excl fs e = .ok fs') :
    Spec fs' (done ++ [e]) ∧ (excl = true → e.1 ∉ done.map (·.1)) := by
  obtain ⟨q, d⟩ := e
  unfold unpackOne at h
  simp only at h
  cases hm : mkdirAll fs q.dropLast with
  | error x => rw [hm] at h; cases h
  | ok fs1 =>
    rw [hm] at h
    simp only at h
    obtain ⟨m1, m2⟩ := mkdirAll_spec hm
    obtain ⟨rfl, hq, w1, w2⟩ := writeFile_spec h
    have hlen : ∀ p ∈ prefixes q.dropLast, p ≠ q := by
      intro p hp he
      have := mem_prefixes_length hp
      rw [he] at this
      simp at this
      have : q.length ≠ 0 := by intro h0; exact hq (List.length_eq_zero_iff.1 h0)
      omega
    have fileSame : ∀ p d', fs1.get p = some (.file d') ↔ fs.get p = some (.file d') := by
      intro p d'
      rcases m2 p with h1 | ⟨_, h1, h2⟩
      · rw [h1]
      · rw [h1, h2]; simp
    refine ⟨⟨?_, ?_⟩, ?_⟩
    · intro p d'
      rw [lastData_append]
      by_cases hp : p = []
      · subst hp
        constructor
        · intro h; rw [get_nil] at h; cases h
        · intro h
          exfalso
          simp only [lastData, hq, if_false] at h
          have := (hs.files [] d').2 h
          rw [get_nil] at this; cases this
      · rw [get_cons _ _ _ _ hp]
        by_cases hqp : q = p
        · subst hqp
          simp [lastData]
        · simp only [hqp, if_false, lastData]
          rw [fileSame, hs.files]
    · intro p
      by_cases hp : p = []
      · subst hp; simp [get_nil]
      · rw [get_cons _ _ _ _ hp]
        by_cases hqp : q = p
        · subst hqp
          simp only [if_true, hp, false_or, List.mem_append, List.mem_singleton]
          constructor
          · intro h; cases h
          · intro h
            exfalso
            apply w1
            rcases h with ht | ⟨e, he | he, hpre⟩
            · rcases m2 q with h1 | ⟨_, _, h2⟩
              · rw [h1]; exact (hs.dirs q).2 (Or.inr (Or.inl ht))
              · exact h2
            · rcases m2 q with h1 | ⟨_, _, h2⟩
              · rw [h1]; exact (hs.dirs q).2 (Or.inr (Or.inr ⟨e, he, hpre⟩))
              · exact h2
            · subst he; exact absurd rfl (hlen q hpre)
        · simp only [hqp, if_false, hp, false_or, List.mem_append, List.mem_singleton]
          constructor
          · intro hd
            rcases m2 p with h1 | ⟨h0, _, _⟩
            · rw [h1] at hd
              rcases (hs.dirs p).1 hd with h | h | ⟨e, he, hpre⟩
              · exact absurd h hp
              · exact Or.inl h
              · exact Or.inr ⟨e, Or.inl he, hpre⟩
            · exact Or.inr ⟨(q, d), Or.inr rfl, h0⟩
          · intro hd
            rcases hd with h | ⟨e, he | he, hpre⟩
            · rcases m2 p with h1 | ⟨_, _, h2⟩
              · rw [h1]; exact (hs.dirs p).2 (Or.inr (Or.inl h))
              · exact h2
            · rcases m2 p with h1 | ⟨_, _, h2⟩
              · rw [h1]; exact (hs.dirs p).2 (Or.inr (Or.inr ⟨e, he, hpre⟩))
              · exact h2
            · subst he; exact m1 p hpre
    · intro hx
      have hnone := w2 hx
      -- the file did not exist before: no earlier entry has this name
      rw [← lastData_none_iff]
      cases hl : lastData done q with
      | none => rfl
      | some d0 =>
        have h1 := (hs.files q d0).2 hl
        have h2 := (fileSame q d0).2 h1
        rw [hnone] at h2; cases h2

theorem unpackFrom_spec (excl : Bool) : ∀ (rest : List Entry) (fs fs' : FS) (done : List Entry),
    Spec fs done → (excl = true → (done.map (·.1)).Nodup) → unpackFrom excl fs rest = (fs', none) →
    Spec fs' (done ++ rest) ∧ (excl = true → ((done ++ rest).map (·.1)).Nodup)
  | [], fs, fs', done, hs, hn, h => by
    simp only [unpackFrom] at h
    injection h with h1 _; subst h1
    simpa using And.intro hs hn
  | e :: rest, fs, fs', done, hs, hn, h => by
    simp only [unpackFrom] at h
    cases hu : unpackOne excl fs e with
    | error x => rw [hu] at h; cases h
    | ok fs1 =>
      rw [hu] at h
      simp only at h
      obtain ⟨s1, n1⟩ := spec_step hs hu
      have := unpackFrom_spec excl rest fs1 fs' (done ++ [e]) s1
        (fun hx => by
          simp only [List.map_append, List.map_cons, List.map_nil]
          rw [List.nodup_append]
          refine ⟨hn hx, by simp, ?_⟩
          intro a ha b hb
          simp at hb; subst hb
          intro hab; subst hab; exact n1 hx ha) h
      simpa using this

end GIV.TsLife
