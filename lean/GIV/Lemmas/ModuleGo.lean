/-
  GIV.Lemmas.ModuleGo — the Lean translation of golang.org/x/mod/module (GIV.Gen.ModuleGo, regenerated on every
  run by harness/internal/go2lean from the module-cache copy of the x/mod version /repo's go.mod requires:
  GOMODCACHE/golang.org/x/mod@v…/module/module.go) computes the model's transcription (GIV.Model.Proxy, sections
  "golang.org/x/mod/module: escaping" and "module.CheckPath, checkElem") — for every string; no index, slice or
  loop budget ever fails.  Errors are opaque: the statements compare nil / non-nil (`Option.isNone`), and for
  the functions returning (string, error) the string when the error is nil (`okOf`).

    GIV.Lemmas.ModuleGoRunes   the run-time library: runes of a string, Count / Index / LastIndexByte
    GIV.Lemmas.ModuleGoEscape  unescapeString_eq, escapeString_eq (every byte string, valid UTF-8 or not)
    GIV.Lemmas.ModuleGoSplit   splitGopkgIn_eq, SplitPathVersion_eq, CheckPathMajor_eq, MatchPathMajor_eq
    GIV.Lemmas.ModuleGoCheck   the character classes, checkElem_k0 (module-path element, every string),
                               checkElem_k2 (file-path element, ASCII strings), checkElem_k2_total
    here                       checkPath_eq (the element loop over (offset, rune) pairs against `splitOn`),
                               CheckPath_eq, Check_eq, EscapePath_eq, EscapeVersion_eq, UnescapePath_eq,
                               UnescapeVersion_eq

  The Unicode tables are a parameter `u` of the translation; the only assumption is `FoldOK u` (strings.EqualFold
  on two ASCII strings is equality up to ASCII case).
-/
import GIV.Lemmas.ModuleGoCheck
import GIV.Lemmas.ModuleGoSplit
import GIV.Lemmas.ModuleGoEscape
set_option linter.unusedSimpArgs false
namespace GIV.ModuleGo
open GIV GIV.GoLib GIV.Proxy GIV.SemverGo

/-! ### the model's splitOn -/

theorem splitOn_nosep (sep : UInt8) : ∀ cur : Bytes, sep ∉ cur → Proxy.splitOn sep cur = [cur] := by
  intro cur
  induction cur with
  | nil => intro _; rfl
  | cons x xs ih =>
    intro h
    have hx : x ≠ sep := fun e => h (by rw [e]; exact List.mem_cons_self ..)
    rw [Proxy.splitOn, if_neg hx, ih (fun m => h (List.mem_cons_of_mem _ m))]

theorem splitOn_append_sep (sep : UInt8) (rest : Bytes) : ∀ cur : Bytes, sep ∉ cur →
    Proxy.splitOn sep (cur ++ sep :: rest) = cur :: Proxy.splitOn sep rest := by
  intro cur
  induction cur with
  | nil => intro _; simp [Proxy.splitOn]
  | cons x xs ih =>
    intro h
    have hx : x ≠ sep := fun e => h (by rw [e]; exact List.mem_cons_self ..)
    rw [List.cons_append, Proxy.splitOn, if_neg hx, ih (fun m => h (List.mem_cons_of_mem _ m))]

theorem tail_mono (x : UInt8) (xs : Bytes) (h : [] ∈ (Proxy.splitOn 47 xs).tail) :
    [] ∈ (Proxy.splitOn 47 (x :: xs)).tail := by
  rw [Proxy.splitOn]
  by_cases hx : x = 47
  · rw [if_pos hx]
    exact List.mem_of_mem_tail h
  · rw [if_neg hx]
    cases hs : Proxy.splitOn 47 xs with
    | nil => rw [hs] at h; cases h
    | cons a t => rw [hs] at h; exact h

/-- a double slash gives an empty element -/
theorem dslash_splitOn : ∀ path : Bytes, GoLib.contains path [47, 47] = true → [] ∈ (Proxy.splitOn 47 path).tail := by
  intro path
  induction path with
  | nil => intro h; simp [GoLib.contains, GoLib.index] at h
  | cons x xs ih =>
    intro h
    unfold GoLib.contains at h
    rw [GoLib.index] at h
    by_cases hp : GoLib.hasPrefix (x :: xs) [47, 47] = true
    · simp only [GoLib.hasPrefix, List.length_cons, List.length_nil, beq_iff_eq] at hp
      cases xs with
      | nil => simp at hp
      | cons y ys =>
        simp at hp
        obtain ⟨rfl, rfl⟩ := hp
        simp [Proxy.splitOn]
    · have hp' : GoLib.hasPrefix (x :: xs) [47, 47] = false := by simpa using hp
      rw [hp'] at h
      simp only [Bool.false_eq_true, if_false] at h
      apply tail_mono
      apply ih
      unfold GoLib.contains
      by_cases hr : GoLib.index xs [47, 47] < 0
      · simp [hr] at h
      · simp; omega

/-- a trailing slash gives an empty element -/
theorem last_sep_splitOn : ∀ path : Bytes, path.getLast? = some 47 → [] ∈ (Proxy.splitOn 47 path).tail := by
  intro path
  induction path with
  | nil => intro h; simp at h
  | cons x xs ih =>
    intro h
    cases xs with
    | nil =>
      simp at h
      subst h
      simp [Proxy.splitOn]
    | cons y ys =>
      apply tail_mono
      apply ih
      simpa [List.getLast?_cons_cons] using h

theorem mem_splitOn : ∀ (path : Bytes) (c : UInt8), c ∈ path → c = 47 ∨ ∃ e ∈ Proxy.splitOn 47 path, c ∈ e := by
  intro path
  induction path with
  | nil => intro c h; cases h
  | cons x xs ih =>
    intro c h
    rw [Proxy.splitOn]
    by_cases hx : x = 47
    · rw [if_pos hx]
      rcases List.mem_cons.1 h with rfl | h
      · exact Or.inl hx
      · rcases ih c h with h | ⟨e, he, hc⟩
        · exact Or.inl h
        · exact Or.inr ⟨e, List.mem_cons_of_mem _ he, hc⟩
    · rw [if_neg hx]
      cases hs : Proxy.splitOn 47 xs with
      | nil =>
        rcases List.mem_cons.1 h with rfl | h
        · exact Or.inr ⟨[c], by simp, by simp⟩
        · rcases ih c h with h | ⟨e, he, hc⟩
          · exact Or.inl h
          · rw [hs] at he; cases he
      | cons a t =>
        rcases List.mem_cons.1 h with rfl | h
        · exact Or.inr ⟨c :: a, by simp, by simp⟩
        · rcases ih c h with h | ⟨e, he, hc⟩
          · exact Or.inl h
          · rw [hs] at he
            rcases List.mem_cons.1 he with rfl | he
            · exact Or.inr ⟨x :: e, by simp, List.mem_cons_of_mem _ hc⟩
            · exact Or.inr ⟨e, by simp [he], hc⟩

/-! ### utf8.ValidString -/

theorem utf8Valid_of_ascii : ∀ (n : Nat) (s : Bytes), s.length ≤ n → Ascii s → GoLib.utf8ValidAux n s = true := by
  intro n
  induction n with
  | zero => intro s hs _; cases s with
    | nil => rfl
    | cons x xs => simp at hs
  | succ n ih =>
    intro s hs ha
    cases s with
    | nil => rfl
    | cons x xs =>
      rw [GoLib.utf8ValidAux, if_pos ha.head]
      exact ih xs (by simp at hs; omega) ha.tail

theorem checkPathElems_ascii {path : Bytes} (h : (Proxy.splitOn 47 path).all (Proxy.checkElem .modulePath) = true) :
    Ascii path := by
  intro c hc
  rcases mem_splitOn path c hc with rfl | ⟨e, he, hce⟩
  · decide
  · have h1 := List.all_eq_true.1 h e he
    have h4 : e.all (Proxy.charOK .modulePath) = true := by
      simp only [Proxy.checkElem, Bool.and_eq_true] at h1
      exact h1.1.2
    exact ascii_of_all_modPathOK h4 c hce

theorem all_false_of_nil_mem {l : List Bytes} (h : [] ∈ l) : l.all (Proxy.checkElem .modulePath) = false := by
  cases hh : l.all (Proxy.checkElem .modulePath) with
  | false => rfl
  | true =>
    have := List.all_eq_true.1 hh [] h
    simp [Proxy.checkElem] at this

/-! ### checkPath: the element loop -/

theorem eq47 (b : UInt8) : (((b.toNat : Int)) == 47) = (b == 47) := by
  by_cases h : b = 47
  · subst h; rfl
  · have h1 : (b == 47) = false := by simpa using h
    have h2 : b.toNat ≠ 47 := fun hh => h (UInt8.toNat_inj.1 (by rw [hh]; rfl))
    rw [h1]
    have : ¬ ((b.toNat : Int) = 47) := by omega
    simpa using this

/-- one step of `for i, r := range s`, as far as a loop that looks for '/' is concerned -/
theorem runesFrom_step (n : Nat) (off : Int) (b : UInt8) (rest : Bytes) :
    ∃ (r : Int) (w : Nat), runesFrom (n + 1) off (b :: rest) = (off, r) :: runesFrom n (off + (w : Int)) ((b :: rest).drop w) ∧
      1 ≤ w ∧ w ≤ rest.length + 1 ∧ ((r == 47) = (b == 47)) ∧ (b = 47 → w = 1) ∧
      (b ≠ 47 → ∀ c ∈ (b :: rest).take w, c ≠ 47) := by
  by_cases hb : b < 0x80
  · refine ⟨(b.toNat : Int), 1, by rw [runesFrom_ascii n off rest hb]; rfl, by omega, by omega, eq47 b, fun _ => rfl, ?_⟩
    intro hne c hc
    simp at hc
    subst hc; exact hne
  · obtain ⟨h1, h2, h3, h4⟩ := decodeRune_multi rest hb
    have hb128 := not_lt_128 hb
    have hbne : b ≠ 47 := by
      intro e; subst e
      have : (47 : UInt8).toNat = 47 := rfl
      omega
    refine ⟨(decodeRune (b :: rest)).1, (decodeRune (b :: rest)).2, ?_, h2, h3, ?_, fun e => absurd e hbne, ?_⟩
    · simp only [runesFrom]
      congr 2
      cases hw : (decodeRune (b :: rest)).2 with
      | zero => rw [hw] at h2; omega
      | succ k => simp
    · have : (b == 47) = false := by simpa using hbne
      rw [this]
      have : ¬ ((decodeRune (b :: rest)).1 = 47) := by omega
      simpa using this
    · intro _ c hc e
      have := h4 c hc
      subst e
      have : (47 : UInt8).toNat = 47 := rfl
      omega

theorem checkPath_after1_eq (u : Unicode) (hu : FoldOK u) (path : Bytes) (es : Nat) (h : es ≤ path.length) :
    (GIV.Go.Module.checkPath_after1 u path 0 (es : Int)).map Option.isNone =
      some (Proxy.checkElem .modulePath (path.drop es)) := by
  unfold GIV.Go.Module.checkPath_after1
  rw [slice_to_end path es h]
  have := checkElem_k0 u hu (path.drop es)
  cases hc : GIV.Go.Module.checkElem u (path.drop es) 0 with
  | none => rw [hc] at this; cases this
  | some e =>
    rw [hc] at this
    simp only [Option.map_some, Option.some.injEq] at this
    rw [← this]
    simp only [Option.pure_def, Option.bind_eq_bind, Option.bind_some, hc]
    cases e <;> rfl

theorem checkPath_loop_eq (u : Unicode) (hu : FoldOK u) (path : Bytes) : ∀ (n : Nat) (pre s : Bytes) (es : Nat),
    path = pre ++ s → s.length ≤ n → es ≤ pre.length → 47 ∉ pre.drop es →
    (GIV.Go.Module.checkPath_loop1 u path 0 (runesFrom n (pre.length : Int) s) (es : Int)).map Option.isNone =
      some ((Proxy.splitOn 47 (pre.drop es ++ s)).all (Proxy.checkElem .modulePath)) := by
  intro n
  induction n with
  | zero =>
    intro pre s es hp hs he hn
    have : s = [] := by cases s <;> simp_all
    subst this
    simp only [List.append_nil] at hp
    subst hp
    simp only [runesFrom, GIV.Go.Module.checkPath_loop1, List.append_nil]
    rw [checkPath_after1_eq u hu _ es he, splitOn_nosep 47 _ hn]
    simp
  | succ n ih =>
    intro pre s es hp hs he hn
    cases s with
    | nil =>
      simp only [List.append_nil] at hp
      subst hp
      simp only [runesFrom, GIV.Go.Module.checkPath_loop1, List.append_nil]
      rw [checkPath_after1_eq u hu _ es he, splitOn_nosep 47 _ hn]
      simp
    | cons b rest =>
      obtain ⟨r, w, hstep, hw1, hw2, hr, hb1, hb2⟩ := runesFrom_step n (pre.length : Int) b rest
      rw [hstep, GIV.Go.Module.checkPath_loop1, hr]
      by_cases hb : b = 47
      · subst hb
        have hw : w = 1 := hb1 rfl
        subst hw
        simp only [beq_self_eq_true, if_true]
        have hsl : GoLib.slice? path (es : Int) (pre.length : Int) = some (pre.drop es) := by
          rw [slice_nat path es pre.length he (by rw [hp]; simp), hp]
          simp
        rw [hsl]
        simp only [Option.pure_def, Option.bind_eq_bind, Option.bind_some]
        rw [splitOn_append_sep 47 rest _ hn, List.all_cons]
        have hk := checkElem_k0 u hu (pre.drop es)
        cases hc : GIV.Go.Module.checkElem u (pre.drop es) 0 with
        | none => rw [hc] at hk; cases hk
        | some e =>
          rw [hc] at hk
          simp only [Option.map_some, Option.some.injEq] at hk
          rw [← hk]
          cases e with
          | some m => rfl
          | none =>
            simp only [Option.bind_some, Option.isNone_none, Bool.true_and]
            have := ih (pre ++ [47]) rest (pre.length + 1) (by rw [hp]; simp) (by simp at hs; omega) (by simp)
              (by simp)
            simp only [List.length_append, List.length_singleton, List.drop_left', List.nil_append] at this
            rw [show ((pre.length : Int) + ((1 : Nat) : Int)) = ((pre.length + 1 : Nat) : Int) from by omega]
            rw [show (((pre.length : Nat) : Int) + 1) = ((pre.length + 1 : Nat) : Int) from by omega]
            have hd : (pre ++ [47]).drop (pre.length + 1) = [] := by simp
            rw [hd] at this
            simpa using this
      · have hb' : (b == 47) = false := by simpa using hb
        simp only [hb', Bool.false_eq_true, if_false]
        have hlen : ((b :: rest).take w).length = w := by simp; omega
        have := ih (pre ++ (b :: rest).take w) ((b :: rest).drop w) es
          (by rw [hp, List.append_assoc, List.take_append_drop])
          (by simp at hs ⊢; omega) (by simp; omega)
          (by
            rw [List.drop_append_of_le_length he]
            intro hm
            rcases List.mem_append.1 hm with hm | hm
            · exact hn hm
            · exact hb2 hb 47 hm rfl)
        rw [List.length_append, hlen, List.drop_append_of_le_length he, List.append_assoc,
          List.take_append_drop] at this
        rw [show ((pre.length : Int) + (w : Int)) = ((pre.length + w : Nat) : Int) from by omega]
        exact this

/-- `checkPath(path, modulePath)`: the UTF-8, double-slash and trailing-slash tests are implied by the element
tests of the model (an element with a byte ≥ 128, an empty element) -/
theorem checkPath_eq (u : Unicode) (hu : FoldOK u) (path : Bytes) :
    (GIV.Go.Module.checkPath u path 0).map Option.isNone = some (Proxy.checkPathElems path) := by
  have hloop := checkPath_loop_eq u hu path path.length [] path 0 rfl (Nat.le_refl _) (Nat.zero_le _) (by simp)
  simp only [List.length_nil, List.drop_nil, List.nil_append] at hloop
  rw [show (((0 : Nat) : Int)) = 0 from rfl] at hloop
  unfold GIV.Go.Module.checkPath
  by_cases hv : GoLib.utf8Valid path = true
  · simp only [hv, Bool.not_true, Bool.false_eq_true, if_false]
    cases path with
    | nil => rfl
    | cons c rest =>
      simp only [show ((c :: rest) == ([] : Bytes)) = false from rfl, Bool.false_eq_true, if_false, idx_zero,
        List.head?_cons, Option.pure_def, Option.bind_eq_bind, Option.bind_some,
        show ((0 : Int) != 2) = true from rfl, Bool.and_true]
      by_cases h1 : c = 45
      · subst h1; simp [Proxy.checkPathElems]
      · have h1' : (c == 45) = false := by simpa using h1
        simp only [h1', Bool.false_eq_true, if_false]
        have hm : Proxy.checkPathElems (c :: rest) = (Proxy.splitOn 47 (c :: rest)).all (Proxy.checkElem .modulePath) := by
          simp [Proxy.checkPathElems, h1]
        rw [hm]
        by_cases h2 : GoLib.contains (c :: rest) [47, 47] = true
        · rw [h2, all_false_of_nil_mem (List.mem_of_mem_tail (dslash_splitOn _ h2))]
          rfl
        · have h2' : GoLib.contains (c :: rest) [47, 47] = false := by simpa using h2
          simp only [h2', Bool.false_eq_true, if_false]
          rw [getLast?_eq_idx (c :: rest) (by simp)]
          cases hl : (c :: rest).getLast? with
          | none => simp at hl
          | some z =>
            simp only [Option.bind_some]
            by_cases h3 : z = 47
            · subst h3
              rw [all_false_of_nil_mem (List.mem_of_mem_tail (last_sep_splitOn _ hl))]
              rfl
            · have h3' : (z == 47) = false := by simpa using h3
              simp only [h3', Bool.false_eq_true, if_false]
              exact hloop
  · have hv' : GoLib.utf8Valid path = false := by simpa using hv
    simp only [hv', Bool.not_false, if_true]
    have : (Proxy.splitOn 47 path).all (Proxy.checkElem .modulePath) = false := by
      cases hh : (Proxy.splitOn 47 path).all (Proxy.checkElem .modulePath) with
      | false => rfl
      | true =>
        have := utf8Valid_of_ascii path.length path (Nat.le_refl _) (checkPathElems_ascii hh)
        unfold GoLib.utf8Valid at hv'
        rw [this] at hv'; cases hv'
    simp [Proxy.checkPathElems, this]

/-! ### CheckPath -/

theorem firstLoop_eq (u : Unicode) (path : Bytes) (err : GoError) (i : Int) : ∀ l : List Int,
    (l.all firstPathOKI = true → GIV.Go.Module.CheckPath_loop1 u path err i l = GIV.Go.Module.CheckPath_after1 u path err i) ∧
    (l.all firstPathOKI = false → IsErr (GIV.Go.Module.CheckPath_loop1 u path err i l)) := by
  intro l
  induction l with
  | nil => simp [GIV.Go.Module.CheckPath_loop1]
  | cons r rest ih =>
    rw [GIV.Go.Module.CheckPath_loop1]
    simp only [firstPathOK_go, Option.pure_def, Option.bind_eq_bind, Option.bind_some]
    by_cases h : firstPathOKI r = true
    · simp only [h, Bool.not_true, Bool.false_eq_true, if_false, List.all_cons, Bool.true_and]
      exact ih
    · have h' : firstPathOKI r = false := by simpa using h
      refine ⟨fun hh => ?_, fun _ => ?_⟩
      · simp [h'] at hh
      · simp only [h', Bool.not_false, if_true]
        exact ⟨_, rfl⟩

theorem CheckPath_after1_eq (u : Unicode) (path : Bytes) (err : GoError) (i : Int) :
    (GIV.Go.Module.CheckPath_after1 u path err i).map Option.isNone = some (Proxy.splitPathVersion path).2.2 := by
  unfold GIV.Go.Module.CheckPath_after1
  rw [SplitPathVersion_eq]
  simp only [Option.pure_def, Option.bind_eq_bind, Option.bind_some]
  cases (Proxy.splitPathVersion path).2.2 <;> rfl

/-- `module.CheckPath` -/
theorem CheckPath_eq (u : Unicode) (hu : FoldOK u) (path : Bytes) :
    (GIV.Go.Module.CheckPath u path).map Option.isNone = some (Proxy.checkPath path) := by
  unfold GIV.Go.Module.CheckPath Proxy.checkPath
  have hcp := checkPath_eq u hu path
  cases hc : GIV.Go.Module.checkPath u path 0 with
  | none => rw [hc] at hcp; cases hcp
  | some e =>
    rw [hc] at hcp
    simp only [Option.map_some, Option.some.injEq] at hcp
    simp only [Option.pure_def, Option.bind_eq_bind, Option.bind_some]
    cases e with
    | some m =>
      rw [← hcp]
      rfl
    | none =>
      rw [← hcp]
      simp only [Option.isNone_none, Bool.true_and, show ((none : GoError) != none) = false from rfl,
        Bool.false_eq_true, if_false]
      have hne : path ≠ [] := by
        intro e; subst e
        simp [Proxy.checkPathElems] at hcp
      have hhead : path.head? ≠ some 45 := by
        simp only [Proxy.checkPathElems] at hcp
        intro e
        rw [e] at hcp
        simp at hcp
      rw [index_single]
      -- the first element
      have hfirst : ∀ (i : Nat), i ≤ path.length → path.take i = path.takeWhile (· ≠ 47) → i = (path.takeWhile (· ≠ 47)).length →
          Option.map Option.isNone (if ((i : Int) == 0) = true then
              (do
                let err : GoError := (some ([108, 101, 97, 100, 105, 110, 103, 32, 115, 108, 97, 115, 104] : Bytes) : GoError)
                let err ← (show Option (GoError) from if err != none then do
                    let err : GoError := (some [73, 110, 118, 97, 108, 105, 100, 80, 97, 116, 104, 69, 114, 114, 111, 114] : GoError)
                    pure err
                  else do
                    pure err)
                pure err)
            else
              (do
                let t2 ← GoLib.slice? path 0 (i : Int)
                if !(GoLib.contains t2 ([46] : Bytes)) then do
                  let err : GoError := (some ([109, 105, 115, 115, 105, 110, 103, 32, 100, 111, 116, 32, 105, 110, 32, 102, 105, 114, 115, 116, 32, 112, 97, 116, 104, 32, 101, 108, 101, 109, 101, 110, 116] : Bytes) : GoError)
                  let err ← (show Option (GoError) from if err != none then do
                      let err : GoError := (some [73, 110, 118, 97, 108, 105, 100, 80, 97, 116, 104, 69, 114, 114, 111, 114] : GoError)
                      pure err
                    else do
                      pure err)
                  pure err
                else
                let t3 ← GoLib.idx? path 0
                if t3 == 45 then do
                  let err : GoError := (some ([108, 101, 97, 100, 105, 110, 103, 32, 100, 97, 115, 104, 32, 105, 110, 32, 102, 105, 114, 115, 116, 32, 112, 97, 116, 104, 32, 101, 108, 101, 109, 101, 110, 116] : Bytes) : GoError)
                  let err ← (show Option (GoError) from if err != none then do
                      let err : GoError := (some [73, 110, 118, 97, 108, 105, 100, 80, 97, 116, 104, 69, 114, 114, 111, 114] : GoError)
                      pure err
                    else do
                      pure err)
                  pure err
                else
                let t4 ← GoLib.slice? path 0 (i : Int)
                GIV.Go.Module.CheckPath_loop1 u path none (i : Int) (GoLib.runes t4))) =
            some ((!(path.takeWhile (· ≠ 47)).isEmpty && (path.takeWhile (· ≠ 47)).contains 46 &&
              (path.takeWhile (· ≠ 47)).all Proxy.firstPathOK) && (Proxy.splitPathVersion path).2.2) := by
        intro i hi htake hlen
        by_cases h0 : i = 0
        · subst h0
          have : path.takeWhile (· ≠ 47) = [] := by
            have := List.eq_nil_of_length_eq_zero hlen.symm
            exact this
          rw [this]
          rfl
        · have h0' : ((i : Int) == 0) = false := by
            have : ¬ ((i : Int) = 0) := by omega
            simpa using this
          simp only [h0', Bool.false_eq_true, if_false, slice_zero path i hi, htake, Option.pure_def,
            Option.bind_eq_bind, Option.bind_some, contains_single, idx_zero]
          have hne' : (path.takeWhile (· ≠ 47)).isEmpty = false := by
            cases hh : path.takeWhile (· ≠ 47) with
            | nil => rw [hh] at hlen; simp at hlen; omega
            | cons a b => rfl
          rw [hne']
          by_cases hdot : (path.takeWhile (· ≠ 47)).contains 46 = true
          · rw [hdot]
            simp only [Bool.not_true, Bool.false_eq_true, if_false, Bool.not_false, Bool.true_and]
            cases hh : path.head? with
            | none => cases path <;> simp_all
            | some c =>
              simp only [Option.bind_some]
              have hc45 : (c == 45) = false := by
                have : c ≠ 45 := by intro e; apply hhead; rw [hh, e]
                simpa using this
              simp only [hc45, Bool.false_eq_true, if_false]
              have hall : (runes (path.takeWhile (· ≠ 47))).all firstPathOKI = (path.takeWhile (· ≠ 47)).all Proxy.firstPathOK :=
                runes_all firstPathOKI Proxy.firstPathOK (fun c _ => firstPathOKI_byte c) firstPathOKI_hi firstPathOK_hi _
              obtain ⟨l1, l2⟩ := firstLoop_eq u path none (i : Int) (runes (path.takeWhile (· ≠ 47)))
              by_cases hf : (path.takeWhile (· ≠ 47)).all Proxy.firstPathOK = true
              · rw [l1 (by rw [hall, hf]), hf, CheckPath_after1_eq]
                simp
              · have hf' : (path.takeWhile (· ≠ 47)).all Proxy.firstPathOK = false := by simpa using hf
                rw [(l2 (by rw [hall, hf'])).map, hf']
                simp
          · have hdot' : (path.takeWhile (· ≠ 47)).contains 46 = false := by simpa using hdot
            rw [hdot']
            rfl
      by_cases hm : (47 : UInt8) ∈ path
      · simp only [hm, if_true]
        have hle : (path.takeWhile (· ≠ 47)).length ≤ path.length := by
          have := scan_le (· ≠ 47) path 0 (Nat.zero_le _)
          rwa [scan_zero] at this
        have hneg : ¬ (((path.takeWhile (· ≠ 47)).length : Int) < 0) := by omega
        simp only [hneg, decide_false, Bool.false_eq_true, if_false]
        exact hfirst _ hle (take_takeWhile_length _ _) rfl
      · simp only [hm, if_false, show decide ((-1 : Int) < 0) = true from rfl, if_true]
        have htw := takeWhile_ne_of_not_mem 47 path hm
        have := hfirst path.length (Nat.le_refl _) (by rw [htw, List.take_of_length_le (Nat.le_refl _)]) (by rw [htw])
        unfold GoLib.len
        exact this

/-- from the nil-ness statement to the value -/
theorem of_map_isNone {x : Option GoError} {b : Bool} (h : x.map Option.isNone = some b) :
    ∃ e, x = some e ∧ e.isNone = b := by
  cases x with
  | none => cases h
  | some e => exact ⟨e, rfl, by simpa using h⟩

theorem ne_none_eq (e : GoError) : (e != none) = !e.isNone := by cases e <;> rfl

/-! ### Check -/

/-- `module.Check` -/
theorem Check_eq (u : Unicode) (hu : FoldOK u) (path version : Bytes) :
    (GIV.Go.Module.Check u path version).map Option.isNone = some (Proxy.check path version) := by
  unfold GIV.Go.Module.Check Proxy.check
  obtain ⟨e1, h1, b1⟩ := of_map_isNone (CheckPath_eq u hu path)
  obtain ⟨e2, h2, b2⟩ := of_map_isNone (CheckPathMajor_eq u version (Proxy.splitPathVersion path).2.1)
  simp only [h1, IsValid_eq, SplitPathVersion_eq, Option.pure_def, Option.bind_eq_bind, Option.bind_some, ne_none_eq,
    h2]
  rw [← b1, ← b2]
  cases e1 <;> cases Proxy.semverIsValid version <;> cases e2 <;> rfl

/-! ### the escape codecs -/

theorem okOf_err (p : Bytes) (m : Bytes) : okOf (p, some m) = none := rfl
theorem okOf_ok (p : Bytes) : okOf (p, none) = some p := rfl

/-- `module.UnescapePath` -/
theorem UnescapePath_eq (u : Unicode) (hu : FoldOK u) (e : Bytes) :
    (GIV.Go.Module.UnescapePath u e).map okOf = some (Proxy.unescapePath e) := by
  unfold GIV.Go.Module.UnescapePath Proxy.unescapePath
  rw [unescapeString_eq]
  cases hs : Proxy.unescapeString e with
  | none => rfl
  | some p =>
    obtain ⟨e1, h1, b1⟩ := of_map_isNone (CheckPath_eq u hu p)
    simp only [Option.pure_def, Option.bind_eq_bind, Option.bind_some, Bool.not_true, Bool.false_eq_true, if_false,
      h1, ne_none_eq]
    rw [← b1]
    cases e1 <;> rfl

/-- `module.UnescapeVersion` -/
theorem UnescapeVersion_eq (u : Unicode) (hu : FoldOK u) (e : Bytes) :
    (GIV.Go.Module.UnescapeVersion u e).map okOf = some (Proxy.unescapeVersion e) := by
  unfold GIV.Go.Module.UnescapeVersion Proxy.unescapeVersion
  rw [unescapeString_eq]
  cases hs : Proxy.unescapeString e with
  | none => rfl
  | some v =>
    obtain ⟨e1, h1, b1⟩ := of_map_isNone (checkElem_k2 u hu v (unescapeString_ascii hs))
    simp only [Option.pure_def, Option.bind_eq_bind, Option.bind_some, Bool.not_true, Bool.false_eq_true, if_false,
      h1, ne_none_eq]
    rw [← b1]
    cases e1 <;> rfl

/-- `module.EscapePath` -/
theorem EscapePath_eq (u : Unicode) (hu : FoldOK u) (p : Bytes) :
    (GIV.Go.Module.EscapePath u p).map okOf = some (Proxy.escapePath p) := by
  unfold GIV.Go.Module.EscapePath Proxy.escapePath
  obtain ⟨e1, h1, b1⟩ := of_map_isNone (CheckPath_eq u hu p)
  simp only [Option.pure_def, Option.bind_eq_bind, Option.bind_some, h1, ne_none_eq]
  rw [← b1]
  cases e1 with
  | some m => rfl
  | none =>
    simp only [Option.isNone_none, Bool.not_true, Bool.false_eq_true, if_false, if_true]
    have := escapeString_eq u p
    cases he : GIV.Go.Module.escapeString u p with
    | none => rw [he] at this; cases this
    | some r => rw [he] at this; simpa using this

theorem any_bad_of_not_ascii {v : Bytes} (h : ¬ Ascii v) : v.any (fun c => c = 33 || c ≥ 128) = true := by
  cases hh : v.any (fun c => c = 33 || c ≥ 128) with
  | true => rfl
  | false =>
    exfalso
    apply h
    intro c hc
    have := List.any_eq_false.1 hh c hc
    simp only [Bool.or_eq_true, decide_eq_true_eq, not_or] at this
    have h2 := this.2
    rw [ge_iff_le, u8_le] at h2
    have : (128 : UInt8).toNat = 128 := rfl
    omega

/-- `module.EscapeVersion`, for every string: on a string with a byte ≥ 128 Go's `checkElem(v, filePath)` may accept
what the model's rejects (a Unicode letter), but then `escapeString` fails -/
theorem EscapeVersion_eq (u : Unicode) (hu : FoldOK u) (v : Bytes) :
    (GIV.Go.Module.EscapeVersion u v).map okOf = some (Proxy.escapeVersion v) := by
  unfold GIV.Go.Module.EscapeVersion Proxy.escapeVersion
  by_cases ha : Ascii v
  · obtain ⟨e1, h1, b1⟩ := of_map_isNone (checkElem_k2 u hu v ha)
    simp only [Option.pure_def, Option.bind_eq_bind, Option.bind_some, h1, ne_none_eq, contains_single]
    rw [← b1]
    cases e1 with
    | some m => rfl
    | none =>
      simp only [Option.isNone_none, Bool.not_true, Bool.false_or, Bool.true_and]
      by_cases hb : v.contains 33 = true
      · rw [hb]; rfl
      · have hb' : v.contains 33 = false := by simpa using hb
        simp only [hb', Bool.false_eq_true, if_false, Bool.not_false, if_true]
        have := escapeString_eq u v
        cases he : GIV.Go.Module.escapeString u v with
        | none => rw [he] at this; cases this
        | some r => rw [he] at this; simpa using this
  · -- the model rejects; Go rejects in checkElem, at the '!' test, or in escapeString
    have hm : (if (Proxy.checkElem .filePath v && !v.contains 33) = true then Proxy.escapeString v else none) = none := by
      have : Proxy.escapeString v = none := by
        unfold Proxy.escapeString
        rw [any_bad_of_not_ascii ha]; rfl
      rw [this]; simp
    rw [hm]
    obtain ⟨e1, h1⟩ := checkElem_k2_total u v
    simp only [Option.pure_def, Option.bind_eq_bind, Option.bind_some, h1, ne_none_eq, contains_single]
    by_cases hc : (!e1.isNone || v.contains 33) = true
    · rw [hc]; rfl
    · have hc' : (!e1.isNone || v.contains 33) = false := by simpa using hc
      simp only [hc', Bool.false_eq_true, if_false]
      have := escapeString_eq u v
      have hn : Proxy.escapeString v = none := by
        unfold Proxy.escapeString
        rw [any_bad_of_not_ascii ha]; rfl
      rw [hn] at this
      cases he : GIV.Go.Module.escapeString u v with
      | none => rw [he] at this; cases this
      | some r => rw [he] at this; simpa using this

end GIV.ModuleGo
