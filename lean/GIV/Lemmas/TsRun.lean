/-
  GIV.Lemmas.TsRun — lemmas about the script-loop skeleton (GIV.Model.Script) used by GIV.Props.C01.
  The regenerated facts enter only through the hypotheses `LoopFacts` / `LineFacts` / `CliFacts`
  (discharged by `rfl` in the Props file, so that a changed fact fails there, at a named theorem).
-/
import GIV.Model.Script

namespace GIV.TsRun
open GIV

variable {σ : Type}

/-- the shape of the loop of `run` -/
structure LoopFacts : Prop where
  lineno : Gen.TsRun.linenoBeforeComment = true
  setsFailed : Gen.TsRun.setsTsFailed = true
  failNowInElse : Gen.TsRun.failNowInElse = true
  stoppedBreaks : Gen.TsRun.stoppedBreaks = true
  finalFailNow : Gen.TsRun.finalFailNow = true

/-- the shape of `runLine` -/
structure LineFacts : Prop where
  blankLineOk : Gen.TsRun.blankLineOk = true
  guardIsBracketed : Gen.TsRun.guardIsBracketed = true
  missingCmdBeforeCond : Gen.TsRun.missingCmdBeforeCond = true
  bangNegatesCond : Gen.TsRun.bangNegatesCond = true
  guardSkipsOnNe : Gen.TsRun.guardSkipsOnNe = true
  condErrorFatal : Gen.TsRun.condErrorFatal = true
  bangSetsNeg : Gen.TsRun.bangSetsNeg = true
  builtinBeforeCustom : Gen.TsRun.builtinBeforeCustom = true
  unknownCmdFatal : Gen.TsRun.unknownCmdFatal = true
  cmdGetsNegAndRest : Gen.TsRun.cmdGetsNegAndRest = true
  runLineCatchesFailNow : Gen.TsRun.runLineCatchesFailNow = true
  fatalfPanicsFailNow : Gen.TsRun.fatalfPanicsFailNow = true

/-- cmd/testscript -/
structure CliFacts : Prop where
  skipNotFailure : Gen.TsRun.cliSkipNotFailure = true
  failSetsFailed : Gen.TsRun.cliFailSetsFailed = true
  failedExit : Gen.TsRun.cliFailedExit = 1

/-! ### the loop, one line at a time -/

@[simp] theorem ok_beq_fatal : (Outcome.ok == Outcome.fatal) = false := by decide
@[simp] theorem fatal_beq_fatal : (Outcome.fatal == Outcome.fatal) = true := by decide

theorem endVerdict_false : endVerdict false = .pass := by simp [endVerdict]

theorem endVerdict_true (F : LoopFacts) : endVerdict true = .fail := by simp [endVerdict, F.finalFailNow]

theorem stopOnFail_eq (F : LoopFacts) (c : Config σ) : stopOnFail c = !c.continueOnError := by
  simp [stopOnFail, F.failNowInElse]

/-- What the loop does with the head line, in terms of `lineOut`. -/
theorem runLines_cons (F : LoopFacts) (c : Config σ) (l : Bytes) (ls : List Bytes) (n : Nat) (failed : Bool) (s : σ) :
    runLines c (l :: ls) n failed s =
      match (lineOut c failed s l).out with
      | .ok =>
        let rest := runLines c ls (n + 1) failed (lineOut c failed s l).state
        ⟨rest.verdict, rest.state, rest.reported, callsOf (n + 1) (lineOut c failed s l) ++ rest.calls, rest.lineno⟩
      | .stop => ⟨endVerdict failed, (lineOut c failed s l).state, none, callsOf (n + 1) (lineOut c failed s l), n + 1⟩
      | .fatal =>
        if c.continueOnError then
          let rest := runLines c ls (n + 1) true (lineOut c failed s l).state
          ⟨rest.verdict, rest.state, some (n + 1), callsOf (n + 1) (lineOut c failed s l) ++ rest.calls, rest.lineno⟩
        else ⟨.fail, (lineOut c failed s l).state, some (n + 1), callsOf (n + 1) (lineOut c failed s l), n + 1⟩
      | .skip => ⟨.skip, (lineOut c failed s l).state, none, callsOf (n + 1) (lineOut c failed s l), n + 1⟩
      | .failNow => ⟨.fail, (lineOut c failed s l).state, none, callsOf (n + 1) (lineOut c failed s l), n + 1⟩
      | .crash => ⟨.crash, (lineOut c failed s l).state, none, callsOf (n + 1) (lineOut c failed s l), n + 1⟩ := by
  have hf : (Gen.TsRun.setsTsFailed && failed) = failed := by simp [F.setsFailed]
  by_cases hc : isComment l = true
  · simp [runLines, lineOut, hc, F.lineno, callsOf]
  · simp only [runLines, lineOut, hc, hf, stopOnFail_eq F, F.stoppedBreaks]
    cases h : (runLine c failed s l).out <;> simp [h]
    cases c.continueOnError <;> simp

/-! ### facts-free: lines that all end ok give `pass`, whatever the loop's other branches do -/

/-- No regenerated fact is involved: with `failed = false` an `ok` line only ever continues, a '#'
line only ever continues, and the end of the script is `pass`. (Used by C16, which must not depend
on the shape of the failure handling.) -/
theorem runLines_okFold_pass (c : Config σ) (ls : List Bytes) :
    ∀ (n : Nat) (s s' : σ), okFold c s ls = some s' → (runLines c ls n false s).verdict = .pass := by
  induction ls with
  | nil => intro n s s' _; simp [runLines, endVerdict]
  | cons l ls ih =>
    intro n s s' h
    simp only [okFold] at h
    split at h
    · rename_i hok
      unfold runLines
      by_cases hc : isComment l = true
      · simp only [hc, if_true]
        simp only [lineOut, hc, if_true] at h
        exact ih _ _ _ h
      · have hc' : isComment l = false := by simpa using hc
        simp only [lineOut, hc', Bool.false_eq_true, if_false] at hok h
        simp only [hc', Bool.false_eq_true, if_false, Bool.and_false, hok]
        exact ih _ _ _ h
    · simp at h

/-- `lookup` finds a command in one of the two tables, whatever their order. -/
theorem lookup_cases (c : Config σ) (name : Bytes) (f : Cmd σ) (h : lookup c name = some f) :
    c.builtin name = some f ∨ c.custom name = some f := by
  unfold lookup at h
  split at h
  · split at h
    · rename_i g hg; simp at h; subst h; exact Or.inl hg
    · exact Or.inr h
  · split at h
    · rename_i g hg; simp at h; subst h; exact Or.inr hg
    · exact Or.inl h

/-! ### once a line has failed the verdict is never pass -/

theorem runLines_failed_not_pass (F : LoopFacts) (c : Config σ) (ls : List Bytes) :
    ∀ (n : Nat) (s : σ), (runLines c ls n true s).verdict ≠ .pass := by
  induction ls with
  | nil => intro n s; simp [runLines, endVerdict_true F]
  | cons l ls ih =>
    intro n s
    rw [runLines_cons F]
    cases h : (lineOut c true s l).out <;> simp [endVerdict_true F]
    · exact ih _ _
    · cases c.continueOnError <;> simp
      exact ih _ _

/-! ### a prefix of lines that all end ok -/

theorem callsOf_lineno {n : Nat} {r : LineRes σ} {k : Call} (h : k ∈ callsOf n r) : k.lineno = n := by
  unfold callsOf at h
  split at h
  · simp at h
  · simp at h; rw [h]

theorem foldCalls_lineno (c : Config σ) (pre : List Bytes) :
    ∀ (failed : Bool) (s : σ) (n : Nat) (k : Call), k ∈ foldCalls c failed s n pre →
      n < k.lineno ∧ k.lineno ≤ n + pre.length := by
  induction pre with
  | nil => intro failed s n k h; simp [foldCalls] at h
  | cons l ls ih =>
    intro failed s n k h
    simp only [foldCalls, List.mem_append] at h
    rcases h with h | h
    · have := callsOf_lineno h
      simp [this]
    · have := ih _ _ _ _ h
      simp only [List.length_cons]
      omega

/-- Lines that all end `ok` are simply passed through: the loop continues after them from the
state they leave, with their calls recorded. -/
theorem runLines_okFold (F : LoopFacts) (c : Config σ) (pre rest : List Bytes) :
    ∀ (n : Nat) (s s' : σ), okFold c s pre = some s' →
      runLines c (pre ++ rest) n false s =
        ⟨(runLines c rest (n + pre.length) false s').verdict,
         (runLines c rest (n + pre.length) false s').state,
         (runLines c rest (n + pre.length) false s').reported,
         foldCalls c false s n pre ++ (runLines c rest (n + pre.length) false s').calls,
         (runLines c rest (n + pre.length) false s').lineno⟩ := by
  induction pre with
  | nil => intro n s s' h; simp [okFold] at h; subst h; simp [foldCalls]
  | cons l ls ih =>
    intro n s s' h
    simp only [okFold] at h
    split at h
    · rename_i hok
      simp only [List.cons_append]
      rw [runLines_cons F, hok]
      simp only
      rw [ih _ _ _ h]
      simp [foldCalls, hok, Nat.add_assoc, Nat.add_comm 1]
    · simp at h

/-! ### ContinueOnError: lines that end ok or fatal -/

theorem runLines_contFold (F : LoopFacts) (c : Config σ) (hc : c.continueOnError = true) (pre rest : List Bytes) :
    ∀ (n : Nat) (failed : Bool) (s s' : σ) (failed' : Bool), contFold c failed s pre = some (s', failed') →
      runLines c (pre ++ rest) n failed s =
        ⟨(runLines c rest (n + pre.length) failed' s').verdict,
         (runLines c rest (n + pre.length) failed' s').state,
         (match firstFatal c failed s n pre with
          | some k => some k
          | none => (runLines c rest (n + pre.length) failed' s').reported),
         foldCalls c failed s n pre ++ (runLines c rest (n + pre.length) failed' s').calls,
         (runLines c rest (n + pre.length) failed' s').lineno⟩ := by
  induction pre with
  | nil => intro n failed s s' failed' h; simp [contFold] at h; obtain ⟨h1, h2⟩ := h; subst h1 h2; simp [foldCalls, firstFatal]
  | cons l ls ih =>
    intro n failed s s' failed' h
    simp only [contFold] at h
    split at h
    · rename_i hok
      simp only [List.cons_append]
      rw [runLines_cons F, hok]
      simp only
      rw [ih _ _ _ _ _ h]
      simp [foldCalls, firstFatal, hok, Nat.add_assoc, Nat.add_comm 1]
    · rename_i hfatal
      simp only [List.cons_append]
      rw [runLines_cons F, hfatal]
      simp only [hc, if_true]
      rw [ih _ _ _ _ _ h]
      simp [foldCalls, firstFatal, hfatal, Nat.add_assoc, Nat.add_comm 1]
    · simp at h

theorem contFold_of_okFold (c : Config σ) (pre : List Bytes) :
    ∀ (s s' : σ), okFold c s pre = some s' → contFold c false s pre = some (s', false) := by
  induction pre with
  | nil => intro s s' h; simp [okFold] at h; simp [contFold, h]
  | cons l ls ih =>
    intro s s' h
    simp only [okFold] at h
    split at h
    · rename_i hok; simp only [contFold, hok]; exact ih _ _ h
    · simp at h

theorem firstFatal_of_okFold (c : Config σ) (pre : List Bytes) :
    ∀ (s s' : σ) (n : Nat), okFold c s pre = some s' → firstFatal c false s n pre = none := by
  induction pre with
  | nil => intro s s' n _; simp [firstFatal]
  | cons l ls ih =>
    intro s s' n h
    simp only [okFold] at h
    split at h
    · rename_i hok; simp only [firstFatal, hok]; simp; exact ih _ _ _ h
    · simp at h

/-! ### runLine -/

theorem caught_eq (LF : LineFacts) (o : Outcome) : caught o = o := by
  simp [caught, LF.runLineCatchesFailNow, LF.fatalfPanicsFailNow]

theorem lookup_eq (LF : LineFacts) (c : Config σ) (name : Bytes) :
    lookup c name = (match c.builtin name with | some f => some f | none => c.custom name) := by
  cases h : c.builtin name <;> simp [lookup, LF.builtinBeforeCustom, h]

/-- `invoke` on a line whose first word is "!". -/
theorem invoke_bang (LF : LineFacts) (c : Config σ) (failed : Bool) (s : σ) (name : Bytes) (rest : List Bytes)
    (f : Cmd σ) (hf : lookup c name = some f) :
    invoke c failed s ([BANG] :: name :: rest) =
      ⟨(f failed s true rest).1, (f failed s true rest).2, some (true, name, rest)⟩ := by
  simp [invoke, LF.bangSetsNeg, hf, LF.cmdGetsNegAndRest]

/-- `invoke` on a line whose first word is not "!". -/
theorem invoke_plain (LF : LineFacts) (c : Config σ) (failed : Bool) (s : σ) (name : Bytes) (rest : List Bytes)
    (hname : name ≠ [BANG]) (f : Cmd σ) (hf : lookup c name = some f) :
    invoke c failed s (name :: rest) =
      ⟨(f failed s false rest).1, (f failed s false rest).2, some (false, name, rest)⟩ := by
  have : (name == [BANG]) = false := by simpa using hname
  simp [invoke, this, hf, LF.cmdGetsNegAndRest]

theorem invoke_bang_alone (LF : LineFacts) (c : Config σ) (failed : Bool) (s : σ) :
    invoke c failed s [[BANG]] = ⟨s, .fatal, none⟩ := by
  simp [invoke, LF.bangSetsNeg]

theorem invoke_unknown (LF : LineFacts) (c : Config σ) (failed : Bool) (s : σ) (name : Bytes) (rest : List Bytes)
    (hname : name ≠ [BANG]) (hf : lookup c name = none) :
    invoke c failed s (name :: rest) = ⟨s, .fatal, none⟩ := by
  have : (name == [BANG]) = false := by simpa using hname
  simp [invoke, this, hf, LF.unknownCmdFatal]

theorem invoke_bang_unknown (LF : LineFacts) (c : Config σ) (failed : Bool) (s : σ) (name : Bytes) (rest : List Bytes)
    (hf : lookup c name = none) :
    invoke c failed s ([BANG] :: name :: rest) = ⟨s, .fatal, none⟩ := by
  simp [invoke, LF.bangSetsNeg, hf, LF.unknownCmdFatal]

/-- Whatever `invoke` returns other than `fatal` with an unchanged state is what some command returned. -/
theorem invoke_cases (LF : LineFacts) (c : Config σ) (failed : Bool) (s : σ) (args : List Bytes) :
    invoke c failed s args = ⟨s, .fatal, none⟩ ∨
    ∃ name f neg rest, lookup c name = some f ∧
      invoke c failed s args = ⟨(f failed s neg rest).1, (f failed s neg rest).2, some (neg, name, rest)⟩ := by
  unfold invoke
  simp only [LF.bangSetsNeg, LF.unknownCmdFatal, LF.cmdGetsNegAndRest, Bool.true_and, if_true]
  split
  · left; rfl
  · rename_i name rest _
    cases hf : lookup c name with
    | none => left; rfl
    | some f => right; exact ⟨name, f, _, rest, hf, rfl⟩

theorem runArgs_cases (LF : LineFacts) (c : Config σ) (failed : Bool) (s : σ) (args : List Bytes) :
    runArgs c failed s args = ⟨s, .fatal, none⟩ ∨ runArgs c failed s args = ⟨s, .ok, none⟩ ∨
    ∃ name f neg rest, lookup c name = some f ∧
      runArgs c failed s args = ⟨(f failed s neg rest).1, (f failed s neg rest).2, some (neg, name, rest)⟩ := by
  unfold runArgs
  split
  · left; rfl
  · right; left; rfl
  · rename_i a _
    rcases invoke_cases LF c failed s a with h | h
    · left; exact h
    · right; right; exact h

theorem runLine_cases (LF : LineFacts) (c : Config σ) (failed : Bool) (s : σ) (line : Bytes) :
    runLine c failed s line = ⟨s, .fatal, none⟩ ∨ runLine c failed s line = ⟨s, .ok, none⟩ ∨
    ∃ name f neg rest, lookup c name = some f ∧
      runLine c failed s line = ⟨(f failed s neg rest).1, (f failed s neg rest).2, some (neg, name, rest)⟩ := by
  unfold runLine
  split
  · left; simp [caught_eq LF]
  · right; left; simp [LF.blankLineOk]
  · rename_i w ws _
    simp only [caught_eq LF]
    rcases runArgs_cases LF c failed s (w :: ws) with h | h | ⟨name, f, neg, rest, hf, h⟩
    · left; rw [h]
    · right; left; rw [h]
    · right; right; exact ⟨name, f, neg, rest, hf, by rw [h]⟩

theorem lineOut_cases (LF : LineFacts) (c : Config σ) (failed : Bool) (s : σ) (line : Bytes) :
    lineOut c failed s line = ⟨s, .fatal, none⟩ ∨ lineOut c failed s line = ⟨s, .ok, none⟩ ∨
    ∃ name f neg rest, lookup c name = some f ∧
      lineOut c failed s line = ⟨(f failed s neg rest).1, (f failed s neg rest).2, some (neg, name, rest)⟩ := by
  unfold lineOut
  split
  · right; left; rfl
  · exact runLine_cases LF c failed s line

theorem lineOut_not_skip (LF : LineFacts) (c : Config σ) (hh : HonoursFailed c) (s : σ) (line : Bytes) :
    (lineOut c true s line).out ≠ .skip := by
  rcases lineOut_cases LF c true s line with h | h | ⟨name, f, neg, rest, hf, h⟩
  · simp [h]
  · simp [h]
  · rw [h]; exact hh name f s neg rest hf

theorem lineOut_not_crash (LF : LineFacts) (c : Config σ) (hn : NoCrash c) (failed : Bool) (s : σ) (line : Bytes) :
    (lineOut c failed s line).out ≠ .crash := by
  rcases lineOut_cases LF c failed s line with h | h | ⟨name, f, neg, rest, hf, h⟩
  · simp [h]
  · simp [h]
  · rw [h]; exact hn name f failed s neg rest hf

/-- Once a line has failed, the run fails — provided no command skips in spite of `ts.failed`
and none panics. -/
theorem runLines_failed_fail (F : LoopFacts) (LF : LineFacts) (c : Config σ) (hh : HonoursFailed c) (hn : NoCrash c)
    (ls : List Bytes) : ∀ (n : Nat) (s : σ), (runLines c ls n true s).verdict = .fail := by
  induction ls with
  | nil => intro n s; simp [runLines, endVerdict_true F]
  | cons l ls ih =>
    intro n s
    rw [runLines_cons F]
    have h1 := lineOut_not_skip LF c hh s l
    have h2 := lineOut_not_crash LF c hn true s l
    cases h : (lineOut c true s l).out <;> simp_all [endVerdict_true F]
    cases c.continueOnError <;> simp

/-! ### pass -/

/-- every line ends ok, up to a `stop` (auxiliary form of the right-hand side of `pass_iff`) -/
def passes (c : Config σ) : σ → List Bytes → Bool
  | _, [] => true
  | s, l :: ls =>
    match (lineOut c false s l).out with
    | .ok => passes c (lineOut c false s l).state ls
    | .stop => true
    | _ => false

theorem verdict_pass_iff_passes (F : LoopFacts) (c : Config σ) (ls : List Bytes) :
    ∀ (n : Nat) (s : σ), (runLines c ls n false s).verdict = .pass ↔ passes c s ls = true := by
  induction ls with
  | nil => intro n s; simp [runLines, endVerdict_false, passes]
  | cons l ls ih =>
    intro n s
    rw [runLines_cons F]
    simp only [passes]
    cases h : (lineOut c false s l).out <;> simp [endVerdict_false]
    · exact ih _ _
    · cases c.continueOnError <;> simp
      exact runLines_failed_not_pass F c ls _ _

theorem passes_iff (c : Config σ) (ls : List Bytes) :
    ∀ (s : σ), passes c s ls = true ↔
      ((∃ s', okFold c s ls = some s') ∨
       (∃ pre l post s', ls = pre ++ l :: post ∧ okFold c s pre = some s' ∧ (lineOut c false s' l).out = .stop)) := by
  induction ls with
  | nil =>
    intro s
    simp [passes, okFold]
  | cons l ls ih =>
    intro s
    simp only [passes]
    constructor
    · intro h
      split at h
      · rename_i hok
        rcases (ih _).1 h with ⟨s', hs'⟩ | ⟨pre, l', post, s', h1, h2, h3⟩
        · left; exact ⟨s', by simp [okFold, hok, hs']⟩
        · right; exact ⟨l :: pre, l', post, s', by simp [h1], by simp [okFold, hok, h2], h3⟩
      · rename_i hstop
        right; exact ⟨[], l, ls, s, rfl, by simp [okFold], hstop⟩
      · simp at h
    · intro h
      rcases h with ⟨s', hs'⟩ | ⟨pre, l', post, s', h1, h2, h3⟩
      · simp only [okFold] at hs'
        split at hs'
        · rename_i hok; simp only [hok]; exact (ih _).2 (Or.inl ⟨s', hs'⟩)
        · simp at hs'
      · cases pre with
        | nil =>
          simp at h1
          obtain ⟨h1a, h1b⟩ := h1
          subst h1a
          simp [okFold] at h2
          subst h2
          simp [h3]
        | cons p pre =>
          simp at h1
          obtain ⟨h1a, h1b⟩ := h1
          subst h1a
          simp only [okFold] at h2
          split at h2
          · rename_i hok; simp only [hok]; exact (ih _).2 (Or.inr ⟨pre, l', post, s', h1b, h2, h3⟩)
          · simp at h2

/-! ### guards -/

theorem guards_guard (LF : LineFacts) (c : Config σ) (s : σ) (w : Bytes) (rest : List Bytes)
    (hw : isGuardWord w = true) (hrest : rest ≠ []) :
    guards c s (w :: rest) =
      match c.cond s (guardCond w).2 with
      | none => .fatal
      | some ok => if ok ≠ (guardCond w).1 then .skipLine else guards c s rest := by
  have : rest.isEmpty = false := by cases rest <;> simp_all
  simp only [guards, hw, if_true, LF.missingCmdBeforeCond, this, LF.condErrorFatal, LF.guardSkipsOnNe]
  cases c.cond s (guardCond w).2 <;> simp

theorem guards_missing (LF : LineFacts) (c : Config σ) (s : σ) (w : Bytes) (hw : isGuardWord w = true) :
    guards c s [w] = .fatal := by
  simp [guards, hw, LF.missingCmdBeforeCond]

theorem guards_plain (c : Config σ) (s : σ) (w : Bytes) (rest : List Bytes) (hw : isGuardWord w = false) :
    guards c s (w :: rest) = .run (w :: rest) := by
  simp [guards, hw]

theorem runArgs_plain (c : Config σ) (failed : Bool) (s : σ) (w : Bytes) (rest : List Bytes)
    (hw : isGuardWord w = false) : runArgs c failed s (w :: rest) = invoke c failed s (w :: rest) := by
  simp [runArgs, guards_plain c s w rest hw]

theorem runArgs_guard_false (LF : LineFacts) (c : Config σ) (failed : Bool) (s : σ) (w : Bytes) (rest : List Bytes)
    (hw : isGuardWord w = true) (hrest : rest ≠ []) (b : Bool) (hc : c.cond s (guardCond w).2 = some b)
    (hne : b ≠ (guardCond w).1) : runArgs c failed s (w :: rest) = ⟨s, .ok, none⟩ := by
  simp [runArgs, guards_guard LF c s w rest hw hrest, hc, hne]

theorem runArgs_guard_true (LF : LineFacts) (c : Config σ) (failed : Bool) (s : σ) (w : Bytes) (rest : List Bytes)
    (hw : isGuardWord w = true) (hrest : rest ≠ []) (hc : c.cond s (guardCond w).2 = some (guardCond w).1) :
    runArgs c failed s (w :: rest) = runArgs c failed s rest := by
  simp [runArgs, guards_guard LF c s w rest hw hrest, hc]

theorem runArgs_guard_error (LF : LineFacts) (c : Config σ) (failed : Bool) (s : σ) (w : Bytes) (rest : List Bytes)
    (hw : isGuardWord w = true) (hrest : rest ≠ []) (hc : c.cond s (guardCond w).2 = none) :
    runArgs c failed s (w :: rest) = ⟨s, .fatal, none⟩ := by
  simp [runArgs, guards_guard LF c s w rest hw hrest, hc]

theorem runArgs_guard_missing (LF : LineFacts) (c : Config σ) (failed : Bool) (s : σ) (w : Bytes)
    (hw : isGuardWord w = true) : runArgs c failed s [w] = ⟨s, .fatal, none⟩ := by
  simp [runArgs, guards_missing LF c s w hw]

theorem runLine_of_parse (LF : LineFacts) (c : Config σ) (failed : Bool) (s : σ) (line : Bytes) (w : Bytes) (ws : List Bytes)
    (hp : c.parse s line = some (w :: ws)) : runLine c failed s line = runArgs c failed s (w :: ws) := by
  simp [runLine, hp, caught_eq LF]

theorem runLine_blank (LF : LineFacts) (c : Config σ) (failed : Bool) (s : σ) (line : Bytes)
    (hp : c.parse s line = some []) : runLine c failed s line = ⟨s, .ok, none⟩ := by
  simp [runLine, hp, LF.blankLineOk]

theorem runLine_parse_error (LF : LineFacts) (c : Config σ) (failed : Bool) (s : σ) (line : Bytes)
    (hp : c.parse s line = none) : runLine c failed s line = ⟨s, .fatal, none⟩ := by
  simp [runLine, hp, caught_eq LF]

/-! ### cmd/testscript -/

theorem cliAux_true (CF : CliFacts) (vs : List Verdict) : cliAux true vs ≠ 0 := by
  induction vs with
  | nil => simp [cliAux, CF.failedExit]
  | cons v vs ih => cases v <;> simp [cliAux, ih]

theorem cliAux_false (CF : CliFacts) (vs : List Verdict) :
    cliAux false vs = 0 ↔ ∀ v ∈ vs, v ≠ .fail ∧ v ≠ .crash := by
  induction vs with
  | nil => simp [cliAux]
  | cons v vs ih =>
    cases v <;> simp [cliAux, ih, CF.failSetsFailed, CF.skipNotFailure, cliAux_true CF]

end GIV.TsRun
