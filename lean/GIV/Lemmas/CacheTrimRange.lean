/-
  GIV.Lemmas.CacheTrimRange — the due test of `Trim` for EVERY value that can stand in `trim.txt`.

  `trim.txt` holds a decimal number `t` read with `strconv.ParseInt(…, 10, 64)`, so `t` is any int64.
  `time.Unix(t, 0)` stores `t + unixToInternal` (seconds since year 1) in an int64: that addition wraps for
  `t ≥ 2^63 - 62135596800` (and for no negative `t`).  `now.Sub(lastTrim)` is the exact difference of the two
  instants saturated to the `Duration` range `[-2^63, 2^63-1]` ns.

  * `notDueSpec t now` restates that decision with plain integer arithmetic, literal numbers, explicit wrap and
    explicit saturation — no reference to the model or to the regenerated constants;
  * `trimNotDue_eq_spec`: the model's `trimNotDue` (built from `GIV.Gen.Cache`) equals it, for all `t` and `now`;
  * `notDueSpec_closed`: for every int64 `t` and every `now` in `[0, 2^63)` the decision is simply
    `-1 h < now - t·10⁹ < 24 h` — the wrap region and both saturation regions are all on the "due" side;
  * readable corollaries and closed examples evaluated by `decide` (the same `(t, now)` pairs were run through
    `now.Sub(time.Unix(t, 0))` with `go run`: same durations, same verdicts).

  Core Lean only.
-/
import GIV.Lemmas.CacheTrim

namespace GIV.Cache
open GIV

/-! ### the specification: integer arithmetic only -/

/-- two's-complement wrap of an integer into the int64 range. -/
def wrapInt64 (x : Int) : Int := ((x + 2 ^ 63) % 2 ^ 64) - 2 ^ 63

/-- saturation of an integer to the int64 range (what `Time.Sub` does to a `Duration`). -/
def satInt64 (x : Int) : Int :=
  if x < -(2 ^ 63) then -(2 ^ 63) else if x > 2 ^ 63 - 1 then 2 ^ 63 - 1 else x

/-- The instant (nanoseconds since the epoch, unbounded) that `time.Unix(t, 0)` denotes: internal seconds
`t + 62135596800` wrapped to int64. -/
def recordNanos (t : Int) : Int := (wrapInt64 (t + 62135596800) - 62135596800) * 1000000000

/-- "`Trim` returns without trimming" for a record `t` (Unix seconds) at time `now` (Unix nanoseconds):
`d := now.Sub(time.Unix(t,0)); d < 24 h && d > -1 h`. -/
def notDueSpec (t now : Int) : Bool :=
  let d := satInt64 (now - recordNanos t)
  decide (d < 86400000000000) && decide (d > -3600000000000)

/-- the first record value for which `time.Unix` wraps. -/
def firstWrapped : Int := 2 ^ 63 - 62135596800

example : firstWrapped = 9223371974719179008 := by decide

/-! ### the model agrees with the specification -/

theorem wrap64_eq_wrapInt64 (x : Int) : wrap64 x = wrapInt64 x := rfl

theorem timeUnixSec_eq_recordNanos (t : Int) : timeUnixSec t = recordNanos t := by
  unfold timeUnixSec recordNanos unixToInternal
  rw [wrap64_eq_wrapInt64, show Gen.Cache.second = 1000000000 by decide]

theorem durSub_eq_satInt64 (a b : Int) : durSub a b = satInt64 (a - b) := by
  unfold durSub satInt64 minDuration maxDuration
  rfl

/-- The regenerated due test (`d < trimInterval && d > -mtimeInterval`, in whichever order the source has the two
comparisons) on the model's saturated difference is the specification. -/
theorem genNotDue_eq_spec (t now : Int) :
    Gen.Cache.trimNotDue (durSub now (timeUnixSec t)) = notDueSpec t now := by
  rw [timeUnixSec_eq_recordNanos, durSub_eq_satInt64]
  have h1 : Gen.Cache.trimInterval = 86400000000000 := by decide
  have h2 : Gen.Cache.mtimeInterval = 3600000000000 := by decide
  have h : ∀ d : Int, Gen.Cache.trimNotDue d = (decide (d < 86400000000000) && decide (d > -3600000000000)) := by
    intro d
    unfold Gen.Cache.trimNotDue
    -- (insensitive to the order of the two comparisons in the source)
    first | (rw [h1, h2]; done) | (rw [h1, h2]; exact Bool.and_comm _ _)
  rw [h]; rfl

/-- `trimNotDue … = notDueSpec t now`: whenever `trim.txt` exists and parses to `t`, for ALL `t` and `now`. -/
theorem trimNotDue_eq_spec (fs : FS) (now t : Int) (f : File)
    (hf : fs.get Gen.Cache.trimFile = some f)
    (hp : parseInt Gen.Cache.parseBase Gen.Cache.parseBits (trimSpace f.data) = some t) :
    trimNotDue fs now = notDueSpec t now := by
  simp only [trimNotDue, lastTrim?, hf, hp]
  exact genNotDue_eq_spec t now

/-- … and without a readable record the trim is always due. -/
theorem trimNotDue_missing (fs : FS) (now : Int) (hf : fs.get Gen.Cache.trimFile = none) : trimNotDue fs now = false := by
  simp [trimNotDue, lastTrim?, hf]

theorem trimNotDue_corrupt (fs : FS) (now : Int) (f : File) (hf : fs.get Gen.Cache.trimFile = some f)
    (hp : parseInt Gen.Cache.parseBase Gen.Cache.parseBits (trimSpace f.data) = none) : trimNotDue fs now = false := by
  simp [trimNotDue, lastTrim?, hf, hp]

/-! ### every record is an int64 -/

/-- `strconv.ParseInt(s, base, 64)` only returns int64 values. -/
theorem parseInt64_range (base : Nat) (s : Bytes) (t : Int) (h : parseInt base 64 s = some t) :
    -(2 ^ 63) ≤ t ∧ t < 2 ^ 63 := by
  cases s with
  | nil => simp [parseInt] at h
  | cons c r =>
    have hc : (2 : Nat) ^ (64 - 1) = 9223372036854775808 := by decide
    simp only [parseInt, hc] at h
    -- the tail of `ParseInt` after the sign has been stripped (`ds` = the digits)
    have tail : ∀ ds : Bytes,
        (if ds.isEmpty = true then none else
          match parseDigits base ds 0 with
          | none => none
          | some un =>
            if (!decide (c = 45) && decide (un ≥ 9223372036854775808)) = true then none
            else if (decide (c = 45) && decide (un > 9223372036854775808)) = true then none
            else some (if decide (c = 45) = true then -(un : Int) else (un : Int))) = some t →
        -(2 ^ 63) ≤ t ∧ t < 2 ^ 63 := by
      intro ds h
      split at h
      · cases h
      · split at h
        · cases h
        · rename_i un _
          split at h
          · cases h
          · split at h
            · cases h
            · rename_i h1 h2
              simp only [Option.some.injEq] at h
              subst h
              by_cases hneg : c = 45
              · simp [hneg] at h1 h2 ⊢
                omega
              · simp [hneg] at h1 h2 ⊢
                omega
    exact tail _ h

/-! ### the three regions of `t` -/

/-- `time.Unix` does not wrap below `firstWrapped` … -/
theorem recordNanos_unwrapped (t : Int) (h0 : -(2 ^ 63) ≤ t) (h1 : t < firstWrapped) :
    recordNanos t = t * 1000000000 := by
  unfold firstWrapped at h1
  unfold recordNanos wrapInt64
  omega

/-- … and from there on denotes an instant `2^64` seconds earlier. -/
theorem recordNanos_wrapped (t : Int) (h0 : firstWrapped ≤ t) (h1 : t < 2 ^ 63) :
    recordNanos t = (t - 2 ^ 64) * 1000000000 := by
  unfold firstWrapped at h0
  unfold recordNanos wrapInt64
  omega

/-- saturation does not move a difference across a threshold strictly inside the int64 range. -/
theorem satInt64_lt_iff (x c : Int) (h0 : -(2 ^ 63) < c) (h1 : c < 2 ^ 63) : satInt64 x < c ↔ x < c := by
  unfold satInt64
  split
  · omega
  · split
    · omega
    · rfl

theorem satInt64_gt_iff (x c : Int) (h0 : -(2 ^ 63) ≤ c) (h1 : c < 2 ^ 63 - 1) : satInt64 x > c ↔ x > c := by
  unfold satInt64
  split
  · omega
  · split
    · omega
    · rfl

/-- the decision in terms of the instant the record denotes, saturation removed: for all `t`, all `now`. -/
theorem notDueSpec_iff_nanos (t now : Int) :
    notDueSpec t now = true ↔ (-3600000000000 < now - recordNanos t ∧ now - recordNanos t < 86400000000000) := by
  simp only [notDueSpec, Bool.and_eq_true, decide_eq_true_eq]
  rw [satInt64_lt_iff _ _ (by decide) (by decide), satInt64_gt_iff _ _ (by decide) (by decide)]
  omega

/-- (ii) Outside the wrap region — in particular for every `t` whose nanosecond value `t·10⁹` fits in an int64 —
the decision is about real, unwrapped time, for EVERY `now` (no bound on `now` is needed: the saturation of `Sub` is
harmless). -/
theorem notDueSpec_unwrapped (t now : Int) (h0 : -(2 ^ 63) ≤ t) (h1 : t < firstWrapped) :
    notDueSpec t now = true ↔ (-3600000000000 < now - t * 1000000000 ∧ now - t * 1000000000 < 86400000000000) := by
  rw [notDueSpec_iff_nanos, recordNanos_unwrapped t h0 h1]

/-- In the wrap region the record denotes an instant about 292 billion years in the past: always due. -/
theorem notDueSpec_wrapped (t now : Int) (h0 : firstWrapped ≤ t) (h1 : t < 2 ^ 63) (hn0 : 0 ≤ now) :
    notDueSpec t now = false := by
  rw [Bool.eq_false_iff, Ne, notDueSpec_iff_nanos, recordNanos_wrapped t h0 h1]
  unfold firstWrapped at h0
  omega

/-- The closed form for every int64 `t` and every `now` in `[0, 2^63)` ns: not due exactly when the record is less
than 24 h in the past and less than 1 h in the future, *computed with unbounded integers* — wrapping and saturation
never produce a "not due". -/
theorem notDueSpec_closed (t now : Int) (h0 : -(2 ^ 63) ≤ t) (h1 : t < 2 ^ 63) (hn0 : 0 ≤ now) (hn1 : now < 2 ^ 63) :
    notDueSpec t now = true ↔ (-3600000000000 < now - t * 1000000000 ∧ now - t * 1000000000 < 86400000000000) := by
  by_cases hw : t < firstWrapped
  · exact notDueSpec_unwrapped t now h0 hw
  · have hw' : firstWrapped ≤ t := by omega
    rw [notDueSpec_wrapped t now hw' h1 hn0]
    unfold firstWrapped at hw'
    constructor
    · intro h; cases h
    · intro h; omega

/-- The bound `now < 2^63` of `notDueSpec_closed` cannot simply be dropped: for an (unrepresentable) `now` of about
`2^63` *seconds* the closed form and the wrapped reading differ. -/
example : notDueSpec (2 ^ 63 - 1) ((2 ^ 63 - 1) * 1000000000) = false ∧
    (-3600000000000 < (2 ^ 63 - 1) * 1000000000 - (2 ^ 63 - 1) * 1000000000 ∧
      (2 ^ 63 - 1) * 1000000000 - (2 ^ 63 - 1) * 1000000000 < (86400000000000 : Int)) := by decide

/-- (ii) as an implication: a record at least `trimInterval` in the past or at least `mtimeInterval` in the future,
in real time, means due — for every non-wrapping `t`, every `now`. -/
theorem notDueSpec_old_or_future (t now : Int) (h0 : -(2 ^ 63) ≤ t) (h1 : t < firstWrapped)
    (h : 86400000000000 ≤ now - t * 1000000000 ∨ now - t * 1000000000 ≤ -3600000000000) :
    notDueSpec t now = false := by
  rw [Bool.eq_false_iff, Ne, notDueSpec_unwrapped t now h0 h1]
  omega

/-- every `t` whose nanosecond value does not overflow is below the wrap region. -/
theorem nanos_fit_unwrapped (t : Int) (h0 : -(2 ^ 63) ≤ t * 1000000000) (h1 : t * 1000000000 < 2 ^ 63) :
    -(2 ^ 63) ≤ t ∧ t < firstWrapped := by
  unfold firstWrapped; omega

/-- … so beyond `|t| ≈ 9.22·10⁹` (nanoseconds no longer fit) and `now` in range the record is more than 24 h away on
one side or the other: always due, except within the last day before / first hour after `now`. -/
theorem notDueSpec_far (t now : Int) (h0 : -(2 ^ 63) ≤ t) (h1 : t < 2 ^ 63) (hn0 : 0 ≤ now) (hn1 : now < 2 ^ 63)
    (hfar : t < -86400 ∨ 9223372036 + 3600 < t) : notDueSpec t now = false := by
  rw [Bool.eq_false_iff, Ne, notDueSpec_closed t now h0 h1 hn0 hn1]
  omega

/-! ### (iii) closed examples, evaluated by the kernel

`now = 10 d = 864000·10⁹` unless stated otherwise.  Every line was compared with
`now.Sub(time.Unix(t, 0))` / `d < 24h && d > -1h` of the installed Go (`go run`): same durations, same verdicts. -/

/-- ordinary records: 1 day old (due), 1 day − 1 s (not due), 1 h ahead (due), 1 h − 1 s ahead (not due). -/
example : notDueSpec 777600 864000000000000 = false ∧ notDueSpec 777601 864000000000000 = true ∧
    notDueSpec 867600 864000000000000 = false ∧ notDueSpec 867599 864000000000000 = true := by decide

/-- `t` just above `2^63 / 10⁹ = 9223372036.85…`: the nanosecond value overflows, `time.Unix` does not wrap.
At `now = 10 d` the record is 292 years ahead: due.  At `now = 2^63 - 1` ns (year 2262) `t = 9223372037` is 0.145 s
ahead: NOT due — `Sub` computes the exact difference although `t·10⁹` does not fit. -/
example : notDueSpec 9223372036 864000000000000 = false ∧ notDueSpec 9223372037 864000000000000 = false ∧
    notDueSpec 9223372037 (2 ^ 63 - 1) = true ∧ notDueSpec 9223372036 (2 ^ 63 - 1) = true ∧
    notDueSpec 9223372040 (2 ^ 63 - 1) = true ∧
    notDueSpec (9223372036 + 3600) (2 ^ 63 - 1) = true ∧      -- 3599.145 s ahead
    notDueSpec (9223372037 + 3600) (2 ^ 63 - 1) = false ∧     -- 3600.145 s ahead
    notDueSpec (9223372037 + 86400) (2 ^ 63 - 1) = false := by decide

/-- the saturating region (`now - t·10⁹ < -2^63`): `Sub` returns `minDuration`, due. -/
example : satInt64 (864000000000000 - recordNanos 18446744074) = -(2 ^ 63) ∧
    notDueSpec 18446744074 864000000000000 = false ∧ notDueSpec (2 ^ 62) 864000000000000 = false ∧
    notDueSpec (2 ^ 62) (2 ^ 63 - 1) = false ∧ notDueSpec 9223372037 0 = false := by decide

/-- far past (`now - t·10⁹ > 2^63 - 1`): `Sub` returns `maxDuration`, due. -/
example : satInt64 (864000000000000 - recordNanos (-(2 ^ 63))) = 2 ^ 63 - 1 ∧
    notDueSpec (-(2 ^ 63)) 864000000000000 = false ∧ notDueSpec (-(2 ^ 62) - 1) 864000000000000 = false ∧
    notDueSpec (-9223372037) 0 = false := by decide

/-- the wrap region of `time.Unix`: the last non-wrapping value is the far future (`minDuration`), the first wrapping
value and `MaxInt64` are the far past (`maxDuration`) — all due. -/
example : recordNanos (firstWrapped - 1) = (firstWrapped - 1) * 1000000000 ∧
    recordNanos firstWrapped = -(2 ^ 63 + 62135596800) * 1000000000 ∧
    satInt64 (864000000000000 - recordNanos (firstWrapped - 1)) = -(2 ^ 63) ∧
    satInt64 (864000000000000 - recordNanos firstWrapped) = 2 ^ 63 - 1 ∧
    satInt64 (864000000000000 - recordNanos (2 ^ 63 - 1)) = 2 ^ 63 - 1 ∧
    notDueSpec (firstWrapped - 1) 864000000000000 = false ∧
    notDueSpec firstWrapped 864000000000000 = false ∧
    notDueSpec (2 ^ 63 - 1) 864000000000000 = false ∧
    notDueSpec (2 ^ 63 - 1) (2 ^ 63 - 1) = false := by decide

end GIV.Cache
