/-
  GIV.Lemmas.TsRunCmds — facts about the concrete command table (GIV.Model.ScriptCmds):
  no command other than `skip` ever ends in T.Skip (`exec`, `wait`, `kill` with their background
  bookkeeping included), and no command other than `cmp` touches
  `ts.scriptUpdates`; no command touches `ts.scriptFiles`.
-/
import GIV.Model.ScriptCmds

namespace GIV.TsRun.Cmds
open GIV GIV.TsRun GIV.TsRun.Update

/-- ends ok / fatal / stop / (unmodelled) crash — in particular not `skip` and not `failNow`;
and leaves the update bookkeeping alone -/
def Tame (s : St) (r : St × Outcome) : Prop :=
  (r.2 = .ok ∨ r.2 = .fatal ∨ r.2 = .crash ∨ r.2 = .stop) ∧
  r.1.updates = s.updates ∧ r.1.scriptFiles = s.scriptFiles

/-- the same, but the updates may have grown by one `record` -/
def TameCmp (s : St) (r : St × Outcome) : Prop :=
  (r.2 = .ok ∨ r.2 = .fatal ∨ r.2 = .crash) ∧
  (r.1.updates = s.updates ∨ ∃ n c, r.1.updates = record s.updates n c) ∧ r.1.scriptFiles = s.scriptFiles

theorem tame_fatal (s : St) : Tame s (fatal s) := by simp [Tame, fatal]
theorem tame_okay (s : St) : Tame s (okay s) := by simp [Tame, okay]
theorem tame_unm (s : St) : Tame s (unm s) := by simp [Tame, unm]

theorem tame_trans {s s' : St} {r : St × Outcome} (h1 : s'.updates = s.updates) (h2 : s'.scriptFiles = s.scriptFiles)
    (h : Tame s' r) : Tame s r := by
  obtain ⟨a, b, c⟩ := h
  exact ⟨a, by rw [b, h1], by rw [c, h2]⟩

theorem tame_cd (failed : Bool) (s : St) (neg : Bool) (args : List Bytes) : Tame s (cmdCd failed s neg args) := by
  unfold cmdCd
  split
  · exact tame_fatal s
  · split
    · split
      · exact tame_unm s
      · split
        · simp [Tame, okay]
        · exact tame_fatal s
    · exact tame_fatal s

theorem tame_existsLoop (neg ro : Bool) (args : List Bytes) : ∀ s, Tame s (existsLoop s neg ro args) := by
  induction args with
  | nil => intro s; exact tame_okay s
  | cons a args ih =>
    intro s
    simp only [existsLoop]
    split
    · exact tame_unm s
    · split
      · exact tame_fatal s
      · split
        · exact tame_fatal s
        · split
          · exact tame_fatal s
          · exact ih s

theorem tame_exists (failed : Bool) (s : St) (neg : Bool) (args : List Bytes) : Tame s (cmdExists failed s neg args) := by
  unfold cmdExists
  simp only
  repeat' split
  all_goals first | exact tame_fatal s | exact tame_existsLoop _ _ _ s

theorem tame_mkdirLoop (args : List Bytes) : ∀ s, Tame s (mkdirLoop s args) := by
  induction args with
  | nil => intro s; exact tame_okay s
  | cons a args ih =>
    intro s
    simp only [mkdirLoop]
    split
    · exact tame_unm s
    · split
      · exact tame_fatal s
      · exact tame_trans rfl rfl (ih _)

theorem tame_mkdir (failed : Bool) (s : St) (neg : Bool) (args : List Bytes) : Tame s (cmdMkdir failed s neg args) := by
  unfold cmdMkdir
  split
  · exact tame_fatal s
  · split
    · exact tame_fatal s
    · exact tame_mkdirLoop _ s

theorem tame_rmLoop (args : List Bytes) : ∀ s, Tame s (rmLoop s args) := by
  induction args with
  | nil => intro s; exact tame_okay s
  | cons a args ih =>
    intro s
    simp only [rmLoop]
    split
    · exact tame_unm s
    · split
      · exact tame_unm s
      · exact tame_trans rfl rfl (ih _)

theorem tame_rm (failed : Bool) (s : St) (neg : Bool) (args : List Bytes) : Tame s (cmdRm failed s neg args) := by
  unfold cmdRm
  split
  · exact tame_fatal s
  · split
    · exact tame_fatal s
    · exact tame_rmLoop _ s

theorem tame_unquoteLoop (args : List Bytes) : ∀ s, Tame s (unquoteLoop s args) := by
  induction args with
  | nil => intro s; exact tame_okay s
  | cons a args ih =>
    intro s
    simp only [unquoteLoop]
    split
    · exact tame_unm s
    · split
      · exact tame_fatal s
      · split
        · exact tame_fatal s
        · split
          · exact tame_fatal s
          · exact tame_trans rfl rfl (ih _)

theorem tame_unquote (failed : Bool) (s : St) (neg : Bool) (args : List Bytes) : Tame s (cmdUnquote failed s neg args) := by
  unfold cmdUnquote
  split
  · exact tame_fatal s
  · exact tame_unquoteLoop _ s

theorem tame_cpLoop (dst : Path) (dstDir : Bool) (args : List Bytes) : ∀ s, Tame s (cpLoop s dst dstDir args) := by
  induction args with
  | nil => intro s; exact tame_okay s
  | cons a args ih =>
    intro s
    simp only [cpLoop]
    split
    · exact tame_unm s
    · exact tame_unm s
    · exact tame_fatal s
    · split
      · exact tame_fatal s
      · exact tame_trans rfl rfl (ih _)

theorem tame_cp (failed : Bool) (s : St) (neg : Bool) (args : List Bytes) : Tame s (cmdCp failed s neg args) := by
  unfold cmdCp
  split
  · exact tame_fatal s
  · split
    · exact tame_fatal s
    · split
      · exact tame_fatal s
      · split
        · exact tame_unm s
        · simp only
          split
          · exact tame_fatal s
          · exact tame_cpLoop _ _ _ s

theorem tame_env (failed : Bool) (s : St) (neg : Bool) (args : List Bytes) : Tame s (cmdEnv failed s neg args) := by
  unfold cmdEnv
  split
  · exact tame_fatal s
  · simp [Tame, okay]

theorem tame_mv (failed : Bool) (s : St) (neg : Bool) (args : List Bytes) : Tame s (cmdMv failed s neg args) := by
  unfold cmdMv
  split
  · exact tame_fatal s
  · split
    · split
      · split
        · simp [Tame, okay]
        · exact tame_fatal s
        · exact tame_unm s
      · exact tame_unm s
    · exact tame_fatal s

theorem tame_stop (failed : Bool) (s : St) (neg : Bool) (args : List Bytes) : Tame s (cmdStop failed s neg args) := by
  unfold cmdStop
  split
  · exact tame_fatal s
  · split
    · exact tame_fatal s
    · split <;> simp [Tame]

theorem tame_stdin (failed : Bool) (s : St) (neg : Bool) (args : List Bytes) : Tame s (cmdStdin failed s neg args) := by
  unfold cmdStdin
  split
  · exact tame_fatal s
  · split
    · split
      · simp [Tame, okay]
      · exact tame_fatal s
      · exact tame_unm s
    · exact tame_fatal s

theorem tame_wait (failed : Bool) (s : St) (neg : Bool) (args : List Bytes) : Tame s (cmdWait failed s neg args) := by
  unfold cmdWait
  repeat' split
  all_goals first | exact tame_fatal s | exact tame_unm s | (simp [Tame, okay]; done)

theorem tame_kill (failed : Bool) (s : St) (neg : Bool) (args : List Bytes) : Tame s (cmdKill failed s neg args) := by
  unfold cmdKill
  repeat' split
  all_goals first | exact tame_fatal s | exact tame_unm s | (simp [Tame, okay]; done)

theorem tame_execBg (s : St) (neg : Bool) (prog : Bytes) (hargs : List Bytes) (name : Bytes) :
    Tame s (execBg s neg prog hargs name) := by
  unfold execBg
  repeat' split
  all_goals first | exact tame_fatal s | exact tame_unm s | (simp [Tame, okay]; done)

theorem tame_execFg (s : St) (neg : Bool) (prog : Bytes) (hargs : List Bytes) :
    Tame s (execFg s neg prog hargs) := by
  unfold execFg
  repeat' split
  all_goals first | exact tame_fatal s | exact tame_unm s | (simp [Tame, okay]; done)

theorem tame_exec (failed : Bool) (s : St) (neg : Bool) (args : List Bytes) : Tame s (cmdExec failed s neg args) := by
  unfold cmdExec
  repeat' split
  all_goals first | exact tame_fatal s | exact tame_unm s | exact tame_execBg .. | exact tame_execFg .. | (simp [Tame]; done)

theorem tame_unmodelled (failed : Bool) (s : St) (neg : Bool) (args : List Bytes) : Tame s (cmdUnmodelled failed s neg args) :=
  tame_unm s

theorem tame_scriptMatch (s : St) (neg : Bool) (args : List Bytes) (text : Bytes) (g : Bool) :
    Tame s (scriptMatch s neg args text g) := by
  unfold scriptMatch
  simp only
  repeat' split
  all_goals first | exact tame_fatal s | exact tame_okay s | exact tame_unm s

theorem tame_probe (failed : Bool) (s : St) (neg : Bool) (args : List Bytes) : Tame s (cmdProbe failed s neg args) := by
  simp [cmdProbe, Tame, okay]

theorem tame_failcmd (failed : Bool) (s : St) (neg : Bool) (args : List Bytes) : Tame s (cmdFailcmd failed s neg args) :=
  tame_fatal s

theorem tame_shadow (failed : Bool) (s : St) (neg : Bool) (args : List Bytes) : Tame s (cmdShadow failed s neg args) := by
  simp [cmdShadow, Tame, okay]

theorem tame_put (failed : Bool) (s : St) (neg : Bool) (args : List Bytes) : Tame s (cmdPut failed s neg args) := by
  unfold cmdPut
  repeat' split
  all_goals first | exact tame_fatal s | exact tame_unm s | (simp [Tame, okay]; done) | (dsimp only; split <;> simp [Tame, okay, fatal])

theorem tameCmp_doCmdCmp (p : P) (s : St) (neg : Bool) (args : List Bytes) (env : Bool) :
    TameCmp s (doCmdCmp p s neg args env) := by
  have hf : TameCmp s (fatal s) := by simp [TameCmp, fatal]
  have hu : TameCmp s (unm s) := by simp [TameCmp, unm]
  have ho : TameCmp s (okay s) := by simp [TameCmp, okay]
  unfold doCmdCmp
  repeat' split
  all_goals first
    | exact hf
    | exact hu
    | exact ho
    | exact ⟨Or.inl rfl, Or.inr ⟨_, _, rfl⟩, rfl⟩

/-! ### background commands: what `waitBackground(true)` lets through -/

/-- the status `waitAll` consults for one entry -/
def bgStatus (interrupted : Bool) (b : Bg) : Option Bool :=
  if interrupted then b.resultInterrupted else b.result

/-- the entry's process ended, in a way that is determined, and as its line demands:
success without `!`, failure with it -/
def BgAsDemanded (interrupted : Bool) (b : Bg) : Prop :=
  ∃ ok, bgStatus interrupted b = some ok ∧ ok ≠ b.neg

/-- the checking loop runs to its end only if every entry ended as its line demands -/
theorem waitAll_some_all (i : Bool) (bgs : List Bg) : ∀ (o e : Bytes) (r : Bytes × Bytes),
    waitAll i true bgs o e = some (some r) → ∀ b ∈ bgs, BgAsDemanded i b := by
  induction bgs with
  | nil => intro o e r _ b hb; simp at hb
  | cons x xs ih =>
    intro o e r h b hb
    simp only [waitAll, if_true] at h
    split at h
    · simp at h
    · rename_i ok hok
      split at h
      · simp at h
      · rename_i hne
        rcases List.mem_cons.1 hb with rfl | hb
        · exact ⟨ok, by simpa [bgStatus] using hok, by simpa using hne⟩
        · exact ih _ _ r h b hb

/-- … and what it returns then is the outputs joined in the order of `ts.background` -/
theorem waitAll_some_outputs (i : Bool) (bgs : List Bg) : ∀ (o e : Bytes) (r : Bytes × Bytes),
    waitAll i true bgs o e = some (some r) →
    r = (o ++ (bgs.map (·.out)).flatten, e ++ (bgs.map (·.err)).flatten) := by
  induction bgs with
  | nil => intro o e r h; simp [waitAll] at h; simp [← h]
  | cons x xs ih =>
    intro o e r h
    simp only [waitAll, if_true] at h
    split at h
    · simp at h
    · split at h
      · simp at h
      · rw [ih _ _ r h]; simp [List.append_assoc]

/-- the first entry that ended against its line (all earlier ones as demanded) makes the loop call Fatalf -/
theorem waitAll_contradiction (i : Bool) (pre post : List Bg) (b : Bg)
    (hpre : ∀ x ∈ pre, BgAsDemanded i x) (hb : bgStatus i b = some b.neg) : ∀ (o e : Bytes),
    waitAll i true (pre ++ b :: post) o e = some none := by
  induction pre with
  | nil =>
    intro o e
    have : (if i = true then b.resultInterrupted else b.result) = some b.neg := by simpa [bgStatus] using hb
    simp [waitAll, this]
  | cons x xs ih =>
    intro o e
    obtain ⟨ok, h1, h2⟩ := hpre x (by simp)
    have h1' : (if i = true then x.resultInterrupted else x.result) = some ok := by simpa [bgStatus] using h1
    have h2' : (ok == x.neg) = false := by simpa using h2
    simp only [List.cons_append, waitAll, if_true, h1', h2']
    exact ih (fun y hy => hpre y (by simp [hy])) _ _

/-! ### the tables -/

theorem mem_of_lookup {α : Type} (t : List (Bytes × α)) (n : Bytes) (v : α) (h : t.lookup n = some v) : (n, v) ∈ t := by
  induction t with
  | nil => simp [List.lookup] at h
  | cons e t ih =>
    obtain ⟨k, w⟩ := e
    simp only [List.lookup] at h
    split at h
    · rename_i heq
      simp at h
      have : n = k := by simpa using heq
      simp [this, h]
    · simp [ih h]

/-- every builtin but `cmp`, `cmpenv` and `skip` -/
theorem builtin_tame (p : P) (n : Bytes) (f : Cmd St) (h : (builtinTable p).lookup n = some f)
    (h1 : n ≠ lit "cmp") (h2 : n ≠ lit "cmpenv") (h3 : n ≠ lit "skip") :
    ∀ failed s neg args, Tame s (f failed s neg args) := by
  have hm := mem_of_lookup _ _ _ h
  simp only [builtinTable, List.mem_cons, Prod.mk.injEq, List.mem_nil_iff, or_false] at hm
  intro failed s neg args
  rcases hm with ⟨_, rfl⟩ | ⟨_, rfl⟩ | ⟨hn, _⟩ | ⟨hn, _⟩ | ⟨_, rfl⟩ | ⟨_, rfl⟩ | ⟨_, rfl⟩ | ⟨_, rfl⟩ | ⟨_, rfl⟩ | ⟨_, rfl⟩ |
    ⟨_, rfl⟩ | ⟨_, rfl⟩ | ⟨_, rfl⟩ | ⟨hn, _⟩ | ⟨_, rfl⟩ | ⟨_, rfl⟩ | ⟨_, rfl⟩ | ⟨_, rfl⟩ | ⟨_, rfl⟩ | ⟨_, rfl⟩ |
    ⟨_, rfl⟩ | ⟨_, rfl⟩ | ⟨_, rfl⟩ | ⟨_, rfl⟩
  · exact tame_cd ..
  · exact tame_unmodelled ..
  · exact absurd hn h1
  · exact absurd hn h2
  · exact tame_cp ..
  · exact tame_env ..
  · exact tame_exec ..
  · exact tame_exists ..
  · exact tame_scriptMatch ..
  · exact tame_kill ..
  · exact tame_mkdir ..
  · exact tame_mv ..
  · exact tame_rm ..
  · exact absurd hn h3
  · exact tame_scriptMatch ..
  · exact tame_stdin ..
  · exact tame_scriptMatch ..
  · exact tame_unmodelled ..
  · exact tame_scriptMatch ..
  · exact tame_stop ..
  · exact tame_unmodelled ..
  · exact tame_unmodelled ..
  · exact tame_unquote ..
  · exact tame_wait ..

theorem builtin_cmp (p : P) (n : Bytes) (f : Cmd St) (h : (builtinTable p).lookup n = some f)
    (hn : n = lit "cmp" ∨ n = lit "cmpenv") :
    ∀ failed s neg args, TameCmp s (f failed s neg args) := by
  have hm := mem_of_lookup _ _ _ h
  simp only [builtinTable, List.mem_cons, Prod.mk.injEq, List.mem_nil_iff, or_false] at hm
  intro failed s neg args
  rcases hm with ⟨hk, rfl⟩ | ⟨hk, rfl⟩ | ⟨hk, rfl⟩ | ⟨hk, rfl⟩ | ⟨hk, rfl⟩ | ⟨hk, rfl⟩ | ⟨hk, rfl⟩ | ⟨hk, rfl⟩ | ⟨hk, rfl⟩ |
    ⟨hk, rfl⟩ | ⟨hk, rfl⟩ | ⟨hk, rfl⟩ | ⟨hk, rfl⟩ | ⟨hk, rfl⟩ | ⟨hk, rfl⟩ | ⟨hk, rfl⟩ | ⟨hk, rfl⟩ | ⟨hk, rfl⟩ | ⟨hk, rfl⟩ |
    ⟨hk, rfl⟩ | ⟨hk, rfl⟩ | ⟨hk, rfl⟩ | ⟨hk, rfl⟩ | ⟨hk, rfl⟩
  all_goals first
    | exact tameCmp_doCmdCmp p s neg args false
    | exact tameCmp_doCmdCmp p s neg args true
    | (exfalso; rcases hn with hn | hn <;> (rw [hn] at hk; revert hk; decide +kernel))

theorem builtin_skip (p : P) (n : Bytes) (f : Cmd St) (h : (builtinTable p).lookup n = some f)
    (hn : n = lit "skip") : f = cmdSkip := by
  have hm := mem_of_lookup _ _ _ h
  simp only [builtinTable, List.mem_cons, Prod.mk.injEq, List.mem_nil_iff, or_false] at hm
  rcases hm with ⟨hk, rfl⟩ | ⟨hk, rfl⟩ | ⟨hk, rfl⟩ | ⟨hk, rfl⟩ | ⟨hk, rfl⟩ | ⟨hk, rfl⟩ | ⟨hk, rfl⟩ | ⟨hk, rfl⟩ | ⟨hk, rfl⟩ |
    ⟨hk, rfl⟩ | ⟨hk, rfl⟩ | ⟨hk, rfl⟩ | ⟨hk, rfl⟩ | ⟨hk, rfl⟩ | ⟨hk, rfl⟩ | ⟨hk, rfl⟩ | ⟨hk, rfl⟩ | ⟨hk, rfl⟩ | ⟨hk, rfl⟩ |
    ⟨hk, rfl⟩ | ⟨hk, rfl⟩ | ⟨hk, rfl⟩ | ⟨hk, rfl⟩ | ⟨hk, rfl⟩
  all_goals first
    | rfl
    | (exfalso; rw [hn] at hk; revert hk; decide +kernel)

/-- `skip` leaves the update bookkeeping alone, too -/
theorem skip_updates (failed : Bool) (s : St) (neg : Bool) (args : List Bytes) :
    (cmdSkip failed s neg args).1.updates = s.updates ∧ (cmdSkip failed s neg args).1.scriptFiles = s.scriptFiles := by
  unfold cmdSkip
  repeat' split
  all_goals simp [fatal, unm]

theorem custom_tame (p : P) (n : Bytes) (f : Cmd St) (h : (customTable p).lookup n = some f) :
    ∀ failed s neg args, Tame s (f failed s neg args) := by
  have hm := mem_of_lookup _ _ _ h
  unfold customTable at hm
  split at hm
  · simp only [List.mem_cons, Prod.mk.injEq, List.mem_nil_iff, or_false] at hm
    intro failed s neg args
    rcases hm with ⟨_, rfl⟩ | ⟨_, rfl⟩ | ⟨_, rfl⟩ | ⟨_, rfl⟩
    · exact tame_probe ..
    · exact tame_failcmd ..
    · exact tame_put ..
    · exact tame_shadow ..
  · simp at hm

end GIV.TsRun.Cmds
