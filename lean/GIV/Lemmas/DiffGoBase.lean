/-
  GIV.Lemmas.DiffGoBase — shared vocabulary of the equivalence proofs between the Go→Lean translation of
  diff/diff.go (GIV.Gen.DiffGo: `lines`, `tgs`; GIV.Gen.DiffMainGo: `Diff`) and the model GIV.Model.Diff:
  how the model's values (Nat pairs, Nat arrays) look on the Go side (structs of Ints, slices of Ints), and the
  GoLib primitives on such values.
-/
import GIV.Gen.DiffGo

namespace GIV.Go.Diff
open GIV GIV.GoLib GIV.Diff

/-- a pair of the model as the Go `pair{x, y int}` -/
def ofPair (p : Nat × Nat) : GoPair := { x := (p.1 : Int), y := (p.2 : Int) }

/-- an index array of the model as the Go `[]int` -/
def ints (a : Array Nat) : List Int := a.toList.map Int.ofNat

@[simp] theorem ofPair_x (p : Nat × Nat) : (ofPair p).x = (p.1 : Int) := rfl
@[simp] theorem ofPair_y (p : Nat × Nat) : (ofPair p).y = (p.2 : Int) := rfl

theorem ofPair_inj {p q : Nat × Nat} (h : ofPair p = ofPair q) : p = q := by
  cases p; cases q
  simp only [ofPair, GoPair.mk.injEq] at h
  ext <;> simp <;> omega

@[simp] theorem ints_length (a : Array Nat) : (ints a).length = a.size := by simp [ints]

@[simp] theorem ints_empty : ints #[] = [] := rfl

theorem ints_push (a : Array Nat) (v : Nat) : ints (a.push v) = ints a ++ [(v : Int)] := by
  simp [ints]

@[simp] theorem len_ints (a : Array Nat) : GoLib.len (ints a) = (a.size : Int) := by simp [GoLib.len]

/-- `a[i]` on the Go side, at an index that comes from a natural number -/
theorem idx_ints (a : Array Nat) (i : Nat) : GoLib.idx? (ints a) (i : Int) = (a[i]?).map Int.ofNat := by
  simp [GoLib.idx?, ints]

/-- a negative index panics -/
theorem idx_neg {β : Type} (l : List β) (i : Int) (h : i < 0) : GoLib.idx? l i = none := by
  simp [GoLib.idx?]; omega

/-- `l[i]` at a natural index -/
theorem idx_nat {β : Type} (l : List β) (i : Nat) : GoLib.idx? l (i : Int) = l[i]? := by
  simp [GoLib.idx?]

/-- `l[i] = v` at a natural index -/
theorem setIdx_nat {β : Type} (l : List β) (i : Nat) (v : β) :
    GoLib.setIdx? l (i : Int) v = if i < l.length then some (l.set i v) else none := by
  simp only [GoLib.setIdx?, Int.toNat_natCast]
  by_cases h : i < l.length
  · simp [h]
  · simp [h]

theorem setIdx_neg {β : Type} (l : List β) (i : Int) (v : β) (h : i < 0) : GoLib.setIdx? l i v = none := by
  simp [GoLib.setIdx?]; omega

/-- `make([]T, n)` at a natural length -/
theorem make_nat {β : Type} (z : β) (n : Nat) : GoLib.make? z (n : Int) = some (List.replicate n z) := by
  simp [GoLib.make?]

/-- `l[lo:hi]` at natural bounds, in the model's form (`GIV.Diff.slice`) -/
theorem slice_nat {β : Type} (l : List β) (lo hi : Nat) : GoLib.slice? l (lo : Int) (hi : Int) = GIV.Diff.slice l lo hi := by
  simp only [GoLib.slice?, GIV.Diff.slice, Int.toNat_natCast]
  by_cases h : lo ≤ hi ∧ hi ≤ l.length
  · have h' : (0 : Int) ≤ (lo : Int) ∧ (lo : Int) ≤ (hi : Int) ∧ (hi : Int) ≤ (l.length : Int) := by omega
    rw [if_pos h, if_pos h']
    congr 1
    rw [List.drop_take]
  · have h' : ¬ ((0 : Int) ≤ (lo : Int) ∧ (lo : Int) ≤ (hi : Int) ∧ (hi : Int) ≤ (l.length : Int)) := by omega
    rw [if_neg h, if_neg h']

theorem slice_neg {β : Type} (l : List β) (lo hi : Int) (h : lo < 0 ∨ hi < lo) : GoLib.slice? l lo hi = none := by
  simp only [GoLib.slice?]
  rw [if_neg]; omega

end GIV.Go.Diff
