/-
  The index form of os.Expand / getShellName (`osExpandIdx`: Go's `i`, `j`, `buf`, `s[i:j]`) never
  panics and computes exactly the structural form `osExpand` used by the C02 theorems.
-/
import GIV.Lemmas.ScriptIdx
import GIV.Lemmas.ScriptExpand
namespace GIV.Script
open GIV

theorem sliceB_eq_slice (s : Bytes) (a b : Nat) : sliceB s a b = slice s a b := rfl

theorem take_length_takeWhile (p : UInt8 → Bool) (l : Bytes) : l.take (l.takeWhile p).length = l.takeWhile p := by
  induction l with
  | nil => rfl
  | cons c l ih =>
    by_cases h : p c = true
    · simp [h, ih]
    · simp [h]

theorem takeWhile_length_le (p : UInt8 → Bool) (l : Bytes) : (l.takeWhile p).length ≤ l.length := by
  induction l with
  | nil => simp
  | cons c l ih =>
    by_cases h : p c = true
    · simp [h]; omega
    · simp [h]

/-! ### the scans -/

theorem scanAlnumIdx_eq (s : Bytes) : ∀ fuel i, s.length - i ≤ fuel →
    scanAlnumIdx s fuel i = i + ((s.drop i).takeWhile isAlphaNum).length := by
  intro fuel
  induction fuel with
  | zero =>
    intro i h
    have : s.drop i = [] := List.drop_eq_nil_of_le (by omega)
    simp [scanAlnumIdx, this]
  | succ fuel ih =>
    intro i h
    rw [scanAlnumIdx]
    cases hi : s[i]? with
    | none => simp [drop_of_getElem?_none hi]
    | some c =>
      have hlt : i < s.length := (List.getElem?_eq_some_iff.1 hi).1
      rw [drop_of_getElem?_some hi]
      by_cases hc : isAlphaNum c = true
      · simp only [hc, if_true, List.takeWhile_cons, List.length_cons]
        rw [ih (i + 1) (by omega)]
        omega
      · simp [hc]

theorem scanBraceIdx_eq (s : Bytes) : ∀ fuel i, 1 ≤ i → s.length - i ≤ fuel →
    scanBraceIdx s fuel i =
      (if ((s.drop i).takeWhile (· != RBRACE)).length = (s.drop i).length then ([], 1)
       else if i + ((s.drop i).takeWhile (· != RBRACE)).length = 1 then ([], 2)
       else (sliceB s 1 (i + ((s.drop i).takeWhile (· != RBRACE)).length),
             i + ((s.drop i).takeWhile (· != RBRACE)).length + 1)) := by
  intro fuel
  induction fuel with
  | zero =>
    intro i _ h
    have : s.drop i = [] := List.drop_eq_nil_of_le (by omega)
    simp [scanBraceIdx, this]
  | succ fuel ih =>
    intro i h1 h
    rw [scanBraceIdx]
    cases hi : s[i]? with
    | none => simp [drop_of_getElem?_none hi]
    | some c =>
      have hlt : i < s.length := (List.getElem?_eq_some_iff.1 hi).1
      rw [drop_of_getElem?_some hi]
      by_cases hc : c = RBRACE
      · subst hc
        simp
      · have hne : (c != RBRACE) = true := by simpa using hc
        simp only [hc, if_false, List.takeWhile_cons, hne, if_true, List.length_cons]
        rw [ih (i + 1) (by omega) (by omega)]
        have e1 : i + 1 + ((s.drop (i + 1)).takeWhile (· != RBRACE)).length =
            i + (((s.drop (i + 1)).takeWhile (· != RBRACE)).length + 1) := by omega
        have e2 : ¬ (i + (((s.drop (i + 1)).takeWhile (· != RBRACE)).length + 1) = 1) := by omega
        have e3 : ¬ (i + 1 + ((s.drop (i + 1)).takeWhile (· != RBRACE)).length = 1) := by omega
        by_cases hfull : ((s.drop (i + 1)).takeWhile (· != RBRACE)).length = (s.drop (i + 1)).length
        · simp [hfull]
        · simp [e2, e1]

theorem scanBraceIdx_one (c0 : UInt8) (s : Bytes) :
    scanBraceIdx (c0 :: s) (c0 :: s).length 1 = scanBrace s := by
  rw [scanBraceIdx_eq (c0 :: s) _ 1 (Nat.le_refl 1) (by simp)]
  simp only [List.drop_succ_cons, List.drop_zero, scanBrace]
  by_cases hfull : (s.takeWhile (· != RBRACE)).length = s.length
  · simp [hfull]
  · by_cases hemp : (s.takeWhile (· != RBRACE)).length = 0
    · have : (s.takeWhile (· != RBRACE)) = [] := List.eq_nil_of_length_eq_zero hemp
      simp [this]
    · have hne : (s.takeWhile (· != RBRACE)).isEmpty = false := by
        cases h : s.takeWhile (· != RBRACE) with
        | nil => simp [h] at hemp
        | cons _ _ => rfl
      have h1 : ¬ (1 + (s.takeWhile (· != RBRACE)).length = 1) := by omega
      simp only [hfull, if_false, h1, hne, Bool.false_eq_true]
      have : sliceB (c0 :: s) 1 (1 + (s.takeWhile (· != RBRACE)).length) = s.takeWhile (· != RBRACE) := by
        simp [sliceB, take_length_takeWhile]
      rw [this]
      congr 1
      omega

/-! ### getShellName -/

theorem getShellNameIdx_eq (c : UInt8) (s : Bytes) : getShellNameIdx (c :: s) = some (getShellName c s) := by
  unfold getShellNameIdx getShellName
  simp only [List.getElem?_cons_zero]
  by_cases hb : c = LBRACE
  · simp only [hb, if_true]
    cases s with
    | nil =>
      have := scanBraceIdx_one LBRACE []
      simp only [List.length_cons, List.length_nil] at this
      simp [this]
    | cons c1 t =>
      cases t with
      | nil =>
        have := scanBraceIdx_one LBRACE [c1]
        simp only [List.length_cons, List.length_nil] at this
        simp [this]
      | cons c2 t =>
        by_cases hs : (isShellSpecialVar c1 && c2 == RBRACE) = true
        · have h1 : isShellSpecialVar c1 = true := by simp at hs; exact hs.1
          have h2 : c2 = RBRACE := by simp at hs; exact hs.2
          simp [h1, h2, sliceB]
        · have hs' : (isShellSpecialVar c1 && c2 == RBRACE) = false := by simpa using hs
          have := scanBraceIdx_one LBRACE (c1 :: c2 :: t)
          simp only [List.length_cons] at this
          by_cases h1 : isShellSpecialVar c1 = true
          · have h2 : (c2 == RBRACE) = false := by simpa [h1] using hs'
            have h2' : c2 ≠ RBRACE := by simpa using h2
            simp [h1, h2, this]
          · have h1' : isShellSpecialVar c1 = false := by simpa using h1
            simp [h1', this]
  · simp only [hb, if_false]
    by_cases hsp : isShellSpecialVar c = true
    · simp [hsp, sliceB]
    · simp only [hsp, Bool.false_eq_true, if_false]
      rw [scanAlnumIdx_eq (c :: s) _ 0 (by simp)]
      simp [sliceB, take_length_takeWhile]

theorem scanBrace_w_le (t : Bytes) : (scanBrace t).2 ≤ t.length + 1 := by
  unfold scanBrace
  by_cases hfull : (t.takeWhile (· != RBRACE)).length = t.length
  · simp [hfull]
  · have hle := takeWhile_length_le (· != RBRACE) t
    by_cases hemp : (t.takeWhile (· != RBRACE)).isEmpty = true
    · simp only [hfull, if_false, hemp, if_true]
      have : (t.takeWhile (· != RBRACE)).length = 0 := by
        cases h : t.takeWhile (· != RBRACE) with
        | nil => rfl
        | cons _ _ => simp [h] at hemp
      omega
    · simp only [hfull, if_false, hemp, Bool.false_eq_true]
      omega

/-- `w` never exceeds the text it was computed from (so `s[i:]` cannot panic). -/
theorem getShellName_w_le (c : UInt8) (s : Bytes) : (getShellName c s).2 ≤ (c :: s).length := by
  unfold getShellName
  by_cases hb : c = LBRACE
  · simp only [hb, if_true]
    cases s with
    | nil => have := scanBrace_w_le []; simpa using this
    | cons c1 t =>
      cases t with
      | nil => have := scanBrace_w_le [c1]; simpa using this
      | cons c2 t =>
        by_cases hs : (isShellSpecialVar c1 && c2 == RBRACE) = true
        · simp [hs]
        · have := scanBrace_w_le (c1 :: c2 :: t)
          simp only [hs, Bool.false_eq_true, if_false]
          simpa using this
  · simp only [hb, if_false]
    by_cases hsp : isShellSpecialVar c = true
    · simp [hsp]
    · simp only [hsp, Bool.false_eq_true, if_false]
      exact takeWhile_length_le isAlphaNum (c :: s)

/-! ### the loop -/

theorem osExpandGo_skip_general (m : Bytes → Bytes) (t : Bytes) : ∀ n, osExpandGo m n t = osExpandGo m 0 (t.drop n) := by
  induction t with
  | nil => intro n; cases n <;> simp [osExpandGo]
  | cons c t ih =>
    intro n
    cases n with
    | zero => rfl
    | succ n => simpa [osExpandGo] using ih n

theorem osExpandIdxLoop_eq (m : Bytes → Bytes) (s : Bytes) :
    ∀ fuel j i buf, i ≤ j → j ≤ s.length → s.length - j < fuel →
      osExpandIdxLoop m s fuel j i buf = some (buf ++ sliceB s i j ++ osExpandGo m 0 (s.drop j)) := by
  intro fuel
  induction fuel with
  | zero => intro j i buf _ _ h; omega
  | succ fuel ih =>
    intro j i buf hij hj hf
    rw [osExpandIdxLoop]
    by_cases hlt : j < s.length
    · simp only [hlt, if_true]
      obtain ⟨c, hc⟩ : ∃ c, s[j]? = some c := ⟨s[j], List.getElem?_eq_getElem hlt⟩
      have hd : s.drop j = c :: s.drop (j + 1) := drop_of_getElem?_some hc
      have hsl : sliceB s i (j + 1) = sliceB s i j ++ [c] := slice_succ hij hc
      by_cases hcond : (s[j]? == some DOLLAR && decide (j + 1 < s.length)) = true
      · -- a '$' with something after it
        have hcd : c = DOLLAR := by
          have : (s[j]? == some DOLLAR) = true := by simp at hcond; simpa using hcond.1
          rw [hc] at this; simpa using this
        have hj1 : j + 1 < s.length := by simp at hcond; exact hcond.2
        subst hcd
        obtain ⟨c1, hc1⟩ : ∃ c1, s[j + 1]? = some c1 := ⟨s[j + 1], List.getElem?_eq_getElem hj1⟩
        have hd1 : s.drop (j + 1) = c1 :: s.drop (j + 2) := drop_of_getElem?_some hc1
        have hw := getShellName_w_le c1 (s.drop (j + 2))
        have hlen : (c1 :: s.drop (j + 2)).length = s.length - (j + 1) := by
          rw [← hd1]; simp
        simp only [hcond, if_true, hd1, getShellNameIdx_eq]
        rw [ih (j + (getShellName c1 (s.drop (j + 2))).2 + 1) _ _ (Nat.le_refl _) (by omega) (by omega)]
        have hdd : (c1 :: s.drop (j + 2)).drop (getShellName c1 (s.drop (j + 2))).2 =
            s.drop (j + (getShellName c1 (s.drop (j + 2))).2 + 1) := by
          rw [← hd1, List.drop_drop]
          congr 1
          omega
        have hgo := osExpandGo_dollar m c1 (s.drop (j + 2))
        rw [osExpandGo_skip_general m (c1 :: s.drop (j + 2)), hdd] at hgo
        rw [hd, hd1, hgo]
        have hself : ∀ a, sliceB s a a = [] := fun a => slice_self s a
        by_cases h1 : ((getShellName c1 (s.drop (j + 2))).1.isEmpty && decide ((getShellName c1 (s.drop (j + 2))).2 > 0)) = true
        · simp [h1, hself, List.append_assoc]
        · by_cases h2 : (getShellName c1 (s.drop (j + 2))).1.isEmpty = true
          · have hw0 : ¬ (0 < (getShellName c1 (s.drop (j + 2))).2) := by simpa [h2] using h1
            simp [h2, hself, hw0, List.append_assoc]
          · simp [h2, hself, List.append_assoc]
      · -- an ordinary byte, or a '$' at the very end
        simp only [hcond, Bool.false_eq_true, if_false]
        rw [ih (j + 1) i buf (by omega) (by omega) (by omega), hsl, hd]
        have hstep : osExpandGo m 0 (c :: s.drop (j + 1)) = c :: osExpandGo m 0 (s.drop (j + 1)) := by
          by_cases hcd : c = DOLLAR
          · have hlast : ¬ (j + 1 < s.length) := by
              intro h
              apply hcond
              simp [hc, hcd, h]
            have : s.drop (j + 1) = [] := List.drop_eq_nil_of_le (by omega)
            simp [this, osExpandGo]
          · exact osExpandGo_cons_ne m c _ hcd
        rw [hstep]
        simp [List.append_assoc]
    · -- end of the string
      have hjl : j = s.length := by omega
      subst hjl
      have hi : i ≤ s.length := hij
      simp only [Nat.lt_irrefl, if_false, hi, if_true]
      have : sliceB s i s.length = s.drop i := by
        unfold sliceB
        apply List.take_of_length_le
        simp
      simp [this, osExpandGo]

/-- The index form of os.Expand never panics and equals the structural form. -/
theorem osExpandIdx_eq (s : Bytes) (m : Bytes → Bytes) : osExpandIdx s m = some (osExpand s m) := by
  have := osExpandIdxLoop_eq m s (s.length + 1) 0 0 [] (Nat.le_refl 0) (Nat.zero_le _) (by omega)
  simpa [osExpandIdx, osExpand, sliceB] using this

end GIV.Script
